import GoCo.Runtime.Term
import GoCo.Runtime.Ref
import GoCo.Runtime.Machine
import GoCo.Runtime.Refine
import GoCo.Runtime.Gen
import GoCo.Runtime.Concrete
import GoCo.Driver.Sexp
import GoCo.Driver.RuntimeDrv
