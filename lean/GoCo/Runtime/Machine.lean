/-
  Runtime layer, part 3: the model of seq/seq.go after defunctionalisation.

  Every Go closure that captures a continuation is a constructor of `Cont`:
    Start's final continuation  `func(t, v) { it.result = v }`           ↔ `Cont.done`      (seq.go 62-70)
    Combine's inner closure     `func(t, v) { if t == kNormal {s2(c,k)} else {k(t,v)} }` ↔ `Cont.combK b k` (142-155)
    For's body continuation     `func(t, v) { switch t {...} }`           ↔ `Cont.loopK …`   (108-119)
  The per-iterator cell `co.step` is the `cell` field of `Cfg.halt`: `Bind` writes it and returns
  (76-94: nothing runs after the write, so the machine halts), `mkNextRecv` reads and clears it (47-55).

  Transitions (one per Go call; in the pinned code every call is a tail call that Go does not
  eliminate, so *the number of transitions since the start of an advance is the Go stack depth*,
  see Props/C17):
    eval (sig s v) k        ⟶ apply k s v              seqOfK / ReturnValue          (157-171)
    eval (bind v f g) k     ⟶ halt (cell := v,f,g,k)   Bind / BindRecv               (76-94)
    eval (delay f g) k st   ⟶ eval (f st) k (g st)     Delay                         (136-140)
    eval (combine a b) k    ⟶ eval a (combK b k)       Combine                       (142-155)
    eval (loop c p body) k  ⟶ loop … skip:=true        For: `loop(true)`             (124)
    loop … skip st          ⟶ post?; cond?; eval body (loopK …) | apply k normal zero  (103-123)
    apply (loopK …) s v     ⟶ normal,cont ↦ loop skip:=false | brk ↦ apply k normal zero | ret ↦ apply k ret v
    apply (combK b k) s v   ⟶ s = normal ↦ eval b k | apply k s v
    apply done s v          ⟶ halt (cell := none, result := v)
    a panicking thunk / cond / post ⟶ panicked p st  (the Go panic unwinds through `next` into MoveNext/Send)
-/
import GoCo.Runtime.Ref
set_option autoImplicit false

namespace GoCo
variable {σ V P : Type}

inductive Cont (σ V P : Type) : Type where
  | done
  | loopK (n : Nat) (c : Option (σ → CondR P × σ)) (p : Option (σ → Option P × σ))
      (body : Term σ V P) (k : Cont σ V P)
  | combK (b : Term σ V P) (k : Cont σ V P)

/-- `*step[V]`: the value delivered and the suspended rest (thunk + captured continuation) -/
structure Pending (σ V P : Type) where
  value : V
  f : V → σ → Term σ V P
  g : V → σ → σ
  k : Cont σ V P

inductive Cfg (σ V P : Type) : Type where
  | eval (t : Term σ V P) (k : Cont σ V P) (st : σ)
  | apply (k : Cont σ V P) (s : Sig) (v : V) (st : σ)
  | loop (n : Nat) (c : Option (σ → CondR P × σ)) (p : Option (σ → Option P × σ))
      (body : Term σ V P) (k : Cont σ V P) (skip : Bool) (st : σ)
  | halt (st : σ) (cell : Option (Pending σ V P)) (result : Option V)
  | panicked (p : P) (st : σ)
  | oob

def step [Inhabited V] (N : Nat) : Cfg σ V P → Cfg σ V P
  | .eval (.sig s v) k st => .apply k s v st
  | .eval (.bind v f g) k st => .halt st (some ⟨v, f, g, k⟩) none
  | .eval (.delay f g) k st => .eval (f st) k (g st)
  | .eval (.combine a b) k st => .eval a (.combK b k) st
  | .eval (.loop c p body) k st => .loop N c p body k true st
  | .eval (.panic e) _ st => .panicked e st
  | .apply .done _ v st => .halt st none (some v)
  | .apply (.combK b k) s v st => if s = .normal then .eval b k st else .apply k s v st
  | .apply (.loopK n c p body k) s v st =>
      match s with
      | .normal | .cont => .loop n c p body k false st
      | .brk => .apply k .normal default st
      | .ret => .apply k .ret v st
  | .loop 0 _ _ _ _ _ _ => .oob
  | .loop (n+1) c p body k skip st =>
      match loopHead c p skip st with
      | .stop st2 => .apply k .normal default st2
      | .panic e st2 => .panicked e st2
      | .go st2 => .eval body (.loopK n c p body k) st2
  | .halt st cell r => .halt st cell r
  | .panicked e st => .panicked e st
  | .oob => .oob

def run [Inhabited V] (N : Nat) : Nat → Cfg σ V P → Cfg σ V P
  | 0, c => c
  | n+1, c => run N n (step N c)

/-- a configuration in which the Go call stack has unwound back to the consumer -/
def Cfg.final : Cfg σ V P → Bool
  | .halt .. | .panicked .. | .oob => true
  | _ => false

def Reaches [Inhabited V] (N : Nat) (c c' : Cfg σ V P) : Prop := ∃ n, run N n c = c'

section
variable [Inhabited V]

theorem Reaches.refl (N : Nat) (c : Cfg σ V P) : Reaches N c c := ⟨0, rfl⟩

theorem run_add (N a b : Nat) (c : Cfg σ V P) : run N (a + b) c = run N b (run N a c) := by
  induction a generalizing c with
  | zero => simp [run]
  | succ a ih => rw [Nat.succ_add]; simp [run, ih]

theorem Reaches.trans {N : Nat} {a b c : Cfg σ V P} : Reaches N a b → Reaches N b c → Reaches N a c := by
  rintro ⟨n, rfl⟩ ⟨m, rfl⟩; exact ⟨n + m, run_add N n m a⟩

theorem Reaches.step' {N : Nat} {a c : Cfg σ V P} (h : Reaches N (step N a) c) : Reaches N a c := by
  obtain ⟨n, rfl⟩ := h; exact ⟨n+1, rfl⟩

theorem step_final {N : Nat} {c : Cfg σ V P} (h : c.final = true) : step N c = c := by
  cases c <;> simp [Cfg.final] at h <;> rfl

theorem run_final {N : Nat} (n : Nat) {c : Cfg σ V P} (h : c.final = true) : run N n c = c := by
  induction n with
  | zero => rfl
  | succ n ih => simp [run, step_final h, ih]

/-- the machine is deterministic: two final configurations reached from the same start coincide -/
theorem Reaches.final_unique {N : Nat} {c a b : Cfg σ V P}
    (ha : Reaches N c a) (hb : Reaches N c b) (fa : a.final = true) (fb : b.final = true) : a = b := by
  obtain ⟨n, rfl⟩ := ha; obtain ⟨m, rfl⟩ := hb
  rcases Nat.le_total n m with h | h
  · obtain ⟨d, rfl⟩ := Nat.exists_eq_add_of_le h
    rw [run_add, run_final d fa]
  · obtain ⟨d, rfl⟩ := Nat.exists_eq_add_of_le h
    rw [run_add, run_final d fb]

end
end GoCo

namespace GoCo
variable {σ V P : Type} [Inhabited V]

/-- `run` that stops at a final configuration (what the compiled driver executes) -/
def runFast (N : Nat) : Nat → Cfg σ V P → Cfg σ V P
  | 0, c => c
  | n+1, c => if c.final then c else runFast N n (step N c)

theorem runFast_eq_run (N n : Nat) (c : Cfg σ V P) : runFast N n c = run N n c := by
  induction n generalizing c with
  | zero => rfl
  | succ n ih =>
    simp only [runFast, run]
    split
    · rename_i h; rw [step_final h, run_final n h]
    · exact ih _

@[csimp] theorem run_eq_runFast : @run = @runFast := by
  funext σ V P _ N n c; exact (runFast_eq_run N n c).symm

/-- number of transitions until a final configuration (= Go frames pushed during the advance) -/
def stepsToFinal (N : Nat) : Nat → Cfg σ V P → Nat
  | 0, _ => 0
  | n+1, c => if c.final then 0 else stepsToFinal N n (step N c) + 1

end GoCo
