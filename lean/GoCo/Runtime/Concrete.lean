/-
  A first-order syntax of combinator terms with scripted thunks over a concrete store, executed both
  by the Lean model (through `build`, into the shallow `Term`) and by the Go harness (through the real
  seq API).  This is the input language of correspondence K1/K2.

  Store: 4 integer cells and an event log.  Running a thunk logs `t<id>`, a condition `c<id>`,
  a post `p<id>`; then performs its actions.  Value expressions are evaluated when the enclosing
  thunk *builds* the term - Go's eager evaluation of `Bind`'s first argument.
-/
import GoCo.Runtime.Gen
set_option autoImplicit false

namespace GoCo

structure Store where
  cells : List Int := [0, 0, 0, 0]
  log : List String := []      -- newest first
  depth : Nat := 0             -- K2: Go frames pushed so far in this advance (set by the driver)
  logDepth : Bool := false     -- K2: tag every event with the depth at which its callback runs
deriving Repr

def Store.get (s : Store) (j : Nat) : Int := s.cells.getD (j % 4) 0
def Store.set (s : Store) (j : Nat) (v : Int) : Store := { s with cells := s.cells.set (j % 4) v }
def Store.emit (s : Store) (e : String) : Store := { s with log := e :: s.log }

inductive VE | const (n : Int) | cell (j : Nat) | cellPlus (j : Nat) (n : Int)
deriving Repr

def VE.eval (st : Store) : VE → Int
  | .const n => n
  | .cell j => st.get j
  | .cellPlus j n => st.get j + n

inductive Act | inc (j : Nat) | set (j : Nat) (n : Int) | recvTo (j : Nat)
deriving Repr

def Act.run (recv : Int) (st : Store) : Act → Store
  | .inc j => st.set j (st.get j + 1)
  | .set j n => st.set j n
  | .recvTo j => st.set j recv

/-- a scripted callback: event id, actions, and whether it panics after the actions -/
structure Script where
  id : Nat
  acts : List Act
  pn : Option String
deriving Repr

/-- frames between the transition that calls a callback and the callback's own frame: the callback
    itself (+1); a plain `Bind` thunk is wrapped once more by mkNext (seq.go 57-59) -/
def Script.store (tag : String) (sc : Script) (recv : Int) (st : Store) (extra : Nat := 1) : Store :=
  let ev := if st.logDepth then s!"{tag}{sc.id}@{st.depth + extra}" else tag ++ toString sc.id
  sc.acts.foldl (Act.run recv) (st.emit ev)

/-- condition: `cells[j] < n` after the script ran -/
structure CCond where
  sc : Script
  j : Nat
  n : Int
deriving Repr

inductive CTerm where
  | normal | brk | cont | ret
  | retv (v : VE)
  | bind (v : VE) (th : Script) (body : CTerm)
  | delay (th : Script) (body : CTerm)
  | combine (a b : CTerm)
  | loop (c : Option CCond) (p : Option Script) (body : CTerm)
  | twice (a : CTerm)               -- v := a; Combine(v, v): one Seq value run twice (a value has no state)
  | ite (c : CCond) (a b : CTerm)   -- Delay(func() Seq { if c() { return a }; return b }): a state-dependent branch
deriving Repr

def CCond.fn (c : CCond) (st : Store) : CondR String × Store :=
  let st' := c.sc.store "c" 0 st
  match c.sc.pn with
  | some p => (.panic p, st')
  | none => (if st'.get c.j < c.n then .t else .f, st')

def postFn (p : Script) (st : Store) : Option String × Store := (p.pn, p.store "p" 0 st)

/-- `build t st`: the Seq value the Go expression for `t` evaluates to in store `st` -/
def build : CTerm → Store → Term Store Int String
  | .normal, _ => .sig .normal 0
  | .brk, _ => .sig .brk 0
  | .cont, _ => .sig .cont 0
  | .ret, _ => .sig .ret 0
  | .retv v, st => .sig .ret (v.eval st)
  | .bind v th body, st =>
      let extra := if th.acts.any (fun a => match a with | .recvTo _ => true | _ => false) then 1 else 2
      .bind (v.eval st)
        (fun recv st' => match th.pn with
          | some p => .panic p
          | none => build body (th.store "t" recv st' extra))
        (fun recv st' => th.store "t" recv st' extra)
  | .delay th body, _ =>
      .delay
        (fun st' => match th.pn with
          | some p => .panic p
          | none => build body (th.store "t" 0 st'))
        (fun st' => th.store "t" 0 st')
  | .combine a b, st => .combine (build a st) (build b st)
  | .loop c p body, st => .loop (c.map CCond.fn) (p.map postFn) (build body st)
  | .twice a, st => .combine (build a st) (build a st)
  | .ite c a b, _ =>
      .delay
        (fun st' => match c.fn st' with
          | (.panic p, _) => .panic p
          | (.t, st'') => build a st''
          | (.f, st'') => build b st'')
        (fun st' => (c.fn st').2)

end GoCo
