/-
  Runtime layer, part 2: the reference interpreter "structured loops with break/continue/return"
  (the documented semantics of seq/README.md), by structural recursion on terms.  Loops get an
  iteration budget `N` (a proof device: every theorem is ∀ N).
-/
import GoCo.Runtime.Term
set_option autoImplicit false

namespace GoCo
variable {σ V P : Type}

/-- result of one loop-iteration prologue (seq.go `loop`: post unless skipped, then the condition) -/
inductive Head (σ P : Type) | stop (st : σ) | go (st : σ) | panic (p : P) (st : σ)

def loopHead (cond : Option (σ → CondR P × σ)) (post : Option (σ → Option P × σ))
    (skipPost : Bool) (st : σ) : Head σ P :=
  let afterPost : Head σ P :=
    match post, skipPost with
    | some p, false =>
      match p st with
      | (some e, st1) => .panic e st1
      | (none, st1) => .go st1
    | _, _ => .go st
  match afterPost with
  | .go st1 =>
    match cond with
    | none => .go st1
    | some c =>
      match c st1 with
      | (.t, st2) => .go st2
      | (.f, st2) => .stop st2
      | (.panic e, st2) => .panic e st2
  | h => h

/-- the reference loop: what a loop does with the signal its body completed with -/
def loopRef [Inhabited V] (cond : Option (σ → CondR P × σ)) (post : Option (σ → Option P × σ))
    (body : σ → Res σ V P) : Nat → Bool → σ → Res σ V P
  | 0, _, _ => .oob
  | n+1, skipPost, st =>
    match loopHead cond post skipPost st with
    | .stop st2 => .done .normal default st2
    | .panic e st2 => .panic e st2
    | .go st2 =>
      (body st2).bind fun s v st3 =>
        match s with
        | .normal | .cont => loopRef cond post body n false st3
        | .brk => .done .normal default st3
        | .ret => .done .ret v st3

def ref [Inhabited V] (N : Nat) : Term σ V P → σ → Res σ V P
  | .sig s v, st => .done s v st
  | .bind v f g, st => .yield v st (fun recv st' => ref N (f recv st') (g recv st'))
  | .delay f g, st => ref N (f st) (g st)
  | .combine a b, st => (ref N a st).bind fun s v st' =>
      if s = .normal then ref N b st' else .done s v st'
  | .loop c p body, st => loopRef c p (ref N body) N true st
  | .panic p, st => .panic p st

end GoCo
