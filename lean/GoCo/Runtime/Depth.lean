/-
  Runtime layer, part 6: the Go stack during an advance (C17).

  The machine (Machine.lean) models what seq.go computes; this module models how deep the Go stack is while
  it does so.  Every machine transition is one Go call that is not eliminated as a tail call, so it runs
  one frame deeper than its caller - with one exception, the repaired `For` (5f77a8a): when the body of a
  loop completes (Normal / Continue) while the frame of that loop activation is still on the stack, the body
  continuation sets a flag and RETURNS to that frame, which iterates (a trampoline); only after a yield,
  when the frame is gone, a new loop frame is pushed.

  `DS`: depth of the frame executing the current configuration, and for every loop nesting level whose loop
  frame is on the stack the depth of that frame.  Loop activations are identified by their nesting level
  (the number of `loopK` in the continuation they will finally call): levels are unique along a
  continuation, a level is re-registered whenever a loop is entered, and a yield unwinds everything.
  The depth state never influences the machine (`stepD_erasure`).
-/
import GoCo.Runtime.Machine
set_option autoImplicit false

namespace GoCo
variable {σ V P : Type}

def Cont.loops : Cont σ V P → Nat
  | .done => 0
  | .loopK _ _ _ _ k => k.loops + 1
  | .combK _ k => k.loops

structure DS where
  d : Nat
  fr : List (Nat × Nat) := []     -- (loop nesting level, depth of its running loop frame)
deriving Repr, DecidableEq

def DS.get (ds : DS) (l : Nat) : Option Nat := (ds.fr.find? (fun e => e.1 = l)).map (·.2)

/-- a loop frame is pushed at depth `D` for level `l`: deeper levels (if any were left) are gone -/
def DS.enter (ds : DS) (l D : Nat) : DS := { d := D, fr := (l, D) :: ds.fr.filter (fun e => e.1 < l) }

/-- return to the running loop frame of level `l`: the frames above it are popped -/
def DS.backTo (ds : DS) (l D : Nat) : DS := { d := D, fr := ds.fr.filter (fun e => e.1 ≤ l) }

/-- the depth state after the transition out of configuration `c` -/
def stepDS (c : Cfg σ V P) (ds : DS) : DS :=
  match c with
  | .eval (.loop _ _ _) k _ => ds.enter k.loops (ds.d + 1)            -- For's closure calls loop(true)
  | .eval (.bind _ _ _) _ _ => { d := 0, fr := [] }                   -- Bind stores the step: everything returns
  | .apply .done _ _ _ => { d := 0, fr := [] }
  | .apply (.loopK _ _ _ _ k) s _ _ =>
      match s with
      | .normal | .cont =>
        match ds.get k.loops with
        | some D => ds.backTo k.loops D                               -- trampoline: back in the loop frame
        | none => ds.enter k.loops (ds.d + 1)                         -- after a yield: a new loop frame
      | _ => { ds with d := ds.d + 1 }
  | .halt .. | .panicked .. | .oob => ds
  | _ => { ds with d := ds.d + 1 }

def stepD [Inhabited V] (N : Nat) (x : Cfg σ V P × DS) : Cfg σ V P × DS := (step N x.1, stepDS x.1 x.2)

def runD [Inhabited V] (N : Nat) : Nat → Cfg σ V P × DS → Cfg σ V P × DS
  | 0, x => x
  | n+1, x => runD N n (stepD N x)

/-- the depth instrumentation is ghost state -/
theorem stepD_erasure [Inhabited V] (N : Nat) (x : Cfg σ V P × DS) : (stepD N x).1 = step N x.1 := rfl

theorem runD_erasure [Inhabited V] (N : Nat) : ∀ (n : Nat) (x : Cfg σ V P × DS), (runD N n x).1 = run N n x.1
  | 0, _ => rfl
  | n+1, x => by simp only [runD, run]; exact runD_erasure N n (stepD N x)

theorem runD_add [Inhabited V] (N a b : Nat) (x : Cfg σ V P × DS) : runD N (a + b) x = runD N b (runD N a x) := by
  induction a generalizing x with
  | zero => simp [runD]
  | succ a ih => rw [Nat.succ_add]; simp [runD, ih]

/-- the trampoline: a body that completes while its loop frame is on the stack continues AT THE DEPTH OF THAT
    FRAME, whatever depth the body reached -/
theorem stepDS_trampoline (n : Nat) (c : Option (σ → CondR P × σ)) (p : Option (σ → Option P × σ))
    (body : Term σ V P) (k : Cont σ V P) (s : Sig) (hs : s = .normal ∨ s = .cont) (v : V) (st : σ) (ds : DS) (D : Nat)
    (h : ds.get k.loops = some D) :
    (stepDS (.apply (.loopK n c p body k) s v st) ds).d = D := by
  rcases hs with rfl | rfl <;> simp [stepDS, h, DS.backTo]

theorem get_enter (ds : DS) (l D : Nat) : (ds.enter l D).get l = some D := by
  simp [DS.get, DS.enter]

theorem find_filter_le : ∀ (fr : List (Nat × Nat)) (l D : Nat),
    (fr.find? (fun e => e.1 = l)).map (·.2) = some D →
    ((fr.filter (fun e => e.1 ≤ l)).find? (fun e => e.1 = l)).map (·.2) = some D
  | [], _, _, h => by simp at h
  | e :: r, l, D, h => by
      by_cases he : e.1 = l
      · have hle : e.1 ≤ l := by omega
        rw [List.filter_cons_of_pos (by simpa using hle)]
        rw [List.find?_cons_of_pos (h := by simpa using he)] at h ⊢
        exact h
      · rw [List.find?_cons_of_neg (h := by simpa using he)] at h
        by_cases hle : e.1 ≤ l
        · rw [List.filter_cons_of_pos (by simpa using hle), List.find?_cons_of_neg (h := by simpa using he)]
          exact find_filter_le r l D h
        · rw [List.filter_cons_of_neg (by simpa using hle)]
          exact find_filter_le r l D h

theorem get_backTo {ds : DS} {l D : Nat} (h : ds.get l = some D) : (ds.backTo l D).get l = some D :=
  find_filter_le ds.fr l D h

/-! ### stack discipline: while a term is evaluated, the continuation it was given stays underneath -/

/-- `k` is `K` with further continuations pushed on top -/
inductive Ext (K : Cont σ V P) : Cont σ V P → Prop
  | refl : Ext K K
  | loopK {n c p b k} : Ext K k → Ext K (.loopK n c p b k)
  | combK {b k} : Ext K k → Ext K (.combK b k)

/-- strictly more than `K` -/
inductive SExt (K : Cont σ V P) : Cont σ V P → Prop
  | loopK {n c p b k} : Ext K k → SExt K (.loopK n c p b k)
  | combK {b k} : Ext K k → SExt K (.combK b k)

theorem Ext.loops {K k : Cont σ V P} (h : Ext K k) : K.loops ≤ k.loops := by
  induction h with
  | refl => exact Nat.le_refl _
  | loopK _ ih => simp only [Cont.loops]; omega
  | combK _ ih => simpa [Cont.loops] using ih

/-- the machine is evaluating something whose continuation is (an extension of) `K`, and has not come back
    to `K` yet -/
def Above (K : Cont σ V P) : Cfg σ V P → Prop
  | .eval _ k _ => Ext K k
  | .apply k _ _ _ => SExt K k
  | .loop _ _ _ _ k _ _ => Ext K k
  | _ => False

theorem ext_cases {K k : Cont σ V P} (h : Ext K k) : k = K ∨ SExt K k := by
  cases h with
  | refl => exact .inl rfl
  | loopK h => exact .inr (.loopK h)
  | combK h => exact .inr (.combK h)

/-- one transition from inside: still inside, or back at `K`, or the advance is over -/
theorem above_step [Inhabited V] (N : Nat) (K : Cont σ V P) (c : Cfg σ V P) (h : Above K c) :
    Above K (step N c) ∨ (∃ s v st, step N c = .apply K s v st) ∨ (step N c).final = true := by
  cases c with
  | eval t k st =>
    cases t with
    | sig s v =>
      rcases ext_cases h with rfl | hs
      · exact .inr (.inl ⟨s, v, st, rfl⟩)
      · exact .inl hs
    | bind v f g => exact .inr (.inr rfl)
    | delay f g => exact .inl h
    | combine a b => exact .inl (Ext.combK h)
    | loop c p body => exact .inl h
    | panic e => exact .inr (.inr rfl)
  | apply k s v st =>
    cases h with
    | loopK hk =>
      cases s with
      | normal => exact .inl hk
      | cont => exact .inl hk
      | brk =>
        rcases ext_cases hk with rfl | hs
        · exact .inr (.inl ⟨_, _, _, rfl⟩)
        · exact .inl hs
      | ret =>
        rcases ext_cases hk with rfl | hs
        · exact .inr (.inl ⟨_, _, _, rfl⟩)
        · exact .inl hs
    | combK hk =>
      simp only [step]
      split
      · exact .inl hk
      · rcases ext_cases hk with rfl | hs
        · exact .inr (.inl ⟨_, _, _, rfl⟩)
        · exact .inl hs
  | loop n c p body k skip st =>
    cases n with
    | zero => exact .inr (.inr rfl)
    | succ n =>
      simp only [step]
      split
      · rcases ext_cases h with rfl | hs
        · exact .inr (.inl ⟨_, _, _, rfl⟩)
        · exact .inl hs
      · exact .inr (.inr rfl)
      · exact .inl (Ext.loopK h)
  | halt st cell r => exact absurd h (by simp [Above])
  | panicked e st => exact absurd h (by simp [Above])
  | oob => exact absurd h (by simp [Above])

/-! ### evaluating a term never touches the loop frames registered below its continuation -/

theorem find_filter_of {q : Nat × Nat → Bool} : ∀ (fr : List (Nat × Nat)) (l : Nat),
    (∀ e : Nat × Nat, e.1 = l → q e = true) →
    (fr.filter q).find? (fun e => e.1 = l) = fr.find? (fun e => e.1 = l)
  | [], _, _ => rfl
  | e :: r, l, hq => by
      by_cases he : e.1 = l
      · rw [List.filter_cons_of_pos (hq e he), List.find?_cons_of_pos (h := by simpa using he),
          List.find?_cons_of_pos (h := by simpa using he)]
      · rw [List.find?_cons_of_neg (h := by simpa using he)]
        by_cases hqe : q e = true
        · rw [List.filter_cons_of_pos hqe, List.find?_cons_of_neg (h := by simpa using he)]
          exact find_filter_of r l hq
        · rw [List.filter_cons_of_neg hqe]
          exact find_filter_of r l hq

theorem get_enter_below (ds : DS) {l lvl : Nat} (D : Nat) (h : l < lvl) : (ds.enter lvl D).get l = ds.get l := by
  unfold DS.get DS.enter
  simp only
  rw [List.find?_cons_of_neg (h := by simp; omega)]
  rw [find_filter_of ds.fr l (fun e he => by simp; omega)]

theorem get_backTo_below (ds : DS) {l lvl : Nat} (D : Nat) (h : l < lvl) : (ds.backTo lvl D).get l = ds.get l := by
  unfold DS.get DS.backTo
  simp only
  rw [find_filter_of ds.fr l (fun e he => by simp; omega)]

theorem stepDS_below [Inhabited V] (N : Nat) (K : Cont σ V P) (c : Cfg σ V P) (ds : DS) (h : Above K c)
    (hnf : (step N c).final = false) (l : Nat) (hl : l < K.loops) : (stepDS c ds).get l = ds.get l := by
  cases c with
  | eval t k st =>
    cases t with
    | sig s v => rfl
    | bind v f g => simp [step, Cfg.final] at hnf
    | delay f g => rfl
    | combine a b => rfl
    | loop c p body =>
      have := Ext.loops h
      exact get_enter_below ds _ (by omega)
    | panic e => simp [step, Cfg.final] at hnf
  | apply k s v st =>
    cases h with
    | loopK hk =>
      have := Ext.loops hk
      cases s with
      | normal =>
        simp only [stepDS]
        split
        · exact get_backTo_below ds _ (by omega)
        · exact get_enter_below ds _ (by omega)
      | cont =>
        simp only [stepDS]
        split
        · exact get_backTo_below ds _ (by omega)
        · exact get_enter_below ds _ (by omega)
      | brk => rfl
      | ret => rfl
    | combK hk => rfl
  | loop n c p body k skip st => rfl
  | halt st cell r => exact absurd h (by simp [Above])
  | panicked e st => exact absurd h (by simp [Above])
  | oob => exact absurd h (by simp [Above])

/-- the frame of the loop stays registered from the start of its body until the body's continuation is applied -/
theorem frame_kept [Inhabited V] (N : Nat) (n : Nat) (c : Option (σ → CondR P × σ))
    (p : Option (σ → Option P × σ)) (body : Term σ V P) (k : Cont σ V P) (st : σ) (ds : DS) (D : Nat)
    (hD : ds.get k.loops = some D) (m : Nat) (s : Sig) (v : V) (st' : σ)
    (hpath : ∀ j, j < m → (run N j (.eval body (.loopK n c p body k) st)).final = false ∧
      ∀ s v st1, run N j (.eval body (.loopK n c p body k) st) ≠ .apply (.loopK n c p body k) s v st1)
    (hret : run N m (.eval body (.loopK n c p body k) st) = .apply (.loopK n c p body k) s v st') :
    (runD N m (.eval body (.loopK n c p body k) st, ds)).2.get k.loops = some D := by
  let K : Cont σ V P := .loopK n c p body k
  let c0 : Cfg σ V P := .eval body K st
  have habove : ∀ j, j < m → Above K (run N j c0) := by
    intro j
    induction j with
    | zero => intro _; exact Ext.refl
    | succ j ih =>
      intro hj
      have hprev := ih (by omega)
      have hstep : run N (j + 1) c0 = step N (run N j c0) := by
        rw [run_add N j 1 c0]; rfl
      rcases above_step N K (run N j c0) hprev with ha | ⟨s', v', st'', he⟩ | hf
      · rw [hstep]; exact ha
      · exact absurd (hstep.trans he) ((hpath (j + 1) hj).2 s' v' st'')
      · have := (hpath (j + 1) hj).1
        rw [hstep, hf] at this; cases this
  have hkeep : ∀ j, j ≤ m → (runD N j (c0, ds)).2.get k.loops = some D := by
    intro j
    induction j with
    | zero => intro _; exact hD
    | succ j ih =>
      intro hj
      have hprev := ih (by omega)
      have hsplit : runD N (j + 1) (c0, ds) = stepD N (runD N j (c0, ds)) := by
        rw [runD_add N j 1 (c0, ds)]; rfl
      rw [hsplit]
      show (stepDS (runD N j (c0, ds)).1 (runD N j (c0, ds)).2).get k.loops = some D
      rw [runD_erasure]
      have hnf : (step N (run N j c0)).final = false := by
        have hstep : run N (j + 1) c0 = step N (run N j c0) := by rw [run_add N j 1 c0]; rfl
        by_cases hjm : j + 1 = m
        · rw [← hstep, hjm, hret]; rfl
        · rw [← hstep]; exact (hpath (j + 1) (by omega)).1
      rw [stepDS_below N K (run N j c0) _ (habove j (by omega)) hnf k.loops (by simp [K, Cont.loops])]
      exact hprev
  exact hkeep m (Nat.le_refl _)

/-- **stack discipline**: from the start of a loop body until its continuation is applied - however long
    that takes, whatever the body is (nested loops, combines, thunks building new terms) - the registered frame
    of the loop stays registered, so the completion of the body continues at the depth of that frame. -/
theorem head_depth_invariant [Inhabited V] (N : Nat) (n : Nat) (c : Option (σ → CondR P × σ))
    (p : Option (σ → Option P × σ)) (body : Term σ V P) (k : Cont σ V P) (st : σ) (ds : DS) (D : Nat)
    (hD : ds.get k.loops = some D) (m : Nat) (s : Sig) (v : V) (st' : σ)
    (hpath : ∀ j, j < m → (run N j (.eval body (.loopK n c p body k) st)).final = false ∧
      ∀ s v st1, run N j (.eval body (.loopK n c p body k) st) ≠ .apply (.loopK n c p body k) s v st1)
    (hret : run N m (.eval body (.loopK n c p body k) st) = .apply (.loopK n c p body k) s v st')
    (hs : s = .normal ∨ s = .cont) :
    (runD N (m + 1) (.eval body (.loopK n c p body k) st, ds)).2.d = D := by
  have hk := frame_kept N n c p body k st ds D hD m s v st' hpath hret
  have hsplit : runD N (m + 1) (.eval body (.loopK n c p body k) st, ds)
      = stepD N (runD N m (.eval body (.loopK n c p body k) st, ds)) := by
    rw [runD_add N m 1]; rfl
  rw [hsplit]
  show (stepDS (runD N m (.eval body (.loopK n c p body k) st, ds)).1 _).d = D
  rw [runD_erasure, hret]
  exact stepDS_trampoline n c p body k s hs v st' _ D hk

/-- … and the loop is back at its head, in its frame, with the frame still registered: the hypotheses of the
    next iteration hold again, for as many iterations as there are -/
theorem iteration_returns_to_frame [Inhabited V] (N : Nat) (n : Nat) (c : Option (σ → CondR P × σ))
    (p : Option (σ → Option P × σ)) (body : Term σ V P) (k : Cont σ V P) (st : σ) (ds : DS) (D : Nat)
    (hD : ds.get k.loops = some D) (m : Nat) (s : Sig) (v : V) (st' : σ)
    (hpath : ∀ j, j < m → (run N j (.eval body (.loopK n c p body k) st)).final = false ∧
      ∀ s v st1, run N j (.eval body (.loopK n c p body k) st) ≠ .apply (.loopK n c p body k) s v st1)
    (hret : run N m (.eval body (.loopK n c p body k) st) = .apply (.loopK n c p body k) s v st')
    (hs : s = .normal ∨ s = .cont) :
    (runD N (m + 1) (.eval body (.loopK n c p body k) st, ds)).1 = .loop n c p body k false st' ∧
    (runD N (m + 1) (.eval body (.loopK n c p body k) st, ds)).2.d = D ∧
    (runD N (m + 1) (.eval body (.loopK n c p body k) st, ds)).2.get k.loops = some D := by
  have hd := head_depth_invariant N n c p body k st ds D hD m s v st' hpath hret hs
  refine ⟨?_, hd, ?_⟩
  · rw [runD_erasure, run_add N m 1, hret]
    rcases hs with rfl | rfl <;> rfl
  · -- the last step was the trampoline `backTo`, which keeps the entry
    have hsplit : runD N (m + 1) (.eval body (.loopK n c p body k) st, ds)
        = stepD N (runD N m (.eval body (.loopK n c p body k) st, ds)) := by
      rw [runD_add N m 1]; rfl
    rw [hsplit]
    show (stepDS (runD N m (.eval body (.loopK n c p body k) st, ds)).1 _).get k.loops = some D
    rw [runD_erasure, hret]
    have hk := frame_kept N n c p body k st ds D hD m s v st' hpath hret
    rcases hs with rfl | rfl <;> simp [stepDS, hk, get_backTo hk]

end GoCo
