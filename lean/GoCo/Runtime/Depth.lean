/-
  Runtime layer, part 6: the Go stack during an advance (C17).

  The machine (Machine.lean) models what seq.go computes; this module models how deep the Go stack is while
  it does so.  Every machine transition is one Go call that is not eliminated as a tail call, so it runs
  one frame deeper than its caller - with one exception, the repaired `For` (5f77a8a): when the body of a
  loop completes (Normal / Continue) while the frame of that loop activation is still on the stack, the body
  continuation sets a flag and RETURNS to that frame, which iterates (a trampoline); only after a yield,
  when the frame is gone, a new loop frame is pushed.

  `DS`: depth of the frame executing the current configuration, and for every loop nesting level whose loop
  frame is on the stack the depth of that frame.  Loop activations are identified by their nesting level
  (the number of `loopK` in the continuation they will finally call): levels are unique along a
  continuation, a level is re-registered whenever a loop is entered, and a yield unwinds everything.
  The depth state never influences the machine (`stepD_erasure`).
-/
import GoCo.Runtime.Machine
set_option autoImplicit false

namespace GoCo
variable {σ V P : Type}

def Cont.loops : Cont σ V P → Nat
  | .done => 0
  | .loopK _ _ _ _ k => k.loops + 1
  | .combK _ k => k.loops

structure DS where
  d : Nat
  fr : List (Nat × Nat) := []     -- (loop nesting level, depth of its running loop frame)
deriving Repr, DecidableEq

def DS.get (ds : DS) (l : Nat) : Option Nat := (ds.fr.find? (fun e => e.1 = l)).map (·.2)

/-- a loop frame is pushed at depth `D` for level `l`: deeper levels (if any were left) are gone -/
def DS.enter (ds : DS) (l D : Nat) : DS := { d := D, fr := (l, D) :: ds.fr.filter (fun e => e.1 < l) }

/-- return to the running loop frame of level `l`: the frames above it are popped -/
def DS.backTo (ds : DS) (l D : Nat) : DS := { d := D, fr := ds.fr.filter (fun e => e.1 ≤ l) }

/-- the depth state after the transition out of configuration `c` -/
def stepDS (c : Cfg σ V P) (ds : DS) : DS :=
  match c with
  | .eval (.loop _ _ _) k _ => ds.enter k.loops (ds.d + 1)            -- For's closure calls loop(true)
  | .eval (.bind _ _ _) _ _ => { d := 0, fr := [] }                   -- Bind stores the step: everything returns
  | .apply .done _ _ _ => { d := 0, fr := [] }
  | .apply (.loopK _ _ _ _ k) s _ _ =>
      match s with
      | .normal | .cont =>
        match ds.get k.loops with
        | some D => ds.backTo k.loops D                               -- trampoline: back in the loop frame
        | none => ds.enter k.loops (ds.d + 1)                         -- after a yield: a new loop frame
      | _ => { ds with d := ds.d + 1 }
  | .halt .. | .panicked .. | .oob => ds
  | _ => { ds with d := ds.d + 1 }

def stepD [Inhabited V] (N : Nat) (x : Cfg σ V P × DS) : Cfg σ V P × DS := (step N x.1, stepDS x.1 x.2)

def runD [Inhabited V] (N : Nat) : Nat → Cfg σ V P × DS → Cfg σ V P × DS
  | 0, x => x
  | n+1, x => runD N n (stepD N x)

/-- the depth instrumentation is ghost state -/
theorem stepD_erasure [Inhabited V] (N : Nat) (x : Cfg σ V P × DS) : (stepD N x).1 = step N x.1 := rfl

theorem runD_erasure [Inhabited V] (N : Nat) : ∀ (n : Nat) (x : Cfg σ V P × DS), (runD N n x).1 = run N n x.1
  | 0, _ => rfl
  | n+1, x => by simp only [runD, run]; exact runD_erasure N n (stepD N x)

theorem runD_add [Inhabited V] (N a b : Nat) (x : Cfg σ V P × DS) : runD N (a + b) x = runD N b (runD N a x) := by
  induction a generalizing x with
  | zero => simp [runD]
  | succ a ih => rw [Nat.succ_add]; simp [runD, ih]

/-- the trampoline: a body that completes while its loop frame is on the stack continues AT THE DEPTH OF THAT
    FRAME, whatever depth the body reached -/
theorem stepDS_trampoline (n : Nat) (c : Option (σ → CondR P × σ)) (p : Option (σ → Option P × σ))
    (body : Term σ V P) (k : Cont σ V P) (s : Sig) (hs : s = .normal ∨ s = .cont) (v : V) (st : σ) (ds : DS) (D : Nat)
    (h : ds.get k.loops = some D) :
    (stepDS (.apply (.loopK n c p body k) s v st) ds).d = D := by
  rcases hs with rfl | rfl <;> simp [stepDS, h, DS.backTo]

theorem get_enter (ds : DS) (l D : Nat) : (ds.enter l D).get l = some D := by
  simp [DS.get, DS.enter]

theorem find_filter_le : ∀ (fr : List (Nat × Nat)) (l D : Nat),
    (fr.find? (fun e => e.1 = l)).map (·.2) = some D →
    ((fr.filter (fun e => e.1 ≤ l)).find? (fun e => e.1 = l)).map (·.2) = some D
  | [], _, _, h => by simp at h
  | e :: r, l, D, h => by
      by_cases he : e.1 = l
      · have hle : e.1 ≤ l := by omega
        rw [List.filter_cons_of_pos (by simpa using hle)]
        rw [List.find?_cons_of_pos (h := by simpa using he)] at h ⊢
        exact h
      · rw [List.find?_cons_of_neg (h := by simpa using he)] at h
        by_cases hle : e.1 ≤ l
        · rw [List.filter_cons_of_pos (by simpa using hle), List.find?_cons_of_neg (h := by simpa using he)]
          exact find_filter_le r l D h
        · rw [List.filter_cons_of_neg (by simpa using hle)]
          exact find_filter_le r l D h

theorem get_backTo {ds : DS} {l D : Nat} (h : ds.get l = some D) : (ds.backTo l D).get l = some D :=
  find_filter_le ds.fr l D h

end GoCo
