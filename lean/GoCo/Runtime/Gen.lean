/-
  Runtime layer, part 5: the generator object (seq.go 176-231) over the machine, the abstract
  iterator protocol over resumption trees, and the refinement between them for every operation.

    generator{started,next,current,result}  ↔ `Gen`
    MoveNext / Current / Send / Result      ↔ `genStep … Op.moveNext / .current / .send v / .result`
    `d.next(sent)` (mkNextRecv: run the thunk with the received value, then read & clear `co.step`)
                                            ↔ `advance`: run the machine to a final configuration
-/
import GoCo.Runtime.Refine
set_option autoImplicit false

namespace GoCo
variable {σ V P : Type} [Inhabited V]

inductive Op (V : Type) | moveNext | current | send (v : V) | result
deriving Repr

/-- what a consumer call returns (or how it fails) -/
inductive Obs (V P : Type)
  | bool (b : Bool) | val (v : V) | sent (v : V) (ok : Bool) | panic (p : P) | oob
deriving Repr, DecidableEq

/-! ### the abstract protocol, over resumption trees -/

structure AbsGen (σ V P : Type) where
  started : Bool
  rest : Option (V → σ → Res σ V P)     -- `none`: exhausted
  current : V
  result : V

inductive AdvR (α V P : Type) | yes (a : α) | no (a : α) | panic (p : P) | oob

/-- one advance of the abstract iterator with the received value `sent` -/
def AbsGen.advance (a : AbsGen σ V P) (sent : V) (st : σ) : AdvR (AbsGen σ V P) V P × σ :=
  match a.rest with
  | none => (.no a, st)
  | some r =>
    match r sent st with
    | .yield v st' r' => (.yes { a with rest := some r', current := v }, st')
    | .done _ v st' => (.no { a with rest := none, current := default, result := v }, st')
    | .panic p st' => (.panic p, st')
    | .oob => (.oob, st)

/-- result of the resuming half of `Send` / of `MoveNext`, given the advance result -/
def sendObs {α : Type} (cur : α → V) (a : α) : AdvR α V P × σ → α × σ × Obs V P
  | (.yes a', st') => (a', st', .sent (cur a') true)
  | (.no a', st') => (a', st', .sent default false)
  | (.panic p, st') => (a, st', .panic p)
  | (.oob, st') => (a, st', .oob)

def moveObs {α : Type} (a : α) : AdvR α V P × σ → α × σ × Obs V P
  | (.yes a', st') => (a', st', .bool true)
  | (.no a', st') => (a', st', .bool false)
  | (.panic p, st') => (a, st', .panic p)
  | (.oob, st') => (a, st', .oob)

def absStep (a : AbsGen σ V P) (op : Op V) (st : σ) : AbsGen σ V P × σ × Obs V P :=
  match op with
  | .current => (a, st, .val a.current)
  | .result => (a, st, .val a.result)
  | .moveNext =>
    let a := { a with started := true }
    moveObs a (a.advance default st)
  | .send v =>
    if a.started then sendObs (·.current) a (a.advance v st)
    else
      let a := { a with started := true }
      match a.advance default st with
      | (.yes a', st') => sendObs (·.current) a' (a'.advance v st')
      | (.no a', st') => (a', st', .sent default false)
      | (.panic p, st') => (a, st', .panic p)
      | (.oob, st') => (a, st', .oob)

def AbsGen.start (N : Nat) (t : Term σ V P) : AbsGen σ V P :=
  { started := false, rest := some (fun _ st => ref N t st), current := default, result := default }

/-! ### the generator object over the machine -/

/-- the closure `next[V]` built by mkNextRecv: thunk + captured continuation -/
structure Nxt (σ V P : Type) where
  f : V → σ → Term σ V P
  g : V → σ → σ
  k : Cont σ V P

structure Gen (σ V P : Type) where
  started : Bool
  next : Option (Nxt σ V P)
  current : V
  result : V

/-- `Start(seq)`: `mkNext(func() Seq { return seq }, &co{}, func(t, v) { it.result = v })` -/
def Gen.start (t : Term σ V P) : Gen σ V P :=
  { started := false, next := some ⟨fun _ _ => t, fun _ st => st, .done⟩, current := default, result := default }

/-- `generator.moveNext(sent)`; `none` = the fuel given to the machine did not suffice -/
def Gen.advance (N fuel : Nat) (d : Gen σ V P) (sent : V) (st : σ) :
    Option (AdvR (Gen σ V P) V P × σ) :=
  match d.next with
  | none => some (.no d, st)
  | some nx =>
    match run N fuel (.eval (nx.f sent st) nx.k (nx.g sent st)) with
    | .halt st' (some pd) _ => some (.yes { d with next := some ⟨pd.f, pd.g, pd.k⟩, current := pd.value }, st')
    | .halt st' none r => some (.no { d with next := none, current := default, result := r.getD d.result }, st')
    | .panicked p st' => some (.panic p, st')
    | .oob => some (.oob, st)
    | _ => none

def genStep (N fuel : Nat) (d : Gen σ V P) (op : Op V) (st : σ) : Option (Gen σ V P × σ × Obs V P) :=
  match op with
  | .current => some (d, st, .val d.current)
  | .result => some (d, st, .val d.result)
  | .moveNext =>
    let d := { d with started := true }
    (d.advance N fuel default st).map (moveObs d)
  | .send v =>
    if d.started then (d.advance N fuel v st).map (sendObs (·.current) d)
    else
      let d := { d with started := true }
      match d.advance N fuel default st with
      | none => none
      | some (.yes d', st') => (d'.advance N fuel v st').map (sendObs (·.current) d')
      | some (.no d', st') => some (d', st', .sent default false)
      | some (.panic p, st') => some (d, st', .panic p)
      | some (.oob, st') => some (d, st', .oob)

/-! ### refinement -/

/-- the generator object `d` implements the abstract iterator `a` -/
structure Rel (N : Nat) (d : Gen σ V P) (a : AbsGen σ V P) : Prop where
  started : d.started = a.started
  current : d.current = a.current
  result : d.result = a.result
  next : match d.next, a.rest with
    | none, none => True
    | some nx, some r => ∀ recv st, Match N (r recv st) .done (.eval (nx.f recv st) nx.k (nx.g recv st))
    | _, _ => False

theorem rel_start (N : Nat) (t : Term σ V P) : Rel N (Gen.start t) (AbsGen.start N t) :=
  ⟨rfl, rfl, rfl, fun _ st => machine_refines_ref N t .done st⟩

/-- lifting of `Rel` to advance results -/
def AdvRel (N : Nat) : AdvR (Gen σ V P) V P → AdvR (AbsGen σ V P) V P → Prop
  | .yes d, .yes a => Rel N d a
  | .no d, .no a => Rel N d a
  | .panic p, .panic q => p = q
  | .oob, .oob => True
  | _, _ => False

theorem run_halt_of_reaches {N : Nat} {c c' : Cfg σ V P} (h : Reaches N c c') (hf : c'.final = true) :
    ∃ fuel, ∀ d, run N (fuel + d) c = c' := by
  obtain ⟨n, rfl⟩ := h
  exact ⟨n, fun d => by rw [run_add, run_final d hf]⟩

/-- one advance: whatever the abstract iterator does, the machine does with enough fuel -/
theorem advance_refines (N : Nat) (d : Gen σ V P) (a : AbsGen σ V P) (h : Rel N d a) (sent : V) (st : σ) :
    ∃ rd, AdvRel N rd (a.advance sent st).1 ∧
      ∃ fuel, ∀ extra, d.advance N (fuel + extra) sent st = some (rd, (a.advance sent st).2) := by
  have hn := h.next
  cases hd : d.next with
  | none =>
    cases ha : a.rest with
    | some r => simp [hd, ha] at hn
    | none =>
      refine ⟨.no d, ?_, 0, fun extra => ?_⟩
      · simpa [AbsGen.advance, ha, AdvRel] using h
      · simp [Gen.advance, AbsGen.advance, hd, ha]
  | some nx =>
    cases ha : a.rest with
    | none => simp [hd, ha] at hn
    | some r =>
      simp only [hd, ha] at hn
      have hm := hn sent st
      simp only [Gen.advance, AbsGen.advance, hd, ha]
      cases hr : r sent st with
      | done s v st' =>
        rw [hr] at hm
        have h2 : Reaches N (.eval (nx.f sent st) nx.k (nx.g sent st)) (.halt st' none (some v)) :=
          Reaches.trans hm ⟨1, rfl⟩
        obtain ⟨fuel, hf⟩ := run_halt_of_reaches h2 rfl
        refine ⟨.no { d with next := none, current := default, result := v }, ?_, fuel, fun extra => ?_⟩
        · exact ⟨h.started, rfl, rfl, by simp⟩
        · rw [hf extra]; rfl
      | yield v st' r' =>
        rw [hr] at hm
        obtain ⟨f, g, k', h1, h2⟩ := hm
        obtain ⟨fuel, hf⟩ := run_halt_of_reaches h1 rfl
        refine ⟨.yes { d with next := some ⟨f, g, k'⟩, current := v }, ?_, fuel, fun extra => ?_⟩
        · exact ⟨h.started, rfl, h.result, by simpa using h2⟩
        · rw [hf extra]
      | panic p st' =>
        rw [hr] at hm
        obtain ⟨fuel, hf⟩ := run_halt_of_reaches hm rfl
        exact ⟨.panic p, by simp [AdvRel], fuel, fun extra => by rw [hf extra]⟩
      | oob =>
        rw [hr] at hm
        obtain ⟨fuel, hf⟩ := run_halt_of_reaches hm rfl
        exact ⟨.oob, by simp [AdvRel], fuel, fun extra => by rw [hf extra]⟩

theorem rel_started {N : Nat} {d : Gen σ V P} {a : AbsGen σ V P} (h : Rel N d a) :
    Rel N { d with started := true } { a with started := true } :=
  ⟨rfl, h.current, h.result, h.next⟩

/-- related advance results give equal observations and related successor states -/
theorem moveObs_rel {N : Nat} {d : Gen σ V P} {a : AbsGen σ V P} (h : Rel N d a)
    {rd : AdvR (Gen σ V P) V P} {ra : AdvR (AbsGen σ V P) V P} (hr : AdvRel N rd ra) (st : σ) :
    (moveObs d (rd, st)).2 = (moveObs a (ra, st)).2 ∧ Rel N (moveObs d (rd, st)).1 (moveObs a (ra, st)).1 := by
  cases rd <;> cases ra <;> simp only [AdvRel] at hr <;> (try contradiction) <;> simp [moveObs, *]

theorem sendObs_rel {N : Nat} {d : Gen σ V P} {a : AbsGen σ V P} (h : Rel N d a)
    {rd : AdvR (Gen σ V P) V P} {ra : AdvR (AbsGen σ V P) V P} (hr : AdvRel N rd ra) (st : σ) :
    (sendObs (·.current) d (rd, st)).2 = (sendObs (·.current) a (ra, st)).2 ∧
      Rel N (sendObs (·.current) d (rd, st)).1 (sendObs (·.current) a (ra, st)).1 := by
  cases rd <;> cases ra <;> simp only [AdvRel] at hr <;> (try contradiction) <;> simp [sendObs, *]
  exact hr.current

/-- **Every consumer operation**: the generator object answers as the abstract iterator does,
    leaves the same store, and stays related - given enough machine fuel. -/
theorem genStep_refines (N : Nat) (d : Gen σ V P) (a : AbsGen σ V P) (h : Rel N d a) (op : Op V) (st : σ) :
    ∃ d', Rel N d' (absStep a op st).1 ∧
      ∃ fuel, ∀ extra, genStep N (fuel + extra) d op st = some (d', (absStep a op st).2) := by
  cases op with
  | current => exact ⟨d, h, 0, fun _ => by simp [genStep, absStep, h.current]⟩
  | result => exact ⟨d, h, 0, fun _ => by simp [genStep, absStep, h.result]⟩
  | moveNext =>
    have hs := rel_started h
    obtain ⟨rd, hr, fuel, hf⟩ := advance_refines N _ _ hs default st
    have := moveObs_rel hs hr (AbsGen.advance { a with started := true } default st).2
    refine ⟨_, this.2, fuel, fun extra => ?_⟩
    simp only [genStep, absStep, hf extra, Option.map]
    rw [← this.1]
  | send v =>
    by_cases hst : d.started = true
    · have hsa : a.started = true := by rw [← h.started]; exact hst
      obtain ⟨rd, hr, fuel, hf⟩ := advance_refines N _ _ h v st
      have := sendObs_rel h hr (AbsGen.advance a v st).2
      refine ⟨(sendObs (·.current) d (rd, (AbsGen.advance a v st).2)).1, ?_, fuel, fun extra => ?_⟩
      · simpa only [absStep, hsa, if_true] using this.2
      · simp only [genStep, absStep, hst, hsa, if_true, hf extra, Option.map]
        rw [← this.1]
    · have hst : d.started = false := by simpa using hst
      have hsa : a.started = false := by rw [← h.started]; exact hst
      have hs := rel_started h
      obtain ⟨rd, hr, fuel1, hf1⟩ := advance_refines N _ _ hs default st
      simp only [genStep, absStep, hst, hsa, Bool.false_eq_true, if_false]
      revert hr hf1
      generalize AbsGen.advance { a with started := true } default st = ra
      obtain ⟨ra, st1⟩ := ra
      intro hr hf1
      cases rd <;> cases ra <;> simp only [AdvRel] at hr <;> (try contradiction)
      · rename_i d1 a1
        obtain ⟨rd2, hr2, fuel2, hf2⟩ := advance_refines N _ _ hr v st1
        have := sendObs_rel hr hr2 (AbsGen.advance a1 v st1).2
        refine ⟨_, this.2, fuel1 + fuel2, fun extra => ?_⟩
        have e1 := hf1 (fuel2 + extra)
        have e2 := hf2 (fuel1 + extra)
        rw [← Nat.add_assoc] at e1
        rw [← Nat.add_assoc, Nat.add_comm fuel2 fuel1] at e2
        simp only [e1, e2, Option.map]
        have t1 := this.1
        simp only [Prod.eta] at t1
        rw [← t1]
      · exact ⟨_, hr, fuel1, fun extra => by simp only [hf1 extra]⟩
      · subst hr; exact ⟨_, hs, fuel1, fun extra => by simp only [hf1 extra]⟩
      · exact ⟨_, hs, fuel1, fun extra => by simp only [hf1 extra]⟩

end GoCo

namespace GoCo
variable {σ V P : Type} [Inhabited V]

/-! ### operation histories -/

def absRun (a : AbsGen σ V P) (st : σ) : List (Op V) → AbsGen σ V P × σ × List (Obs V P)
  | [] => (a, st, [])
  | op :: ops =>
    let (a', st', o) := absStep a op st
    let (a'', st'', os) := absRun a' st' ops
    (a'', st'', o :: os)

def genRun (N fuel : Nat) (d : Gen σ V P) (st : σ) : List (Op V) → Option (Gen σ V P × σ × List (Obs V P))
  | [] => some (d, st, [])
  | op :: ops =>
    match genStep N fuel d op st with
    | none => none
    | some (d', st', o) =>
      match genRun N fuel d' st' ops with
      | none => none
      | some (d'', st'', os) => some (d'', st'', o :: os)

/-- **Iterator protocol, all histories**: for every sequence of MoveNext / Current / Send / Result
    calls the generator object returns what the abstract iterator returns, with the same store
    effects, given enough machine fuel. -/
theorem genRun_refines (N : Nat) (ops : List (Op V)) :
    ∀ (d : Gen σ V P) (a : AbsGen σ V P), Rel N d a → ∀ st,
    ∃ d', Rel N d' (absRun a st ops).1 ∧
      ∃ fuel, ∀ extra, genRun N (fuel + extra) d st ops = some (d', (absRun a st ops).2) := by
  induction ops with
  | nil => intro d a h st; exact ⟨d, h, 0, fun _ => rfl⟩
  | cons op ops ih =>
    intro d a h st
    obtain ⟨d1, hr1, fuel1, hf1⟩ := genStep_refines N d a h op st
    obtain ⟨d2, hr2, fuel2, hf2⟩ := ih d1 _ hr1 (absStep a op st).2.1
    refine ⟨d2, hr2, fuel1 + fuel2, fun extra => ?_⟩
    have e1 := hf1 (fuel2 + extra)
    have e2 := hf2 (fuel1 + extra)
    rw [← Nat.add_assoc] at e1
    rw [← Nat.add_assoc, Nat.add_comm fuel2 fuel1] at e2
    simp only [genRun, absRun, e1, e2]

end GoCo
