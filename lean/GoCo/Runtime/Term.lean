/-
  Runtime layer, part 1: combinator terms and resumption trees.

  Go ↔ model (seq/seq.go):
    Normal/Break/Continue/Return/ReturnValue  ↔ `Term.sig`
    Bind / BindRecv                           ↔ `Term.bind`  (the thunk receives the sent value; `Bind` ignores it)
    Delay                                     ↔ `Term.delay`
    Combine                                   ↔ `Term.combine`
    For / While / Loop                        ↔ `Term.loop` (cond / post optional, as Go's nil)
    a thunk, condition or post that panics    ↔ `Term.panic`, `CondR.panic`, `some p` from post

  A thunk `func() Seq[V]` is a pair of Lean functions `(f, g)` over an arbitrary user store `σ`:
  running it in store `st` produces the term `f st` and leaves the store `g st`.  (A pair rather than a
  function into a product keeps `Term` a plain, non-nested inductive.)
-/
set_option autoImplicit false

namespace GoCo

/-- `seq.contType`: kNormal | kBreak | kContinue | kReturn -/
inductive Sig | normal | brk | cont | ret
deriving DecidableEq, Repr, Inhabited

/-- outcome of evaluating a loop condition -/
inductive CondR (P : Type) | t | f | panic (p : P)
deriving Repr

inductive Term (σ V P : Type) : Type where
  | sig (s : Sig) (v : V)
  | bind (v : V) (f : V → σ → Term σ V P) (g : V → σ → σ)
  | delay (f : σ → Term σ V P) (g : σ → σ)
  | combine (a b : Term σ V P)
  | loop (cond : Option (σ → CondR P × σ)) (post : Option (σ → Option P × σ)) (body : Term σ V P)
  | panic (p : P)

/-- Resumption trees: what a consumer can observe of a running generator. -/
inductive Res (σ V P : Type) : Type where
  | done (s : Sig) (v : V) (st : σ)
  | yield (v : V) (st : σ) (resume : V → σ → Res σ V P)
  | panic (p : P) (st : σ)
  | oob

variable {σ V P : Type}

/-- bind of the resumption monad -/
def Res.bind : Res σ V P → (Sig → V → σ → Res σ V P) → Res σ V P
  | .done s v st, k => k s v st
  | .yield v st r, k => .yield v st (fun recv st' => (r recv st').bind k)
  | .panic p st, _ => .panic p st
  | .oob, _ => .oob

theorem Res.bind_assoc (r : Res σ V P) (f g : Sig → V → σ → Res σ V P) :
    (r.bind f).bind g = r.bind (fun s v st => (f s v st).bind g) := by
  induction r with
  | done s v st => rfl
  | yield v st r ih => simp only [Res.bind]; congr; funext recv st'; exact ih recv st'
  | panic p st => rfl
  | oob => rfl

theorem Res.bind_done (r : Res σ V P) : r.bind (fun s v st => .done s v st) = r := by
  induction r with
  | done s v st => rfl
  | yield v st r ih => simp only [Res.bind]; congr; funext recv st'; exact ih recv st'
  | panic p st => rfl
  | oob => rfl

end GoCo
