/-
  Independence of iterators over disjoint stores: an iterator whose thunks only touch the left
  component of a product store (`Term.inl`) behaves, under any interleaving with operations on another
  iterator that only touches the right component, exactly as it behaves alone.
-/
import GoCo.Runtime.Gen
set_option autoImplicit false

namespace GoCo
variable {σ₁ σ₂ V P : Type}

/-- run on the left component; the right component is threaded through unchanged -/
def Res.inl : Res σ₁ V P → σ₂ → Res (σ₁ × σ₂) V P
  | .done s v a, b => .done s v (a, b)
  | .yield v a r, b => .yield v (a, b) (fun recv ab => Res.inl (r recv ab.1) ab.2)
  | .panic p a, b => .panic p (a, b)
  | .oob, _ => .oob

def liftCond (c : σ₁ → CondR P × σ₁) : σ₁ × σ₂ → CondR P × (σ₁ × σ₂) :=
  fun ab => ((c ab.1).1, ((c ab.1).2, ab.2))

def liftPost (p : σ₁ → Option P × σ₁) : σ₁ × σ₂ → Option P × (σ₁ × σ₂) :=
  fun ab => ((p ab.1).1, ((p ab.1).2, ab.2))

/-- the same term, acting on the left component of a product store -/
def Term.inl : Term σ₁ V P → Term (σ₁ × σ₂) V P
  | .sig s v => .sig s v
  | .bind v f g => .bind v (fun recv ab => (f recv ab.1).inl) (fun recv ab => (g recv ab.1, ab.2))
  | .delay f g => .delay (fun ab => (f ab.1).inl) (fun ab => (g ab.1, ab.2))
  | .combine a b => .combine a.inl b.inl
  | .loop c p body => .loop (c.map liftCond) (p.map liftPost) body.inl
  | .panic p => .panic p

theorem Res.inl_bind (r : Res σ₁ V P) (k : Sig → V → σ₁ → Res σ₁ V P) (b : σ₂) :
    (r.bind k).inl b = (r.inl b).bind (fun s v ab => (k s v ab.1).inl ab.2) := by
  induction r generalizing b with
  | done s v a => rfl
  | yield v a r ih => simp only [Res.bind, Res.inl]; congr; funext recv ab; exact ih recv ab.1 ab.2
  | panic p a => rfl
  | oob => rfl

theorem loopHead_inl (c : Option (σ₁ → CondR P × σ₁)) (p : Option (σ₁ → Option P × σ₁)) (skip : Bool)
    (a : σ₁) (b : σ₂) :
    loopHead (c.map liftCond) (p.map liftPost) skip (a, b) =
      match loopHead c p skip a with
      | .stop a' => .stop (a', b)
      | .go a' => .go (a', b)
      | .panic e a' => .panic e (a', b) := by
  cases p with
  | none =>
    cases c with
    | none => cases skip <;> rfl
    | some c =>
      cases skip <;> simp only [loopHead, Option.map, liftCond] <;> rcases c a with ⟨r, a'⟩ <;> cases r <;> rfl
  | some p =>
    cases skip with
    | true =>
      cases c with
      | none => rfl
      | some c => simp only [loopHead, Option.map, liftCond]; rcases c a with ⟨r, a'⟩; cases r <;> rfl
    | false =>
      simp only [loopHead, Option.map, liftPost]
      rcases p a with ⟨e, a1⟩
      cases e with
      | some e => rfl
      | none =>
        cases c with
        | none => rfl
        | some c => simp only [liftCond]; rcases c a1 with ⟨r, a'⟩; cases r <;> rfl

theorem loopRef_inl [Inhabited V] (c : Option (σ₁ → CondR P × σ₁)) (p : Option (σ₁ → Option P × σ₁))
    (body : σ₁ → Res σ₁ V P) (body' : σ₁ × σ₂ → Res (σ₁ × σ₂) V P)
    (hb : ∀ a b, body' (a, b) = (body a).inl b) :
    ∀ (n : Nat) (skip : Bool) (a : σ₁) (b : σ₂),
      loopRef (c.map liftCond) (p.map liftPost) body' n skip (a, b) = (loopRef c p body n skip a).inl b := by
  intro n
  induction n with
  | zero => intro skip a b; rfl
  | succ n ih =>
    intro skip a b
    simp only [loopRef, loopHead_inl]
    cases loopHead c p skip a with
    | stop a' => rfl
    | panic e a' => rfl
    | go a' =>
      simp only [hb, Res.inl_bind]
      congr; funext s v ab
      cases s <;> simp only
      · exact ih false ab.1 ab.2
      · rfl
      · exact ih false ab.1 ab.2
      · rfl

/-- the reference semantics of a lifted term is the lifted reference semantics -/
theorem ref_inl [Inhabited V] (N : Nat) (t : Term σ₁ V P) :
    ∀ (a : σ₁) (b : σ₂), ref N (t.inl : Term (σ₁ × σ₂) V P) (a, b) = (ref N t a).inl b := by
  induction t with
  | sig s v => intro a b; rfl
  | bind v f g ih =>
    intro a b
    simp only [Term.inl, ref, Res.inl]
    congr; funext recv ab
    exact ih recv ab.1 (g recv ab.1) ab.2
  | delay f g ih => intro a b; simp only [Term.inl, ref]; exact ih a (g a) b
  | combine x y ihx ihy =>
    intro a b
    simp only [Term.inl, ref, ihx, Res.inl_bind]
    congr; funext s v ab
    by_cases h : s = .normal
    · simp only [h, if_true]; exact ihy ab.1 ab.2
    · simp only [h, if_false]; rfl
  | loop c p body ih =>
    intro a b
    simp only [Term.inl, ref]
    exact loopRef_inl c p (ref N body) (ref N body.inl) ih N true a b
  | panic p => intro a b; rfl

/-! ### at the level of the iterator protocol -/

def AbsGen.inl (g : AbsGen σ₁ V P) : AbsGen (σ₁ × σ₂) V P :=
  { started := g.started, current := g.current, result := g.result,
    rest := g.rest.map fun r recv ab => (r recv ab.1).inl ab.2 }

theorem advance_inl [Inhabited V] (g : AbsGen σ₁ V P) (sent : V) (a : σ₁) (b : σ₂) :
    (g.inl : AbsGen (σ₁ × σ₂) V P).advance sent (a, b) =
      match g.advance sent a with
      | (.yes g', a') => (.yes g'.inl, (a', b))
      | (.no g', a') => (.no g'.inl, (a', b))
      | (.panic p, a') => (.panic p, (a', b))
      | (.oob, a') => (.oob, (a', b)) := by
  obtain ⟨started, rest, current, result⟩ := g
  simp only [AbsGen.advance, AbsGen.inl]
  cases rest with
  | none => rfl
  | some r =>
    simp only [Option.map]
    cases r sent a <;> rfl

/-- **every operation** on the lifted iterator is the operation on the iterator alone; the other
    component of the store is not touched -/
theorem absStep_inl [Inhabited V] (g : AbsGen σ₁ V P) (op : Op V) (a : σ₁) (b : σ₂) :
    absStep (g.inl : AbsGen (σ₁ × σ₂) V P) op (a, b) =
      ((absStep g op a).1.inl, ((absStep g op a).2.1, b), (absStep g op a).2.2) := by
  cases op with
  | current => rfl
  | result => rfl
  | moveNext =>
    obtain ⟨started, rest, current, result⟩ := g
    have := advance_inl (σ₂ := σ₂) ⟨true, rest, current, result⟩ default a b
    simp only [AbsGen.inl] at this
    simp only [absStep, AbsGen.inl, this]
    rcases AbsGen.advance ⟨true, rest, current, result⟩ default a with ⟨r, a'⟩
    cases r <;> rfl
  | send v =>
    obtain ⟨started, rest, current, result⟩ := g
    cases started with
    | true =>
      have := advance_inl (σ₂ := σ₂) ⟨true, rest, current, result⟩ v a b
      simp only [AbsGen.inl] at this
      simp only [absStep, AbsGen.inl, if_true, this]
      rcases AbsGen.advance ⟨true, rest, current, result⟩ v a with ⟨r, a'⟩
      cases r <;> rfl
    | false =>
      have h1 := advance_inl (σ₂ := σ₂) ⟨true, rest, current, result⟩ default a b
      simp only [AbsGen.inl] at h1
      simp only [absStep, AbsGen.inl, Bool.false_eq_true, if_false, h1]
      rcases AbsGen.advance ⟨true, rest, current, result⟩ default a with ⟨r, a'⟩
      cases r with
      | yes g1 =>
        have h2 := advance_inl (σ₂ := σ₂) g1 v a' b
        simp only [AbsGen.inl] at h2
        simp only [h2]
        rcases AbsGen.advance g1 v a' with ⟨r2, a2⟩
        cases r2 <;> rfl
      | no g1 => rfl
      | panic p => rfl
      | oob => rfl

end GoCo
