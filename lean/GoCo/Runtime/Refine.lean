/-
  Runtime layer, part 4: the machine (model of seq.go) refines the reference interpreter,
  for all terms, continuations, stores and loop budgets.
-/
import GoCo.Runtime.Machine
set_option autoImplicit false

namespace GoCo
variable {σ V P : Type} [Inhabited V]

/-- What the machine must do, started in `c` with continuation `k`, when the reference says `r`. -/
def Match (N : Nat) : Res σ V P → Cont σ V P → Cfg σ V P → Prop
  | .done s v st, k, c => Reaches N c (.apply k s v st)
  | .oob, _, c => Reaches N c .oob
  | .panic p st, _, c => Reaches N c (.panicked p st)
  | .yield v st r, k, c => ∃ f g k', Reaches N c (.halt st (some ⟨v, f, g, k'⟩) none) ∧
      ∀ recv st', Match N (r recv st') k (.eval (f recv st') k' (g recv st'))

/-- key lemma for sequencing -/
theorem match_bind (N : Nat) (r : Res σ V P) (kf : Sig → V → σ → Res σ V P) (k1 k : Cont σ V P)
    (c : Cfg σ V P) (h : Match N r k1 c)
    (hk : ∀ s v st, Match N (kf s v st) k (.apply k1 s v st)) :
    Match N (r.bind kf) k c := by
  induction r generalizing c with
  | done s v st =>
    simp only [Res.bind]; simp only [Match] at h
    have := hk s v st
    revert this; generalize kf s v st = r'
    intro hm
    cases r' with
    | done s' v' st' => exact Reaches.trans h hm
    | oob => exact Reaches.trans h hm
    | panic p st' => exact Reaches.trans h hm
    | yield v' st' r'' =>
      obtain ⟨f, g, k', h1, h2⟩ := hm
      exact ⟨f, g, k', Reaches.trans h h1, h2⟩
  | oob => simpa [Res.bind, Match] using h
  | panic p st => simpa [Res.bind, Match] using h
  | yield v st r ih =>
    obtain ⟨f, g, k', h1, h2⟩ := h
    refine ⟨f, g, k', h1, fun recv st' => ?_⟩
    exact ih recv st' _ (h2 recv st')

theorem match_step {N : Nat} {r : Res σ V P} {k : Cont σ V P} {c : Cfg σ V P}
    (h : Match N r k (step N c)) : Match N r k c := by
  cases r with
  | done s v st => exact Reaches.step' h
  | oob => exact Reaches.step' h
  | panic p st => exact Reaches.step' h
  | yield v st r =>
    obtain ⟨f, g, k', h1, h2⟩ := h
    exact ⟨f, g, k', Reaches.step' h1, h2⟩

theorem loop_ok (N : Nat) (c : Option (σ → CondR P × σ)) (p : Option (σ → Option P × σ))
    (body : Term σ V P)
    (ihb : ∀ (k : Cont σ V P) (st : σ), Match N (ref N body st) k (.eval body k st))
    (n : Nat) (k : Cont σ V P) (skip : Bool) (st : σ) :
    Match N (loopRef c p (ref N body) n skip st) k (.loop n c p body k skip st) := by
  induction n generalizing skip st with
  | zero => exact ⟨1, rfl⟩
  | succ n ih =>
    apply match_step
    simp only [loopRef, step]
    cases hh : loopHead c p skip st with
    | stop st2 => exact Reaches.refl _ _
    | panic e st2 => exact Reaches.refl _ _
    | go st2 =>
      simp only
      apply match_bind N _ _ (.loopK n c p body k) k _ (ihb _ _)
      intro s v st3
      apply match_step
      cases s <;> simp only [step]
      · exact ih false st3
      · exact Reaches.refl _ _
      · exact ih false st3
      · exact Reaches.refl _ _

/-- **The machine refines the reference interpreter** (all terms, continuations, stores, budgets). -/
theorem machine_refines_ref (N : Nat) (t : Term σ V P) :
    ∀ (k : Cont σ V P) (st : σ), Match N (ref N t st) k (.eval t k st) := by
  induction t with
  | sig s v => intro k st; exact ⟨1, rfl⟩
  | bind v f g ih =>
    intro k st
    refine ⟨f, g, k, ⟨1, rfl⟩, fun recv st' => ?_⟩
    exact ih recv st' k (g recv st')
  | delay f g ih =>
    intro k st
    apply match_step
    exact ih st k (g st)
  | combine a b iha ihb =>
    intro k st
    apply match_step
    simp only [ref, step]
    apply match_bind N _ _ (.combK b k) k _ (iha _ _)
    intro s v st'
    apply match_step
    simp only [step]
    split
    · exact ihb k st'
    · exact Reaches.refl _ _
  | loop c p body ih =>
    intro k st
    apply match_step
    exact loop_ok N c p body ih N k true st
  | panic p => intro k st; exact ⟨1, rfl⟩

end GoCo
