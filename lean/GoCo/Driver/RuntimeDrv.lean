/- Line-protocol driver for the runtime correspondences (K1, K2). -/
import GoCo.Driver.Sexp
import GoCo.Runtime.Concrete
import GoCo.Runtime.Depth
set_option autoImplicit false

namespace GoCo
open Sexp

def parseVE : Sexp → Option VE
  | .list [.atom "const", n] => VE.const <$> n.int?
  | .list [.atom "cell", j] => VE.cell <$> j.nat?
  | .list [.atom "cellplus", j, n] => VE.cellPlus <$> j.nat? <*> n.int?
  | _ => none

def parseAct : Sexp → Option Act
  | .list [.atom "inc", j] => Act.inc <$> j.nat?
  | .list [.atom "set", j, n] => Act.set <$> j.nat? <*> n.int?
  | .list [.atom "recvto", j] => Act.recvTo <$> j.nat?
  | _ => none

/-- (s <id> (<acts>) <panic|->) -/
def parseScript : Sexp → Option Script
  | .list [.atom "s", id, .list acts, .atom pn] => do
      let id ← id.nat?
      let acts ← acts.mapM parseAct
      some ⟨id, acts, if pn = "-" then none else some pn⟩
  | _ => none

def parseCond : Sexp → Option (Option CCond)
  | .atom "-" => some none
  | .list [.atom "c", sc, j, n] => do
      let sc ← parseScript sc
      some (some ⟨sc, ← j.nat?, ← n.int?⟩)
  | _ => none

def parsePost : Sexp → Option (Option Script)
  | .atom "-" => some none
  | s => some <$> parseScript s

partial def parseCTerm : Sexp → Option CTerm
  | .atom "normal" => some .normal
  | .atom "brk" => some .brk
  | .atom "cont" => some .cont
  | .atom "ret" => some .ret
  | .list [.atom "retv", v] => CTerm.retv <$> parseVE v
  | .list [.atom "bind", v, th, b] => CTerm.bind <$> parseVE v <*> parseScript th <*> parseCTerm b
  | .list [.atom "delay", th, b] => CTerm.delay <$> parseScript th <*> parseCTerm b
  | .list [.atom "combine", a, b] => CTerm.combine <$> parseCTerm a <*> parseCTerm b
  | .list [.atom "loop", c, p, b] => CTerm.loop <$> parseCond c <*> parsePost p <*> parseCTerm b
  | .list [.atom "twice", a] => CTerm.twice <$> parseCTerm a
  | .list [.atom "ite", c, a, b] => do
      match ← parseCond c with
      | some cc => CTerm.ite cc <$> parseCTerm a <*> parseCTerm b
      | none => none
  | _ => none

def parseOp : Sexp → Option (Op Int)
  | .atom "M" => some .moveNext
  | .atom "C" => some .current
  | .atom "R" => some .result
  | .list [.atom "S", v] => Op.send <$> v.int?
  | _ => none

def showObs : Obs Int String → String
  | .bool b => toString b
  | .val v => toString v
  | .sent v ok => s!"{v},{ok}"
  | .panic p => s!"PANIC({p})"
  | .oob => "OOB"

def showOp : Op Int → String
  | .moveNext => "M" | .current => "C" | .result => "R" | .send v => s!"S{v}"

/-- events logged since `before` (both logs newest-first), oldest first -/
def logDelta (before after : List String) : List String :=
  (after.take (after.length - before.length)).reverse

def showStep (op : Op Int) (o : Obs Int String) (before after : Store) : String :=
  s!"{showOp op}={showObs o}[{",".intercalate (logDelta before.log after.log)}]"

def loopBudget : Nat := 1000000
def machineFuel : Nat := 100000000

/-- run an op history on the machine-backed generator object (the model of seq.go) -/
def runModel (t : CTerm) (ops : List (Op Int)) : String := Id.run do
  let mut st : Store := {}
  let mut d : Gen Store Int String := Gen.start (build t st)
  let mut out : Array String := #[]
  for op in ops do
    match genStep loopBudget machineFuel d op st with
    | none => out := out.push s!"{showOp op}=FUEL"; break
    | some (d', st', o) =>
      out := out.push (showStep op o st st')
      d := d'; st := st'
  return " ".intercalate out.toList ++ s!" cells={st.cells}"

/-- the same history on the abstract iterator over the reference interpreter (the specification) -/
def runSpec (t : CTerm) (ops : List (Op Int)) : String := Id.run do
  let mut st : Store := {}
  let mut a : AbsGen Store Int String := AbsGen.start loopBudget (build t st)
  let mut out : Array String := #[]
  for op in ops do
    let (a', st', o) := absStep a op st
    out := out.push (showStep op o st st')
    a := a'; st := st'
  return " ".intercalate out.toList ++ s!" cells={st.cells}"

/-- machine transitions (= Go frames) used by each MoveNext of a plain drain, up to `maxOps` advances -/
def runDepth (t : CTerm) (maxOps : Nat) : String := Id.run do
  let mut st : Store := {}
  let mut d : Gen Store Int String := Gen.start (build t st)
  let mut out : Array String := #[]
  for _ in [0:maxOps] do
    match d.next with
    | none => break
    | some nx =>
      let c0 : Cfg Store Int String := .eval (nx.f 0 st) nx.k (nx.g 0 st)
      let n := stepsToFinal loopBudget machineFuel c0
      out := out.push (toString n)
      match genStep loopBudget machineFuel d .moveNext st with
      | none => break
      | some (d', st', _) => d := d'; st := st'
  return " ".intercalate out.toList

/-! ### K2: depth of the Go stack at every callback (one frame per machine transition, except the
    trampoline of the repaired `For`) -/

def setDepthCfg (d : Nat) : Cfg Store Int String → Cfg Store Int String
  | .eval t k st => .eval t k { st with depth := d }
  | .apply k s v st => .apply k s v { st with depth := d }
  | .loop n c p b k sk st => .loop n c p b k sk { st with depth := d }
  | c => c

/-- run to a final configuration; every callback logs the depth at which it runs (`stepDS`, Runtime/Depth.lean) -/
partial def runDepthCfg (N : Nat) (c : Cfg Store Int String) (ds : DS) (fuel : Nat) : Cfg Store Int String :=
  if c.final || fuel = 0 then c else runDepthCfg N (step N (setDepthCfg ds.d c)) (stepDS c ds) (fuel - 1)

/-- events of one advance with depths normalised to the smallest depth of that advance -/
def normEvents (evs : List String) : String :=
  let parsed := evs.map fun e =>
    match e.splitOn "@" with
    | [n, d] => (n, d.toNat!)
    | _ => (e, 0)
  let m := parsed.foldl (fun acc p => min acc p.2) (parsed.head?.map (·.2) |>.getD 0)
  ",".intercalate (parsed.map fun p => s!"{p.1}@{p.2 - m}")

/-- a plain drain of `maxOps` MoveNext calls with depth-tagged events -/
def runDepthTrace (t : CTerm) (maxOps : Nat) : String := Id.run do
  let mut st : Store := { logDepth := true }
  let mut d : Gen Store Int String := Gen.start (build t st)
  let mut out : Array String := #[]
  for _ in [0:maxOps] do
    match d.next with
    | none => out := out.push "M=false[]"; break
    | some nx =>
      let st0 := { st with depth := 0 }
      let c0 : Cfg Store Int String := .eval (nx.f 0 st0) nx.k (nx.g 0 st0)
      match runDepthCfg loopBudget c0 { d := 1 } machineFuel with
      | .halt st' (some pd) _ =>
        out := out.push s!"M=true[{normEvents (logDelta st.log st'.log)}]"
        d := { d with next := some ⟨pd.f, pd.g, pd.k⟩, current := pd.value }; st := st'
      | .halt st' none _ =>
        out := out.push s!"M=false[{normEvents (logDelta st.log st'.log)}]"
        break
      | .panicked p st' =>
        out := out.push s!"M=PANIC({p})[{normEvents (logDelta st.log st'.log)}]"; st := st'; break
      | _ => out := out.push "M=OOB"; break
  return " ".intercalate out.toList

/-- request: `(k1 <cterm> (<ops>))` → `model: … | spec: …` ; `(k2 <cterm> n)` -/
def runtimeRequest : Sexp → Option String
  | .list [.atom "k1", t, .list ops] => do
      let t ← parseCTerm t
      let ops ← ops.mapM parseOp
      some s!"{runModel t ops} | {runSpec t ops}"
  | .list (.atom "k1m" :: t :: hs) => do
      let t ← parseCTerm t
      let hs ← hs.mapM fun h => match h with
        | .list ops => ops.mapM parseOp
        | _ => none
      let m := " || ".intercalate (hs.map (runModel t))
      let sp := " || ".intercalate (hs.map (runSpec t))
      some s!"{m} ### {sp}"
  | .list [.atom "k2", t, n] => do
      let t ← parseCTerm t
      some (runDepth t (← n.nat?))
  | .list [.atom "k2d", t, n] => do
      let t ← parseCTerm t
      some (runDepthTrace t (← n.nat?))
  | _ => none

end GoCo
