/- Line-protocol driver for the compiler correspondences (K4: compile, K5: optimize). -/
import GoCo.Driver.Sexp
import GoCo.Compile.Compile
import GoCo.Compile.VM
import GoCo.Compile.Guard
import GoCo.Compile.Scope
set_option autoImplicit false

namespace GoCo.MG
open GoCo Sexp

def sigName : Sig → String
  | .normal => "normal" | .brk => "brk" | .cont => "cont" | .ret => "ret"

def parseSig : Sexp → Option Sig
  | .atom "normal" => some .normal | .atom "brk" => some .brk
  | .atom "cont" => some .cont | .atom "ret" => some .ret
  | _ => none

def natS (n : Nat) : Sexp := .atom (toString n)

def VExp.toSexp (e : VExp) : Sexp := .list [.atom (if e.lit then "lit" else "v"), natS e.n]

def parseVExp : Sexp → Option VExp
  | .list [.atom "lit", n] => (VExp.mk true) <$> n.nat?
  | .list [.atom "v", n] => (VExp.mk false) <$> n.nat?
  | _ => none

def Simple.toSexp : Simple → Sexp
  | .act n => .list [.atom "act", natS n]
  | .pact n => .list [.atom "pact", natS n]
  | .bpanic n => .list [.atom "bpanic", natS n]
  | .def_ n => .list [.atom "def", natS n]
  | .yield e => .list [.atom "yield", e.toSexp]
  | .empty => .atom "empty"

def parseSimple : Sexp → Option Simple
  | .list [.atom "act", n] => Simple.act <$> n.nat?
  | .list [.atom "pact", n] => Simple.pact <$> n.nat?
  | .list [.atom "bpanic", n] => Simple.bpanic <$> n.nat?
  | .list [.atom "def", n] => Simple.def_ <$> n.nat?
  | .list [.atom "yield", e] => Simple.yield <$> parseVExp e
  | .atom "empty" => some .empty
  | _ => none

def optSimpleSexp : Option Simple → Sexp
  | none => .atom "-"
  | some s => s.toSexp

def parseOptSimple : Sexp → Option (Option Simple)
  | .atom "-" => some none
  | s => some <$> parseSimple s

def condSexp (hd : String) : Option CondE → Sexp
  | none => .atom "-"
  | some c => .list [.atom hd, natS c.n, .list (c.uses.map natS)]

def parseCondE (hd : String) : Sexp → Option (Option CondE)
  | .atom "-" => some none
  | .list [.atom h, n, .list us] =>
      if h = hd then do
        let n ← n.nat?
        let us ← us.mapM Sexp.nat?
        some (some ⟨n, us⟩)
      else none
  | _ => none

mutual
  partial def Stmt.toSexp : Stmt → Sexp
    | .simple s => s.toSexp
    | .block ss => .list [.atom "block", stmtsSexp ss]
    | .ifs init c thn els =>
        .list [.atom "if", optSimpleSexp init, condSexp "c" (some c), stmtsSexp thn,
          match els with
          | .none => .atom "-"
          | .els ss => .list [.atom "else", stmtsSexp ss]
          | .elif s => .list [.atom "elif", s.toSexp]]
    | .switch init tag cases => .list [.atom "switch", optSimpleSexp init, condSexp "t" tag, casesSexp cases]
    | .for_ init cond post body =>
        .list [.atom "for", optSimpleSexp init, condSexp "c" cond, optSimpleSexp post, stmtsSexp body]
    | .brk => .atom "break"
    | .cont => .atom "continue"
    | .fallthrough => .atom "fallthrough"
    | .ret => .atom "ret"
    | .rete e => .list [.atom "rete", e.toSexp]
    | .unknown t => .list [.atom "unknown", .atom t]
  partial def stmtsSexp (ss : Stmts) : Sexp := .list (ss.toList.map Stmt.toSexp)
  partial def casesSexp : Cases → Sexp
    | cs => .list (go cs)
  where go : Cases → List Sexp
    | .nil => []
    | .cons true _ body r => .list [.atom "default", stmtsSexp body] :: go r
    | .cons false ks body r => .list [.atom "case", .list (ks.map natS), stmtsSexp body] :: go r
  partial def SExp.toSexp : SExp → Sexp
    | .sig s => .list [.atom "sig", .atom (sigName s)]
    | .bind e th => .list [.atom "bind", e.toSexp, th.toSexp]
    | .delay th => .list [.atom "delay", th.toSexp]
    | .combine a b => .list [.atom "combine", a.toSexp, b.toSexp]
    | .loop c p body => .list [.atom "loop", condSexp "c" c, optSimpleSexp p, body.toSexp]
    | .start a => .list [.atom "start", a.toSexp]
    | .unknown t => .list [.atom "unknown", .atom t]
  partial def Thunk.toSexp : Thunk → Sexp
    | .lam ss => .list [.atom "lam", stmtsSexp ss]
    | .fn s => .list [.atom "fn", .atom (sigName s)]
end

mutual
  partial def parseStmt : Sexp → Option Stmt
    | .atom "break" => some .brk
    | .atom "continue" => some .cont
    | .atom "fallthrough" => some .fallthrough
    | .atom "ret" => some .ret
    | .list [.atom "block", ss] => Stmt.block <$> parseStmts ss
    | .list [.atom "if", init, c, thn, els] => do
        let init ← parseOptSimple init
        let c ← parseCondE "c" c
        let c ← c
        let thn ← parseStmts thn
        let els ← (match els with
          | .atom "-" => some Else.none
          | .list [.atom "else", ss] => Else.els <$> parseStmts ss
          | .list [.atom "elif", s] => Else.elif <$> parseStmt s
          | _ => none)
        some (.ifs init c thn els)
    | .list [.atom "switch", init, tag, .list cs] => do
        let init ← parseOptSimple init
        let tag ← parseCondE "t" tag
        let cs ← parseCases cs
        some (.switch init tag cs)
    | .list [.atom "for", init, c, post, body] => do
        some (.for_ (← parseOptSimple init) (← parseCondE "c" c) (← parseOptSimple post) (← parseStmts body))
    | .list [.atom "rete", e] => Stmt.rete <$> parseSExp e
    | .list [.atom "unknown", .atom t] => some (.unknown t)
    | s => Stmt.simple <$> parseSimple s
  partial def parseStmts : Sexp → Option Stmts
    | .list xs => do
        let ss ← xs.mapM parseStmt
        some (Stmts.ofList ss)
    | _ => none
  partial def parseCases : List Sexp → Option Cases
    | [] => some .nil
    | .list [.atom "default", body] :: r => do
        some (.cons true [] (← parseStmts body) (← parseCases r))
    | .list [.atom "case", .list ks, body] :: r => do
        some (.cons false (← ks.mapM Sexp.nat?) (← parseStmts body) (← parseCases r))
    | _ => none
  partial def parseSExp : Sexp → Option SExp
    | .list [.atom "sig", s] => SExp.sig <$> parseSig s
    | .list [.atom "bind", e, th] => SExp.bind <$> parseVExp e <*> parseThunk th
    | .list [.atom "delay", th] => SExp.delay <$> parseThunk th
    | .list [.atom "combine", a, b] => SExp.combine <$> parseSExp a <*> parseSExp b
    | .list [.atom "loop", c, p, body] => do
        some (.loop (← parseCondE "c" c) (← parseOptSimple p) (← parseSExp body))
    | .list [.atom "start", a] => SExp.start <$> parseSExp a
    | .list [.atom "unknown", .atom t] => some (.unknown t)
    | _ => none
  partial def parseThunk : Sexp → Option Thunk
    | .list [.atom "lam", ss] => Thunk.lam <$> parseStmts ss
    | .list [.atom "fn", s] => Thunk.fn <$> parseSig s
    | _ => none
end

/-- K9: every numbered atom with the names visible at it (`A5:1,2`); literal yields carry no number -/
def atomTok : Atom → Option String
  | .s (.act n) => some s!"A{n}"
  | .s (.pact n) => some s!"P{n}"
  | .s (.bpanic n) => some s!"PV{n}"
  | .s (.def_ n) => some s!"V{n}"
  | .y ⟨false, n⟩ => some s!"V{n}"
  | .c x => some s!"C{x.n}"
  | _ => none

def scopeReport (ss : Stmts) : String :=
  " ".intercalate ((obsL [] ss).filterMap fun o =>
    (atomTok o.1).map fun t => t ++ ":" ++ ",".intercalate (o.2.map toString))

def compileRequest : Sexp → Option String
  | .list [.atom "k4", body] => do
      let ss ← parseStmts body
      match compile currentQuirks ss with
      | .ok out => some s!"ok {stmtsSexp out}\tsupported={Supported ss} buildable={Buildable out}"
      | .error e => some s!"err {e}\tsupported={Supported ss} buildable=false"
  | .list [.atom "k9", body] => do
      let ss ← parseStmts body
      some s!"ok {scopeReport ss}\tscopeOK={scopeOKL ss}"
  | .list [.atom "k5", body] => do
      let ss ← parseStmts body
      some s!"ok {stmtsSexp (optimize ss)}"
  | .list [.atom "k6s", fuel, max, body] => do
      let ss ← parseStmts body
      some (" ".intercalate (srcTrace (← fuel.nat?) (← max.nat?) ss))
  | .list [.atom "k6t", fuel, max, body] => do
      let ss ← parseStmts body
      some (" ".intercalate (tgtTrace (← fuel.nat?) (← max.nat?) ss))
  | _ => none

end GoCo.MG
