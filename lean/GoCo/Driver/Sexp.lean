/- S-expressions: the wire format of the line protocol between the Go harness and the Lean driver. -/
set_option autoImplicit false
namespace GoCo

inductive Sexp where
  | atom (s : String)
  | list (xs : List Sexp)
deriving Repr, Inhabited, BEq

namespace Sexp

partial def toStr : Sexp → String
  | .atom s => s
  | .list xs => "(" ++ " ".intercalate (xs.map toStr) ++ ")"

instance : ToString Sexp := ⟨toStr⟩

private def isDelim (c : Char) : Bool := c = '(' || c = ')' || c = ' ' || c = '\t' || c = '\n'

/-- tokens: "(" , ")" and atoms -/
def tokenize (s : String) : List String := Id.run do
  let mut toks : Array String := #[]
  let mut cur : String := ""
  for c in s.toList do
    if isDelim c then
      if cur ≠ "" then toks := toks.push cur; cur := ""
      if c = '(' then toks := toks.push "("
      if c = ')' then toks := toks.push ")"
    else cur := cur.push c
  if cur ≠ "" then toks := toks.push cur
  return toks.toList

/-- parse with an explicit stack of open lists -/
def parseToks (toks : List String) : Option Sexp := Id.run do
  let mut stack : List (Array Sexp) := []
  let mut top : Array Sexp := #[]
  for t in toks do
    if t = "(" then
      stack := top :: stack; top := #[]
    else if t = ")" then
      match stack with
      | [] => return none
      | p :: rest => top := p.push (.list top.toList); stack := rest
    else top := top.push (.atom t)
  if !stack.isEmpty then return none
  match top.toList with
  | [x] => return some x
  | _ => return none

def parse (s : String) : Option Sexp := parseToks (tokenize s)

def nat? : Sexp → Option Nat
  | .atom s => s.toNat?
  | _ => none

def int? : Sexp → Option Int
  | .atom s => s.toInt?
  | _ => none

end Sexp
end GoCo
