/- Line-protocol driver for correspondence K3 (iterators). -/
import GoCo.Driver.Sexp
import GoCo.Iters.Model
import GoCo.Compile.RangeLower
import GoCo.Compile.EtaDecision
set_option autoImplicit false

namespace GoCo.Iters
open GoCo Sexp

def showPairs (l : List (Nat × Nat)) : String :=
  " ".intercalate (l.map fun p => s!"{p.1}:{p.2}")

/-- `(k3s (b0 b1 …))` → `<model iterator> ### <specification>`; `(k3i n+100)` likewise -/
def itersRequest : Sexp → Option String
  | .list [.atom "k3s", .list bs] => do
      let bs ← bs.mapM Sexp.nat?
      some s!"{showPairs (drain strIter bs.length (newStrIter bs))} ### {showPairs (rangeStr bs)}"
  | .list [.atom "k3i", n] => do
      let n ← n.nat?
      let i : Int := (n : Int) - 100
      let sh (l : List Int) := " ".intercalate (l.map toString)
      some s!"{sh (drain intIter (i.toNat + 1) (newIntIter i))} ### {sh (rangeInt i)}"
  | .list [.atom "k3sl", .list init, cap, .list ops] => do
      -- a slice under a mutation script: the model iterator under the lowered loop ### the range specification
      let init ← init.mapM Sexp.nat?
      let cap ← cap.nat?
      let ops ← ops.mapM fun
        | .list [.atom kind, at_, k, v] => do
            let at_ ← at_.nat?; let k ← k.nat?; let v ← v.nat?
            match kind with
            | "set" => some (at_, ScriptOp.set k v)
            | "append" => some (at_, ScriptOp.append v)
            | "truncate" => some (at_, ScriptOp.truncate k)
            | _ => none
        | _ => none
      if cap < init.length then none else
      let sh (l : List (Option (Nat × Nat))) : String :=
        " ".intercalate (l.map fun | some p => s!"{p.1}:{p.2}" | none => "panic")
      let m := mkScriptMem init cap
      -- the same through `loopSlice` (the loop of C04_slice_range) with a body that logs what it sees
      let lp := loopSlice (M := ScriptMem × List (Option (Nat × Nat))) (fun mm i => scriptRead mm.1 i)
        (fun j e mm => ((scriptBody ops j mm.1, mm.2 ++ [e]), false)) (init.length + 1) (newSliceIter init.length) (m, []) 0
      let dr := drainSlice scriptRead (scriptBody ops) (init.length + 1) (newSliceIter init.length) m
      if sh lp.1.2 != sh dr || lp.2 != init.length + 1 then some "bad-internal loopSlice and drainSlice differ" else
      some s!"{sh dr} ### {sh (rangeSlice scriptRead (scriptBody ops) init.length m)}"
  | .list [.atom "k10", .atom which, .atom tok, .atom key, .atom val] => do
      -- the shape of the lowered loop body for one form of the range clause; names: k = 1, v = 2
      let tok ← (match tok with | "define" => some RL.Tok.define | "assign" => some RL.Tok.assign | _ => none)
      let nm (a : String) (n : Nat) : Option Nat := if a = "name" then some n else none
      let r : RL.RangeStmt := ⟨tok, nm key 1, nm val 2, .nil⟩
      let l ← (match which with | "gen" => some (RL.lowerGen r) | "consumer" => some (RL.lowerConsumer r) | _ => none)
      let showSet (x : RL.Tok × Nat × Bool) : String :=
        (if x.1 = .define then ":=" else "=") ++ " " ++ (if x.2.1 = 1 then "k" else "v") ++ " " ++ (if x.2.2 then "Key" else "Val")
      some s!"sets=[{"; ".intercalate (l.sets.map showSet)}] nested={l.nested}"
  | .list [.atom "k11", .atom callee, .atom args, .atom ty] => k11 callee args ty "value"
  | .list [.atom "k11", .atom callee, .atom args, .atom ty, .atom pos] => k11 callee args ty pos
  | _ => none
where
  k11 (callee args ty pos : String) : Option String := do
      let c ← (match callee with
        | "declared" => some (EtaD.Callee.declared false false)
        | "declared-generic" => some (.declared true false)
        | "declared-generic-inst" => some (.declared true true)
        | "declared-generic-partial" => some (.declared true false)   -- f[A] of f[A, B]: not all arguments written
        | "pkgfunc-generic-partial" => some (.pkgFunc true false)
        | "pkgfunc" => some (.pkgFunc false false)
        | "pkgfunc-generic" => some (.pkgFunc true false)
        | "pkgfunc-generic-inst" => some (.pkgFunc true true)
        | "localvar" => some .localVar | "field" => some .field
        | "method-itervar" => some .methodOfIterVar | "method-uservar" => some .methodOfUserVar
        | "method-expr" => some .methodOfExpr | "conversion" => some .conversion | "builtin" => some .builtin
        | "indexed" => some .indexed | "callresult" => some .callResult
        | _ => none)
      let a ← (match args with
        | "same" => some EtaD.Args.same | "permuted" => some .permuted | "duplicated" => some .duplicated
        | "nonident" => some .nonIdent | "fewer" => some .fewer | _ => none)
      let p ← (match pos with | "value" => some (EtaD.Pos.value false) | "value-deferred-later" => some (.value true) | "deferred" => some .deferred | _ => none)
      some (if EtaD.etaOK ⟨c, a, ty = "sametype", p⟩ then "reduced" else "kept")

end GoCo.Iters
