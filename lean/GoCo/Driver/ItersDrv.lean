/- Line-protocol driver for correspondence K3 (iterators). -/
import GoCo.Driver.Sexp
import GoCo.Iters.Model
set_option autoImplicit false

namespace GoCo.Iters
open GoCo Sexp

def showPairs (l : List (Nat × Nat)) : String :=
  " ".intercalate (l.map fun p => s!"{p.1}:{p.2}")

/-- `(k3s (b0 b1 …))` → `<model iterator> ### <specification>`; `(k3i n+100)` likewise -/
def itersRequest : Sexp → Option String
  | .list [.atom "k3s", .list bs] => do
      let bs ← bs.mapM Sexp.nat?
      some s!"{showPairs (drain strIter bs.length (newStrIter bs))} ### {showPairs (rangeStr bs)}"
  | .list [.atom "k3i", n] => do
      let n ← n.nat?
      let i : Int := (n : Int) - 100
      let sh (l : List Int) := " ".intercalate (l.map toString)
      some s!"{sh (drain intIter (i.toNat + 1) (newIntIter i))} ### {sh (rangeInt i)}"
  | _ => none

end GoCo.Iters
