/-
  pass2 (the CPS rewriting) preserves the coroutine semantics, on the fragment `fragL` and under the
  guard `supportedL` (findings D6/D7 excluded):

    rwStmts q ss cur = ok fin  →
      closed (fin) = cur ; closed (source ss)

  where `closed` runs a statement list as the body of a `func() Seq` literal.
-/
import GoCo.Proofs.Pass2Lemmas
import GoCo.Proofs.SwitchLemmas
set_option autoImplicit false

namespace GoCo.MG
variable {σ P : Type}

theorem plug_append (a b : List Frame) (fin : Blk) : plug (a ++ b) fin = plug b (plug a fin) := by
  simp [plug, List.foldl_append]

theorem denSimple_false_noY (ρ : Interp σ P) (s : Simple) (st : σ) : Res.NoY (denSimple ρ false s st) := by
  cases s with
  | act n => simp only [denSimple, effect]; rcases ρ.act n st with ⟨_ | e, st'⟩ <;> first | exact .done | exact .panic
  | pact n => simp only [denSimple, effect]; rcases ρ.pact n st with ⟨_ | e, st'⟩ <;> first | exact .done | exact .panic
  | bpanic n => simp only [denSimple]; exact .panic
  | def_ n => simp only [denSimple, effect]; rcases ρ.def_ n st with ⟨_ | e, st'⟩ <;> first | exact .done | exact .panic
  | yield e =>
    simp only [denSimple]
    rcases evalV ρ e st with ⟨_ | v, st'⟩
    · exact .panic
    · exact .done
  | empty => exact .done

theorem trivOK_simple (ρ : Interp σ P) (N : Nat) (s : Simple) : TrivOK ρ N (.simple s) :=
  fun st => ⟨(denSimple_fallOnly ρ false s st).mono fun o (h : o = Flow.fall) => h ▸ plain_fall,
    denSimple_false_noY ρ s st⟩

theorem denSimple_susp (ρ : Interp σ P) (s : Simple) (h : s.isYield = false) (st : σ) :
    denSimple ρ false s st = denSimple ρ true s st := by
  cases s <;> first | rfl | simp [Simple.isYield] at h

theorem denInit_susp (ρ : Interp σ P) (i : Option Simple) (h : optIsYield i = false) (st : σ) :
    denInit ρ false i st = denInit ρ true i st := by
  cases i with
  | none => rfl
  | some s => exact denSimple_susp ρ s h st

theorem denElse_unwrapIf (ρ : Interp σ P) (N : Nat) (susp : Bool) (ss : Stmts) (st : σ) :
    denElse ρ N susp (unwrapIf ss) st = denL ρ N susp ss st := by
  unfold unwrapIf
  split
  · simp only [denElse, denL_single']
  · rfl

/-- trivially kept statements: from "no yield reached as a coroutine" to `TrivOK` -/
theorem trivOK_of_noY (ρ : Interp σ P) (N : Nat) (s : Stmt) (hf : fragS s = true)
    (h : ∀ st, Res.NoY (denS ρ N true s st)) :
    TrivOK ρ N s ∧ ∀ st, denS ρ N false s st = denS ρ N true s st := by
  have he : ∀ st, denS ρ N false s st = denS ρ N true s st := fun st => fragS_noY ρ N s hf st (h st)
  exact ⟨fun st => ⟨fragS_plain ρ N false s hf st, by rw [he]; exact h st⟩, he⟩

/-- a rewritten block judged yield-free means the source list reaches no yield -/
theorem noY_of_mustNoYield {ρ : Interp σ P} {N : Nat} {b : Blk} {r : Res Flow σ P}
    (hi : ItemsOK ρ N b) (hs : ShapeOK b) (hm : b.mustNoYield = true) (st : σ)
    (h : closed (Dblk ρ N b st) = closed r) : Res.NoY r := by
  have := mustNoYield_noY hi hs hm st
  rw [← closed_noY_iff, ← h, closed_noY_iff]
  exact this

/-- spec of rewriteStmt's result -/
def SRok (ρ : Interp σ P) (N : Nat) (cur : Blk) (s : Stmt) (isLast : Bool) : SR → Prop
  | .stop c => ItemsOK ρ N c ∧ ShapeOK c ∧
      ∀ rest : Stmts, (isLast = true → rest = .nil) → ∀ st,
        closed (Dblk ρ N c st) = seqN (Dblk ρ N cur st) (fun st' => closed (denL ρ N true (.cons s rest) st'))
  | .go fol frames => ItemsOK ρ N fol ∧ ShapeA fol ∧
      (∀ fin, ItemsOK ρ N fin → ShapeOK fin → ItemsOK ρ N (plug frames fin) ∧ ShapeOK (plug frames fin)) ∧
      ∀ (fin : Blk) (K' : σ → Res Sig σ P), (∀ st, closed (Dblk ρ N fin st) = seqN (Dblk ρ N fol st) K') →
        ∀ st, closed (Dblk ρ N (plug frames fin) st)
          = seqN (Dblk ρ N cur st) (fun st' => seqN (denS ρ N true s st') K')

/-- pushing an ordinary statement: the `go cur' []` result -/
theorem go_trivial (ρ : Interp σ P) (N : Nat) (cur : Blk) (s : Stmt) (isLast : Bool) (ho : Open ρ N cur)
    (ht : TrivOK ρ N s) (he : ∀ st, closed (denS ρ N false s st) = closed (denS ρ N true s st)) :
    SRok ρ N cur s isLast (.go (cur.pushU s .trivial) []) := by
  have hop := ho.pushU ht
  refine ⟨hop.items, hop.shapeA, fun fin h1 h2 => ⟨h1, h2⟩, fun fin K' hf st => ?_⟩
  rw [show plug [] fin = fin from rfl, hf, Dblk_pushU, seqN_thenF (ho.plain st)]
  congr; funext st'
  exact seqN_congr_closed (he st') K'

theorem closed_ifs (ρ : Interp σ P) (N : Nat) (susp : Bool) (init : Option Simple) (c : CondE)
    (thn : Stmts) (els : Else) (st : σ) :
    closed (denS ρ N susp (.ifs init c thn els) st) =
      (denInit ρ susp init st).bind fun _ st1 =>
        match ρ.cond c.n st1 with
        | (.error p, st2) => .panic p st2
        | (.ok true, st2) => closed (denL ρ N susp thn st2)
        | (.ok false, st2) => closed (denElse ρ N susp els st2) := by
  simp only [denS, closed_bind]
  congr; funext _ st1
  rcases ρ.cond c.n st1 with ⟨_ | b, st2⟩
  · rfl
  · cases b <;> rfl

theorem ifs_noY (ρ : Interp σ P) (N : Nat) (init : Option Simple) (c : CondE) (thn : Stmts) (els : Else)
    (hi : optIsYield init = false)
    (h1 : ∀ st, Res.NoY (denL ρ N true thn st)) (h2 : ∀ st, Res.NoY (denElse ρ N true els st)) (st : σ) :
    Res.NoY (denS ρ N true (.ifs init c thn els) st) := by
  simp only [denS]
  rw [Res.NoY.bind_iff]
  refine ⟨?_, fun o st1 _ => ?_⟩
  · rw [← denInit_susp ρ init hi]
    cases init with
    | none => exact .done
    | some s => exact denSimple_false_noY ρ s st
  · rcases ρ.cond c.n st1 with ⟨_ | b, st2⟩
    · exact .panic
    · cases b
      · exact h2 st2
      · exact h1 st2

/-- the pushing half of rewriteIfStmt -/
theorem ifPush_ok (ρ : Interp σ P) (N : Nat) (init : Option Simple) (c : CondE) (thn : Stmts) (els : Else)
    (body : Blk) (e : Option Blk) (cur fin : Blk)
    (hfrag : fragS (.ifs init c thn els) = true) (ho : Open ρ N cur)
    (hb : ItemsOK ρ N body ∧ ShapeOK body ∧ ∀ st, closed (Dblk ρ N body st) = closed (denL ρ N true thn st))
    (he : match e with
      | none => els = .none
      | some eb => ItemsOK ρ N eb ∧ ShapeOK eb ∧ ∀ st, closed (Dblk ρ N eb st) = closed (denElse ρ N true els st))
    (h : ifPush init c thn els body e cur = .ok fin) :
    ∃ s' k, fin = cur.pushU s' k ∧ (k = .trivial ∨ k = .ifk) ∧ (k = .trivial → TrivOK ρ N s') ∧
      ∀ st, closed (denS ρ N false s' st) = closed (denS ρ N true (.ifs init c thn els) st) := by
  have hinit : optIsYield init = false := by
    simp only [fragS, Bool.and_eq_true] at hfrag; simpa using hfrag.1.1
  -- the rewritten if, whatever its else part
  have rewritten : ∀ (E : Else), (∀ st, closed (denElse ρ N false E st) = closed (denElse ρ N true els st)) →
      ∀ st, closed (denS ρ N false (.ifs init c body.toStmts E) st)
        = closed (denS ρ N true (.ifs init c thn els) st) := by
    intro E hE st
    rw [closed_ifs, closed_ifs, denInit_susp ρ init hinit]
    congr; funext _ st1
    rcases ρ.cond c.n st1 with ⟨_ | b, st2⟩
    · rfl
    · cases b
      · exact hE st2
      · exact hb.2.2 st2
  -- the untouched if, when both branches were judged yield-free
  have untouched : (∀ st, Res.NoY (denL ρ N true thn st)) → (∀ st, Res.NoY (denElse ρ N true els st)) →
      TrivOK ρ N (.ifs init c thn els) ∧
        ∀ st, closed (denS ρ N false (.ifs init c thn els) st) = closed (denS ρ N true (.ifs init c thn els) st) := by
    intro h1 h2
    have := trivOK_of_noY ρ N _ hfrag (ifs_noY ρ N init c thn els hinit h1 h2)
    exact ⟨this.1, fun st => by rw [this.2]⟩
  unfold ifPush at h
  cases e with
  | none =>
    simp only at he h
    subst he
    by_cases hm : body.mustNoYield = true
    · rw [if_pos hm] at h
      have hu := untouched (fun st => noY_of_mustNoYield hb.1 hb.2.1 hm st (hb.2.2 st)) (fun st => .done)
      exact ⟨_, _, push_ok h, .inl rfl, fun _ => hu.1, hu.2⟩
    · rw [if_neg hm] at h
      exact ⟨_, _, push_ok h, .inr rfl, (fun hk => nomatch hk), rewritten .none (fun st => rfl)⟩
  | some eb =>
    simp only at he h
    by_cases hm : (body.mustNoYield && eb.mustNoYield) = true
    · rw [if_pos hm] at h
      simp only [Bool.and_eq_true] at hm
      have hu := untouched (fun st => noY_of_mustNoYield hb.1 hb.2.1 hm.1 st (hb.2.2 st))
        (fun st => noY_of_mustNoYield he.1 he.2.1 hm.2 st (he.2.2 st))
      exact ⟨_, _, push_ok h, .inl rfl, fun _ => hu.1, hu.2⟩
    · rw [if_neg hm] at h
      refine ⟨_, _, push_ok h, .inr rfl, (fun hk => nomatch hk), rewritten _ (fun st => ?_)⟩
      rw [denElse_unwrapIf]; exact he.2.2 st

/-- extraction of a for / switch initialiser (rewriteStmt on a simple statement, isLast = false) -/
theorem rwInit_ok (ρ : Interp σ P) (N : Nat) (i : Simple) (cur fol : Blk) (frames : List Frame)
    (ho : Open ρ N cur) (h : rwInit i cur = .ok (.go fol frames)) :
    Open ρ N fol ∧
    (∀ fin, ItemsOK ρ N fin → ShapeOK fin → ItemsOK ρ N (plug frames fin) ∧ ShapeOK (plug frames fin)) ∧
    ∀ (fin : Blk) (K' : σ → Res Sig σ P), (∀ st, closed (Dblk ρ N fin st) = seqN (Dblk ρ N fol st) K') →
      ∀ st, closed (Dblk ρ N (plug frames fin) st)
        = seqN (Dblk ρ N cur st) (fun st' => seqN (denSimple ρ true i st') K') := by
  cases i with
  | yield e =>
    simp only [rwInit] at h
    obtain ⟨_, _, h⟩ := bind_ok h
    cases pure_ok h
    refine ⟨open_mk0 ρ N .delay, fun fin _ _ => ?_, fun fin K' hf st => ?_⟩
    · have := plug_frame_items (ρ := ρ) (N := N) (.bindF cur e) fin ho
      exact ⟨this.1, .inl this.2⟩
    · rw [plug_bindF_spec ho]
      congr; funext st'; congr; funext st''
      rw [hf, Dblk_mk0, seqN_done_fall]
  | empty =>
    simp only [rwInit] at h
    cases pure_ok h
    refine ⟨ho, fun fin h1 h2 => ⟨h1, h2⟩, fun fin K' hf st => ?_⟩
    rw [show plug [] fin = fin from rfl, hf]
    simp only [denSimple, seqN_done_fall]
  | act n =>
    simp only [rwInit] at h
    obtain ⟨b', hb', h⟩ := bind_ok h
    cases pure_ok h
    have := push_ok hb'; subst this
    refine ⟨ho.pushU (trivOK_simple ρ N _), fun fin h1 h2 => ⟨h1, h2⟩, fun fin K' hf st => ?_⟩
    rw [show plug [] fin = fin from rfl, hf, Dblk_pushU, seqN_thenF (ho.plain st)]; rfl
  | pact n =>
    simp only [rwInit] at h
    obtain ⟨b', hb', h⟩ := bind_ok h
    cases pure_ok h
    have := push_ok hb'; subst this
    refine ⟨ho.pushU (trivOK_simple ρ N _), fun fin h1 h2 => ⟨h1, h2⟩, fun fin K' hf st => ?_⟩
    rw [show plug [] fin = fin from rfl, hf, Dblk_pushU, seqN_thenF (ho.plain st)]; rfl
  | bpanic n =>
    simp only [rwInit] at h
    obtain ⟨b', hb', h⟩ := bind_ok h
    cases pure_ok h
    have := push_ok hb'; subst this
    refine ⟨ho.pushU (trivOK_simple ρ N _), fun fin h1 h2 => ⟨h1, h2⟩, fun fin K' hf st => ?_⟩
    rw [show plug [] fin = fin from rfl, hf, Dblk_pushU, seqN_thenF (ho.plain st)]; rfl
  | def_ n =>
    simp only [rwInit] at h
    obtain ⟨b', hb', h⟩ := bind_ok h
    cases pure_ok h
    have := push_ok hb'; subst this
    refine ⟨ho.pushU (trivOK_simple ρ N _), fun fin h1 h2 => ⟨h1, h2⟩, fun fin K' hf st => ?_⟩
    rw [show plug [] fin = fin from rfl, hf, Dblk_pushU, seqN_thenF (ho.plain st)]; rfl

/-- what extracting the initialiser of a for statement establishes -/
def InitOK (ρ : Interp σ P) (N : Nat) (cur : Blk) (init : Option Simple) (cur1 : Blk) (frames : List Frame) : Prop :=
  Open ρ N cur1 ∧
  (∀ fin, ItemsOK ρ N fin → ShapeOK fin → ItemsOK ρ N (plug frames fin) ∧ ShapeOK (plug frames fin)) ∧
  ∀ (fin : Blk) (K' : σ → Res Sig σ P), (∀ st, closed (Dblk ρ N fin st) = seqN (Dblk ρ N cur1 st) K') →
    ∀ st, closed (Dblk ρ N (plug frames fin) st)
      = seqN (Dblk ρ N cur st) (fun st' => seqN (denInit ρ true init st') K')

theorem initOK_of (ρ : Interp σ P) (N : Nat) (cur : Blk) (init : Option Simple) (x : Blk × List Frame)
    (ho : Open ρ N cur)
    (h : (match init with
          | none => (pure (cur, []) : Except String (Blk × List Frame))
          | some i =>
            if i.isDefine = true then do
              throw "illegal state"
              let __do_lift ← rwInit i cur
              match __do_lift with
                | SR.stop _ => throw "illegal state"
                | SR.go fol fr => pure (fol, fr)
            else do
              let __do_lift ← rwInit i cur
              match __do_lift with
                | SR.stop _ => throw "illegal state"
                | SR.go fol fr => pure (fol, fr)) = .ok x) :
    InitOK ρ N cur init x.1 x.2 := by
  cases init with
  | none =>
    simp only at h
    cases pure_ok h
    refine ⟨ho, fun fin h1 h2 => ⟨h1, h2⟩, fun fin K' hf st => ?_⟩
    rw [show plug [] fin = fin from rfl, hf]
    simp only [denInit, seqN_done_fall]
  | some i =>
    simp only at h
    split at h
    · obtain ⟨_, h1, _⟩ := bind_ok h
      cases h1
    · obtain ⟨r, hr, h⟩ := bind_ok h
      cases r with
      | stop c => cases h
      | go fol fr =>
        cases pure_ok h
        exact rwInit_ok ρ N i cur fol fr ho hr

theorem denInit_bind_thenF (ρ : Interp σ P) (susp : Bool) (init : Option Simple) (L : σ → Res Flow σ P) (st : σ) :
    ((denInit ρ susp init st).bind fun _ st1 => L st1) = thenF (denInit ρ susp init st) L := by
  unfold thenF
  exact Res.bind_congr (denInit_fallOnly ρ susp init st) fun o st1 (ho : o = Flow.fall) => by simp [ho]

/-- the common end of every branch of rewriteForStmt: combine, push the loop, return -/
theorem for_tail (ρ : Interp σ P) (N : Nat) (q : Quirks) (cur : Blk) (init : Option Simple)
    (cur1 : Blk) (frames : List Frame) (x1 : Blk × List Frame) (X s : Stmt) (k : Kind) (isLast : Bool)
    (L : σ → Res Flow σ P)
    (ho : Open ρ N cur) (hinit : InitOK ρ N cur init cur1 frames)
    (hk : (k = Kind.trivial → TrivOK ρ N X) ∧ (k = Kind.normal → X = .rete (.sig .normal)) ∧ k ≠ Kind.delay)
    (hX : ∀ st, closed (denS ρ N false X st) = closed (L st))
    (hs : ∀ st, denS ρ N true s st = (denInit ρ true init st).bind fun _ st1 => L st1)
    (hcomb : combineIfNecessary q cur1 = .ok x1) :
    SRok ρ N cur s isLast (.go (x1.1.pushU X k) (x1.2 ++ frames)) := by
  obtain ⟨ho1, hst1, hsem1⟩ := hinit
  obtain ⟨ho2, hst2, hsem2⟩ := comb_spec (ρ := ρ) (N := N) hcomb ho1.items ho1.shapeA
  have hpu := ho2.items_pushU X k hk
  refine ⟨hpu.1, hpu.2, fun fin h1 h2 => ?_, fun fin K' hf st => ?_⟩
  · rw [plug_append]
    have := hst2 fin h1 h2
    exact hst1 _ this.1 this.2
  · rw [plug_append]
    have e2 := hsem2 fin (fun st' => seqN (denS ρ N false X st') K') (fun st => by
      rw [hf, Dblk_pushU, seqN_thenF (ho2.plain st)])
    rw [hsem1 (plug x1.2 fin) _ e2 st]
    congr; funext st'
    rw [hs, denInit_bind_thenF,
      seqN_thenF ((denInit_fallOnly ρ true init st').mono fun o (h : o = Flow.fall) => h ▸ plain_fall)]
    congr; funext st1
    exact seqN_congr_closed (hX st1) K'

theorem kOK_triv {ρ : Interp σ P} {N : Nat} {X : Stmt} (h : TrivOK ρ N X) :
    (Kind.trivial = Kind.trivial → TrivOK ρ N X) ∧ (Kind.trivial = Kind.normal → X = .rete (.sig .normal))
      ∧ Kind.trivial ≠ Kind.delay := by
  refine ⟨fun _ => h, fun hk => ?_, ?_⟩
  · cases hk
  · simp

theorem kOK_if {ρ : Interp σ P} {N : Nat} {X : Stmt} {k : Kind} (hk : k = .trivial ∨ k = .ifk)
    (hkt : k = .trivial → TrivOK ρ N X) :
    (k = Kind.trivial → TrivOK ρ N X) ∧ (k = Kind.normal → X = .rete (.sig .normal)) ∧ k ≠ Kind.delay := by
  refine ⟨hkt, fun hn => ?_, ?_⟩
  · rcases hk with rfl | rfl <;> cases hn
  · rcases hk with rfl | rfl <;> simp

theorem kOK_yieldk {ρ : Interp σ P} {N : Nat} {X : Stmt} :
    (Kind.yieldk = Kind.trivial → TrivOK ρ N X) ∧ (Kind.yieldk = Kind.normal → X = .rete (.sig .normal))
      ∧ Kind.yieldk ≠ Kind.delay := by
  refine ⟨fun hk => ?_, fun hk => ?_, ?_⟩
  · cases hk
  · cases hk
  · simp

theorem kOK_fork {ρ : Interp σ P} {N : Nat} {X : Stmt} :
    (Kind.fork = Kind.trivial → TrivOK ρ N X) ∧ (Kind.fork = Kind.normal → X = .rete (.sig .normal))
      ∧ Kind.fork ≠ Kind.delay := by
  refine ⟨fun hk => ?_, fun hk => ?_, ?_⟩
  · cases hk
  · cases hk
  · simp

theorem Res.All.and {α : Type} {p q : α → Prop} {r : Res α σ P} (h1 : Res.All p r) (h2 : Res.All q r) :
    Res.All (fun o => p o ∧ q o) r := by
  induction h1 with
  | done hp => cases h2 with | done hq => exact .done ⟨hp, hq⟩
  | yield _ ih => cases h2 with | yield hq => exact .yield fun st' => ih st' (hq st')
  | panic => exact .panic
  | oob => exact .oob

theorem callFor_ok {q : Quirks} {cond : Option CondE} {post : Option Simple} {body call : SExp}
    (h : callFor q cond post body = .ok call) : call = .loop cond post body := by
  unfold callFor at h
  split at h
  · split at h
    · cases h
    · exact (pure_ok h).symm
  · exact (pure_ok h).symm

theorem genLast_mk0_delay {q : Quirks} {nt : Blk} (h : genLast q (Blk.mk0 .delay) = .ok nt) :
    nt.toStmts = .cons (.rete (.sig .normal)) .nil := by
  unfold genLast returnNormalRequired at h
  simp [Blk.mk0, bind, Except.bind] at h
  have := pushReturn_ok h
  subst this
  rfl

theorem closed_yield_src (ρ : Interp σ P) (e : VExp) (st : σ) :
    closed (denSimple ρ true (.yield e) st) =
      match evalV ρ e st with
      | (.error p, st') => .panic p st'
      | (.ok v, st') => .yield v st' (fun st'' => .done .normal st'') := by
  simp only [denSimple]
  rcases evalV ρ e st with ⟨_ | v, st'⟩ <;> rfl

/-- the generated `return Bind(e, func() Seq { return Normal() })` is the closed source `Yield(e)` -/
theorem closed_bind_normal (ρ : Interp σ P) (N : Nat) (e : VExp) (nt : Stmts)
    (hnt : nt = .cons (.rete (.sig .normal)) .nil) (st : σ) :
    closed (denS ρ N false (.rete (.bind e (.lam nt))) st) = closed (denSimple ρ true (.yield e) st) := by
  rw [closed_rete_bind, closed_yield_src, hnt]
  have e1 : (fun st2 => closed (denL ρ N false (.cons (.rete (.sig .normal)) .nil) st2))
      = fun st'' => (.done .normal st'' : Res Sig σ P) := by
    funext st2; rw [denL_single', closed_rete_sig]
  rw [e1]
  rcases evalV ρ e st with ⟨_ | v, st'⟩ <;> rfl

theorem rwFor_ok (ρ : Interp σ P) (N : Nat) (q : Quirks) (init : Option Simple) (cond : Option CondE)
    (post : Option Simple) (body : Stmts) (isLast : Bool) (cur : Blk) (r : SR) (cb bb : Bool)
    (hfrag : fragS (.for_ init cond post body) = true)
    (hsup : supportedS cb bb (.for_ init cond post body) = true) (ho : Open ρ N cur)
    (ihBody : ∀ fin, rwStmts q body (Blk.mk0 .fork) = .ok fin →
      ItemsOK ρ N fin ∧ ShapeOK fin ∧ ∀ st, closed (Dblk ρ N fin st) = closed (denL ρ N true body st))
    (h : rwStmt q (.for_ init cond post body) isLast cur = .ok r) :
    SRok ρ N cur (.for_ init cond post body) isLast r := by
  simp only [rwStmt] at h
  obtain ⟨b, hb, h⟩ := bind_ok h
  obtain ⟨hbi, hbs, hbsem⟩ := ihBody b hb
  simp only [fragS, Bool.and_eq_true] at hfrag
  have hfb : fragL body = true := hfrag.2
  simp only [supportedS] at hsup
  -- the source loop
  let L : σ → Res Flow σ P := fun st1 =>
    loopF (evalCond ρ cond) (denInit ρ true post) (fun st => denL ρ N true body st) N st1
  have hs : ∀ st, denS ρ N true (.for_ init cond post body) st
      = (denInit ρ true init st).bind fun _ st1 => L st1 := fun st => rfl
  -- when the rewritten body was judged yield-free, the source body reaches no yield
  have bodyNoY : b.mustNoYield = true → ∀ st, Res.NoY (denL ρ N true body st) :=
    fun hm st => noY_of_mustNoYield hbi hbs hm st (hbsem st)
  have loopNoY : b.mustNoYield = true → optIsYield post = false → ∀ st, Res.NoY (L st) := by
    intro hm hp st
    refine loopF_noY_intro _ _ _ (fun st => ?_) (bodyNoY hm) N st
    rw [← denInit_susp ρ post hp]
    cases post with
    | none => exact .done
    | some s => exact denSimple_false_noY ρ s st
  by_cases hall : (b.mustNoYield && !optIsYield init && !optIsYield post) = true
  · -- nothing yields: the statement is kept
    rw [if_pos hall] at h
    obtain ⟨c', hc', h⟩ := bind_ok h
    cases pure_ok h
    have := push_ok hc'; subst this
    simp only [Bool.and_eq_true, Bool.not_eq_true', ] at hall
    have hfr : fragS (.for_ init cond post body) = true := by simp [fragS, hfrag.1, hfb]
    have hnoy : ∀ st, Res.NoY (denS ρ N true (.for_ init cond post body) st) := by
      intro st
      rw [hs, Res.NoY.bind_iff]
      refine ⟨?_, fun o st1 _ => loopNoY hall.1.1 hall.2 st1⟩
      rw [← denInit_susp ρ init hall.1.2]
      cases init with
      | none => exact .done
      | some s => exact denSimple_false_noY ρ s st
    have ht := trivOK_of_noY ρ N _ hfr hnoy
    exact go_trivial ρ N cur _ isLast ho ht.1 (fun st => by rw [ht.2])
  · rw [if_neg hall] at h
    obtain ⟨x, hx, h⟩ := bind_ok h
    have hinit := initOK_of ρ N cur init x ho hx
    by_cases h2 : (b.mustNoYield && !optIsYield post) = true
    · -- only the initialiser yields: a native loop after it
      rw [if_pos h2] at h
      obtain ⟨x1, hx1, h⟩ := bind_ok h
      obtain ⟨c', hc', h⟩ := bind_ok h
      cases pure_ok h
      have := push_ok hc'; subst this
      simp only [Bool.and_eq_true, Bool.not_eq_true'] at h2
      have hfrX : fragS (.for_ none cond post body) = true := by simp [fragS, optIsDefine, hfb]
      have hXs : ∀ st, denS ρ N true (.for_ none cond post body) st = L st := fun st => rfl
      have ht := trivOK_of_noY ρ N (.for_ none cond post body) hfrX
        (fun st => by rw [hXs]; exact loopNoY h2.1 h2.2 st)
      exact for_tail ρ N q cur init x.1 x.2 x1 _ _ .trivial isLast L ho hinit
        (kOK_triv ht.1) (fun st => by rw [ht.2, hXs]) hs hx1
    · rw [if_neg h2] at h
      by_cases h3 : (!optIsYield post) = true
      · -- the body yields, the post statement does not: seq.For / While / Loop
        rw [if_pos h3] at h
        obtain ⟨call, hcall, h⟩ := bind_ok h
        obtain ⟨x1, hx1, h⟩ := bind_ok h
        obtain ⟨c', hc', h⟩ := bind_ok h
        cases pure_ok h
        have := pushReturn_ok hc'; subst this
        have := callFor_ok hcall; subst this
        simp only [Bool.not_eq_true'] at h3
        refine for_tail ρ N q cur init x.1 x.2 x1 _ _ .fork isLast L ho hinit
          kOK_fork (fun st => ?_) hs hx1
        rw [closed_rete_loop]
        have e1 : (fun st' => closed (denL ρ N false b.toStmts st')) = fun st' => closed (denL ρ N true body st') :=
          funext hbsem
        have e2 : denInit ρ false post = denInit ρ true post := funext (denInit_susp ρ post h3)
        rw [e1, e2]
        exact (loop_closed _ _ _ (denInit_fallOnly ρ true post) (fragL_src ρ N true body hfb) N st).symm
      · -- the post statement yields
        rw [if_neg h3] at h
        obtain ⟨pe, hpe, h⟩ := bind_ok h
        obtain ⟨nt, hnt, h⟩ := bind_ok h
        obtain ⟨b', hb', h⟩ := bind_ok h
        obtain ⟨call, hcall, h⟩ := bind_ok h
        obtain ⟨x1, hx1, h⟩ := bind_ok h
        obtain ⟨c', hc', h⟩ := bind_ok h
        cases pure_ok h
        have := pushReturn_ok hc'; subst this
        have := callFor_ok hcall; subst this
        have hntS := genLast_mk0_delay hnt
        -- post = some (yield pe)
        have hpost : post = some (.yield pe) := by
          cases post with
          | none => cases hpe
          | some sp =>
            cases sp with
            | yield e => have := pure_ok hpe; subst this; rfl
            | act n => cases hpe
            | pact n => cases hpe
            | bpanic n => cases hpe
            | def_ n => cases hpe
            | empty => cases hpe
        subst hpost
        have hsupB : supportedL true false body = true := by simpa [optIsYield, Simple.isYield] using hsup
        -- the thunk body "body; post"
        have hb'sem : ∀ st, closed (denL ρ N false b'.toStmts st)
            = seqN (denL ρ N true body st) (fun st'' => closed (denSimple ρ true (.yield pe) st'')) := by
          intro st
          by_cases hcr : b.combineRequired = true
          · rw [if_pos hcr] at hb'
            obtain ⟨b1, hb1, hb'⟩ := bind_ok hb'
            have := pushReturn_ok hb'; subst this
            obtain ⟨_, _, hb1sem⟩ := genLast_spec (ρ := ρ) (N := N) hb1 hbi hbs
            show closed (Dblk ρ N _ st) = _
            rw [Dblk_pushReturnU, Dblk_mk0]
            simp only [thenF, Res.bind, if_true]
            rw [closed_rete_combine]
            have e1 : (fun st' => closed (denL ρ N false ((Blk.mk0 Kind.delay).pushReturnU
                (.bind pe (.lam nt.toStmts)) Kind.yieldk).toStmts st'))
                = fun st'' => closed (denSimple ρ true (.yield pe) st'') := by
              funext st'
              show closed (Dblk ρ N _ st') = _
              rw [Dblk_pushReturnU, Dblk_mk0]
              simp only [thenF, Res.bind, if_true]
              exact closed_bind_normal ρ N pe _ hntS st'
            rw [e1]
            exact seqN_congr_closed ((hb1sem st).trans (hbsem st)) _
          · rw [if_neg hcr] at hb'
            have := pushReturn_ok hb'; subst this
            -- the body block is open: its last statement is an ordinary one
            have hob : Open ρ N b := by
              unfold Blk.combineRequired at hcr
              intro y hy
              cases hit : b.items with
              | nil => rw [hit] at hy; simp at hy
              | cons hd tl =>
                obtain ⟨s0, k0⟩ := hd
                rw [hit] at hcr
                have hk0 : k0 = .trivial := by simpa using hcr
                have hyt : y.2 = Kind.trivial := by
                  rw [hit] at hy
                  simp only [List.mem_cons] at hy
                  rcases hy with rfl | hy
                  · exact hk0
                  · rcases hbs with ha | ⟨s, k, rest, hitems, _, _⟩
                    · exact ha y (by rw [hit]; exact hy)
                    · rw [hit] at hitems
                      injection hitems with h1 _
                      injection h1 with _ h1b
                      rw [hk0] at h1b; cases h1b
                exact ⟨hyt, (hbi y hy).1 hyt⟩
            show closed (Dblk ρ N _ st) = _
            rw [Dblk_pushReturnU, Dblk_markCombined, closed_thenF (hob.plain st)]
            have e1 : (fun st' => closed (denS ρ N false (.rete (.bind pe (.lam nt.toStmts))) st'))
                = fun st'' => closed (denSimple ρ true (.yield pe) st'') :=
              funext (closed_bind_normal ρ N pe _ hntS)
            rw [e1]
            exact seqN_congr_closed (hbsem st) _
        refine for_tail ρ N q cur init x.1 x.2 x1 _ _ .fork isLast L ho hinit
          kOK_fork (fun st => ?_) hs hx1
        rw [closed_rete_loop]
        have e1 : (fun st' => closed (denL ρ N false b'.toStmts st')) = _ := funext hb'sem
        rw [e1]
        have := loop_closed_ypost (evalCond ρ cond) (denInit ρ true (some (.yield pe)))
          (fun st => denL ρ N true body st) (denInit_fallOnly ρ true _)
          (fun st => (fragL_src ρ N true body hfb st).and (suppL_noCont ρ N true false body hsupB hfb st)) N st
        exact this.symm

theorem denL_cons_nonfall (ρ : Interp σ P) (N : Nat) (susp : Bool) (s : Stmt) (rest : Stmts) (st : σ) (o : Flow)
    (ho : o ≠ .fall) (h : denS ρ N susp s st = .done o st) :
    denL ρ N susp (.cons s rest) st = .done o st := by
  simp [denL, h, Res.bind, ho]

theorem kOK_switchk {ρ : Interp σ P} {N : Nat} {X : Stmt} :
    (Kind.switchk = Kind.trivial → TrivOK ρ N X) ∧ (Kind.switchk = Kind.normal → X = .rete (.sig .normal))
      ∧ Kind.switchk ≠ Kind.delay := by
  refine ⟨fun hk => ?_, fun hk => ?_, ?_⟩
  · cases hk
  · cases hk
  · simp

/-- closing a source list = closing its head, then the rest -/
theorem closed_src_cons (ρ : Interp σ P) (N : Nat) (s : Stmt) (rest : Stmts) (hf : fragS s = true) (st : σ) :
    closed (denL ρ N true (.cons s rest) st)
      = seqN (denS ρ N true s st) (fun st' => closed (denL ρ N true rest st')) := by
  rw [denL_cons, closed_thenF (fragS_plain ρ N true s hf st)]

/-- a last statement whose block is closed at once: from the `go` specification to the `stop` one -/
theorem stop_of_go (ρ : Interp σ P) (N : Nat) (q : Quirks) (cur : Blk) (s : Stmt) (fol fin : Blk)
    (frs : List Frame) (hfrag : fragS s = true) (hgo : SRok ρ N cur s true (.go fol frs))
    (hg : genLast q fol = .ok fin) : SRok ρ N cur s true (.stop (plug frs fin)) := by
  obtain ⟨hfi, hfs, hplug, hsem⟩ := hgo
  obtain ⟨h1, h2, h3⟩ := genLast_spec (ρ := ρ) (N := N) hg hfi (.inl hfs)
  have hp := hplug fin h1 h2
  refine ⟨hp.1, hp.2, fun rest hrest st => ?_⟩
  have hr : rest = .nil := hrest rfl
  subst hr
  rw [hsem fin (fun st' => .done .normal st') (fun st => by rw [h3]; exact (seqN_Kn _).symm) st]
  congr; funext st'
  rw [closed_src_cons ρ N s .nil hfrag]
  rfl

/-- the common end when the init statement was extracted and nothing is combined: push, continue -/
theorem init_tail (ρ : Interp σ P) (N : Nat) (cur : Blk) (init : Option Simple)
    (cur1 : Blk) (frames : List Frame) (X s : Stmt) (isLast : Bool) (L : σ → Res Flow σ P)
    (hinit : InitOK ρ N cur init cur1 frames) (hX : TrivOK ρ N X)
    (hXs : ∀ st, closed (denS ρ N false X st) = closed (L st))
    (hs : ∀ st, denS ρ N true s st = (denInit ρ true init st).bind fun _ st1 => L st1) :
    SRok ρ N cur s isLast (.go (cur1.pushU X .trivial) frames) := by
  obtain ⟨ho1, hst1, hsem1⟩ := hinit
  have hop := ho1.pushU hX
  refine ⟨hop.items, hop.shapeA, hst1, fun fin K' hf st => ?_⟩
  rw [hsem1 fin (fun st' => seqN (denS ρ N false X st') K') (fun st => by
    rw [hf, Dblk_pushU, seqN_thenF (ho1.plain st)]) st]
  congr; funext st'
  rw [hs, denInit_bind_thenF,
    seqN_thenF ((denInit_fallOnly ρ true init st').mono fun o (h : o = Flow.fall) => h ▸ plain_fall)]
  congr; funext st1
  exact seqN_congr_closed (hXs st1) K'

/-- rewriteSwitchStmt, given what rewriting the clause bodies established -/
theorem rwSwitch_ok (ρ : Interp σ P) (N : Nat) (q : Quirks) (init : Option Simple) (tag : Option CondE)
    (cases : Cases) (isLast : Bool) (cur : Blk) (r : SR) (cb bb : Bool)
    (hfrag : fragS (.switch init tag cases) = true)
    (hsup : supportedS cb bb (.switch init tag cases) = true) (ho : Open ρ N cur)
    (ihCases : ∀ cs' t, rwCases q cases = .ok (cs', t) →
      (∀ i st, closed (denFrom ρ N false cs' i st) = closed (denFrom ρ N true cases i st)) ∧
      (t = true → ∀ i st, Res.NoY (denFrom ρ N true cases i st)))
    (h : rwStmt q (.switch init tag cases) isLast cur = .ok r) :
    SRok ρ N cur (.switch init tag cases) isLast r := by
  have hfrag' := hfrag
  simp only [fragS, Bool.and_eq_true] at hfrag
  have hfc : fragC cases = true := hfrag.2
  simp only [supportedS] at hsup
  simp only [rwStmt] at h
  obtain ⟨x0, hx0, h⟩ := bind_ok h
  obtain ⟨newCases, allTrivial⟩ := x0
  obtain ⟨hrel, hnoy⟩ := ihCases newCases allTrivial hx0
  obtain ⟨hsel, hdef⟩ := rwCases_headers ρ q cases newCases allTrivial hx0
  simp only at h
  -- the switch without its init statement
  let L : σ → Res Flow σ P := fun st1 => denS ρ N true (.switch none tag cases) st1
  have hs : ∀ st, denS ρ N true (.switch init tag cases) st
      = (denInit ρ true init st).bind fun _ st1 => L st1 := fun st => denS_switch_init ρ N true init tag cases st
  have hfrX : fragS (.switch none tag cases) = true := by simp [fragS, optIsDefine, hfc]
  by_cases hall : (!optIsYield init && allTrivial) = true
  · -- nothing yields: the statement is kept
    rw [if_pos hall] at h
    obtain ⟨c', hc', h⟩ := bind_ok h
    cases pure_ok h
    have := push_ok hc'; subst this
    simp only [Bool.and_eq_true, Bool.not_eq_true'] at hall
    have ht := trivOK_of_noY ρ N _ hfrag' (switch_noY ρ N init tag cases hall.1 (hnoy hall.2))
    exact go_trivial ρ N cur _ isLast ho ht.1 (fun st => by rw [ht.2])
  · rw [if_neg hall] at h
    obtain ⟨x, hx, h⟩ := bind_ok h
    have hinit := initOK_of ρ N cur init x ho hx
    by_cases htag : (tag.isNone && q.taglessYieldSwitchPanics) = true
    · rw [if_pos htag] at h
      obtain ⟨_, h1, _⟩ := bind_ok h
      cases h1
    · rw [if_neg htag] at h
      by_cases hat : allTrivial = true
      · -- only the init statement yields: the switch itself stays an ordinary statement
        rw [if_pos hat] at h
        obtain ⟨c', hc', h⟩ := bind_ok h
        cases pure_ok h
        have := push_ok hc'; subst this
        have ht := trivOK_of_noY ρ N (.switch none tag cases) hfrX
          (switch_noY ρ N none tag cases rfl (hnoy hat))
        exact init_tail ρ N cur init x.1 x.2 _ _ isLast L hinit ht.1 (fun st => by rw [ht.2]) hs
      · -- some clause yields
        rw [if_neg hat] at h
        obtain ⟨x1, hx1, h⟩ := bind_ok h
        obtain ⟨cur', hcur', h⟩ := bind_ok h
        have := push_ok hcur'; subst this
        -- a yielding switch: no `break` targets it (guard, finding D7)
        have hyield : (optIsYield init || casesHaveYield cases) = true := by
          cases hy : (optIsYield init || casesHaveYield cases) with
          | true => rfl
          | false =>
            simp only [Bool.or_eq_false_iff] at hy
            exact absurd (rwCases_noY q cases hy.2 (newCases, allTrivial) hx0) hat
        rw [hyield] at hsup
        have hS : ∀ i st, Res.All (fun o => o ≠ Flow.nbrk) (denFrom ρ N true cases i st) :=
          suppC_noBrk ρ N true cb cases hsup hfc
        have hT : ∀ i st, Res.All (fun o => o ≠ Flow.nbrk) (denFrom ρ N false newCases i st) := by
          intro i st
          apply noBrk_of_closed
          rw [hrel i st]
          exact closed_noBrkSig ((hS i st).and (fragC_src ρ N true cases hfc i st))
        have hX : ∀ st, closed (denS ρ N false (.switch none tag newCases) st) = closed (L st) :=
          switch_closed_eq ρ N tag cases newCases hsel hdef hrel hT hS
        have hgo : ∀ il, SRok ρ N cur (.switch init tag cases) il
            (.go (x1.1.pushU (.switch none tag newCases) .switchk) (x1.2 ++ x.2)) :=
          fun il => for_tail ρ N q cur init x.1 x.2 x1 _ _ .switchk il L ho hinit kOK_switchk hX hs hx1
        by_cases hl : (isLast && !q.switchLastGetsNoNormal) = true
        · rw [if_pos hl] at h
          obtain ⟨g, hg, h⟩ := bind_ok h
          cases pure_ok h
          have hil : isLast = true := by
            simp only [Bool.and_eq_true] at hl; exact hl.1
          subst hil
          exact stop_of_go ρ N q cur _ _ g _ hfrag' (hgo true) hg
        · rw [if_neg hl] at h
          cases pure_ok h
          exact hgo isLast

mutual
  theorem rwStmts_ok (ρ : Interp σ P) (N : Nat) (q : Quirks) :
      ∀ (ss : Stmts) (cur fin : Blk) (cb bb : Bool), fragL ss = true → supportedL cb bb ss = true →
        Open ρ N cur → rwStmts q ss cur = .ok fin →
        ItemsOK ρ N fin ∧ ShapeOK fin ∧
          ∀ st, closed (Dblk ρ N fin st) = seqN (Dblk ρ N cur st) (fun st' => closed (denL ρ N true ss st'))
    | .nil, cur, fin, _, _, _, _, ho, h => by
        rw [rwStmts] at h
        have hKn : ∀ st, seqN (Dblk ρ N cur st) (fun st' => closed (denL ρ N true .nil st')) = closed (Dblk ρ N cur st) :=
          fun st => seqN_Kn _
        by_cases hk : cur.kind = .delay
        · rw [if_pos hk] at h
          obtain ⟨h1, h2, h3⟩ := genLast_spec (ρ := ρ) (N := N) h ho.items (.inl ho.shapeA)
          exact ⟨h1, h2, fun st => by rw [h3, hKn]⟩
        · rw [if_neg hk] at h
          cases pure_ok h
          exact ⟨ho.items, .inl ho.shapeA, fun st => (hKn st).symm⟩
    | .cons s rest, cur, fin, cb, bb, hf, hs, ho, h => by
        simp only [fragL, Bool.and_eq_true] at hf
        simp only [supportedL, Bool.and_eq_true] at hs
        rw [rwStmts] at h
        obtain ⟨r, hr, hgo⟩ := bind_ok h
        clear h
        have hsr := rwStmt_ok ρ N q s rest.isNil cur r cb bb hf.1 hs.1 ho hr
        cases r with
        | stop c =>
          cases pure_ok hgo
          obtain ⟨h1, h2, h3⟩ := hsr
          refine ⟨h1, h2, fun st => h3 rest (fun hl => ?_) st⟩
          cases rest with
          | nil => rfl
          | cons _ _ => simp [Stmts.isNil] at hl
        | go fol frames =>
          obtain ⟨hfi, hfs, hplug, hsem⟩ := hsr
          simp only at hgo
          -- closing the source list
          have hsrc : ∀ K' : σ → Res Sig σ P, (K' = fun st' => closed (denL ρ N true rest st')) →
              (fun st' => seqN (denS ρ N true s st') K') = fun st' => closed (denL ρ N true (.cons s rest) st') := by
            intro K' hK'; funext st'; rw [closed_src_cons ρ N s rest hf.1, hK']
          by_cases hl : rest.isNil = true
          · -- last statement
            rw [if_pos hl] at hgo
            have hrest : rest = .nil := by cases rest with | nil => rfl | cons _ _ => simp [Stmts.isNil] at hl
            subst hrest
            have hKn : (fun st' => closed (denL ρ N true .nil st')) = fun st' => (.done .normal st' : Res Sig σ P) := rfl
            obtain ⟨fol', hfol', hgo⟩ := bind_ok hgo
            cases pure_ok hgo
            have hspec : ItemsOK ρ N fol' ∧ ShapeOK fol' ∧ ∀ st, closed (Dblk ρ N fol' st) = closed (Dblk ρ N fol st) := by
              by_cases hk : fol.kind = .delay
              · rw [if_pos hk] at hfol'
                exact genLast_spec (ρ := ρ) (N := N) hfol' hfi (.inl hfs)
              · rw [if_neg hk] at hfol'
                cases pure_ok hfol'
                exact ⟨hfi, .inl hfs, fun _ => rfl⟩
            obtain ⟨h1, h2, h3⟩ := hspec
            have hp := hplug fol' h1 h2
            refine ⟨hp.1, hp.2, fun st => ?_⟩
            rw [hsem fol' (fun st' => .done .normal st') (fun st => by rw [h3]; exact (seqN_Kn _).symm) st, hsrc _ hKn.symm]
          · -- more statements follow
            rw [if_neg hl] at hgo
            obtain ⟨x, hx, h⟩ := bind_ok hgo
            obtain ⟨fol2, frames2⟩ := x
            simp only at h
            obtain ⟨fin2, hfin2, h⟩ := bind_ok h
            cases pure_ok h
            obtain ⟨ho2, hplug2, hsem2⟩ := comb_spec (ρ := ρ) (N := N) hx hfi hfs
            obtain ⟨h1, h2, h3⟩ := rwStmts_ok ρ N q rest fol2 fin2 cb bb hf.2 hs.2 ho2 hfin2
            have hp2 := hplug2 fin2 h1 h2
            have hp := hplug _ hp2.1 hp2.2
            refine ⟨hp.1, hp.2, fun st => ?_⟩
            have e2 := hsem2 fin2 _ h3
            rw [hsem _ _ e2 st, hsrc _ rfl]

  theorem rwStmt_ok (ρ : Interp σ P) (N : Nat) (q : Quirks) :
      ∀ (s : Stmt) (isLast : Bool) (cur : Blk) (r : SR) (cb bb : Bool), fragS s = true →
        supportedS cb bb s = true → Open ρ N cur → rwStmt q s isLast cur = .ok r → SRok ρ N cur s isLast r
    | .simple (.yield e), isLast, cur, r, _, _, _, _, ho, h => by
        simp only [rwStmt] at h
        obtain ⟨_, _, h⟩ := bind_ok h
        by_cases hl : isLast = true
        · rw [if_pos hl] at h
          obtain ⟨fol, hfol, h⟩ := bind_ok h
          cases pure_ok h
          have hnt := genLast_mk0_delay hfol
          have hpi := ho.items_pushU (.rete (.bind e (.lam fol.toStmts))) .yieldk
            kOK_yieldk
          refine ⟨hpi.1, .inl hpi.2, fun rest hrest st => ?_⟩
          rw [hrest hl, Dblk_pushReturnU, closed_thenF (ho.plain st)]
          congr; funext st'
          rw [closed_bind_normal ρ N e _ hnt, denL_single']; rfl
        · rw [if_neg hl] at h
          cases pure_ok h
          refine ⟨(open_mk0 ρ N .delay).items, (open_mk0 ρ N .delay).shapeA, fun fin _ _ => ?_, fun fin K' hf st => ?_⟩
          · have := plug_frame_items (ρ := ρ) (N := N) (.bindF cur e) fin ho
            exact ⟨this.1, .inl this.2⟩
          · rw [plug_bindF_spec ho]
            congr; funext st'
            show seqN (denSimple ρ true (.yield e) st') _ = seqN (denSimple ρ true (.yield e) st') K'
            congr; funext st''
            rw [hf, Dblk_mk0, seqN_done_fall]
    | .simple .empty, isLast, cur, r, _, _, _, _, ho, h => by
        simp only [rwStmt] at h
        cases pure_ok h
        refine ⟨ho.items, ho.shapeA, fun fin h1 h2 => ⟨h1, h2⟩, fun fin K' hf st => ?_⟩
        rw [show plug [] fin = fin from rfl, hf]
        simp only [denS, denSimple, seqN_done_fall]
    | .simple (.act n), isLast, cur, r, _, _, _, _, ho, h => by
        simp only [rwStmt] at h
        obtain ⟨c', hc', h⟩ := bind_ok h
        cases pure_ok h
        have := push_ok hc'; subst this
        exact go_trivial ρ N cur _ isLast ho (trivOK_simple ρ N _) (fun st => rfl)
    | .simple (.pact n), isLast, cur, r, _, _, _, _, ho, h => by
        simp only [rwStmt] at h
        obtain ⟨c', hc', h⟩ := bind_ok h
        cases pure_ok h
        have := push_ok hc'; subst this
        exact go_trivial ρ N cur _ isLast ho (trivOK_simple ρ N _) (fun st => rfl)
    | .simple (.bpanic n), isLast, cur, r, _, _, _, _, ho, h => by
        simp only [rwStmt] at h
        obtain ⟨c', hc', h⟩ := bind_ok h
        cases pure_ok h
        have := push_ok hc'; subst this
        exact go_trivial ρ N cur _ isLast ho (trivOK_simple ρ N _) (fun st => rfl)
    | .simple (.def_ n), isLast, cur, r, _, _, _, _, ho, h => by
        simp only [rwStmt] at h
        obtain ⟨c', hc', h⟩ := bind_ok h
        cases pure_ok h
        have := push_ok hc'; subst this
        exact go_trivial ρ N cur _ isLast ho (trivOK_simple ρ N _) (fun st => rfl)
    | .brk, isLast, cur, r, _, _, _, _, ho, h => by
        simp only [rwStmt] at h
        obtain ⟨c', hc', h⟩ := bind_ok h
        cases pure_ok h
        have := push_ok hc'; subst this
        have ht : TrivOK ρ N .brk := fun st => ⟨.done plain_nbrk, .done⟩
        have hop := ho.pushU ht
        refine ⟨hop.items, .inl hop.shapeA, fun rest _ st => ?_⟩
        rw [Dblk_pushU, closed_thenF (ho.plain st)]
        congr
    | .cont, isLast, cur, r, _, _, _, _, ho, h => by
        simp only [rwStmt] at h
        obtain ⟨c', hc', h⟩ := bind_ok h
        cases pure_ok h
        have := push_ok hc'; subst this
        have ht : TrivOK ρ N .cont := fun st => ⟨.done plain_ncont, .done⟩
        have hop := ho.pushU ht
        refine ⟨hop.items, .inl hop.shapeA, fun rest _ st => ?_⟩
        rw [Dblk_pushU, closed_thenF (ho.plain st)]
        congr
    | .rete (.sig .ret), isLast, cur, r, _, _, _, _, ho, h => by
        simp only [rwStmt] at h
        obtain ⟨c', hc', h⟩ := bind_ok h
        cases pure_ok h
        have := push_ok hc'; subst this
        have ht : TrivOK ρ N (.rete (.sig .ret)) := fun st => by
          simp only [denS, evalS, Res.bind]; exact ⟨.done plain_exit_ret, .done⟩
        exact go_trivial ρ N cur _ isLast ho ht (fun st => rfl)
    | .block ss, isLast, cur, r, cb, bb, hf, hs, ho, h => by
        simp only [fragS] at hf
        simp only [supportedS] at hs
        simp only [rwStmt] at h
        obtain ⟨fol, hfol, h⟩ := bind_ok h
        obtain ⟨h1, h2, h3⟩ := rwStmts_ok ρ N q ss (Blk.mk0 .delay) fol cb bb hf hs (open_mk0 ρ N .delay) hfol
        have h3' : ∀ st, closed (Dblk ρ N fol st) = closed (denL ρ N true ss st) := fun st => by
          rw [h3, Dblk_mk0, seqN_done_fall]
        by_cases hm : fol.mustNoYield = true
        · rw [if_pos hm] at h
          obtain ⟨c', hc', h⟩ := bind_ok h
          cases pure_ok h
          have := push_ok hc'; subst this
          have hfr : fragS (.block ss) = true := by simpa [fragS] using hf
          have ht := trivOK_of_noY ρ N (.block ss) hfr
            (fun st => by simp only [denS]; exact noY_of_mustNoYield h1 h2 hm st (h3' st))
          exact go_trivial ρ N cur _ isLast ho ht.1 (fun st => by rw [ht.2])
        · rw [if_neg hm] at h
          obtain ⟨c', hc', h⟩ := bind_ok h
          cases pure_ok h
          have := pushReturn_ok hc'; subst this
          have hpi := ho.items_pushU (.rete (.delay (.lam fol.toStmts))) .yieldk
            kOK_yieldk
          refine ⟨hpi.1, hpi.2, fun fin h1 h2 => ⟨h1, h2⟩, fun fin K' hfin st => ?_⟩
          rw [show plug [] fin = fin from rfl, hfin]
          show seqN (Dblk ρ N (cur.pushReturnU _ _) st) K' = _
          rw [Dblk_pushReturnU, seqN_thenF (ho.plain st)]
          congr; funext st'
          apply seqN_congr_closed
          rw [closed_rete_delay]
          exact h3' st'
    | .ifs init c thn els, isLast, cur, r, cb, bb, hf, hs, ho, h => by
        have hf' := hf
        simp only [fragS, Bool.and_eq_true] at hf
        simp only [supportedS, Bool.and_eq_true] at hs
        simp only [rwStmt] at h
        have hny : ¬ (optIsYield init = true) := by simpa using hf.1.1
        rw [if_neg hny] at h
        obtain ⟨body, hbody, h⟩ := bind_ok h
        obtain ⟨e, he, h⟩ := bind_ok h
        obtain ⟨cur', hcur', h⟩ := bind_ok h
        obtain ⟨hb1, hb2, hb3⟩ := rwStmts_ok ρ N q thn (Blk.mk0 .ifk) body cb bb hf.1.2 hs.1 (open_mk0 ρ N .ifk) hbody
        have hb3' : ∀ st, closed (Dblk ρ N body st) = closed (denL ρ N true thn st) := fun st => by
          rw [hb3, Dblk_mk0, seqN_done_fall]
        have hee := rwElse_ok ρ N q els e cb bb hf.2 hs.2 he
        obtain ⟨s', k, hfin, hk, hkt, hsem⟩ := ifPush_ok ρ N init c thn els body e cur cur' hf' ho
          ⟨hb1, hb2, hb3'⟩ hee hcur'
        subst hfin
        have hpi := ho.items_pushU s' k (kOK_if hk hkt)
        by_cases hl : isLast = true
        · rw [if_pos hl] at h
          obtain ⟨c2, hc2, h⟩ := bind_ok h
          cases pure_ok h
          obtain ⟨g1, g2, g3⟩ := genLast_spec (ρ := ρ) (N := N) hc2 hpi.1 (.inl hpi.2)
          refine ⟨g1, g2, fun rest hrest st => ?_⟩
          rw [g3, hrest hl, Dblk_pushU, closed_thenF (ho.plain st)]
          congr; funext st'
          rw [hsem, denL_single']
        · rw [if_neg hl] at h
          cases pure_ok h
          refine ⟨hpi.1, hpi.2, fun fin h1 h2 => ⟨h1, h2⟩, fun fin K' hfin st => ?_⟩
          rw [show plug [] fin = fin from rfl, hfin, Dblk_pushU, seqN_thenF (ho.plain st)]
          congr; funext st'
          exact seqN_congr_closed (hsem st') K'
    | .for_ init cond post body, isLast, cur, r, cb, bb, hf, hs, ho, h => by
        have hfb : fragL body = true := by simp only [fragS, Bool.and_eq_true] at hf; exact hf.2
        have hsb : supportedL (optIsYield post) false body = true := by simpa [supportedS] using hs
        refine rwFor_ok ρ N q init cond post body isLast cur r cb bb hf hs ho (fun fin hfin => ?_) h
        obtain ⟨h1, h2, h3⟩ := rwStmts_ok ρ N q body (Blk.mk0 .fork) fin _ _ hfb hsb (open_mk0 ρ N .fork) hfin
        exact ⟨h1, h2, fun st => by rw [h3, Dblk_mk0, seqN_done_fall]⟩
    | .rete (.sig .normal), _, _, _, _, _, hf, _, _, _ => by simp [fragS] at hf
    | .rete (.sig .brk), _, _, _, _, _, hf, _, _, _ => by simp [fragS] at hf
    | .rete (.sig .cont), _, _, _, _, _, hf, _, _, _ => by simp [fragS] at hf
    | .rete (.bind _ _), _, _, _, _, _, hf, _, _, _ => by simp [fragS] at hf
    | .rete (.delay _), _, _, _, _, _, hf, _, _, _ => by simp [fragS] at hf
    | .rete (.combine _ _), _, _, _, _, _, hf, _, _, _ => by simp [fragS] at hf
    | .rete (.loop _ _ _), _, _, _, _, _, hf, _, _, _ => by simp [fragS] at hf
    | .rete (.start _), _, _, _, _, _, hf, _, _, _ => by simp [fragS] at hf
    | .rete (.unknown _), _, _, _, _, _, hf, _, _, _ => by simp [fragS] at hf
    | .switch init tag cases, isLast, cur, r, cb, bb, hf, hs, ho, h => by
        have hfc : fragC cases = true := by simp only [fragS, Bool.and_eq_true] at hf; exact hf.2
        have hsc : supportedC cb (optIsYield init || casesHaveYield cases) cases = true := by
          simpa [supportedS] using hs
        exact rwSwitch_ok ρ N q init tag cases isLast cur r cb bb hf hs ho
          (fun cs' t hc => rwCases_ok ρ N q cases cs' t cb _ hfc hsc hc) h
    | .fallthrough, _, _, _, _, _, hf, _, _, _ => by simp [fragS] at hf
    | .ret, _, _, _, _, _, hf, _, _, _ => by simp [fragS] at hf
    | .unknown _, _, _, _, _, _, hf, _, _, _ => by simp [fragS] at hf

  theorem rwCases_ok (ρ : Interp σ P) (N : Nat) (q : Quirks) :
      ∀ (cs cs' : Cases) (t : Bool) (cb bb : Bool), fragC cs = true → supportedC cb bb cs = true →
        rwCases q cs = .ok (cs', t) →
        (∀ i st, closed (denFrom ρ N false cs' i st) = closed (denFrom ρ N true cs i st)) ∧
        (t = true → ∀ i st, Res.NoY (denFrom ρ N true cs i st))
    | .nil, cs', t, _, _, _, _, h => by
        simp only [rwCases] at h
        cases pure_ok h
        exact ⟨fun _ _ => rfl, fun _ _ _ => .done⟩
    | .cons d ks body r, cs', t, cb, bb, hf, hs, h => by
        simp only [fragC, Bool.and_eq_true] at hf
        simp only [supportedC, Bool.and_eq_true] at hs
        simp only [rwCases] at h
        obtain ⟨b, hb, h⟩ := bind_ok h
        obtain ⟨x, hx, h⟩ := bind_ok h
        obtain ⟨r', t'⟩ := x
        cases pure_ok h
        obtain ⟨hb1, hb2, hb3⟩ := rwStmts_ok ρ N q body (Blk.mk0 .switchk) b cb bb hf.1 hs.1 (open_mk0 ρ N .switchk) hb
        have hb3' : ∀ st, closed (denL ρ N false b.toStmts st) = closed (denL ρ N true body st) := fun st => by
          have := hb3 st
          rw [Dblk_mk0, seqN_done_fall] at this
          exact this
        obtain ⟨ih1, ih2⟩ := rwCases_ok ρ N q r r' t' cb bb hf.2 hs.2 hx
        -- neither side can end in `nft`: no fallthrough statement in the fragment, none introduced by pass2
        have hnf : NF b := rwStmts_nf q body (Blk.mk0 .switchk) (fragL_wo body hf.1) (nf_mk0 _) b hb
        have hTn : ∀ st, Res.All (fun o => o ≠ Flow.nft) (denL ρ N false b.toStmts st) :=
          woL_noNft ρ N false _ (nf_toStmts hnf)
        have hSn : ∀ st, Res.All (fun o => o ≠ Flow.nft) (denL ρ N true body st) :=
          woL_noNft ρ N true _ (fragL_wo body hf.1)
        refine ⟨fun i st => ?_, fun ht i st => ?_⟩
        · cases i with
          | zero =>
            simp only [denFrom]
            rw [bind_id_on (hTn st) (fun o st' ho => by simp [ho]), bind_id_on (hSn st) (fun o st' ho => by simp [ho])]
            exact hb3' st
          | succ i => simp only [denFrom]; exact ih1 i st
        · simp only [Bool.and_eq_true] at ht
          cases i with
          | zero =>
            simp only [denFrom]
            rw [bind_id_on (hSn st) (fun o st' ho => by simp [ho])]
            exact noY_of_mustNoYield hb1 hb2 ht.1 st (hb3 st ▸ by rw [Dblk_mk0, seqN_done_fall])
          | succ i => simp only [denFrom]; exact ih2 ht.2 i st

  theorem rwElse_ok (ρ : Interp σ P) (N : Nat) (q : Quirks) :
      ∀ (e : Else) (r : Option Blk) (cb bb : Bool), fragE e = true → supportedE cb bb e = true →
        rwElse q e = .ok r →
        match r with
        | none => e = .none
        | some eb => ItemsOK ρ N eb ∧ ShapeOK eb ∧ ∀ st, closed (Dblk ρ N eb st) = closed (denElse ρ N true e st)
    | .none, r, _, _, _, _, h => by
        simp only [rwElse] at h
        cases pure_ok h; rfl
    | .els ss, r, cb, bb, hf, hs, h => by
        simp only [fragE] at hf
        simp only [supportedE] at hs
        simp only [rwElse] at h
        obtain ⟨eb, heb, h⟩ := bind_ok h
        cases pure_ok h
        obtain ⟨h1, h2, h3⟩ := rwStmts_ok ρ N q ss (Blk.mk0 .ifk) eb cb bb hf hs (open_mk0 ρ N .ifk) heb
        exact ⟨h1, h2, fun st => by rw [h3, Dblk_mk0, seqN_done_fall]; rfl⟩
    | .elif s, r, cb, bb, hf, hs, h => by
        simp only [fragE] at hf
        simp only [supportedE] at hs
        simp only [rwElse] at h
        obtain ⟨eb, heb, h⟩ := bind_ok h
        cases pure_ok h
        obtain ⟨s', k, hfin, hk, hkt, hsem⟩ := rwIfS_ok ρ N q s (Blk.mk0 .ifk) eb cb bb hf hs (open_mk0 ρ N .ifk) heb
        subst hfin
        have hpi := (open_mk0 ρ N .ifk).items_pushU s' k (kOK_if hk hkt)
        refine ⟨hpi.1, .inl hpi.2, fun st => ?_⟩
        rw [Dblk_pushU, Dblk_mk0]
        simp only [thenF, Res.bind, if_true, denElse]
        exact hsem st

  theorem rwIfS_ok (ρ : Interp σ P) (N : Nat) (q : Quirks) :
      ∀ (s : Stmt) (cur fin : Blk) (cb bb : Bool), fragS s = true → supportedS cb bb s = true →
        Open ρ N cur → rwIfS q s cur = .ok fin →
        ∃ s' k, fin = cur.pushU s' k ∧ (k = .trivial ∨ k = .ifk) ∧ (k = .trivial → TrivOK ρ N s') ∧
          ∀ st, closed (denS ρ N false s' st) = closed (denS ρ N true s st)
    | .ifs init c thn els, cur, fin, cb, bb, hf, hs, ho, h => by
        have hf' := hf
        simp only [fragS, Bool.and_eq_true] at hf
        simp only [supportedS, Bool.and_eq_true] at hs
        simp only [rwIfS] at h
        have hny : ¬ (optIsYield init = true) := by simpa using hf.1.1
        rw [if_neg hny] at h
        obtain ⟨body, hbody, h⟩ := bind_ok h
        obtain ⟨e, he, h⟩ := bind_ok h
        obtain ⟨hb1, hb2, hb3⟩ := rwStmts_ok ρ N q thn (Blk.mk0 .ifk) body cb bb hf.1.2 hs.1 (open_mk0 ρ N .ifk) hbody
        have hb3' : ∀ st, closed (Dblk ρ N body st) = closed (denL ρ N true thn st) := fun st => by
          rw [hb3, Dblk_mk0, seqN_done_fall]
        have hee := rwElse_ok ρ N q els e cb bb hf.2 hs.2 he
        exact ifPush_ok ρ N init c thn els body e cur fin hf' ho ⟨hb1, hb2, hb3'⟩ hee h
    | .simple _, _, _, _, _, _, _, _, h => by simp [rwIfS] at h
    | .block _, _, _, _, _, _, _, _, h => by simp [rwIfS] at h
    | .switch _ _ _, _, _, _, _, _, _, _, h => by simp [rwIfS] at h
    | .for_ _ _ _ _, _, _, _, _, _, _, _, h => by simp [rwIfS] at h
    | .brk, _, _, _, _, _, _, _, h => by simp [rwIfS] at h
    | .cont, _, _, _, _, _, _, _, h => by simp [rwIfS] at h
    | .fallthrough, _, _, _, _, hf, _, _, _ => by simp [fragS] at hf
    | .ret, _, _, _, _, hf, _, _, _ => by simp [fragS] at hf
    | .rete _, _, _, _, _, _, _, _, h => by simp [rwIfS] at h
    | .unknown _, _, _, _, _, hf, _, _, _ => by simp [fragS] at hf
end

end GoCo.MG
