/-
  Scoping is preserved by the rewriter (C03): every atom of the generated code is resolved in the same
  flattened environment as in the source.

  Part 1: block-level observation lemmas and a generic "every pushed item satisfies p" invariant.
-/
import GoCo.Compile.Scope
import GoCo.Proofs.Total
set_option autoImplicit false

namespace GoCo.MG
open GoCo

/-! ### statement lists -/

theorem obsL_snoc : ∀ (env : Env) (ss : Stmts) (s : Stmt),
    obsL env (ss.snoc s) = obsL env ss ++ obsS (envL env ss) s
  | env, .nil, s => by simp [Stmts.snoc, obsL, envL]
  | env, .cons x r, s => by
      simp only [Stmts.snoc, obsL, envL, obsL_snoc (envS env x) r s, List.append_assoc]

theorem envL_snoc : ∀ (env : Env) (ss : Stmts) (s : Stmt), envL env (ss.snoc s) = envS (envL env ss) s
  | env, .nil, s => rfl
  | env, .cons x r, s => by simp only [Stmts.snoc, envL, envL_snoc (envS env x) r s]

def obsB (env : Env) (b : Blk) : List Obs := obsL env b.toStmts
def envB (env : Env) (b : Blk) : Env := envL env b.toStmts

theorem toStmts_pushU' (b : Blk) (s : Stmt) (k : Kind) : (b.pushU s k).toStmts = b.toStmts.snoc s := by
  simp only [Blk.toStmts, Blk.pushU, List.reverse_cons, List.map_append, List.map_cons, List.map_nil]
  induction (b.items.reverse.map (·.1)) with
  | nil => rfl
  | cons x r ih => simp only [List.cons_append, Stmts.ofList, Stmts.snoc, ih]

theorem toStmts_pushReturnU (b : Blk) (e : SExp) (k : Kind) :
    (b.pushReturnU e k).toStmts = b.toStmts.snoc (.rete e) := toStmts_pushU' b (.rete e) k

@[simp] theorem obsB_mk0 (env : Env) (k : Kind) : obsB env (Blk.mk0 k) = [] := rfl
@[simp] theorem envB_mk0 (env : Env) (k : Kind) : envB env (Blk.mk0 k) = env := rfl

theorem obsB_pushU (env : Env) (b : Blk) (s : Stmt) (k : Kind) :
    obsB env (b.pushU s k) = obsB env b ++ obsS (envB env b) s := by
  simp only [obsB, envB, toStmts_pushU', obsL_snoc]

theorem envB_pushU (env : Env) (b : Blk) (s : Stmt) (k : Kind) :
    envB env (b.pushU s k) = envS (envB env b) s := by
  simp only [envB, toStmts_pushU', envL_snoc]

theorem obsB_pushReturnU (env : Env) (b : Blk) (e : SExp) (k : Kind) :
    obsB env (b.pushReturnU e k) = obsB env b ++ obsX (envB env b) e := by
  simp only [obsB, envB, toStmts_pushReturnU, obsL_snoc, obsS]

theorem envB_pushReturnU (env : Env) (b : Blk) (e : SExp) (k : Kind) :
    envB env (b.pushReturnU e k) = envB env b := by
  simp only [envB, toStmts_pushReturnU, envL_snoc, envS]

theorem obsB_congr {b b' : Blk} (h : b.items = b'.items) (env : Env) : obsB env b = obsB env b' := by
  simp only [obsB, Blk.toStmts, h]

theorem envB_congr {b b' : Blk} (h : b.items = b'.items) (env : Env) : envB env b = envB env b' := by
  simp only [envB, Blk.toStmts, h]

/-! ### a generic invariant: every item of every block that ends up at the top level of a result
    satisfies `p` -/

def isSimpleStmt : Stmt → Bool
  | .simple _ => true
  | _ => false

structure PushOK (p : Stmt × Kind → Prop) (srcp : Stmt → Prop) : Prop where
  compound : ∀ s k, isSimpleStmt s = false → p (s, k)
  src : ∀ s, srcp s → p (s, .trivial)
  init : ∀ i : Simple, i.isDefine = false → p (.simple i, .trivial)

def IP (p : Stmt × Kind → Prop) (b : Blk) : Prop := ∀ x ∈ b.items, p x

section generic
variable {p : Stmt × Kind → Prop} {srcp : Stmt → Prop}

theorem ip_mk0 (k : Kind) : IP p (Blk.mk0 k) := fun _ hx => nomatch hx

theorem ip_pushU {b : Blk} (h : IP p b) {s : Stmt} {k : Kind} (hs : p (s, k)) : IP p (b.pushU s k) := by
  intro x hx
  simp only [Blk.pushU, List.mem_cons] at hx
  rcases hx with rfl | hx
  · exact hs
  · exact h x hx

theorem ip_pushReturnU (hp : PushOK p srcp) {b : Blk} (h : IP p b) (e : SExp) (k : Kind) :
    IP p (b.pushReturnU e k) := by
  intro x hx
  simp only [Blk.pushReturnU, Blk.pushU, List.mem_cons] at hx
  rcases hx with rfl | hx
  · exact hp.compound _ _ rfl
  · exact h x hx

theorem push_ip {b : Blk} (h : IP p b) {s : Stmt} {k : Kind} (hs : p (s, k)) : OkIf (b.push s k) (IP p) := by
  unfold Blk.push
  exact OkIf.bind (OkIf.triv _) (fun _ _ => OkIf.pure (ip_pushU h hs))

theorem pushReturn_ip (hp : PushOK p srcp) {b : Blk} (h : IP p b) (e : SExp) (k : Kind) :
    OkIf (b.pushReturn e k) (IP p) := by
  unfold Blk.pushReturn
  exact OkIf.bind (OkIf.triv _) (fun _ _ => OkIf.pure (ip_pushReturnU hp h e k))

theorem genLast_ip (hp : PushOK p srcp) (q : Quirks) {b : Blk} (h : IP p b) : OkIf (genLast q b) (IP p) := by
  unfold genLast
  refine OkIf.bind (OkIf.triv _) (fun r _ => ?_)
  split
  · exact pushReturn_ip hp (b := b.markCombined) h _ _
  · exact OkIf.pure h

def FIP (p : Stmt × Kind → Prop) : Frame → Prop
  | .bindF cur _ => IP p cur
  | .combF cur _ => IP p cur

theorem ip_plug (hp : PushOK p srcp) : ∀ (frames : List Frame) (fin : Blk), (∀ f ∈ frames, FIP p f) →
    IP p fin → IP p (plug frames fin)
  | [], fin, _, h => h
  | f :: fs, fin, hf, h => by
      show IP p (plug fs (plug1 fin f))
      refine ip_plug hp fs _ (fun g hg => hf g (List.mem_cons_of_mem _ hg)) ?_
      have hff := hf f (List.mem_cons_self ..)
      cases f with
      | bindF cur e => exact ip_pushReturnU hp hff _ _
      | combF cur first => exact ip_pushReturnU hp hff _ _

theorem fip_nil : ∀ f ∈ ([] : List Frame), FIP p f := fun _ hf => nomatch hf

theorem fip_append {a b : List Frame} (ha : ∀ f ∈ a, FIP p f) (hb : ∀ f ∈ b, FIP p f) :
    ∀ f ∈ a ++ b, FIP p f := fun f hf => by
  rcases List.mem_append.mp hf with h | h
  · exact ha f h
  · exact hb f h

theorem combineIfNecessary_ip (q : Quirks) {b : Blk} (h : IP p b) :
    OkIf (combineIfNecessary q b) (fun r => IP p r.1 ∧ ∀ f ∈ r.2, FIP p f) := by
  unfold combineIfNecessary
  simp only []
  split
  · exact OkIf.pure ⟨h, fip_nil⟩
  · rename_i s k rest hi
    simp only [Blk.markCombined] at hi
    have hrest : ∀ x ∈ rest, p x := fun x hx => h x (by rw [hi]; exact List.mem_cons_of_mem _ hx)
    split
    · exact OkIf.pure ⟨h, fip_nil⟩
    · refine OkIf.bind (OkIf.triv _) (fun c _ => ?_)
      refine OkIf.bind (OkIf.triv _) (fun c' _ => ?_)
      refine OkIf.bind (OkIf.triv _) (fun _ _ => ?_)
      refine OkIf.pure ⟨ip_mk0 _, fun f hf => ?_⟩
      simp only [List.mem_singleton] at hf
      subst hf
      exact hrest

def SRIP (p : Stmt × Kind → Prop) : SR → Prop
  | .stop c => IP p c
  | .go fol frames => IP p fol ∧ ∀ f ∈ frames, FIP p f

theorem ifPush_ip (hp : PushOK p srcp) (init : Option Simple) (c : CondE) (thn : Stmts) (els : Else) (body : Blk)
    (e : Option Blk) {cur : Blk} (h : IP p cur) : OkIf (ifPush init c thn els body e cur) (IP p) := by
  unfold ifPush
  split
  · split
    · exact push_ip h (hp.compound _ _ rfl)
    · exact push_ip h (hp.compound _ _ rfl)
  · split
    · exact push_ip h (hp.compound _ _ rfl)
    · exact push_ip h (hp.compound _ _ rfl)

theorem rwInit_ip (hp : PushOK p srcp) (i : Simple) (hi : i.isDefine = false) {cur : Blk} (h : IP p cur) :
    OkIf (rwInit i cur) (SRIP p) := by
  cases i with
  | yield e =>
      simp only [rwInit]
      refine OkIf.bind (OkIf.triv _) (fun _ _ => OkIf.pure ⟨ip_mk0 _, fun f hf => ?_⟩)
      simp only [List.mem_singleton] at hf; subst hf; exact h
  | empty => simp only [rwInit]; exact OkIf.pure ⟨h, fip_nil⟩
  | act n => simp only [rwInit]; exact OkIf.bind (push_ip h (hp.init _ hi)) (fun b hb => OkIf.pure ⟨hb, fip_nil⟩)
  | pact n => simp only [rwInit]; exact OkIf.bind (push_ip h (hp.init _ hi)) (fun b hb => OkIf.pure ⟨hb, fip_nil⟩)
  | bpanic n => simp only [rwInit]; exact OkIf.bind (push_ip h (hp.init _ hi)) (fun b hb => OkIf.pure ⟨hb, fip_nil⟩)
  | def_ n => simp [Simple.isDefine] at hi

theorem go_pushed_ip {cur : Blk} (h : IP p cur) {s : Stmt} (hs : p (s, .trivial)) :
    OkIf (do pure (SR.go (← cur.push s .trivial) []) : Except String SR) (SRIP p) :=
  OkIf.bind (push_ip h hs) (fun _ hb => OkIf.pure ⟨hb, fip_nil⟩)

theorem stop_pushed_ip {cur : Blk} (h : IP p cur) {s : Stmt} (hs : p (s, .trivial)) :
    OkIf (do pure (SR.stop (← cur.push s .trivial)) : Except String SR) (SRIP p) :=
  OkIf.bind (push_ip h hs) (fun _ hb => OkIf.pure hb)

/-- the init statement of a yielding for / switch: extracted into the current block -/
theorem init_ip (hp : PushOK p srcp) (init : Option Simple) {cur : Blk} (h : IP p cur) :
    OkIf (match init with
      | none => pure (cur, [])
      | some i => do
        if i.isDefine then throw "illegal state"
        match ← rwInit i cur with
        | .stop _ => throw "illegal state"
        | .go fol fr => pure (fol, fr) : Except String (Blk × List Frame))
      (fun r => IP p r.1 ∧ ∀ f ∈ r.2, FIP p f) := by
  cases init with
  | none => exact OkIf.pure ⟨h, fip_nil⟩
  | some i =>
    dsimp only
    split
    · exact OkIf.bind OkIf.throw (fun _ (h : False) => h.elim)
    · rename_i hd
      refine OkIf.bind (rwInit_ip hp i (by simpa using hd) h) (fun r hr => ?_)
      cases r with
      | stop c => exact OkIf.throw
      | go fol fr => exact OkIf.pure hr

theorem for_tail_ip (hp : PushOK p srcp) (q : Quirks) (cond : Option CondE) (post : Option Simple) (body : Stmts)
    (b : Blk) (x : Blk × List Frame) (h1 : IP p x.1) (h2 : ∀ f ∈ x.2, FIP p f) :
    OkIf (if (b.mustNoYield && !optIsYield post) = true then do
          let __x_1 ← combineIfNecessary q x.fst
          let __do_lift ← __x_1.fst.push (Stmt.for_ none cond post body) Kind.trivial
          pure (SR.go __do_lift (__x_1.snd ++ x.snd))
        else
          if (!optIsYield post) = true then do
            let call ← callFor q cond post (SExp.delay (Thunk.lam b.toStmts))
            let __x_1 ← combineIfNecessary q x.fst
            let __do_lift ← __x_1.fst.pushReturn call Kind.fork
            pure (SR.go __do_lift (__x_1.snd ++ x.snd))
          else do
            let pe ← (match post with
                | some (Simple.yield e) => pure e
                | _ => throw "illegal state" : Except String VExp)
            let normalThunk ← genLast q (Blk.mk0 Kind.delay)
            let b ← (if b.combineRequired = true then do
                  let b ← genLast q b
                  (Blk.mk0 Kind.fork).pushReturn
                      ((SExp.delay (Thunk.lam b.toStmts)).combine
                        (SExp.delay
                          (Thunk.lam
                            ((Blk.mk0 Kind.delay).pushReturnU (SExp.bind pe (Thunk.lam normalThunk.toStmts))
                                Kind.yieldk).toStmts)))
                      Kind.combine
                else b.markCombined.pushReturn (SExp.bind pe (Thunk.lam normalThunk.toStmts)) Kind.yieldk : Except String Blk)
            let call ← callFor q cond none (SExp.delay (Thunk.lam b.toStmts))
            let __x_1 ← combineIfNecessary q x.fst
            let __do_lift ← __x_1.fst.pushReturn call Kind.fork
            pure (SR.go __do_lift (__x_1.snd ++ x.snd))) (SRIP p) := by
  split
  · refine OkIf.bind (combineIfNecessary_ip q h1) (fun r hr => ?_)
    refine OkIf.bind (push_ip hr.1 (hp.compound _ _ rfl)) (fun c hc => ?_)
    exact OkIf.pure ⟨hc, fip_append hr.2 h2⟩
  · split
    · refine OkIf.bind (OkIf.triv _) (fun call _ => ?_)
      refine OkIf.bind (combineIfNecessary_ip q h1) (fun r hr => ?_)
      refine OkIf.bind (pushReturn_ip hp hr.1 _ _) (fun c hc => ?_)
      exact OkIf.pure ⟨hc, fip_append hr.2 h2⟩
    · refine OkIf.bind (OkIf.triv _) (fun pe _ => ?_)
      refine OkIf.bind (OkIf.triv _) (fun nt _ => ?_)
      refine OkIf.bind (OkIf.triv _) (fun b' _ => ?_)
      refine OkIf.bind (OkIf.triv _) (fun call _ => ?_)
      refine OkIf.bind (combineIfNecessary_ip q h1) (fun r hr => ?_)
      refine OkIf.bind (pushReturn_ip hp hr.1 _ _) (fun c hc => ?_)
      exact OkIf.pure ⟨hc, fip_append hr.2 h2⟩

def topAll (srcp : Stmt → Prop) : Stmts → Prop
  | .nil => True
  | .cons s r => srcp s ∧ topAll srcp r

/-- one statement: needs no induction hypothesis, nested results never reach the top level -/
theorem rwStmt_ip (hp : PushOK p srcp) (q : Quirks) :
    ∀ (s : Stmt) (isLast : Bool) (cur : Blk), srcp s → IP p cur → OkIf (rwStmt q s isLast cur) (SRIP p)
  | .simple (.yield e), isLast, cur, _, hc => by
      simp only [rwStmt]
      refine OkIf.bind (OkIf.triv _) (fun _ _ => ?_)
      split
      · refine OkIf.bind (OkIf.triv _) (fun fol _ => ?_)
        exact OkIf.pure (ip_pushReturnU hp hc _ _)
      · refine OkIf.pure ⟨ip_mk0 _, fun f hf => ?_⟩
        simp only [List.mem_singleton] at hf; subst hf; exact hc
  | .simple .empty, _, cur, _, hc => by simp only [rwStmt]; exact OkIf.pure ⟨hc, fip_nil⟩
  | .simple (.act n), _, cur, hs, hc => by simp only [rwStmt]; exact go_pushed_ip hc (hp.src _ hs)
  | .simple (.pact n), _, cur, hs, hc => by simp only [rwStmt]; exact go_pushed_ip hc (hp.src _ hs)
  | .simple (.bpanic n), _, cur, hs, hc => by simp only [rwStmt]; exact go_pushed_ip hc (hp.src _ hs)
  | .simple (.def_ n), _, cur, hs, hc => by simp only [rwStmt]; exact go_pushed_ip hc (hp.src _ hs)
  | .brk, _, cur, _, hc => by simp only [rwStmt]; exact stop_pushed_ip hc (hp.compound _ _ rfl)
  | .cont, _, cur, _, hc => by simp only [rwStmt]; exact stop_pushed_ip hc (hp.compound _ _ rfl)
  | .fallthrough, _, cur, _, hc => by simp only [rwStmt]; exact stop_pushed_ip hc (hp.compound _ _ rfl)
  | .ret, _, cur, _, hc => by simp only [rwStmt]; exact go_pushed_ip hc (hp.compound _ _ rfl)
  | .rete e, _, cur, _, hc => by simp only [rwStmt]; exact go_pushed_ip hc (hp.compound _ _ rfl)
  | .unknown t, _, cur, _, hc => by simp only [rwStmt]; exact go_pushed_ip hc (hp.compound _ _ rfl)
  | .block ss, _, cur, _, hc => by
      simp only [rwStmt]
      refine OkIf.bind (OkIf.triv _) (fun fol _ => ?_)
      split
      · exact go_pushed_ip hc (hp.compound _ _ rfl)
      · refine OkIf.bind (pushReturn_ip hp hc _ _) (fun b hb => ?_)
        exact OkIf.pure ⟨hb, fip_nil⟩
  | .ifs init c thn els, isLast, cur, _, hc => by
      simp only [rwStmt]
      split
      · exact OkIf.bind OkIf.throw (fun _ (h : False) => h.elim)
      refine OkIf.bind (OkIf.triv _) (fun body _ => ?_)
      refine OkIf.bind (OkIf.triv _) (fun e _ => ?_)
      refine OkIf.bind (ifPush_ip hp init c thn els body e hc) (fun cur' hcur' => ?_)
      split
      · exact OkIf.bind (genLast_ip hp q hcur') (fun c hc' => OkIf.pure hc')
      · exact OkIf.pure ⟨hcur', fip_nil⟩
  | .switch init tag cases, isLast, cur, _, hc => by
      simp only [rwStmt]
      refine OkIf.bind (OkIf.triv _) (fun pr _ => ?_)
      obtain ⟨newCases, allTrivial⟩ := pr
      dsimp only
      split
      · exact go_pushed_ip hc (hp.compound _ _ rfl)
      · refine OkIf.bind (init_ip hp init hc) (fun x hx => ?_)
        obtain ⟨cur1, frames⟩ := x
        obtain ⟨h1, h2⟩ := hx
        dsimp only at h1 h2 ⊢
        split
        · exact OkIf.bind OkIf.throw (fun _ (h : False) => h.elim)
        · split
          · exact OkIf.bind (push_ip h1 (hp.compound _ _ rfl)) (fun b hb => OkIf.pure ⟨hb, h2⟩)
          · refine OkIf.bind (combineIfNecessary_ip q h1) (fun r hr => ?_)
            refine OkIf.bind (push_ip hr.1 (hp.compound _ _ rfl)) (fun cur' hcur' => ?_)
            split
            · refine OkIf.bind (genLast_ip hp q hcur') (fun g hg => ?_)
              exact OkIf.pure (ip_plug hp _ _ (fip_append hr.2 h2) hg)
            · exact OkIf.pure ⟨hcur', fip_append hr.2 h2⟩
  | .for_ init cond post body, isLast, cur, _, hc => by
      simp only [rwStmt]
      refine OkIf.bind (OkIf.triv _) (fun b _ => ?_)
      split
      · exact go_pushed_ip hc (hp.compound _ _ rfl)
      · refine OkIf.bind (init_ip hp init hc) (fun x hx => ?_)
        exact for_tail_ip hp q cond post body b x hx.1 hx.2

theorem rwStmts_ip (hp : PushOK p srcp) (q : Quirks) :
    ∀ (ss : Stmts) (cur : Blk), topAll srcp ss → IP p cur → OkIf (rwStmts q ss cur) (IP p)
  | .nil, cur, _, hc => by
      simp only [rwStmts]
      split
      · exact genLast_ip hp q hc
      · exact OkIf.pure hc
  | .cons s rest, cur, hw, hc => by
      simp only [rwStmts]
      refine OkIf.bind (rwStmt_ip hp q s rest.isNil cur hw.1 hc) (fun r hr => ?_)
      cases r with
      | stop c => exact OkIf.pure hr
      | go fol frames =>
        obtain ⟨hfol, hfr⟩ := hr
        simp only []
        split
        · refine OkIf.bind (Q := IP p) ?_ (fun fol' hfol' => OkIf.pure (ip_plug hp frames fol' hfr hfol'))
          split
          · exact genLast_ip hp q hfol
          · exact OkIf.pure hfol
        · refine OkIf.bind (combineIfNecessary_ip q hfol) (fun pr hpr => ?_)
          obtain ⟨fol2, frames2⟩ := pr
          refine OkIf.bind (rwStmts_ip hp q rest fol2 hw.2 hpr.1) (fun fin hfin => ?_)
          exact OkIf.pure (ip_plug hp _ _ hfr (ip_plug hp _ _ hpr.2 hfin))

end generic

end GoCo.MG

namespace GoCo.MG
open GoCo

/-! ### Part 2: observations of a block under construction (a zipper: frames + innermost block) -/

def frPre (env : Env) : Frame → List Obs
  | .bindF cur e => obsB env cur ++ [(.y e, envB env cur)]
  | .combF cur first => obsB env cur ++ obsB (envB env cur) first

def frEnv (env : Env) : Frame → Env
  | .bindF cur _ => envB env cur
  | .combF cur _ => envB env cur

/-- the environment of the innermost block (frames are listed innermost first) -/
def ctxEnv (env : Env) : List Frame → Env
  | [] => env
  | f :: rest => frEnv (ctxEnv env rest) f

def ctxPre (env : Env) : List Frame → List Obs
  | [] => []
  | f :: rest => ctxPre env rest ++ frPre (ctxEnv env rest) f

def zObs (env : Env) (frames : List Frame) (blk : Blk) : List Obs :=
  ctxPre env frames ++ obsB (ctxEnv env frames) blk

def zEnv (env : Env) (frames : List Frame) (blk : Blk) : Env := envB (ctxEnv env frames) blk

@[simp] theorem zObs_nil (env : Env) (b : Blk) : zObs env [] b = obsB env b := rfl
@[simp] theorem zEnv_nil (env : Env) (b : Blk) : zEnv env [] b = envB env b := rfl

theorem obsB_plug1 (env : Env) (fin : Blk) : ∀ f : Frame,
    obsB env (plug1 fin f) = frPre env f ++ obsB (frEnv env f) fin
  | .bindF cur e => by
      simp only [plug1, obsB_pushReturnU, obsX, obsT, frPre, frEnv, List.append_assoc, List.cons_append,
        List.nil_append]; rfl
  | .combF cur first => by
      simp only [plug1, obsB_pushReturnU, obsX, obsT, frPre, frEnv, List.append_assoc]; rfl

theorem obsB_plug (env : Env) : ∀ (frames : List Frame) (fin : Blk), obsB env (plug frames fin) = zObs env frames fin
  | [], fin => rfl
  | f :: fs, fin => by
      show obsB env (plug fs (plug1 fin f)) = _
      rw [obsB_plug env fs, zObs, obsB_plug1, zObs, ctxPre, ctxEnv, List.append_assoc]

theorem ctxEnv_append (env : Env) : ∀ (a b : List Frame), ctxEnv env (a ++ b) = ctxEnv (ctxEnv env b) a
  | [], b => rfl
  | f :: a, b => by simp only [List.cons_append, ctxEnv, ctxEnv_append env a b]

theorem ctxPre_append (env : Env) : ∀ (a b : List Frame),
    ctxPre env (a ++ b) = ctxPre env b ++ ctxPre (ctxEnv env b) a
  | [], b => by simp [ctxPre]
  | f :: a, b => by
      simp only [List.cons_append, ctxPre, ctxPre_append env a b, ctxEnv_append, List.append_assoc]

theorem zObs_append (env : Env) (a b : List Frame) (blk : Blk) :
    zObs env (a ++ b) blk = ctxPre env b ++ zObs (ctxEnv env b) a blk := by
  simp only [zObs, ctxPre_append, ctxEnv_append, List.append_assoc]

theorem zEnv_append (env : Env) (a b : List Frame) (blk : Blk) :
    zEnv env (a ++ b) blk = zEnv (ctxEnv env b) a blk := by
  simp only [zEnv, ctxEnv_append]

theorem zObs_pushU (env : Env) (fr : List Frame) (b : Blk) (s : Stmt) (k : Kind) :
    zObs env fr (b.pushU s k) = zObs env fr b ++ obsS (zEnv env fr b) s := by
  simp only [zObs, zEnv, obsB_pushU, List.append_assoc]

theorem zEnv_pushU (env : Env) (fr : List Frame) (b : Blk) (s : Stmt) (k : Kind) :
    zEnv env fr (b.pushU s k) = envS (zEnv env fr b) s := by
  simp only [zEnv, envB_pushU]

theorem zObs_pushReturnU (env : Env) (fr : List Frame) (b : Blk) (e : SExp) (k : Kind) :
    zObs env fr (b.pushReturnU e k) = zObs env fr b ++ obsX (zEnv env fr b) e := by
  simp only [zObs, zEnv, obsB_pushReturnU, List.append_assoc]

theorem zEnv_pushReturnU (env : Env) (fr : List Frame) (b : Blk) (e : SExp) (k : Kind) :
    zEnv env fr (b.pushReturnU e k) = zEnv env fr b := by
  simp only [zEnv, envB_pushReturnU]

/-- blocks with the same observations and environment, under every environment -/
def SameB (a b : Blk) : Prop := ∀ env, obsB env a = obsB env b ∧ envB env a = envB env b

theorem SameB.z {a b : Blk} (h : SameB a b) (env : Env) (fr : List Frame) :
    zObs env fr a = zObs env fr b ∧ zEnv env fr a = zEnv env fr b := by
  simp only [zObs, zEnv, (h _).1, (h _).2, and_self]

theorem sameB_items {a b : Blk} (h : a.items = b.items) : SameB a b :=
  fun env => ⟨obsB_congr h env, envB_congr h env⟩

theorem genLast_scope (q : Quirks) (b : Blk) : OkIf (genLast q b) (fun b' => SameB b' b) := by
  unfold genLast
  refine OkIf.bind (OkIf.triv _) (fun r _ => ?_)
  split
  · unfold Blk.pushReturn
    refine OkIf.bind (OkIf.triv _) (fun _ _ => OkIf.pure (fun env => ?_))
    rw [obsB_pushReturnU, envB_pushReturnU]
    simp only [obsX, List.append_nil]
    exact ⟨obsB_congr rfl env, envB_congr rfl env⟩
  · exact OkIf.pure (fun env => ⟨rfl, rfl⟩)

/-! ### the two item invariants -/

def NTSP : Stmt × Kind → Prop := fun x => x.2 ≠ .trivial → isSimpleStmt x.1 = false
def NoDefP : Stmt × Kind → Prop := fun x => isDefStmt x.1 = false

theorem pushOK_nts : PushOK NTSP (fun _ => True) :=
  ⟨fun _ _ h _ => h, fun _ _ h => absurd rfl h, fun _ _ h => absurd rfl h⟩

theorem pushOK_nodef : PushOK NoDefP (fun s => isDefStmt s = false) := by
  refine ⟨fun s _ h => ?_, fun _ h => h, fun i h => ?_⟩
  · cases s <;> first | rfl | (simp [isSimpleStmt] at h)
  · cases i <;> first | rfl | (simp [Simple.isDefine] at h)

abbrev NTS (b : Blk) : Prop := IP NTSP b

theorem envS_compound (env : Env) {s : Stmt} (h : isSimpleStmt s = false) : envS env s = env := by
  cases s <;> first | rfl | (simp [isSimpleStmt] at h)

theorem envS_nodef (env : Env) {s : Stmt} (h : isDefStmt s = false) : envS env s = env := by
  cases s with
  | simple x => cases x <;> first | rfl | (simp [isDefStmt] at h)
  | _ => rfl

theorem envL_ofList_nodef (env : Env) : ∀ (l : List Stmt), (∀ s ∈ l, isDefStmt s = false) →
    envL env (Stmts.ofList l) = env
  | [], _ => rfl
  | s :: r, h => by
      simp only [Stmts.ofList, envL, envS_nodef env (h s (List.mem_cons_self ..))]
      exact envL_ofList_nodef env r (fun x hx => h x (List.mem_cons_of_mem _ hx))

theorem envB_nodef (env : Env) {b : Blk} (h : IP NoDefP b) : envB env b = env := by
  unfold envB Blk.toStmts
  refine envL_ofList_nodef env _ (fun s hs => ?_)
  simp only [List.mem_map, List.mem_reverse] at hs
  obtain ⟨x, hx, rfl⟩ := hs
  exact h x hx

theorem topAll_noTopDef : ∀ ss : Stmts, noTopDef ss = true → topAll (fun s => isDefStmt s = false) ss
  | .nil, _ => trivial
  | .cons s r, h => by
      simp only [noTopDef, Bool.and_eq_true, Bool.not_eq_true'] at h
      exact ⟨h.1, topAll_noTopDef r h.2⟩

theorem topAll_true : ∀ ss : Stmts, topAll (fun _ => True) ss
  | .nil => trivial
  | .cons _ r => ⟨trivial, topAll_true r⟩

theorem OkIf.and {ε α : Type} {x : Except ε α} {Q R : α → Prop} (h1 : OkIf x Q) (h2 : OkIf x R) :
    OkIf x (fun a => Q a ∧ R a) := fun a ha => ⟨h1 a ha, h2 a ha⟩

theorem OkIf.imp {ε α : Type} {x : Except ε α} {Q : α → Prop} {h : Prop} (h1 : h → OkIf x Q) :
    OkIf x (fun a => h → Q a) := fun a ha hh => h1 hh a ha

/-- combineIfNecessary moves the last statement into the first half of a Combine: same observations,
    because a statement of a non-trivial kind declares nothing -/
theorem comb_scope (q : Quirks) {b : Blk} (h : NTS b) :
    OkIf (combineIfNecessary q b) (fun r => ∀ env, zObs env r.2 r.1 = obsB env b ∧ zEnv env r.2 r.1 = envB env b) := by
  unfold combineIfNecessary
  simp only []
  split
  · exact OkIf.pure (fun env => ⟨obsB_congr rfl env, envB_congr rfl env⟩)
  · rename_i s k rest hi
    simp only [Blk.markCombined] at hi
    split
    · exact OkIf.pure (fun env => ⟨obsB_congr rfl env, envB_congr rfl env⟩)
    · rename_i hk
      have hs : isSimpleStmt s = false := h (s, k) (by rw [hi]; exact List.mem_cons_self ..) hk
      refine OkIf.bind (Q := fun c => c = (Blk.mk0 .delay).pushU s k) ?_ (fun c hc => ?_)
      · unfold Blk.push
        exact OkIf.bind (OkIf.triv _) (fun _ _ => OkIf.pure rfl)
      subst hc
      refine OkIf.bind (genLast_scope q _) (fun c' hc' => ?_)
      refine OkIf.bind (OkIf.triv _) (fun _ _ => ?_)
      refine OkIf.pure (fun env => ?_)
      have hb : SameB b (Blk.pushU { b with items := rest, frozen := false } s k) :=
        sameB_items (by simp [Blk.pushU, hi])
      simp only [zObs, zEnv, ctxPre, ctxEnv, frPre, frEnv, obsB_mk0, envB_mk0, List.nil_append, List.append_nil]
      rw [(hb env).1, (hb env).2, obsB_pushU, envB_pushU, (hc' _).1, obsB_pushU, obsB_mk0, envB_mk0,
        List.nil_append, envS_compound _ hs]
      exact ⟨obsB_congr rfl env ▸ rfl, rfl⟩

end GoCo.MG

namespace GoCo.MG
open GoCo

/-! ### Part 3: one rewriting step extends the zipper by exactly the statement's observations -/

abbrev Zip := Blk × List Frame

def ZSame (x y : Zip) : Prop :=
  ∀ env, zObs env x.2 x.1 = zObs env y.2 y.1 ∧ zEnv env x.2 x.1 = zEnv env y.2 y.1

def ZStep (x : Zip) (s : Stmt) (x' : Zip) : Prop :=
  ∀ env, zObs env x'.2 x'.1 = zObs env x.2 x.1 ++ obsS (zEnv env x.2 x.1) s ∧
         zEnv env x'.2 x'.1 = envS (zEnv env x.2 x.1) s

def SRZ (x : Zip) (s : Stmt) (isLast : Bool) : SR → Prop
  | .stop c => (isJump s = true ∨ isLast = true) ∧
      ∀ env, obsB env c = zObs env x.2 x.1 ++ obsS (zEnv env x.2 x.1) s
  | .go fol fr => ZStep x s (fol, fr)

theorem zstep_push (x : Zip) (s : Stmt) (k : Kind) : ZStep x s (x.1.pushU s k, x.2) :=
  fun env => ⟨zObs_pushU env x.2 x.1 s k, zEnv_pushU env x.2 x.1 s k⟩

theorem zstep_pushRet (x : Zip) (e : SExp) (k : Kind) (s : Stmt) (hobs : ∀ E, obsX E e = obsS E s)
    (henv : ∀ E, envS E s = E) : ZStep x s (x.1.pushReturnU e k, x.2) :=
  fun env => ⟨by rw [zObs_pushReturnU, hobs], by rw [zEnv_pushReturnU, henv]⟩

theorem ZStep.same_left {x y : Zip} {s : Stmt} {z : Zip} (h : ZSame x y) (hs : ZStep x s z) : ZStep y s z :=
  fun env => by rw [← (h env).1, ← (h env).2]; exact hs env

theorem ZStep.congr {x : Zip} {s s' : Stmt} {z : Zip} (hs : ZStep x s z) (ho : ∀ E, obsS E s = obsS E s')
    (he : ∀ E, envS E s = envS E s') : ZStep x s' z :=
  fun env => by rw [← ho, ← he]; exact hs env

theorem ZStep.same_right {x : Zip} {s : Stmt} {z z' : Zip} (hs : ZStep x s z) (h : ZSame z' z) : ZStep x s z' :=
  fun env => by rw [(h env).1, (h env).2]; exact hs env

theorem zsame_comb {b : Blk} {r : Blk × List Frame} (fr : List Frame)
    (h : ∀ env, zObs env r.2 r.1 = obsB env b ∧ zEnv env r.2 r.1 = envB env b) : ZSame (b, fr) (r.1, r.2 ++ fr) :=
  fun env => by
    simp only [zObs_append, zEnv_append, (h _).1, (h _).2]
    exact ⟨rfl, rfl⟩

theorem zsame_sameB {a b : Blk} (h : SameB a b) (fr : List Frame) : ZSame (a, fr) (b, fr) :=
  fun env => h.z env fr

theorem push_eq (b : Blk) (s : Stmt) (k : Kind) : OkIf (b.push s k) (fun b' => b' = b.pushU s k) := by
  unfold Blk.push
  exact OkIf.bind (OkIf.triv _) (fun _ _ => OkIf.pure rfl)

theorem pushReturn_eq (b : Blk) (e : SExp) (k : Kind) : OkIf (b.pushReturn e k) (fun b' => b' = b.pushReturnU e k) := by
  unfold Blk.pushReturn
  exact OkIf.bind (OkIf.triv _) (fun _ _ => OkIf.pure rfl)

theorem go_pushed_scope (cur : Blk) (s : Stmt) (isLast : Bool) :
    OkIf (do pure (SR.go (← cur.push s .trivial) []) : Except String SR) (SRZ (cur, []) s isLast) :=
  OkIf.bind (push_eq cur s _) (fun b hb => OkIf.pure (by subst hb; exact zstep_push (cur, []) s _))

theorem stop_pushed_scope (cur : Blk) (s : Stmt) (isLast : Bool) (hj : isJump s = true) :
    OkIf (do pure (SR.stop (← cur.push s .trivial)) : Except String SR) (SRZ (cur, []) s isLast) :=
  OkIf.bind (push_eq cur s _) (fun b hb => OkIf.pure (by
    subst hb; exact ⟨Or.inl hj, fun env => obsB_pushU env cur s _⟩))

theorem obsE_unwrapIf (env : Env) (ss : Stmts) : obsE env (unwrapIf ss) = obsL env ss := by
  unfold unwrapIf
  split
  · simp only [obsE, obsL, List.append_nil]
  · rfl

theorem ifPush_scope (init : Option Simple) (c : CondE) (thn : Stmts) (els : Else) (body : Blk) (e : Option Blk)
    (cur : Blk) (hbody : ∀ env, obsB env body = obsL env thn)
    (he : (e = none → ∀ env, obsE env els = []) ∧ (∀ e', e = some e' → ∀ env, obsB env e' = obsE env els)) :
    OkIf (ifPush init c thn els body e cur) (fun cur' => ZStep (cur, []) (.ifs init c thn els) (cur', [])) := by
  have key : ∀ (s' : Stmt) (k : Kind), (∀ E, obsS E s' = obsS E (.ifs init c thn els)) → (∀ E, envS E s' = E) →
      OkIf (cur.push s' k) (fun cur' => ZStep (cur, []) (.ifs init c thn els) (cur', [])) := by
    intro s' k ho he'
    intro a ha
    have := push_eq cur s' k a ha; subst this
    exact (zstep_push (cur, []) s' k).congr ho (fun E => by rw [he']; rfl)
  unfold ifPush
  split
  · split
    · exact key _ _ (fun _ => rfl) (fun _ => rfl)
    · refine key _ _ (fun E => ?_) (fun _ => rfl)
      simp only [obsS, obsE, he.1 rfl, List.append_nil]
      rw [show obsL (envI E init) body.toStmts = obsB (envI E init) body from rfl, hbody]
  · rename_i e'
    split
    · exact key _ _ (fun _ => rfl) (fun _ => rfl)
    · refine key _ _ (fun E => ?_) (fun _ => rfl)
      simp only [obsS, obsE_unwrapIf]
      rw [show obsL (envI E init) body.toStmts = obsB (envI E init) body from rfl, hbody,
        show obsL (envI E init) e'.toStmts = obsB (envI E init) e' from rfl, he.2 e' rfl]

@[simp] theorem envI_none (E : Env) : envI E none = E := rfl

theorem envI_nodef (E : Env) (i : Simple) (h : i.isDefine = false) : envI E (some i) = E := by
  cases i <;> first | rfl | (simp [Simple.isDefine] at h)

theorem rwInit_scope (i : Simple) (hi : i.isDefine = false) (cur : Blk) :
    OkIf (rwInit i cur) (fun r => match r with
      | .stop _ => True
      | .go fol fr => ZStep (cur, []) (.simple i) (fol, fr)) := by
  cases i with
  | yield e =>
      simp only [rwInit]
      refine OkIf.bind (OkIf.triv _) (fun _ _ => OkIf.pure (fun env => ?_))
      simp [zObs, zEnv, ctxPre, ctxEnv, frPre, frEnv, obsS, obsI, envS, envI]
  | empty =>
      simp only [rwInit]
      exact OkIf.pure (fun env => by simp [obsS, obsI, envS, envI])
  | act n => simp only [rwInit]; exact OkIf.bind (push_eq cur _ _) (fun b hb => OkIf.pure (by subst hb; exact zstep_push (cur, []) _ _))
  | pact n => simp only [rwInit]; exact OkIf.bind (push_eq cur _ _) (fun b hb => OkIf.pure (by subst hb; exact zstep_push (cur, []) _ _))
  | bpanic n => simp only [rwInit]; exact OkIf.bind (push_eq cur _ _) (fun b hb => OkIf.pure (by subst hb; exact zstep_push (cur, []) _ _))
  | def_ n => simp [Simple.isDefine] at hi

/-- the init statement of a yielding for / switch is extracted: the zipper is extended by it, and it is
    not a declaration -/
theorem init_scope (init : Option Simple) (cur : Blk) :
    OkIf (match init with
      | none => pure (cur, [])
      | some i => do
        if i.isDefine then throw "illegal state"
        match ← rwInit i cur with
        | .stop _ => throw "illegal state"
        | .go fol fr => pure (fol, fr) : Except String (Blk × List Frame))
      (fun r => (∀ env, zObs env r.2 r.1 = obsB env cur ++ obsI (envB env cur) init ∧
                        zEnv env r.2 r.1 = envB env cur) ∧ ∀ E, envI E init = E) := by
  cases init with
  | none => exact OkIf.pure ⟨fun env => by simp [obsI], fun _ => rfl⟩
  | some i =>
    dsimp only
    split
    · exact OkIf.bind OkIf.throw (fun _ (h : False) => h.elim)
    · rename_i hd
      have hd' : i.isDefine = false := by simpa using hd
      refine OkIf.bind (rwInit_scope i hd' cur) (fun r hr => ?_)
      cases r with
      | stop c => exact OkIf.throw
      | go fol fr =>
        refine OkIf.pure ⟨fun env => ?_, fun E => envI_nodef E i hd'⟩
        have := hr env
        simp only [zObs_nil, zEnv_nil, obsS, envS, envI_nodef _ i hd'] at this
        exact this

end GoCo.MG

namespace GoCo.MG
open GoCo

theorem ZSame.symm {x y : Zip} (h : ZSame x y) : ZSame y x := fun env => ⟨(h env).1.symm, (h env).2.symm⟩

theorem callFor_eq (q : Quirks) (c : Option CondE) (p : Option Simple) (body : SExp) :
    OkIf (callFor q c p body) (fun r => r = .loop c p body) := by
  unfold callFor
  split
  · split
    · exact OkIf.throw
    · exact OkIf.pure rfl
  · exact OkIf.pure rfl

theorem for_tail_scope (q : Quirks) (cond : Option CondE) (post : Option Simple) (body : Stmts) (isLast : Bool)
    (b : Blk) (hb : ∀ env, obsB env b = obsL env body)
    (hnd : optIsYield post = true → ∀ env, envB env b = env)
    (x : Blk × List Frame) (h1 : NTS x.1) :
    OkIf (if (b.mustNoYield && !optIsYield post) = true then do
          let __x_1 ← combineIfNecessary q x.fst
          let __do_lift ← __x_1.fst.push (Stmt.for_ none cond post body) Kind.trivial
          pure (SR.go __do_lift (__x_1.snd ++ x.snd))
        else
          if (!optIsYield post) = true then do
            let call ← callFor q cond post (SExp.delay (Thunk.lam b.toStmts))
            let __x_1 ← combineIfNecessary q x.fst
            let __do_lift ← __x_1.fst.pushReturn call Kind.fork
            pure (SR.go __do_lift (__x_1.snd ++ x.snd))
          else do
            let pe ← (match (generalizing := false) post with
                | some (Simple.yield e) => pure e
                | _ => throw "illegal state" : Except String VExp)
            let normalThunk ← genLast q (Blk.mk0 Kind.delay)
            let b ← (if b.combineRequired = true then do
                  let b ← genLast q b
                  (Blk.mk0 Kind.fork).pushReturn
                      ((SExp.delay (Thunk.lam b.toStmts)).combine
                        (SExp.delay
                          (Thunk.lam
                            ((Blk.mk0 Kind.delay).pushReturnU (SExp.bind pe (Thunk.lam normalThunk.toStmts))
                                Kind.yieldk).toStmts)))
                      Kind.combine
                else b.markCombined.pushReturn (SExp.bind pe (Thunk.lam normalThunk.toStmts)) Kind.yieldk : Except String Blk)
            let call ← callFor q cond none (SExp.delay (Thunk.lam b.toStmts))
            let __x_1 ← combineIfNecessary q x.fst
            let __do_lift ← __x_1.fst.pushReturn call Kind.fork
            pure (SR.go __do_lift (__x_1.snd ++ x.snd))) (SRZ x (.for_ none cond post body) isLast) := by
  split
  · refine OkIf.bind (comb_scope q h1) (fun r hr => ?_)
    refine OkIf.bind (push_eq _ _ _) (fun c hc => ?_)
    subst hc
    exact OkIf.pure ((zstep_push (r.1, r.2 ++ x.2) _ _).same_left (zsame_comb x.2 hr).symm)
  · split
    · refine OkIf.bind (callFor_eq q _ _ _) (fun call hcall => ?_)
      subst hcall
      refine OkIf.bind (comb_scope q h1) (fun r hr => ?_)
      refine OkIf.bind (pushReturn_eq _ _ _) (fun c hc => ?_)
      subst hc
      refine OkIf.pure ((zstep_pushRet (r.1, r.2 ++ x.2) _ _ _ (fun E => ?_) (fun _ => rfl)).same_left
        (zsame_comb x.2 hr).symm)
      simp only [obsX, obsT, obsS, obsI, envI, List.nil_append]
      rw [show obsL E b.toStmts = obsB E b from rfl, hb]
    · rename_i hpy
      have hpy' : optIsYield post = true := by simpa using hpy
      refine OkIf.bind (Q := fun pe => post = some (.yield pe)) ?_ (fun pe hpe => ?_)
      · split
        · exact OkIf.pure rfl
        · exact OkIf.throw
      subst hpe
      refine OkIf.bind (genLast_scope q _) (fun nt hnt => ?_)
      have hnt0 : ∀ E, obsL E nt.toStmts = [] := fun E => (hnt E).1
      refine OkIf.bind (Q := fun b' => ∀ E, obsB E b' = obsL E body ++ [(.y pe, E)]) ?_ (fun b' hb' => ?_)
      · split
        · refine OkIf.bind (genLast_scope q b) (fun b2 hb2 => ?_)
          intro c hc
          have hc := pushReturn_eq _ _ _ c hc
          subst hc
          intro E
          rw [obsB_pushReturnU]
          simp only [obsB_mk0, envB_mk0, List.nil_append, obsX, obsT]
          rw [show obsL E b2.toStmts = obsB E b2 from rfl, (hb2 E).1, hb,
            show obsL E ((Blk.mk0 Kind.delay).pushReturnU (SExp.bind pe (Thunk.lam nt.toStmts)) Kind.yieldk).toStmts
              = obsB E ((Blk.mk0 Kind.delay).pushReturnU (SExp.bind pe (Thunk.lam nt.toStmts)) Kind.yieldk) from rfl,
            obsB_pushReturnU]
          simp only [obsB_mk0, envB_mk0, List.nil_append, obsX, obsT, hnt0]
        · intro c hc
          have hc := pushReturn_eq _ _ _ c hc
          subst hc
          intro E
          rw [obsB_pushReturnU]
          simp only [obsX, obsT, hnt0]
          rw [obsB_congr (b := b.markCombined) (b' := b) rfl, envB_congr (b := b.markCombined) (b' := b) rfl, hb,
            hnd hpy']
      · refine OkIf.bind (callFor_eq q _ _ _) (fun call hcall => ?_)
        subst hcall
        refine OkIf.bind (comb_scope q h1) (fun r hr => ?_)
        refine OkIf.bind (pushReturn_eq _ _ _) (fun c hc => ?_)
        subst hc
        refine OkIf.pure ((zstep_pushRet (r.1, r.2 ++ x.2) _ _ _ (fun E => ?_) (fun _ => rfl)).same_left
          (zsame_comb x.2 hr).symm)
        simp only [obsX, obsT, obsS, obsI, envI, List.nil_append, List.append_nil]
        rw [show obsL E b'.toStmts = obsB E b' from rfl, hb']

end GoCo.MG

namespace GoCo.MG
open GoCo

theorem isNil_eq {ss : Stmts} (h : ss.isNil = true) : ss = .nil := by
  cases ss with
  | nil => rfl
  | cons _ _ => cases h

mutual
  theorem rwStmts_scope (q : Quirks) :
      ∀ (ss : Stmts) (cur : Blk), scopeOKL ss = true → NTS cur →
        OkIf (rwStmts q ss cur) (fun fin => ∀ env, obsB env fin = obsB env cur ++ obsL (envB env cur) ss)
    | .nil, cur, _, _ => by
        simp only [rwStmts]
        split
        · exact fun b hb env => by rw [(genLast_scope q cur b hb env).1]; simp [obsL]
        · exact OkIf.pure (fun env => by simp [obsL])
    | .cons s rest, cur, hw, hc => by
        simp only [scopeOKL, Bool.and_eq_true, Bool.or_eq_true, Bool.not_eq_true'] at hw
        simp only [rwStmts]
        refine OkIf.bind ((rwStmt_scope q s rest.isNil cur hw.1.1 hc).and
          (rwStmt_ip pushOK_nts q s rest.isNil cur trivial hc)) (fun r hr => ?_)
        cases r with
        | stop c =>
          obtain ⟨⟨hj, hobs⟩, _⟩ := hr
          have hnil : rest = .nil := by
            rcases hj with hj | hj
            · rcases hw.2 with h | h
              · rw [hj] at h; cases h
              · exact isNil_eq h
            · exact isNil_eq hj
          subst hnil
          exact OkIf.pure (fun env => by rw [hobs env]; simp [obsL])
        | go fol frames =>
          obtain ⟨hz, hfol, hfr⟩ := hr
          simp only []
          split
          · rename_i hl
            have hnil : rest = .nil := isNil_eq hl
            subst hnil
            refine OkIf.bind (Q := fun fol' => SameB fol' fol) ?_ (fun fol' hfol' => OkIf.pure (fun env => ?_))
            · split
              · exact genLast_scope q fol
              · exact OkIf.pure (fun env => ⟨rfl, rfl⟩)
            · rw [obsB_plug, (hfol'.z env frames).1, (hz env).1]
              simp [obsL]
          · refine OkIf.bind ((comb_scope q hfol).and (combineIfNecessary_ip q hfol)) (fun pr hpr => ?_)
            obtain ⟨fol2, frames2⟩ := pr
            refine OkIf.bind (rwStmts_scope q rest fol2 hw.1.2 hpr.2.1) (fun fin hfin => ?_)
            refine OkIf.pure (fun env => ?_)
            have h1 := hpr.1 (ctxEnv env frames)
            have h2 := hz env
            simp only [zObs, zEnv, ctxPre, ctxEnv, List.nil_append] at h1 h2
            rw [obsB_plug, zObs, obsB_plug, zObs, hfin, ← List.append_assoc (ctxPre (ctxEnv env frames) frames2),
              h1.1, h1.2, ← List.append_assoc, h2.1, h2.2, obsL, List.append_assoc]

  theorem rwStmt_scope (q : Quirks) :
      ∀ (s : Stmt) (isLast : Bool) (cur : Blk), scopeOKS s = true → NTS cur →
        OkIf (rwStmt q s isLast cur) (SRZ (cur, []) s isLast)
    | .simple (.yield e), isLast, cur, _, _ => by
        simp only [rwStmt]
        refine OkIf.bind (OkIf.triv _) (fun _ _ => ?_)
        split
        · rename_i hl
          refine OkIf.bind (genLast_scope q _) (fun fol hfol => ?_)
          refine OkIf.pure ⟨Or.inr hl, fun env => ?_⟩
          have h0 : ∀ E, obsL E fol.toStmts = [] := fun E => (hfol E).1
          rw [obsB_pushReturnU]
          simp [obsX, obsT, obsS, obsI, h0]
        · exact OkIf.pure (fun env => by simp [zObs, zEnv, ctxPre, ctxEnv, frPre, frEnv, obsS, obsI, envS, envI])
    | .simple .empty, _, cur, _, _ => by
        simp only [rwStmt]; exact OkIf.pure (fun env => by simp [obsS, obsI, envS, envI])
    | .simple (.act n), il, cur, _, _ => by simp only [rwStmt]; exact go_pushed_scope cur _ il
    | .simple (.pact n), il, cur, _, _ => by simp only [rwStmt]; exact go_pushed_scope cur _ il
    | .simple (.bpanic n), il, cur, _, _ => by simp only [rwStmt]; exact go_pushed_scope cur _ il
    | .simple (.def_ n), il, cur, _, _ => by simp only [rwStmt]; exact go_pushed_scope cur _ il
    | .brk, il, cur, _, _ => by simp only [rwStmt]; exact stop_pushed_scope cur _ il rfl
    | .cont, il, cur, _, _ => by simp only [rwStmt]; exact stop_pushed_scope cur _ il rfl
    | .fallthrough, il, cur, _, _ => by simp only [rwStmt]; exact stop_pushed_scope cur _ il rfl
    | .ret, il, cur, _, _ => by simp only [rwStmt]; exact go_pushed_scope cur _ il
    | .rete e, il, cur, _, _ => by simp only [rwStmt]; exact go_pushed_scope cur _ il
    | .unknown t, il, cur, _, _ => by simp only [rwStmt]; exact go_pushed_scope cur _ il
    | .block ss, il, cur, hw, _ => by
        simp only [scopeOKS] at hw
        simp only [rwStmt]
        refine OkIf.bind (rwStmts_scope q ss _ hw (ip_mk0 _)) (fun fol hfol => ?_)
        have hfol' : ∀ env, obsL env fol.toStmts = obsL env ss := fun env => by
          have := hfol env
          simp only [obsB_mk0, envB_mk0, List.nil_append] at this
          exact this
        split
        · exact go_pushed_scope cur _ il
        · refine OkIf.bind (pushReturn_eq _ _ _) (fun b hb => ?_)
          subst hb
          exact OkIf.pure (zstep_pushRet (cur, []) _ _ _ (fun E => by simp [obsX, obsT, obsS, hfol']) (fun _ => rfl))
    | .ifs init c thn els, isLast, cur, hw, _ => by
        simp only [scopeOKS, Bool.and_eq_true] at hw
        simp only [rwStmt]
        split
        · exact OkIf.bind OkIf.throw (fun _ (h : False) => h.elim)
        refine OkIf.bind (rwStmts_scope q thn _ hw.1 (ip_mk0 _)) (fun body hbody => ?_)
        refine OkIf.bind (rwElse_scope q els hw.2) (fun e he => ?_)
        refine OkIf.bind (ifPush_scope init c thn els body e cur (fun env => by simpa using hbody env) he)
          (fun cur' hcur' => ?_)
        split
        · rename_i hl
          refine OkIf.bind (genLast_scope q cur') (fun c hc' => ?_)
          exact OkIf.pure ⟨Or.inr hl, fun env => by rw [(hc' env).1]; exact (hcur' env).1⟩
        · exact OkIf.pure hcur'
    | .switch init tag cases, isLast, cur, hw, hc => by
        simp only [scopeOKS] at hw
        simp only [rwStmt]
        refine OkIf.bind (rwCases_scope q cases hw) (fun pr hpr => ?_)
        obtain ⟨newCases, allTrivial⟩ := pr
        dsimp only at hpr ⊢
        split
        · exact go_pushed_scope cur _ isLast
        · refine OkIf.bind ((init_scope init cur).and (init_ip pushOK_nts init hc)) (fun x hx => ?_)
          obtain ⟨cur1, frames⟩ := x
          obtain ⟨⟨hz, hinit⟩, h1, _⟩ := hx
          dsimp only at hz h1 ⊢
          -- from the zipper after the init statement to the whole switch statement
          have compose : ∀ {z : Zip}, ZStep (cur1, frames) (.switch none tag cases) z →
              ZStep (cur, []) (.switch init tag cases) z := fun {z} hs env => by
            have a := hs env
            have b := hz env
            simp only [zObs_nil, zEnv_nil] at a b ⊢
            rw [a.1, a.2, b.1, b.2]
            simp only [obsS, envS, hinit, envI_none, obsI, List.nil_append, List.append_assoc, and_self]
          split
          · exact OkIf.bind OkIf.throw (fun _ (h : False) => h.elim)
          · split
            · refine OkIf.bind (push_eq _ _ _) (fun b hb => ?_)
              subst hb
              exact OkIf.pure (compose (zstep_push (cur1, frames) _ _))
            · refine OkIf.bind (comb_scope q h1) (fun r hr => ?_)
              refine OkIf.bind (push_eq _ _ _) (fun cur' hcur' => ?_)
              subst hcur'
              have step : ZStep (cur1, frames) (.switch none tag cases)
                  (r.1.pushU (.switch none tag newCases) .switchk, r.2 ++ frames) :=
                ((zstep_push (r.1, r.2 ++ frames) (.switch none tag newCases) .switchk).same_left
                  (zsame_comb frames hr).symm).congr (fun E => by simp [obsS, hpr]) (fun _ => rfl)
              split
              · rename_i hl
                refine OkIf.bind (genLast_scope q _) (fun g hg => ?_)
                refine OkIf.pure ⟨Or.inr (by simp only [Bool.and_eq_true] at hl; exact hl.1), fun env => ?_⟩
                rw [obsB_plug, (hg.z env _).1]
                exact (compose step env).1
              · exact OkIf.pure (compose step)
    | .for_ init cond post body, isLast, cur, hw, hc => by
        simp only [scopeOKS, Bool.and_eq_true, Bool.or_eq_true, Bool.not_eq_true'] at hw
        simp only [rwStmt]
        have hnd : OkIf (rwStmts q body (Blk.mk0 .fork))
            (fun b => optIsYield post = true → ∀ env, envB env b = env) := by
          refine OkIf.imp (fun hp => ?_)
          have hn : noTopDef body = true := by
            rcases hw.2 with h | h
            · rw [hp] at h; cases h
            · exact h
          exact fun b hb env => envB_nodef env
            (rwStmts_ip pushOK_nodef q body _ (topAll_noTopDef body hn) (ip_mk0 _) b hb)
        refine OkIf.bind ((rwStmts_scope q body _ hw.1 (ip_mk0 _)).and hnd) (fun b hb => ?_)
        have hb1 : ∀ env, obsB env b = obsL env body := fun env => by simpa using hb.1 env
        split
        · exact go_pushed_scope cur _ isLast
        · refine OkIf.bind ((init_scope init cur).and (init_ip pushOK_nts init hc)) (fun x hx => ?_)
          obtain ⟨⟨hz, hinit⟩, h1, _⟩ := hx
          refine fun r hr => ?_
          have tail := for_tail_scope q cond post body isLast b hb1 hb.2 x h1 r hr
          cases r with
          | stop c =>
            refine ⟨tail.1, fun env => ?_⟩
            have a := tail.2 env
            have b := hz env
            simp only [zObs_nil, zEnv_nil] at a b ⊢
            rw [a, b.1, b.2]
            simp only [obsS, hinit, envI_none, obsI, List.nil_append, List.append_assoc]
          | go fol fr =>
            intro env
            have a := tail env
            have b := hz env
            simp only [zObs_nil, zEnv_nil] at a b ⊢
            rw [a.1, a.2, b.1, b.2]
            simp only [obsS, envS, hinit, envI_none, obsI, List.nil_append, List.append_assoc, and_self]

  theorem rwElse_scope (q : Quirks) :
      ∀ (els : Else), scopeOKE els = true → OkIf (rwElse q els) (fun r =>
        (r = none → ∀ env, obsE env els = []) ∧ (∀ e', r = some e' → ∀ env, obsB env e' = obsE env els))
    | .none, _ => by
        simp only [rwElse]; exact OkIf.pure ⟨fun _ _ => rfl, fun e' h => nomatch h⟩
    | .els ss, hw => by
        simp only [scopeOKE] at hw
        simp only [rwElse]
        refine OkIf.bind (rwStmts_scope q ss _ hw (ip_mk0 _)) (fun b hb => ?_)
        exact OkIf.pure ⟨fun h => (nomatch h), fun e' h env => by cases h; simpa [obsE] using hb env⟩
    | .elif s, hw => by
        simp only [scopeOKE] at hw
        simp only [rwElse]
        refine OkIf.bind (rwIfS_scope q s _ hw) (fun b hb => ?_)
        exact OkIf.pure ⟨fun h => (nomatch h), fun e' h env => by cases h; simpa [obsE] using hb env⟩

  theorem rwIfS_scope (q : Quirks) :
      ∀ (s : Stmt) (cur : Blk), scopeOKS s = true →
        OkIf (rwIfS q s cur) (fun cur' => ∀ env, obsB env cur' = obsB env cur ++ obsS (envB env cur) s)
    | .ifs init c thn els, cur, hw => by
        simp only [scopeOKS, Bool.and_eq_true] at hw
        simp only [rwIfS]
        split
        · exact OkIf.bind OkIf.throw (fun _ (h : False) => h.elim)
        refine OkIf.bind (rwStmts_scope q thn _ hw.1 (ip_mk0 _)) (fun body hbody => ?_)
        refine OkIf.bind (rwElse_scope q els hw.2) (fun e he => ?_)
        exact fun cur' h env =>
          (ifPush_scope init c thn els body e cur (fun env => by simpa using hbody env) he cur' h env).1
    | .simple _, _, _ => by simp only [rwIfS]; exact OkIf.throw
    | .block _, _, _ => by simp only [rwIfS]; exact OkIf.throw
    | .switch _ _ _, _, _ => by simp only [rwIfS]; exact OkIf.throw
    | .for_ _ _ _ _, _, _ => by simp only [rwIfS]; exact OkIf.throw
    | .brk, _, _ => by simp only [rwIfS]; exact OkIf.throw
    | .cont, _, _ => by simp only [rwIfS]; exact OkIf.throw
    | .fallthrough, _, _ => by simp only [rwIfS]; exact OkIf.throw
    | .ret, _, _ => by simp only [rwIfS]; exact OkIf.throw
    | .rete _, _, _ => by simp only [rwIfS]; exact OkIf.throw
    | .unknown _, _, _ => by simp only [rwIfS]; exact OkIf.throw

  theorem rwCases_scope (q : Quirks) :
      ∀ (cs : Cases), scopeOKC cs = true → OkIf (rwCases q cs) (fun r => ∀ env, obsC env r.1 = obsC env cs)
    | .nil, _ => by simp only [rwCases]; exact OkIf.pure (fun _ => rfl)
    | .cons d ks body r, hw => by
        simp only [scopeOKC, Bool.and_eq_true] at hw
        simp only [rwCases]
        refine OkIf.bind (rwStmts_scope q body _ hw.1 (ip_mk0 _)) (fun b hb => ?_)
        refine OkIf.bind (rwCases_scope q r hw.2) (fun p hp => ?_)
        refine OkIf.pure (fun env => ?_)
        have := hb env
        simp only [obsB_mk0, envB_mk0, List.nil_append] at this
        simp only [obsC, hp env]
        rw [show obsL env b.toStmts = obsB env b from rfl, this]
end

end GoCo.MG
