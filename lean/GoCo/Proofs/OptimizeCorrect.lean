/-
  The whole per-function pipeline INCLUDING the optimiser: pass0 → pass2 → pass3 → Delay elision → eta.
  * `compile_wo`: what the compiler emits is well-formed (`woL`): every combinator argument is pure.
  * `optimize_sem`: on well-formed code the optimiser preserves the semantics of every statement list.
  * `compile_optimize_correct_partial`: compile correctness (proved fragment) through the optimiser.
-/
import GoCo.Proofs.Total
import GoCo.Proofs.Optimize
import GoCo.Proofs.CompileCorrect
set_option autoImplicit false

namespace GoCo.MG
variable {σ P : Type}

/-! ### pass3 keeps the output well-formed -/

theorem woL_dropLast : ∀ (ss : Stmts), woL ss = true → woL (dropLast ss) = true
  | .nil, _ => rfl
  | .cons _ .nil, _ => rfl
  | .cons s (.cons x r), h => by
      simp only [woL, Bool.and_eq_true] at h
      simp only [dropLast, woL, Bool.and_eq_true]
      exact ⟨h.1, woL_dropLast (.cons x r) (by simp [woL, h.2.1, h.2.2])⟩

theorem rmRedundantReturn_wo (q : Quirks) (ss : Stmts) (h : woL ss = true) :
    OkIf (rmRedundantReturn q ss) (fun r => woL r = true) := by
  unfold rmRedundantReturn
  split
  · refine OkIf.bind (OkIf.triv _) (fun t _ => ?_)
    split
    · exact OkIf.pure (woL_dropLast ss h)
    · exact OkIf.pure h
  · exact OkIf.pure h

mutual
  theorem p3Stmt_wo (q : Quirks) :
      ∀ (s : Stmt) (il isw : Bool), woS s = true → OkIf (p3Stmt q il isw s) (fun r => woS r.1 = true)
    | .brk, _, _, _ => by
        simp only [p3Stmt]; refine OkIf.pure ?_; split <;> rfl
    | .cont, _, _, _ => by
        simp only [p3Stmt]; refine OkIf.pure ?_; split <;> rfl
    | .fallthrough, _, _, h => by simp [woS] at h
    | .block ss, il, isw, h => by
        simp only [woS] at h
        simp only [p3Stmt]
        exact OkIf.bind (p3Stmts_wo q ss il isw h) (fun r hr => OkIf.pure (by simpa [woS] using hr))
    | .ifs _ _ thn els, il, isw, h => by
        simp only [woS, Bool.and_eq_true] at h
        simp only [p3Stmt]
        refine OkIf.bind (p3Stmts_wo q thn il isw h.1) (fun r1 h1 => ?_)
        exact OkIf.bind (p3Else_wo q els il isw h.2) (fun r2 h2 => OkIf.pure (by simp [woS, h1, h2]))
    | .switch _ _ cases, il, _, h => by
        simp only [woS] at h
        simp only [p3Stmt]
        exact OkIf.bind (p3Cases_wo q cases il true h) (fun r hr => OkIf.pure (by simpa [woS] using hr))
    | .for_ _ _ _ body, _, isw, h => by
        simp only [woS] at h
        simp only [p3Stmt]
        exact OkIf.bind (p3Stmts_wo q body true isw h) (fun r hr => OkIf.pure (by simpa [woS] using hr))
    | .rete e, _, _, h => by
        simp only [woS] at h
        simp only [p3Stmt]
        exact OkIf.bind (p3SExp_wo q e h) (fun r hr => OkIf.pure (by simpa [woS] using hr.1))
    | .simple _, _, _, _ => by simp only [p3Stmt]; exact OkIf.pure rfl
    | .ret, _, _, _ => by simp only [p3Stmt]; exact OkIf.pure rfl
    | .unknown _, _, _, _ => by simp only [p3Stmt]; exact OkIf.pure rfl
  theorem p3Stmts_wo (q : Quirks) :
      ∀ (ss : Stmts) (il isw : Bool), woL ss = true → OkIf (p3Stmts q il isw ss) (fun r => woL r.1 = true)
    | .nil, _, _, _ => by simp only [p3Stmts]; exact OkIf.pure rfl
    | .cons s r, il, isw, h => by
        simp only [woL, Bool.and_eq_true] at h
        simp only [p3Stmts]
        refine OkIf.bind (p3Stmt_wo q s il isw h.1) (fun r1 h1 => ?_)
        exact OkIf.bind (p3Stmts_wo q r il isw h.2) (fun r2 h2 => OkIf.pure (by simp [woL, h1, h2]))
  theorem p3Else_wo (q : Quirks) :
      ∀ (e : Else) (il isw : Bool), woE e = true → OkIf (p3Else q il isw e) (fun r => woE r.1 = true)
    | .none, _, _, _ => by simp only [p3Else]; exact OkIf.pure rfl
    | .els ss, il, isw, h => by
        simp only [woE] at h
        simp only [p3Else]
        exact OkIf.bind (p3Stmts_wo q ss il isw h) (fun r hr => OkIf.pure (by simpa [woE] using hr))
    | .elif s, il, isw, h => by
        simp only [woE] at h
        simp only [p3Else]
        exact OkIf.bind (p3Stmt_wo q s il isw h) (fun r hr => OkIf.pure (by simpa [woE] using hr))
  theorem p3Cases_wo (q : Quirks) :
      ∀ (cs : Cases) (il isw : Bool), woC cs = true → OkIf (p3Cases q il isw cs) (fun r => woC r.1 = true)
    | .nil, _, _, _ => by simp only [p3Cases]; exact OkIf.pure rfl
    | .cons _ _ body r, il, isw, h => by
        simp only [woC, Bool.and_eq_true] at h
        simp only [p3Cases]
        refine OkIf.bind (p3Stmts_wo q body il isw h.1) (fun r1 h1 => ?_)
        exact OkIf.bind (p3Cases_wo q r il isw h.2) (fun r2 h2 => OkIf.pure (by simp [woC, h1, h2]))
  theorem p3SExp_wo (q : Quirks) :
      ∀ (e : SExp), woX e = true →
        OkIf (p3SExp q e) (fun r => woX r = true ∧ (pureX e = true → pureX r = true))
    | .bind e th, h => by
        simp only [woX] at h
        simp only [p3SExp]
        exact OkIf.bind (p3Thunk_wo q th h) (fun r hr => OkIf.pure ⟨by simpa [woX] using hr, fun hp => by simpa [pureX] using hp⟩)
    | .delay th, h => by
        simp only [woX] at h
        simp only [p3SExp]
        exact OkIf.bind (p3Thunk_wo q th h) (fun r hr => OkIf.pure ⟨by simpa [woX] using hr, fun _ => rfl⟩)
    | .combine a b, h => by
        simp only [woX, Bool.and_eq_true] at h
        simp only [p3SExp]
        refine OkIf.bind (p3SExp_wo q a h.1.2) (fun ra ha => ?_)
        refine OkIf.bind (p3SExp_wo q b h.2) (fun rb hb => ?_)
        exact OkIf.pure ⟨by simp [woX, ha.1, hb.1, ha.2 h.1.1.1, hb.2 h.1.1.2], fun _ => by
          simp [pureX, ha.2 h.1.1.1, hb.2 h.1.1.2]⟩
    | .loop _ _ body, h => by
        simp only [woX, Bool.and_eq_true] at h
        simp only [p3SExp]
        refine OkIf.bind (p3SExp_wo q body h.2) (fun rb hb => ?_)
        exact OkIf.pure ⟨by simp [woX, hb.1, hb.2 h.1], fun _ => by simp [pureX, hb.2 h.1]⟩
    | .start a, h => by
        simp only [woX] at h
        simp only [p3SExp]
        exact OkIf.bind (p3SExp_wo q a h) (fun r hr => OkIf.pure ⟨by simpa [woX] using hr.1, fun hp => by simp [pureX] at hp⟩)
    | .sig _, h => by simp only [p3SExp]; exact OkIf.pure ⟨h, fun hp => hp⟩
    | .unknown _, h => by simp only [p3SExp]; exact OkIf.pure ⟨h, fun hp => hp⟩
  theorem p3Thunk_wo (q : Quirks) :
      ∀ (th : Thunk), woT th = true → OkIf (p3Thunk q th) (fun r => woT r = true)
    | .lam ss, h => by
        simp only [woT] at h
        simp only [p3Thunk]
        refine OkIf.bind (p3Stmts_wo q ss false false h) (fun p hp => ?_)
        split
        · exact OkIf.bind (rmRedundantReturn_wo q _ hp) (fun r hr => OkIf.pure (by simpa [woT] using hr))
        · exact OkIf.pure (by simpa [woT] using hp)
    | .fn _, _ => by simp only [p3Thunk]; exact OkIf.pure rfl
end

/-- **compile_wo**: whatever the compiler emits for a body without `fallthrough` is well-formed output:
    no stray `fallthrough`, and every Combine / For argument is pure to construct -/
theorem compile_wo (q : Quirks) (body t : Stmts) (hs : woL body = true) (h : compile q body = .ok t) :
    woL t = true := by
  unfold compile at h
  obtain ⟨b, hb, h⟩ := bind_ok h
  obtain ⟨th, hth, h⟩ := bind_ok h
  cases pure_ok h
  have hnf : NF b := rwStmts_nf q (p0Stmts body) (Blk.mk0 .delay) (p0Stmts_nft body hs) (nf_mk0 _) b hb
  have hw := p3Thunk_wo q (.lam b.toStmts) (by simpa [woT] using nf_toStmts hnf) th hth
  simpa [woL, woS, woX, woT] using hw

/-! ### the optimiser on well-formed code -/

/-- **optimize_sem**: Delay elision followed by eta-reduction preserves the meaning of every well-formed
    statement list, for every interpretation of the atoms, store, loop budget, and for both readings of
    `Yield` (suspending / stub) -/
theorem optimize_sem (ρ : Interp σ P) (N : Nat) (susp : Bool) (ss : Stmts) (h : woL ss = true) (st : σ) :
    denL ρ N susp (optimize ss) st = denL ρ N susp ss st := by
  unfold optimize
  rw [etaStmts_sem, (odStmts_ok ρ N ss h).1 susp st]

/-- **compile_optimize_correct_partial**: the optimised output of the compiler, run as the iterator's
    thunk, is the source coroutine - on the proved fragment, through pass0, pass2, pass3, Delay elision
    and eta-reduction.  Constructing the iterator (`evalS` of Start's argument) evaluates nothing. -/
theorem compile_optimize_correct_partial (ρ : Interp σ P) (N : Nat) (q : Quirks) (body t : Stmts)
    (h : compile q body = .ok t) (hg : InFragment body = true) (hs : woL body = true) :
    ∃ e, optimize t = .cons (.rete (.start e)) .nil ∧
      ∃ run, (∀ st, evalS ρ N e st = (.ok run, st)) ∧
        ∀ st, run st = closed (denL ρ N true body st) := by
  obtain ⟨th, rfl, hsem⟩ := compile_correct_partial ρ N q body t h hg
  have hw := compile_wo q body _ hs h
  have hwx : woX (.delay th) = true := by simpa [woL, woS, woX] using hw
  obtain ⟨o1, o2, o3⟩ := odSExp_ok ρ N (.delay th) hwx
  have hp : pureX (odSExp (.delay th)) = true := o3 rfl
  -- eta keeps purity and the construction result
  refine ⟨etaSExp (odSExp (.delay th)), rfl, fun st' => denT ρ N th st', fun st => ?_, fun st => hsem st⟩
  rw [etaSExp_sem, o1 st]
  rfl

/-- for EVERY accepted body (switches included): constructing the optimised iterator evaluates nothing -/
theorem compile_optimize_construct_pure (ρ : Interp σ P) (N : Nat) (q : Quirks) (body t : Stmts)
    (h : compile q body = .ok t) (hs : woL body = true) :
    ∃ e, optimize t = .cons (.rete (.start e)) .nil ∧ ∃ run, ∀ st, evalS ρ N e st = (.ok run, st) := by
  have hw := compile_wo q body t hs h
  unfold compile at h
  obtain ⟨b, _, h⟩ := bind_ok h
  obtain ⟨th, _, h⟩ := bind_ok h
  cases pure_ok h
  have hwx : woX (.delay th) = true := by simpa [woL, woS, woX] using hw
  obtain ⟨_, _, o3⟩ := odSExp_ok ρ N (.delay th) hwx
  obtain ⟨r, hr⟩ := pure_evalS ρ N (odSExp (.delay th)) (o3 rfl)
  exact ⟨etaSExp (odSExp (.delay th)), rfl, r, fun st => by rw [etaSExp_sem]; exact hr st⟩

end GoCo.MG
