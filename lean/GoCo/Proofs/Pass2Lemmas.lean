/- Bookkeeping lemmas for the pass2 proof: shape of blocks under construction, `genLast`,
   `combineIfNecessary`, absence of `continue`, yielding-post loops. -/
import GoCo.Proofs.BlkSem
import GoCo.Compile.Guard
set_option autoImplicit false

namespace GoCo.MG
variable {σ P : Type}

theorem bind_ok {ε α β : Type} {x : Except ε α} {f : α → Except ε β} {b : β}
    (h : (x >>= f) = .ok b) : ∃ a, x = .ok a ∧ f a = .ok b := by
  cases x with
  | error e => simp [bind, Except.bind] at h
  | ok a => exact ⟨a, rfl, h⟩

theorem pure_ok {ε α : Type} {a b : α} (h : (pure a : Except ε α) = .ok b) : a = b := by
  simpa [pure, Except.pure] using h

/-- an ordinary source statement kept as it is: `Plain` outcomes, no yield node when `Yield` is the stub -/
def TrivOK (ρ : Interp σ P) (N : Nat) (s : Stmt) : Prop :=
  ∀ st, Res.All Plain (denS ρ N false s st) ∧ Res.NoY (denS ρ N false s st)

def ItemsOK (ρ : Interp σ P) (N : Nat) (b : Blk) : Prop :=
  ∀ x ∈ b.items, (x.2 = Kind.trivial → TrivOK ρ N x.1) ∧ (x.2 = Kind.normal → x.1 = .rete (.sig .normal))
    ∧ x.2 ≠ Kind.delay

/-- all statements are ordinary source statements -/
def Open (ρ : Interp σ P) (N : Nat) (b : Blk) : Prop :=
  ∀ x ∈ b.items, x.2 = Kind.trivial ∧ TrivOK ρ N x.1

/-- all statements but the last one pushed are of kind trivial -/
def ShapeA (b : Blk) : Prop := ∀ x ∈ b.items.tail, x.2 = Kind.trivial

/-- …or the last one is the implicit `return Normal()` after an if / switch / ordinary statement -/
def ShapeOK (b : Blk) : Prop :=
  ShapeA b ∨ ∃ s k rest, b.items = (Stmt.rete (.sig .normal), Kind.normal) :: (s, k) :: rest ∧
    (k = .ifk ∨ k = .switchk ∨ k = .trivial) ∧ ∀ x ∈ rest, x.2 = Kind.trivial

theorem Open.items {ρ : Interp σ P} {N : Nat} {b : Blk} (h : Open ρ N b) : ItemsOK ρ N b :=
  fun x hx => by
    refine ⟨fun _ => (h x hx).2, fun hk => ?_, ?_⟩
    · rw [(h x hx).1] at hk; cases hk
    · rw [(h x hx).1]; simp

theorem Open.shapeA {ρ : Interp σ P} {N : Nat} {b : Blk} (h : Open ρ N b) : ShapeA b :=
  fun x hx => (h x (List.mem_of_mem_tail hx)).1

theorem open_mk0 (ρ : Interp σ P) (N : Nat) (k : Kind) : Open ρ N (Blk.mk0 k) := by
  intro x hx; simp [Blk.mk0] at hx

theorem Open.openSem {ρ : Interp σ P} {N : Nat} {b : Blk} (h : Open ρ N b) : OpenSem ρ N b :=
  fun x hx => ⟨(h x hx).1, fun st => ((h x hx).2 st).1⟩

theorem Open.plain {ρ : Interp σ P} {N : Nat} {b : Blk} (h : Open ρ N b) (st : σ) :
    Res.All Plain (Dblk ρ N b st) := h.openSem.plain st

theorem Open.pushU {ρ : Interp σ P} {N : Nat} {b : Blk} (h : Open ρ N b) {s : Stmt}
    (hs : TrivOK ρ N s) : Open ρ N (b.pushU s .trivial) := by
  intro x hx
  simp only [Blk.pushU, List.mem_cons] at hx
  rcases hx with rfl | hx
  · exact ⟨rfl, hs⟩
  · exact h x hx

theorem Open.markCombined {ρ : Interp σ P} {N : Nat} {b : Blk} (h : Open ρ N b) : Open ρ N b.markCombined := h

/-- pushing any statement on an open block -/
theorem Open.items_pushU {ρ : Interp σ P} {N : Nat} {b : Blk} (h : Open ρ N b) (s : Stmt) (k : Kind)
    (hk : (k = Kind.trivial → TrivOK ρ N s) ∧ (k = Kind.normal → s = .rete (.sig .normal)) ∧ k ≠ Kind.delay) :
    ItemsOK ρ N (b.pushU s k) ∧ ShapeA (b.pushU s k) := by
  refine ⟨fun x hx => ?_, fun x hx => ?_⟩
  · simp only [Blk.pushU, List.mem_cons] at hx
    rcases hx with rfl | hx
    · exact hk
    · exact h.items x hx
  · simp only [Blk.pushU, List.tail_cons] at hx
    exact (h x hx).1

theorem push_ok {b b' : Blk} {s : Stmt} {k : Kind} (h : b.push s k = .ok b') : b' = b.pushU s k := by
  simp only [Blk.push, Blk.checkPush] at h
  split at h
  · exact (pure_ok h).symm
  · simp [bind, Except.bind] at h

theorem pushReturn_ok {b b' : Blk} {e : SExp} {k : Kind} (h : b.pushReturn e k = .ok b') :
    b' = b.pushReturnU e k := by
  simp only [Blk.pushReturn, Blk.checkPush] at h
  split at h
  · exact (pure_ok h).symm
  · simp [bind, Except.bind] at h

theorem items_pushReturnU (b : Blk) (e : SExp) (k : Kind) :
    (b.pushReturnU e k).items = (.rete e, k) :: b.items := rfl

theorem Dblk_frozen (ρ : Interp σ P) (N : Nat) (b : Blk) (f c : Bool) (st : σ) :
    Dblk ρ N { b with frozen := f, combineChecked := c } st = Dblk ρ N b st := rfl

/-! ### a block judged yield-free runs without reaching a yield -/

theorem denL_ofList_noY (ρ : Interp σ P) (N : Nat) (l : List Stmt)
    (h : ∀ s ∈ l, ∀ st, Res.NoY (denS ρ N false s st)) (st : σ) :
    Res.NoY (denL ρ N false (Stmts.ofList l) st) := by
  induction l generalizing st with
  | nil => exact .done
  | cons s r ih =>
    simp only [Stmts.ofList, denL]
    have hs := h s (by simp) st
    cases hr : denS ρ N false s st with
    | done o st' =>
      simp only [Res.bind]
      by_cases hf : o = .fall
      · simp only [hf, if_true]; exact ih (fun s' hs' => h s' (by simp [hs'])) st'
      · simp only [hf, if_false]; exact .done
    | yield v st' r' => rw [hr] at hs; cases hs
    | panic p st' => exact .panic
    | oob => exact .oob

theorem mustNoYield_kinds {b : Blk} (hs : ShapeOK b) (hi : ∀ x ∈ b.items, x.2 ≠ Kind.delay)
    (hm : b.mustNoYield = true) : ∀ x ∈ b.items, x.2 = Kind.trivial ∨ x.2 = Kind.normal := by
  unfold Blk.mustNoYield Blk.mayContainsYield at hm
  cases hit : b.items with
  | nil => intro x hx; simp at hx
  | cons hd tl =>
    rw [hit] at hm
    obtain ⟨s0, k0⟩ := hd
    simp only at hm
    by_cases hk0 : k0 = .yieldk ∨ k0 = .fork ∨ k0 = .combine
    · rw [if_pos hk0] at hm; simp at hm
    · rw [if_neg hk0] at hm
      have hany : ∀ x ∈ (s0, k0) :: tl, ¬ (x.2 = .ifk ∨ x.2 = .switchk) := by
        intro x hx hh
        have : (((s0, k0) :: tl).any fun x => decide (x.2 = Kind.ifk ∨ x.2 = Kind.switchk)) = true := by
          rw [List.any_eq_true]; exact ⟨x, hx, by simpa using hh⟩
        rw [this] at hm; simp at hm
      intro x hx
      rcases hs with ha | ⟨s, k, rest, hitems, hk, hrest⟩
      · simp only [List.mem_cons] at hx
        rcases hx with rfl | hx
        · have h1 := hany (s0, k0) (by simp)
          have h2 : k0 ≠ Kind.delay := hi (s0, k0) (by rw [hit]; simp)
          simp only [not_or] at hk0 h1
          cases k0 <;> simp_all
        · exact .inl (ha x (by rw [hit]; exact hx))
      · rw [hit] at hitems
        injection hitems with h1 h2
        injection h1 with h1a h1b
        subst h1a h1b h2
        simp only [List.mem_cons] at hx
        rcases hx with rfl | rfl | hx
        · exact .inr rfl
        · have := hany (s, k) (by simp)
          rcases hk with rfl | rfl | rfl <;> simp_all
        · exact .inl (hrest x hx)

theorem mustNoYield_noY {ρ : Interp σ P} {N : Nat} {b : Blk} (hi : ItemsOK ρ N b) (hs : ShapeOK b)
    (hm : b.mustNoYield = true) (st : σ) : Res.NoY (Dblk ρ N b st) := by
  have hk := mustNoYield_kinds hs (fun x hx => (hi x hx).2.2) hm
  apply denL_ofList_noY
  intro s hsm st'
  simp only [List.mem_map, List.mem_reverse] at hsm
  obtain ⟨x, hx, rfl⟩ := hsm
  rcases hk x hx with h | h
  · exact (((hi x hx).1 h) st').2
  · rw [(hi x hx).2.1 h]; simp only [denS, evalS, Res.bind]; exact .done

/-! ### generateLastNormalIfNecessary -/

theorem genLast_spec {ρ : Interp σ P} {N : Nat} {q : Quirks} {b b' : Blk} (h : genLast q b = .ok b')
    (hi : ItemsOK ρ N b) (hs : ShapeOK b) :
    ItemsOK ρ N b' ∧ ShapeOK b' ∧ ∀ st, closed (Dblk ρ N b' st) = closed (Dblk ρ N b st) := by
  unfold genLast at h
  obtain ⟨req, hreq, h⟩ := bind_ok h
  cases req with
  | false => simp only [Bool.false_eq_true, if_false] at h; cases pure_ok h; exact ⟨hi, hs, fun _ => rfl⟩
  | true =>
    simp only [if_true] at h
    have hb' := pushReturn_ok h
    subst hb'
    refine ⟨?_, ?_, ?_⟩
    · intro x hx
      rw [items_pushReturnU] at hx
      simp only [List.mem_cons] at hx
      rcases hx with rfl | hx
      · refine ⟨fun hk => ?_, fun _ => rfl, ?_⟩
        · cases hk
        · simp
      · exact hi x hx
    · -- shape: the statement before the appended Normal is if / switch / trivial
      unfold returnNormalRequired at hreq
      split at hreq
      · cases hreq
      · cases hit : b.items with
        | nil => left; intro x hx; simp [items_pushReturnU, Blk.markCombined, hit] at hx
        | cons hd tl =>
          obtain ⟨s0, k0⟩ := hd
          rw [hit] at hreq
          simp only at hreq
          right
          have hk : k0 = .ifk ∨ k0 = .switchk ∨ k0 = .trivial := by
            by_cases hk : k0 = .ifk ∨ k0 = .switchk ∨ k0 = .trivial
            · exact hk
            · rw [if_neg hk] at hreq; cases hreq
          refine ⟨s0, k0, tl, by simp [items_pushReturnU, Blk.markCombined, hit], hk, ?_⟩
          rcases hs with ha | ⟨s, k, rest, hitems, _, _⟩
          · intro x hx; exact ha x (by rw [hit]; exact hx)
          · rw [hit] at hitems
            injection hitems with h1 _
            injection h1 with _ h1b
            subst h1b
            rcases hk with hk | hk | hk <;> cases hk
    · intro st
      rw [Dblk_pushReturnU]
      have : (fun st' => denS ρ N false (.rete (.sig .normal)) st') = fun st' => (.done (.exit .normal) st' : Res Flow σ P) := by
        funext st'; simp [denS, evalS, Res.bind]
      rw [this]
      exact closed_thenF_exitNormal _

end GoCo.MG

namespace GoCo.MG
variable {σ P : Type}

/-! ### combineIfNecessary -/

theorem Dblk_cons_item (ρ : Interp σ P) (N : Nat) (b : Blk) (s : Stmt) (k : Kind) (rest : List (Stmt × Kind))
    (hit : b.items = (s, k) :: rest) (st : σ) :
    Dblk ρ N b st = thenF (Dblk ρ N { b with items := rest } st) (fun st' => denS ρ N false s st') := by
  simp only [Dblk, Blk.toStmts, hit, List.reverse_cons, List.map_append, List.map_cons, List.map_nil,
    ofList_snoc, denL_snoc]

theorem Dblk_congr (ρ : Interp σ P) (N : Nat) {b b' : Blk} (h : b.items = b'.items) (st : σ) :
    Dblk ρ N b st = Dblk ρ N b' st := by
  simp only [Dblk, Blk.toStmts, h]

/-- what `plug` does to a finished nested block, for one frame on an open block -/
theorem plug_combF_spec {ρ : Interp σ P} {N : Nat} {popped current fin : Blk} (hp : Open ρ N popped) (st : σ) :
    closed (Dblk ρ N (plug [.combF popped current] fin) st) =
      seqN (Dblk ρ N popped st) (fun st' => seqN (Dblk ρ N current st') (fun st'' => closed (Dblk ρ N fin st''))) := by
  simp only [plug, List.foldl, plug1, Dblk_pushReturnU]
  rw [closed_thenF (hp.plain st)]
  congr; funext st'
  exact closed_rete_combine ρ N false _ _ st'

theorem plug_bindF_spec {ρ : Interp σ P} {N : Nat} {cur fin : Blk} {e : VExp} (hp : Open ρ N cur) (st : σ) :
    closed (Dblk ρ N (plug [.bindF cur e] fin) st) =
      seqN (Dblk ρ N cur st) (fun st' => seqN (denSimple ρ true (.yield e) st') (fun st'' => closed (Dblk ρ N fin st''))) := by
  simp only [plug, List.foldl, plug1, Dblk_pushReturnU]
  rw [closed_thenF (hp.plain st)]
  congr; funext st'
  rw [closed_rete_bind, seqN_yield]
  rfl

theorem plug_frame_items {ρ : Interp σ P} {N : Nat} (f : Frame) (fin : Blk)
    (hf : match f with | .bindF cur _ => Open ρ N cur | .combF cur _ => Open ρ N cur) :
    ItemsOK ρ N (plug1 fin f) ∧ ShapeA (plug1 fin f) := by
  cases f with
  | bindF cur e =>
    refine hf.items_pushU _ .yieldk ⟨fun h => ?_, fun h => ?_, ?_⟩
    · cases h
    · cases h
    · simp
  | combF cur first =>
    refine hf.items_pushU _ .combine ⟨fun h => ?_, fun h => ?_, ?_⟩
    · cases h
    · cases h
    · simp

theorem comb_spec {ρ : Interp σ P} {N : Nat} {q : Quirks} {b b2 : Blk} {fr : List Frame}
    (h : combineIfNecessary q b = .ok (b2, fr)) (hi : ItemsOK ρ N b) (hs : ShapeA b) :
    Open ρ N b2 ∧
    (∀ fin, ItemsOK ρ N fin → ShapeOK fin → ItemsOK ρ N (plug fr fin) ∧ ShapeOK (plug fr fin)) ∧
    ∀ (fin : Blk) (K' : σ → Res Sig σ P), (∀ st, closed (Dblk ρ N fin st) = seqN (Dblk ρ N b2 st) K') →
      ∀ st, closed (Dblk ρ N (plug fr fin) st) = seqN (Dblk ρ N b st) K' := by
  unfold combineIfNecessary at h
  simp only [Blk.markCombined] at h
  cases hit : b.items with
  | nil =>
    rw [hit] at h; simp only at h
    cases pure_ok h
    refine ⟨fun x hx => by simp at hx, fun fin h1 h2 => ⟨h1, h2⟩, fun fin K' hf st => ?_⟩
    rw [show plug [] fin = fin from rfl, hf]
    rw [Dblk_congr ρ N (b' := b) (by simp [hit])]
  | cons hd tl =>
    obtain ⟨s, k⟩ := hd
    rw [hit] at h; simp only at h
    by_cases hk : k = .trivial
    · rw [if_pos hk] at h
      cases pure_ok h
      refine ⟨?_, fun fin h1 h2 => ⟨h1, h2⟩, fun fin K' hf st => ?_⟩
      · intro x hx
        simp only [List.mem_cons] at hx
        rcases hx with rfl | hx
        · exact ⟨hk, (hi (s, k) (by rw [hit]; simp)).1 hk⟩
        · have hxt : x.2 = Kind.trivial := hs x (by rw [hit]; exact hx)
          exact ⟨hxt, (hi x (by rw [hit]; simp [hx])).1 hxt⟩
      · rw [show plug [] fin = fin from rfl, hf]
        rw [Dblk_congr ρ N (b' := b) (by simp [hit])]
    · rw [if_neg hk] at h
      obtain ⟨current, hcur, h⟩ := bind_ok h
      obtain ⟨current', hcur', h⟩ := bind_ok h
      obtain ⟨_, _, h⟩ := bind_ok h
      cases pure_ok h
      have hc := push_ok hcur
      subst hc
      have hpo : Open ρ N { b with items := tl, frozen := false, combineChecked := true } := by
        intro x hx
        have hxt : x.2 = Kind.trivial := hs x (by rw [hit]; exact hx)
        exact ⟨hxt, (hi x (by rw [hit]; simp [show x ∈ tl from hx])).1 hxt⟩
      have hci : ItemsOK ρ N ((Blk.mk0 .delay).pushU s k) := by
        intro x hx
        simp only [Blk.pushU, Blk.mk0, List.mem_cons, List.not_mem_nil, or_false] at hx
        subst hx
        exact hi (s, k) (by rw [hit]; simp)
      have hcs : ShapeA ((Blk.mk0 .delay).pushU s k) := by
        intro x hx; simp [Blk.pushU, Blk.mk0] at hx
      obtain ⟨_, _, hgl⟩ := genLast_spec (ρ := ρ) (N := N) hcur' hci (.inl hcs)
      refine ⟨open_mk0 ρ N .delay, fun fin _ _ => ?_, fun fin K' hf st => ?_⟩
      · have := plug_frame_items (ρ := ρ) (N := N) (.combF _ current') fin hpo
        exact ⟨this.1, .inl this.2⟩
      · rw [plug_combF_spec hpo]
        rw [Dblk_cons_item ρ N b s k tl hit, seqN_thenF]
        · rw [Dblk_congr ρ N (b := { b with items := tl }) (b' := { b with items := tl, frozen := false, combineChecked := true }) rfl]
          congr 1; funext st'
          have e1 : (fun st'' => closed (Dblk ρ N fin st'')) = K' := by
            funext st''; rw [hf, Dblk_mk0, seqN_done_fall]
          rw [e1]
          apply seqN_congr_closed
          rw [hgl, Dblk_pushU, Dblk_mk0]
          simp [thenF, Res.bind]
        · rw [Dblk_congr ρ N (b := { b with items := tl }) (b' := { b with items := tl, frozen := false, combineChecked := true }) rfl]
          exact (hpo.plain st)

/-! ### `continue` that would skip a yielding post statement (finding D6) is excluded by the guard -/

theorem loopF_noCont (cond : σ → Except P Bool × σ) (post body : σ → Res Flow σ P)
    (hp : ∀ st, Res.All (fun o => o ≠ Flow.ncont) (post st)) :
    ∀ n st, Res.All (fun o => o ≠ Flow.ncont) (loopF cond post body n st) := by
  intro n
  induction n with
  | zero => intro st; exact .oob
  | succ n ih =>
    intro st
    simp only [loopF]
    rcases cond st with ⟨_ | b, st1⟩
    · exact .panic
    · cases b
      · exact .done (by simp)
      · refine (Res.all_true (body st1)).bind fun o st2 _ => ?_
        cases o with
        | fall =>
          refine (hp st2).bind fun o' st3 ho' => ?_
          by_cases h : o' = .fall
          · simp only [h, if_true]; exact ih st3
          · simp only [h, if_false]; exact .done ho'
        | ncont =>
          refine (hp st2).bind fun o' st3 ho' => ?_
          by_cases h : o' = .fall
          · simp only [h, if_true]; exact ih st3
          · simp only [h, if_false]; exact .done ho'
        | nbrk => exact .done (by simp)
        | nft => exact .done (by simp)
        | exit s => exact .done (by simp)

mutual
  theorem suppS_noCont (ρ : Interp σ P) (N : Nat) (susp : Bool) (bb : Bool) :
      ∀ (s : Stmt), supportedS true bb s = true → fragS s = true →
        ∀ st, Res.All (fun o => o ≠ Flow.ncont) (denS ρ N susp s st)
    | .simple s, _, _, st => (denSimple_fallOnly ρ susp s st).mono fun o (h : o = Flow.fall) => by simp [h]
    | .block ss, h, hf, st => by
        simp only [supportedS] at h; simp only [fragS] at hf; simp only [denS]
        exact suppL_noCont ρ N susp bb ss h hf st
    | .ifs init c thn els, h, hf, st => by
        simp only [supportedS, Bool.and_eq_true] at h
        simp only [fragS, Bool.and_eq_true] at hf
        simp only [denS]
        refine (Res.all_true _).bind fun _ st1 _ => ?_
        rcases ρ.cond c.n st1 with ⟨_ | b, st2⟩
        · exact .panic
        · cases b
          · exact suppE_noCont ρ N susp bb els h.2 hf.2 st2
          · exact suppL_noCont ρ N susp bb thn h.1 hf.1.2 st2
    | .for_ init cond post body, _, _, st => by
        simp only [denS]
        refine (Res.all_true _).bind fun _ st1 _ => ?_
        exact loopF_noCont _ _ _
          (fun st => (denInit_fallOnly ρ susp post st).mono fun o (h : o = Flow.fall) => by simp [h]) N st1
    | .brk, _, _, st => .done (by simp)
    | .cont, h, _, _ => by simp [supportedS] at h
    | .rete e, _, _, st => by
        simp only [denS]
        rcases evalS ρ N e st with ⟨_ | run, st'⟩
        · exact .panic
        · exact (Res.all_true _).bind fun _ _ _ => .done (by simp)
    | .switch init tag cases, h, hf, st => by
        simp only [supportedS] at h
        simp only [fragS, Bool.and_eq_true] at hf
        exact switch_all (fun o => o ≠ Flow.ncont) (by simp) ρ N susp init tag cases
          (fun i st => (suppC_noCont ρ N susp _ cases h hf.2 i st).mono fun o ho _ => ho) st
    | .fallthrough, _, hf, _ => by simp [fragS] at hf
    | .ret, _, hf, _ => by simp [fragS] at hf
    | .unknown _, _, hf, _ => by simp [fragS] at hf
  theorem suppL_noCont (ρ : Interp σ P) (N : Nat) (susp : Bool) (bb : Bool) :
      ∀ (ss : Stmts), supportedL true bb ss = true → fragL ss = true →
        ∀ st, Res.All (fun o => o ≠ Flow.ncont) (denL ρ N susp ss st)
    | .nil, _, _, st => .done (by simp)
    | .cons s r, h, hf, st => by
        simp only [supportedL, Bool.and_eq_true] at h
        simp only [fragL, Bool.and_eq_true] at hf
        simp only [denL]
        refine (suppS_noCont ρ N susp bb s h.1 hf.1 st).bind fun o st' ho => ?_
        by_cases hfall : o = .fall
        · simp only [hfall, if_true]; exact suppL_noCont ρ N susp bb r h.2 hf.2 st'
        · simp only [hfall, if_false]; exact .done ho
  theorem suppE_noCont (ρ : Interp σ P) (N : Nat) (susp : Bool) (bb : Bool) :
      ∀ (e : Else), supportedE true bb e = true → fragE e = true →
        ∀ st, Res.All (fun o => o ≠ Flow.ncont) (denElse ρ N susp e st)
    | .none, _, _, st => .done (by simp)
    | .els ss, h, hf, st => by
        simp only [supportedE] at h; simp only [fragE] at hf; simp only [denElse]
        exact suppL_noCont ρ N susp bb ss h hf st
    | .elif s, h, hf, st => by
        simp only [supportedE] at h; simp only [fragE] at hf; simp only [denElse]
        exact suppS_noCont ρ N susp bb s h hf st
  theorem suppC_noCont (ρ : Interp σ P) (N : Nat) (susp : Bool) (bb : Bool) :
      ∀ (cs : Cases), supportedC true bb cs = true → fragC cs = true →
        ∀ (i : Nat) st, Res.All (fun o => o ≠ Flow.ncont) (denFrom ρ N susp cs i st)
    | .nil, _, _, _, st => .done (by simp)
    | .cons _ _ body r, h, hf, 0, st => by
        simp only [supportedC, Bool.and_eq_true] at h
        simp only [fragC, Bool.and_eq_true] at hf
        simp only [denFrom]
        refine (suppL_noCont ρ N susp bb body h.1 hf.1 st).bind fun o st' ho => ?_
        by_cases hn : o = .nft
        · simp only [hn, if_true]; exact suppC_noCont ρ N susp bb r h.2 hf.2 0 st'
        · simp only [hn, if_false]; exact .done ho
    | .cons _ _ _ r, h, hf, i+1, st => by
        simp only [supportedC, Bool.and_eq_true] at h
        simp only [fragC, Bool.and_eq_true] at hf
        simp only [denFrom]
        exact suppC_noCont ρ N susp bb r h.2 hf.2 i st
end

theorem loopF_noY_intro (cond : σ → Except P Bool × σ) (post body : σ → Res Flow σ P)
    (hp : ∀ st, Res.NoY (post st)) (hb : ∀ st, Res.NoY (body st)) :
    ∀ n st, Res.NoY (loopF cond post body n st) := by
  intro n
  induction n with
  | zero => intro st; exact .oob
  | succ n ih =>
    intro st
    simp only [loopF]
    rcases cond st with ⟨_ | b, st1⟩
    · exact .panic
    · cases b
      · exact .done
      · simp only
        rw [Res.NoY.bind_iff]
        refine ⟨hb st1, fun o st2 _ => ?_⟩
        cases o with
        | fall =>
          simp only; rw [Res.NoY.bind_iff]
          refine ⟨hp st2, fun o' st3 _ => ?_⟩
          by_cases h : o' = .fall
          · simp only [h, if_true]; exact ih st3
          · simp only [h, if_false]; exact .done
        | ncont =>
          simp only; rw [Res.NoY.bind_iff]
          refine ⟨hp st2, fun o' st3 _ => ?_⟩
          by_cases h : o' = .fall
          · simp only [h, if_true]; exact ih st3
          · simp only [h, if_false]; exact .done
        | nbrk => exact .done
        | nft => exact .done
        | exit s => exact .done

/-- a source loop whose post statement yields: the generated loop has no post and its body thunk
    runs "body; post" - correct when the body cannot `continue` -/
theorem loop_closed_ypost (cond : σ → Except P Bool × σ) (postY body : σ → Res Flow σ P)
    (hpost : ∀ st, Res.All (fun o => o = Flow.fall) (postY st))
    (hbody : ∀ st, Res.All (fun o => SrcOut o ∧ o ≠ Flow.ncont) (body st)) :
    ∀ n st, closed (loopF cond postY body n st)
      = loopC cond (fun st' => .done .fall st')
          (fun st' => seqN (body st') (fun st'' => closed (postY st''))) n true st := by
  intro n
  induction n with
  | zero => intro st; simp only [loopF, loopC, closed, Res.bind, if_true]
  | succ n ih =>
    intro st
    simp only [loopF, loopC, if_true, Res.bind]
    rcases cond st with ⟨_ | b, st1⟩
    · rfl
    · cases b
      · rfl
      · simp only [closed_bind, seqN]
        rw [show closed (body st1) = (body st1).bind closeThunk from rfl, Res.bind_assoc, Res.bind_assoc]
        refine Res.bind_congr (hbody st1) fun o st2 ho => ?_
        obtain ⟨hsrc, hnc⟩ := ho
        rcases hsrc with rfl | rfl | rfl | rfl
        · simp only [closeThunk, Res.bind, if_true, closed_bind]
          rw [show closed (postY st2) = (postY st2).bind closeThunk from rfl, Res.bind_assoc]
          refine Res.bind_congr (hpost st2) fun o' st3 ho' => ?_
          subst ho'
          simp only [if_true, closeThunk, Res.bind, loopC_false]
          exact ih st3
        · simp [closeThunk, Res.bind, closed]
        · exact absurd rfl hnc
        · simp [closeThunk, Res.bind, closed]

end GoCo.MG
