/-
  The generated code builds, as far as control flow decides it (C11, second half): every function literal
  the rewriter emits ends in a terminating statement ("missing return" otherwise), and no break / continue /
  fallthrough is left outside a native loop / switch.  `Buildable` (GoCo/Compile/Guard.lean) is the model of
  that part of go/types' judgement; here: `compile` produces `Buildable` output for every body of the grammar.

  Part 1: pure (Bool) versions of the termination checker, the "terminating after pass3" predicate `tj*`,
  and pass3.
-/
import GoCo.Compile.Guard
import GoCo.Proofs.Total
import GoCo.Proofs.Scope
import GoCo.Proofs.Pass2Lemmas
set_option autoImplicit false

namespace GoCo.MG
open GoCo

/-! ### the termination checker as total functions -/

mutual
  def hbS : Stmt → Bool
    | .brk => true
    | .block ss => hbL ss
    | .ifs _ _ thn els => hbL thn || hbE els
    | _ => false
  def hbL : Stmts → Bool
    | .nil => false
    | .cons s r => hbS s || hbL r
  def hbE : Else → Bool
    | .none => false
    | .els ss => hbL ss
    | .elif s => hbS s
end

mutual
  theorem hasBreak_eq (q : Quirks) (hq : q.hasBreakPanicsOnUnlabelled = false) :
      ∀ s : Stmt, hasBreak q s = .ok (hbS s)
    | .brk => by simp [hasBreak, hq, hbS]; rfl
    | .block ss => by simp only [hasBreak, hbS]; exact hasBreakList_eq q hq ss
    | .ifs _ _ thn els => by
        simp only [hasBreak, hbS, hasBreakList_eq q hq thn]
        show (if hbL thn = true then pure true else hasBreakElse q els) = _
        cases h : hbL thn with
        | true => rfl
        | false => simp [hasBreakElse_eq q hq els]
    | .simple _ => rfl
    | .switch _ _ _ => rfl
    | .for_ _ _ _ _ => rfl
    | .cont => rfl
    | .fallthrough => rfl
    | .ret => rfl
    | .rete _ => rfl
    | .unknown _ => rfl
  theorem hasBreakList_eq (q : Quirks) (hq : q.hasBreakPanicsOnUnlabelled = false) :
      ∀ ss : Stmts, hasBreakList q ss = .ok (hbL ss)
    | .nil => rfl
    | .cons s r => by
        simp only [hasBreakList, hbL, hasBreak_eq q hq s]
        show (if hbS s = true then pure true else hasBreakList q r) = _
        cases h : hbS s with
        | true => rfl
        | false => simp [hasBreakList_eq q hq r]
  theorem hasBreakElse_eq (q : Quirks) (hq : q.hasBreakPanicsOnUnlabelled = false) :
      ∀ e : Else, hasBreakElse q e = .ok (hbE e)
    | .none => rfl
    | .els ss => by simp only [hasBreakElse, hbE]; exact hasBreakList_eq q hq ss
    | .elif s => by simp only [hasBreakElse, hbE]; exact hasBreak_eq q hq s
end

def isEmptyStmt : Stmt → Bool
  | .simple .empty => true
  | _ => false

mutual
  def itS : Stmt → Bool
    | .simple (.bpanic _) => true
    | .simple _ => false
    | .ret => true
    | .rete _ => true
    | .fallthrough => true
    | .brk => false
    | .cont => false
    | .block ss => itL ss
    | .ifs _ _ thn els => itL thn && itE els
    | .switch _ _ cases => itSw cases false
    | .for_ _ cond _ body => cond.isNone && !hbL body
    | .unknown _ => false
  def itE : Else → Bool
    | .none => false
    | .els ss => itL ss
    | .elif s => itS s
  def itL : Stmts → Bool
    | .nil => false
    | .cons s r => if allEmpty r then (!isEmptyStmt s && itS s) else itL r
  def itSw : Cases → Bool → Bool
    | .nil, hd => hd
    | .cons dflt _ body r, hd => itL body && !hbL body && itSw r (hd || dflt)
end

theorem bind_ok_eq {ε α β : Type} {x : Except ε α} {a : α} (f : α → Except ε β) (h : x = .ok a) :
    (x >>= f) = f a := by rw [h]; rfl

mutual
  theorem isTerminating_eq (q : Quirks) (hq : q.hasBreakPanicsOnUnlabelled = false) :
      ∀ s : Stmt, isTerminating q s = .ok (itS s)
    | .simple (.bpanic _) => rfl
    | .simple (.act _) => rfl
    | .simple (.pact _) => rfl
    | .simple (.def_ _) => rfl
    | .simple (.yield _) => rfl
    | .simple .empty => rfl
    | .ret => rfl
    | .rete _ => rfl
    | .fallthrough => rfl
    | .brk => rfl
    | .cont => rfl
    | .unknown _ => rfl
    | .block ss => by simp only [isTerminating, itS]; exact isTerminatingList_eq q hq ss
    | .ifs _ _ thn .none => by simp [isTerminating, itS, itE]; rfl
    | .ifs _ _ thn (.els ss) => by
        simp only [isTerminating, itS, itE, isTerminatingList_eq q hq thn]
        show (if itL thn = true then isTerminatingList q ss else pure false) = _
        cases h : itL thn with
        | true => simp [isTerminatingList_eq q hq ss]
        | false => rfl
    | .ifs _ _ thn (.elif s) => by
        simp only [isTerminating, itS, itE, isTerminatingList_eq q hq thn]
        show (if itL thn = true then isTerminating q s else pure false) = _
        cases h : itL thn with
        | true => simp [isTerminating_eq q hq s]
        | false => rfl
    | .switch _ _ cases => by simp only [isTerminating, itS]; exact isTerminatingSwitch_eq q hq cases false
    | .for_ _ (some _) _ body => rfl
    | .for_ _ none _ body => by
        simp only [isTerminating, itS, hasBreakList_eq q hq body]
        rfl
  theorem isTerminatingList_eq (q : Quirks) (hq : q.hasBreakPanicsOnUnlabelled = false) :
      ∀ ss : Stmts, isTerminatingList q ss = .ok (itL ss)
    | .nil => rfl
    | .cons s r => by
        simp only [isTerminatingList, itL]
        split
        · split
          · rfl
          · rename_i hne
            rw [isTerminating_eq q hq s]
            have : isEmptyStmt s = false := by
              cases s with
              | simple x => cases x <;> first | rfl | exact absurd rfl (hne)
              | _ => rfl
            simp [this]
        · exact isTerminatingList_eq q hq r
  theorem isTerminatingSwitch_eq (q : Quirks) (hq : q.hasBreakPanicsOnUnlabelled = false) :
      ∀ (cs : Cases) (d : Bool), isTerminatingSwitch q cs d = .ok (itSw cs d)
    | .nil, d => rfl
    | .cons dflt _ body r, d => by
        simp only [isTerminatingSwitch, itSw, isTerminatingList_eq q hq body, hasBreakList_eq q hq body]
        show (if (!itL body) = true then pure false
              else if hbL body = true then pure false else isTerminatingSwitch q r (d || dflt)) = _
        cases h1 : itL body with
        | false => rfl
        | true =>
          cases h2 : hbL body with
          | true => rfl
          | false => simp [isTerminatingSwitch_eq q hq r]
end

end GoCo.MG

namespace GoCo.MG
open GoCo

/-! ### "terminating once pass3 has run": a break / continue that is not inside a native loop / switch
    becomes `return seq.Break()` / `return seq.Continue()` -/

mutual
  def tjS (il isw : Bool) : Stmt → Bool
    | .brk => !(il || isw)
    | .cont => !il
    | .simple (.bpanic _) => true
    | .simple _ => false
    | .ret => true
    | .rete _ => true
    | .fallthrough => true
    | .block ss => tjL il isw ss
    | .ifs _ _ thn els => tjL il isw thn && tjE il isw els
    | .switch _ _ cases => tjSw il cases false
    | .for_ _ cond _ body => cond.isNone && !hbL body
    | .unknown _ => false
  def tjE (il isw : Bool) : Else → Bool
    | .none => false
    | .els ss => tjL il isw ss
    | .elif s => tjS il isw s
  def tjL (il isw : Bool) : Stmts → Bool
    | .nil => false
    | .cons s r => if allEmpty r then (!isEmptyStmt s && tjS il isw s) else tjL il isw r
  def tjSw (il : Bool) : Cases → Bool → Bool
    | .nil, hd => hd
    | .cons dflt _ body r, hd => tjL il true body && !hbL body && tjSw il r (hd || dflt)
end

/- what the termination checker accepts before pass3 stays terminating after it -/
mutual
  theorem tjS_of_it (il isw : Bool) : ∀ s : Stmt, itS s = true → tjS il isw s = true
    | .simple (.bpanic _), _ => rfl
    | .simple (.act _), h => by cases h
    | .simple (.pact _), h => by cases h
    | .simple (.def_ _), h => by cases h
    | .simple (.yield _), h => by cases h
    | .simple .empty, h => by cases h
    | .ret, _ => rfl
    | .rete _, _ => rfl
    | .fallthrough, _ => rfl
    | .brk, h => by cases h
    | .cont, h => by cases h
    | .unknown _, h => by cases h
    | .block ss, h => by simp only [itS] at h; simpa [tjS] using tjL_of_it il isw ss h
    | .ifs _ _ thn els, h => by
        simp only [itS, Bool.and_eq_true] at h
        simp only [tjS, Bool.and_eq_true]
        exact ⟨tjL_of_it il isw thn h.1, tjE_of_it il isw els h.2⟩
    | .switch _ _ cases, h => by simp only [itS] at h; simpa [tjS] using tjSw_of_it il cases false h
    | .for_ _ _ _ _, h => by simpa [itS, tjS] using h
  theorem tjE_of_it (il isw : Bool) : ∀ e : Else, itE e = true → tjE il isw e = true
    | .none, h => by cases h
    | .els ss, h => by simp only [itE] at h; simpa [tjE] using tjL_of_it il isw ss h
    | .elif s, h => by simp only [itE] at h; simpa [tjE] using tjS_of_it il isw s h
  theorem tjL_of_it (il isw : Bool) : ∀ ss : Stmts, itL ss = true → tjL il isw ss = true
    | .nil, h => by cases h
    | .cons s r, h => by
        simp only [itL] at h
        simp only [tjL]
        split
        · rename_i he
          rw [if_pos he] at h
          simp only [Bool.and_eq_true] at h ⊢
          exact ⟨h.1, tjS_of_it il isw s h.2⟩
        · rename_i he
          rw [if_neg he] at h
          exact tjL_of_it il isw r h
  theorem tjSw_of_it (il : Bool) : ∀ (cs : Cases) (hd : Bool), itSw cs hd = true → tjSw il cs hd = true
    | .nil, _, h => h
    | .cons dflt _ body r, hd, h => by
        simp only [itSw, Bool.and_eq_true] at h
        simp only [tjSw, Bool.and_eq_true]
        exact ⟨⟨tjL_of_it il true body h.1.1, h.1.2⟩, tjSw_of_it il r _ h.2⟩
end

/-! ### the pre-pass3 side of `Buildable`: no `return nil`, nothing unrecognised, and every function
    literal ends in a statement that is terminating once pass3 has run -/

mutual
  def pbS : Stmt → Bool
    | .ret => false
    | .unknown _ => false
    | .block ss => pbL ss
    | .ifs _ _ thn els => pbL thn && pbE els
    | .switch _ _ cases => pbC cases
    | .for_ _ _ _ body => pbL body
    | .rete e => pbX e
    | _ => true
  def pbL : Stmts → Bool
    | .nil => true
    | .cons s r => pbS s && pbL r
  def pbE : Else → Bool
    | .none => true
    | .els ss => pbL ss
    | .elif s => pbS s
  def pbC : Cases → Bool
    | .nil => true
    | .cons _ _ body r => pbL body && pbC r
  def pbX : SExp → Bool
    | .bind _ th => pbT th
    | .delay th => pbT th
    | .combine a b => pbX a && pbX b
    | .loop _ _ body => pbX body
    | .start a => pbX a
    | .sig _ => true
    | .unknown _ => false
  def pbT : Thunk → Bool
    | .lam ss => tjL false false ss && pbL ss
    | .fn _ => true
end

theorem allEmpty_dropLast : ∀ ss : Stmts, allEmpty ss = true → allEmpty (dropLast ss) = true
  | .nil, _ => rfl
  | .cons _ .nil, _ => rfl
  | .cons s (.cons x r), h => by
      cases s with
      | simple y =>
        cases y with
        | empty => simp only [allEmpty] at h; simpa [dropLast, allEmpty] using allEmpty_dropLast (.cons x r) h
        | _ => simp [allEmpty] at h
      | _ => simp [allEmpty] at h

theorem buildableL_dropLast (il isw : Bool) : ∀ ss : Stmts, buildableL il isw ss = true →
    buildableL il isw (dropLast ss) = true
  | .nil, _ => rfl
  | .cons _ .nil, _ => rfl
  | .cons s (.cons x r), h => by
      simp only [buildableL, Bool.and_eq_true] at h
      simp only [dropLast, buildableL, Bool.and_eq_true]
      exact ⟨h.1, buildableL_dropLast il isw (.cons x r) (by simp [buildableL, h.2.1, h.2.2])⟩

theorem rmRedundantReturn_it (q : Quirks) (hq : q.hasBreakPanicsOnUnlabelled = false) (ss : Stmts) (il isw : Bool) :
    OkIf (rmRedundantReturn q ss) (fun r => (itL ss = true → itL r = true) ∧
      (buildableL il isw ss = true → buildableL il isw r = true)) := by
  unfold rmRedundantReturn
  split
  · show OkIf (isTerminatingList q (dropLast ss) >>= fun t => if t = true then pure (dropLast ss) else pure ss) _
    rw [isTerminatingList_eq q hq]
    show OkIf (if itL (dropLast ss) = true then pure (dropLast ss) else pure ss) _
    split
    · rename_i ht
      exact OkIf.pure ⟨fun _ => ht, buildableL_dropLast il isw ss⟩
    · exact OkIf.pure ⟨id, id⟩
  · exact OkIf.pure ⟨id, id⟩

end GoCo.MG

namespace GoCo.MG
open GoCo

/-! ### pass3: stray branch statements become returns; terminating-after-pass3 becomes terminating -/

def P3S (il isw : Bool) (s r : Stmt) : Prop :=
  (tjS il isw s = true → itS r = true) ∧ ((il || isw) = true → hbS r = hbS s) ∧
  isEmptyStmt r = isEmptyStmt s ∧ (pbS s = true → buildableS il isw r = true)

def P3L (il isw : Bool) (ss r : Stmts) : Prop :=
  (tjL il isw ss = true → itL r = true) ∧ ((il || isw) = true → hbL r = hbL ss) ∧
  allEmpty r = allEmpty ss ∧ (pbL ss = true → buildableL il isw r = true)

def P3E (il isw : Bool) (e r : Else) : Prop :=
  (tjE il isw e = true → itE r = true) ∧ ((il || isw) = true → hbE r = hbE e) ∧
  (pbE e = true → buildableEl il isw r = true)

theorem p3s_id (il isw : Bool) (s : Stmt) (h1 : tjS il isw s = itS s) (h2 : pbS s = true → buildableS il isw s = true) :
    P3S il isw s s := ⟨fun h => h1 ▸ h, fun _ => rfl, rfl, h2⟩

mutual
  theorem p3Stmt_ok (q : Quirks) (hq : q.hasBreakPanicsOnUnlabelled = false) :
      ∀ (s : Stmt) (il isw : Bool), OkIf (p3Stmt q il isw s) (fun r => P3S il isw s r.1)
    | .brk, il, isw => by
        simp only [p3Stmt]; refine OkIf.pure ?_
        cases h : (il || isw) with
        | true => simp [P3S, h, tjS, buildableS]
        | false => simp [P3S, h, tjS, itS, buildableS, buildableE, isEmptyStmt]
    | .cont, il, isw => by
        simp only [p3Stmt]; refine OkIf.pure ?_
        cases h : il with
        | true => simp [P3S, tjS, buildableS]
        | false => simp [P3S, tjS, itS, buildableS, buildableE, isEmptyStmt, hbS]
    | .fallthrough, il, isw => by
        simp only [p3Stmt]
        split
        · rename_i h
          exact OkIf.pure ⟨fun _ => rfl, fun _ => rfl, rfl, fun _ => by simpa [buildableS] using h⟩
        · exact OkIf.throw
    | .block ss, il, isw => by
        simp only [p3Stmt]
        refine OkIf.bind (p3Stmts_ok q hq ss il isw) (fun r hr => OkIf.pure ?_)
        exact ⟨fun h => by simpa [itS] using hr.1 (by simpa [tjS] using h),
          fun h => by simpa [hbS] using hr.2.1 h, rfl,
          fun h => by simpa [buildableS] using hr.2.2.2 (by simpa [pbS] using h)⟩
    | .ifs _ _ thn els, il, isw => by
        simp only [p3Stmt]
        refine OkIf.bind (p3Stmts_ok q hq thn il isw) (fun r1 h1 => ?_)
        refine OkIf.bind (p3Else_ok q hq els il isw) (fun r2 h2 => OkIf.pure ?_)
        refine ⟨fun h => ?_, fun h => ?_, rfl, fun h => ?_⟩
        · simp only [tjS, Bool.and_eq_true] at h
          simp only [itS, Bool.and_eq_true]
          exact ⟨h1.1 h.1, h2.1 h.2⟩
        · simp only [hbS, h1.2.1 h, h2.2.1 h]
        · simp only [pbS, Bool.and_eq_true] at h
          simp only [buildableS, Bool.and_eq_true]
          exact ⟨h1.2.2.2 h.1, h2.2.2 h.2⟩
    | .switch _ _ cases, il, isw => by
        simp only [p3Stmt]
        refine OkIf.bind (p3Cases_ok q hq cases il) (fun r hr => OkIf.pure ?_)
        exact ⟨fun h => by simpa [itS] using (hr false).1 (by simpa [tjS] using h), fun _ => rfl, rfl,
          fun h => by simpa [buildableS] using (hr false).2 (by simpa [pbS] using h)⟩
    | .for_ _ cond _ body, il, isw => by
        simp only [p3Stmt]
        refine OkIf.bind (p3Stmts_ok q hq body true isw) (fun r hr => OkIf.pure ?_)
        refine ⟨fun h => ?_, fun _ => rfl, rfl, fun h => ?_⟩
        · simp only [tjS] at h
          simp only [itS, hr.2.1 (by simp)]
          exact h
        · simpa [buildableS] using hr.2.2.2 (by simpa [pbS] using h)
    | .rete e, il, isw => by
        simp only [p3Stmt]
        refine OkIf.bind (p3SExp_ok q hq e) (fun r hr => OkIf.pure ?_)
        exact ⟨fun _ => rfl, fun _ => rfl, rfl, fun h => by simpa [buildableS] using hr (by simpa [pbS] using h)⟩
    | .simple x, il, isw => by
        simp only [p3Stmt]
        exact OkIf.pure (p3s_id il isw _ (by cases x <;> rfl) (fun _ => rfl))
    | .ret, il, isw => by
        simp only [p3Stmt]
        exact OkIf.pure (p3s_id il isw _ rfl (fun h => by cases h))
    | .unknown _, il, isw => by
        simp only [p3Stmt]
        exact OkIf.pure (p3s_id il isw _ rfl (fun h => by cases h))
  theorem p3Stmts_ok (q : Quirks) (hq : q.hasBreakPanicsOnUnlabelled = false) :
      ∀ (ss : Stmts) (il isw : Bool), OkIf (p3Stmts q il isw ss) (fun r => P3L il isw ss r.1)
    | .nil, il, isw => by
        simp only [p3Stmts]; exact OkIf.pure ⟨id, fun _ => rfl, rfl, fun _ => rfl⟩
    | .cons s r, il, isw => by
        simp only [p3Stmts]
        refine OkIf.bind (p3Stmt_ok q hq s il isw) (fun r1 h1 => ?_)
        refine OkIf.bind (p3Stmts_ok q hq r il isw) (fun r2 h2 => OkIf.pure ?_)
        refine ⟨fun h => ?_, fun h => ?_, ?_, fun h => ?_⟩
        · simp only [tjL] at h
          simp only [itL, h2.2.2.1, h1.2.2.1]
          split
          · rename_i he
            rw [if_pos he] at h
            simp only [Bool.and_eq_true] at h ⊢
            exact ⟨h.1, h1.1 h.2⟩
          · rename_i he
            rw [if_neg he] at h
            exact h2.1 h
        · simp only [hbL, h1.2.1 h, h2.2.1 h]
        · have he := h1.2.2.1
          have ha := h2.2.2.1
          -- allEmpty (cons s' r') = allEmpty (cons s r)
          cases hs : isEmptyStmt s with
          | true =>
            have hs' := he.trans hs
            cases s with
            | simple x =>
              cases x with
              | empty =>
                cases hr1 : r1.1 with
                | simple y =>
                  cases y with
                  | empty => simp only [allEmpty, ha]
                  | _ => rw [hr1] at hs'; cases hs'
                | _ => rw [hr1] at hs'; cases hs'
              | _ => cases hs
            | _ => cases hs
          | false =>
            have hs' := he.trans hs
            have e1 : allEmpty (.cons s r) = false := by
              cases s with
              | simple x => cases x <;> first | rfl | cases hs
              | _ => rfl
            have e2 : allEmpty (.cons r1.1 r2.1) = false := by
              cases hr1 : r1.1 with
              | simple x => cases x <;> first | rfl | (rw [hr1] at hs'; cases hs')
              | _ => rfl
            rw [e1, e2]
        · simp only [pbL, Bool.and_eq_true] at h
          simp only [buildableL, Bool.and_eq_true]
          exact ⟨h1.2.2.2 h.1, h2.2.2.2 h.2⟩
  theorem p3Else_ok (q : Quirks) (hq : q.hasBreakPanicsOnUnlabelled = false) :
      ∀ (e : Else) (il isw : Bool), OkIf (p3Else q il isw e) (fun r => P3E il isw e r.1)
    | .none, il, isw => by
        simp only [p3Else]; exact OkIf.pure ⟨id, fun _ => rfl, fun _ => rfl⟩
    | .els ss, il, isw => by
        simp only [p3Else]
        refine OkIf.bind (p3Stmts_ok q hq ss il isw) (fun r hr => OkIf.pure ?_)
        exact ⟨fun h => by simpa [itE] using hr.1 (by simpa [tjE] using h),
          fun h => by simpa [hbE] using hr.2.1 h,
          fun h => by simpa [buildableEl] using hr.2.2.2 (by simpa [pbE] using h)⟩
    | .elif s, il, isw => by
        simp only [p3Else]
        refine OkIf.bind (p3Stmt_ok q hq s il isw) (fun r hr => OkIf.pure ?_)
        exact ⟨fun h => by simpa [itE] using hr.1 (by simpa [tjE] using h),
          fun h => by simpa [hbE] using hr.2.1 h,
          fun h => by simpa [buildableEl] using hr.2.2.2 (by simpa [pbE] using h)⟩
  theorem p3Cases_ok (q : Quirks) (hq : q.hasBreakPanicsOnUnlabelled = false) :
      ∀ (cs : Cases) (il : Bool), OkIf (p3Cases q il true cs) (fun r => ∀ hd,
        (tjSw il cs hd = true → itSw r.1 hd = true) ∧ (pbC cs = true → buildableC il r.1 = true))
    | .nil, il => by
        simp only [p3Cases]; exact OkIf.pure (fun hd => ⟨id, fun _ => rfl⟩)
    | .cons dflt ks body r, il => by
        simp only [p3Cases]
        refine OkIf.bind (p3Stmts_ok q hq body il true) (fun r1 h1 => ?_)
        refine OkIf.bind (p3Cases_ok q hq r il) (fun r2 h2 => OkIf.pure (fun hd => ?_))
        refine ⟨fun h => ?_, fun h => ?_⟩
        · simp only [tjSw, Bool.and_eq_true] at h
          simp only [itSw, Bool.and_eq_true, h1.2.1 (by simp)]
          exact ⟨⟨h1.1 h.1.1, h.1.2⟩, (h2 _).1 h.2⟩
        · simp only [pbC, Bool.and_eq_true] at h
          simp only [buildableC, Bool.and_eq_true]
          exact ⟨h1.2.2.2 h.1, (h2 false).2 h.2⟩
  theorem p3SExp_ok (q : Quirks) (hq : q.hasBreakPanicsOnUnlabelled = false) :
      ∀ (e : SExp), OkIf (p3SExp q e) (fun r => pbX e = true → buildableE r = true)
    | .bind e th => by
        simp only [p3SExp]
        exact OkIf.bind (p3Thunk_ok q hq th) (fun r hr => OkIf.pure (fun h => by
          simpa [buildableE] using hr (by simpa [pbX] using h)))
    | .delay th => by
        simp only [p3SExp]
        exact OkIf.bind (p3Thunk_ok q hq th) (fun r hr => OkIf.pure (fun h => by
          simpa [buildableE] using hr (by simpa [pbX] using h)))
    | .combine a b => by
        simp only [p3SExp]
        refine OkIf.bind (p3SExp_ok q hq a) (fun ra ha => ?_)
        refine OkIf.bind (p3SExp_ok q hq b) (fun rb hb => OkIf.pure (fun h => ?_))
        simp only [pbX, Bool.and_eq_true] at h
        simp only [buildableE, Bool.and_eq_true]
        exact ⟨ha h.1, hb h.2⟩
    | .loop _ _ body => by
        simp only [p3SExp]
        exact OkIf.bind (p3SExp_ok q hq body) (fun r hr => OkIf.pure (fun h => by
          simpa [buildableE] using hr (by simpa [pbX] using h)))
    | .start a => by
        simp only [p3SExp]
        exact OkIf.bind (p3SExp_ok q hq a) (fun r hr => OkIf.pure (fun h => by
          simpa [buildableE] using hr (by simpa [pbX] using h)))
    | .sig _ => by simp only [p3SExp]; exact OkIf.pure (fun _ => rfl)
    | .unknown _ => by simp only [p3SExp]; exact OkIf.pure (fun h => by cases h)
  theorem p3Thunk_ok (q : Quirks) (hq : q.hasBreakPanicsOnUnlabelled = false) :
      ∀ (th : Thunk), OkIf (p3Thunk q th) (fun r => pbT th = true → buildableT r = true)
    | .lam ss => by
        simp only [p3Thunk]
        refine OkIf.bind (p3Stmts_ok q hq ss false false) (fun p hp => ?_)
        have fin : ∀ res : Stmts, (itL p.1 = true → itL res = true) →
            (buildableL false false p.1 = true → buildableL false false res = true) →
            pbT (.lam ss) = true → buildableT (.lam res) = true := by
          intro res h1 h2 h
          simp only [pbT, Bool.and_eq_true] at h
          simp only [buildableT, Bool.and_eq_true, isTerminatingList_eq goQuirks rfl, okB]
          exact ⟨h1 (hp.1 h.1), h2 (hp.2.2.2 h.2)⟩
        split
        · exact OkIf.bind (rmRedundantReturn_it q hq _ false false) (fun r hr => OkIf.pure (fin r hr.1 hr.2))
        · exact OkIf.pure (fin _ id id)
    | .fn _ => by simp only [p3Thunk]; exact OkIf.pure (fun _ => rfl)
end

end GoCo.MG

namespace GoCo.MG
open GoCo

/-! ### Part 3: pass2 only builds function literals that end in a (pass3-)terminating statement -/

theorem allEmpty_snoc : ∀ (ss : Stmts) (s : Stmt), isEmptyStmt s = false → allEmpty (ss.snoc s) = false
  | .nil, s, h => by
      cases s with
      | simple x => cases x <;> first | rfl | cases h
      | _ => rfl
  | .cons x r, s, h => by
      cases x with
      | simple y =>
        cases y with
        | empty => simpa [Stmts.snoc, allEmpty] using allEmpty_snoc r s h
        | _ => rfl
      | _ => rfl

theorem tjL_snoc (il isw : Bool) : ∀ (ss : Stmts) (s : Stmt), isEmptyStmt s = false →
    tjL il isw (ss.snoc s) = tjS il isw s
  | .nil, s, h => by simp [Stmts.snoc, tjL, allEmpty, h]
  | .cons x r, s, h => by
      simp only [Stmts.snoc, tjL, allEmpty_snoc r s h]
      exact tjL_snoc il isw r s h

def TJ (b : Blk) : Prop := tjL false false b.toStmts = true
def PBB (b : Blk) : Prop := ∀ x ∈ b.items, pbS x.1 = true
def SA (b : Blk) : Prop := ∀ x ∈ b.items.tail, x.2 = Kind.trivial
def AT (b : Blk) : Prop := ∀ x ∈ b.items, x.2 = Kind.trivial
/-- the last statement of a block that is not of kind trivial / if / switch is a `return` -/
def HR (b : Blk) : Prop :=
  ∀ s k rest, b.items = (s, k) :: rest → k ≠ .trivial → k ≠ .ifk → k ≠ .switchk → ∃ e, s = .rete e

theorem toStmts_snoc (b : Blk) (s : Stmt) (k : Kind) : (b.pushU s k).toStmts = b.toStmts.snoc s := by
  simp only [Blk.toStmts, Blk.pushU, List.reverse_cons, List.map_append, List.map_cons, List.map_nil]
  induction (b.items.reverse.map (·.1)) with
  | nil => rfl
  | cons x r ih => simp only [List.cons_append, Stmts.ofList, Stmts.snoc, ih]

theorem toStmts_of_items {b : Blk} {s : Stmt} {k : Kind} {rest : List (Stmt × Kind)} (h : b.items = (s, k) :: rest) :
    b.toStmts = (Stmts.ofList (rest.reverse.map (·.1))).snoc s := by
  have := toStmts_snoc { b with items := rest } s k
  simp only [Blk.toStmts, Blk.pushU] at this ⊢
  rw [h]; exact this

theorem tj_pushU (b : Blk) {s : Stmt} (k : Kind) (hs : isEmptyStmt s = false) (ht : tjS false false s = true) :
    TJ (b.pushU s k) := by
  unfold TJ; rw [toStmts_snoc, tjL_snoc _ _ _ _ hs]; exact ht

theorem tj_pushReturnU (b : Blk) (e : SExp) (k : Kind) : TJ (b.pushReturnU e k) :=
  tj_pushU b k rfl rfl

theorem tj_of_head {b : Blk} {s : Stmt} {k : Kind} {rest : List (Stmt × Kind)} (h : b.items = (s, k) :: rest)
    (hs : isEmptyStmt s = false) (ht : tjS false false s = true) : TJ b := by
  unfold TJ; rw [toStmts_of_items h, tjL_snoc _ _ _ _ hs]; exact ht

theorem tj_congr {a b : Blk} (h : a.items = b.items) (ht : TJ a) : TJ b := by
  unfold TJ Blk.toStmts at *; rw [← h]; exact ht

theorem pbb_mk0 (k : Kind) : PBB (Blk.mk0 k) := fun _ hx => nomatch hx
theorem at_mk0 (k : Kind) : AT (Blk.mk0 k) := fun _ hx => nomatch hx
theorem hr_mk0 (k : Kind) : HR (Blk.mk0 k) := fun _ _ _ h => nomatch h

theorem pbb_pushU {b : Blk} (h : PBB b) {s : Stmt} (hs : pbS s = true) (k : Kind) : PBB (b.pushU s k) := by
  intro x hx
  simp only [Blk.pushU, List.mem_cons] at hx
  rcases hx with rfl | hx
  · exact hs
  · exact h x hx

theorem pbb_pushReturnU {b : Blk} (h : PBB b) {e : SExp} (he : pbX e = true) (k : Kind) : PBB (b.pushReturnU e k) :=
  pbb_pushU h (by simpa [pbS] using he) k

theorem pbL_ofList : ∀ (l : List Stmt), (∀ s ∈ l, pbS s = true) → pbL (Stmts.ofList l) = true
  | [], _ => rfl
  | s :: r, h => by
      simp only [Stmts.ofList, pbL, Bool.and_eq_true]
      exact ⟨h s (List.mem_cons_self ..), pbL_ofList r (fun x hx => h x (List.mem_cons_of_mem _ hx))⟩

theorem pbb_toStmts {b : Blk} (h : PBB b) : pbL b.toStmts = true := by
  unfold Blk.toStmts
  refine pbL_ofList _ (fun s hs => ?_)
  simp only [List.mem_map, List.mem_reverse] at hs
  obtain ⟨x, hx, rfl⟩ := hs
  exact h x hx

/-- a finished block used as the body of a function literal -/
theorem pbT_lam {b : Blk} (h1 : TJ b) (h2 : PBB b) : pbT (.lam b.toStmts) = true := by
  simp only [pbT, Bool.and_eq_true]; exact ⟨h1, pbb_toStmts h2⟩

theorem sa_pushU {b : Blk} (h : AT b) (s : Stmt) (k : Kind) : SA (b.pushU s k) := by
  intro x hx; simp only [Blk.pushU, List.tail_cons] at hx; exact h x hx

theorem at_pushU {b : Blk} (h : AT b) (s : Stmt) : AT (b.pushU s .trivial) := by
  intro x hx
  simp only [Blk.pushU, List.mem_cons] at hx
  rcases hx with rfl | hx
  · rfl
  · exact h x hx

theorem AT.sa {b : Blk} (h : AT b) : SA b := fun x hx => h x (List.mem_of_mem_tail hx)

theorem hr_pushU (b : Blk) (s : Stmt) (k : Kind)
    (h : k = .trivial ∨ k = .ifk ∨ k = .switchk ∨ ∃ e, s = .rete e) : HR (b.pushU s k) := by
  intro s' k' rest hi h1 h2 h3
  simp only [Blk.pushU, List.cons.injEq, Prod.mk.injEq] at hi
  obtain ⟨⟨rfl, rfl⟩, _⟩ := hi
  rcases h with h | h | h | h
  · exact absurd h h1
  · exact absurd h h2
  · exact absurd h h3
  · exact h

theorem hr_pushReturnU (b : Blk) (e : SExp) (k : Kind) : HR (b.pushReturnU e k) :=
  hr_pushU b _ k (.inr (.inr (.inr ⟨e, rfl⟩)))

theorem at_mustNoYield {b : Blk} (h : AT b) : b.mustNoYield = true := by
  unfold Blk.mustNoYield Blk.mayContainsYield
  split
  · rfl
  · rename_i s k rest hi
    have hk : k = .trivial := h (s, k) (by rw [hi]; exact List.mem_cons_self ..)
    subst hk
    simp only [Bool.not_eq_true']
    rw [if_neg (by decide)]
    simp only [List.any_eq_false, decide_eq_true_eq]
    intro x hx
    have := h x hx
    rw [this]; decide

theorem rnr_tj (q : Quirks) (hq : QOk q) {b : Blk} (hr : HR b) :
    OkIf (returnNormalRequired q b) (fun r => r = false → TJ b) := by
  unfold returnNormalRequired
  split
  · exact OkIf.error
  · split
    · exact OkIf.ok (fun h => by cases h)
    · rename_i last k rest hi
      split
      · rw [isTerminating_eq q hq.h1 last]
        refine OkIf.ok (fun h => ?_)
        have ht : itS last = true := by simpa using h
        have hne : isEmptyStmt last = false := by
          cases last with
          | simple x => cases x <;> first | rfl | cases ht
          | _ => rfl
        exact tj_of_head hi hne (tjS_of_it false false last ht)
      · rename_i hk
        refine OkIf.ok (fun _ => ?_)
        obtain ⟨e, rfl⟩ := hr last k rest hi (fun h => hk (.inr (.inr h))) (fun h => hk (.inl h))
          (fun h => hk (.inr (.inl h)))
        exact tj_of_head hi rfl rfl

/-- generateLastNormalIfNecessary: afterwards the block ends in a terminating statement -/
theorem genLast_tj (q : Quirks) (hq : QOk q) {b : Blk} (hr : HR b) :
    OkIf (genLast q b) (fun b' => TJ b' ∧ (PBB b → PBB b') ∧ b'.kind = b.kind ∧ HR b') := by
  unfold genLast
  refine OkIf.bind (rnr_tj q hq hr) (fun r hr' => ?_)
  split
  · unfold Blk.pushReturn
    refine OkIf.bind (OkIf.triv _) (fun _ _ => OkIf.pure ?_)
    exact ⟨tj_pushReturnU _ _ _, fun h => pbb_pushReturnU (b := b.markCombined) h rfl _, rfl, hr_pushReturnU _ _ _⟩
  · rename_i hf
    exact OkIf.pure ⟨hr' (by simpa using hf), id, rfl, hr⟩

def FramePB : Frame → Prop
  | .bindF cur _ => PBB cur
  | .combF cur first => PBB cur ∧ PBB first ∧ TJ first

theorem pb_plug : ∀ (frames : List Frame) (fin : Blk), (∀ f ∈ frames, FramePB f) → PBB fin →
    (frames ≠ [] → TJ fin) → PBB (plug frames fin) ∧ (frames ≠ [] → TJ (plug frames fin))
  | [], fin, _, h, _ => ⟨h, fun hn => absurd rfl hn⟩
  | f :: fs, fin, hf, h, ht => by
      have hfin : TJ fin := ht (by simp)
      have hff := hf f (List.mem_cons_self ..)
      have step : PBB (plug1 fin f) ∧ TJ (plug1 fin f) := by
        cases f with
        | bindF cur e => exact ⟨pbb_pushReturnU hff (by simpa [pbX] using pbT_lam hfin h) _, tj_pushReturnU _ _ _⟩
        | combF cur first =>
          exact ⟨pbb_pushReturnU hff.1 (by simp [pbX, pbT_lam hfin h, pbT_lam hff.2.2 hff.2.1]) _,
            tj_pushReturnU _ _ _⟩
      have ih := pb_plug fs (plug1 fin f) (fun g hg => hf g (List.mem_cons_of_mem _ hg)) step.1 (fun _ => step.2)
      refine ⟨ih.1, fun _ => ?_⟩
      cases fs with
      | nil => exact step.2
      | cons g gs => exact ih.2 (by simp)

theorem framePB_nil : ∀ f ∈ ([] : List Frame), FramePB f := fun _ hf => nomatch hf
theorem framePB_append {a b : List Frame} (ha : ∀ f ∈ a, FramePB f) (hb : ∀ f ∈ b, FramePB f) :
    ∀ f ∈ a ++ b, FramePB f := fun f hf => by
  rcases List.mem_append.mp hf with h | h
  · exact ha f h
  · exact hb f h

/-- combineIfNecessary on a block whose tail is trivial: the continuation block is all-trivial, and either
    nothing happened or the last statement moved into a finished first half -/
theorem comb_pb (q : Quirks) (hq : QOk q) {b : Blk} (hsa : SA b) (hpb : PBB b) (hr : HR b) :
    OkIf (combineIfNecessary q b) (fun r => AT r.1 ∧ PBB r.1 ∧ HR r.1 ∧ (∀ f ∈ r.2, FramePB f) ∧
      ((r.2 = [] ∧ r.1.kind = b.kind) ∨ (r.2 ≠ [] ∧ r.1.kind = .delay))) := by
  unfold combineIfNecessary
  simp only []
  split
  · rename_i hi
    simp only [Blk.markCombined] at hi
    refine OkIf.pure ⟨fun x hx => ?_, hpb, fun s k rest h => ?_, framePB_nil, .inl ⟨rfl, rfl⟩⟩
    · simp only [Blk.markCombined, hi] at hx; cases hx
    · simp only [Blk.markCombined, hi] at h; cases h
  · rename_i s k rest hi
    simp only [Blk.markCombined] at hi
    have hrest : ∀ x ∈ rest, x.2 = Kind.trivial := fun x hx => hsa x (by rw [hi]; exact hx)
    split
    · rename_i hk
      refine OkIf.pure ⟨fun x hx => ?_, hpb, hr, framePB_nil, .inl ⟨rfl, rfl⟩⟩
      simp only [Blk.markCombined, hi, List.mem_cons] at hx
      rcases hx with rfl | hx
      · exact hk
      · exact hrest x hx
    · have hs : pbS s = true := hpb (s, k) (by rw [hi]; exact List.mem_cons_self ..)
      have hprest : ∀ x ∈ rest, pbS x.1 = true := fun x hx => hpb x (by rw [hi]; exact List.mem_cons_of_mem _ hx)
      refine OkIf.bind (Q := fun c => c = (Blk.mk0 .delay).pushU s k) ?_ (fun c hc => ?_)
      · unfold Blk.push
        exact OkIf.bind (OkIf.triv _) (fun _ _ => OkIf.pure rfl)
      subst hc
      have hr1 : HR ((Blk.mk0 .delay).pushU s k) := by
        intro s' k' rest' hi' h1 h2 h3
        simp only [Blk.pushU, Blk.mk0, List.cons.injEq, Prod.mk.injEq] at hi'
        obtain ⟨⟨hs', hk'⟩, _⟩ := hi'
        subst hs' hk'
        exact hr _ _ rest hi h1 h2 h3
      refine OkIf.bind (genLast_tj q hq hr1) (fun c' hc' => ?_)
      refine OkIf.bind (OkIf.triv _) (fun _ _ => ?_)
      refine OkIf.pure ⟨at_mk0 _, pbb_mk0 _, hr_mk0 _, fun f hf => ?_, .inr ⟨by simp, rfl⟩⟩
      simp only [List.mem_singleton] at hf
      subst hf
      exact ⟨hprest, hc'.2.1 (pbb_pushU (pbb_mk0 _) hs k), hc'.1⟩

end GoCo.MG

namespace GoCo.MG
open GoCo

def RB (cur fin : Blk) : Prop :=
  PBB fin ∧ HR fin ∧ ((cur.kind = .delay ∨ fin.mustNoYield = false) → TJ fin)

def KindRel (cur : Blk) (x : Blk × List Frame) : Prop :=
  (x.2 = [] ∧ x.1.kind = cur.kind) ∨ (x.2 ≠ [] ∧ x.1.kind = .delay)

def SRB (cur : Blk) (isLast : Bool) : SR → Prop
  | .stop c => RB cur c
  | .go fol frames => PBB fol ∧ SA fol ∧ HR fol ∧ (∀ f ∈ frames, FramePB f) ∧ KindRel cur (fol, frames) ∧
      (isLast = true → frames = [] → fol.mustNoYield = false → TJ fol)

theorem AT.hr {b : Blk} (h : AT b) : HR b := fun s k rest hi h1 _ _ =>
  absurd (h (s, k) (by rw [hi]; exact List.mem_cons_self ..)) h1

theorem kindRel_compose {cur : Blk} {x r : Blk × List Frame} (hx : KindRel cur x)
    (hr : (r.2 = [] ∧ r.1.kind = x.1.kind) ∨ (r.2 ≠ [] ∧ r.1.kind = .delay)) : KindRel cur (r.1, r.2 ++ x.2) := by
  rcases hr with ⟨h1, h2⟩ | ⟨h1, h2⟩
  · rcases hx with ⟨h3, h4⟩ | ⟨h3, h4⟩
    · exact .inl ⟨by simp [h1, h3], h2.trans h4⟩
    · exact .inr ⟨by simp [h1, h3], h2.trans h4⟩
  · exact .inr ⟨by simp [h1], h2⟩

theorem plug_append (a b : List Frame) (fin : Blk) : plug (a ++ b) fin = plug b (plug a fin) := by
  simp [plug, List.foldl_append]

theorem go_pushed_pb {cur : Blk} (isLast : Bool) (hat : AT cur) (hpb : PBB cur) {s : Stmt} (hs : pbS s = true) :
    OkIf (do pure (SR.go (← cur.push s .trivial) []) : Except String SR) (SRB cur isLast) :=
  OkIf.bind (push_eq cur s _) (fun b hb => OkIf.pure (by
    subst hb
    exact ⟨pbb_pushU hpb hs _, sa_pushU hat _ _, hr_pushU _ _ _ (.inl rfl), framePB_nil, .inl ⟨rfl, rfl⟩,
      fun _ _ h => by rw [at_mustNoYield (at_pushU hat s)] at h; cases h⟩))

theorem stop_pushed_pb {cur : Blk} (isLast : Bool) (hpb : PBB cur) {s : Stmt} (hs : pbS s = true)
    (he : isEmptyStmt s = false) (ht : tjS false false s = true) :
    OkIf (do pure (SR.stop (← cur.push s .trivial)) : Except String SR) (SRB cur isLast) :=
  OkIf.bind (push_eq cur s _) (fun b hb => OkIf.pure (by
    subst hb
    exact ⟨pbb_pushU hpb hs _, hr_pushU _ _ _ (.inl rfl), fun _ => tj_pushU cur _ he ht⟩))

theorem pbE_unwrapIf (ss : Stmts) : pbE (unwrapIf ss) = pbL ss := by
  unfold unwrapIf
  split
  · simp [pbE, pbL]
  · rfl

theorem ifPush_pb (init : Option Simple) (c : CondE) (thn : Stmts) (els : Else) (body : Blk) (e : Option Blk)
    (cur : Blk) (hs : pbS (.ifs init c thn els) = true) (hbody : PBB body) (he : ∀ e', e = some e' → PBB e') :
    OkIf (ifPush init c thn els body e cur)
      (fun cur' => ∃ s' k, cur' = cur.pushU s' k ∧ pbS s' = true ∧ (k = .trivial ∨ k = .ifk)) := by
  unfold ifPush
  split
  · split
    · exact fun a ha => ⟨_, _, push_eq _ _ _ a ha, hs, .inl rfl⟩
    · exact fun a ha => ⟨_, _, push_eq _ _ _ a ha, by simp [pbS, pbE, pbb_toStmts hbody], .inr rfl⟩
  · rename_i e'
    split
    · exact fun a ha => ⟨_, _, push_eq _ _ _ a ha, hs, .inl rfl⟩
    · exact fun a ha => ⟨_, _, push_eq _ _ _ a ha,
        by simp [pbS, pbE_unwrapIf, pbb_toStmts hbody, pbb_toStmts (he e' rfl)], .inr rfl⟩

/-- the extracted init statement of a yielding for / switch -/
theorem init_pb (init : Option Simple) {cur : Blk} (hat : AT cur) (hpb : PBB cur) :
    OkIf (match init with
      | none => pure (cur, [])
      | some i => do
        if i.isDefine then throw "illegal state"
        match ← rwInit i cur with
        | .stop _ => throw "illegal state"
        | .go fol fr => pure (fol, fr) : Except String (Blk × List Frame))
      (fun r => AT r.1 ∧ PBB r.1 ∧ (∀ f ∈ r.2, FramePB f) ∧ KindRel cur r) := by
  cases init with
  | none => exact OkIf.pure ⟨hat, hpb, framePB_nil, .inl ⟨rfl, rfl⟩⟩
  | some i =>
    dsimp only
    split
    · exact OkIf.bind OkIf.throw (fun _ (h : False) => h.elim)
    · have push : ∀ s : Simple, OkIf (do pure (SR.go (← cur.push (.simple s) .trivial) []) : Except String SR)
          (fun r => match r with
            | .stop _ => True
            | .go fol fr => AT fol ∧ PBB fol ∧ (∀ f ∈ fr, FramePB f) ∧ KindRel cur (fol, fr)) := fun s =>
        OkIf.bind (push_eq cur _ _) (fun b hb => OkIf.pure (by
          subst hb; exact ⟨at_pushU hat _, pbb_pushU hpb rfl _, framePB_nil, .inl ⟨rfl, rfl⟩⟩))
      refine OkIf.bind (Q := fun r => match r with
            | .stop _ => True
            | .go fol fr => AT fol ∧ PBB fol ∧ (∀ f ∈ fr, FramePB f) ∧ KindRel cur (fol, fr)) ?_ (fun r hr => ?_)
      · cases i with
        | yield e =>
            simp only [rwInit]
            refine OkIf.bind (OkIf.triv _) (fun _ _ => OkIf.pure ⟨at_mk0 _, pbb_mk0 _, fun f hf => ?_, .inr ⟨by simp, rfl⟩⟩)
            simp only [List.mem_singleton] at hf; subst hf; exact hpb
        | empty => simp only [rwInit]; exact OkIf.pure ⟨hat, hpb, framePB_nil, .inl ⟨rfl, rfl⟩⟩
        | act n => simp only [rwInit]; exact push _
        | pact n => simp only [rwInit]; exact push _
        | bpanic n => simp only [rwInit]; exact push _
        | def_ n => simp only [rwInit]; exact push _
      · cases r with
        | stop c => exact OkIf.throw
        | go fol fr => exact OkIf.pure hr

end GoCo.MG

namespace GoCo.MG
open GoCo

theorem for_tail_pb (q : Quirks) (hq : QOk q) (cond : Option CondE) (post : Option Simple) (body : Stmts) (isLast : Bool)
    (hbody : pbL body = true) (cur : Blk)
    (b : Blk) (hb : PBB b) (hbr : HR b) (hbt : b.mustNoYield = false → TJ b)
    (x : Blk × List Frame) (h1 : AT x.1) (h2 : PBB x.1) (h3 : ∀ f ∈ x.2, FramePB f) (h4 : KindRel cur x) :
    OkIf (if (b.mustNoYield && !optIsYield post) = true then do
          let __x_1 ← combineIfNecessary q x.fst
          let __do_lift ← __x_1.fst.push (Stmt.for_ none cond post body) Kind.trivial
          pure (SR.go __do_lift (__x_1.snd ++ x.snd))
        else
          if (!optIsYield post) = true then do
            let call ← callFor q cond post (SExp.delay (Thunk.lam b.toStmts))
            let __x_1 ← combineIfNecessary q x.fst
            let __do_lift ← __x_1.fst.pushReturn call Kind.fork
            pure (SR.go __do_lift (__x_1.snd ++ x.snd))
          else do
            let pe ← (match post with
                | some (Simple.yield e) => pure e
                | _ => throw "illegal state" : Except String VExp)
            let normalThunk ← genLast q (Blk.mk0 Kind.delay)
            let b ← (if b.combineRequired = true then do
                  let b ← genLast q b
                  (Blk.mk0 Kind.fork).pushReturn
                      ((SExp.delay (Thunk.lam b.toStmts)).combine
                        (SExp.delay
                          (Thunk.lam
                            ((Blk.mk0 Kind.delay).pushReturnU (SExp.bind pe (Thunk.lam normalThunk.toStmts))
                                Kind.yieldk).toStmts)))
                      Kind.combine
                else b.markCombined.pushReturn (SExp.bind pe (Thunk.lam normalThunk.toStmts)) Kind.yieldk : Except String Blk)
            let call ← callFor q cond none (SExp.delay (Thunk.lam b.toStmts))
            let __x_1 ← combineIfNecessary q x.fst
            let __do_lift ← __x_1.fst.pushReturn call Kind.fork
            pure (SR.go __do_lift (__x_1.snd ++ x.snd))) (SRB cur isLast) := by
  -- a Seq-returning push after combineIfNecessary
  have retPush : ∀ (call : SExp), pbX call = true →
      OkIf (do
        let __x_1 ← combineIfNecessary q x.fst
        let __do_lift ← __x_1.fst.pushReturn call Kind.fork
        pure (SR.go __do_lift (__x_1.snd ++ x.snd))) (SRB cur isLast) := by
    intro call hcall
    refine OkIf.bind (comb_pb q hq h1.sa h2 h1.hr) (fun r hr => ?_)
    refine OkIf.bind (pushReturn_eq _ _ _) (fun c hc => ?_)
    subst hc
    exact OkIf.pure ⟨pbb_pushReturnU hr.2.1 hcall _, sa_pushU hr.1 _ _, hr_pushReturnU _ _ _,
      framePB_append hr.2.2.2.1 h3, kindRel_compose h4 hr.2.2.2.2, fun _ _ _ => tj_pushReturnU _ _ _⟩
  split
  · refine OkIf.bind (comb_pb q hq h1.sa h2 h1.hr) (fun r hr => ?_)
    refine OkIf.bind (push_eq _ _ _) (fun c hc => ?_)
    subst hc
    exact OkIf.pure ⟨pbb_pushU hr.2.1 (by simpa [pbS] using hbody) _, sa_pushU hr.1 _ _, hr_pushU _ _ _ (.inl rfl),
      framePB_append hr.2.2.2.1 h3, kindRel_compose h4 hr.2.2.2.2,
      fun _ _ h => by rw [at_mustNoYield (at_pushU hr.1 _)] at h; cases h⟩
  · rename_i hnt
    split
    · rename_i htp
      have hmy : b.mustNoYield = false := by
        cases hm : b.mustNoYield with
        | false => rfl
        | true => exact absurd (by simp [hm, htp]) hnt
      refine OkIf.bind (callFor_eq q _ _ _) (fun call hcall => ?_)
      subst hcall
      exact retPush _ (by simpa [pbX] using pbT_lam (hbt hmy) hb)
    · refine OkIf.bind (OkIf.triv _) (fun pe _ => ?_)
      refine OkIf.bind (genLast_tj q hq (hr_mk0 _)) (fun nt hnt' => ?_)
      have hntT : pbT (.lam nt.toStmts) = true := pbT_lam hnt'.1 (hnt'.2.1 (pbb_mk0 _))
      refine OkIf.bind (Q := fun b' => TJ b' ∧ PBB b') ?_ (fun b' hb' => ?_)
      · split
        · refine OkIf.bind (genLast_tj q hq hbr) (fun b2 hb2 => ?_)
          intro c hc
          have hc := pushReturn_eq _ _ _ c hc
          subst hc
          refine ⟨tj_pushReturnU _ _ _, pbb_pushReturnU (pbb_mk0 _) ?_ _⟩
          simp only [pbX, Bool.and_eq_true]
          refine ⟨pbT_lam hb2.1 (hb2.2.1 hb), pbT_lam (tj_pushReturnU _ _ _) (pbb_pushReturnU (pbb_mk0 _) ?_ _)⟩
          simpa [pbX] using hntT
        · intro c hc
          have hc := pushReturn_eq _ _ _ c hc
          subst hc
          exact ⟨tj_pushReturnU _ _ _, pbb_pushReturnU (b := b.markCombined) hb (by simpa [pbX] using hntT) _⟩
      · refine OkIf.bind (callFor_eq q _ _ _) (fun call hcall => ?_)
        subst hcall
        exact retPush _ (by simpa [pbX] using pbT_lam hb'.1 hb'.2)

mutual
  theorem rwStmts_pb (q : Quirks) (hq : QOk q) (hsw : q.switchLastGetsNoNormal = false) :
      ∀ (ss : Stmts) (cur : Blk), pbL ss = true → AT cur → PBB cur → OkIf (rwStmts q ss cur) (RB cur)
    | .nil, cur, _, hat, hpb => by
        simp only [rwStmts]
        split
        · exact fun b hb => by
            have := genLast_tj q hq hat.hr b hb
            exact ⟨this.2.1 hpb, this.2.2.2, fun _ => this.1⟩
        · rename_i hk
          exact OkIf.pure ⟨hpb, hat.hr, fun h => by
            rcases h with h | h
            · exact absurd h hk
            · rw [at_mustNoYield hat] at h; cases h⟩
    | .cons s rest, cur, hw, hat, hpb => by
        simp only [pbL, Bool.and_eq_true] at hw
        simp only [rwStmts]
        refine OkIf.bind (rwStmt_pb q hq hsw s rest.isNil cur hw.1 hat hpb) (fun r hr => ?_)
        cases r with
        | stop c => exact OkIf.pure hr
        | go fol frames =>
          obtain ⟨hfp, hfsa, hfhr, hfr, hkr, hlast⟩ := hr
          simp only []
          split
          · rename_i hl
            split
            · rename_i hk
              refine OkIf.bind (genLast_tj q hq hfhr) (fun fol' hf' => OkIf.pure ?_)
              have pp := pb_plug frames fol' hfr (hf'.2.1 hfp) (fun _ => hf'.1)
              refine ⟨pp.1, ?_, fun _ => ?_⟩
              · cases frames with
                | nil => exact hf'.2.2.2
                | cons f fs =>
                  -- a plugged block ends in a return
                  intro s k rest' hi h1 h2 h3
                  have : ∀ (fs : List Frame) (g : Blk), fs ≠ [] → HR (plug fs g) := by
                    intro fs
                    induction fs with
                    | nil => intro _ h; exact absurd rfl h
                    | cons f fs ih =>
                      intro g _
                      cases fs with
                      | nil => cases f <;> exact hr_pushReturnU _ _ _
                      | cons f2 fs2 => exact ih (plug1 g f) (by simp)
                  exact this (f :: fs) fol' (by simp) s k rest' hi h1 h2 h3
              · cases frames with
                | nil => exact hf'.1
                | cons f fs => exact pp.2 (by simp)
            · rename_i hk
              -- not a delay block: no frames, the block is returned as it is
              rcases hkr with ⟨hnil, hkind⟩ | ⟨_, hkind⟩
              · dsimp only at hnil hkind
                subst hnil
                refine OkIf.pure ⟨hfp, hfhr, fun h => ?_⟩
                rcases h with h | h
                · exact absurd (hkind.trans h) hk
                · exact hlast hl rfl h
              · exact absurd hkind hk
          · refine OkIf.bind (comb_pb q hq hfsa hfp hfhr) (fun pr hpr => ?_)
            obtain ⟨fol2, frames2⟩ := pr
            obtain ⟨h2at, h2pb, _, h2fr, h2k⟩ := hpr
            dsimp only at h2at h2pb h2fr h2k
            refine OkIf.bind (rwStmts_pb q hq hsw rest fol2 hw.2 h2at h2pb) (fun fin hfin => OkIf.pure ?_)
            have hkr2 : KindRel cur (fol2, frames2 ++ frames) := kindRel_compose (x := (fol, frames)) (r := (fol2, frames2)) hkr h2k
            rw [← plug_append]
            have hall := framePB_append h2fr hfr
            have htj : frames2 ++ frames ≠ [] → TJ fin := fun hne => by
              rcases hkr2 with ⟨hnil, _⟩ | ⟨_, hkind⟩
              · exact absurd hnil hne
              · exact hfin.2.2 (.inl hkind)
            have pp := pb_plug (frames2 ++ frames) fin hall hfin.1 htj
            cases hfs : frames2 ++ frames with
            | nil =>
              rw [hfs] at hkr2
              rcases hkr2 with ⟨_, hkind⟩ | ⟨hne, _⟩
              · dsimp only at hkind
                refine ⟨hfin.1, hfin.2.1, fun h => hfin.2.2 ?_⟩
                rcases h with h | h
                · exact .inl (hkind.trans h)
                · exact .inr h
              · exact absurd rfl hne
            | cons f fs =>
              rw [hfs] at pp
              have hne : f :: fs ≠ [] := by simp
              refine ⟨pp.1, ?_, fun _ => pp.2 hne⟩
              intro s k rest' hi h1 h2 h3
              have : ∀ (fs : List Frame) (g : Blk), fs ≠ [] → HR (plug fs g) := by
                intro fs
                induction fs with
                | nil => intro _ h; exact absurd rfl h
                | cons f fs ih =>
                  intro g _
                  cases fs with
                  | nil => cases f <;> exact hr_pushReturnU _ _ _
                  | cons f2 fs2 => exact ih (plug1 g f) (by simp)
              exact this (f :: fs) fin hne s k rest' hi h1 h2 h3

  theorem rwStmt_pb (q : Quirks) (hq : QOk q) (hsw : q.switchLastGetsNoNormal = false) :
      ∀ (s : Stmt) (isLast : Bool) (cur : Blk), pbS s = true → AT cur → PBB cur →
        OkIf (rwStmt q s isLast cur) (SRB cur isLast)
    | .simple (.yield e), isLast, cur, _, hat, hpb => by
        simp only [rwStmt]
        refine OkIf.bind (OkIf.triv _) (fun _ _ => ?_)
        split
        · refine OkIf.bind (genLast_tj q hq (hr_mk0 _)) (fun fol hfol => ?_)
          refine OkIf.pure ⟨pbb_pushReturnU hpb ?_ _, hr_pushReturnU _ _ _, fun _ => tj_pushReturnU _ _ _⟩
          simpa [pbX] using pbT_lam hfol.1 (hfol.2.1 (pbb_mk0 _))
        · refine OkIf.pure ⟨pbb_mk0 _, (at_mk0 _).sa, hr_mk0 _, fun f hf => ?_, .inr ⟨by simp, rfl⟩,
            fun _ h => by simp at h⟩
          simp only [List.mem_singleton] at hf; subst hf; exact hpb
    | .simple .empty, isLast, cur, _, hat, hpb => by
        simp only [rwStmt]
        exact OkIf.pure ⟨hpb, hat.sa, hat.hr, framePB_nil, .inl ⟨rfl, rfl⟩,
          fun _ _ h => by rw [at_mustNoYield hat] at h; cases h⟩
    | .simple (.act n), il, cur, hs, hat, hpb => by simp only [rwStmt]; exact go_pushed_pb il hat hpb hs
    | .simple (.pact n), il, cur, hs, hat, hpb => by simp only [rwStmt]; exact go_pushed_pb il hat hpb hs
    | .simple (.bpanic n), il, cur, hs, hat, hpb => by simp only [rwStmt]; exact go_pushed_pb il hat hpb hs
    | .simple (.def_ n), il, cur, hs, hat, hpb => by simp only [rwStmt]; exact go_pushed_pb il hat hpb hs
    | .brk, il, cur, hs, _, hpb => by simp only [rwStmt]; exact stop_pushed_pb il hpb hs rfl rfl
    | .cont, il, cur, hs, _, hpb => by simp only [rwStmt]; exact stop_pushed_pb il hpb hs rfl rfl
    | .fallthrough, il, cur, hs, _, hpb => by simp only [rwStmt]; exact stop_pushed_pb il hpb hs rfl rfl
    | .ret, il, cur, hs, _, _ => by cases hs
    | .rete e, il, cur, hs, hat, hpb => by simp only [rwStmt]; exact go_pushed_pb il hat hpb hs
    | .unknown t, il, cur, hs, _, _ => by cases hs
    | .block ss, il, cur, hs, hat, hpb => by
        simp only [rwStmt]
        have hss : pbL ss = true := by simpa [pbS] using hs
        refine OkIf.bind (rwStmts_pb q hq hsw ss _ hss (at_mk0 _) (pbb_mk0 _)) (fun fol hfol => ?_)
        split
        · exact go_pushed_pb il hat hpb hs
        · refine OkIf.bind (pushReturn_eq _ _ _) (fun b hb => ?_)
          subst hb
          exact OkIf.pure ⟨pbb_pushReturnU hpb (by simpa [pbX] using pbT_lam (hfol.2.2 (.inl rfl)) hfol.1) _,
            sa_pushU hat _ _, hr_pushReturnU _ _ _, framePB_nil, .inl ⟨rfl, rfl⟩, fun _ _ _ => tj_pushReturnU _ _ _⟩
    | .ifs init c thn els, isLast, cur, hs, hat, hpb => by
        have hs' := hs
        simp only [pbS, Bool.and_eq_true] at hs'
        simp only [rwStmt]
        split
        · exact OkIf.bind OkIf.throw (fun _ (h : False) => h.elim)
        refine OkIf.bind (rwStmts_pb q hq hsw thn _ hs'.1 (at_mk0 _) (pbb_mk0 _)) (fun body hbody => ?_)
        refine OkIf.bind (rwElse_pb q hq hsw els hs'.2) (fun e he => ?_)
        refine OkIf.bind (ifPush_pb init c thn els body e cur hs hbody.1 he) (fun cur' hcur' => ?_)
        obtain ⟨s', k, rfl, hps, hk⟩ := hcur'
        have hhr : HR (cur.pushU s' k) := hr_pushU _ _ _ (by rcases hk with h | h; exact .inl h; exact .inr (.inl h))
        split
        · refine OkIf.bind (genLast_tj q hq hhr) (fun c hc' => ?_)
          exact OkIf.pure ⟨hc'.2.1 (pbb_pushU hpb hps _), hc'.2.2.2, fun _ => hc'.1⟩
        · rename_i hl
          exact OkIf.pure ⟨pbb_pushU hpb hps _, sa_pushU hat _ _, hhr, framePB_nil, .inl ⟨rfl, rfl⟩,
            fun h => absurd h hl⟩
    | .switch init tag cases, isLast, cur, hs, hat, hpb => by
        have hcs : pbC cases = true := by simpa [pbS] using hs
        simp only [rwStmt]
        refine OkIf.bind (rwCases_pb q hq hsw cases hcs) (fun pr hpr => ?_)
        obtain ⟨newCases, allTrivial⟩ := pr
        dsimp only at hpr ⊢
        split
        · exact go_pushed_pb isLast hat hpb hs
        · refine OkIf.bind (init_pb init hat hpb) (fun x hx => ?_)
          obtain ⟨cur1, frames⟩ := x
          obtain ⟨h1, h2, h3, h4⟩ := hx
          dsimp only at h1 h2 h3 ⊢
          split
          · exact OkIf.bind OkIf.throw (fun _ (h : False) => h.elim)
          · split
            · refine OkIf.bind (push_eq _ _ _) (fun b hb => ?_)
              subst hb
              exact OkIf.pure ⟨pbb_pushU h2 (by simpa [pbS] using hcs) _, sa_pushU h1 _ _, hr_pushU _ _ _ (.inl rfl), h3, h4,
                fun _ _ h => by rw [at_mustNoYield (at_pushU h1 _)] at h; cases h⟩
            · refine OkIf.bind (comb_pb q hq h1.sa h2 h1.hr) (fun r hr => ?_)
              refine OkIf.bind (push_eq _ _ _) (fun cur' hcur' => ?_)
              subst hcur'
              have hp' : PBB (r.1.pushU (.switch none tag newCases) .switchk) :=
                pbb_pushU hr.2.1 (by simpa [pbS] using hpr) _
              have hhr : HR (r.1.pushU (.switch none tag newCases) .switchk) := hr_pushU _ _ _ (.inr (.inr (.inl rfl)))
              have hfr := framePB_append hr.2.2.2.1 h3
              split
              · refine OkIf.bind (genLast_tj q hq hhr) (fun g hg => ?_)
                have pp := pb_plug (r.2 ++ frames) g hfr (hg.2.1 hp') (fun _ => hg.1)
                refine OkIf.pure ⟨pp.1, ?_, fun _ => ?_⟩
                · cases hfs : r.2 ++ frames with
                  | nil => exact hg.2.2.2
                  | cons f fs =>
                    intro s k rest' hi h1' h2' h3'
                    have : ∀ (fs : List Frame) (g : Blk), fs ≠ [] → HR (plug fs g) := by
                      intro fs
                      induction fs with
                      | nil => intro _ h; exact absurd rfl h
                      | cons f fs ih =>
                        intro g _
                        cases fs with
                        | nil => cases f <;> exact hr_pushReturnU _ _ _
                        | cons f2 fs2 => exact ih (plug1 g f) (by simp)
                    exact this (f :: fs) g (by simp) s k rest' hi h1' h2' h3'
                · cases hfs : r.2 ++ frames with
                  | nil => exact hg.1
                  | cons f fs => rw [hfs] at pp; exact pp.2 (by simp)
              · rename_i hl
                refine OkIf.pure ⟨hp', sa_pushU hr.1 _ _, hhr, hfr, kindRel_compose h4 hr.2.2.2.2, fun h => ?_⟩
                exact absurd (by rw [h, hsw]; rfl) hl
    | .for_ init cond post body, isLast, cur, hs, hat, hpb => by
        have hbody : pbL body = true := by simpa [pbS] using hs
        simp only [rwStmt]
        refine OkIf.bind (rwStmts_pb q hq hsw body _ hbody (at_mk0 _) (pbb_mk0 _)) (fun b hb => ?_)
        split
        · exact go_pushed_pb isLast hat hpb hs
        · refine OkIf.bind (init_pb init hat hpb) (fun x hx => ?_)
          exact for_tail_pb q hq cond post body isLast hbody cur b hb.1 hb.2.1 (fun h => hb.2.2 (.inr h)) x
            hx.1 hx.2.1 hx.2.2.1 hx.2.2.2

  theorem rwElse_pb (q : Quirks) (hq : QOk q) (hsw : q.switchLastGetsNoNormal = false) :
      ∀ (els : Else), pbE els = true → OkIf (rwElse q els) (fun r => ∀ e, r = some e → PBB e)
    | .none, _ => by simp only [rwElse]; exact OkIf.pure (fun e he => nomatch he)
    | .els ss, hw => by
        simp only [pbE] at hw
        simp only [rwElse]
        exact OkIf.bind (rwStmts_pb q hq hsw ss _ hw (at_mk0 _) (pbb_mk0 _)) (fun b hb =>
          OkIf.pure (fun e he => by cases he; exact hb.1))
    | .elif s, hw => by
        simp only [pbE] at hw
        simp only [rwElse]
        exact OkIf.bind (rwIfS_pb q hq hsw s _ hw (pbb_mk0 _)) (fun b hb => OkIf.pure (fun e he => by cases he; exact hb))

  theorem rwIfS_pb (q : Quirks) (hq : QOk q) (hsw : q.switchLastGetsNoNormal = false) :
      ∀ (s : Stmt) (cur : Blk), pbS s = true → PBB cur → OkIf (rwIfS q s cur) PBB
    | .ifs init c thn els, cur, hs, hpb => by
        have hs' := hs
        simp only [pbS, Bool.and_eq_true] at hs'
        simp only [rwIfS]
        split
        · exact OkIf.bind OkIf.throw (fun _ (h : False) => h.elim)
        refine OkIf.bind (rwStmts_pb q hq hsw thn _ hs'.1 (at_mk0 _) (pbb_mk0 _)) (fun body hbody => ?_)
        refine OkIf.bind (rwElse_pb q hq hsw els hs'.2) (fun e he => ?_)
        exact fun cur' h => by
          obtain ⟨s', k, rfl, hps, _⟩ := ifPush_pb init c thn els body e cur hs hbody.1 he cur' h
          exact pbb_pushU hpb hps _
    | .simple _, _, _, _ => by simp only [rwIfS]; exact OkIf.throw
    | .block _, _, _, _ => by simp only [rwIfS]; exact OkIf.throw
    | .switch _ _ _, _, _, _ => by simp only [rwIfS]; exact OkIf.throw
    | .for_ _ _ _ _, _, _, _ => by simp only [rwIfS]; exact OkIf.throw
    | .brk, _, _, _ => by simp only [rwIfS]; exact OkIf.throw
    | .cont, _, _, _ => by simp only [rwIfS]; exact OkIf.throw
    | .fallthrough, _, _, _ => by simp only [rwIfS]; exact OkIf.throw
    | .ret, _, _, _ => by simp only [rwIfS]; exact OkIf.throw
    | .rete _, _, _, _ => by simp only [rwIfS]; exact OkIf.throw
    | .unknown _, _, _, _ => by simp only [rwIfS]; exact OkIf.throw

  theorem rwCases_pb (q : Quirks) (hq : QOk q) (hsw : q.switchLastGetsNoNormal = false) :
      ∀ (cs : Cases), pbC cs = true → OkIf (rwCases q cs) (fun r => pbC r.1 = true)
    | .nil, _ => by simp only [rwCases]; exact OkIf.pure rfl
    | .cons d ks body r, hw => by
        simp only [pbC, Bool.and_eq_true] at hw
        simp only [rwCases]
        refine OkIf.bind (rwStmts_pb q hq hsw body _ hw.1 (at_mk0 _) (pbb_mk0 _)) (fun b hb => ?_)
        refine OkIf.bind (rwCases_pb q hq hsw r hw.2) (fun p hp => ?_)
        exact OkIf.pure (by simp [pbC, pbb_toStmts hb.1, hp])
end

end GoCo.MG

namespace GoCo.MG
open GoCo

/-! ### the compile-level theorem -/

/- a parsed source body: no Seq expressions, nothing unrecognised -/
mutual
  def plainS : Stmt → Bool
    | .rete _ => false
    | .unknown _ => false
    | .block ss => plainL ss
    | .ifs _ _ thn els => plainL thn && plainE els
    | .switch _ _ cases => plainC cases
    | .for_ _ _ _ body => plainL body
    | _ => true
  def plainL : Stmts → Bool
    | .nil => true
    | .cons s r => plainS s && plainL r
  def plainE : Else → Bool
    | .none => true
    | .els ss => plainL ss
    | .elif s => plainS s
  def plainC : Cases → Bool
    | .nil => true
    | .cons _ _ body r => plainL body && plainC r
end

mutual
  theorem p0Stmt_pb : ∀ s : Stmt, plainS s = true → pbS (p0Stmt s) = true
    | .ret, _ => rfl
    | .block ss, h => by simp only [plainS] at h; simpa [p0Stmt, pbS] using p0Stmts_pb ss h
    | .ifs _ _ thn els, h => by
        simp only [plainS, Bool.and_eq_true] at h
        simp [p0Stmt, pbS, p0Stmts_pb thn h.1, p0Else_pb els h.2]
    | .switch init _ cases, h => by
        simp only [plainS] at h
        simp only [p0Stmt]
        split
        · simp [pbS, pbL, p0Cases_pb cases h]
        · simpa [pbS] using p0Cases_pb cases h
    | .for_ init _ _ body, h => by
        simp only [plainS] at h
        simp only [p0Stmt]
        split
        · simp [pbS, pbL, p0Stmts_pb body h]
        · simpa [pbS] using p0Stmts_pb body h
    | .simple _, _ => rfl
    | .brk, _ => rfl
    | .cont, _ => rfl
    | .fallthrough, _ => rfl
    | .rete _, h => by cases h
    | .unknown _, h => by cases h
  theorem p0Stmts_pb : ∀ ss : Stmts, plainL ss = true → pbL (p0Stmts ss) = true
    | .nil, _ => rfl
    | .cons s r, h => by
        simp only [plainL, Bool.and_eq_true] at h
        simp [p0Stmts, pbL, p0Stmt_pb s h.1, p0Stmts_pb r h.2]
  theorem p0Else_pb : ∀ e : Else, plainE e = true → pbE (p0Else e) = true
    | .none, _ => rfl
    | .els ss, h => by simp only [plainE] at h; simpa [p0Else, pbE] using p0Stmts_pb ss h
    | .elif s, h => by simp only [plainE] at h; simpa [p0Else, pbE] using p0Stmt_pb s h
  theorem p0Cases_pb : ∀ cs : Cases, plainC cs = true → pbC (p0Cases cs) = true
    | .nil, _ => rfl
    | .cons _ _ body r, h => by
        simp only [plainC, Bool.and_eq_true] at h
        simp [p0Cases, pbC, p0Stmts_pb body h.1, p0Cases_pb r h.2]
end

/-- **compile_buildable**: whatever the rewriter emits for a parsed body has a terminating statement at the
    end of every function literal and no stray break / continue / fallthrough - on every tree without the
    defects D10a-d and D11a -/
theorem compile_buildable (q : Quirks) (hq : QOk q) (hsw : q.switchLastGetsNoNormal = false) (body out : Stmts)
    (hp : plainL body = true) (h : compile q body = .ok out) : Buildable out = true := by
  unfold compile at h
  obtain ⟨b, hb, h⟩ := bind_ok h
  obtain ⟨th, hth, h⟩ := bind_ok h
  cases pure_ok h
  have hrb := rwStmts_pb q hq hsw (p0Stmts body) (Blk.mk0 .delay) (p0Stmts_pb body hp) (at_mk0 _) (pbb_mk0 _) b hb
  have h3 := p3Thunk_ok q hq.h1 (.lam b.toStmts) th hth (pbT_lam (hrb.2.2 (.inl rfl)) hrb.1)
  simpa [Buildable, buildableL, buildableS, buildableE] using h3

end GoCo.MG
