/- pass0 (`return nil` ⇒ `return seq.Return()`, hoisting of `:=` initialisers) preserves the semantics of
   every statement, for source (`susp = true`) and target (`susp = false`) alike. -/
import GoCo.Compile.Compile
import GoCo.Compile.Sem
set_option autoImplicit false

namespace GoCo.MG
variable {σ P : Type}

theorem denL_single (ρ : Interp σ P) (N : Nat) (susp : Bool) (s : Stmt) (st : σ) :
    denL ρ N susp (.cons s .nil) st = denS ρ N susp s st := by
  simp only [denL]
  conv => rhs; rw [← Res.bind_done (denS ρ N susp s st)]
  congr; funext o st'
  by_cases h : o = .fall <;> simp [h]

theorem effect_bind {α β : Type} (r : Option P × σ) (o : α) (k : α → σ → Res β σ P) :
    (effect r o).bind k = match r with | (none, st) => k o st | (some p, st) => .panic p st := by
  rcases r with ⟨_ | p, st⟩ <;> rfl

theorem p0Cases_select (ρ : Interp σ P) :
    ∀ (cs : Cases) (tv : Option Nat) (i : Nat) (st : σ),
      selectCase ρ (p0Cases cs) tv i st = selectCase ρ cs tv i st
  | .nil, _, _, _ => rfl
  | .cons true ks body r, tv, i, st => by
      simp only [p0Cases, selectCase]; exact p0Cases_select ρ r tv (i + 1) st
  | .cons false ks body r, some v, i, st => by
      simp only [p0Cases, selectCase, p0Cases_select ρ r (some v) (i + 1) st]
  | .cons false ks body r, none, i, st => by
      simp only [p0Cases, selectCase]
      rcases anyCond ρ ks st with ⟨_ | b, st'⟩
      · rfl
      · cases b
        · exact p0Cases_select ρ r none (i + 1) st'
        · rfl

theorem p0Cases_default : ∀ (cs : Cases) (i : Nat), defaultIndex (p0Cases cs) i = defaultIndex cs i
  | .nil, _ => rfl
  | .cons true _ _ _, _ => rfl
  | .cons false _ _ r, i => by simp only [p0Cases, defaultIndex]; exact p0Cases_default r (i + 1)

mutual
  theorem p0Stmt_sem (ρ : Interp σ P) (N : Nat) (susp : Bool) :
      ∀ (s : Stmt) (st : σ), denS ρ N susp (p0Stmt s) st = denS ρ N susp s st
    | .ret, st => by
        simp [p0Stmt, denS, evalS, Res.bind]
    | .block ss, st => by
        simp only [p0Stmt, denS]; exact p0Stmts_sem ρ N susp ss st
    | .ifs init c thn els, st => by
        simp only [p0Stmt, denS]
        congr; funext _ st1
        have h1 : denL ρ N susp (p0Stmts thn) = denL ρ N susp thn := funext (p0Stmts_sem ρ N susp thn)
        have h2 : denElse ρ N susp (p0Else els) = denElse ρ N susp els := funext (p0Else_sem ρ N susp els)
        rw [h1, h2]
    | .switch init tag cases, st => by
        have hc : ∀ i, denFrom ρ N susp (p0Cases cases) i = denFrom ρ N susp cases i :=
          fun i => funext (p0Cases_sem ρ N susp cases i)
        have hsel : ∀ tv i st, selectCase ρ (p0Cases cases) tv i st = selectCase ρ cases tv i st :=
          p0Cases_select ρ cases
        have hdef : ∀ i, defaultIndex (p0Cases cases) i = defaultIndex cases i := p0Cases_default cases
        cases init with
        | none => simp only [p0Stmt, denS, hsel, hdef, hc]
        | some i =>
          cases i with
          | def_ n =>
            simp only [p0Stmt, denS, denL, denInit, denSimple, effect_bind, hsel, hdef, hc]
            rcases ρ.def_ n st with ⟨_ | p, st1⟩
            · simp only [Res.bind]
              rw [show ∀ (r : Res Flow σ P), (r.bind fun o st' =>
                  if o = Flow.fall then Res.done Flow.fall st' else Res.done o st') = r from
                fun r => by
                  conv => rhs; rw [← Res.bind_done r]
                  congr; funext o st'; by_cases h : o = .fall <;> simp [h]]
              simp [↓reduceIte]
            · rfl
          | act n => simp only [p0Stmt, denS, hsel, hdef, hc]
          | pact n => simp only [p0Stmt, denS, hsel, hdef, hc]
          | bpanic n => simp only [p0Stmt, denS, hsel, hdef, hc]
          | yield e => simp only [p0Stmt, denS, hsel, hdef, hc]
          | empty => simp only [p0Stmt, denS, hsel, hdef, hc]
    | .for_ init cond post body, st => by
        have hb : denL ρ N susp (p0Stmts body) = denL ρ N susp body := funext (p0Stmts_sem ρ N susp body)
        cases init with
        | none => simp only [p0Stmt, denS, hb]
        | some i =>
          cases i with
          | def_ n =>
            simp only [p0Stmt, denS, denL, denInit, denSimple, effect_bind, hb]
            rcases ρ.def_ n st with ⟨_ | p, st1⟩
            · simp only [Res.bind]
              rw [show ∀ (r : Res Flow σ P), (r.bind fun o st' =>
                  if o = Flow.fall then Res.done Flow.fall st' else Res.done o st') = r from
                fun r => by
                  conv => rhs; rw [← Res.bind_done r]
                  congr; funext o st'; by_cases h : o = .fall <;> simp [h]]
              simp [↓reduceIte]
            · rfl
          | act n => simp only [p0Stmt, denS, hb]
          | pact n => simp only [p0Stmt, denS, hb]
          | bpanic n => simp only [p0Stmt, denS, hb]
          | yield e => simp only [p0Stmt, denS, hb]
          | empty => simp only [p0Stmt, denS, hb]
    | .simple _, _ => rfl
    | .brk, _ => rfl
    | .cont, _ => rfl
    | .fallthrough, _ => rfl
    | .rete _, _ => rfl
    | .unknown _, _ => rfl
  theorem p0Stmts_sem (ρ : Interp σ P) (N : Nat) (susp : Bool) :
      ∀ (ss : Stmts) (st : σ), denL ρ N susp (p0Stmts ss) st = denL ρ N susp ss st
    | .nil, _ => rfl
    | .cons s r, st => by
        simp only [p0Stmts, denL, p0Stmt_sem ρ N susp s st]
        congr; funext o st'
        by_cases h : o = .fall
        · simp [h, p0Stmts_sem ρ N susp r st']
        · simp [h]
  theorem p0Else_sem (ρ : Interp σ P) (N : Nat) (susp : Bool) :
      ∀ (e : Else) (st : σ), denElse ρ N susp (p0Else e) st = denElse ρ N susp e st
    | .none, _ => rfl
    | .els ss, st => by simp only [p0Else, denElse]; exact p0Stmts_sem ρ N susp ss st
    | .elif s, st => by simp only [p0Else, denElse]; exact p0Stmt_sem ρ N susp s st
  theorem p0Cases_sem (ρ : Interp σ P) (N : Nat) (susp : Bool) :
      ∀ (cs : Cases) (i : Nat) (st : σ), denFrom ρ N susp (p0Cases cs) i st = denFrom ρ N susp cs i st
    | .nil, _, _ => rfl
    | .cons d ks body r, 0, st => by
        simp only [p0Cases, denFrom, p0Stmts_sem ρ N susp body st]
        congr; funext o st'
        by_cases h : o = .nft
        · simp [h, p0Cases_sem ρ N susp r 0 st']
        · simp [h]
    | .cons d ks body r, i+1, st => by
        simp only [p0Cases, denFrom]; exact p0Cases_sem ρ N susp r i st
end

end GoCo.MG
