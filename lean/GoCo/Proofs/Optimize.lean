/-
  The optimiser's Delay elision, `Delay(func() Seq { return X })` ⇒ `X` for whitelisted `X`, preserves the
  semantics of well-formed generated code (`wo*`, Compile/Shape.lean) and keeps it well-formed.

  Why it is sound: eliding the Delay moves the construction of `X` from "when the thunk runs" to "when the
  enclosing combinator is constructed".  That is unobservable exactly when constructing `X` evaluates
  nothing and cannot panic (`pureX`): `X` is a Delay, a signal, a Bind of a LITERAL, or a Combine / For
  whose own arguments are pure.  The whitelist (`noEffectCall`) names Combine and For without looking at
  their arguments; the argument that they are pure is the shape invariant of generated code: the rewriter
  only passes `Delay(...)` there, and the elision itself keeps arguments pure.
-/
import GoCo.Compile.Shape
import GoCo.Compile.Sem
import GoCo.Proofs.ResLemmas
import GoCo.Proofs.Eta
set_option autoImplicit false

namespace GoCo.MG
variable {σ P : Type}

/-- constructing a pure Seq expression returns the same runner in every store and leaves the store alone -/
theorem pure_evalS (ρ : Interp σ P) (N : Nat) :
    ∀ (x : SExp), pureX x = true → ∃ r, ∀ st, evalS ρ N x st = (.ok r, st)
  | .sig s, _ => ⟨fun st' => .done s st', fun _ => rfl⟩
  | .bind e th, h => by
      simp only [pureX] at h
      exact ⟨fun st1 => .yield e.n st1 (fun st2 => denT ρ N th st2), fun st => by simp only [evalS, evalV, h, if_true]⟩
  | .delay th, _ => ⟨fun st' => denT ρ N th st', fun _ => rfl⟩
  | .combine a b, h => by
      simp only [pureX, Bool.and_eq_true] at h
      obtain ⟨ra, ha⟩ := pure_evalS ρ N a h.1
      obtain ⟨rb, hb⟩ := pure_evalS ρ N b h.2
      exact ⟨fun st1 => (ra st1).bind fun s st2 => if s = .normal then rb st2 else .done s st2,
        fun st => by simp only [evalS, ha, hb]⟩
  | .loop c p body, h => by
      simp only [pureX] at h
      obtain ⟨rb, hb⟩ := pure_evalS ρ N body h
      exact ⟨fun st1 => loopC (evalCond ρ c) (denInit ρ false p) rb N true st1, fun st => by simp only [evalS, hb]⟩
  | .start _, h => by simp [pureX] at h
  | .unknown _, h => by simp [pureX] at h

/-- running `func() Seq { return X }` = constructing `X` now and running it -/
theorem denT_lam_rete (ρ : Interp σ P) (N : Nat) (x : SExp) (r : σ → Res Sig σ P) (st : σ)
    (h : evalS ρ N x st = (.ok r, st)) : denT ρ N (.lam (.cons (.rete x) .nil)) st = r st := by
  simp only [denT, denL, denS, h, Res.bind_assoc]
  conv => rhs; rw [← Res.bind_done (r st)]
  congr

theorem odCases_select (ρ : Interp σ P) :
    ∀ (cs : Cases) (tv : Option Nat) (i : Nat) (st : σ),
      selectCase ρ (odCases cs) tv i st = selectCase ρ cs tv i st
  | .nil, _, _, _ => rfl
  | .cons true ks body r, tv, i, st => by
      simp only [odCases, selectCase]; exact odCases_select ρ r tv (i + 1) st
  | .cons false ks body r, some v, i, st => by
      simp only [odCases, selectCase, odCases_select ρ r (some v) (i + 1) st]
  | .cons false ks body r, none, i, st => by
      simp only [odCases, selectCase]
      rcases anyCond ρ ks st with ⟨_ | b, st'⟩
      · rfl
      · cases b
        · exact odCases_select ρ r none (i + 1) st'
        · rfl

theorem odCases_default : ∀ (cs : Cases) (i : Nat), defaultIndex (odCases cs) i = defaultIndex cs i
  | .nil, _ => rfl
  | .cons true _ _ _, _ => rfl
  | .cons false _ _ r, i => by simp only [odCases, defaultIndex]; exact odCases_default r (i + 1)

/-- a whitelisted expression found in well-formed code is pure -/
theorem noEffect_pure : ∀ (x : SExp), noEffectCall x = true → woX x = true → pureX x = true
  | .delay _, _, _ => rfl
  | .combine a b, _, hw => by
      simp only [woX, Bool.and_eq_true] at hw
      simp only [pureX, Bool.and_eq_true]; exact hw.1.1
  | .loop _ _ body, _, hw => by
      simp only [woX, Bool.and_eq_true] at hw
      simp only [pureX]; exact hw.1
  | .sig _, _, _ => rfl
  | .bind e _, h, _ => by simpa [noEffectCall, pureX] using h
  | .start _, h, _ => by simp [noEffectCall] at h
  | .unknown _, h, _ => by simp [noEffectCall] at h

mutual
  theorem odStmt_ok (ρ : Interp σ P) (N : Nat) :
      ∀ (s : Stmt), woS s = true →
        (∀ susp st, denS ρ N susp (odStmt s) st = denS ρ N susp s st) ∧ woS (odStmt s) = true
    | .block ss, h => by
        simp only [woS] at h
        obtain ⟨h1, h2⟩ := odStmts_ok ρ N ss h
        exact ⟨fun susp st => by simp only [odStmt, denS]; exact h1 susp st, by simpa [odStmt, woS] using h2⟩
    | .ifs init c thn els, h => by
        simp only [woS, Bool.and_eq_true] at h
        obtain ⟨h1, h2⟩ := odStmts_ok ρ N thn h.1
        obtain ⟨h3, h4⟩ := odElse_ok ρ N els h.2
        refine ⟨fun susp st => ?_, by simp [odStmt, woS, h2, h4]⟩
        simp only [odStmt, denS]
        have e1 : denL ρ N susp (odStmts thn) = denL ρ N susp thn := funext (h1 susp)
        have e2 : denElse ρ N susp (odElse els) = denElse ρ N susp els := funext (h3 susp)
        rw [e1, e2]
    | .switch init tag cases, h => by
        simp only [woS] at h
        obtain ⟨h1, h2⟩ := odCases_ok ρ N cases h
        refine ⟨fun susp st => ?_, by simpa [odStmt, woS] using h2⟩
        have hc : ∀ i, denFrom ρ N susp (odCases cases) i = denFrom ρ N susp cases i :=
          fun i => funext (h1 susp i)
        have hsel : ∀ tv i st, selectCase ρ (odCases cases) tv i st = selectCase ρ cases tv i st :=
          odCases_select ρ cases
        have hdef : ∀ i, defaultIndex (odCases cases) i = defaultIndex cases i := odCases_default cases
        simp only [odStmt, denS, hsel, hdef, hc]
    | .for_ init cond post body, h => by
        simp only [woS] at h
        obtain ⟨h1, h2⟩ := odStmts_ok ρ N body h
        refine ⟨fun susp st => ?_, by simpa [odStmt, woS] using h2⟩
        have hb : denL ρ N susp (odStmts body) = denL ρ N susp body := funext (h1 susp)
        simp only [odStmt, denS, hb]
    | .rete e, h => by
        simp only [woS] at h
        obtain ⟨h1, h2, _⟩ := odSExp_ok ρ N e h
        exact ⟨fun susp st => by simp only [odStmt, denS, h1 st], by simpa [odStmt, woS] using h2⟩
    | .simple _, h => ⟨fun _ _ => rfl, h⟩
    | .brk, h => ⟨fun _ _ => rfl, h⟩
    | .cont, h => ⟨fun _ _ => rfl, h⟩
    | .fallthrough, h => ⟨fun _ _ => rfl, h⟩
    | .ret, h => ⟨fun _ _ => rfl, h⟩
    | .unknown _, h => ⟨fun _ _ => rfl, h⟩
  theorem odStmts_ok (ρ : Interp σ P) (N : Nat) :
      ∀ (ss : Stmts), woL ss = true →
        (∀ susp st, denL ρ N susp (odStmts ss) st = denL ρ N susp ss st) ∧ woL (odStmts ss) = true
    | .nil, h => ⟨fun _ _ => rfl, h⟩
    | .cons s r, h => by
        simp only [woL, Bool.and_eq_true] at h
        obtain ⟨h1, h2⟩ := odStmt_ok ρ N s h.1
        obtain ⟨h3, h4⟩ := odStmts_ok ρ N r h.2
        refine ⟨fun susp st => ?_, by simp [odStmts, woL, h2, h4]⟩
        simp only [odStmts, denL, h1 susp st]
        congr; funext o st'
        by_cases ho : o = .fall
        · simp [ho, h3 susp st']
        · simp [ho]
  theorem odElse_ok (ρ : Interp σ P) (N : Nat) :
      ∀ (e : Else), woE e = true →
        (∀ susp st, denElse ρ N susp (odElse e) st = denElse ρ N susp e st) ∧ woE (odElse e) = true
    | .none, h => ⟨fun _ _ => rfl, h⟩
    | .els ss, h => by
        simp only [woE] at h
        obtain ⟨h1, h2⟩ := odStmts_ok ρ N ss h
        exact ⟨fun susp st => by simp only [odElse, denElse]; exact h1 susp st, by simpa [odElse, woE] using h2⟩
    | .elif s, h => by
        simp only [woE] at h
        obtain ⟨h1, h2⟩ := odStmt_ok ρ N s h
        exact ⟨fun susp st => by simp only [odElse, denElse]; exact h1 susp st, by simpa [odElse, woE] using h2⟩
  theorem odCases_ok (ρ : Interp σ P) (N : Nat) :
      ∀ (cs : Cases), woC cs = true →
        (∀ susp i st, denFrom ρ N susp (odCases cs) i st = denFrom ρ N susp cs i st) ∧ woC (odCases cs) = true
    | .nil, h => ⟨fun _ _ _ => rfl, h⟩
    | .cons d ks body r, h => by
        simp only [woC, Bool.and_eq_true] at h
        obtain ⟨h1, h2⟩ := odStmts_ok ρ N body h.1
        obtain ⟨h3, h4⟩ := odCases_ok ρ N r h.2
        refine ⟨fun susp i st => ?_, by simp [odCases, woC, h2, h4]⟩
        cases i with
        | zero =>
          simp only [odCases, denFrom, h1 susp st]
          congr; funext o st'
          by_cases ho : o = .nft
          · simp [ho, h3 susp 0 st']
          · simp [ho]
        | succ i => simp only [odCases, denFrom]; exact h3 susp i st
  theorem odSExp_ok (ρ : Interp σ P) (N : Nat) :
      ∀ (e : SExp), woX e = true →
        (∀ st, evalS ρ N (odSExp e) st = evalS ρ N e st) ∧ woX (odSExp e) = true ∧
          (pureX e = true → pureX (odSExp e) = true)
    | .bind e th, h => by
        simp only [woX] at h
        obtain ⟨h1, h2⟩ := odThunk_ok ρ N th h
        refine ⟨fun st => ?_, by simpa [odSExp, woX] using h2, fun hp => by simpa [odSExp, pureX] using hp⟩
        simp only [odSExp, evalS]
        have : denT ρ N (odThunk th) = denT ρ N th := funext h1
        rw [this]
    | .delay th, h => by
        simp only [woX] at h
        obtain ⟨h1, h2⟩ := odThunk_ok ρ N th h
        have hfun : denT ρ N (odThunk th) = denT ρ N th := funext h1
        simp only [odSExp]
        split
        · rename_i x hx
          split
          · rename_i hne
            -- the Delay is elided
            rw [hx] at h2 hfun
            have hwx : woX x = true := by simpa [woT, woL, woS] using h2
            have hpx := noEffect_pure x hne hwx
            obtain ⟨r, hr⟩ := pure_evalS ρ N x hpx
            refine ⟨fun st => ?_, hwx, fun _ => hpx⟩
            rw [hr st]
            simp only [evalS]
            congr; funext st'
            rw [← hfun]
            exact (denT_lam_rete ρ N x r st' (hr st')).symm
          · rw [hx] at h2 hfun
            refine ⟨fun st => ?_, by simpa [woX] using h2, fun _ => rfl⟩
            simp only [evalS, hfun]
        · refine ⟨fun st => ?_, by simpa [woX] using h2, fun _ => rfl⟩
          simp only [evalS, hfun]
    | .combine a b, h => by
        simp only [woX, Bool.and_eq_true] at h
        obtain ⟨a1, a2, a3⟩ := odSExp_ok ρ N a h.1.2
        obtain ⟨b1, b2, b3⟩ := odSExp_ok ρ N b h.2
        refine ⟨fun st => ?_, by simp [odSExp, woX, a2, b2, a3 h.1.1.1, b3 h.1.1.2], fun _ => by
          simp [odSExp, pureX, a3 h.1.1.1, b3 h.1.1.2]⟩
        simp only [odSExp, evalS, a1 st]
        rcases evalS ρ N a st with ⟨_ | ra, st'⟩
        · rfl
        · simp only [b1 st']
    | .loop c p body, h => by
        simp only [woX, Bool.and_eq_true] at h
        obtain ⟨b1, b2, b3⟩ := odSExp_ok ρ N body h.2
        exact ⟨fun st => by simp only [odSExp, evalS, b1 st], by simp [odSExp, woX, b2, b3 h.1], fun _ => by
          simp [odSExp, pureX, b3 h.1]⟩
    | .start a, h => by
        simp only [woX] at h
        obtain ⟨a1, a2, _⟩ := odSExp_ok ρ N a h
        exact ⟨fun st => by simp only [odSExp, evalS]; exact a1 st, by simpa [odSExp, woX] using a2, fun hp => by
          simp [pureX] at hp⟩
    | .sig _, h => ⟨fun _ => rfl, h, fun hp => hp⟩
    | .unknown _, h => ⟨fun _ => rfl, h, fun hp => hp⟩
  theorem odThunk_ok (ρ : Interp σ P) (N : Nat) :
      ∀ (th : Thunk), woT th = true →
        (∀ st, denT ρ N (odThunk th) st = denT ρ N th st) ∧ woT (odThunk th) = true
    | .fn _, h => ⟨fun _ => rfl, h⟩
    | .lam ss, h => by
        simp only [woT] at h
        obtain ⟨h1, h2⟩ := odStmts_ok ρ N ss h
        exact ⟨fun st => by simp only [odThunk, denT, h1 false st], by simpa [odThunk, woT] using h2⟩
end

end GoCo.MG
