/-
  The per-function pipeline pass0 → pass2 → pass3 preserves the coroutine semantics
  (on the fragment, under the guard).
-/
import GoCo.Proofs.Pass0
import GoCo.Proofs.Pass2
import GoCo.Proofs.Pass3
import GoCo.Proofs.Eta
set_option autoImplicit false

namespace GoCo.MG
variable {σ P : Type}

/-- the guard of the theorem: after pass0 the body is in the proved fragment (no switch / fallthrough,
    no yield in an if-initialiser) and avoids findings D6 / D7 -/
def InFragment (body : Stmts) : Bool :=
  fragL (p0Stmts body) && supportedL false false (p0Stmts body)

/-- **compile_correct_partial**: a compiled generator body, run as the iterator's thunk, behaves as the
    source body run as a coroutine - same yields, same effects between them, same end, same panics -
    for every interpretation of the atoms, every store, every loop budget. -/
theorem compile_correct_partial (ρ : Interp σ P) (N : Nat) (q : Quirks) (body t : Stmts)
    (h : compile q body = .ok t) (hg : InFragment body = true) :
    ∃ th, t = .cons (.rete (.start (.delay th))) .nil ∧
      ∀ st, denT ρ N th st = closed (denL ρ N true body st) := by
  unfold compile at h
  obtain ⟨b, hb, h⟩ := bind_ok h
  obtain ⟨th, hth, h⟩ := bind_ok h
  cases pure_ok h
  simp only [InFragment, Bool.and_eq_true] at hg
  refine ⟨th, rfl, fun st => ?_⟩
  obtain ⟨_, _, h3⟩ := rwStmts_ok ρ N q (p0Stmts body) (Blk.mk0 .delay) b false false hg.1 hg.2
    (open_mk0 ρ N .delay) hb
  rw [p3Thunk_sem ρ N q _ th hth st]
  show closed (Dblk ρ N b st) = _
  rw [h3, Dblk_mk0, seqN_done_fall, p0Stmts_sem]

/-- the same through eta-reduction (the second half of the optimiser) -/
theorem compile_eta_correct_partial (ρ : Interp σ P) (N : Nat) (q : Quirks) (body t : Stmts)
    (h : compile q body = .ok t) (hg : InFragment body = true) :
    ∃ th, etaStmts t = .cons (.rete (.start (.delay th))) .nil ∧
      ∀ st, denT ρ N th st = closed (denL ρ N true body st) := by
  obtain ⟨th, rfl, hsem⟩ := compile_correct_partial ρ N q body t h hg
  refine ⟨etaThunk th, rfl, fun st => ?_⟩
  rw [etaThunk_sem, hsem]

end GoCo.MG
