/- Generic lemmas on resumption trees: predicates on all leaves, absence of yield nodes,
   sequencing of native flow with signal-level continuations. -/
import GoCo.Compile.Sem
set_option autoImplicit false

namespace GoCo.MG
variable {α β σ P : Type}

/-- every `done` leaf satisfies `p` -/
inductive Res.All (p : α → Prop) : Res α σ P → Prop
  | done {o st} : p o → Res.All p (.done o st)
  | yield {v st r} : (∀ st', Res.All p (r st')) → Res.All p (.yield v st r)
  | panic {e st} : Res.All p (.panic e st)
  | oob : Res.All p .oob

/-- the tree has no `yield` node -/
inductive Res.NoY : Res α σ P → Prop
  | done {o st} : Res.NoY (.done o st)
  | panic {e st} : Res.NoY (.panic e st)
  | oob : Res.NoY .oob

theorem Res.All.mono {p q : α → Prop} {r : Res α σ P} (h : ∀ o, p o → q o) (hr : Res.All p r) : Res.All q r := by
  induction hr with
  | done hp => exact .done (h _ hp)
  | yield _ ih => exact .yield ih
  | panic => exact .panic
  | oob => exact .oob

theorem Res.All.bind {p : α → Prop} {q : β → Prop} {r : Res α σ P} {f : α → σ → Res β σ P}
    (hr : Res.All p r) (hf : ∀ o st, p o → Res.All q (f o st)) : Res.All q (r.bind f) := by
  induction hr with
  | done hp => exact hf _ _ hp
  | yield _ ih => exact .yield ih
  | panic => exact .panic
  | oob => exact .oob

theorem Res.bind_congr {p : α → Prop} {r : Res α σ P} {f g : α → σ → Res β σ P}
    (hr : Res.All p r) (h : ∀ o st, p o → f o st = g o st) : r.bind f = r.bind g := by
  induction hr with
  | done hp => exact h _ _ hp
  | yield _ ih => simp only [Res.bind]; congr; funext st'; exact ih st'
  | panic => rfl
  | oob => rfl

theorem Res.all_true (r : Res α σ P) : Res.All (fun _ => True) r := by
  induction r with
  | done o st => exact .done trivial
  | yield v st r ih => exact .yield ih
  | panic p st => exact .panic
  | oob => exact .oob

/-- a tree without yield nodes is a single leaf -/
theorem Res.NoY.bind_iff {r : Res α σ P} {f : α → σ → Res β σ P} :
    Res.NoY (r.bind f) ↔ Res.NoY r ∧ ∀ o st, r = .done o st → Res.NoY (f o st) := by
  cases r with
  | done o st => simp only [Res.bind]; exact ⟨fun h => ⟨.done, fun o' st' e => by cases e; exact h⟩, fun h => h.2 _ _ rfl⟩
  | yield v st r => simp only [Res.bind]; exact ⟨fun h => (by cases h), fun h => (by cases h.1)⟩
  | panic p st => simp only [Res.bind]; exact ⟨fun _ => ⟨.panic, fun _ _ e => by cases e⟩, fun _ => .panic⟩
  | oob => simp only [Res.bind]; exact ⟨fun _ => ⟨.oob, fun _ _ e => by cases e⟩, fun _ => .oob⟩

/-! ### native flow, closed at a literal boundary -/

/-- run `g` when `r` falls through -/
def thenF (r : Res Flow σ P) (g : σ → Res Flow σ P) : Res Flow σ P :=
  r.bind fun o st => if o = .fall then g st else .done o st

def closed (r : Res Flow σ P) : Res Sig σ P := r.bind closeThunk

/-- continue with `K` when `r` completes normally: falls through, or exits its literal with Normal -/
def seqN (r : Res Flow σ P) (K : σ → Res Sig σ P) : Res Sig σ P :=
  (closed r).bind fun s st => if s = .normal then K st else .done s st

/-- outcomes on which falling through and exiting with Normal cannot be confused -/
def Plain (o : Flow) : Prop := o ≠ .exit .normal ∧ o ≠ .nft

theorem thenF_done (r : Res Flow σ P) : thenF r (fun st => .done .fall st) = r := by
  unfold thenF
  conv => rhs; rw [← Res.bind_done r]
  congr; funext o st; by_cases h : o = .fall <;> simp [h]

theorem thenF_assoc (r : Res Flow σ P) (f g : σ → Res Flow σ P) :
    thenF (thenF r f) g = thenF r (fun st => thenF (f st) g) := by
  unfold thenF
  rw [Res.bind_assoc]
  congr; funext o st
  by_cases h : o = .fall
  · simp [h]
  · simp [h, Res.bind]

theorem closed_done (o : Flow) (st : σ) : closed (.done o st : Res Flow σ P) = closeThunk o st := rfl

theorem seqN_done_fall (st : σ) (K : σ → Res Sig σ P) : seqN (.done .fall st) K = K st := by
  simp [seqN, closed, Res.bind, closeThunk]

theorem seqN_Kn (r : Res Flow σ P) : seqN r (fun st => .done .normal st) = closed r := by
  unfold seqN
  conv => rhs; rw [← Res.bind_done (closed r)]
  congr; funext s st; by_cases h : s = .normal <;> simp [h]

/-- sequencing distributes over a prefix whose outcomes are `Plain` -/
theorem seqN_thenF {r : Res Flow σ P} (hr : Res.All Plain r) (g : σ → Res Flow σ P) (K : σ → Res Sig σ P) :
    seqN (thenF r g) K = seqN r (fun st => seqN (g st) K) := by
  induction hr with
  | done hp =>
    rename_i o st
    obtain ⟨h1, h2⟩ := hp
    cases o with
    | fall => simp [thenF, seqN, closed, Res.bind, closeThunk]
    | nbrk => simp [thenF, seqN, closed, Res.bind, closeThunk]
    | ncont => simp [thenF, seqN, closed, Res.bind, closeThunk]
    | nft => exact absurd rfl h2
    | exit s =>
      cases s with
      | normal => exact absurd rfl h1
      | brk => simp [thenF, seqN, closed, Res.bind, closeThunk]
      | cont => simp [thenF, seqN, closed, Res.bind, closeThunk]
      | ret => simp [thenF, seqN, closed, Res.bind, closeThunk]
  | yield _ ih =>
    simp only [thenF, seqN, closed, Res.bind] at ih ⊢
    congr; funext st'; exact ih st'
  | panic => rfl
  | oob => rfl

theorem closed_thenF {r : Res Flow σ P} (hr : Res.All Plain r) (g : σ → Res Flow σ P) :
    closed (thenF r g) = seqN r (fun st => closed (g st)) := by
  rw [← seqN_Kn, seqN_thenF hr]
  congr; funext st; exact seqN_Kn _

/-- appending `return Normal()` changes nothing once the literal is closed -/
theorem closed_thenF_exitNormal (r : Res Flow σ P) :
    closed (thenF r (fun st => .done (.exit .normal) st)) = closed r := by
  induction r with
  | done o st => by_cases h : o = .fall <;> simp [h, thenF, closed, Res.bind, closeThunk]
  | yield v st r ih =>
    simp only [thenF, closed, Res.bind] at ih ⊢
    congr; funext st'; exact ih st'
  | panic p st => rfl
  | oob => rfl

/-- `seqN` only looks at the closed tree -/
theorem seqN_congr_closed {r r' : Res Flow σ P} (h : closed r = closed r') (K : σ → Res Sig σ P) :
    seqN r K = seqN r' K := by
  unfold seqN; rw [h]

theorem closed_noY_iff (r : Res Flow σ P) : Res.NoY (closed r) ↔ Res.NoY r := by
  cases r with
  | done o st => cases o <;> simp only [closed, Res.bind, closeThunk] <;> exact ⟨fun _ => .done, fun _ => .done⟩
  | yield v st r => simp only [closed, Res.bind]; exact ⟨fun h => (by cases h), fun h => (by cases h)⟩
  | panic p st => exact ⟨fun _ => .panic, fun _ => .panic⟩
  | oob => exact ⟨fun _ => .oob, fun _ => .oob⟩

end GoCo.MG
