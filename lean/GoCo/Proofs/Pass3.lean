/-
  pass3 (break / continue that are no longer inside a native loop / switch become
  `return seq.Break()` / `return seq.Continue()`; a redundant trailing `return Normal()` is dropped)
  preserves the meaning of every function literal - all statement forms, switch included.
-/
import GoCo.Proofs.Pass2Lemmas
set_option autoImplicit false

namespace GoCo.MG
variable {σ P : Type}

/-- what pass3 does to the outcome of a statement at a position with the given native context -/
def normF (inLoop inSwitch : Bool) : Flow → Flow
  | .nbrk => if inLoop || inSwitch then .nbrk else .exit .brk
  | .ncont => if inLoop then .ncont else .exit .cont
  | o => o

def mapO (f : Flow → Flow) (r : Res Flow σ P) : Res Flow σ P := r.bind fun o st => .done (f o) st

theorem normF_fall_iff (il isw : Bool) (o : Flow) : normF il isw o = .fall ↔ o = .fall := by
  cases o <;> simp [normF] <;> split <;> simp

theorem normF_nft_iff (il isw : Bool) (o : Flow) : normF il isw o = .nft ↔ o = .nft := by
  cases o <;> simp [normF] <;> split <;> simp

theorem normF_true (isw : Bool) (o : Flow) : normF true isw o = o := by
  cases o <;> simp [normF]

theorem closeThunk_normF (o : Flow) (st : σ) :
    (closeThunk (normF false false o) st : Res Sig σ P) = closeThunk o st := by
  cases o <;> simp [normF, closeThunk]

theorem mapO_id (r : Res Flow σ P) : mapO (fun o => o) r = r := Res.bind_done r

theorem mapO_done (f : Flow → Flow) (o : Flow) (st : σ) : mapO f (.done o st : Res Flow σ P) = .done (f o) st := rfl

theorem mapO_bind {α : Type} (f : Flow → Flow) (r : Res α σ P) (g : α → σ → Res Flow σ P) :
    mapO f (r.bind g) = r.bind fun o st => mapO f (g o st) := by
  simp only [mapO, Res.bind_assoc]

theorem mapO_thenF (f : Flow → Flow) (hf : ∀ o, f o = .fall ↔ o = .fall) (r : Res Flow σ P)
    (g : σ → Res Flow σ P) :
    mapO f (thenF r g) = thenF (mapO f r) (fun st => mapO f (g st)) := by
  simp only [thenF, mapO, Res.bind_assoc]
  congr; funext o st
  by_cases h : o = .fall
  · subst h; simp [Res.bind, (hf .fall).2 rfl]
  · have : f o ≠ .fall := fun h' => h ((hf o).1 h')
    simp [Res.bind, h, this]

theorem closed_mapO_normF (r : Res Flow σ P) : closed (mapO (normF false false) r) = closed r := by
  simp only [closed, mapO, Res.bind_assoc]
  congr; funext o st
  exact closeThunk_normF o st

theorem denSimple_mapO (ρ : Interp σ P) (susp : Bool) (s : Simple) (il isw : Bool) (st : σ) :
    mapO (normF il isw) (denSimple ρ susp s st) = denSimple ρ susp s st := by
  unfold mapO
  conv => rhs; rw [← Res.bind_done (denSimple ρ susp s st)]
  exact Res.bind_congr (denSimple_fallOnly ρ susp s st) fun o st' (h : o = Flow.fall) => by subst h; rfl

theorem loopF_mapO_self (cond : σ → Except P Bool × σ) (post body : σ → Res Flow σ P) (il isw : Bool)
    (hp : ∀ st, Res.All (fun o => o = Flow.fall) (post st)) :
    ∀ n st, mapO (normF il isw) (loopF cond post body n st) = loopF cond post body n st := by
  intro n
  induction n with
  | zero => intro st; rfl
  | succ n ih =>
    intro st
    simp only [loopF]
    rcases cond st with ⟨_ | b, st1⟩
    · rfl
    · cases b
      · rfl
      · simp only [mapO_bind]
        congr; funext o st2
        cases o with
        | fall =>
          simp only [mapO_bind]
          refine Res.bind_congr (hp st2) fun o' st3 (h : o' = Flow.fall) => ?_
          subst h; simp only [if_true]; exact ih st3
        | ncont =>
          simp only [mapO_bind]
          refine Res.bind_congr (hp st2) fun o' st3 (h : o' = Flow.fall) => ?_
          subst h; simp only [if_true]; exact ih st3
        | nbrk => rfl
        | nft => rfl
        | exit s => rfl

/-- dropping a trailing `return Normal()` changes nothing once the literal is closed -/
theorem closed_dropLast_normal (ρ : Interp σ P) (N : Nat) :
    ∀ (ss : Stmts), lastStmt? ss = some (.rete (.sig .normal)) →
      ∀ st, closed (denL ρ N false (dropLast ss) st) = closed (denL ρ N false ss st)
  | .nil, h, _ => by simp [lastStmt?] at h
  | .cons s .nil, h, st => by
      simp only [lastStmt?] at h
      cases h
      simp [dropLast, denL, denS, evalS, Res.bind, closed, closeThunk]
  | .cons s (.cons x r), h, st => by
      simp only [lastStmt?] at h
      simp only [dropLast, denL_cons, closed, thenF, Res.bind_assoc]
      congr; funext o st'
      by_cases ho : o = .fall
      · simp only [ho, if_true]
        exact closed_dropLast_normal ρ N (.cons x r) h st'
      · simp [ho, Res.bind]

theorem rmRedundantReturn_closed (ρ : Interp σ P) (N : Nat) (q : Quirks) (ss ss' : Stmts)
    (h : rmRedundantReturn q ss = .ok ss') (st : σ) :
    closed (denL ρ N false ss' st) = closed (denL ρ N false ss st) := by
  unfold rmRedundantReturn at h
  split at h
  · rename_i hl
    obtain ⟨t, _, h⟩ := bind_ok h
    cases t
    · simp only [Bool.false_eq_true, if_false] at h; cases pure_ok h; rfl
    · simp only [if_true] at h; cases pure_ok h
      exact closed_dropLast_normal ρ N ss hl st
  · cases pure_ok h; rfl

theorem p3Cases_select (ρ : Interp σ P) (q : Quirks) (il isw : Bool) :
    ∀ (cs cs' : Cases) (b : Bool), p3Cases q il isw cs = .ok (cs', b) →
      ∀ (tv : Option Nat) (i : Nat) (st : σ), selectCase ρ cs' tv i st = selectCase ρ cs tv i st
  | .nil, cs', b, h, tv, i, st => by
      simp only [p3Cases] at h; cases pure_ok h; rfl
  | .cons d ks body r, cs', b, h, tv, i, st => by
      simp only [p3Cases] at h
      obtain ⟨x, _, h⟩ := bind_ok h
      obtain ⟨y, hy, h⟩ := bind_ok h
      cases pure_ok h
      have ih := p3Cases_select ρ q il isw r y.1 y.2 hy
      cases d with
      | true => simp only [selectCase]; exact ih tv (i + 1) st
      | false =>
        cases tv with
        | some v => simp only [selectCase, ih]
        | none =>
          simp only [selectCase]
          rcases anyCond ρ ks st with ⟨_ | b, st'⟩
          · rfl
          · cases b
            · exact ih none (i + 1) st'
            · rfl

theorem p3Cases_default (q : Quirks) (il isw : Bool) :
    ∀ (cs cs' : Cases) (b : Bool), p3Cases q il isw cs = .ok (cs', b) →
      ∀ i, defaultIndex cs' i = defaultIndex cs i
  | .nil, cs', b, h, i => by
      simp only [p3Cases] at h; cases pure_ok h; rfl
  | .cons d ks body r, cs', b, h, i => by
      simp only [p3Cases] at h
      obtain ⟨x, _, h⟩ := bind_ok h
      obtain ⟨y, hy, h⟩ := bind_ok h
      cases pure_ok h
      cases d with
      | true => rfl
      | false => simp only [defaultIndex]; exact p3Cases_default q il isw r y.1 y.2 hy (i + 1)

mutual
  theorem p3Stmt_sem (ρ : Interp σ P) (N : Nat) (q : Quirks) :
      ∀ (s s' : Stmt) (il isw b : Bool), p3Stmt q il isw s = .ok (s', b) →
        ∀ st, denS ρ N false s' st = mapO (normF il isw) (denS ρ N false s st)
    | .brk, s', il, isw, b, h, st => by
        simp only [p3Stmt] at h
        have := pure_ok h
        by_cases hc : (il || isw) = true
        · rw [if_pos hc] at this; cases this
          simp [denS, mapO, Res.bind, normF, hc]
        · rw [if_neg hc] at this; cases this
          simp [denS, evalS, mapO, Res.bind, normF, hc]
    | .cont, s', il, isw, b, h, st => by
        simp only [p3Stmt] at h
        have := pure_ok h
        by_cases hc : il = true
        · rw [if_pos hc] at this; cases this
          simp [denS, mapO, Res.bind, normF, hc]
        · rw [if_neg hc] at this; cases this
          simp [denS, evalS, mapO, Res.bind, normF, hc]
    | .fallthrough, s', il, isw, b, h, st => by
        simp only [p3Stmt] at h
        split at h
        · cases pure_ok h; rfl
        · cases h
    | .block ss, s', il, isw, b, h, st => by
        simp only [p3Stmt] at h
        obtain ⟨x, hx, h⟩ := bind_ok h
        cases pure_ok h
        simp only [denS]
        exact p3Stmts_sem ρ N q ss x.1 il isw x.2 hx st
    | .ifs init c thn els, s', il, isw, b, h, st => by
        simp only [p3Stmt] at h
        obtain ⟨x, hx, h⟩ := bind_ok h
        obtain ⟨y, hy, h⟩ := bind_ok h
        cases pure_ok h
        simp only [denS, mapO_bind]
        congr; funext _ st1
        rcases ρ.cond c.n st1 with ⟨_ | bb, st2⟩
        · rfl
        · cases bb
          · exact p3Else_sem ρ N q els y.1 il isw y.2 hy st2
          · exact p3Stmts_sem ρ N q thn x.1 il isw x.2 hx st2
    | .switch init tag cases, s', il, isw, b, h, st => by
        simp only [p3Stmt] at h
        obtain ⟨x, hx, h⟩ := bind_ok h
        cases pure_ok h
        have hsel := p3Cases_select ρ q il true cases x.1 x.2 hx
        have hdef := p3Cases_default q il true cases x.1 x.2 hx
        have hfrom := p3Cases_sem ρ N q cases x.1 il x.2 hx
        have tail : ∀ (tv : Option Nat) (st2 : σ),
            (match selectCase ρ cases tv 0 st2 with
              | (.error p, st3) => (.panic p st3 : Res Flow σ P)
              | (.ok idx, st3) =>
                match (match idx with | some i => some i | none => defaultIndex cases 0) with
                | none => .done .fall st3
                | some i => (denFrom ρ N false x.1 i st3).bind fun o st4 =>
                    if o = .nbrk then .done .fall st4 else .done o st4)
            = mapO (normF il isw)
              (match selectCase ρ cases tv 0 st2 with
              | (.error p, st3) => (.panic p st3 : Res Flow σ P)
              | (.ok idx, st3) =>
                match (match idx with | some i => some i | none => defaultIndex cases 0) with
                | none => .done .fall st3
                | some i => (denFrom ρ N false cases i st3).bind fun o st4 =>
                    if o = .nbrk then .done .fall st4 else .done o st4) := by
          intro tv st2
          rcases selectCase ρ cases tv 0 st2 with ⟨_ | idx, st3⟩
          · rfl
          · simp only
            generalize (match idx with | some i => some i | none => defaultIndex cases 0) = ii
            cases ii with
            | none => rfl
            | some i =>
              simp only [hfrom, mapO_bind, mapO, Res.bind_assoc]
              congr; funext o st4
              cases o <;> simp [normF, Res.bind] <;> split <;> simp
        simp only [denS, mapO_bind, hsel, hdef]
        congr; funext _ st1
        cases tag with
        | none => exact tail none st1
        | some t =>
          simp only
          rcases ρ.tag t.n st1 with ⟨_ | v, st2⟩
          · rfl
          · exact tail (some v) st2
    | .for_ init cond post body, s', il, isw, b, h, st => by
        simp only [p3Stmt] at h
        obtain ⟨x, hx, h⟩ := bind_ok h
        cases pure_ok h
        have hb : denL ρ N false x.1 = denL ρ N false body := by
          funext st'
          rw [p3Stmts_sem ρ N q body x.1 true isw x.2 hx st']
          have : normF true isw = fun o => o := funext (normF_true isw)
          rw [this]; exact mapO_id _
        simp only [denS, hb, mapO_bind]
        congr; funext _ st1
        exact (loopF_mapO_self _ _ _ il isw (denInit_fallOnly ρ false post) N st1).symm
    | .rete e, s', il, isw, b, h, st => by
        simp only [p3Stmt] at h
        obtain ⟨e', he', h⟩ := bind_ok h
        cases pure_ok h
        simp only [denS, p3SExp_sem ρ N q e e' he' st]
        rcases evalS ρ N e st with ⟨_ | run, st'⟩
        · rfl
        · simp only [mapO, Res.bind_assoc]
          congr
    | .simple s, s', il, isw, b, h, st => by
        simp only [p3Stmt] at h; cases pure_ok h
        simp only [denS]; exact (denSimple_mapO ρ false s il isw st).symm
    | .ret, s', il, isw, b, h, st => by
        simp only [p3Stmt] at h; cases pure_ok h; rfl
    | .unknown t, s', il, isw, b, h, st => by
        simp only [p3Stmt] at h; cases pure_ok h; rfl
  theorem p3Stmts_sem (ρ : Interp σ P) (N : Nat) (q : Quirks) :
      ∀ (ss ss' : Stmts) (il isw b : Bool), p3Stmts q il isw ss = .ok (ss', b) →
        ∀ st, denL ρ N false ss' st = mapO (normF il isw) (denL ρ N false ss st)
    | .nil, ss', il, isw, b, h, st => by
        simp only [p3Stmts] at h; cases pure_ok h; rfl
    | .cons s r, ss', il, isw, b, h, st => by
        simp only [p3Stmts] at h
        obtain ⟨x, hx, h⟩ := bind_ok h
        obtain ⟨y, hy, h⟩ := bind_ok h
        cases pure_ok h
        rw [denL_cons, denL_cons, mapO_thenF _ (normF_fall_iff il isw), p3Stmt_sem ρ N q s x.1 il isw x.2 hx st]
        congr; funext st'
        exact p3Stmts_sem ρ N q r y.1 il isw y.2 hy st'
  theorem p3Else_sem (ρ : Interp σ P) (N : Nat) (q : Quirks) :
      ∀ (e e' : Else) (il isw b : Bool), p3Else q il isw e = .ok (e', b) →
        ∀ st, denElse ρ N false e' st = mapO (normF il isw) (denElse ρ N false e st)
    | .none, e', il, isw, b, h, st => by
        simp only [p3Else] at h; cases pure_ok h; rfl
    | .els ss, e', il, isw, b, h, st => by
        simp only [p3Else] at h
        obtain ⟨x, hx, h⟩ := bind_ok h
        cases pure_ok h
        simp only [denElse]; exact p3Stmts_sem ρ N q ss x.1 il isw x.2 hx st
    | .elif s, e', il, isw, b, h, st => by
        simp only [p3Else] at h
        obtain ⟨x, hx, h⟩ := bind_ok h
        cases pure_ok h
        simp only [denElse]; exact p3Stmt_sem ρ N q s x.1 il isw x.2 hx st
  theorem p3Cases_sem (ρ : Interp σ P) (N : Nat) (q : Quirks) :
      ∀ (cs cs' : Cases) (il b : Bool), p3Cases q il true cs = .ok (cs', b) →
        ∀ (i : Nat) (st : σ), denFrom ρ N false cs' i st = mapO (normF il true) (denFrom ρ N false cs i st)
    | .nil, cs', il, b, h, i, st => by
        simp only [p3Cases] at h; cases pure_ok h; rfl
    | .cons d ks body r, cs', il, b, h, i, st => by
        simp only [p3Cases] at h
        obtain ⟨x, hx, h⟩ := bind_ok h
        obtain ⟨y, hy, h⟩ := bind_ok h
        cases pure_ok h
        cases i with
        | zero =>
          simp only [denFrom, p3Stmts_sem ρ N q body x.1 il true x.2 hx st, mapO_bind, mapO, Res.bind_assoc]
          congr; funext o st'
          by_cases ho : o = .nft
          · subst ho
            simp only [Res.bind, normF, if_true]
            exact p3Cases_sem ρ N q r y.1 il y.2 hy 0 st'
          · have : normF il true o ≠ .nft := fun h' => ho ((normF_nft_iff il true o).1 h')
            simp [Res.bind, ho, this]
        | succ i =>
          simp only [denFrom]
          exact p3Cases_sem ρ N q r y.1 il y.2 hy i st
  theorem p3SExp_sem (ρ : Interp σ P) (N : Nat) (q : Quirks) :
      ∀ (e e' : SExp), p3SExp q e = .ok e' → ∀ st, evalS ρ N e' st = evalS ρ N e st
    | .bind v th, e', h, st => by
        simp only [p3SExp] at h
        obtain ⟨th', hth, h⟩ := bind_ok h
        cases pure_ok h
        have : denT ρ N th' = denT ρ N th := funext (p3Thunk_sem ρ N q th th' hth)
        simp only [evalS, this]
    | .delay th, e', h, st => by
        simp only [p3SExp] at h
        obtain ⟨th', hth, h⟩ := bind_ok h
        cases pure_ok h
        have : denT ρ N th' = denT ρ N th := funext (p3Thunk_sem ρ N q th th' hth)
        simp only [evalS, this]
    | .combine a b, e', h, st => by
        simp only [p3SExp] at h
        obtain ⟨a', ha, h⟩ := bind_ok h
        obtain ⟨b', hb, h⟩ := bind_ok h
        cases pure_ok h
        simp only [evalS, p3SExp_sem ρ N q a a' ha st]
        rcases evalS ρ N a st with ⟨_ | ra, st'⟩
        · rfl
        · simp only [p3SExp_sem ρ N q b b' hb st']
    | .loop c p body, e', h, st => by
        simp only [p3SExp] at h
        obtain ⟨b', hb, h⟩ := bind_ok h
        cases pure_ok h
        simp only [evalS, p3SExp_sem ρ N q body b' hb st]
    | .start a, e', h, st => by
        simp only [p3SExp] at h
        obtain ⟨a', ha, h⟩ := bind_ok h
        cases pure_ok h
        simp only [evalS]; exact p3SExp_sem ρ N q a a' ha st
    | .sig s, e', h, st => by simp only [p3SExp] at h; cases pure_ok h; rfl
    | .unknown t, e', h, st => by simp only [p3SExp] at h; cases pure_ok h; rfl
  theorem p3Thunk_sem (ρ : Interp σ P) (N : Nat) (q : Quirks) :
      ∀ (th th' : Thunk), p3Thunk q th = .ok th' → ∀ st, denT ρ N th' st = denT ρ N th st
    | .fn s, th', h, st => by simp only [p3Thunk] at h; cases pure_ok h; rfl
    | .lam ss, th', h, st => by
        simp only [p3Thunk] at h
        obtain ⟨x, hx, h⟩ := bind_ok h
        have hcl : ∀ st, closed (denL ρ N false x.1 st) = closed (denL ρ N false ss st) := fun st => by
          rw [p3Stmts_sem ρ N q ss x.1 false false x.2 hx st, closed_mapO_normF]
        split at h
        · obtain ⟨ss2, hss2, h⟩ := bind_ok h
          cases pure_ok h
          show closed (denL ρ N false ss2 st) = closed (denL ρ N false ss st)
          rw [rmRedundantReturn_closed ρ N q x.1 ss2 hss2 st, hcl]
        · cases pure_ok h
          exact hcl st
end

end GoCo.MG
