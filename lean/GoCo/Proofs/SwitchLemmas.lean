/-
  Facts about expression switches needed by the pass2 proof:
  * which clause is entered depends only on the clause headers, which `rwCases` keeps;
  * source statements under the guard "no break targets this switch" never complete with `nbrk`;
  * code without a `fallthrough` statement never completes with `nft`;
  * hence a switch whose clause bodies agree up to `closed` agrees up to `closed`.
-/
import GoCo.Proofs.Pass2Lemmas
import GoCo.Proofs.Total
set_option autoImplicit false

namespace GoCo.MG
variable {σ P : Type}

/-! ### no `nbrk` escapes a statement in which no `break` targets an enclosing yielding switch -/

theorem loopF_noBrk (cond : σ → Except P Bool × σ) (post body : σ → Res Flow σ P)
    (hp : ∀ st, Res.All (fun o => o ≠ Flow.nbrk) (post st)) :
    ∀ n st, Res.All (fun o => o ≠ Flow.nbrk) (loopF cond post body n st) := by
  intro n
  induction n with
  | zero => intro st; exact .oob
  | succ n ih =>
    intro st
    simp only [loopF]
    rcases cond st with ⟨_ | b, st1⟩
    · exact .panic
    · cases b
      · exact .done (by simp)
      · refine (Res.all_true (body st1)).bind fun o st2 _ => ?_
        cases o with
        | fall =>
          refine (hp st2).bind fun o' st3 ho' => ?_
          by_cases h : o' = .fall
          · simp only [h, if_true]; exact ih st3
          · simp only [h, if_false]; exact .done ho'
        | ncont =>
          refine (hp st2).bind fun o' st3 ho' => ?_
          by_cases h : o' = .fall
          · simp only [h, if_true]; exact ih st3
          · simp only [h, if_false]; exact .done ho'
        | nbrk => exact .done (by simp)
        | nft => exact .done (by simp)
        | exit s => exact .done (by simp)

mutual
  theorem suppS_noBrk (ρ : Interp σ P) (N : Nat) (susp : Bool) (cb : Bool) :
      ∀ (s : Stmt), supportedS cb true s = true → fragS s = true →
        ∀ st, Res.All (fun o => o ≠ Flow.nbrk) (denS ρ N susp s st)
    | .simple s, _, _, st => (denSimple_fallOnly ρ susp s st).mono fun o (h : o = Flow.fall) => by simp [h]
    | .block ss, h, hf, st => by
        simp only [supportedS] at h; simp only [fragS] at hf; simp only [denS]
        exact suppL_noBrk ρ N susp cb ss h hf st
    | .ifs init c thn els, h, hf, st => by
        simp only [supportedS, Bool.and_eq_true] at h
        simp only [fragS, Bool.and_eq_true] at hf
        simp only [denS]
        refine (Res.all_true _).bind fun _ st1 _ => ?_
        rcases ρ.cond c.n st1 with ⟨_ | b, st2⟩
        · exact .panic
        · cases b
          · exact suppE_noBrk ρ N susp cb els h.2 hf.2 st2
          · exact suppL_noBrk ρ N susp cb thn h.1 hf.1.2 st2
    | .for_ init cond post body, _, _, st => by
        simp only [denS]
        refine (Res.all_true _).bind fun _ st1 _ => ?_
        exact loopF_noBrk _ _ _
          (fun st => (denInit_fallOnly ρ susp post st).mono fun o (h : o = Flow.fall) => by simp [h]) N st1
    | .switch init tag cases, _, _, st =>
        switch_all (fun o => o ≠ Flow.nbrk) (by simp) ρ N susp init tag cases
          (fun i st => (Res.all_true _).mono fun o _ ho => ho) st
    | .brk, h, _, _ => by simp [supportedS] at h
    | .cont, _, _, st => .done (by simp)
    | .rete e, _, _, st => by
        simp only [denS]
        rcases evalS ρ N e st with ⟨_ | run, st'⟩
        · exact .panic
        · exact (Res.all_true _).bind fun _ _ _ => .done (by simp)
    | .fallthrough, _, hf, _ => by simp [fragS] at hf
    | .ret, _, hf, _ => by simp [fragS] at hf
    | .unknown _, _, hf, _ => by simp [fragS] at hf
  theorem suppL_noBrk (ρ : Interp σ P) (N : Nat) (susp : Bool) (cb : Bool) :
      ∀ (ss : Stmts), supportedL cb true ss = true → fragL ss = true →
        ∀ st, Res.All (fun o => o ≠ Flow.nbrk) (denL ρ N susp ss st)
    | .nil, _, _, st => .done (by simp)
    | .cons s r, h, hf, st => by
        simp only [supportedL, Bool.and_eq_true] at h
        simp only [fragL, Bool.and_eq_true] at hf
        simp only [denL]
        refine (suppS_noBrk ρ N susp cb s h.1 hf.1 st).bind fun o st' ho => ?_
        by_cases hfall : o = .fall
        · simp only [hfall, if_true]; exact suppL_noBrk ρ N susp cb r h.2 hf.2 st'
        · simp only [hfall, if_false]; exact .done ho
  theorem suppE_noBrk (ρ : Interp σ P) (N : Nat) (susp : Bool) (cb : Bool) :
      ∀ (e : Else), supportedE cb true e = true → fragE e = true →
        ∀ st, Res.All (fun o => o ≠ Flow.nbrk) (denElse ρ N susp e st)
    | .none, _, _, st => .done (by simp)
    | .els ss, h, hf, st => by
        simp only [supportedE] at h; simp only [fragE] at hf; simp only [denElse]
        exact suppL_noBrk ρ N susp cb ss h hf st
    | .elif s, h, hf, st => by
        simp only [supportedE] at h; simp only [fragE] at hf; simp only [denElse]
        exact suppS_noBrk ρ N susp cb s h hf st
end

theorem suppC_noBrk (ρ : Interp σ P) (N : Nat) (susp : Bool) (cb : Bool) :
    ∀ (cs : Cases), supportedC cb true cs = true → fragC cs = true →
      ∀ (i : Nat) st, Res.All (fun o => o ≠ Flow.nbrk) (denFrom ρ N susp cs i st)
  | .nil, _, _, _, st => .done (by simp)
  | .cons _ _ body r, h, hf, 0, st => by
      simp only [supportedC, Bool.and_eq_true] at h
      simp only [fragC, Bool.and_eq_true] at hf
      simp only [denFrom]
      refine (suppL_noBrk ρ N susp cb body h.1 hf.1 st).bind fun o st' ho => ?_
      by_cases hn : o = .nft
      · simp only [hn, if_true]; exact suppC_noBrk ρ N susp cb r h.2 hf.2 0 st'
      · simp only [hn, if_false]; exact .done ho
  | .cons _ _ _ r, h, hf, i+1, st => by
      simp only [supportedC, Bool.and_eq_true] at h
      simp only [fragC, Bool.and_eq_true] at hf
      simp only [denFrom]
      exact suppC_noBrk ρ N susp cb r h.2 hf.2 i st

/-! ### no `nft` without a `fallthrough` statement -/

theorem loopF_noNft (cond : σ → Except P Bool × σ) (post body : σ → Res Flow σ P)
    (hp : ∀ st, Res.All (fun o => o ≠ Flow.nft) (post st)) (hb : ∀ st, Res.All (fun o => o ≠ Flow.nft) (body st)) :
    ∀ n st, Res.All (fun o => o ≠ Flow.nft) (loopF cond post body n st) := by
  intro n
  induction n with
  | zero => intro st; exact .oob
  | succ n ih =>
    intro st
    simp only [loopF]
    rcases cond st with ⟨_ | b, st1⟩
    · exact .panic
    · cases b
      · exact .done (by simp)
      · refine (hb st1).bind fun o st2 ho => ?_
        cases o with
        | fall =>
          refine (hp st2).bind fun o' st3 ho' => ?_
          by_cases h : o' = .fall
          · simp only [h, if_true]; exact ih st3
          · simp only [h, if_false]; exact .done ho'
        | ncont =>
          refine (hp st2).bind fun o' st3 ho' => ?_
          by_cases h : o' = .fall
          · simp only [h, if_true]; exact ih st3
          · simp only [h, if_false]; exact .done ho'
        | nbrk => exact .done (by simp)
        | nft => exact absurd rfl ho
        | exit s => exact .done (by simp)

/-- running the clauses of a switch never ends in `nft`: a trailing fallthrough falls out of the switch -/
theorem denFrom_noNft (ρ : Interp σ P) (N : Nat) (susp : Bool) :
    ∀ (cs : Cases) (i : Nat) st, Res.All (fun o => o ≠ Flow.nft) (denFrom ρ N susp cs i st)
  | .nil, _, st => .done (by simp)
  | .cons _ _ body r, 0, st => by
      simp only [denFrom]
      refine (Res.all_true _).bind fun o st' _ => ?_
      by_cases hn : o = .nft
      · simp only [hn, if_true]; exact denFrom_noNft ρ N susp r 0 st'
      · simp only [hn, if_false]; exact .done hn
  | .cons _ _ _ r, i+1, st => by simp only [denFrom]; exact denFrom_noNft ρ N susp r i st

mutual
  theorem woS_noNft (ρ : Interp σ P) (N : Nat) (susp : Bool) :
      ∀ (s : Stmt), woS s = true → ∀ st, Res.All (fun o => o ≠ Flow.nft) (denS ρ N susp s st)
    | .simple s, _, st => (denSimple_fallOnly ρ susp s st).mono fun o (h : o = Flow.fall) => by simp [h]
    | .block ss, h, st => by simp only [woS] at h; simp only [denS]; exact woL_noNft ρ N susp ss h st
    | .ifs init c thn els, h, st => by
        simp only [woS, Bool.and_eq_true] at h
        simp only [denS]
        refine (Res.all_true _).bind fun _ st1 _ => ?_
        rcases ρ.cond c.n st1 with ⟨_ | b, st2⟩
        · exact .panic
        · cases b
          · exact woE_noNft ρ N susp els h.2 st2
          · exact woL_noNft ρ N susp thn h.1 st2
    | .switch init tag cases, _, st =>
        switch_all (fun o => o ≠ Flow.nft) (by simp) ρ N susp init tag cases
          (fun i st => (denFrom_noNft ρ N susp cases i st).mono fun o ho _ => ho) st
    | .for_ init cond post body, h, st => by
        simp only [woS] at h
        simp only [denS]
        refine (Res.all_true _).bind fun _ st1 _ => ?_
        exact loopF_noNft _ _ _
          (fun st => (denInit_fallOnly ρ susp post st).mono fun o (h : o = Flow.fall) => by simp [h])
          (woL_noNft ρ N susp body h) N st1
    | .brk, _, st => .done (by simp)
    | .cont, _, st => .done (by simp)
    | .fallthrough, h, _ => by simp [woS] at h
    | .ret, _, st => .done (by simp)
    | .rete e, _, st => by
        simp only [denS]
        rcases evalS ρ N e st with ⟨_ | run, st'⟩
        · exact .panic
        · exact (Res.all_true _).bind fun _ _ _ => .done (by simp)
    | .unknown _, _, st => by simp only [denS]; exact .oob
  theorem woL_noNft (ρ : Interp σ P) (N : Nat) (susp : Bool) :
      ∀ (ss : Stmts), woL ss = true → ∀ st, Res.All (fun o => o ≠ Flow.nft) (denL ρ N susp ss st)
    | .nil, _, st => .done (by simp)
    | .cons s r, h, st => by
        simp only [woL, Bool.and_eq_true] at h
        simp only [denL]
        refine (woS_noNft ρ N susp s h.1 st).bind fun o st' ho => ?_
        by_cases hfall : o = .fall
        · simp only [hfall, if_true]; exact woL_noNft ρ N susp r h.2 st'
        · simp only [hfall, if_false]; exact .done ho
  theorem woE_noNft (ρ : Interp σ P) (N : Nat) (susp : Bool) :
      ∀ (e : Else), woE e = true → ∀ st, Res.All (fun o => o ≠ Flow.nft) (denElse ρ N susp e st)
    | .none, _, st => .done (by simp)
    | .els ss, h, st => by simp only [woE] at h; simp only [denElse]; exact woL_noNft ρ N susp ss h st
    | .elif s, h, st => by simp only [woE] at h; simp only [denElse]; exact woS_noNft ρ N susp s h st
end

/- the fragment has no `fallthrough` and no Seq expression but `return seq.Return()` -/
mutual
  theorem fragS_wo : ∀ (s : Stmt), fragS s = true → woS s = true
    | .simple _, _ => rfl
    | .block ss, h => by simp only [fragS] at h; simp only [woS]; exact fragL_wo ss h
    | .ifs _ _ thn els, h => by
        simp only [fragS, Bool.and_eq_true] at h
        simp only [woS, Bool.and_eq_true]; exact ⟨fragL_wo thn h.1.2, fragE_wo els h.2⟩
    | .for_ _ _ _ body, h => by
        simp only [fragS, Bool.and_eq_true] at h; simp only [woS]; exact fragL_wo body h.2
    | .switch _ _ cases, h => by
        simp only [fragS, Bool.and_eq_true] at h; simp only [woS]; exact fragC_wo cases h.2
    | .brk, _ => rfl
    | .cont, _ => rfl
    | .rete (.sig _), _ => rfl
    | .rete (.bind _ _), h => by simp [fragS] at h
    | .rete (.delay _), h => by simp [fragS] at h
    | .rete (.combine _ _), h => by simp [fragS] at h
    | .rete (.loop _ _ _), h => by simp [fragS] at h
    | .rete (.start _), h => by simp [fragS] at h
    | .rete (.unknown _), h => by simp [fragS] at h
    | .fallthrough, h => by simp [fragS] at h
    | .ret, _ => rfl
    | .unknown _, _ => rfl
  theorem fragL_wo : ∀ (ss : Stmts), fragL ss = true → woL ss = true
    | .nil, _ => rfl
    | .cons s r, h => by
        simp only [fragL, Bool.and_eq_true] at h
        simp only [woL, Bool.and_eq_true]; exact ⟨fragS_wo s h.1, fragL_wo r h.2⟩
  theorem fragE_wo : ∀ (e : Else), fragE e = true → woE e = true
    | .none, _ => rfl
    | .els ss, h => by simp only [fragE] at h; simp only [woE]; exact fragL_wo ss h
    | .elif s, h => by simp only [fragE] at h; simp only [woE]; exact fragS_wo s h
  theorem fragC_wo : ∀ (cs : Cases), fragC cs = true → woC cs = true
    | .nil, _ => rfl
    | .cons _ _ body r, h => by
        simp only [fragC, Bool.and_eq_true] at h
        simp only [woC, Bool.and_eq_true]; exact ⟨fragL_wo body h.1, fragC_wo r h.2⟩
end

/-! ### from `closed` back to native outcomes -/

theorem noBrk_of_closed {r : Res Flow σ P} (h : Res.All (fun s => s ≠ Sig.brk) (closed r)) :
    Res.All (fun o => o ≠ Flow.nbrk) r := by
  induction r with
  | done o st =>
    refine .done (fun ho => ?_)
    subst ho
    simp only [closed, Res.bind, closeThunk] at h
    cases h with | done hp => exact hp rfl
  | yield v st r ih =>
    simp only [closed, Res.bind] at h
    cases h with | yield hr => exact .yield fun st' => ih st' (hr st')
  | panic p st => exact .panic
  | oob => exact .oob

theorem closed_noBrkSig {r : Res Flow σ P} (h : Res.All (fun o => o ≠ Flow.nbrk ∧ SrcOut o) r) :
    Res.All (fun s => s ≠ Sig.brk) (closed r) := by
  refine h.bind fun o st ho => ?_
  rcases ho.2 with rfl | rfl | rfl | rfl
  · exact .done (by simp)
  · exact absurd rfl ho.1
  · exact .done (by simp)
  · exact .done (by simp)

/-- a `bind` whose continuation is the identity on the leaves that occur -/
theorem bind_id_on {α : Type} {p : α → Prop} {r : Res α σ P} {f : α → σ → Res α σ P}
    (hr : Res.All p r) (hf : ∀ o st, p o → f o st = .done o st) : r.bind f = r := by
  conv => rhs; rw [← Res.bind_done r]
  exact Res.bind_congr hr hf

/-! ### a switch is determined, up to `closed`, by its clause headers and the `closed` clause bodies -/

theorem denS_switch_init (ρ : Interp σ P) (N : Nat) (susp : Bool) (init : Option Simple) (tag : Option CondE)
    (cases : Cases) (st : σ) :
    denS ρ N susp (.switch init tag cases) st
      = (denInit ρ susp init st).bind fun _ st1 => denS ρ N susp (.switch none tag cases) st1 := by
  simp only [denS, denInit, Res.bind]

theorem switch_closed_eq (ρ : Interp σ P) (N : Nat) (tag : Option CondE) (cs cs' : Cases)
    (hsel : ∀ tv i st, selectCase ρ cs' tv i st = selectCase ρ cs tv i st)
    (hdef : ∀ i, defaultIndex cs' i = defaultIndex cs i)
    (hrel : ∀ i st, closed (denFrom ρ N false cs' i st) = closed (denFrom ρ N true cs i st))
    (hT : ∀ i st, Res.All (fun o => o ≠ Flow.nbrk) (denFrom ρ N false cs' i st))
    (hS : ∀ i st, Res.All (fun o => o ≠ Flow.nbrk) (denFrom ρ N true cs i st)) (st : σ) :
    closed (denS ρ N false (.switch none tag cs') st) = closed (denS ρ N true (.switch none tag cs) st) := by
  have body : ∀ (tv : Option Nat) (st2 : σ),
      closed (match selectCase ρ cs' tv 0 st2 with
        | (.error e, st3) => (.panic e st3 : Res Flow σ P)
        | (.ok idx, st3) =>
          match (match idx with | some i => some i | none => defaultIndex cs' 0) with
          | none => .done .fall st3
          | some i => (denFrom ρ N false cs' i st3).bind fun o st4 =>
              if o = Flow.nbrk then .done .fall st4 else .done o st4)
      = closed (match selectCase ρ cs tv 0 st2 with
        | (.error e, st3) => (.panic e st3 : Res Flow σ P)
        | (.ok idx, st3) =>
          match (match idx with | some i => some i | none => defaultIndex cs 0) with
          | none => .done .fall st3
          | some i => (denFrom ρ N true cs i st3).bind fun o st4 =>
              if o = Flow.nbrk then .done .fall st4 else .done o st4) := by
    intro tv st2
    rw [hsel, hdef]
    rcases selectCase ρ cs tv 0 st2 with ⟨_ | idx, st3⟩
    · rfl
    · simp only
      split
      · rfl
      · rename_i i _
        rw [bind_id_on (hT i st3) (fun o st4 ho => by simp [ho]),
          bind_id_on (hS i st3) (fun o st4 ho => by simp [ho])]
        exact hrel i st3
  simp only [denS, denInit, Res.bind]
  cases tag with
  | none => exact body none st
  | some t =>
    simp only
    rcases ρ.tag t.n st with ⟨_ | v, st2⟩
    · rfl
    · exact body (some v) st2

theorem switch_noY (ρ : Interp σ P) (N : Nat) (init : Option Simple) (tag : Option CondE) (cases : Cases)
    (hi : optIsYield init = false) (hC : ∀ i st, Res.NoY (denFrom ρ N true cases i st)) (st : σ) :
    Res.NoY (denS ρ N true (.switch init tag cases) st) := by
  have hinit : Res.NoY (denInit ρ true init st) := by
    cases init with
    | none => exact .done
    | some s =>
      cases s with
      | yield e => simp [optIsYield, Simple.isYield] at hi
      | act n => simp only [denInit, denSimple, effect]; rcases ρ.act n st with ⟨_ | e, st'⟩ <;> first | exact .done | exact .panic
      | pact n => simp only [denInit, denSimple, effect]; rcases ρ.pact n st with ⟨_ | e, st'⟩ <;> first | exact .done | exact .panic
      | bpanic n => simp only [denInit, denSimple]; exact .panic
      | def_ n => simp only [denInit, denSimple, effect]; rcases ρ.def_ n st with ⟨_ | e, st'⟩ <;> first | exact .done | exact .panic
      | empty => exact .done
  simp only [denS]
  rw [Res.NoY.bind_iff]
  refine ⟨hinit, fun _ st1 _ => ?_⟩
  have body : ∀ (tv : Option Nat) (st2 : σ), Res.NoY
      (match selectCase ρ cases tv 0 st2 with
        | (.error e, st3) => (.panic e st3 : Res Flow σ P)
        | (.ok idx, st3) =>
          match (match idx with | some i => some i | none => defaultIndex cases 0) with
          | none => .done .fall st3
          | some i => (denFrom ρ N true cases i st3).bind fun o st4 =>
              if o = Flow.nbrk then .done .fall st4 else .done o st4) := by
    intro tv st2
    rcases selectCase ρ cases tv 0 st2 with ⟨_ | idx, st3⟩
    · exact .panic
    · simp only
      split
      · exact .done
      · rename_i i _
        rw [Res.NoY.bind_iff]
        refine ⟨hC i st3, fun o st4 _ => ?_⟩
        by_cases hb : o = .nbrk
        · simp only [hb, if_true]; exact .done
        · simp only [hb, if_false]; exact .done
  cases tag with
  | none => exact body none st1
  | some t =>
    simp only
    rcases ρ.tag t.n st1 with ⟨_ | v, st2⟩
    · exact .panic
    · exact body (some v) st2

/-- rwCases keeps the clause headers -/
theorem rwCases_headers (ρ : Interp σ P) (q : Quirks) :
    ∀ (cs cs' : Cases) (t : Bool), rwCases q cs = .ok (cs', t) →
      (∀ tv i st, selectCase ρ cs' tv i st = selectCase ρ cs tv i st) ∧ (∀ i, defaultIndex cs' i = defaultIndex cs i)
  | .nil, cs', t, h => by
      simp only [rwCases] at h
      cases pure_ok h
      exact ⟨fun _ _ _ => rfl, fun _ => rfl⟩
  | .cons d ks body r, cs', t, h => by
      simp only [rwCases] at h
      obtain ⟨b, _, h⟩ := bind_ok h
      obtain ⟨x, hx, h⟩ := bind_ok h
      obtain ⟨r', t'⟩ := x
      cases pure_ok h
      obtain ⟨h1, h2⟩ := rwCases_headers ρ q r r' t' hx
      refine ⟨fun tv i st => ?_, fun i => ?_⟩
      · cases d with
        | true => simp only [selectCase]; exact h1 tv (i + 1) st
        | false =>
          cases tv with
          | some v => simp only [selectCase, h1 (some v) (i + 1) st]
          | none =>
            simp only [selectCase]
            rcases anyCond ρ ks st with ⟨_ | b, st'⟩
            · rfl
            · cases b
              · exact h1 none (i + 1) st'
              · rfl
      · cases d with
        | true => rfl
        | false => simp only [defaultIndex]; exact h2 (i + 1)

/-! ### a statement list without a `Yield` is kept as it is: every clause is judged yield-free -/

/-- only ordinary statements, possibly closed by the implicit `return Normal()` -/
def NoYK (b : Blk) : Prop := ∀ x ∈ b.items, x.2 = Kind.trivial ∨ x.2 = Kind.normal

theorem noYK_mk0 (k : Kind) : NoYK (Blk.mk0 k) := fun _ hx => nomatch hx

theorem noYK_pushU {b : Blk} (h : NoYK b) (s : Stmt) : NoYK (b.pushU s .trivial) := by
  intro x hx
  simp only [Blk.pushU, List.mem_cons] at hx
  rcases hx with rfl | hx
  · exact .inl rfl
  · exact h x hx

theorem noYK_mustNoYield {b : Blk} (h : NoYK b) : b.mustNoYield = true := by
  unfold Blk.mustNoYield Blk.mayContainsYield
  cases hi : b.items with
  | nil => rfl
  | cons x rest =>
    obtain ⟨s, k⟩ := x
    have hk : k = Kind.trivial ∨ k = Kind.normal := h (s, k) (by rw [hi]; exact List.mem_cons_self ..)
    have hall : (((s, k) :: rest).any fun x => decide (x.2 = Kind.ifk ∨ x.2 = Kind.switchk)) = false := by
      rw [List.any_eq_false]
      intro y hy
      have := h y (by rw [hi]; exact hy)
      rcases this with h1 | h1 <;> simp [h1]
    simp only [hall]
    rcases hk with hk | hk <;> subst hk <;> simp

theorem push_noYK {b : Blk} (h : NoYK b) (s : Stmt) : OkIf (b.push s .trivial) NoYK := by
  unfold Blk.push
  exact OkIf.bind (OkIf.triv _) (fun _ _ => OkIf.pure (noYK_pushU h s))

theorem genLast_noYK (q : Quirks) {b : Blk} (h : NoYK b) : OkIf (genLast q b) NoYK := by
  unfold genLast
  refine OkIf.bind (OkIf.triv _) (fun r _ => ?_)
  split
  · unfold Blk.pushReturn
    refine OkIf.bind (OkIf.triv _) (fun _ _ => OkIf.pure ?_)
    intro x hx
    simp only [Blk.pushReturnU, Blk.pushU, Blk.markCombined, List.mem_cons] at hx
    rcases hx with rfl | hx
    · exact .inr rfl
    · exact h x hx
  · exact OkIf.pure h

/-- combineIfNecessary does nothing after an ordinary statement -/
theorem combine_noYK (q : Quirks) {b : Blk} (h : NoYK b) (hl : ∀ s k rest, b.items = (s, k) :: rest → k = .trivial) :
    OkIf (combineIfNecessary q b) (fun r => NoYK r.1 ∧ r.2 = [] ∧ (∀ s k rest, r.1.items = (s, k) :: rest → k = .trivial)) := by
  unfold combineIfNecessary
  simp only []
  split
  · exact OkIf.pure ⟨h, rfl, fun s k rest hi => hl s k rest hi⟩
  · rename_i s k rest hi
    simp only [Blk.markCombined] at hi
    have := hl s k rest hi
    rw [if_pos this]
    exact OkIf.pure ⟨h, rfl, fun s k rest hi => hl s k rest hi⟩

def SRnoY : SR → Prop
  | .stop c => NoYK c
  | .go fol frames => NoYK fol ∧ frames = [] ∧ (∀ s k rest, fol.items = (s, k) :: rest → k = .trivial)

/-- every item trivial (no closing return yet) -/
def AllTriv (b : Blk) : Prop := ∀ x ∈ b.items, x.2 = Kind.trivial

theorem AllTriv.noYK {b : Blk} (h : AllTriv b) : NoYK b := fun x hx => .inl (h x hx)
theorem AllTriv.last {b : Blk} (h : AllTriv b) : ∀ s k rest, b.items = (s, k) :: rest → k = .trivial :=
  fun s k rest hi => h (s, k) (by rw [hi]; exact List.mem_cons_self ..)
theorem allTriv_mk0 (k : Kind) : AllTriv (Blk.mk0 k) := fun _ hx => nomatch hx
theorem allTriv_pushU {b : Blk} (h : AllTriv b) (s : Stmt) : AllTriv (b.pushU s .trivial) := by
  intro x hx
  simp only [Blk.pushU, List.mem_cons] at hx
  rcases hx with rfl | hx
  · rfl
  · exact h x hx

theorem go_push_noY {cur : Blk} (h : AllTriv cur) (s : Stmt) :
    OkIf (do pure (SR.go (← cur.push s .trivial) []) : Except String SR)
      (fun r => ∃ fol, r = .go fol [] ∧ AllTriv fol) := by
  unfold Blk.push
  refine OkIf.bind (OkIf.bind (OkIf.triv _) (fun _ _ => OkIf.pure (Q := fun b => b = cur.pushU s .trivial) rfl)) (fun b hb => ?_)
  subst hb
  exact OkIf.pure ⟨_, rfl, allTriv_pushU h s⟩

theorem combine_allTriv (q : Quirks) {b : Blk} (h : AllTriv b) :
    OkIf (combineIfNecessary q b) (fun r => AllTriv r.1 ∧ r.2 = []) := by
  unfold combineIfNecessary
  simp only []
  split
  · exact OkIf.pure ⟨h, rfl⟩
  · rename_i s k rest hi
    simp only [Blk.markCombined] at hi
    have := h.last s k rest hi
    rw [if_pos this]
    exact OkIf.pure ⟨h, rfl⟩

theorem ifPush_noY (init : Option Simple) (c : CondE) (thn : Stmts) (els : Else) (body : Blk) (e : Option Blk)
    {cur : Blk} (hb : body.mustNoYield = true) (he : ∀ eb, e = some eb → eb.mustNoYield = true) (h : AllTriv cur) :
    OkIf (ifPush init c thn els body e cur) AllTriv := by
  unfold ifPush
  split
  · rw [if_pos hb]
    unfold Blk.push
    exact OkIf.bind (OkIf.triv _) (fun _ _ => OkIf.pure (allTriv_pushU h _))
  · rename_i eb
    rw [if_pos (by simp [hb, he eb rfl])]
    unfold Blk.push
    exact OkIf.bind (OkIf.triv _) (fun _ _ => OkIf.pure (allTriv_pushU h _))

def SRnoY' : SR → Prop
  | .stop c => NoYK c
  | .go fol frames => AllTriv fol ∧ frames = []

theorem go_push_noY' {cur : Blk} (h : AllTriv cur) (s : Stmt) :
    OkIf (do pure (SR.go (← cur.push s .trivial) []) : Except String SR) SRnoY' := by
  unfold Blk.push
  refine OkIf.bind (OkIf.bind (OkIf.triv _) (fun _ _ => OkIf.pure (Q := fun b => b = cur.pushU s .trivial) rfl)) (fun b hb => ?_)
  subst hb
  exact OkIf.pure ⟨allTriv_pushU h s, rfl⟩

theorem stop_push_noY' {cur : Blk} (h : AllTriv cur) (s : Stmt) :
    OkIf (do pure (SR.stop (← cur.push s .trivial)) : Except String SR) SRnoY' := by
  unfold Blk.push
  refine OkIf.bind (OkIf.bind (OkIf.triv _) (fun _ _ => OkIf.pure (Q := fun b => b = cur.pushU s .trivial) rfl)) (fun b hb => ?_)
  subst hb
  exact OkIf.pure (allTriv_pushU h s).noYK

mutual
  theorem rwStmts_noY (q : Quirks) :
      ∀ (ss : Stmts) (cur : Blk), stmtsHaveYield ss = false → AllTriv cur → OkIf (rwStmts q ss cur) NoYK
    | .nil, cur, _, hc => by
        simp only [rwStmts]
        split
        · exact genLast_noYK q hc.noYK
        · exact OkIf.pure hc.noYK
    | .cons s rest, cur, hy, hc => by
        simp only [stmtsHaveYield, Bool.or_eq_false_iff] at hy
        simp only [rwStmts]
        refine OkIf.bind (rwStmt_noY q s rest.isNil cur hy.1 hc) (fun r hr => ?_)
        cases r with
        | stop c => exact OkIf.pure hr
        | go fol frames =>
          obtain ⟨hfol, hfr⟩ := hr
          subst hfr
          simp only []
          split
          · refine OkIf.bind (Q := NoYK) ?_ (fun fol' hfol' => OkIf.pure hfol')
            split
            · exact genLast_noYK q hfol.noYK
            · exact OkIf.pure hfol.noYK
          · refine OkIf.bind (combine_allTriv q hfol) (fun p hp => ?_)
            obtain ⟨fol2, frames2⟩ := p
            obtain ⟨h2, hf2⟩ := hp
            simp only at hf2
            subst hf2
            exact OkIf.bind (rwStmts_noY q rest fol2 hy.2 h2) (fun fin hfin => OkIf.pure hfin)

  theorem rwStmt_noY (q : Quirks) :
      ∀ (s : Stmt) (isLast : Bool) (cur : Blk), stmtHasYield s = false → AllTriv cur →
        OkIf (rwStmt q s isLast cur) SRnoY'
    | .simple (.yield e), _, _, hy, _ => by simp [stmtHasYield, Simple.isYield] at hy
    | .simple .empty, _, cur, _, hc => by simp only [rwStmt]; exact OkIf.pure ⟨hc, rfl⟩
    | .simple (.act n), _, cur, _, hc => by simp only [rwStmt]; exact go_push_noY' hc _
    | .simple (.pact n), _, cur, _, hc => by simp only [rwStmt]; exact go_push_noY' hc _
    | .simple (.bpanic n), _, cur, _, hc => by simp only [rwStmt]; exact go_push_noY' hc _
    | .simple (.def_ n), _, cur, _, hc => by simp only [rwStmt]; exact go_push_noY' hc _
    | .brk, _, cur, _, hc => by simp only [rwStmt]; exact stop_push_noY' hc _
    | .cont, _, cur, _, hc => by simp only [rwStmt]; exact stop_push_noY' hc _
    | .fallthrough, _, cur, _, hc => by simp only [rwStmt]; exact stop_push_noY' hc _
    | .ret, _, cur, _, hc => by simp only [rwStmt]; exact go_push_noY' hc _
    | .rete e, _, cur, _, hc => by simp only [rwStmt]; exact go_push_noY' hc _
    | .unknown t, _, cur, _, hc => by simp only [rwStmt]; exact go_push_noY' hc _
    | .block ss, _, cur, hy, hc => by
        simp only [stmtHasYield] at hy
        simp only [rwStmt]
        refine OkIf.bind (rwStmts_noY q ss _ hy (allTriv_mk0 _)) (fun fol hfol => ?_)
        rw [if_pos (noYK_mustNoYield hfol)]
        exact go_push_noY' hc _
    | .ifs init c thn els, isLast, cur, hy, hc => by
        simp only [stmtHasYield, Bool.or_eq_false_iff] at hy
        simp only [rwStmt]
        split
        · exact OkIf.bind OkIf.throw (fun _ (h : False) => h.elim)
        refine OkIf.bind (rwStmts_noY q thn _ hy.1.2 (allTriv_mk0 _)) (fun body hbody => ?_)
        refine OkIf.bind (rwElse_noY q els hy.2) (fun e he => ?_)
        refine OkIf.bind (ifPush_noY init c thn els body e (noYK_mustNoYield hbody) he hc) (fun cur' hcur' => ?_)
        split
        · exact OkIf.bind (genLast_noYK q hcur'.noYK) (fun c hc' => OkIf.pure hc')
        · exact OkIf.pure ⟨hcur', rfl⟩
    | .switch init tag cases, isLast, cur, hy, hc => by
        simp only [stmtHasYield, Bool.or_eq_false_iff] at hy
        simp only [rwStmt]
        refine OkIf.bind (rwCases_noY q cases hy.2) (fun p hp => ?_)
        obtain ⟨newCases, allTrivial⟩ := p
        simp only at hp
        subst hp
        simp only [hy.1, Bool.not_false, Bool.and_self, if_true]
        exact go_push_noY' hc _
    | .for_ init cond post body, _, cur, hy, hc => by
        simp only [stmtHasYield, Bool.or_eq_false_iff] at hy
        simp only [rwStmt]
        refine OkIf.bind (rwStmts_noY q body _ hy.2 (allTriv_mk0 _)) (fun b hb => ?_)
        rw [if_pos (by simp [noYK_mustNoYield hb, hy.1.1, hy.1.2])]
        exact go_push_noY' hc _

  theorem rwElse_noY (q : Quirks) :
      ∀ (els : Else), elseHasYield els = false →
        OkIf (rwElse q els) (fun r => ∀ eb, r = some eb → eb.mustNoYield = true)
    | .none, _ => by simp only [rwElse]; exact OkIf.pure (fun eb he => nomatch he)
    | .els ss, hy => by
        simp only [elseHasYield] at hy
        simp only [rwElse]
        exact OkIf.bind (rwStmts_noY q ss _ hy (allTriv_mk0 _)) (fun b hb => OkIf.pure (fun eb he => by
          cases he; exact noYK_mustNoYield hb))
    | .elif s, hy => by
        simp only [elseHasYield] at hy
        simp only [rwElse]
        exact OkIf.bind (rwIfS_noY q s _ hy (allTriv_mk0 _)) (fun b hb => OkIf.pure (fun eb he => by
          cases he; exact noYK_mustNoYield hb.noYK))

  theorem rwIfS_noY (q : Quirks) :
      ∀ (s : Stmt) (cur : Blk), stmtHasYield s = false → AllTriv cur → OkIf (rwIfS q s cur) AllTriv
    | .ifs init c thn els, cur, hy, hc => by
        simp only [stmtHasYield, Bool.or_eq_false_iff] at hy
        simp only [rwIfS]
        split
        · exact OkIf.bind OkIf.throw (fun _ (h : False) => h.elim)
        refine OkIf.bind (rwStmts_noY q thn _ hy.1.2 (allTriv_mk0 _)) (fun body hbody => ?_)
        refine OkIf.bind (rwElse_noY q els hy.2) (fun e he => ?_)
        exact ifPush_noY init c thn els body e (noYK_mustNoYield hbody) he hc
    | .simple _, _, _, _ => by simp only [rwIfS]; exact OkIf.throw
    | .block _, _, _, _ => by simp only [rwIfS]; exact OkIf.throw
    | .switch _ _ _, _, _, _ => by simp only [rwIfS]; exact OkIf.throw
    | .for_ _ _ _ _, _, _, _ => by simp only [rwIfS]; exact OkIf.throw
    | .brk, _, _, _ => by simp only [rwIfS]; exact OkIf.throw
    | .cont, _, _, _ => by simp only [rwIfS]; exact OkIf.throw
    | .fallthrough, _, _, _ => by simp only [rwIfS]; exact OkIf.throw
    | .ret, _, _, _ => by simp only [rwIfS]; exact OkIf.throw
    | .rete _, _, _, _ => by simp only [rwIfS]; exact OkIf.throw
    | .unknown _, _, _, _ => by simp only [rwIfS]; exact OkIf.throw

  theorem rwCases_noY (q : Quirks) :
      ∀ (cs : Cases), casesHaveYield cs = false → OkIf (rwCases q cs) (fun r => r.2 = true)
    | .nil, _ => by simp only [rwCases]; exact OkIf.pure rfl
    | .cons d ks body r, hy => by
        simp only [casesHaveYield, Bool.or_eq_false_iff] at hy
        simp only [rwCases]
        refine OkIf.bind (rwStmts_noY q body _ hy.1 (allTriv_mk0 _)) (fun b hb => ?_)
        refine OkIf.bind (rwCases_noY q r hy.2) (fun p hp => ?_)
        exact OkIf.pure (by simp [noYK_mustNoYield hb, hp])
end

end GoCo.MG
