/-
  The range lowerings preserve the meaning of the range statement (C04 / C06, syntactic half):
  `lowerGen` for every form, `lowerConsumer` for `=` and for bodies that do not redeclare the loop variable -
  with the kernel-checked counterexample for the redeclaring body (finding D11b).
-/
import GoCo.Compile.RangeLower
set_option autoImplicit false

namespace GoCo.RL

theorem updF_nil (x : Name) (v : Int) : updF x v [] = none := rfl

theorem assign_nil_cons (x : Name) (v : Int) (fs : Frames) :
    assign x v ([] :: fs) = (assign x v fs).map ([] :: ·) := by
  simp only [assign, updF_nil]
  cases assign x v fs <;> rfl

theorem define_nil_cons (x : Name) (v : Int) (fs : Frames) : define x v ([] :: fs) = some ([(x, v)] :: fs) := rfl

/-- one iteration of the generated loop = one iteration of the range statement, for every form -/
theorem lowIter_gen (r : RangeStmt) (kv : Int × Int) (fs : Frames) :
    lowIter (lowerGen r) kv fs = specIter r kv fs := by
  obtain ⟨tok, key, val, body⟩ := r
  cases tok <;> cases key <;> cases val <;>
    simp only [lowIter, lowerGen, specIter, execSets, setOpt, setVar, execS, assign_nil_cons, define_nil_cons,
      Option.isNone_none, Option.isNone_some, Bool.and_self, Bool.and_false, if_true, if_false,
      Bool.false_eq_true, decide_true, decide_false, reduceCtorEq, Option.pure_def, Option.bind_eq_bind,
      Option.bind_some, pop, Bool.and_true]
  all_goals try rfl
  case define.some.some k v => cases define v kv.snd ([(k, kv.fst)] :: fs) <;> rfl
  case assign.none.some v => cases assign v kv.snd fs <;> rfl
  case assign.some.none k => cases assign k kv.fst fs <;> rfl
  case assign.some.some k v =>
    cases assign k kv.fst fs with
    | none => rfl
    | some a =>
      simp only [Option.map_some, Option.bind_some, assign_nil_cons]
      cases assign v kv.snd a <;> rfl

theorem loopOver_congr {f g : Int × Int → Frames → Option (Frames × Ctl)} (h : ∀ kv fs, f kv fs = g kv fs) :
    ∀ (l : List (Int × Int)) (fs : Frames), loopOver f l fs = loopOver g l fs
  | [], _ => rfl
  | kv :: rest, fs => by
      simp only [loopOver, h kv fs]
      cases g kv fs with
      | none => rfl
      | some r =>
        obtain ⟨fs', c⟩ := r
        cases c <;> simp only [Option.bind_eq_bind, Option.bind_some, loopOver_congr h rest fs']

/-- **rewriteRangeToForIter is correct**: for every form of the range clause (`:=` / `=`, key and value present,
    blank or omitted), every body (it may redeclare the loop variables, break, continue), every sequence of
    delivered pairs and every environment, the generated loop leaves the environment - or fails to compile -
    exactly as the range statement does -/
theorem lowerGen_correct (r : RangeStmt) (elems : List (Int × Int)) (fs : Frames) :
    lowLoop (lowerGen r) elems fs = specLoop r elems fs :=
  loopOver_congr (lowIter_gen r) elems fs

end GoCo.RL

namespace GoCo.RL

/-- rewriteForRange for the forms that need no variable scope of their own: `for v = range it`, `for range it` -/
theorem lowerConsumer_correct_partial (r : RangeStmt) (hv : r.val = none) (h : r.tok = .assign ∨ r.key = none)
    (elems : List (Int × Int)) (fs : Frames) :
    lowLoop (lowerConsumer r) elems fs = specLoop r elems fs := by
  have e : lowerConsumer r = lowerGen r := by
    obtain ⟨tok, key, val, body⟩ := r
    simp only at hv h
    subst hv
    rcases h with h | h
    · subst h; cases key <;> rfl
    · subst h; rfl
  rw [e]; exact lowerGen_correct r elems fs

/-- `for v := range it { v := v + v; t = v }` with t declared outside -/
def cexD11b : RangeStmt :=
  ⟨.define, some 1, none, .cons (.set .define 1 (.add (.var 1) (.var 1))) (.cons (.set .assign 2 (.var 1)) .nil)⟩

/-- **finding D11b, kernel-checked**: the range statement is fine (the body's `v := …` shadows the loop
    variable: t becomes 6), the lowered loop redeclares v in the block that already declares it: "no new
    variables on left side of :=" (modelled as `none`) -/
theorem C06_cex_consumer_redeclare :
    specLoop cexD11b [(3, 0)] [[(2, 0)]] = some [[(2, 6)]] ∧
    lowLoop (lowerConsumer cexD11b) [(3, 0)] [[(2, 0)]] = none := by decide

/-- the same body under the generator-side lowering (its own block for `:=`): correct, by the theorem and by
    evaluation -/
example : lowLoop (lowerGen cexD11b) [(3, 0)] [[(2, 0)]] = some [[(2, 6)]] := by decide

/-- a `:=` consumer loop whose body does not redeclare the variable: same result (evaluated; the general
    statement for this form is not proved) -/
example :
    let r : RangeStmt := ⟨.define, some 1, none,
      .cons (.set .define 3 (.add (.var 1) (.lit 1))) (.cons (.ifpos (.var 3) (.cons (.set .assign 2 (.add (.var 2) (.var 3))) .nil)) .nil)⟩
    lowLoop (lowerConsumer r) [(3, 0), (4, 0)] [[(2, 0)]] = specLoop r [(3, 0), (4, 0)] [[(2, 0)]] ∧
    specLoop r [(3, 0), (4, 0)] [[(2, 0)]] = some [[(2, 9)]] := by decide

/-! ### non-vacuity of `lowerGen_correct`: all the forms, with shadowing, break and continue -/

example :
    let body : BStmts := .cons (.ifpos (.add (.var 1) (.lit (-2))) (.cons .brk .nil))
      (.cons (.set .define 1 (.add (.var 1) (.var 2))) (.cons (.set .assign 9 (.add (.var 9) (.var 1))) .nil))
    specLoop ⟨.define, some 1, some 2, body⟩ [(0, 10), (1, 20), (3, 30), (4, 40)] [[(9, 0)]] = some [[(9, 31)]] ∧
    lowLoop (lowerGen ⟨.define, some 1, some 2, body⟩) [(0, 10), (1, 20), (3, 30), (4, 40)] [[(9, 0)]] = some [[(9, 31)]] := by
  decide

example :
    -- `for k, v = range …`: assigns to the outer variables, which keep the last pair after the loop
    specLoop ⟨.assign, some 1, some 2, .nil⟩ [(0, 10), (1, 20)] [[(1, -1), (2, -1)]] = some [[(1, 1), (2, 20)]] ∧
    -- … and fails to compile when a variable is not declared
    specLoop ⟨.assign, some 1, some 2, .nil⟩ [(0, 10)] [[(1, -1)]] = none := by decide

end GoCo.RL

namespace GoCo.RL

/-! ### the `:=` form of the consumer lowering, for bodies that do not redeclare the loop variable at their top
    level: splicing the body into the block that declares the variable is invisible -/

def names (f : Frame) : List Name := f.map (·.1)

/-- `SimN K n a b`: the environments agree except that, n frames down, the frames `g :: f1` of `a` are the one
    frame `g ++ f1` of `b`; K are the names declared by f1 -/
def SimN (K : List Name) : Nat → Frames → Frames → Prop
  | 0, a, b => ∃ g f1 fs, a = g :: f1 :: fs ∧ b = (g ++ f1) :: fs ∧ names f1 = K
  | n + 1, a, b => ∃ h a' b', a = h :: a' ∧ b = h :: b' ∧ SimN K n a' b'

def RelO {α : Type} (R : α → α → Prop) : Option α → Option α → Prop
  | none, none => True
  | some a, some b => R a b
  | _, _ => False

theorem lookupF_append (x : Name) : ∀ (g f1 : Frame),
    lookupF x (g ++ f1) = match lookupF x g with | some v => some v | none => lookupF x f1
  | [], f1 => rfl
  | (y, w) :: r, f1 => by
      simp only [List.cons_append, lookupF]
      split
      · rfl
      · exact lookupF_append x r f1

theorem lookupF_none_of_not_mem (x : Name) : ∀ (f : Frame), ¬ x ∈ names f → lookupF x f = none
  | [], _ => rfl
  | (y, w) :: r, h => by
      simp only [names, List.map_cons, List.mem_cons, not_or] at h
      simp only [lookupF]
      rw [if_neg (fun e => h.1 e.symm)]
      exact lookupF_none_of_not_mem x r h.2

theorem lookup_sim (K : List Name) (x : Name) : ∀ (n : Nat) (a b : Frames), SimN K n a b → lookup x a = lookup x b
  | 0, _, _, ⟨g, f1, fs, rfl, rfl, _⟩ => by
      simp only [lookup, lookupF_append]
      cases lookupF x g <;> rfl
  | n + 1, _, _, ⟨h, a', b', rfl, rfl, hs⟩ => by
      simp only [lookup, lookup_sim K x n a' b' hs]

theorem eval_sim (K : List Name) (n : Nat) (a b : Frames) (h : SimN K n a b) : ∀ e : Expr, eval e a = eval e b
  | .lit _ => rfl
  | .var x => lookup_sim K x n a b h
  | .add e1 e2 => by simp only [eval, eval_sim K n a b h e1, eval_sim K n a b h e2]

theorem updF_append (x : Name) (v : Int) : ∀ (g f1 : Frame),
    updF x v (g ++ f1) = match updF x v g with
      | some g' => some (g' ++ f1)
      | none => (updF x v f1).map (g ++ ·)
  | [], f1 => by simp [updF]
  | (y, w) :: r, f1 => by
      simp only [List.cons_append, updF]
      split
      · rfl
      · rw [updF_append x v r f1]
        cases updF x v r with
        | some r' => rfl
        | none => cases updF x v f1 <;> rfl

theorem names_updF (x : Name) (v : Int) : ∀ (f f' : Frame), updF x v f = some f' → names f' = names f
  | [], _, h => by cases h
  | (y, w) :: r, f', h => by
      simp only [updF] at h
      split at h
      · cases h; rfl
      · cases hr : updF x v r with
        | none => rw [hr] at h; cases h
        | some r' =>
          rw [hr] at h; cases h
          simp only [names, List.map_cons, List.cons.injEq, true_and]
          exact names_updF x v r r' hr

theorem assign_sim (K : List Name) (x : Name) (v : Int) :
    ∀ (n : Nat) (a b : Frames), SimN K n a b → RelO (SimN K n) (assign x v a) (assign x v b)
  | 0, _, _, ⟨g, f1, fs, rfl, rfl, hk⟩ => by
      simp only [assign, updF_append]
      cases hg : updF x v g with
      | some g' => exact ⟨g', f1, fs, rfl, rfl, hk⟩
      | none =>
        cases hf : updF x v f1 with
        | some f1' => exact ⟨g, f1', fs, rfl, rfl, (names_updF x v f1 f1' hf).trans hk⟩
        | none =>
          simp only [Option.map_none]
          cases assign x v fs with
          | none => trivial
          | some fs' => exact ⟨g, f1, fs', rfl, rfl, hk⟩
  | n + 1, _, _, ⟨h, a', b', rfl, rfl, hs⟩ => by
      simp only [assign]
      cases updF x v h with
      | some h' => exact ⟨h', a', b', rfl, rfl, hs⟩
      | none =>
        have ih := assign_sim K x v n a' b' hs
        cases ha : assign x v a' with
        | none =>
          rw [ha] at ih
          cases hb : assign x v b' with
          | none => trivial
          | some _ => rw [hb] at ih; exact ih.elim
        | some a'' =>
          rw [ha] at ih
          cases hb : assign x v b' with
          | none => rw [hb] at ih; exact ih.elim
          | some b'' => rw [hb] at ih; exact ⟨h, a'', b'', rfl, rfl, ih⟩

theorem define_sim (K : List Name) (x : Name) (v : Int) :
    ∀ (n : Nat) (a b : Frames), SimN K n a b → (n = 0 → ¬ x ∈ K) → RelO (SimN K n) (define x v a) (define x v b)
  | 0, _, _, ⟨g, f1, fs, rfl, rfl, hk⟩, hx => by
      have hf1 : lookupF x f1 = none := lookupF_none_of_not_mem x f1 (by rw [hk]; exact hx rfl)
      simp only [define, lookupF_append, hf1]
      cases hg : lookupF x g with
      | some w => trivial
      | none => exact ⟨(x, v) :: g, f1, fs, rfl, rfl, hk⟩
  | n + 1, _, _, ⟨h, a', b', rfl, rfl, hs⟩, _ => by
      simp only [define]
      split
      · trivial
      · exact ⟨(x, v) :: h, a', b', rfl, rfl, hs⟩

def noTopDefS (K : List Name) : BStmt → Bool
  | .set .define x _ => !K.contains x
  | _ => true

def noTopDefL (K : List Name) : BStmts → Bool
  | .nil => true
  | .cons s r => noTopDefS K s && noTopDefL K r

def RelE (K : List Name) (n : Nat) : Option (Frames × Ctl) → Option (Frames × Ctl) → Prop :=
  RelO (fun x y => SimN K n x.1 y.1 ∧ x.2 = y.2)

theorem relE_of_relO {K : List Name} {n : Nat} {x y : Option Frames} (c : Ctl) (h : RelO (SimN K n) x y) :
    RelE K n (x.bind fun f => some (f, c)) (y.bind fun f => some (f, c)) := by
  cases x <;> cases y <;> first | trivial | exact h.elim | exact ⟨h, rfl⟩

/-- push a block, run, pop: the difference stays n frames down -/
theorem block_sim {K : List Name} {n : Nat} {a b : Frames} (ss : BStmts)
    (ih : RelE K (n + 1) (execL ss ([] :: a)) (execL ss ([] :: b))) :
    RelE K n (execS (.block ss) a) (execS (.block ss) b) := by
  simp only [execS, Option.bind_eq_bind, Option.pure_def]
  cases ha : execL ss ([] :: a) with
  | none =>
    rw [ha] at ih
    cases hb : execL ss ([] :: b) with
    | none => trivial
    | some _ => rw [hb] at ih; exact ih.elim
  | some ra =>
    rw [ha] at ih
    cases hb : execL ss ([] :: b) with
    | none => rw [hb] at ih; exact ih.elim
    | some rb =>
      rw [hb] at ih
      obtain ⟨⟨h, a', b', e1, e2, hs⟩, hc⟩ := ih
      obtain ⟨ra1, ra2⟩ := ra
      obtain ⟨rb1, rb2⟩ := rb
      simp only at e1 e2 hc
      subst e1 e2 hc
      exact ⟨hs, rfl⟩

mutual
  theorem execS_sim (K : List Name) :
      ∀ (s : BStmt) (n : Nat) (a b : Frames), SimN K n a b → (n = 0 → noTopDefS K s = true) →
        RelE K n (execS s a) (execS s b)
    | .set tok x e, n, a, b, h, hd => by
        simp only [execS, eval_sim K n a b h e, Option.bind_eq_bind, Option.pure_def]
        cases eval e b with
        | none => trivial
        | some v =>
          simp only [Option.bind_some]
          cases tok with
          | assign => exact relE_of_relO .next (assign_sim K x v n a b h)
          | define =>
            refine relE_of_relO .next (define_sim K x v n a b h (fun hn => ?_))
            have := hd hn
            simpa [noTopDefS] using this
    | .block ss, n, a, b, h, _ =>
        block_sim ss (execL_sim K ss (n + 1) ([] :: a) ([] :: b) ⟨[], a, b, rfl, rfl, h⟩ (fun hn => nomatch hn))
    | .ifpos e thn, n, a, b, h, _ => by
        have hb := block_sim thn (execL_sim K thn (n + 1) ([] :: a) ([] :: b) ⟨[], a, b, rfl, rfl, h⟩ (fun hn => nomatch hn))
        simp only [execS, Option.bind_eq_bind, Option.pure_def] at hb ⊢
        rw [eval_sim K n a b h e]
        cases eval e b with
        | none => trivial
        | some v =>
          simp only [Option.bind_some]
          split
          · exact hb
          · exact ⟨h, rfl⟩
    | .brk, n, a, b, h, _ => ⟨h, rfl⟩
    | .cont, n, a, b, h, _ => ⟨h, rfl⟩
  theorem execL_sim (K : List Name) :
      ∀ (ss : BStmts) (n : Nat) (a b : Frames), SimN K n a b → (n = 0 → noTopDefL K ss = true) →
        RelE K n (execL ss a) (execL ss b)
    | .nil, n, a, b, h, _ => ⟨h, rfl⟩
    | .cons s r, n, a, b, h, hd => by
        have h1 := execS_sim K s n a b h (fun hn => by
          have := hd hn; simp only [noTopDefL, Bool.and_eq_true] at this; exact this.1)
        simp only [execL, Option.bind_eq_bind, Option.pure_def]
        cases ha : execS s a with
        | none =>
          rw [ha] at h1
          cases hb : execS s b with
          | none => trivial
          | some _ => rw [hb] at h1; exact h1.elim
        | some ra =>
          rw [ha] at h1
          cases hb : execS s b with
          | none => rw [hb] at h1; exact h1.elim
          | some rb =>
            rw [hb] at h1
            obtain ⟨ra1, ra2⟩ := ra
            obtain ⟨rb1, rb2⟩ := rb
            obtain ⟨hs, hc⟩ := h1
            simp only at hs hc
            subst hc
            simp only [Option.bind_some]
            cases ra2 with
            | next =>
              exact execL_sim K r n ra1 rb1 hs (fun hn => by
                have := hd hn; simp only [noTopDefL, Bool.and_eq_true] at this; exact this.2)
            | brk => exact ⟨hs, rfl⟩
            | cont => exact ⟨hs, rfl⟩
end

/-- **rewriteForRange, `:=` form**: for every body that does not redeclare the loop variable at its top level -/
theorem lowIter_consumer_define (k : Name) (body : BStmts) (hb : noTopDefL [k] body = true) (kv : Int × Int)
    (fs : Frames) :
    lowIter (lowerConsumer ⟨.define, some k, none, body⟩) kv fs = specIter ⟨.define, some k, none, body⟩ kv fs := by
  have hsim := execL_sim [k] body 0 ([] :: [(k, kv.1)] :: fs) ([(k, kv.1)] :: fs)
    ⟨[], [(k, kv.1)], fs, rfl, rfl, rfl⟩ (fun _ => hb)
  simp only [lowIter, lowerConsumer, specIter, execSets, setOpt, setVar, execS, define_nil_cons,
    Option.isNone_none, Option.isNone_some, Bool.and_true, if_false, Bool.false_eq_true,
    Option.pure_def, Option.bind_eq_bind, Option.bind_some, pop, if_true]
  cases ha : execL body ([] :: [(k, kv.1)] :: fs) with
  | none =>
    rw [ha] at hsim
    cases hb' : execL body ([(k, kv.1)] :: fs) with
    | none => rfl
    | some _ => rw [hb'] at hsim; exact hsim.elim
  | some ra =>
    rw [ha] at hsim
    cases hb' : execL body ([(k, kv.1)] :: fs) with
    | none => rw [hb'] at hsim; exact hsim.elim
    | some rb =>
      rw [hb'] at hsim
      obtain ⟨⟨g, f1, fs', e1, e2, _⟩, hc⟩ := hsim
      obtain ⟨ra1, ra2⟩ := ra
      obtain ⟨rb1, rb2⟩ := rb
      simp only at e1 e2 hc
      subst e1 e2 hc
      rfl

theorem lowerConsumer_define_correct (k : Name) (body : BStmts) (hb : noTopDefL [k] body = true)
    (elems : List (Int × Int)) (fs : Frames) :
    lowLoop (lowerConsumer ⟨.define, some k, none, body⟩) elems fs = specLoop ⟨.define, some k, none, body⟩ elems fs :=
  loopOver_congr (lowIter_consumer_define k body hb) elems fs

/-- the guard is exactly what D11b violates -/
example : noTopDefL [1] cexD11b.body = false := by decide

end GoCo.RL
