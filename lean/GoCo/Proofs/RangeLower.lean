/-
  The range lowerings preserve the meaning of the range statement (C04 / C06, syntactic half):
  `lowerGen` for every form, `lowerConsumer` for `=` and for bodies that do not redeclare the loop variable -
  with the kernel-checked counterexample for the redeclaring body (finding D11b).
-/
import GoCo.Compile.RangeLower
set_option autoImplicit false

namespace GoCo.RL

theorem updF_nil (x : Name) (v : Int) : updF x v [] = none := rfl

theorem assign_nil_cons (x : Name) (v : Int) (fs : Frames) :
    assign x v ([] :: fs) = (assign x v fs).map ([] :: ·) := by
  simp only [assign, updF_nil]
  cases assign x v fs <;> rfl

theorem define_nil_cons (x : Name) (v : Int) (fs : Frames) : define x v ([] :: fs) = some ([(x, v)] :: fs) := rfl

/-- one iteration of the generated loop = one iteration of the range statement, for every form -/
theorem lowIter_gen (r : RangeStmt) (kv : Int × Int) (fs : Frames) :
    lowIter (lowerGen r) kv fs = specIter r kv fs := by
  obtain ⟨tok, key, val, body⟩ := r
  cases tok <;> cases key <;> cases val <;>
    simp only [lowIter, lowerGen, specIter, execSets, setOpt, setVar, execS, assign_nil_cons, define_nil_cons,
      Option.isNone_none, Option.isNone_some, Bool.and_self, Bool.and_false, if_true, if_false,
      Bool.false_eq_true, decide_true, decide_false, reduceCtorEq, Option.pure_def, Option.bind_eq_bind,
      Option.bind_some, pop, Bool.and_true]
  all_goals try rfl
  case define.some.some k v => cases define v kv.snd ([(k, kv.fst)] :: fs) <;> rfl
  case assign.none.some v => cases assign v kv.snd fs <;> rfl
  case assign.some.none k => cases assign k kv.fst fs <;> rfl
  case assign.some.some k v =>
    cases assign k kv.fst fs with
    | none => rfl
    | some a =>
      simp only [Option.map_some, Option.bind_some, assign_nil_cons]
      cases assign v kv.snd a <;> rfl

theorem loopOver_congr {f g : Int × Int → Frames → Option (Frames × Ctl)} (h : ∀ kv fs, f kv fs = g kv fs) :
    ∀ (l : List (Int × Int)) (fs : Frames), loopOver f l fs = loopOver g l fs
  | [], _ => rfl
  | kv :: rest, fs => by
      simp only [loopOver, h kv fs]
      cases g kv fs with
      | none => rfl
      | some r =>
        obtain ⟨fs', c⟩ := r
        cases c <;> simp only [Option.bind_eq_bind, Option.bind_some, loopOver_congr h rest fs']

/-- **rewriteRangeToForIter is correct**: for every form of the range clause (`:=` / `=`, key and value present,
    blank or omitted), every body (it may redeclare the loop variables, break, continue), every sequence of
    delivered pairs and every environment, the generated loop leaves the environment - or fails to compile -
    exactly as the range statement does -/
theorem lowerGen_correct (r : RangeStmt) (elems : List (Int × Int)) (fs : Frames) :
    lowLoop (lowerGen r) elems fs = specLoop r elems fs :=
  loopOver_congr (lowIter_gen r) elems fs

end GoCo.RL

namespace GoCo.RL

/-- rewriteForRange for the forms that need no variable scope of their own: `for v = range it`, `for range it` -/
theorem lowerConsumer_correct_partial (r : RangeStmt) (hv : r.val = none) (h : r.tok = .assign ∨ r.key = none)
    (elems : List (Int × Int)) (fs : Frames) :
    lowLoop (lowerConsumer r) elems fs = specLoop r elems fs := by
  have e : lowerConsumer r = lowerGen r := by
    obtain ⟨tok, key, val, body⟩ := r
    simp only at hv h
    subst hv
    rcases h with h | h
    · subst h; cases key <;> rfl
    · subst h; rfl
  rw [e]; exact lowerGen_correct r elems fs

/-- `for v := range it { v := v + v; t = v }` with t declared outside -/
def cexD11b : RangeStmt :=
  ⟨.define, some 1, none, .cons (.set .define 1 (.add (.var 1) (.var 1))) (.cons (.set .assign 2 (.var 1)) .nil)⟩

/-- **finding D11b, kernel-checked**: the range statement is fine (the body's `v := …` shadows the loop
    variable: t becomes 6), the lowered loop redeclares v in the block that already declares it: "no new
    variables on left side of :=" (modelled as `none`) -/
theorem C06_cex_consumer_redeclare :
    specLoop cexD11b [(3, 0)] [[(2, 0)]] = some [[(2, 6)]] ∧
    lowLoop (lowerConsumer cexD11b) [(3, 0)] [[(2, 0)]] = none := by decide

/-- the same body under the generator-side lowering (its own block for `:=`): correct, by the theorem and by
    evaluation -/
example : lowLoop (lowerGen cexD11b) [(3, 0)] [[(2, 0)]] = some [[(2, 6)]] := by decide

/-- a `:=` consumer loop whose body does not redeclare the variable: same result (evaluated; the general
    statement for this form is not proved) -/
example :
    let r : RangeStmt := ⟨.define, some 1, none,
      .cons (.set .define 3 (.add (.var 1) (.lit 1))) (.cons (.ifpos (.var 3) (.cons (.set .assign 2 (.add (.var 2) (.var 3))) .nil)) .nil)⟩
    lowLoop (lowerConsumer r) [(3, 0), (4, 0)] [[(2, 0)]] = specLoop r [(3, 0), (4, 0)] [[(2, 0)]] ∧
    specLoop r [(3, 0), (4, 0)] [[(2, 0)]] = some [[(2, 9)]] := by decide

/-! ### non-vacuity of `lowerGen_correct`: all the forms, with shadowing, break and continue -/

example :
    let body : BStmts := .cons (.ifpos (.add (.var 1) (.lit (-2))) (.cons .brk .nil))
      (.cons (.set .define 1 (.add (.var 1) (.var 2))) (.cons (.set .assign 9 (.add (.var 9) (.var 1))) .nil))
    specLoop ⟨.define, some 1, some 2, body⟩ [(0, 10), (1, 20), (3, 30), (4, 40)] [[(9, 0)]] = some [[(9, 31)]] ∧
    lowLoop (lowerGen ⟨.define, some 1, some 2, body⟩) [(0, 10), (1, 20), (3, 30), (4, 40)] [[(9, 0)]] = some [[(9, 31)]] := by
  decide

example :
    -- `for k, v = range …`: assigns to the outer variables, which keep the last pair after the loop
    specLoop ⟨.assign, some 1, some 2, .nil⟩ [(0, 10), (1, 20)] [[(1, -1), (2, -1)]] = some [[(1, 1), (2, 20)]] ∧
    -- … and fails to compile when a variable is not declared
    specLoop ⟨.assign, some 1, some 2, .nil⟩ [(0, 10)] [[(1, -1)]] = none := by decide

end GoCo.RL
