/-
  Scoping through pass0, pass3 and the optimiser; the compile-level theorem.
-/
import GoCo.Proofs.Scope
import GoCo.Proofs.OptimizeCorrect
set_option autoImplicit false

namespace GoCo.MG
open GoCo

/-- statements with the same observations and the same effect on the environment -/
def SameS (a b : Stmt) : Prop := (∀ env, obsS env a = obsS env b) ∧ (∀ env, envS env a = envS env b)

theorem SameS.rfl' (s : Stmt) : SameS s s := ⟨fun _ => rfl, fun _ => rfl⟩

theorem obsL_cons_same {a b : Stmt} {ra rb : Stmts} (h : SameS a b) (hr : ∀ env, obsL env ra = obsL env rb) (env : Env) :
    obsL env (.cons a ra) = obsL env (.cons b rb) := by
  simp only [obsL, h.1, h.2, hr]

/-! ### pass0 -/

mutual
  theorem p0Stmt_scope : ∀ s : Stmt, SameS (p0Stmt s) s
    | .ret => ⟨fun _ => rfl, fun _ => rfl⟩
    | .block ss => ⟨fun env => by simp only [p0Stmt, obsS, p0Stmts_scope ss], fun _ => rfl⟩
    | .ifs init c thn els =>
        ⟨fun env => by simp only [p0Stmt, obsS, p0Stmts_scope thn, p0Else_scope els], fun _ => rfl⟩
    | .switch init tag cases => by
        refine ⟨fun env => ?_, fun env => ?_⟩
        · simp only [p0Stmt]
          split
          · simp [obsS, obsL, obsI, envS, envI, p0Cases_scope cases]
          · simp only [obsS, p0Cases_scope cases]
        · simp only [p0Stmt]
          split <;> rfl
    | .for_ init cond post body => by
        refine ⟨fun env => ?_, fun env => ?_⟩
        · simp only [p0Stmt]
          split
          · simp [obsS, obsL, obsI, envS, envI, p0Stmts_scope body]
          · simp only [obsS, p0Stmts_scope body]
        · simp only [p0Stmt]
          split <;> rfl
    | .simple _ => SameS.rfl' _
    | .brk => SameS.rfl' _
    | .cont => SameS.rfl' _
    | .fallthrough => SameS.rfl' _
    | .rete _ => SameS.rfl' _
    | .unknown _ => SameS.rfl' _
  theorem p0Stmts_scope : ∀ (ss : Stmts) (env : Env), obsL env (p0Stmts ss) = obsL env ss
    | .nil, _ => rfl
    | .cons s r, env => by
        simp only [p0Stmts]
        exact obsL_cons_same (p0Stmt_scope s) (p0Stmts_scope r) env
  theorem p0Else_scope : ∀ (e : Else) (env : Env), obsE env (p0Else e) = obsE env e
    | .none, _ => rfl
    | .els ss, env => by simp only [p0Else, obsE, p0Stmts_scope ss]
    | .elif s, env => by simp only [p0Else, obsE, (p0Stmt_scope s).1]
  theorem p0Cases_scope : ∀ (cs : Cases) (env : Env), obsC env (p0Cases cs) = obsC env cs
    | .nil, _ => rfl
    | .cons d ks body r, env => by simp only [p0Cases, obsC, p0Stmts_scope body, p0Cases_scope r]
end

theorem isDefStmt_p0 (s : Stmt) : isDefStmt (p0Stmt s) = isDefStmt s := by
  cases s with
  | switch init _ _ => simp only [p0Stmt]; split <;> rfl
  | for_ init _ _ _ => simp only [p0Stmt]; split <;> rfl
  | _ => rfl

theorem isJump_p0 (s : Stmt) : isJump (p0Stmt s) = isJump s := by
  cases s with
  | switch init _ _ => simp only [p0Stmt]; split <;> rfl
  | for_ init _ _ _ => simp only [p0Stmt]; split <;> rfl
  | _ => rfl

theorem noTopDef_p0 : ∀ ss : Stmts, noTopDef (p0Stmts ss) = noTopDef ss
  | .nil => rfl
  | .cons s r => by simp only [p0Stmts, noTopDef, isDefStmt_p0, noTopDef_p0 r]

theorem isNil_p0 (ss : Stmts) : (p0Stmts ss).isNil = ss.isNil := by cases ss <;> rfl

mutual
  theorem p0Stmt_scopeOK : ∀ s : Stmt, scopeOKS s = true → scopeOKS (p0Stmt s) = true
    | .block ss, h => by simp only [scopeOKS] at h; simpa [p0Stmt, scopeOKS] using p0Stmts_scopeOK ss h
    | .ifs init c thn els, h => by
        simp only [scopeOKS, Bool.and_eq_true] at h
        simp [p0Stmt, scopeOKS, p0Stmts_scopeOK thn h.1, p0Else_scopeOK els h.2]
    | .switch init tag cases, h => by
        simp only [scopeOKS] at h
        simp only [p0Stmt]
        split
        · simp [scopeOKS, scopeOKL, isJump, Stmts.isNil, p0Cases_scopeOK cases h]
        · simpa [scopeOKS] using p0Cases_scopeOK cases h
    | .for_ init cond post body, h => by
        simp only [scopeOKS, Bool.and_eq_true] at h
        have hb := p0Stmts_scopeOK body h.1
        simp only [p0Stmt]
        split
        · simp [scopeOKS, scopeOKL, isJump, Stmts.isNil, hb, noTopDef_p0]
          simpa using h.2
        · simp [scopeOKS, hb, noTopDef_p0]
          simpa using h.2
    | .ret, _ => rfl
    | .simple _, _ => rfl
    | .brk, _ => rfl
    | .cont, _ => rfl
    | .fallthrough, _ => rfl
    | .rete _, _ => rfl
    | .unknown _, _ => rfl
  theorem p0Stmts_scopeOK : ∀ ss : Stmts, scopeOKL ss = true → scopeOKL (p0Stmts ss) = true
    | .nil, _ => rfl
    | .cons s r, h => by
        simp only [scopeOKL, Bool.and_eq_true] at h
        simp only [p0Stmts, scopeOKL, Bool.and_eq_true, isJump_p0, isNil_p0]
        exact ⟨⟨p0Stmt_scopeOK s h.1.1, p0Stmts_scopeOK r h.1.2⟩, h.2⟩
  theorem p0Else_scopeOK : ∀ e : Else, scopeOKE e = true → scopeOKE (p0Else e) = true
    | .none, _ => rfl
    | .els ss, h => by simp only [scopeOKE] at h; simpa [p0Else, scopeOKE] using p0Stmts_scopeOK ss h
    | .elif s, h => by simp only [scopeOKE] at h; simpa [p0Else, scopeOKE] using p0Stmt_scopeOK s h
  theorem p0Cases_scopeOK : ∀ cs : Cases, scopeOKC cs = true → scopeOKC (p0Cases cs) = true
    | .nil, _ => rfl
    | .cons d ks body r, h => by
        simp only [scopeOKC, Bool.and_eq_true] at h
        simp [p0Cases, scopeOKC, p0Stmts_scopeOK body h.1, p0Cases_scopeOK r h.2]
end

/-! ### pass3 -/

theorem obsL_dropLast : ∀ (ss : Stmts) (env : Env), lastStmt? ss = some (.rete (.sig .normal)) →
    obsL env (dropLast ss) = obsL env ss
  | .nil, _, h => by cases h
  | .cons s .nil, env, h => by
      simp only [lastStmt?, Option.some.injEq] at h
      subst h
      rfl
  | .cons s (.cons x r), env, h => by
      simp only [dropLast, obsL]
      have := obsL_dropLast (.cons x r) (envS env s) (by simpa [lastStmt?] using h)
      simp only [obsL] at this
      rw [this]

theorem rmRedundantReturn_scope (q : Quirks) (ss : Stmts) :
    OkIf (rmRedundantReturn q ss) (fun r => ∀ env, obsL env r = obsL env ss) := by
  unfold rmRedundantReturn
  split
  · rename_i hl
    refine OkIf.bind (OkIf.triv _) (fun t _ => ?_)
    split
    · exact OkIf.pure (fun env => obsL_dropLast ss env hl)
    · exact OkIf.pure (fun _ => rfl)
  · exact OkIf.pure (fun _ => rfl)

mutual
  theorem p3Stmt_scope (q : Quirks) :
      ∀ (s : Stmt) (il isw : Bool), OkIf (p3Stmt q il isw s) (fun r => SameS r.1 s)
    | .brk, _, _ => by
        simp only [p3Stmt]; refine OkIf.pure ?_; split <;> exact ⟨fun _ => rfl, fun _ => rfl⟩
    | .cont, _, _ => by
        simp only [p3Stmt]; refine OkIf.pure ?_; split <;> exact ⟨fun _ => rfl, fun _ => rfl⟩
    | .fallthrough, _, _ => by
        simp only [p3Stmt]; split
        · exact OkIf.pure (SameS.rfl' _)
        · exact OkIf.throw
    | .block ss, il, isw => by
        simp only [p3Stmt]
        exact OkIf.bind (p3Stmts_scope q ss il isw) (fun r hr => OkIf.pure ⟨fun env => by simp only [obsS, hr], fun _ => rfl⟩)
    | .ifs _ _ thn els, il, isw => by
        simp only [p3Stmt]
        refine OkIf.bind (p3Stmts_scope q thn il isw) (fun r1 h1 => ?_)
        exact OkIf.bind (p3Else_scope q els il isw) (fun r2 h2 =>
          OkIf.pure ⟨fun env => by simp only [obsS, h1, h2], fun _ => rfl⟩)
    | .switch _ _ cases, il, _ => by
        simp only [p3Stmt]
        exact OkIf.bind (p3Cases_scope q cases il true) (fun r hr =>
          OkIf.pure ⟨fun env => by simp only [obsS, hr], fun _ => rfl⟩)
    | .for_ _ _ _ body, _, isw => by
        simp only [p3Stmt]
        exact OkIf.bind (p3Stmts_scope q body true isw) (fun r hr =>
          OkIf.pure ⟨fun env => by simp only [obsS, hr], fun _ => rfl⟩)
    | .rete e, _, _ => by
        simp only [p3Stmt]
        exact OkIf.bind (p3SExp_scope q e) (fun r hr => OkIf.pure ⟨fun env => by simp only [obsS, hr], fun _ => rfl⟩)
    | .simple _, _, _ => by simp only [p3Stmt]; exact OkIf.pure (SameS.rfl' _)
    | .ret, _, _ => by simp only [p3Stmt]; exact OkIf.pure (SameS.rfl' _)
    | .unknown _, _, _ => by simp only [p3Stmt]; exact OkIf.pure (SameS.rfl' _)
  theorem p3Stmts_scope (q : Quirks) :
      ∀ (ss : Stmts) (il isw : Bool), OkIf (p3Stmts q il isw ss) (fun r => ∀ env, obsL env r.1 = obsL env ss)
    | .nil, _, _ => by simp only [p3Stmts]; exact OkIf.pure (fun _ => rfl)
    | .cons s r, il, isw => by
        simp only [p3Stmts]
        refine OkIf.bind (p3Stmt_scope q s il isw) (fun r1 h1 => ?_)
        exact OkIf.bind (p3Stmts_scope q r il isw) (fun r2 h2 => OkIf.pure (fun env => obsL_cons_same h1 h2 env))
  theorem p3Else_scope (q : Quirks) :
      ∀ (e : Else) (il isw : Bool), OkIf (p3Else q il isw e) (fun r => ∀ env, obsE env r.1 = obsE env e)
    | .none, _, _ => by simp only [p3Else]; exact OkIf.pure (fun _ => rfl)
    | .els ss, il, isw => by
        simp only [p3Else]
        exact OkIf.bind (p3Stmts_scope q ss il isw) (fun r hr => OkIf.pure (fun env => by simp only [obsE, hr]))
    | .elif s, il, isw => by
        simp only [p3Else]
        exact OkIf.bind (p3Stmt_scope q s il isw) (fun r hr => OkIf.pure (fun env => by simp only [obsE, hr.1]))
  theorem p3Cases_scope (q : Quirks) :
      ∀ (cs : Cases) (il isw : Bool), OkIf (p3Cases q il isw cs) (fun r => ∀ env, obsC env r.1 = obsC env cs)
    | .nil, _, _ => by simp only [p3Cases]; exact OkIf.pure (fun _ => rfl)
    | .cons _ _ body r, il, isw => by
        simp only [p3Cases]
        refine OkIf.bind (p3Stmts_scope q body il isw) (fun r1 h1 => ?_)
        exact OkIf.bind (p3Cases_scope q r il isw) (fun r2 h2 => OkIf.pure (fun env => by simp only [obsC, h1, h2]))
  theorem p3SExp_scope (q : Quirks) :
      ∀ (e : SExp), OkIf (p3SExp q e) (fun r => ∀ env, obsX env r = obsX env e)
    | .bind e th => by
        simp only [p3SExp]
        exact OkIf.bind (p3Thunk_scope q th) (fun r hr => OkIf.pure (fun env => by simp only [obsX, hr]))
    | .delay th => by
        simp only [p3SExp]
        exact OkIf.bind (p3Thunk_scope q th) (fun r hr => OkIf.pure (fun env => by simp only [obsX, hr]))
    | .combine a b => by
        simp only [p3SExp]
        refine OkIf.bind (p3SExp_scope q a) (fun ra ha => ?_)
        exact OkIf.bind (p3SExp_scope q b) (fun rb hb => OkIf.pure (fun env => by simp only [obsX, ha, hb]))
    | .loop _ _ body => by
        simp only [p3SExp]
        exact OkIf.bind (p3SExp_scope q body) (fun rb hb => OkIf.pure (fun env => by simp only [obsX, hb]))
    | .start a => by
        simp only [p3SExp]
        exact OkIf.bind (p3SExp_scope q a) (fun r hr => OkIf.pure (fun env => by simp only [obsX, hr]))
    | .sig _ => by simp only [p3SExp]; exact OkIf.pure (fun _ => rfl)
    | .unknown _ => by simp only [p3SExp]; exact OkIf.pure (fun _ => rfl)
  theorem p3Thunk_scope (q : Quirks) :
      ∀ (th : Thunk), OkIf (p3Thunk q th) (fun r => ∀ env, obsT env r = obsT env th)
    | .lam ss => by
        simp only [p3Thunk]
        refine OkIf.bind (p3Stmts_scope q ss false false) (fun p hp => ?_)
        split
        · exact OkIf.bind (rmRedundantReturn_scope q _) (fun r hr => OkIf.pure (fun env => by simp only [obsT, hr, hp]))
        · exact OkIf.pure (fun env => by simp only [obsT, hp])
    | .fn _ => by simp only [p3Thunk]; exact OkIf.pure (fun _ => rfl)
end

/-- **compile_scope**: the generated body resolves every atom in the environment of the source -/
theorem compile_scope (q : Quirks) (body out : Stmts) (hs : scopeOKL body = true) (h : compile q body = .ok out)
    (env : Env) : obsL env out = obsL env body := by
  unfold compile at h
  obtain ⟨b, hb, h⟩ := bind_ok h
  obtain ⟨th, hth, h⟩ := bind_ok h
  cases pure_ok h
  have h2 := rwStmts_scope q (p0Stmts body) (Blk.mk0 .delay) (p0Stmts_scopeOK body hs) (ip_mk0 _) b hb env
  have h3 := p3Thunk_scope q (.lam b.toStmts) th hth env
  simp only [obsB_mk0, envB_mk0, List.nil_append, p0Stmts_scope] at h2
  simp only [obsL, obsS, obsX, h3, obsT, List.append_nil]
  exact h2

/-! ### the optimiser -/

mutual
  theorem odStmt_scope : ∀ s : Stmt, SameS (odStmt s) s
    | .block ss => ⟨fun env => by simp only [odStmt, obsS, odStmts_scope ss], fun _ => rfl⟩
    | .ifs init c thn els => ⟨fun env => by simp only [odStmt, obsS, odStmts_scope thn, odElse_scope els], fun _ => rfl⟩
    | .switch init tag cases => ⟨fun env => by simp only [odStmt, obsS, odCases_scope cases], fun _ => rfl⟩
    | .for_ init cond post body => ⟨fun env => by simp only [odStmt, obsS, odStmts_scope body], fun _ => rfl⟩
    | .rete e => ⟨fun env => by simp only [odStmt, obsS, odSExp_scope e], fun _ => rfl⟩
    | .simple _ => SameS.rfl' _
    | .brk => SameS.rfl' _
    | .cont => SameS.rfl' _
    | .fallthrough => SameS.rfl' _
    | .ret => SameS.rfl' _
    | .unknown _ => SameS.rfl' _
  theorem odStmts_scope : ∀ (ss : Stmts) (env : Env), obsL env (odStmts ss) = obsL env ss
    | .nil, _ => rfl
    | .cons s r, env => by
        simp only [odStmts]
        exact obsL_cons_same (odStmt_scope s) (odStmts_scope r) env
  theorem odElse_scope : ∀ (e : Else) (env : Env), obsE env (odElse e) = obsE env e
    | .none, _ => rfl
    | .els ss, env => by simp only [odElse, obsE, odStmts_scope ss]
    | .elif s, env => by simp only [odElse, obsE, (odStmt_scope s).1]
  theorem odCases_scope : ∀ (cs : Cases) (env : Env), obsC env (odCases cs) = obsC env cs
    | .nil, _ => rfl
    | .cons d ks body r, env => by simp only [odCases, obsC, odStmts_scope body, odCases_scope r]
  theorem odSExp_scope : ∀ (e : SExp) (env : Env), obsX env (odSExp e) = obsX env e
    | .bind e th, env => by simp only [odSExp, obsX, odThunk_scope th]
    | .delay th, env => by
        have h := odThunk_scope th env
        simp only [odSExp]
        split
        · rename_i x hx
          rw [hx] at h
          split
          · simp only [obsX, ← h, obsT, obsL, obsS, List.append_nil]
          · simp only [obsX, ← h]
        · simp only [obsX, h]
    | .combine a b, env => by simp only [odSExp, obsX, odSExp_scope a, odSExp_scope b]
    | .loop c p body, env => by simp only [odSExp, obsX, odSExp_scope body]
    | .start a, env => by simp only [odSExp, obsX, odSExp_scope a]
    | .sig _, _ => rfl
    | .unknown _, _ => rfl
  theorem odThunk_scope : ∀ (th : Thunk) (env : Env), obsT env (odThunk th) = obsT env th
    | .lam ss, env => by simp only [odThunk, obsT, odStmts_scope ss]
    | .fn _, _ => rfl
end

mutual
  theorem etaStmt_scope : ∀ s : Stmt, SameS (etaStmt s) s
    | .block ss => ⟨fun env => by simp only [etaStmt, obsS, etaStmts_scope ss], fun _ => rfl⟩
    | .ifs init c thn els => ⟨fun env => by simp only [etaStmt, obsS, etaStmts_scope thn, etaElse_scope els], fun _ => rfl⟩
    | .switch init tag cases => ⟨fun env => by simp only [etaStmt, obsS, etaCases_scope cases], fun _ => rfl⟩
    | .for_ init cond post body => ⟨fun env => by simp only [etaStmt, obsS, etaStmts_scope body], fun _ => rfl⟩
    | .rete e => ⟨fun env => by simp only [etaStmt, obsS, etaSExp_scope e], fun _ => rfl⟩
    | .simple _ => SameS.rfl' _
    | .brk => SameS.rfl' _
    | .cont => SameS.rfl' _
    | .fallthrough => SameS.rfl' _
    | .ret => SameS.rfl' _
    | .unknown _ => SameS.rfl' _
  theorem etaStmts_scope : ∀ (ss : Stmts) (env : Env), obsL env (etaStmts ss) = obsL env ss
    | .nil, _ => rfl
    | .cons s r, env => by
        simp only [etaStmts]
        exact obsL_cons_same (etaStmt_scope s) (etaStmts_scope r) env
  theorem etaElse_scope : ∀ (e : Else) (env : Env), obsE env (etaElse e) = obsE env e
    | .none, _ => rfl
    | .els ss, env => by simp only [etaElse, obsE, etaStmts_scope ss]
    | .elif s, env => by simp only [etaElse, obsE, (etaStmt_scope s).1]
  theorem etaCases_scope : ∀ (cs : Cases) (env : Env), obsC env (etaCases cs) = obsC env cs
    | .nil, _ => rfl
    | .cons d ks body r, env => by simp only [etaCases, obsC, etaStmts_scope body, etaCases_scope r]
  theorem etaSExp_scope : ∀ (e : SExp) (env : Env), obsX env (etaSExp e) = obsX env e
    | .bind e th, env => by simp only [etaSExp, obsX, etaThunk_scope th]
    | .delay th, env => by simp only [etaSExp, obsX, etaThunk_scope th]
    | .combine a b, env => by simp only [etaSExp, obsX, etaSExp_scope a, etaSExp_scope b]
    | .loop c p body, env => by simp only [etaSExp, obsX, etaSExp_scope body]
    | .start a, env => by simp only [etaSExp, obsX, etaSExp_scope a]
    | .sig _, _ => rfl
    | .unknown _, _ => rfl
  theorem etaThunk_scope : ∀ (th : Thunk) (env : Env), obsT env (etaThunk th) = obsT env th
    | .fn _, _ => rfl
    | .lam .nil, _ => rfl
    | .lam (.cons (.rete (.sig s)) .nil), env => rfl
    | .lam (.cons (.rete (.sig s)) (.cons x r)), env => by
        simp only [etaThunk, obsT]; exact etaStmts_scope _ env
    | .lam (.cons (.rete (.bind e t)) r), env => by simp only [etaThunk, obsT]; exact etaStmts_scope _ env
    | .lam (.cons (.rete (.delay t)) r), env => by simp only [etaThunk, obsT]; exact etaStmts_scope _ env
    | .lam (.cons (.rete (.combine a b)) r), env => by simp only [etaThunk, obsT]; exact etaStmts_scope _ env
    | .lam (.cons (.rete (.loop c p b)) r), env => by simp only [etaThunk, obsT]; exact etaStmts_scope _ env
    | .lam (.cons (.rete (.start a)) r), env => by simp only [etaThunk, obsT]; exact etaStmts_scope _ env
    | .lam (.cons (.rete (.unknown t)) r), env => by simp only [etaThunk, obsT]; exact etaStmts_scope _ env
    | .lam (.cons (.simple x) r), env => by simp only [etaThunk, obsT]; exact etaStmts_scope _ env
    | .lam (.cons (.block x) r), env => by simp only [etaThunk, obsT]; exact etaStmts_scope _ env
    | .lam (.cons (.ifs i c t e) r), env => by simp only [etaThunk, obsT]; exact etaStmts_scope _ env
    | .lam (.cons (.switch i t c) r), env => by simp only [etaThunk, obsT]; exact etaStmts_scope _ env
    | .lam (.cons (.for_ i c p b) r), env => by simp only [etaThunk, obsT]; exact etaStmts_scope _ env
    | .lam (.cons .brk r), env => by simp only [etaThunk, obsT]; exact etaStmts_scope _ env
    | .lam (.cons .cont r), env => by simp only [etaThunk, obsT]; exact etaStmts_scope _ env
    | .lam (.cons .fallthrough r), env => by simp only [etaThunk, obsT]; exact etaStmts_scope _ env
    | .lam (.cons .ret r), env => by simp only [etaThunk, obsT]; exact etaStmts_scope _ env
    | .lam (.cons (.unknown t) r), env => by simp only [etaThunk, obsT]; exact etaStmts_scope _ env
end

theorem optimize_scope (ss : Stmts) (env : Env) : obsL env (optimize ss) = obsL env ss := by
  simp only [optimize, etaStmts_scope, odStmts_scope]

end GoCo.MG
