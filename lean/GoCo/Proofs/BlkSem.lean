/- Semantics of blocks under construction and of the generated statement forms; the loop lemmas. -/
import GoCo.Proofs.Frag
import GoCo.Compile.Pass2
set_option autoImplicit false

namespace GoCo.MG
variable {σ P : Type}

/-! ### statement lists -/

theorem ofList_snoc (l : List Stmt) (s : Stmt) : Stmts.ofList (l ++ [s]) = (Stmts.ofList l).snoc s := by
  induction l with
  | nil => rfl
  | cons x r ih => simp [Stmts.ofList, Stmts.snoc, ih]

theorem denL_cons (ρ : Interp σ P) (N : Nat) (susp : Bool) (s : Stmt) (r : Stmts) (st : σ) :
    denL ρ N susp (.cons s r) st = thenF (denS ρ N susp s st) (fun st' => denL ρ N susp r st') := rfl

theorem denL_single' (ρ : Interp σ P) (N : Nat) (susp : Bool) (s : Stmt) (st : σ) :
    denL ρ N susp (.cons s .nil) st = denS ρ N susp s st := by
  rw [denL_cons]
  exact thenF_done _

theorem denL_snoc (ρ : Interp σ P) (N : Nat) (susp : Bool) :
    ∀ (xs : Stmts) (s : Stmt) (st : σ),
      denL ρ N susp (xs.snoc s) st = thenF (denL ρ N susp xs st) (fun st' => denS ρ N susp s st')
  | .nil, s, st => by simp only [Stmts.snoc, denL_single']; simp [denL, thenF, Res.bind]
  | .cons x r, s, st => by
      simp only [Stmts.snoc, denL_cons, thenF_assoc]
      congr; funext st'; exact denL_snoc ρ N susp r s st'

/-! ### blocks -/

def Dblk (ρ : Interp σ P) (N : Nat) (b : Blk) (st : σ) : Res Flow σ P := denL ρ N false b.toStmts st

theorem toStmts_pushU (b : Blk) (s : Stmt) (k : Kind) : (b.pushU s k).toStmts = b.toStmts.snoc s := by
  simp [Blk.pushU, Blk.toStmts, ofList_snoc]

theorem Dblk_pushU (ρ : Interp σ P) (N : Nat) (b : Blk) (s : Stmt) (k : Kind) (st : σ) :
    Dblk ρ N (b.pushU s k) st = thenF (Dblk ρ N b st) (fun st' => denS ρ N false s st') := by
  simp only [Dblk, toStmts_pushU, denL_snoc]

theorem Dblk_pushReturnU (ρ : Interp σ P) (N : Nat) (b : Blk) (e : SExp) (k : Kind) (st : σ) :
    Dblk ρ N (b.pushReturnU e k) st = thenF (Dblk ρ N b st) (fun st' => denS ρ N false (.rete e) st') := by
  simp only [Blk.pushReturnU]
  exact Dblk_pushU ρ N b (.rete e) k st

theorem Dblk_mk0 (ρ : Interp σ P) (N : Nat) (k : Kind) (st : σ) : Dblk ρ N (Blk.mk0 k) st = .done .fall st := rfl

theorem Dblk_markCombined (ρ : Interp σ P) (N : Nat) (b : Blk) (st : σ) :
    Dblk ρ N b.markCombined st = Dblk ρ N b st := rfl

/-- the statements of the block are ordinary source statements: kind trivial, `Plain` outcomes -/
def OpenSem (ρ : Interp σ P) (N : Nat) (b : Blk) : Prop :=
  ∀ x ∈ b.items, x.2 = Kind.trivial ∧ ∀ st, Res.All Plain (denS ρ N false x.1 st)

/-- all statements but the last one pushed are ordinary source statements -/
def WFSem (ρ : Interp σ P) (N : Nat) (b : Blk) : Prop :=
  ∀ x ∈ b.items.tail, x.2 = Kind.trivial ∧ ∀ st, Res.All Plain (denS ρ N false x.1 st)

theorem OpenSem.wf {ρ : Interp σ P} {N : Nat} {b : Blk} (h : OpenSem ρ N b) : WFSem ρ N b :=
  fun x hx => h x (List.mem_of_mem_tail hx)

theorem openSem_mk0 (ρ : Interp σ P) (N : Nat) (k : Kind) : OpenSem ρ N (Blk.mk0 k) := by
  intro x hx; simp [Blk.mk0] at hx

theorem denL_ofList_plain (ρ : Interp σ P) (N : Nat) (l : List Stmt)
    (h : ∀ s ∈ l, ∀ st, Res.All Plain (denS ρ N false s st)) (st : σ) :
    Res.All Plain (denL ρ N false (Stmts.ofList l) st) := by
  induction l generalizing st with
  | nil => exact .done plain_fall
  | cons s r ih =>
    simp only [Stmts.ofList, denL]
    refine (h s (by simp) st).bind fun o st' ho => ?_
    by_cases hf : o = .fall
    · simp only [hf, if_true]; exact ih (fun s' hs' => h s' (by simp [hs'])) st'
    · simp only [hf, if_false]; exact .done ho

theorem OpenSem.plain {ρ : Interp σ P} {N : Nat} {b : Blk} (h : OpenSem ρ N b) (st : σ) :
    Res.All Plain (Dblk ρ N b st) := by
  apply denL_ofList_plain
  intro s hs st'
  simp only [List.mem_map, List.mem_reverse] at hs
  obtain ⟨x, hx, rfl⟩ := hs
  exact (h x hx).2 st'

theorem OpenSem.pushU {ρ : Interp σ P} {N : Nat} {b : Blk} (h : OpenSem ρ N b) (s : Stmt)
    (hs : ∀ st, Res.All Plain (denS ρ N false s st)) : OpenSem ρ N (b.pushU s .trivial) := by
  intro x hx
  simp only [Blk.pushU, List.mem_cons] at hx
  rcases hx with rfl | hx
  · exact ⟨rfl, hs⟩
  · exact h x hx

theorem OpenSem.wf_pushU {ρ : Interp σ P} {N : Nat} {b : Blk} (h : OpenSem ρ N b) (s : Stmt) (k : Kind) :
    WFSem ρ N (b.pushU s k) := by
  intro x hx
  simp only [Blk.pushU, List.tail_cons] at hx
  exact h x hx

/-! ### generated statement forms, closed -/

theorem closeThunk_exit_bind (r : Res Sig σ P) :
    (r.bind fun s st => (.done (.exit s) st : Res Flow σ P)).bind closeThunk = r := by
  rw [Res.bind_assoc]
  conv => rhs; rw [← Res.bind_done r]
  rfl

theorem closed_rete (ρ : Interp σ P) (N : Nat) (susp : Bool) (e : SExp) (st : σ) :
    closed (denS ρ N susp (.rete e) st) =
      match evalS ρ N e st with
      | (.error p, st') => .panic p st'
      | (.ok run, st') => run st' := by
  simp only [denS, closed]
  rcases evalS ρ N e st with ⟨_ | run, st'⟩
  · rfl
  · exact closeThunk_exit_bind _

theorem closed_rete_sig (ρ : Interp σ P) (N : Nat) (susp : Bool) (s : Sig) (st : σ) :
    closed (denS ρ N susp (.rete (.sig s)) st) = .done s st := by
  rw [closed_rete]; rfl

theorem closed_rete_delay (ρ : Interp σ P) (N : Nat) (susp : Bool) (ss : Stmts) (st : σ) :
    closed (denS ρ N susp (.rete (.delay (.lam ss))) st) = closed (denL ρ N false ss st) := by
  rw [closed_rete]; rfl

theorem closed_rete_bind (ρ : Interp σ P) (N : Nat) (susp : Bool) (e : VExp) (ss : Stmts) (st : σ) :
    closed (denS ρ N susp (.rete (.bind e (.lam ss))) st) =
      match evalV ρ e st with
      | (.error p, st') => .panic p st'
      | (.ok v, st') => .yield v st' (fun st2 => closed (denL ρ N false ss st2)) := by
  rw [closed_rete]
  simp only [evalS]
  rcases evalV ρ e st with ⟨_ | v, st'⟩ <;> rfl

theorem closed_rete_combine (ρ : Interp σ P) (N : Nat) (susp : Bool) (a b : Stmts) (st : σ) :
    closed (denS ρ N susp (.rete (.combine (.delay (.lam a)) (.delay (.lam b)))) st) =
      seqN (denL ρ N false a st) (fun st' => closed (denL ρ N false b st')) := by
  rw [closed_rete]; rfl

theorem closed_rete_loop (ρ : Interp σ P) (N : Nat) (susp : Bool) (c : Option CondE) (p : Option Simple)
    (b : Stmts) (st : σ) :
    closed (denS ρ N susp (.rete (.loop c p (.delay (.lam b)))) st) =
      loopC (evalCond ρ c) (denInit ρ false p) (fun st' => closed (denL ρ N false b st')) N true st := by
  rw [closed_rete]; rfl

/-- a source `Yield`, closed, continuing with `K` -/
theorem seqN_yield (ρ : Interp σ P) (e : VExp) (st : σ) (K : σ → Res Sig σ P) :
    seqN (denSimple ρ true (.yield e) st) K =
      match evalV ρ e st with
      | (.error p, st') => .panic p st'
      | (.ok v, st') => .yield v st' K := by
  simp only [denSimple]
  rcases evalV ρ e st with ⟨_ | v, st'⟩
  · rfl
  · simp [seqN, closed, Res.bind, closeThunk]

/-! ### loops -/

theorem loopF_all (p : Flow → Prop) (hfall : p .fall) (cond : σ → Except P Bool × σ)
    (post body : σ → Res Flow σ P)
    (hp : ∀ st, Res.All p (post st)) (hb : ∀ st, Res.All p (body st)) :
    ∀ n st, Res.All p (loopF cond post body n st) := by
  intro n
  induction n with
  | zero => intro st; exact .oob
  | succ n ih =>
    intro st
    simp only [loopF]
    rcases cond st with ⟨_ | b, st1⟩
    · exact .panic
    · cases b
      · exact .done hfall
      · refine (hb st1).bind fun o st2 ho => ?_
        cases o with
        | fall =>
          refine (hp st2).bind fun o' st3 ho' => ?_
          by_cases h : o' = .fall
          · simp only [h, if_true]; exact ih st3
          · simp only [h, if_false]; exact .done ho'
        | ncont =>
          refine (hp st2).bind fun o' st3 ho' => ?_
          by_cases h : o' = .fall
          · simp only [h, if_true]; exact ih st3
          · simp only [h, if_false]; exact .done ho'
        | nbrk => exact .done hfall
        | nft => exact .done ho
        | exit s => exact .done ho

theorem loopC_false (cond : σ → Except P Bool × σ) (post : σ → Res Flow σ P) (body : σ → Res Sig σ P)
    (n : Nat) (st : σ) :
    loopC cond post body n false st = (post st).bind fun _ st0 => loopC cond post body n true st0 := by
  cases n <;> simp only [loopC, Bool.false_eq_true, if_false, if_true, Res.bind]

theorem closed_bind (r : Res Flow σ P) (f : Flow → σ → Res Flow σ P) :
    closed (r.bind f) = r.bind (fun o st => closed (f o st)) := by
  simp only [closed, Res.bind_assoc]

/-- a source loop whose post statement does not yield, against seq.For over the closed body -/
theorem loop_closed (cond : σ → Except P Bool × σ) (post body : σ → Res Flow σ P)
    (hpost : ∀ st, Res.All (fun o => o = Flow.fall) (post st))
    (hbody : ∀ st, Res.All SrcOut (body st)) :
    ∀ n st, closed (loopF cond post body n st)
      = loopC cond post (fun st' => closed (body st')) n true st := by
  intro n
  induction n with
  | zero => intro st; simp only [loopF, loopC, closed, Res.bind, if_true]
  | succ n ih =>
    intro st
    simp only [loopF, loopC, if_true, Res.bind]
    rcases cond st with ⟨_ | b, st1⟩
    · rfl
    · cases b
      · rfl
      · simp only [closed_bind]
        rw [show closed (body st1) = (body st1).bind closeThunk from rfl, Res.bind_assoc]
        refine Res.bind_congr (hbody st1) fun o st2 ho => ?_
        rcases ho with rfl | rfl | rfl | rfl
        · simp only [closeThunk, Res.bind, loopC_false, closed_bind]
          refine Res.bind_congr (hpost st2) fun o' st3 ho' => ?_
          subst ho'; simp only [if_true]; exact ih st3
        · simp [closeThunk, Res.bind, closed]
        · simp only [closeThunk, Res.bind, loopC_false, closed_bind]
          refine Res.bind_congr (hpost st2) fun o' st3 ho' => ?_
          subst ho'; simp only [if_true]; exact ih st3
        · simp [closeThunk, Res.bind, closed]

end GoCo.MG
