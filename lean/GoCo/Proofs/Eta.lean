/- eta-reduction of generated thunks, `func() Seq { return seq.X() }` ⇒ `seq.X`, preserves the semantics
   of every statement and Seq expression. -/
import GoCo.Compile.Compile
import GoCo.Compile.Sem
import GoCo.Proofs.ResLemmas
set_option autoImplicit false

namespace GoCo.MG
variable {σ P : Type}

theorem denT_lam_rete_sig (ρ : Interp σ P) (N : Nat) (s : Sig) (st : σ) :
    denT ρ N (.lam (.cons (.rete (.sig s)) .nil)) st = .done s st := by
  simp [denT, denL, denS, evalS, Res.bind, closeThunk]

theorem etaCases_select (ρ : Interp σ P) :
    ∀ (cs : Cases) (tv : Option Nat) (i : Nat) (st : σ),
      selectCase ρ (etaCases cs) tv i st = selectCase ρ cs tv i st
  | .nil, _, _, _ => rfl
  | .cons true ks body r, tv, i, st => by
      simp only [etaCases, selectCase]; exact etaCases_select ρ r tv (i + 1) st
  | .cons false ks body r, some v, i, st => by
      simp only [etaCases, selectCase, etaCases_select ρ r (some v) (i + 1) st]
  | .cons false ks body r, none, i, st => by
      simp only [etaCases, selectCase]
      rcases anyCond ρ ks st with ⟨_ | b, st'⟩
      · rfl
      · cases b
        · exact etaCases_select ρ r none (i + 1) st'
        · rfl

theorem etaCases_default : ∀ (cs : Cases) (i : Nat), defaultIndex (etaCases cs) i = defaultIndex cs i
  | .nil, _ => rfl
  | .cons true _ _ _, _ => rfl
  | .cons false _ _ r, i => by simp only [etaCases, defaultIndex]; exact etaCases_default r (i + 1)

mutual
  theorem etaStmt_sem (ρ : Interp σ P) (N : Nat) (susp : Bool) :
      ∀ (s : Stmt) (st : σ), denS ρ N susp (etaStmt s) st = denS ρ N susp s st
    | .block ss, st => by simp only [etaStmt, denS]; exact etaStmts_sem ρ N susp ss st
    | .ifs init c thn els, st => by
        simp only [etaStmt, denS]
        have h1 : denL ρ N susp (etaStmts thn) = denL ρ N susp thn := funext (etaStmts_sem ρ N susp thn)
        have h2 : denElse ρ N susp (etaElse els) = denElse ρ N susp els := funext (etaElse_sem ρ N susp els)
        rw [h1, h2]
    | .switch init tag cases, st => by
        have hc : ∀ i, denFrom ρ N susp (etaCases cases) i = denFrom ρ N susp cases i :=
          fun i => funext (etaCases_sem ρ N susp cases i)
        have hsel : ∀ tv i st, selectCase ρ (etaCases cases) tv i st = selectCase ρ cases tv i st :=
          etaCases_select ρ cases
        have hdef : ∀ i, defaultIndex (etaCases cases) i = defaultIndex cases i := etaCases_default cases
        simp only [etaStmt, denS, hsel, hdef, hc]
    | .for_ init cond post body, st => by
        have hb : denL ρ N susp (etaStmts body) = denL ρ N susp body := funext (etaStmts_sem ρ N susp body)
        simp only [etaStmt, denS, hb]
    | .rete e, st => by
        simp only [etaStmt, denS, etaSExp_sem ρ N e st]
    | .simple _, _ => rfl
    | .brk, _ => rfl
    | .cont, _ => rfl
    | .fallthrough, _ => rfl
    | .ret, _ => rfl
    | .unknown _, _ => rfl
  theorem etaStmts_sem (ρ : Interp σ P) (N : Nat) (susp : Bool) :
      ∀ (ss : Stmts) (st : σ), denL ρ N susp (etaStmts ss) st = denL ρ N susp ss st
    | .nil, _ => rfl
    | .cons s r, st => by
        simp only [etaStmts, denL, etaStmt_sem ρ N susp s st]
        congr; funext o st'
        by_cases h : o = .fall
        · simp [h, etaStmts_sem ρ N susp r st']
        · simp [h]
  theorem etaElse_sem (ρ : Interp σ P) (N : Nat) (susp : Bool) :
      ∀ (e : Else) (st : σ), denElse ρ N susp (etaElse e) st = denElse ρ N susp e st
    | .none, _ => rfl
    | .els ss, st => by simp only [etaElse, denElse]; exact etaStmts_sem ρ N susp ss st
    | .elif s, st => by simp only [etaElse, denElse]; exact etaStmt_sem ρ N susp s st
  theorem etaCases_sem (ρ : Interp σ P) (N : Nat) (susp : Bool) :
      ∀ (cs : Cases) (i : Nat) (st : σ), denFrom ρ N susp (etaCases cs) i st = denFrom ρ N susp cs i st
    | .nil, _, _ => rfl
    | .cons d ks body r, 0, st => by
        simp only [etaCases, denFrom, etaStmts_sem ρ N susp body st]
        congr; funext o st'
        by_cases h : o = .nft
        · simp [h, etaCases_sem ρ N susp r 0 st']
        · simp [h]
    | .cons d ks body r, i+1, st => by
        simp only [etaCases, denFrom]; exact etaCases_sem ρ N susp r i st
  theorem etaSExp_sem (ρ : Interp σ P) (N : Nat) :
      ∀ (e : SExp) (st : σ), evalS ρ N (etaSExp e) st = evalS ρ N e st
    | .bind e th, st => by
        simp only [etaSExp, evalS]
        have : denT ρ N (etaThunk th) = denT ρ N th := funext (etaThunk_sem ρ N th)
        rw [this]
    | .delay th, st => by
        simp only [etaSExp, evalS]
        have : denT ρ N (etaThunk th) = denT ρ N th := funext (etaThunk_sem ρ N th)
        rw [this]
    | .combine a b, st => by
        simp only [etaSExp, evalS, etaSExp_sem ρ N a st]
        rcases evalS ρ N a st with ⟨_ | ra, st'⟩
        · rfl
        · simp only [etaSExp_sem ρ N b st']
    | .loop c p body, st => by
        simp only [etaSExp, evalS, etaSExp_sem ρ N body st]
    | .start a, st => by simp only [etaSExp, evalS]; exact etaSExp_sem ρ N a st
    | .sig _, _ => rfl
    | .unknown _, _ => rfl
  theorem etaThunk_sem (ρ : Interp σ P) (N : Nat) :
      ∀ (th : Thunk) (st : σ), denT ρ N (etaThunk th) st = denT ρ N th st
    | .fn _, _ => rfl
    | .lam .nil, _ => rfl
    | .lam (.cons (.rete (.sig s)) .nil), st => by
        simp only [etaThunk, denT_lam_rete_sig]; rfl
    | .lam (.cons (.rete (.sig s)) (.cons x r)), st => by
        have := etaStmts_sem ρ N false (.cons (.rete (.sig s)) (.cons x r)) st
        simp only [etaThunk, denT, this]
    | .lam (.cons (.rete (.bind e t)) r), st => by
        have := etaStmts_sem ρ N false (.cons (.rete (.bind e t)) r) st
        simp only [etaThunk, denT, this]
    | .lam (.cons (.rete (.delay t)) r), st => by
        have := etaStmts_sem ρ N false (.cons (.rete (.delay t)) r) st
        simp only [etaThunk, denT, this]
    | .lam (.cons (.rete (.combine a b)) r), st => by
        have := etaStmts_sem ρ N false (.cons (.rete (.combine a b)) r) st
        simp only [etaThunk, denT, this]
    | .lam (.cons (.rete (.loop c p b)) r), st => by
        have := etaStmts_sem ρ N false (.cons (.rete (.loop c p b)) r) st
        simp only [etaThunk, denT, this]
    | .lam (.cons (.rete (.start a)) r), st => by
        have := etaStmts_sem ρ N false (.cons (.rete (.start a)) r) st
        simp only [etaThunk, denT, this]
    | .lam (.cons (.rete (.unknown t)) r), st => by
        have := etaStmts_sem ρ N false (.cons (.rete (.unknown t)) r) st
        simp only [etaThunk, denT, this]
    | .lam (.cons (.simple x) r), st => by
        have := etaStmts_sem ρ N false (.cons (.simple x) r) st
        simp only [etaThunk, denT, this]
    | .lam (.cons (.block x) r), st => by
        have := etaStmts_sem ρ N false (.cons (.block x) r) st
        simp only [etaThunk, denT, this]
    | .lam (.cons (.ifs i c t e) r), st => by
        have := etaStmts_sem ρ N false (.cons (.ifs i c t e) r) st
        simp only [etaThunk, denT, this]
    | .lam (.cons (.switch i t c) r), st => by
        have := etaStmts_sem ρ N false (.cons (.switch i t c) r) st
        simp only [etaThunk, denT, this]
    | .lam (.cons (.for_ i c p b) r), st => by
        have := etaStmts_sem ρ N false (.cons (.for_ i c p b) r) st
        simp only [etaThunk, denT, this]
    | .lam (.cons .brk r), st => by
        have := etaStmts_sem ρ N false (.cons .brk r) st
        simp only [etaThunk, denT, this]
    | .lam (.cons .cont r), st => by
        have := etaStmts_sem ρ N false (.cons .cont r) st
        simp only [etaThunk, denT, this]
    | .lam (.cons .fallthrough r), st => by
        have := etaStmts_sem ρ N false (.cons .fallthrough r) st
        simp only [etaThunk, denT, this]
    | .lam (.cons .ret r), st => by
        have := etaStmts_sem ρ N false (.cons .ret r) st
        simp only [etaThunk, denT, this]
    | .lam (.cons (.unknown t) r), st => by
        have := etaStmts_sem ρ N false (.cons (.unknown t) r) st
        simp only [etaThunk, denT, this]
end

end GoCo.MG
