/-
  Totality of the per-function pipeline: on every body of the model's grammar the compiler model
  returns a result, i.e. no assertion of the rewriter fires (C11).  Guards: the well-formedness every
  parsed Go program has (`else if` holds an if) and no `fallthrough` (the one legitimate rejection).
-/
import GoCo.Compile.Compile
import GoCo.Compile.Shape
set_option autoImplicit false

namespace GoCo.MG
open GoCo

/-- `x` succeeds with a result satisfying `Q` -/
def Ok {ε α : Type} (x : Except ε α) (Q : α → Prop) : Prop := ∃ a, x = .ok a ∧ Q a

theorem Ok.bind {ε α β : Type} {x : Except ε α} {f : α → Except ε β} {Q : α → Prop} {R : β → Prop}
    (hx : Ok x Q) (hf : ∀ a, Q a → Ok (f a) R) : Ok (x >>= f) R := by
  obtain ⟨a, rfl, ha⟩ := hx
  exact hf a ha

theorem Ok.pure {ε α : Type} {a : α} {Q : α → Prop} (h : Q a) : Ok (pure a : Except ε α) Q := ⟨a, rfl, h⟩
theorem Ok.ok {ε α : Type} {a : α} {Q : α → Prop} (h : Q a) : Ok (.ok a : Except ε α) Q := ⟨a, rfl, h⟩

theorem Ok.mono {ε α : Type} {x : Except ε α} {Q R : α → Prop} (hx : Ok x Q) (h : ∀ a, Q a → R a) : Ok x R := by
  obtain ⟨a, e, ha⟩ := hx
  exact ⟨a, e, h a ha⟩

/-- the repaired tree: none of the five defect flags is set (`switchLastGetsNoNormal` is irrelevant here) -/
structure QOk (q : Quirks) : Prop where
  h1 : q.hasBreakPanicsOnUnlabelled = false
  h2 : q.taglessYieldSwitchPanics = false
  h3 : q.switchKindRejectedByReturnNormal = false
  h4 : q.nilCondWithPostPanics = false

theorem qok_current : QOk currentQuirks := ⟨rfl, rfl, rfl, rfl⟩

/-! ### the termination checker never fails -/

mutual
  theorem hasBreak_total (q : Quirks) (hq : q.hasBreakPanicsOnUnlabelled = false) :
      ∀ s : Stmt, Ok (hasBreak q s) (fun _ => True)
    | .brk => by simp only [hasBreak, hq]; exact Ok.pure trivial
    | .block ss => by simp only [hasBreak]; exact hasBreakList_total q hq ss
    | .ifs _ _ thn els => by
        simp only [hasBreak]
        refine Ok.bind (hasBreakList_total q hq thn) (fun a _ => ?_)
        split
        · exact Ok.pure trivial
        · exact hasBreakElse_total q hq els
    | .simple _ => by simp only [hasBreak]; exact Ok.pure trivial
    | .switch _ _ _ => by simp only [hasBreak]; exact Ok.pure trivial
    | .for_ _ _ _ _ => by simp only [hasBreak]; exact Ok.pure trivial
    | .cont => by simp only [hasBreak]; exact Ok.pure trivial
    | .fallthrough => by simp only [hasBreak]; exact Ok.pure trivial
    | .ret => by simp only [hasBreak]; exact Ok.pure trivial
    | .rete _ => by simp only [hasBreak]; exact Ok.pure trivial
    | .unknown _ => by simp only [hasBreak]; exact Ok.pure trivial
  theorem hasBreakList_total (q : Quirks) (hq : q.hasBreakPanicsOnUnlabelled = false) :
      ∀ ss : Stmts, Ok (hasBreakList q ss) (fun _ => True)
    | .nil => by simp only [hasBreakList]; exact Ok.pure trivial
    | .cons s r => by
        simp only [hasBreakList]
        refine Ok.bind (hasBreak_total q hq s) (fun a _ => ?_)
        split
        · exact Ok.pure trivial
        · exact hasBreakList_total q hq r
  theorem hasBreakElse_total (q : Quirks) (hq : q.hasBreakPanicsOnUnlabelled = false) :
      ∀ e : Else, Ok (hasBreakElse q e) (fun _ => True)
    | .none => by simp only [hasBreakElse]; exact Ok.pure trivial
    | .els ss => by simp only [hasBreakElse]; exact hasBreakList_total q hq ss
    | .elif s => by simp only [hasBreakElse]; exact hasBreak_total q hq s
end

mutual
  theorem isTerminating_total (q : Quirks) (hq : q.hasBreakPanicsOnUnlabelled = false) :
      ∀ s : Stmt, Ok (isTerminating q s) (fun _ => True)
    | .simple (.bpanic _) => by simp only [isTerminating]; exact Ok.pure trivial
    | .simple (.act _) => by simp only [isTerminating]; exact Ok.pure trivial
    | .simple (.pact _) => by simp only [isTerminating]; exact Ok.pure trivial
    | .simple (.def_ _) => by simp only [isTerminating]; exact Ok.pure trivial
    | .simple (.yield _) => by simp only [isTerminating]; exact Ok.pure trivial
    | .simple .empty => by simp only [isTerminating]; exact Ok.pure trivial
    | .ret => by simp only [isTerminating]; exact Ok.pure trivial
    | .rete _ => by simp only [isTerminating]; exact Ok.pure trivial
    | .fallthrough => by simp only [isTerminating]; exact Ok.pure trivial
    | .brk => by simp only [isTerminating]; exact Ok.pure trivial
    | .cont => by simp only [isTerminating]; exact Ok.pure trivial
    | .unknown _ => by simp only [isTerminating]; exact Ok.pure trivial
    | .block ss => by simp only [isTerminating]; exact isTerminatingList_total q hq ss
    | .ifs _ _ thn .none => by simp only [isTerminating]; exact Ok.pure trivial
    | .ifs _ _ thn (.els ss) => by
        simp only [isTerminating]
        refine Ok.bind (isTerminatingList_total q hq thn) (fun a _ => ?_)
        split
        · exact isTerminatingList_total q hq ss
        · exact Ok.pure trivial
    | .ifs _ _ thn (.elif s) => by
        simp only [isTerminating]
        refine Ok.bind (isTerminatingList_total q hq thn) (fun a _ => ?_)
        split
        · exact isTerminating_total q hq s
        · exact Ok.pure trivial
    | .switch _ _ cases => by simp only [isTerminating]; exact isTerminatingSwitch_total q hq cases false
    | .for_ _ (some _) _ body => by simp only [isTerminating]; exact Ok.pure trivial
    | .for_ _ none _ body => by
        simp only [isTerminating]
        exact Ok.bind (hasBreakList_total q hq body) (fun a _ => Ok.pure trivial)
  theorem isTerminatingList_total (q : Quirks) (hq : q.hasBreakPanicsOnUnlabelled = false) :
      ∀ ss : Stmts, Ok (isTerminatingList q ss) (fun _ => True)
    | .nil => by simp only [isTerminatingList]; exact Ok.pure trivial
    | .cons s r => by
        simp only [isTerminatingList]
        split
        · split
          · exact Ok.pure trivial
          · exact isTerminating_total q hq s
        · exact isTerminatingList_total q hq r
  theorem isTerminatingSwitch_total (q : Quirks) (hq : q.hasBreakPanicsOnUnlabelled = false) :
      ∀ (cs : Cases) (d : Bool), Ok (isTerminatingSwitch q cs d) (fun _ => True)
    | .nil, d => by simp only [isTerminatingSwitch]; exact Ok.pure trivial
    | .cons dflt _ body r, d => by
        simp only [isTerminatingSwitch]
        refine Ok.bind (isTerminatingList_total q hq body) (fun a _ => ?_)
        split
        · exact Ok.pure trivial
        · refine Ok.bind (hasBreakList_total q hq body) (fun b _ => ?_)
          split
          · exact Ok.pure trivial
          · exact isTerminatingSwitch_total q hq r _
end

/-! ### the block bookkeeping never trips an assertion -/

def KindOK (b : Blk) : Prop := b.kind = .delay ∨ b.kind = .fork ∨ b.kind = .ifk ∨ b.kind = .switchk

/-- a frozen block ends in a `return` pushed by `pushReturn` (never an if / switch / ordinary statement) -/
def FrozenOK (b : Blk) : Prop :=
  b.frozen = true → ∃ s k rest, b.items = (s, k) :: rest ∧ k ≠ .ifk ∧ k ≠ .switchk ∧ k ≠ .trivial

def Inv (b : Blk) : Prop := KindOK b ∧ FrozenOK b
def Ready (b : Blk) : Prop := KindOK b ∧ b.combineChecked = true ∧ b.frozen = false

theorem Ready.inv {b : Blk} (h : Ready b) : Inv b := ⟨h.1, fun hf => by rw [h.2.2] at hf; cases hf⟩

theorem ready_mk0 {k : Kind} (hk : k = .delay ∨ k = .fork ∨ k = .ifk ∨ k = .switchk) : Ready (Blk.mk0 k) :=
  ⟨hk, rfl, rfl⟩

theorem checkPush_ready {b : Blk} (h : Ready b) : b.checkPush = .ok () := by
  simp [Blk.checkPush, h.2.1, h.2.2]; rfl

/-- an ordinary push on a ready block: succeeds, leaves the block unfrozen -/
theorem push_ready {b : Blk} (h : Ready b) (s : Stmt) (k : Kind) :
    Ok (b.push s k) (fun b' => b' = b.pushU s k) := by
  simp only [Blk.push, checkPush_ready h]
  exact Ok.ok rfl

theorem inv_pushU {b : Blk} (h : KindOK b) (hf : b.frozen = false) (s : Stmt) (k : Kind) : Inv (b.pushU s k) :=
  ⟨h, fun h' => by simp [Blk.pushU, hf] at h'⟩

theorem pushU_frozen {b : Blk} (s : Stmt) (k : Kind) : (b.pushU s k).frozen = b.frozen := rfl
theorem pushU_kind {b : Blk} (s : Stmt) (k : Kind) : (b.pushU s k).kind = b.kind := rfl

theorem inv_pushReturnU {b : Blk} (h : KindOK b) (e : SExp) (k : Kind)
    (hk : k ≠ .ifk ∧ k ≠ .switchk ∧ k ≠ .trivial) : Inv (b.pushReturnU e k) :=
  ⟨h, fun _ => ⟨_, _, _, rfl, hk⟩⟩

theorem pushReturn_ready {b : Blk} (h : Ready b) (e : SExp) (k : Kind) :
    Ok (b.pushReturn e k) (fun b' => b' = b.pushReturnU e k) := by
  simp only [Blk.pushReturn, checkPush_ready h]
  exact Ok.ok rfl

theorem returnNormalRequired_total (q : Quirks) (hq : QOk q) {b : Blk} (h : KindOK b) :
    Ok (returnNormalRequired q b) (fun r => r = true → b.items = [] ∨
      ∃ s k rest, b.items = (s, k) :: rest ∧ (k = .ifk ∨ k = .switchk ∨ k = .trivial)) := by
  unfold returnNormalRequired
  have hk : (b.kind = .delay ∨ b.kind = .fork ∨ b.kind = .ifk ∨
        (b.kind = .switchk ∧ q.switchKindRejectedByReturnNormal = false)) := by
    rcases h with h | h | h | h
    · exact .inl h
    · exact .inr (.inl h)
    · exact .inr (.inr (.inl h))
    · exact .inr (.inr (.inr ⟨h, hq.h3⟩))
  rw [if_neg (fun hn => hn hk)]
  split
  · exact Ok.ok (fun _ => .inl (by assumption))
  · rename_i last k rest hitems
    split
    · rename_i hkk
      obtain ⟨t, ht, _⟩ := isTerminating_total q hq.h1 last
      rw [ht]
      exact Ok.ok (fun _ => .inr ⟨_, _, _, hitems, hkk⟩)
    · exact Ok.ok (fun h => by cases h)

theorem genLast_total (q : Quirks) (hq : QOk q) {b : Blk} (h : Inv b) : Ok (genLast q b) Inv := by
  unfold genLast
  refine Ok.bind (returnNormalRequired_total q hq h.1) (fun r hr => ?_)
  split
  · rename_i hrt
    have hnf : b.frozen = false := by
      cases hfz : b.frozen with
      | false => rfl
      | true =>
        obtain ⟨s, k, rest, hi, h1, h2, h3⟩ := h.2 hfz
        rcases hr hrt with h0 | ⟨s', k', rest', hi', hk'⟩
        · rw [hi] at h0; cases h0
        · rw [hi] at hi'; injection hi' with hh _; injection hh with _ hk; subst hk
          rcases hk' with hk' | hk' | hk'
          · exact absurd hk' h1
          · exact absurd hk' h2
          · exact absurd hk' h3
    have hr' : Ready b.markCombined := ⟨h.1, rfl, hnf⟩
    refine (pushReturn_ready hr' _ _).mono (fun b' hb' => ?_)
    subst hb'
    exact inv_pushReturnU h.1 _ _ ⟨by decide, by decide, by decide⟩
  · exact Ok.pure h

theorem inv_plug1 (fin : Blk) : ∀ f : Frame, (match f with | .bindF cur _ => KindOK cur | .combF cur _ => KindOK cur) →
    Inv (plug1 fin f)
  | .bindF cur e, h => inv_pushReturnU h _ _ ⟨by decide, by decide, by decide⟩
  | .combF cur first, h => inv_pushReturnU h _ _ ⟨by decide, by decide, by decide⟩

def FrameOK : Frame → Prop
  | .bindF cur _ => KindOK cur
  | .combF cur _ => KindOK cur

theorem inv_plug : ∀ (frames : List Frame) (fin : Blk), (∀ f ∈ frames, FrameOK f) → Inv fin → Inv (plug frames fin)
  | [], fin, _, h => h
  | f :: fs, fin, hf, _ => by
      show Inv (plug fs (plug1 fin f))
      refine inv_plug fs _ (fun g hg => hf g (List.mem_cons_of_mem _ hg)) ?_
      have := hf f (List.mem_cons_self ..)
      cases f with
      | bindF cur e => exact inv_pushReturnU this _ _ ⟨by decide, by decide, by decide⟩
      | combF cur first => exact inv_pushReturnU this _ _ ⟨by decide, by decide, by decide⟩

/-- combineIfNecessary: succeeds on any finished-or-open block and hands back a ready block -/
theorem combineIfNecessary_total (q : Quirks) (hq : QOk q) {b : Blk} (h : Inv b) :
    Ok (combineIfNecessary q b) (fun r => Ready r.1 ∧ ∀ f ∈ r.2, FrameOK f) := by
  unfold combineIfNecessary
  simp only []
  split
  · rename_i hi
    refine Ok.pure ⟨⟨h.1, rfl, ?_⟩, fun f hf => by cases hf⟩
    show b.frozen = false
    cases hfz : b.frozen with
    | false => rfl
    | true =>
      obtain ⟨s, k, rest, hi', _⟩ := h.2 hfz
      simp only [Blk.markCombined] at hi
      rw [hi'] at hi; cases hi
  · rename_i s k rest hi
    simp only [Blk.markCombined] at hi
    split
    · rename_i hk
      refine Ok.pure ⟨⟨h.1, rfl, ?_⟩, fun f hf => by cases hf⟩
      show b.frozen = false
      cases hfz : b.frozen with
      | false => rfl
      | true =>
        obtain ⟨s', k', rest', hi', _, _, h3⟩ := h.2 hfz
        rw [hi'] at hi; injection hi with hh _; injection hh with _ hkk
        exact absurd (hkk ▸ hk) h3
    · refine Ok.bind (push_ready (ready_mk0 (.inl rfl)) s k) (fun c hc => ?_)
      subst hc
      refine Ok.bind (genLast_total q hq (inv_pushU (.inl rfl) rfl s k)) (fun c' _ => ?_)
      have hp : Ready ({ b.markCombined with items := rest, frozen := false } : Blk) := ⟨h.1, rfl, rfl⟩
      rw [checkPush_ready hp]
      refine Ok.ok ⟨ready_mk0 (.inl rfl), fun f hf => ?_⟩
      simp only [List.mem_singleton] at hf
      subst hf
      exact h.1

/-! ### well-formedness of parsed programs (after pass0) -/

def isIfs : Stmt → Bool
  | .ifs _ _ _ _ => true
  | _ => false

mutual
  def wfS : Stmt → Bool
    | .block ss => wfL ss
    | .ifs init _ thn els => !optIsYield init && wfL thn && wfE els
    | .switch init _ cases => !optIsDefine init && wfC cases
    | .for_ init _ _ body => !optIsDefine init && wfL body
    | _ => true
  def wfL : Stmts → Bool
    | .nil => true
    | .cons s r => wfS s && wfL r
  def wfE : Else → Bool
    | .none => true
    | .els ss => wfL ss
    | .elif s => isIfs s && wfS s
  def wfC : Cases → Bool
    | .nil => true
    | .cons _ _ body r => wfL body && wfC r
end

def SROK : SR → Prop
  | .stop c => Inv c
  | .go fol frames => Inv fol ∧ ∀ f ∈ frames, FrameOK f

theorem ifPush_total (init : Option Simple) (c : CondE) (thn : Stmts) (els : Else) (body : Blk) (e : Option Blk)
    {cur : Blk} (h : Ready cur) :
    Ok (ifPush init c thn els body e cur) (fun b => KindOK b ∧ b.frozen = false) := by
  unfold ifPush
  split
  · split
    · exact (push_ready h _ _).mono (fun b hb => by subst hb; exact ⟨h.1, h.2.2⟩)
    · exact (push_ready h _ _).mono (fun b hb => by subst hb; exact ⟨h.1, h.2.2⟩)
  · split
    · exact (push_ready h _ _).mono (fun b hb => by subst hb; exact ⟨h.1, h.2.2⟩)
    · exact (push_ready h _ _).mono (fun b hb => by subst hb; exact ⟨h.1, h.2.2⟩)

theorem inv_of_unfrozen {b : Blk} (h : KindOK b ∧ b.frozen = false) : Inv b :=
  ⟨h.1, fun hf => by rw [h.2] at hf; cases hf⟩

theorem nil_frames : ∀ f ∈ ([] : List Frame), FrameOK f := fun _ hf => nomatch hf

/-- the init statement of a for / switch: never `stop`; a yield continues in a fresh ready thunk -/
theorem rwInit_total (i : Simple) {cur : Blk} (h : Ready cur) :
    Ok (rwInit i cur) (fun r => ∃ fol fr, r = .go fol fr ∧ Inv fol ∧ (∀ f ∈ fr, FrameOK f) ∧
      (i.isYield = true → Ready fol)) := by
  cases i with
  | yield e =>
      simp only [rwInit, checkPush_ready h]
      refine Ok.ok ⟨_, _, rfl, (ready_mk0 (.inl rfl)).inv, fun f hf => ?_, fun _ => ready_mk0 (.inl rfl)⟩
      simp only [List.mem_singleton] at hf; subst hf; exact h.1
  | empty =>
      simp only [rwInit]
      exact Ok.pure ⟨_, _, rfl, h.inv, nil_frames, fun hy => nomatch hy⟩
  | act n =>
      simp only [rwInit]
      refine Ok.bind (push_ready h _ _) (fun b hb => ?_); subst hb
      exact Ok.pure ⟨_, _, rfl, inv_pushU h.1 h.2.2 _ _, nil_frames, fun hy => nomatch hy⟩
  | pact n =>
      simp only [rwInit]
      refine Ok.bind (push_ready h _ _) (fun b hb => ?_); subst hb
      exact Ok.pure ⟨_, _, rfl, inv_pushU h.1 h.2.2 _ _, nil_frames, fun hy => nomatch hy⟩
  | bpanic n =>
      simp only [rwInit]
      refine Ok.bind (push_ready h _ _) (fun b hb => ?_); subst hb
      exact Ok.pure ⟨_, _, rfl, inv_pushU h.1 h.2.2 _ _, nil_frames, fun hy => nomatch hy⟩
  | def_ n =>
      simp only [rwInit]
      refine Ok.bind (push_ready h _ _) (fun b hb => ?_); subst hb
      exact Ok.pure ⟨_, _, rfl, inv_pushU h.1 h.2.2 _ _, nil_frames, fun hy => nomatch hy⟩

theorem checkPush_ok {b : Blk} (h : Ready b) : Ok b.checkPush (fun _ => True) := by
  rw [checkPush_ready h]; exact Ok.ok trivial

theorem go_pushed {cur : Blk} (h : Ready cur) (s : Stmt) :
    Ok (do pure (SR.go (← cur.push s .trivial) []) : Except String SR) SROK := by
  refine Ok.bind (push_ready h _ _) (fun b hb => ?_); subst hb
  exact Ok.pure ⟨inv_pushU h.1 h.2.2 _ _, nil_frames⟩

theorem stop_pushed {cur : Blk} (h : Ready cur) (s : Stmt) :
    Ok (do pure (SR.stop (← cur.push s .trivial)) : Except String SR) SROK := by
  refine Ok.bind (push_ready h _ _) (fun b hb => ?_); subst hb
  exact Ok.pure (inv_pushU h.1 h.2.2 _ _)

theorem frames_append {a b : List Frame} (ha : ∀ f ∈ a, FrameOK f) (hb : ∀ f ∈ b, FrameOK f) :
    ∀ f ∈ a ++ b, FrameOK f := fun f hf => by
  rcases List.mem_append.mp hf with h | h
  · exact ha f h
  · exact hb f h

theorem kOK3 : Kind.yieldk ≠ .ifk ∧ Kind.yieldk ≠ .switchk ∧ Kind.yieldk ≠ .trivial := ⟨by decide, by decide, by decide⟩
theorem kOK4 : Kind.fork ≠ .ifk ∧ Kind.fork ≠ .switchk ∧ Kind.fork ≠ .trivial := ⟨by decide, by decide, by decide⟩
theorem kOK5 : Kind.combine ≠ .ifk ∧ Kind.combine ≠ .switchk ∧ Kind.combine ≠ .trivial := ⟨by decide, by decide, by decide⟩

theorem callFor_total (q : Quirks) (hq : QOk q) (cond : Option CondE) (post : Option Simple) (body : SExp) :
    Ok (callFor q cond post body) (fun _ => True) := by
  unfold callFor
  split
  · rw [hq.h4]; exact Ok.pure trivial
  · exact Ok.pure trivial

/-- everything rewriteForStmt does after the init statement has been extracted -/
theorem for_tail_total (q : Quirks) (hq : QOk q) (cond : Option CondE) (post : Option Simple) (body : Stmts)
    (b : Blk) (hb : Inv b) (x : Blk × List Frame) (h1 : Inv x.1) (h2 : ∀ f ∈ x.2, FrameOK f) :
    Ok (if (b.mustNoYield && !optIsYield post) = true then do
          let __x_1 ← combineIfNecessary q x.fst
          let __do_lift ← __x_1.fst.push (Stmt.for_ none cond post body) Kind.trivial
          pure (SR.go __do_lift (__x_1.snd ++ x.snd))
        else
          if (!optIsYield post) = true then do
            let call ← callFor q cond post (SExp.delay (Thunk.lam b.toStmts))
            let __x_1 ← combineIfNecessary q x.fst
            let __do_lift ← __x_1.fst.pushReturn call Kind.fork
            pure (SR.go __do_lift (__x_1.snd ++ x.snd))
          else do
            let pe ← (match post with
                | some (Simple.yield e) => pure e
                | _ => throw "illegal state" : Except String VExp)
            let normalThunk ← genLast q (Blk.mk0 Kind.delay)
            let b ← (if b.combineRequired = true then do
                  let b ← genLast q b
                  (Blk.mk0 Kind.fork).pushReturn
                      ((SExp.delay (Thunk.lam b.toStmts)).combine
                        (SExp.delay
                          (Thunk.lam
                            ((Blk.mk0 Kind.delay).pushReturnU (SExp.bind pe (Thunk.lam normalThunk.toStmts))
                                Kind.yieldk).toStmts)))
                      Kind.combine
                else b.markCombined.pushReturn (SExp.bind pe (Thunk.lam normalThunk.toStmts)) Kind.yieldk : Except String Blk)
            let call ← callFor q cond none (SExp.delay (Thunk.lam b.toStmts))
            let __x_1 ← combineIfNecessary q x.fst
            let __do_lift ← __x_1.fst.pushReturn call Kind.fork
            pure (SR.go __do_lift (__x_1.snd ++ x.snd))) SROK := by
  split
  · refine Ok.bind (combineIfNecessary_total q hq h1) (fun p hp => ?_)
    refine Ok.bind (push_ready hp.1 _ _) (fun c hc => ?_); subst hc
    exact Ok.pure ⟨inv_pushU hp.1.1 hp.1.2.2 _ _, frames_append hp.2 h2⟩
  · split
    · refine Ok.bind (callFor_total q hq _ _ _) (fun call _ => ?_)
      refine Ok.bind (combineIfNecessary_total q hq h1) (fun p hp => ?_)
      refine Ok.bind (pushReturn_ready hp.1 _ _) (fun c hc => ?_); subst hc
      exact Ok.pure ⟨inv_pushReturnU hp.1.1 _ _ kOK4, frames_append hp.2 h2⟩
    · rename_i hpost
      cases post with
      | none => simp [optIsYield] at hpost
      | some s =>
        cases s with
        | act n => simp [optIsYield, Simple.isYield] at hpost
        | pact n => simp [optIsYield, Simple.isYield] at hpost
        | bpanic n => simp [optIsYield, Simple.isYield] at hpost
        | def_ n => simp [optIsYield, Simple.isYield] at hpost
        | empty => simp [optIsYield, Simple.isYield] at hpost
        | yield pe =>
          refine Ok.bind (Ok.pure (Q := fun _ => True) trivial) (fun pe _ => ?_)
          refine Ok.bind (genLast_total q hq (ready_mk0 (.inl rfl)).inv) (fun nt _ => ?_)
          refine Ok.bind (Q := fun _ => True) ?_ (fun b' _ => ?_)
          · split
            · refine Ok.bind (genLast_total q hq hb) (fun b2 _ => ?_)
              exact (pushReturn_ready (ready_mk0 (.inr (.inl rfl))) _ _).mono (fun _ _ => trivial)
            · rename_i hcr
              have hnf : b.frozen = false := by
                cases hfz : b.frozen with
                | false => rfl
                | true =>
                  obtain ⟨s, k, rest, hi, _, _, h3⟩ := hb.2 hfz
                  simp [Blk.combineRequired, hi] at hcr
                  exact absurd hcr h3
              exact (pushReturn_ready (b := b.markCombined) ⟨hb.1, rfl, hnf⟩ _ _).mono (fun _ _ => trivial)
          · refine Ok.bind (callFor_total q hq _ _ _) (fun call _ => ?_)
            refine Ok.bind (combineIfNecessary_total q hq h1) (fun p hp => ?_)
            refine Ok.bind (pushReturn_ready hp.1 _ _) (fun c hc => ?_); subst hc
            exact Ok.pure ⟨inv_pushReturnU hp.1.1 _ _ kOK4, frames_append hp.2 h2⟩

mutual
  theorem rwStmts_total (q : Quirks) (hq : QOk q) :
      ∀ (ss : Stmts) (cur : Blk), wfL ss = true → Ready cur → Ok (rwStmts q ss cur) Inv
    | .nil, cur, _, hc => by
        simp only [rwStmts]
        split
        · exact genLast_total q hq hc.inv
        · exact Ok.pure hc.inv
    | .cons s rest, cur, hw, hc => by
        simp only [wfL, Bool.and_eq_true] at hw
        simp only [rwStmts]
        refine Ok.bind (rwStmt_total q hq s rest.isNil cur hw.1 hc) (fun r hr => ?_)
        cases r with
        | stop c => exact Ok.pure hr
        | go fol frames =>
          obtain ⟨hfol, hfr⟩ := hr
          simp only []
          split
          · refine Ok.bind (Q := Inv) ?_ (fun fol' hfol' => Ok.pure (inv_plug frames fol' hfr hfol'))
            split
            · exact genLast_total q hq hfol
            · exact Ok.pure hfol
          · refine Ok.bind (combineIfNecessary_total q hq hfol) (fun p hp => ?_)
            obtain ⟨fol2, frames2⟩ := p
            refine Ok.bind (rwStmts_total q hq rest fol2 hw.2 hp.1) (fun fin hfin => ?_)
            exact Ok.pure (inv_plug _ _ hfr (inv_plug _ _ hp.2 hfin))

  theorem rwStmt_total (q : Quirks) (hq : QOk q) :
      ∀ (s : Stmt) (isLast : Bool) (cur : Blk), wfS s = true → Ready cur → Ok (rwStmt q s isLast cur) SROK
    | .simple (.yield e), isLast, cur, _, hc => by
        simp only [rwStmt]
        refine Ok.bind (checkPush_ok hc) (fun _ _ => ?_)
        split
        · refine Ok.bind (genLast_total q hq (ready_mk0 (.inl rfl)).inv) (fun fol _ => ?_)
          exact Ok.pure (inv_pushReturnU hc.1 _ _ kOK3)
        · refine Ok.pure ⟨(ready_mk0 (.inl rfl)).inv, fun f hf => ?_⟩
          simp only [List.mem_singleton] at hf; subst hf; exact hc.1
    | .simple .empty, _, cur, _, hc => by
        simp only [rwStmt]; exact Ok.pure ⟨hc.inv, nil_frames⟩
    | .simple (.act n), _, cur, _, hc => by simp only [rwStmt]; exact go_pushed hc _
    | .simple (.pact n), _, cur, _, hc => by simp only [rwStmt]; exact go_pushed hc _
    | .simple (.bpanic n), _, cur, _, hc => by simp only [rwStmt]; exact go_pushed hc _
    | .simple (.def_ n), _, cur, _, hc => by simp only [rwStmt]; exact go_pushed hc _
    | .brk, _, cur, _, hc => by simp only [rwStmt]; exact stop_pushed hc _
    | .cont, _, cur, _, hc => by simp only [rwStmt]; exact stop_pushed hc _
    | .fallthrough, _, cur, _, hc => by simp only [rwStmt]; exact stop_pushed hc _
    | .ret, _, cur, _, hc => by simp only [rwStmt]; exact go_pushed hc _
    | .rete e, _, cur, _, hc => by simp only [rwStmt]; exact go_pushed hc _
    | .unknown t, _, cur, _, hc => by simp only [rwStmt]; exact go_pushed hc _
    | .block ss, _, cur, hw, hc => by
        simp only [wfS] at hw
        simp only [rwStmt]
        refine Ok.bind (rwStmts_total q hq ss _ hw (ready_mk0 (.inl rfl))) (fun fol _ => ?_)
        split
        · exact go_pushed hc _
        · refine Ok.bind (pushReturn_ready hc _ _) (fun b hb => ?_); subst hb
          exact Ok.pure ⟨inv_pushReturnU hc.1 _ _ kOK3, nil_frames⟩
    | .ifs init c thn els, isLast, cur, hw, hc => by
        simp only [wfS, Bool.and_eq_true] at hw
        simp only [rwStmt]
        have hny : ¬ (optIsYield init = true) := by simpa using hw.1.1
        rw [if_neg hny]
        refine Ok.bind (rwStmts_total q hq thn _ hw.1.2 (ready_mk0 (.inr (.inr (.inl rfl))))) (fun body _ => ?_)
        refine Ok.bind (rwElse_total q hq els hw.2) (fun e _ => ?_)
        refine Ok.bind (ifPush_total init c thn els body e hc) (fun cur' hcur' => ?_)
        split
        · exact Ok.bind (genLast_total q hq (inv_of_unfrozen hcur')) (fun c hc' => Ok.pure hc')
        · exact Ok.pure ⟨inv_of_unfrozen hcur', nil_frames⟩
    | .switch none tag cases, isLast, cur, hw, hc => by
        simp only [wfS, Bool.and_eq_true] at hw
        have ih := rwCases_total q hq cases hw.2
        simp only [rwStmt]
        refine Ok.bind ih (fun p _ => ?_)
        obtain ⟨newCases, allTrivial⟩ := p
        have htag : (tag.isNone && q.taglessYieldSwitchPanics) = false := by rw [hq.h2, Bool.and_false]
        dsimp only [optIsYield]
        simp only [htag, Bool.false_eq_true, if_false, Bool.not_false, Bool.true_and]
        by_cases hat : allTrivial = true
        · rw [if_pos hat]; exact go_pushed hc _
        · rw [if_neg hat]
          refine Ok.bind (Ok.pure (Q := fun p => p = (cur, ([] : List Frame))) rfl) (fun p hp => ?_)
          subst hp
          dsimp only
          rw [if_neg hat]
          refine Ok.bind (combineIfNecessary_total q hq hc.inv) (fun p hp => ?_)
          obtain ⟨cur2, fr2⟩ := p
          dsimp only
          refine Ok.bind (push_ready hp.1 _ _) (fun cur' hcur' => ?_); subst hcur'
          split
          · refine Ok.bind (genLast_total q hq (inv_pushU hp.1.1 hp.1.2.2 _ _)) (fun g hg => ?_)
            exact Ok.pure (inv_plug _ _ (frames_append hp.2 nil_frames) hg)
          · exact Ok.pure ⟨inv_pushU hp.1.1 hp.1.2.2 _ _, frames_append hp.2 nil_frames⟩
    | .switch (some i) tag cases, isLast, cur, hw, hc => by
        simp only [wfS, Bool.and_eq_true, optIsDefine, Bool.not_eq_true'] at hw
        have ih := rwCases_total q hq cases hw.2
        have hid := hw.1
        simp only [rwStmt]
        refine Ok.bind ih (fun p _ => ?_)
        obtain ⟨newCases, allTrivial⟩ := p
        have htag : (tag.isNone && q.taglessYieldSwitchPanics) = false := by rw [hq.h2, Bool.and_false]
        dsimp only [optIsYield]
        simp only [htag, hid, Bool.false_eq_true, if_false]
        by_cases h0 : (!i.isYield && allTrivial) = true
        · rw [if_pos h0]; exact go_pushed hc _
        · rw [if_neg h0]
          refine Ok.bind (Q := fun (p : Blk × List Frame) => Inv p.1 ∧ (∀ f ∈ p.2, FrameOK f) ∧ (i.isYield = true → Ready p.1))
            (Ok.bind (rwInit_total i hc) (fun r hr => ?_)) (fun p hp => ?_)
          · obtain ⟨fol, fr, rfl, h1, h2, h3⟩ := hr
            exact Ok.pure ⟨h1, h2, h3⟩
          · obtain ⟨cur1, frames⟩ := p
            obtain ⟨h1, h2, h3⟩ := hp
            dsimp only at h1 h2 h3 ⊢
            by_cases hat : allTrivial = true
            · rw [if_pos hat]
              have hy : i.isYield = true := by
                cases hiy : i.isYield with
                | true => rfl
                | false => simp [hiy, hat] at h0
              refine Ok.bind (push_ready (h3 hy) _ _) (fun b hb => ?_); subst hb
              exact Ok.pure ⟨inv_pushU (h3 hy).1 (h3 hy).2.2 _ _, h2⟩
            · rw [if_neg hat]
              refine Ok.bind (combineIfNecessary_total q hq h1) (fun p hp => ?_)
              obtain ⟨cur2, fr2⟩ := p
              dsimp only
              refine Ok.bind (push_ready hp.1 _ _) (fun cur' hcur' => ?_); subst hcur'
              split
              · refine Ok.bind (genLast_total q hq (inv_pushU hp.1.1 hp.1.2.2 _ _)) (fun g hg => ?_)
                exact Ok.pure (inv_plug _ _ (frames_append hp.2 h2) hg)
              · exact Ok.pure ⟨inv_pushU hp.1.1 hp.1.2.2 _ _, frames_append hp.2 h2⟩
    | .for_ none cond post body, isLast, cur, hw, hc => by
        simp only [wfS, Bool.and_eq_true] at hw
        have ih := rwStmts_total q hq body _ hw.2 (ready_mk0 (.inr (.inl rfl)))
        simp only [rwStmt]
        refine Ok.bind ih (fun b hb => ?_)
        split
        · exact go_pushed hc _
        · refine Ok.bind (Q := fun (p : Blk × List Frame) => Inv p.1 ∧ (∀ f ∈ p.2, FrameOK f))
            (Ok.pure ⟨hc.inv, nil_frames⟩) (fun p hp => ?_)
          exact for_tail_total q hq cond post body b hb p hp.1 hp.2
    | .for_ (some i) cond post body, isLast, cur, hw, hc => by
        simp only [wfS, Bool.and_eq_true, optIsDefine, Bool.not_eq_true'] at hw
        have ih := rwStmts_total q hq body _ hw.2 (ready_mk0 (.inr (.inl rfl)))
        have hid := hw.1
        simp only [rwStmt]
        refine Ok.bind ih (fun b hb => ?_)
        simp only [hid, Bool.false_eq_true, if_false]
        split
        · exact go_pushed hc _
        · refine Ok.bind (Q := fun (p : Blk × List Frame) => Inv p.1 ∧ (∀ f ∈ p.2, FrameOK f))
            (Ok.bind (rwInit_total i hc) (fun r hr => ?_)) (fun p hp => ?_)
          · obtain ⟨fol, fr, rfl, h1, h2, _⟩ := hr
            exact Ok.pure ⟨h1, h2⟩
          · exact for_tail_total q hq cond post body b hb p hp.1 hp.2

  theorem rwElse_total (q : Quirks) (hq : QOk q) :
      ∀ (els : Else), wfE els = true → Ok (rwElse q els) (fun _ => True)
    | .none, _ => by simp only [rwElse]; exact Ok.pure trivial
    | .els ss, hw => by
        simp only [wfE] at hw
        simp only [rwElse]
        exact Ok.bind (rwStmts_total q hq ss _ hw (ready_mk0 (.inr (.inr (.inl rfl))))) (fun _ _ => Ok.pure trivial)
    | .elif s, hw => by
        simp only [wfE, Bool.and_eq_true] at hw
        simp only [rwElse]
        exact Ok.bind (rwIfS_total q hq s _ hw.1 hw.2 (ready_mk0 (.inr (.inr (.inl rfl))))) (fun _ _ => Ok.pure trivial)

  theorem rwIfS_total (q : Quirks) (hq : QOk q) :
      ∀ (s : Stmt) (cur : Blk), isIfs s = true → wfS s = true → Ready cur →
        Ok (rwIfS q s cur) (fun b => KindOK b ∧ b.frozen = false)
    | .ifs init c thn els, cur, _, hw, hc => by
        simp only [wfS, Bool.and_eq_true] at hw
        simp only [rwIfS]
        have hny : ¬ (optIsYield init = true) := by simpa using hw.1.1
        rw [if_neg hny]
        refine Ok.bind (rwStmts_total q hq thn _ hw.1.2 (ready_mk0 (.inr (.inr (.inl rfl))))) (fun body _ => ?_)
        refine Ok.bind (rwElse_total q hq els hw.2) (fun e _ => ?_)
        exact ifPush_total init c thn els body e hc
    | .simple _, _, h, _, _ => by cases h
    | .block _, _, h, _, _ => by cases h
    | .switch _ _ _, _, h, _, _ => by cases h
    | .for_ _ _ _ _, _, h, _, _ => by cases h
    | .brk, _, h, _, _ => by cases h
    | .cont, _, h, _, _ => by cases h
    | .fallthrough, _, h, _, _ => by cases h
    | .ret, _, h, _, _ => by cases h
    | .rete _, _, h, _, _ => by cases h
    | .unknown _, _, h, _, _ => by cases h

  theorem rwCases_total (q : Quirks) (hq : QOk q) :
      ∀ (cs : Cases), wfC cs = true → Ok (rwCases q cs) (fun _ => True)
    | .nil, _ => by simp only [rwCases]; exact Ok.pure trivial
    | .cons d ks body r, hw => by
        simp only [wfC, Bool.and_eq_true] at hw
        simp only [rwCases]
        refine Ok.bind (rwStmts_total q hq body _ hw.1 (ready_mk0 (.inr (.inr (.inr rfl))))) (fun b _ => ?_)
        refine Ok.bind (rwCases_total q hq r hw.2) (fun p _ => ?_)
        exact Ok.pure trivial
end

/-! ### pass3 fails only on a `fallthrough` that is no longer inside a native switch -/

theorem rmRedundantReturn_total (q : Quirks) (hq : QOk q) (ss : Stmts) : Ok (rmRedundantReturn q ss) (fun _ => True) := by
  unfold rmRedundantReturn
  split
  · refine Ok.bind (isTerminatingList_total q hq.h1 _) (fun t _ => ?_)
    split <;> exact Ok.pure trivial
  · exact Ok.pure trivial

mutual
  theorem p3Stmt_total (q : Quirks) (hq : QOk q) :
      ∀ (s : Stmt) (il isw : Bool), woS s = true → Ok (p3Stmt q il isw s) (fun _ => True)
    | .brk, _, _, _ => by simp only [p3Stmt]; exact Ok.pure trivial
    | .cont, _, _, _ => by simp only [p3Stmt]; exact Ok.pure trivial
    | .fallthrough, _, _, h => by simp [woS] at h
    | .block ss, il, isw, h => by
        simp only [woS] at h
        simp only [p3Stmt]
        exact Ok.bind (p3Stmts_total q hq ss il isw h) (fun _ _ => Ok.pure trivial)
    | .ifs _ _ thn els, il, isw, h => by
        simp only [woS, Bool.and_eq_true] at h
        simp only [p3Stmt]
        refine Ok.bind (p3Stmts_total q hq thn il isw h.1) (fun _ _ => ?_)
        exact Ok.bind (p3Else_total q hq els il isw h.2) (fun _ _ => Ok.pure trivial)
    | .switch _ _ cases, il, _, h => by
        simp only [woS] at h
        simp only [p3Stmt]
        exact Ok.bind (p3Cases_total q hq cases il true h) (fun _ _ => Ok.pure trivial)
    | .for_ _ _ _ body, _, isw, h => by
        simp only [woS] at h
        simp only [p3Stmt]
        exact Ok.bind (p3Stmts_total q hq body true isw h) (fun _ _ => Ok.pure trivial)
    | .rete e, _, _, h => by
        simp only [woS] at h
        simp only [p3Stmt]
        exact Ok.bind (p3SExp_total q hq e h) (fun _ _ => Ok.pure trivial)
    | .simple _, _, _, _ => by simp only [p3Stmt]; exact Ok.pure trivial
    | .ret, _, _, _ => by simp only [p3Stmt]; exact Ok.pure trivial
    | .unknown _, _, _, _ => by simp only [p3Stmt]; exact Ok.pure trivial
  theorem p3Stmts_total (q : Quirks) (hq : QOk q) :
      ∀ (ss : Stmts) (il isw : Bool), woL ss = true → Ok (p3Stmts q il isw ss) (fun _ => True)
    | .nil, _, _, _ => by simp only [p3Stmts]; exact Ok.pure trivial
    | .cons s r, il, isw, h => by
        simp only [woL, Bool.and_eq_true] at h
        simp only [p3Stmts]
        refine Ok.bind (p3Stmt_total q hq s il isw h.1) (fun _ _ => ?_)
        exact Ok.bind (p3Stmts_total q hq r il isw h.2) (fun _ _ => Ok.pure trivial)
  theorem p3Else_total (q : Quirks) (hq : QOk q) :
      ∀ (e : Else) (il isw : Bool), woE e = true → Ok (p3Else q il isw e) (fun _ => True)
    | .none, _, _, _ => by simp only [p3Else]; exact Ok.pure trivial
    | .els ss, il, isw, h => by
        simp only [woE] at h
        simp only [p3Else]
        exact Ok.bind (p3Stmts_total q hq ss il isw h) (fun _ _ => Ok.pure trivial)
    | .elif s, il, isw, h => by
        simp only [woE] at h
        simp only [p3Else]
        exact Ok.bind (p3Stmt_total q hq s il isw h) (fun _ _ => Ok.pure trivial)
  theorem p3Cases_total (q : Quirks) (hq : QOk q) :
      ∀ (cs : Cases) (il isw : Bool), woC cs = true → Ok (p3Cases q il isw cs) (fun _ => True)
    | .nil, _, _, _ => by simp only [p3Cases]; exact Ok.pure trivial
    | .cons _ _ body r, il, isw, h => by
        simp only [woC, Bool.and_eq_true] at h
        simp only [p3Cases]
        refine Ok.bind (p3Stmts_total q hq body il isw h.1) (fun _ _ => ?_)
        exact Ok.bind (p3Cases_total q hq r il isw h.2) (fun _ _ => Ok.pure trivial)
  theorem p3SExp_total (q : Quirks) (hq : QOk q) :
      ∀ (e : SExp), woX e = true → Ok (p3SExp q e) (fun _ => True)
    | .bind _ th, h => by
        simp only [woX] at h
        simp only [p3SExp]
        exact Ok.bind (p3Thunk_total q hq th h) (fun _ _ => Ok.pure trivial)
    | .delay th, h => by
        simp only [woX] at h
        simp only [p3SExp]
        exact Ok.bind (p3Thunk_total q hq th h) (fun _ _ => Ok.pure trivial)
    | .combine a b, h => by
        simp only [woX, Bool.and_eq_true] at h
        simp only [p3SExp]
        refine Ok.bind (p3SExp_total q hq a h.1.2) (fun _ _ => ?_)
        exact Ok.bind (p3SExp_total q hq b h.2) (fun _ _ => Ok.pure trivial)
    | .loop _ _ body, h => by
        simp only [woX, Bool.and_eq_true] at h
        simp only [p3SExp]
        exact Ok.bind (p3SExp_total q hq body h.2) (fun _ _ => Ok.pure trivial)
    | .start a, h => by
        simp only [woX] at h
        simp only [p3SExp]
        exact Ok.bind (p3SExp_total q hq a h) (fun _ _ => Ok.pure trivial)
    | .sig _, _ => by simp only [p3SExp]; exact Ok.pure trivial
    | .unknown _, _ => by simp only [p3SExp]; exact Ok.pure trivial
  theorem p3Thunk_total (q : Quirks) (hq : QOk q) :
      ∀ (th : Thunk), woT th = true → Ok (p3Thunk q th) (fun _ => True)
    | .lam ss, h => by
        simp only [woT] at h
        simp only [p3Thunk]
        refine Ok.bind (p3Stmts_total q hq ss false false h) (fun p _ => ?_)
        split
        · exact Ok.bind (rmRedundantReturn_total q hq _) (fun _ _ => Ok.pure trivial)
        · exact Ok.pure trivial
    | .fn _, _ => by simp only [p3Thunk]; exact Ok.pure trivial
end

/-! ### pass2 produces well-formed output: no `fallthrough`, pure combinator arguments -/

/-- partial correctness: if `x` succeeds, its result satisfies `Q` -/
def OkIf {ε α : Type} (x : Except ε α) (Q : α → Prop) : Prop := ∀ a, x = .ok a → Q a

theorem OkIf.bind {ε α β : Type} {x : Except ε α} {f : α → Except ε β} {Q : α → Prop} {R : β → Prop}
    (hx : OkIf x Q) (hf : ∀ a, Q a → OkIf (f a) R) : OkIf (x >>= f) R := by
  intro b hb
  cases x with
  | error e => cases hb
  | ok a => exact hf a (hx a rfl) b hb

theorem OkIf.pure {ε α : Type} {a : α} {Q : α → Prop} (h : Q a) : OkIf (pure a : Except ε α) Q := by
  intro b hb; cases hb; exact h
theorem OkIf.ok {ε α : Type} {a : α} {Q : α → Prop} (h : Q a) : OkIf (.ok a : Except ε α) Q := by
  intro b hb; cases hb; exact h
theorem OkIf.error {ε α : Type} {e : ε} {Q : α → Prop} : OkIf (.error e : Except ε α) Q := by
  intro b hb; cases hb
theorem OkIf.throw {α : Type} {e : String} {Q : α → Prop} : OkIf (throw e : Except String α) Q := by
  intro b hb; cases hb
theorem OkIf.triv {ε α : Type} (x : Except ε α) : OkIf x (fun _ => True) := fun _ _ => trivial

/-- every statement of the block is well-formed output (`woS`) -/
def NF (b : Blk) : Prop := ∀ x ∈ b.items, woS x.1 = true

theorem nf_mk0 (k : Kind) : NF (Blk.mk0 k) := fun _ hx => nomatch hx

theorem nf_pushU {b : Blk} (h : NF b) {s : Stmt} (hs : woS s = true) (k : Kind) : NF (b.pushU s k) := by
  intro x hx
  simp only [Blk.pushU, List.mem_cons] at hx
  rcases hx with rfl | hx
  · exact hs
  · exact h x hx

theorem nf_markCombined {b : Blk} (h : NF b) : NF b.markCombined := h

theorem nf_pushReturnU {b : Blk} (h : NF b) {e : SExp} (he : woX e = true) (k : Kind) : NF (b.pushReturnU e k) := by
  intro x hx
  simp only [Blk.pushReturnU, Blk.pushU, List.mem_cons] at hx
  rcases hx with rfl | hx
  · simpa [woS] using he
  · exact h x hx

theorem push_nf {b : Blk} (h : NF b) {s : Stmt} (hs : woS s = true) (k : Kind) : OkIf (b.push s k) NF := by
  unfold Blk.push
  exact OkIf.bind (OkIf.triv _) (fun _ _ => OkIf.pure (nf_pushU h hs k))

theorem pushReturn_nf {b : Blk} (h : NF b) {e : SExp} (he : woX e = true) (k : Kind) : OkIf (b.pushReturn e k) NF := by
  unfold Blk.pushReturn
  exact OkIf.bind (OkIf.triv _) (fun _ _ => OkIf.pure (nf_pushReturnU h he k))

theorem nftL_ofList : ∀ (l : List Stmt), (∀ s ∈ l, woS s = true) → woL (Stmts.ofList l) = true
  | [], _ => rfl
  | s :: r, h => by
      simp only [Stmts.ofList, woL, Bool.and_eq_true]
      exact ⟨h s (List.mem_cons_self ..), nftL_ofList r (fun x hx => h x (List.mem_cons_of_mem _ hx))⟩

theorem nf_toStmts {b : Blk} (h : NF b) : woL b.toStmts = true := by
  unfold Blk.toStmts
  refine nftL_ofList _ (fun s hs => ?_)
  simp only [List.mem_map, List.mem_reverse] at hs
  obtain ⟨x, hx, rfl⟩ := hs
  exact h x hx

theorem genLast_nf (q : Quirks) {b : Blk} (h : NF b) : OkIf (genLast q b) NF := by
  unfold genLast
  refine OkIf.bind (OkIf.triv _) (fun r _ => ?_)
  split
  · exact pushReturn_nf (nf_markCombined h) rfl _
  · exact OkIf.pure h

def NFF : Frame → Prop
  | .bindF cur _ => NF cur
  | .combF cur first => NF cur ∧ NF first

theorem nf_plug : ∀ (frames : List Frame) (fin : Blk), (∀ f ∈ frames, NFF f) → NF fin → NF (plug frames fin)
  | [], fin, _, h => h
  | f :: fs, fin, hf, h => by
      show NF (plug fs (plug1 fin f))
      refine nf_plug fs _ (fun g hg => hf g (List.mem_cons_of_mem _ hg)) ?_
      have hff := hf f (List.mem_cons_self ..)
      cases f with
      | bindF cur e => exact nf_pushReturnU hff (by simpa [woX, woT] using nf_toStmts h) _
      | combF cur first =>
          exact nf_pushReturnU hff.1 (by simp [woX, woT, pureX, nf_toStmts h, nf_toStmts hff.2]) _

theorem nff_nil : ∀ f ∈ ([] : List Frame), NFF f := fun _ hf => nomatch hf

theorem nff_append {a b : List Frame} (ha : ∀ f ∈ a, NFF f) (hb : ∀ f ∈ b, NFF f) :
    ∀ f ∈ a ++ b, NFF f := fun f hf => by
  rcases List.mem_append.mp hf with h | h
  · exact ha f h
  · exact hb f h

theorem combineIfNecessary_nf (q : Quirks) {b : Blk} (h : NF b) :
    OkIf (combineIfNecessary q b) (fun r => NF r.1 ∧ ∀ f ∈ r.2, NFF f) := by
  unfold combineIfNecessary
  simp only []
  split
  · exact OkIf.pure ⟨h, nff_nil⟩
  · rename_i s k rest hi
    simp only [Blk.markCombined] at hi
    have hs : woS s = true := h (s, k) (by rw [hi]; exact List.mem_cons_self ..)
    have hrest : ∀ x ∈ rest, woS x.1 = true := fun x hx => h x (by rw [hi]; exact List.mem_cons_of_mem _ hx)
    split
    · exact OkIf.pure ⟨h, nff_nil⟩
    · refine OkIf.bind (push_nf (nf_mk0 _) hs k) (fun c hc => ?_)
      refine OkIf.bind (genLast_nf q hc) (fun c' hc' => ?_)
      refine OkIf.bind (OkIf.triv _) (fun _ _ => ?_)
      refine OkIf.pure ⟨nf_mk0 _, fun f hf => ?_⟩
      simp only [List.mem_singleton] at hf
      subst hf
      exact ⟨hrest, hc'⟩


def NFSR : SR → Prop
  | .stop c => NF c
  | .go fol frames => NF fol ∧ ∀ f ∈ frames, NFF f

theorem nftE_unwrapIf (ss : Stmts) (h : woL ss = true) : woE (unwrapIf ss) = true := by
  unfold unwrapIf
  split
  · simpa [woE, woL] using h
  · simpa [woE] using h

theorem ifPush_nf (init : Option Simple) (c : CondE) (thn : Stmts) (els : Else) (body : Blk) (e : Option Blk)
    {cur : Blk} (hthn : woL thn = true) (hels : woE els = true) (hbody : NF body)
    (he : ∀ e', e = some e' → NF e') (h : NF cur) : OkIf (ifPush init c thn els body e cur) NF := by
  unfold ifPush
  split
  · split
    · exact push_nf h (by simp [woS, hthn, hels]) _
    · exact push_nf h (by simp [woS, nf_toStmts hbody, woE]) _
  · rename_i e'
    split
    · exact push_nf h (by simp [woS, hthn, hels]) _
    · exact push_nf h (by simp [woS, nf_toStmts hbody, nftE_unwrapIf _ (nf_toStmts (he e' rfl))]) _

theorem rwInit_nf (i : Simple) {cur : Blk} (h : NF cur) : OkIf (rwInit i cur) NFSR := by
  cases i with
  | yield e =>
      simp only [rwInit]
      refine OkIf.bind (OkIf.triv _) (fun _ _ => OkIf.pure ⟨nf_mk0 _, fun f hf => ?_⟩)
      simp only [List.mem_singleton] at hf; subst hf; exact h
  | empty => simp only [rwInit]; exact OkIf.pure ⟨h, nff_nil⟩
  | act n => simp only [rwInit]; exact OkIf.bind (push_nf h rfl _) (fun b hb => OkIf.pure ⟨hb, nff_nil⟩)
  | pact n => simp only [rwInit]; exact OkIf.bind (push_nf h rfl _) (fun b hb => OkIf.pure ⟨hb, nff_nil⟩)
  | bpanic n => simp only [rwInit]; exact OkIf.bind (push_nf h rfl _) (fun b hb => OkIf.pure ⟨hb, nff_nil⟩)
  | def_ n => simp only [rwInit]; exact OkIf.bind (push_nf h rfl _) (fun b hb => OkIf.pure ⟨hb, nff_nil⟩)

theorem go_pushed_nf {cur : Blk} (h : NF cur) {s : Stmt} (hs : woS s = true) :
    OkIf (do pure (SR.go (← cur.push s .trivial) []) : Except String SR) NFSR :=
  OkIf.bind (push_nf h hs _) (fun _ hb => OkIf.pure ⟨hb, nff_nil⟩)

theorem stop_pushed_nf {cur : Blk} (h : NF cur) {s : Stmt} (hs : woS s = true) :
    OkIf (do pure (SR.stop (← cur.push s .trivial)) : Except String SR) NFSR :=
  OkIf.bind (push_nf h hs _) (fun _ hb => OkIf.pure hb)

theorem callFor_nf (q : Quirks) (cond : Option CondE) (post : Option Simple) (body : SExp) (hb : woX body = true)
    (hpb : pureX body = true) : OkIf (callFor q cond post body) (fun r => woX r = true) := by
  unfold callFor
  split
  · split
    · exact OkIf.throw
    · exact OkIf.pure (by simp [woX, hb, hpb])
  · exact OkIf.pure (by simp [woX, hb, hpb])

theorem for_tail_nf (q : Quirks) (cond : Option CondE) (post : Option Simple) (body : Stmts) (hbody : woL body = true)
    (b : Blk) (hb : NF b) (x : Blk × List Frame) (h1 : NF x.1) (h2 : ∀ f ∈ x.2, NFF f) :
    OkIf (if (b.mustNoYield && !optIsYield post) = true then do
          let __x_1 ← combineIfNecessary q x.fst
          let __do_lift ← __x_1.fst.push (Stmt.for_ none cond post body) Kind.trivial
          pure (SR.go __do_lift (__x_1.snd ++ x.snd))
        else
          if (!optIsYield post) = true then do
            let call ← callFor q cond post (SExp.delay (Thunk.lam b.toStmts))
            let __x_1 ← combineIfNecessary q x.fst
            let __do_lift ← __x_1.fst.pushReturn call Kind.fork
            pure (SR.go __do_lift (__x_1.snd ++ x.snd))
          else do
            let pe ← (match post with
                | some (Simple.yield e) => pure e
                | _ => throw "illegal state" : Except String VExp)
            let normalThunk ← genLast q (Blk.mk0 Kind.delay)
            let b ← (if b.combineRequired = true then do
                  let b ← genLast q b
                  (Blk.mk0 Kind.fork).pushReturn
                      ((SExp.delay (Thunk.lam b.toStmts)).combine
                        (SExp.delay
                          (Thunk.lam
                            ((Blk.mk0 Kind.delay).pushReturnU (SExp.bind pe (Thunk.lam normalThunk.toStmts))
                                Kind.yieldk).toStmts)))
                      Kind.combine
                else b.markCombined.pushReturn (SExp.bind pe (Thunk.lam normalThunk.toStmts)) Kind.yieldk : Except String Blk)
            let call ← callFor q cond none (SExp.delay (Thunk.lam b.toStmts))
            let __x_1 ← combineIfNecessary q x.fst
            let __do_lift ← __x_1.fst.pushReturn call Kind.fork
            pure (SR.go __do_lift (__x_1.snd ++ x.snd))) NFSR := by
  split
  · refine OkIf.bind (combineIfNecessary_nf q h1) (fun p hp => ?_)
    refine OkIf.bind (push_nf hp.1 (by simpa [woS] using hbody) _) (fun c hc => ?_)
    exact OkIf.pure ⟨hc, nff_append hp.2 h2⟩
  · split
    · refine OkIf.bind (callFor_nf q _ _ _ (by simpa [woX, woT] using nf_toStmts hb) rfl) (fun call hcall => ?_)
      refine OkIf.bind (combineIfNecessary_nf q h1) (fun p hp => ?_)
      refine OkIf.bind (pushReturn_nf hp.1 hcall _) (fun c hc => ?_)
      exact OkIf.pure ⟨hc, nff_append hp.2 h2⟩
    · refine OkIf.bind (OkIf.triv _) (fun pe _ => ?_)
      refine OkIf.bind (genLast_nf q (nf_mk0 _)) (fun nt hnt => ?_)
      refine OkIf.bind (Q := NF) ?_ (fun b' hb' => ?_)
      · split
        · refine OkIf.bind (genLast_nf q hb) (fun b2 hb2 => ?_)
          refine pushReturn_nf (nf_mk0 _) ?_ _
          simp only [woX, woT, pureX, Bool.and_eq_true, true_and]
          refine ⟨nf_toStmts hb2, nf_toStmts (nf_pushReturnU (nf_mk0 _) ?_ _)⟩
          simpa [woX, woT] using nf_toStmts hnt
        · exact pushReturn_nf (nf_markCombined hb) (by simpa [woX, woT] using nf_toStmts hnt) _
      · refine OkIf.bind (callFor_nf q _ _ _ (by simpa [woX, woT] using nf_toStmts hb') rfl) (fun call hcall => ?_)
        refine OkIf.bind (combineIfNecessary_nf q h1) (fun p hp => ?_)
        refine OkIf.bind (pushReturn_nf hp.1 hcall _) (fun c hc => ?_)
        exact OkIf.pure ⟨hc, nff_append hp.2 h2⟩

mutual
  theorem rwStmts_nf (q : Quirks) :
      ∀ (ss : Stmts) (cur : Blk), woL ss = true → NF cur → OkIf (rwStmts q ss cur) NF
    | .nil, cur, _, hc => by
        simp only [rwStmts]
        split
        · exact genLast_nf q hc
        · exact OkIf.pure hc
    | .cons s rest, cur, hw, hc => by
        simp only [woL, Bool.and_eq_true] at hw
        simp only [rwStmts]
        refine OkIf.bind (rwStmt_nf q s rest.isNil cur hw.1 hc) (fun r hr => ?_)
        cases r with
        | stop c => exact OkIf.pure hr
        | go fol frames =>
          obtain ⟨hfol, hfr⟩ := hr
          simp only []
          split
          · refine OkIf.bind (Q := NF) ?_ (fun fol' hfol' => OkIf.pure (nf_plug frames fol' hfr hfol'))
            split
            · exact genLast_nf q hfol
            · exact OkIf.pure hfol
          · refine OkIf.bind (combineIfNecessary_nf q hfol) (fun p hp => ?_)
            obtain ⟨fol2, frames2⟩ := p
            refine OkIf.bind (rwStmts_nf q rest fol2 hw.2 hp.1) (fun fin hfin => ?_)
            exact OkIf.pure (nf_plug _ _ hfr (nf_plug _ _ hp.2 hfin))

  theorem rwStmt_nf (q : Quirks) :
      ∀ (s : Stmt) (isLast : Bool) (cur : Blk), woS s = true → NF cur → OkIf (rwStmt q s isLast cur) NFSR
    | .simple (.yield e), isLast, cur, _, hc => by
        simp only [rwStmt]
        refine OkIf.bind (OkIf.triv _) (fun _ _ => ?_)
        split
        · refine OkIf.bind (genLast_nf q (nf_mk0 _)) (fun fol hfol => ?_)
          exact OkIf.pure (nf_pushReturnU hc (by simpa [woX, woT] using nf_toStmts hfol) _)
        · refine OkIf.pure ⟨nf_mk0 _, fun f hf => ?_⟩
          simp only [List.mem_singleton] at hf; subst hf; exact hc
    | .simple .empty, _, cur, _, hc => by
        simp only [rwStmt]; exact OkIf.pure ⟨hc, nff_nil⟩
    | .simple (.act n), _, cur, _, hc => by simp only [rwStmt]; exact go_pushed_nf hc rfl
    | .simple (.pact n), _, cur, _, hc => by simp only [rwStmt]; exact go_pushed_nf hc rfl
    | .simple (.bpanic n), _, cur, _, hc => by simp only [rwStmt]; exact go_pushed_nf hc rfl
    | .simple (.def_ n), _, cur, _, hc => by simp only [rwStmt]; exact go_pushed_nf hc rfl
    | .brk, _, cur, _, hc => by simp only [rwStmt]; exact stop_pushed_nf hc rfl
    | .cont, _, cur, _, hc => by simp only [rwStmt]; exact stop_pushed_nf hc rfl
    | .fallthrough, _, cur, h, hc => by simp [woS] at h
    | .ret, _, cur, _, hc => by simp only [rwStmt]; exact go_pushed_nf hc rfl
    | .rete e, _, cur, h, hc => by simp only [rwStmt]; exact go_pushed_nf hc h
    | .unknown t, _, cur, _, hc => by simp only [rwStmt]; exact go_pushed_nf hc rfl
    | .block ss, _, cur, hw, hc => by
        simp only [woS] at hw
        simp only [rwStmt]
        refine OkIf.bind (rwStmts_nf q ss _ hw (nf_mk0 _)) (fun fol hfol => ?_)
        split
        · exact go_pushed_nf hc (by simpa [woS] using hw)
        · refine OkIf.bind (pushReturn_nf hc (by simpa [woX, woT] using nf_toStmts hfol) _) (fun b hb => ?_)
          exact OkIf.pure ⟨hb, nff_nil⟩
    | .ifs init c thn els, isLast, cur, hw, hc => by
        simp only [woS, Bool.and_eq_true] at hw
        simp only [rwStmt]
        split
        · exact OkIf.bind OkIf.throw (fun _ (h : False) => h.elim)
        refine OkIf.bind (rwStmts_nf q thn _ hw.1 (nf_mk0 _)) (fun body hbody => ?_)
        refine OkIf.bind (rwElse_nf q els hw.2) (fun e he => ?_)
        refine OkIf.bind (ifPush_nf init c thn els body e hw.1 hw.2 hbody he hc) (fun cur' hcur' => ?_)
        split
        · exact OkIf.bind (genLast_nf q hcur') (fun c hc' => OkIf.pure hc')
        · exact OkIf.pure ⟨hcur', nff_nil⟩
    | .switch init tag cases, isLast, cur, hw, hc => by
        simp only [woS] at hw
        simp only [rwStmt]
        refine OkIf.bind (rwCases_nf q cases hw) (fun p hp => ?_)
        obtain ⟨newCases, allTrivial⟩ := p
        dsimp only at hp ⊢
        split
        · exact go_pushed_nf hc (by simpa [woS] using hw)
        · refine OkIf.bind (Q := fun (p : Blk × List Frame) => NF p.1 ∧ ∀ f ∈ p.2, NFF f) ?_ (fun p hp1 => ?_)
          · cases init with
            | none => exact OkIf.pure ⟨hc, nff_nil⟩
            | some i =>
              dsimp only
              split
              · exact OkIf.bind OkIf.throw (fun _ (h : False) => h.elim)
              · refine OkIf.bind (rwInit_nf i hc) (fun r hr => ?_)
                cases r with
                | stop c => exact OkIf.throw
                | go fol fr => exact OkIf.pure hr
          · obtain ⟨cur1, frames⟩ := p
            obtain ⟨h1, h2⟩ := hp1
            dsimp only at h1 h2 ⊢
            have tail : OkIf (if allTrivial = true then do
                  let __do_lift ← cur1.push (Stmt.switch none tag cases) Kind.trivial
                  pure (SR.go __do_lift frames)
                else do
                  let __x_2 ← combineIfNecessary q cur1
                  let cur' ← __x_2.fst.push (Stmt.switch none tag newCases) Kind.switchk
                  if (isLast && !q.switchLastGetsNoNormal) = true then do
                      let __do_lift ← genLast q cur'
                      pure (SR.stop (plug (__x_2.snd ++ frames) __do_lift))
                    else pure (SR.go cur' (__x_2.snd ++ frames))) NFSR := by
              split
              · exact OkIf.bind (push_nf h1 (by simpa [woS] using hw) _) (fun b hb => OkIf.pure ⟨hb, h2⟩)
              · refine OkIf.bind (combineIfNecessary_nf q h1) (fun p hp2 => ?_)
                refine OkIf.bind (push_nf hp2.1 (by simpa [woS] using hp) _) (fun cur' hcur' => ?_)
                split
                · refine OkIf.bind (genLast_nf q hcur') (fun g hg => ?_)
                  exact OkIf.pure (nf_plug _ _ (nff_append hp2.2 h2) hg)
                · exact OkIf.pure ⟨hcur', nff_append hp2.2 h2⟩
            split
            · exact OkIf.bind OkIf.throw (fun _ (h : False) => h.elim)
            · exact tail
    | .for_ init cond post body, isLast, cur, hw, hc => by
        simp only [woS] at hw
        simp only [rwStmt]
        refine OkIf.bind (rwStmts_nf q body _ hw (nf_mk0 _)) (fun b hb => ?_)
        split
        · exact go_pushed_nf hc (by simpa [woS] using hw)
        · refine OkIf.bind (Q := fun (p : Blk × List Frame) => NF p.1 ∧ ∀ f ∈ p.2, NFF f) ?_ (fun p hp1 => ?_)
          · cases init with
            | none => exact OkIf.pure ⟨hc, nff_nil⟩
            | some i =>
              dsimp only
              split
              · exact OkIf.bind OkIf.throw (fun _ (h : False) => h.elim)
              · refine OkIf.bind (rwInit_nf i hc) (fun r hr => ?_)
                cases r with
                | stop c => exact OkIf.throw
                | go fol fr => exact OkIf.pure hr
          · exact for_tail_nf q cond post body hw b hb p hp1.1 hp1.2

  theorem rwElse_nf (q : Quirks) :
      ∀ (els : Else), woE els = true → OkIf (rwElse q els) (fun r => ∀ e, r = some e → NF e)
    | .none, _ => by simp only [rwElse]; exact OkIf.pure (fun e he => nomatch he)
    | .els ss, hw => by
        simp only [woE] at hw
        simp only [rwElse]
        exact OkIf.bind (rwStmts_nf q ss _ hw (nf_mk0 _)) (fun b hb => OkIf.pure (fun e he => by cases he; exact hb))
    | .elif s, hw => by
        simp only [woE] at hw
        simp only [rwElse]
        exact OkIf.bind (rwIfS_nf q s _ hw (nf_mk0 _)) (fun b hb => OkIf.pure (fun e he => by cases he; exact hb))

  theorem rwIfS_nf (q : Quirks) :
      ∀ (s : Stmt) (cur : Blk), woS s = true → NF cur → OkIf (rwIfS q s cur) NF
    | .ifs init c thn els, cur, hw, hc => by
        simp only [woS, Bool.and_eq_true] at hw
        simp only [rwIfS]
        split
        · exact OkIf.bind OkIf.throw (fun _ (h : False) => h.elim)
        refine OkIf.bind (rwStmts_nf q thn _ hw.1 (nf_mk0 _)) (fun body hbody => ?_)
        refine OkIf.bind (rwElse_nf q els hw.2) (fun e he => ?_)
        exact ifPush_nf init c thn els body e hw.1 hw.2 hbody he hc
    | .simple _, _, _, _ => by simp only [rwIfS]; exact OkIf.throw
    | .block _, _, _, _ => by simp only [rwIfS]; exact OkIf.throw
    | .switch _ _ _, _, _, _ => by simp only [rwIfS]; exact OkIf.throw
    | .for_ _ _ _ _, _, _, _ => by simp only [rwIfS]; exact OkIf.throw
    | .brk, _, _, _ => by simp only [rwIfS]; exact OkIf.throw
    | .cont, _, _, _ => by simp only [rwIfS]; exact OkIf.throw
    | .fallthrough, _, _, _ => by simp only [rwIfS]; exact OkIf.throw
    | .ret, _, _, _ => by simp only [rwIfS]; exact OkIf.throw
    | .rete _, _, _, _ => by simp only [rwIfS]; exact OkIf.throw
    | .unknown _, _, _, _ => by simp only [rwIfS]; exact OkIf.throw

  theorem rwCases_nf (q : Quirks) :
      ∀ (cs : Cases), woC cs = true → OkIf (rwCases q cs) (fun r => woC r.1 = true)
    | .nil, _ => by simp only [rwCases]; exact OkIf.pure rfl
    | .cons d ks body r, hw => by
        simp only [woC, Bool.and_eq_true] at hw
        simp only [rwCases]
        refine OkIf.bind (rwStmts_nf q body _ hw.1 (nf_mk0 _)) (fun b hb => ?_)
        refine OkIf.bind (rwCases_nf q r hw.2) (fun p hp => ?_)
        exact OkIf.pure (by simp [woC, nf_toStmts hb, hp])
end


/-! ### pass0 establishes the well-formedness pass2 relies on -/

/- what every parsed Go body satisfies: an `else if` holds an if statement -/
mutual
  def srcS : Stmt → Bool
    | .block ss => srcL ss
    | .ifs init _ thn els => !optIsYield init && srcL thn && srcE els
    | .switch _ _ cases => srcC cases
    | .for_ _ _ _ body => srcL body
    | _ => true
  def srcL : Stmts → Bool
    | .nil => true
    | .cons s r => srcS s && srcL r
  def srcE : Else → Bool
    | .none => true
    | .els ss => srcL ss
    | .elif s => isIfs s && srcS s
  def srcC : Cases → Bool
    | .nil => true
    | .cons _ _ body r => srcL body && srcC r
end

theorem isIfs_p0 : ∀ s : Stmt, isIfs s = true → isIfs (p0Stmt s) = true
  | .ifs _ _ _ _, _ => by simp [p0Stmt, isIfs]
  | .simple _, h => by cases h
  | .block _, h => by cases h
  | .switch _ _ _, h => by cases h
  | .for_ _ _ _ _, h => by cases h
  | .brk, h => by cases h
  | .cont, h => by cases h
  | .fallthrough, h => by cases h
  | .ret, h => by cases h
  | .rete _, h => by cases h
  | .unknown _, h => by cases h

mutual
  theorem p0Stmt_wf : ∀ s : Stmt, srcS s = true → wfS (p0Stmt s) = true
    | .block ss, h => by simp only [srcS] at h; simp only [p0Stmt, wfS]; exact p0Stmts_wf ss h
    | .ifs _ _ thn els, h => by
        simp only [srcS, Bool.and_eq_true] at h
        simp only [p0Stmt, wfS, Bool.and_eq_true]
        exact ⟨⟨h.1.1, p0Stmts_wf thn h.1.2⟩, p0Else_wf els h.2⟩
    | .switch init _ cases, h => by
        simp only [srcS] at h
        have hc := p0Cases_wf cases h
        simp only [p0Stmt]
        split
        · simp [wfS, wfL, optIsDefine, hc]
        · rename_i hnd
          simp only [wfS, Bool.and_eq_true, hc, and_true]
          cases init with
          | none => rfl
          | some i => cases i <;> first | rfl | exact absurd rfl (hnd _)
    | .for_ init _ _ body, h => by
        simp only [srcS] at h
        have hc := p0Stmts_wf body h
        simp only [p0Stmt]
        split
        · simp [wfS, wfL, optIsDefine, hc]
        · rename_i hnd
          simp only [wfS, Bool.and_eq_true, hc, and_true]
          cases init with
          | none => rfl
          | some i => cases i <;> first | rfl | exact absurd rfl (hnd _)
    | .simple _, _ => rfl
    | .brk, _ => rfl
    | .cont, _ => rfl
    | .fallthrough, _ => rfl
    | .ret, _ => rfl
    | .rete _, _ => rfl
    | .unknown _, _ => rfl
  theorem p0Stmts_wf : ∀ ss : Stmts, srcL ss = true → wfL (p0Stmts ss) = true
    | .nil, _ => rfl
    | .cons s r, h => by
        simp only [srcL, Bool.and_eq_true] at h
        simp only [p0Stmts, wfL, Bool.and_eq_true]
        exact ⟨p0Stmt_wf s h.1, p0Stmts_wf r h.2⟩
  theorem p0Else_wf : ∀ e : Else, srcE e = true → wfE (p0Else e) = true
    | .none, _ => rfl
    | .els ss, h => by simp only [srcE] at h; simp only [p0Else, wfE]; exact p0Stmts_wf ss h
    | .elif s, h => by
        simp only [srcE, Bool.and_eq_true] at h
        simp only [p0Else, wfE, Bool.and_eq_true]
        exact ⟨isIfs_p0 s h.1, p0Stmt_wf s h.2⟩
  theorem p0Cases_wf : ∀ cs : Cases, srcC cs = true → wfC (p0Cases cs) = true
    | .nil, _ => rfl
    | .cons _ _ body r, h => by
        simp only [srcC, Bool.and_eq_true] at h
        simp only [p0Cases, wfC, Bool.and_eq_true]
        exact ⟨p0Stmts_wf body h.1, p0Cases_wf r h.2⟩
end

mutual
  theorem p0Stmt_nft : ∀ s : Stmt, woS s = true → woS (p0Stmt s) = true
    | .block ss, h => by simp only [woS] at h; simp only [p0Stmt, woS]; exact p0Stmts_nft ss h
    | .ifs _ _ thn els, h => by
        simp only [woS, Bool.and_eq_true] at h
        simp only [p0Stmt, woS, Bool.and_eq_true]
        exact ⟨p0Stmts_nft thn h.1, p0Else_nft els h.2⟩
    | .switch init _ cases, h => by
        simp only [woS] at h
        have hc := p0Cases_nft cases h
        simp only [p0Stmt]
        split <;> simp [woS, woL, hc]
    | .for_ init _ _ body, h => by
        simp only [woS] at h
        have hc := p0Stmts_nft body h
        simp only [p0Stmt]
        split <;> simp [woS, woL, hc]
    | .simple _, _ => rfl
    | .brk, _ => rfl
    | .cont, _ => rfl
    | .fallthrough, h => by cases h
    | .ret, _ => rfl
    | .rete _, h => h
    | .unknown _, _ => rfl
  theorem p0Stmts_nft : ∀ ss : Stmts, woL ss = true → woL (p0Stmts ss) = true
    | .nil, _ => rfl
    | .cons s r, h => by
        simp only [woL, Bool.and_eq_true] at h
        simp only [p0Stmts, woL, Bool.and_eq_true]
        exact ⟨p0Stmt_nft s h.1, p0Stmts_nft r h.2⟩
  theorem p0Else_nft : ∀ e : Else, woE e = true → woE (p0Else e) = true
    | .none, _ => rfl
    | .els ss, h => by simp only [woE] at h; simp only [p0Else, woE]; exact p0Stmts_nft ss h
    | .elif s, h => by simp only [woE] at h; simp only [p0Else, woE]; exact p0Stmt_nft s h
  theorem p0Cases_nft : ∀ cs : Cases, woC cs = true → woC (p0Cases cs) = true
    | .nil, _ => rfl
    | .cons _ _ body r, h => by
        simp only [woC, Bool.and_eq_true] at h
        simp only [p0Cases, woC, Bool.and_eq_true]
        exact ⟨p0Stmts_nft body h.1, p0Cases_nft r h.2⟩
end

/-- the grammar on which the compiler is total: every parsed body without a `fallthrough` statement -/
def InGrammar (body : Stmts) : Bool := srcL body && woL body

/-- **compile_total**: on the repaired tree the per-function pipeline accepts every body of the grammar -
    blocks, if / else-if chains, expression switches (tagged or tag-less, with or without init), all
    for-loop forms, yields / break / continue / return at any position, any nesting: no assertion of the
    rewriter fires, the termination checker never panics, pass3 finds every branch statement a target. -/
theorem compile_total (q : Quirks) (hq : QOk q) (body : Stmts) (hg : InGrammar body = true) :
    ∃ t, compile q body = .ok t := by
  simp only [InGrammar, Bool.and_eq_true] at hg
  unfold compile
  obtain ⟨b, hb, _⟩ := rwStmts_total q hq (p0Stmts body) (Blk.mk0 .delay) (p0Stmts_wf body hg.1) (ready_mk0 (.inl rfl))
  have hnf : NF b := rwStmts_nf q (p0Stmts body) (Blk.mk0 .delay) (p0Stmts_nft body hg.2) (nf_mk0 _) b hb
  obtain ⟨th, hth, _⟩ := p3Thunk_total q hq (.lam b.toStmts) (by simpa [woT] using nf_toStmts hnf)
  exact ⟨_, by rw [hb]; show (p3Thunk q (.lam b.toStmts) >>= _) = _; rw [hth]; rfl⟩

theorem compile_total_current (body : Stmts) (hg : InGrammar body = true) :
    ∃ t, compile currentQuirks body = .ok t := compile_total currentQuirks qok_current body hg

end GoCo.MG
