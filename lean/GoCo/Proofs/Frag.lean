/-
  The fragment of the partial correctness theorem and two semantic facts about it:
  * `frag_plain`: statements of the fragment only complete with `Plain` outcomes
    (fall, break, continue, `return seq.Return()`), under both readings of `Yield`;
  * `noY_susp_irrelevant`: if running a statement as a coroutine reaches no `Yield`, then running it with
    `Yield` as the no-op stub does exactly the same.
-/
import GoCo.Proofs.ResLemmas
set_option autoImplicit false

namespace GoCo.MG
variable {σ P : Type}

/- the fragment (after pass0): simple statements, blocks, if / else-if chains (no yield in the
   initialiser: finding D12), for loops (`:=` initialisers already hoisted), break, continue,
   `return seq.Return()`, expression switches (tagged or tag-less).  Not in the fragment: fallthrough. -/
mutual
  def fragS : Stmt → Bool
    | .simple _ => true
    | .block ss => fragL ss
    | .ifs init _ thn els => !optIsYield init && fragL thn && fragE els
    | .for_ init _ _ body => !optIsDefine init && fragL body
    | .switch init _ cases => !optIsDefine init && fragC cases
    | .brk => true
    | .cont => true
    | .rete (.sig .ret) => true
    | _ => false
  def fragL : Stmts → Bool
    | .nil => true
    | .cons s r => fragS s && fragL r
  def fragE : Else → Bool
    | .none => true
    | .els ss => fragL ss
    | .elif s => fragS s
  def fragC : Cases → Bool
    | .nil => true
    | .cons _ _ body r => fragL body && fragC r
end

/-- outcomes of source statements of the fragment -/
def SrcOut (o : Flow) : Prop := o = .fall ∨ o = .nbrk ∨ o = .ncont ∨ o = .exit .ret

theorem SrcOut.plain {o : Flow} (h : SrcOut o) : Plain o := by
  rcases h with h | h | h | h <;> subst h <;> exact ⟨by simp, by simp⟩

theorem plain_fall : Plain .fall := ⟨by simp, by simp⟩
theorem plain_nbrk : Plain .nbrk := ⟨by simp, by simp⟩
theorem plain_ncont : Plain .ncont := ⟨by simp, by simp⟩
theorem plain_exit_ret : Plain (.exit .ret) := ⟨by simp, by simp⟩

theorem effect_all {α : Type} (p : α → Prop) (r : Option P × σ) (o : α) (h : p o) :
    Res.All p (effect r o : Res α σ P) := by
  rcases r with ⟨_ | e, st⟩
  · exact .done h
  · exact .panic

theorem denSimple_fallOnly (ρ : Interp σ P) (susp : Bool) (s : Simple) (st : σ) :
    Res.All (fun o => o = Flow.fall) (denSimple ρ susp s st) := by
  cases s with
  | act n => exact effect_all _ _ _ rfl
  | pact n => exact effect_all _ _ _ rfl
  | bpanic n => simp only [denSimple]; exact .panic
  | def_ n => exact effect_all _ _ _ rfl
  | yield e =>
    simp only [denSimple]
    rcases evalV ρ e st with ⟨_ | v, st'⟩
    · exact .panic
    · cases susp
      · exact .done rfl
      · exact .yield fun _ => .done rfl
  | empty => exact .done rfl

theorem denInit_fallOnly (ρ : Interp σ P) (susp : Bool) (i : Option Simple) (st : σ) :
    Res.All (fun o => o = Flow.fall) (denInit ρ susp i st) := by
  cases i with
  | none => exact .done rfl
  | some s => exact denSimple_fallOnly ρ susp s st

theorem loopF_src (cond : σ → Except P Bool × σ) (post body : σ → Res Flow σ P)
    (hp : ∀ st, Res.All SrcOut (post st)) (hb : ∀ st, Res.All SrcOut (body st)) :
    ∀ n st, Res.All SrcOut (loopF cond post body n st) := by
  intro n
  induction n with
  | zero => intro st; exact .oob
  | succ n ih =>
    intro st
    simp only [loopF]
    rcases cond st with ⟨_ | b, st1⟩
    · exact .panic
    · cases b
      · exact .done (.inl rfl)
      · refine (hb st1).bind fun o st2 ho => ?_
        cases o with
        | fall =>
          refine (hp st2).bind fun o' st3 ho' => ?_
          by_cases h : o' = .fall
          · simp only [h, if_true]; exact ih st3
          · simp only [h, if_false]; exact .done ho'
        | ncont =>
          refine (hp st2).bind fun o' st3 ho' => ?_
          by_cases h : o' = .fall
          · simp only [h, if_true]; exact ih st3
          · simp only [h, if_false]; exact .done ho'
        | nbrk => exact .done (.inl rfl)
        | nft => exact .done ho
        | exit s => exact .done ho

/-- outcomes of a switch statement: `fall`, or whatever its clause bodies produce except an own `break` -/
theorem switch_all (p : Flow → Prop) (hfall : p .fall) (ρ : Interp σ P) (N : Nat) (susp : Bool)
    (init : Option Simple) (tag : Option CondE) (cases : Cases)
    (hC : ∀ i st, Res.All (fun o => o ≠ Flow.nbrk → p o) (denFrom ρ N susp cases i st)) (st : σ) :
    Res.All p (denS ρ N susp (.switch init tag cases) st) := by
  simp only [denS]
  refine (Res.all_true _).bind fun _ st1 _ => ?_
  have body : ∀ (tv : Option Nat) (st2 : σ), Res.All p
      (match selectCase ρ cases tv 0 st2 with
        | (.error e, st3) => (.panic e st3 : Res Flow σ P)
        | (.ok idx, st3) =>
          match (match idx with | some i => some i | none => defaultIndex cases 0) with
          | none => .done .fall st3
          | some i => (denFrom ρ N susp cases i st3).bind fun o st4 =>
              if o = Flow.nbrk then .done .fall st4 else .done o st4) := by
    intro tv st2
    rcases selectCase ρ cases tv 0 st2 with ⟨_ | idx, st3⟩
    · exact .panic
    · simp only
      split
      · exact .done hfall
      · rename_i i _
        refine (hC i st3).bind fun o st4 ho => ?_
        by_cases hb : o = .nbrk
        · simp only [hb, if_true]; exact .done hfall
        · simp only [hb, if_false]; exact .done (ho hb)
  cases tag with
  | none => exact body none st1
  | some t =>
    simp only
    rcases ρ.tag t.n st1 with ⟨_ | v, st2⟩
    · exact .panic
    · exact body (some v) st2

mutual
  theorem fragS_src (ρ : Interp σ P) (N : Nat) (susp : Bool) :
      ∀ (s : Stmt), fragS s = true → ∀ st, Res.All SrcOut (denS ρ N susp s st)
    | .simple s, _, st => (denSimple_fallOnly ρ susp s st).mono fun o (h : o = Flow.fall) => h ▸ (.inl rfl : SrcOut Flow.fall)
    | .block ss, h, st => by
        simp only [fragS] at h; simp only [denS]; exact fragL_src ρ N susp ss h st
    | .ifs init c thn els, h, st => by
        simp only [fragS, Bool.and_eq_true] at h
        simp only [denS]
        refine (Res.all_true _).bind fun _ st1 _ => ?_
        rcases ρ.cond c.n st1 with ⟨_ | b, st2⟩
        · exact .panic
        · cases b
          · exact fragE_src ρ N susp els h.2 st2
          · exact fragL_src ρ N susp thn h.1.2 st2
    | .for_ init cond post body, h, st => by
        simp only [fragS, Bool.and_eq_true] at h
        simp only [denS]
        refine (Res.all_true _).bind fun _ st1 _ => ?_
        exact loopF_src _ _ _
          (fun st => (denInit_fallOnly ρ susp post st).mono fun o (h : o = Flow.fall) => h ▸ (.inl rfl : SrcOut Flow.fall))
          (fragL_src ρ N susp body h.2) N st1
    | .brk, _, st => .done (.inr (.inl rfl))
    | .cont, _, st => .done (.inr (.inr (.inl rfl)))
    | .rete (.sig .ret), _, st => by
        simp only [denS, evalS, Res.bind]; exact .done (.inr (.inr (.inr rfl)))
    | .rete (.sig .normal), h, _ => by simp [fragS] at h
    | .rete (.sig .brk), h, _ => by simp [fragS] at h
    | .rete (.sig .cont), h, _ => by simp [fragS] at h
    | .rete (.bind _ _), h, _ => by simp [fragS] at h
    | .rete (.delay _), h, _ => by simp [fragS] at h
    | .rete (.combine _ _), h, _ => by simp [fragS] at h
    | .rete (.loop _ _ _), h, _ => by simp [fragS] at h
    | .rete (.start _), h, _ => by simp [fragS] at h
    | .rete (.unknown _), h, _ => by simp [fragS] at h
    | .switch init tag cases, h, st => by
        simp only [fragS, Bool.and_eq_true] at h
        simp only [denS]
        refine (Res.all_true _).bind fun _ st1 _ => ?_
        have body : ∀ (tv : Option Nat) (st2 : σ), Res.All SrcOut
            (match selectCase ρ cases tv 0 st2 with
              | (.error p, st3) => (.panic p st3 : Res Flow σ P)
              | (.ok idx, st3) =>
                match (match idx with | some i => some i | none => defaultIndex cases 0) with
                | none => .done .fall st3
                | some i => (denFrom ρ N susp cases i st3).bind fun o st4 =>
                    if o = .nbrk then .done .fall st4 else .done o st4) := by
          intro tv st2
          rcases selectCase ρ cases tv 0 st2 with ⟨_ | idx, st3⟩
          · exact .panic
          · simp only
            split
            · exact .done (.inl rfl)
            · rename_i i _
              refine (fragC_src ρ N susp cases h.2 i st3).bind fun o st4 ho => ?_
              by_cases hb : o = .nbrk
              · simp only [hb, if_true]; exact .done (.inl rfl)
              · simp only [hb, if_false]; exact .done ho
        cases tag with
        | none => exact body none st1
        | some t =>
          simp only
          rcases ρ.tag t.n st1 with ⟨_ | v, st2⟩
          · exact .panic
          · exact body (some v) st2
    | .fallthrough, h, _ => by simp [fragS] at h
    | .ret, h, _ => by simp [fragS] at h
    | .unknown _, h, _ => by simp [fragS] at h
  theorem fragL_src (ρ : Interp σ P) (N : Nat) (susp : Bool) :
      ∀ (ss : Stmts), fragL ss = true → ∀ st, Res.All SrcOut (denL ρ N susp ss st)
    | .nil, _, st => .done (.inl rfl)
    | .cons s r, h, st => by
        simp only [fragL, Bool.and_eq_true] at h
        simp only [denL]
        refine (fragS_src ρ N susp s h.1 st).bind fun o st' ho => ?_
        by_cases hf : o = .fall
        · simp only [hf, if_true]; exact fragL_src ρ N susp r h.2 st'
        · simp only [hf, if_false]; exact .done ho
  theorem fragE_src (ρ : Interp σ P) (N : Nat) (susp : Bool) :
      ∀ (e : Else), fragE e = true → ∀ st, Res.All SrcOut (denElse ρ N susp e st)
    | .none, _, st => .done (.inl rfl)
    | .els ss, h, st => by simp only [fragE] at h; simp only [denElse]; exact fragL_src ρ N susp ss h st
    | .elif s, h, st => by simp only [fragE] at h; simp only [denElse]; exact fragS_src ρ N susp s h st
  theorem fragC_src (ρ : Interp σ P) (N : Nat) (susp : Bool) :
      ∀ (cs : Cases), fragC cs = true → ∀ (i : Nat) st, Res.All SrcOut (denFrom ρ N susp cs i st)
    | .nil, _, _, st => .done (.inl rfl)
    | .cons _ _ body r, h, 0, st => by
        simp only [fragC, Bool.and_eq_true] at h
        simp only [denFrom]
        refine (fragL_src ρ N susp body h.1 st).bind fun o st' ho => ?_
        by_cases hn : o = .nft
        · rcases ho with ho | ho | ho | ho <;> rw [hn] at ho <;> cases ho
        · simp only [hn, if_false]; exact .done ho
    | .cons _ _ _ r, h, i+1, st => by
        simp only [fragC, Bool.and_eq_true] at h
        simp only [denFrom]
        exact fragC_src ρ N susp r h.2 i st
end

theorem fragS_plain (ρ : Interp σ P) (N : Nat) (susp : Bool) (s : Stmt) (h : fragS s = true) (st : σ) :
    Res.All Plain (denS ρ N susp s st) := (fragS_src ρ N susp s h st).mono fun _ => SrcOut.plain
theorem fragL_plain (ρ : Interp σ P) (N : Nat) (susp : Bool) (ss : Stmts) (h : fragL ss = true) (st : σ) :
    Res.All Plain (denL ρ N susp ss st) := (fragL_src ρ N susp ss h st).mono fun _ => SrcOut.plain
theorem fragE_plain (ρ : Interp σ P) (N : Nat) (susp : Bool) (e : Else) (h : fragE e = true) (st : σ) :
    Res.All Plain (denElse ρ N susp e st) := (fragE_src ρ N susp e h st).mono fun _ => SrcOut.plain

/-! ### no yield reached ⇒ the reading of `Yield` does not matter -/

theorem noY_bind_cases {α β : Type} {r : Res α σ P} {f : α → σ → Res β σ P} (h : Res.NoY (r.bind f)) :
    (∃ o st, r = .done o st ∧ Res.NoY (f o st)) ∨ (∃ p st, r = .panic p st) ∨ r = .oob := by
  cases r with
  | done o st => exact .inl ⟨o, st, rfl, h⟩
  | yield v st r => simp only [Res.bind] at h; cases h
  | panic p st => exact .inr (.inl ⟨p, st, rfl⟩)
  | oob => exact .inr (.inr rfl)

theorem denSimple_noY (ρ : Interp σ P) (s : Simple) (st : σ) (h : Res.NoY (denSimple ρ true s st)) :
    denSimple ρ false s st = denSimple ρ true s st := by
  cases s with
  | yield e =>
    simp only [denSimple] at h ⊢
    generalize evalV ρ e st = ev at h ⊢
    rcases ev with ⟨_ | v, st'⟩
    · rfl
    · simp only [if_true] at h; cases h
  | act n => rfl
  | pact n => rfl
  | bpanic n => rfl
  | def_ n => rfl
  | empty => rfl

theorem denInit_noY (ρ : Interp σ P) (i : Option Simple) (st : σ) (h : Res.NoY (denInit ρ true i st)) :
    denInit ρ false i st = denInit ρ true i st := by
  cases i with
  | none => rfl
  | some s => exact denSimple_noY ρ s st h

theorem loopF_noY (cond : σ → Except P Bool × σ) (postT postF bodyT bodyF : σ → Res Flow σ P)
    (hp : ∀ st, Res.NoY (postT st) → postF st = postT st)
    (hb : ∀ st, Res.NoY (bodyT st) → bodyF st = bodyT st) :
    ∀ n st, Res.NoY (loopF cond postT bodyT n st) → loopF cond postF bodyF n st = loopF cond postT bodyT n st := by
  intro n
  induction n with
  | zero => intro st _; rfl
  | succ n ih =>
    intro st h
    simp only [loopF] at h ⊢
    generalize cond st = cr at h ⊢
    rcases cr with ⟨_ | b, st1⟩
    · rfl
    · cases b
      · rfl
      · simp only at h ⊢
        rcases noY_bind_cases h with ⟨o, st2, hr, hn⟩ | ⟨p, st2, hr⟩ | hr
        · have hbf : bodyF st1 = bodyT st1 := hb st1 (by rw [hr]; exact .done)
          rw [hbf, hr]
          simp only [Res.bind] at hn ⊢
          cases o with
          | fall =>
            simp only at hn ⊢
            rcases noY_bind_cases hn with ⟨o', st3, hr', hn'⟩ | ⟨p, st3, hr'⟩ | hr'
            · rw [hp st2 (by rw [hr']; exact .done), hr']
              simp only [Res.bind] at hn' ⊢
              by_cases hf : o' = .fall
              · simp only [hf, if_true] at hn' ⊢; exact ih st3 hn'
              · simp only [hf, if_false]
            · rw [hp st2 (by rw [hr']; exact .panic), hr']; rfl
            · rw [hp st2 (by rw [hr']; exact .oob), hr']; rfl
          | ncont =>
            simp only at hn ⊢
            rcases noY_bind_cases hn with ⟨o', st3, hr', hn'⟩ | ⟨p, st3, hr'⟩ | hr'
            · rw [hp st2 (by rw [hr']; exact .done), hr']
              simp only [Res.bind] at hn' ⊢
              by_cases hf : o' = .fall
              · simp only [hf, if_true] at hn' ⊢; exact ih st3 hn'
              · simp only [hf, if_false]
            · rw [hp st2 (by rw [hr']; exact .panic), hr']; rfl
            · rw [hp st2 (by rw [hr']; exact .oob), hr']; rfl
          | nbrk => rfl
          | nft => rfl
          | exit s => rfl
        · rw [hb st1 (by rw [hr]; exact .panic), hr]; rfl
        · rw [hb st1 (by rw [hr]; exact .oob), hr]; rfl

mutual
  theorem fragS_noY (ρ : Interp σ P) (N : Nat) :
      ∀ (s : Stmt), fragS s = true → ∀ st, Res.NoY (denS ρ N true s st) →
        denS ρ N false s st = denS ρ N true s st
    | .simple s, _, st, h => denSimple_noY ρ s st h
    | .block ss, hf, st, h => by
        simp only [fragS] at hf; simp only [denS] at h ⊢; exact fragL_noY ρ N ss hf st h
    | .ifs init c thn els, hf, st, h => by
        simp only [fragS, Bool.and_eq_true] at hf
        simp only [denS] at h ⊢
        rcases noY_bind_cases h with ⟨o, st1, hr, hn⟩ | ⟨p, st1, hr⟩ | hr
        · rw [denInit_noY ρ init st (by rw [hr]; exact .done), hr]
          simp only [Res.bind] at hn ⊢
          generalize ρ.cond c.n st1 = cr at hn ⊢
          rcases cr with ⟨_ | b, st2⟩
          · rfl
          · cases b
            · exact fragE_noY ρ N els hf.2 st2 hn
            · exact fragL_noY ρ N thn hf.1.2 st2 hn
        · rw [denInit_noY ρ init st (by rw [hr]; exact .panic), hr]; rfl
        · rw [denInit_noY ρ init st (by rw [hr]; exact .oob), hr]; rfl
    | .for_ init cond post body, hf, st, h => by
        simp only [fragS, Bool.and_eq_true] at hf
        simp only [denS] at h ⊢
        rcases noY_bind_cases h with ⟨o, st1, hr, hn⟩ | ⟨p, st1, hr⟩ | hr
        · rw [denInit_noY ρ init st (by rw [hr]; exact .done), hr]
          simp only [Res.bind] at hn ⊢
          exact loopF_noY _ _ _ _ _ (fun st h => denInit_noY ρ post st h)
            (fun st h => fragL_noY ρ N body hf.2 st h) N st1 hn
        · rw [denInit_noY ρ init st (by rw [hr]; exact .panic), hr]; rfl
        · rw [denInit_noY ρ init st (by rw [hr]; exact .oob), hr]; rfl
    | .brk, _, _, _ => rfl
    | .cont, _, _, _ => rfl
    | .rete _, _, _, _ => rfl
    | .switch init tag cases, hf, st, h => by
        simp only [fragS, Bool.and_eq_true] at hf
        simp only [denS] at h ⊢
        have body : ∀ (tv : Option Nat) (st2 : σ), Res.NoY
            (match selectCase ρ cases tv 0 st2 with
              | (.error p, st3) => (.panic p st3 : Res Flow σ P)
              | (.ok idx, st3) =>
                match (match idx with | some i => some i | none => defaultIndex cases 0) with
                | none => .done .fall st3
                | some i => (denFrom ρ N true cases i st3).bind fun o st4 =>
                    if o = Flow.nbrk then .done .fall st4 else .done o st4) →
            (match selectCase ρ cases tv 0 st2 with
              | (.error p, st3) => (.panic p st3 : Res Flow σ P)
              | (.ok idx, st3) =>
                match (match idx with | some i => some i | none => defaultIndex cases 0) with
                | none => .done .fall st3
                | some i => (denFrom ρ N false cases i st3).bind fun o st4 =>
                    if o = Flow.nbrk then .done .fall st4 else .done o st4) =
            (match selectCase ρ cases tv 0 st2 with
              | (.error p, st3) => (.panic p st3 : Res Flow σ P)
              | (.ok idx, st3) =>
                match (match idx with | some i => some i | none => defaultIndex cases 0) with
                | none => .done .fall st3
                | some i => (denFrom ρ N true cases i st3).bind fun o st4 =>
                    if o = Flow.nbrk then .done .fall st4 else .done o st4) := by
          intro tv st2 hn
          generalize selectCase ρ cases tv 0 st2 = sc at hn ⊢
          rcases sc with ⟨_ | idx, st3⟩
          · rfl
          · simp only at hn ⊢
            split
            · rfl
            · rename_i i hi
              simp only [hi] at hn
              rw [fragC_noY ρ N cases hf.2 i st3 ((Res.NoY.bind_iff.mp hn).1)]
        rcases noY_bind_cases h with ⟨o, st1, hr, hn⟩ | ⟨p, st1, hr⟩ | hr
        · rw [denInit_noY ρ init st (by rw [hr]; exact .done), hr]
          simp only [Res.bind] at hn ⊢
          cases tag with
          | none => exact body none st1 hn
          | some t =>
            simp only at hn ⊢
            generalize ρ.tag t.n st1 = tr at hn ⊢
            rcases tr with ⟨_ | v, st2⟩
            · rfl
            · exact body (some v) st2 hn
        · rw [denInit_noY ρ init st (by rw [hr]; exact .panic), hr]; rfl
        · rw [denInit_noY ρ init st (by rw [hr]; exact .oob), hr]; rfl
    | .fallthrough, h, _, _ => by simp [fragS] at h
    | .ret, h, _, _ => by simp [fragS] at h
    | .unknown _, h, _, _ => by simp [fragS] at h
  theorem fragL_noY (ρ : Interp σ P) (N : Nat) :
      ∀ (ss : Stmts), fragL ss = true → ∀ st, Res.NoY (denL ρ N true ss st) →
        denL ρ N false ss st = denL ρ N true ss st
    | .nil, _, _, _ => rfl
    | .cons s r, hf, st, h => by
        simp only [fragL, Bool.and_eq_true] at hf
        simp only [denL] at h ⊢
        rcases noY_bind_cases h with ⟨o, st1, hr, hn⟩ | ⟨p, st1, hr⟩ | hr
        · rw [fragS_noY ρ N s hf.1 st (by rw [hr]; exact .done), hr]
          simp only [Res.bind] at hn ⊢
          by_cases hfall : o = .fall
          · simp only [hfall, if_true] at hn ⊢; exact fragL_noY ρ N r hf.2 st1 hn
          · simp only [hfall, if_false]
        · rw [fragS_noY ρ N s hf.1 st (by rw [hr]; exact .panic), hr]; rfl
        · rw [fragS_noY ρ N s hf.1 st (by rw [hr]; exact .oob), hr]; rfl
  theorem fragE_noY (ρ : Interp σ P) (N : Nat) :
      ∀ (e : Else), fragE e = true → ∀ st, Res.NoY (denElse ρ N true e st) →
        denElse ρ N false e st = denElse ρ N true e st
    | .none, _, _, _ => rfl
    | .els ss, hf, st, h => by
        simp only [fragE] at hf; simp only [denElse] at h ⊢; exact fragL_noY ρ N ss hf st h
    | .elif s, hf, st, h => by
        simp only [fragE] at hf; simp only [denElse] at h ⊢; exact fragS_noY ρ N s hf st h
  theorem fragC_noY (ρ : Interp σ P) (N : Nat) :
      ∀ (cs : Cases), fragC cs = true → ∀ (i : Nat) st, Res.NoY (denFrom ρ N true cs i st) →
        denFrom ρ N false cs i st = denFrom ρ N true cs i st
    | .nil, _, _, _, _ => rfl
    | .cons _ _ body r, hf, 0, st, h => by
        simp only [fragC, Bool.and_eq_true] at hf
        simp only [denFrom] at h ⊢
        rcases noY_bind_cases h with ⟨o, st1, hr, hn⟩ | ⟨p, st1, hr⟩ | hr
        · rw [fragL_noY ρ N body hf.1 st (by rw [hr]; exact .done), hr]
          simp only [Res.bind] at hn ⊢
          by_cases hft : o = .nft
          · simp only [hft, if_true] at hn ⊢; exact fragC_noY ρ N r hf.2 0 st1 hn
          · simp only [hft, if_false]
        · rw [fragL_noY ρ N body hf.1 st (by rw [hr]; exact .panic), hr]; rfl
        · rw [fragL_noY ρ N body hf.1 st (by rw [hr]; exact .oob), hr]; rfl
    | .cons _ _ _ r, hf, i+1, st, h => by
        simp only [fragC, Bool.and_eq_true] at hf
        simp only [denFrom] at h ⊢
        exact fragC_noY ρ N r hf.2 i st h
end

end GoCo.MG
