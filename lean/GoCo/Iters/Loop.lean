/-
  The loop shape the rewriter generates for every range statement inside a generator and for every
  consumer-side `for v := range g`:
        it := <iterator>; for it.MoveNext() { v := it.Current(); <body> }
  runs the body on exactly the elements the iterator delivers, in order, and - when the body breaks
  or returns - pulls nothing further: the number of MoveNext calls is (elements consumed) + (1 if the
  loop ran to exhaustion).
-/
import GoCo.Iters.Model
set_option autoImplicit false

namespace GoCo.Iters
variable {S A B : Type}

/-- the generated loop; `body` returns the new accumulator and whether to go on (false = break / return);
    also counts the MoveNext calls made -/
def runLoop (it : Iter S A) (body : B → A → B × Bool) : Nat → S → B → Nat → B × Nat
  | 0, _, acc, pulls => (acc, pulls)
  | fuel+1, s, acc, pulls =>
    match it.moveNext s with
    | (false, _) => (acc, pulls + 1)
    | (true, s') =>
      match body acc (it.current s') with
      | (acc', true) => runLoop it body fuel s' acc' (pulls + 1)
      | (acc', false) => (acc', pulls + 1)

/-- fold over a list with early exit; returns the accumulator and the number of elements visited -/
def foldUntil (body : B → A → B × Bool) : List A → B → Nat → B × Nat × Bool
  | [], acc, n => (acc, n, true)
  | a :: rest, acc, n =>
    match body acc a with
    | (acc', true) => foldUntil body rest acc' (n + 1)
    | (acc', false) => (acc', n + 1, false)

theorem drain_stop (it : Iter S A) (f : Nat) (s s' : S) (h : it.moveNext s = (false, s')) :
    drain it (f + 1) s = [] := by simp [drain, h]

theorem drain_go (it : Iter S A) (f : Nat) (s s' : S) (h : it.moveNext s = (true, s')) :
    drain it (f + 1) s = it.current s' :: drain it f s' := by simp [drain, h]

theorem runLoop_stop (it : Iter S A) (body : B → A → B × Bool) (f : Nat) (s s' : S) (acc : B) (pulls : Nat)
    (h : it.moveNext s = (false, s')) : runLoop it body (f + 1) s acc pulls = (acc, pulls + 1) := by
  simp [runLoop, h]

theorem runLoop_go_on (it : Iter S A) (body : B → A → B × Bool) (f : Nat) (s s' : S) (acc acc' : B) (pulls : Nat)
    (h : it.moveNext s = (true, s')) (hb : body acc (it.current s') = (acc', true)) :
    runLoop it body (f + 1) s acc pulls = runLoop it body f s' acc' (pulls + 1) := by
  simp [runLoop, h, hb]

theorem runLoop_go_break (it : Iter S A) (body : B → A → B × Bool) (f : Nat) (s s' : S) (acc acc' : B) (pulls : Nat)
    (h : it.moveNext s = (true, s')) (hb : body acc (it.current s') = (acc', false)) :
    runLoop it body (f + 1) s acc pulls = (acc', pulls + 1) := by
  simp [runLoop, h, hb]

theorem foldUntil_cons_on (body : B → A → B × Bool) (a : A) (rest : List A) (acc acc' : B) (n : Nat)
    (hb : body acc a = (acc', true)) : foldUntil body (a :: rest) acc n = foldUntil body rest acc' (n + 1) := by
  simp [foldUntil, hb]

theorem foldUntil_cons_break (body : B → A → B × Bool) (a : A) (rest : List A) (acc acc' : B) (n : Nat)
    (hb : body acc a = (acc', false)) : foldUntil body (a :: rest) acc n = (acc', n + 1, false) := by
  simp [foldUntil, hb]

theorem foldUntil_shift (body : B → A → B × Bool) :
    ∀ (l : List A) (a : B) (n : Nat),
      foldUntil body l a (n + 1)
        = ((foldUntil body l a n).1, (foldUntil body l a n).2.1 + 1, (foldUntil body l a n).2.2) := by
  intro l
  induction l with
  | nil => intro a n; rfl
  | cons x xs ih =>
    intro a n
    simp only [foldUntil]
    cases body a x with
    | mk a' g => cases g <;> simp [ih]

/-- **the lowered loop = iterating over what the iterator delivers**, with early exit, and it never
    pulls beyond the element at which the body stopped -/
theorem runLoop_eq_foldUntil (it : Iter S A) (body : B → A → B × Bool) (fuel : Nat) :
    ∀ (s : S) (acc : B) (pulls : Nat), (drain it fuel s).length < fuel →
      runLoop it body fuel s acc pulls =
        ((foldUntil body (drain it fuel s) acc 0).1,
          pulls + (foldUntil body (drain it fuel s) acc 0).2.1
            + (if (foldUntil body (drain it fuel s) acc 0).2.2 then 1 else 0)) := by
  induction fuel with
  | zero => intro s acc pulls h; simp at h
  | succ fuel ih =>
    intro s acc pulls h
    cases hm : it.moveNext s with
    | mk b s' =>
      cases b with
      | false => rw [runLoop_stop it body fuel s s' acc pulls hm, drain_stop it fuel s s' hm]; simp [foldUntil]
      | true =>
        rw [drain_go it fuel s s' hm] at h ⊢
        simp only [List.length_cons] at h
        cases hb : body acc (it.current s') with
        | mk acc' go =>
          cases go with
          | false =>
            rw [runLoop_go_break it body fuel s s' acc acc' pulls hm hb, foldUntil_cons_break body _ _ acc acc' 0 hb]
            simp
          | true =>
            rw [runLoop_go_on it body fuel s s' acc acc' pulls hm hb, foldUntil_cons_on body _ _ acc acc' 0 hb,
              ih s' acc' (pulls + 1) (by omega), foldUntil_shift]
            simp only
            congr 1
            omega

end GoCo.Iters
