/-
  Go's `range` over a string, as the language specification defines it: the string's bytes are decoded
  as UTF-8; an invalid sequence yields U+FFFD (65533) and advances one byte; the key is the byte offset.
  `decodeRune` mirrors unicode/utf8.DecodeRuneInString (which the repaired stringIter calls); it is
  validated against Go exhaustively on short strings over a hostile alphabet by correspondence K3.
-/
set_option autoImplicit false

namespace GoCo.Iters

def runeError : Nat := 65533

def isCont (b : Nat) : Bool := 0x80 ≤ b && b ≤ 0xBF

def lo3 (b0 : Nat) : Nat := if b0 = 0xE0 then 0xA0 else 0x80
def hi3 (b0 : Nat) : Nat := if b0 = 0xED then 0x9F else 0xBF
def lo4 (b0 : Nat) : Nat := if b0 = 0xF0 then 0x90 else 0x80
def hi4 (b0 : Nat) : Nat := if b0 = 0xF4 then 0x8F else 0xBF

/-- (rune, width) of the first rune of a non-empty byte list; width ≥ 1 -/
def decodeRune : List Nat → Nat × Nat
  | [] => (runeError, 1)
  | b0 :: rest =>
    if b0 < 0x80 then (b0, 1)
    else if 0xC2 ≤ b0 && b0 ≤ 0xDF then
      match rest with
      | b1 :: _ => if isCont b1 then ((b0 % 32) * 64 + b1 % 64, 2) else (runeError, 1)
      | _ => (runeError, 1)
    else if 0xE0 ≤ b0 && b0 ≤ 0xEF then
      match rest with
      | b1 :: b2 :: _ =>
        if lo3 b0 ≤ b1 && b1 ≤ hi3 b0 && isCont b2 then ((b0 % 16) * 4096 + (b1 % 64) * 64 + b2 % 64, 3)
        else (runeError, 1)
      | _ => (runeError, 1)
    else if 0xF0 ≤ b0 && b0 ≤ 0xF4 then
      match rest with
      | b1 :: b2 :: b3 :: _ =>
        if lo4 b0 ≤ b1 && b1 ≤ hi4 b0 && isCont b2 && isCont b3 then
          ((b0 % 8) * 262144 + (b1 % 64) * 4096 + (b2 % 64) * 64 + b3 % 64, 4)
        else (runeError, 1)
      | _ => (runeError, 1)
    else (runeError, 1)

theorem decodeRune_width_pos (bs : List Nat) : 1 ≤ (decodeRune bs).2 := by
  unfold decodeRune
  repeat' split
  all_goals simp

/-- the specification: `for i, r := range s` as a list of (byte offset, rune); `fuel` ≥ length -/
def rangeStrFrom : Nat → List Nat → Nat → List (Nat × Nat)
  | 0, _, _ => []
  | _, [], _ => []
  | fuel+1, bs, off =>
    let d := decodeRune bs
    (off, d.1) :: rangeStrFrom fuel (bs.drop d.2) (off + d.2)

def rangeStr (bs : List Nat) : List (Nat × Nat) := rangeStrFrom bs.length bs 0

end GoCo.Iters
