/-
  Model of seq/iter.go (after the repairs recorded in known_findings.json) and the theorems
  "iterator = Go range" for every input.
    integerIter{n, i}:  MoveNext: if i+1 >= n {false} else {i++; true};  Current: Key = i          (start i = -1)
    stringIter{str, idx, next, cur}: MoveNext: if next >= len {false} else decode at next, idx = next, next += w
    sliceIter{slice, idx}: MoveNext: idx++; idx < len(slice);  Current: (idx, slice[idx])     (live element read)
  Slices: `sliceIter_eq_range` for every length, memory and loop body (`drainSlice` / `rangeSlice`).
  Maps and channels: the runtime's own iteration is a parameter (see `wrapIter`).
-/
import GoCo.Iters.Utf8
set_option autoImplicit false

namespace GoCo.Iters

/-! ### the iterator protocol, generically: drain an iterator, `fuel` bounding the number of advances -/

structure Iter (S A : Type) where
  moveNext : S → Bool × S
  current : S → A

def drain {S A : Type} (it : Iter S A) : Nat → S → List A
  | 0, _ => []
  | fuel+1, s =>
    match it.moveNext s with
    | (false, _) => []
    | (true, s') => it.current s' :: drain it fuel s'

/-! ### integers -/

structure IntSt where
  n : Int
  next : Int   -- the next value, never beyond n
  cur : Int

def intIter : Iter IntSt Int where
  moveNext s := if s.next ≥ s.n then (false, s) else (true, { s with cur := s.next, next := s.next + 1 })
  current s := s.cur

def newIntIter (n : Int) : IntSt := ⟨n, 0, 0⟩

/-- Go: `for i := range n` visits 0 … n-1, nothing for n ≤ 0 -/
def rangeInt (n : Int) : List Int := (List.range n.toNat).map Int.ofNat

theorem drain_int_stop (n i c : Int) (f : Nat) (h : i ≥ n) : drain intIter (f + 1) ⟨n, i, c⟩ = [] := by
  simp [drain, intIter, h]

theorem drain_int_go (n i c : Int) (f : Nat) (h : ¬ i ≥ n) :
    drain intIter (f + 1) ⟨n, i, c⟩ = i :: drain intIter f ⟨n, i + 1, i⟩ := by
  simp [drain, intIter, h]

theorem drain_int_from (n : Int) (fuel : Nat) :
    ∀ (i c : Int), (n - i).toNat ≤ fuel →
      drain intIter fuel ⟨n, i, c⟩ = (List.range (n - i).toNat).map fun (j : Nat) => i + (j : Int) := by
  induction fuel with
  | zero =>
    intro i c hf
    have : (n - i).toNat = 0 := by omega
    simp [drain, this]
  | succ fuel ih =>
    intro i c hf
    by_cases hlast : i ≥ n
    · have : (n - i).toNat = 0 := by omega
      rw [drain_int_stop n i c fuel hlast, this]; rfl
    · rw [drain_int_go n i c fuel hlast, ih (i + 1) i (by omega)]
      have hlen : (n - i).toNat = (n - (i + 1)).toNat + 1 := by omega
      rw [hlen, List.range_succ_eq_map]
      simp only [List.map_cons, List.map_map]
      congr 1
      · simp
      · apply List.map_congr_left; intro j _; simp; omega

/-- **integerIter = range over an integer**, for every n (also n ≤ 0).  The Go iterator is generic over the
    integer types; its counter never exceeds n, so it can not overflow the type and unbounded integers model
    every instance. -/
theorem intIter_eq_range (n : Int) : drain intIter (n.toNat + 1) (newIntIter n) = rangeInt n := by
  have := drain_int_from n (n.toNat + 1) 0 0 (by omega)
  rw [newIntIter, this]
  have e : (n - 0).toNat = n.toNat := by omega
  rw [e, rangeInt]
  apply List.map_congr_left; intro j _; simp

/-! ### strings -/

structure StrSt where
  str : List Nat
  idx : Nat
  next : Nat
  cur : Nat

def strIter : Iter StrSt (Nat × Nat) where
  moveNext s :=
    if s.next ≥ s.str.length then (false, s)
    else
      let d := decodeRune (s.str.drop s.next)
      (true, { s with idx := s.next, cur := d.1, next := s.next + d.2 })
  current s := (s.idx, s.cur)

def newStrIter (bs : List Nat) : StrSt := ⟨bs, 0, 0, 0⟩

theorem drain_str_stop (s : StrSt) (f : Nat) (h : s.next ≥ s.str.length) : drain strIter (f + 1) s = [] := by
  simp [drain, strIter, h]

theorem drain_str_go (s : StrSt) (f : Nat) (h : ¬ s.next ≥ s.str.length) :
    drain strIter (f + 1) s =
      (s.next, (decodeRune (s.str.drop s.next)).1) ::
        drain strIter f ⟨s.str, s.next, s.next + (decodeRune (s.str.drop s.next)).2, (decodeRune (s.str.drop s.next)).1⟩ := by
  simp [drain, strIter, h]

theorem rangeStrFrom_nil (fuel off : Nat) : rangeStrFrom fuel [] off = [] := by
  cases fuel <;> rfl

theorem drain_str_from (bs : List Nat) (fuel : Nat) :
    ∀ (k idx cur : Nat), bs.length - k ≤ fuel →
      drain strIter fuel ⟨bs, idx, k, cur⟩ = rangeStrFrom fuel (bs.drop k) k := by
  induction fuel with
  | zero => intro k idx cur _; simp [drain, rangeStrFrom]
  | succ fuel ih =>
    intro k idx cur hf
    by_cases hend : k ≥ bs.length
    · rw [drain_str_stop _ fuel hend, List.drop_eq_nil_of_le hend, rangeStrFrom_nil]
    · rw [drain_str_go _ fuel hend]
      have hw := decodeRune_width_pos (bs.drop k)
      cases hd : bs.drop k with
      | nil => rw [List.drop_eq_nil_iff] at hd; omega
      | cons b rest =>
        have hstep : rangeStrFrom (fuel + 1) (b :: rest) k =
            (k, (decodeRune (b :: rest)).1) ::
              rangeStrFrom fuel ((b :: rest).drop (decodeRune (b :: rest)).2) (k + (decodeRune (b :: rest)).2) := rfl
        rw [hstep, ← hd, List.drop_drop]
        rw [ih (k + (decodeRune (bs.drop k)).2) k _ (by omega)]

/-- **stringIter = range over string**: byte offsets and U+FFFD decoding, for every byte string -/
theorem strIter_eq_range (bs : List Nat) : drain strIter bs.length (newStrIter bs) = rangeStr bs := by
  have := drain_str_from bs bs.length 0 0 0 (by omega)
  simpa [newStrIter, rangeStr] using this

/-! ### slices: length snapshot, live element reads, a loop body that mutates memory between advances

  `seq.sliceIter{slice, idx}` copies the slice *header*: the backing array stays shared with the program,
  the length is the one at creation.  `M` is the program's memory, `read m i` the element `i` of the
  backing array the header points to (`none`: outside it), `body j` what the loop body does to memory
  in iteration `j` (element writes, appends in place or reallocating, reslicing of the program's own
  slice variable - anything).  `none` in an output position is Go's index-out-of-range panic. -/

structure SliceSt where
  len : Nat      -- len(s.slice), fixed at NewSliceIter
  idx : Int      -- starts at -1
deriving Repr

/-- `s.idx++; return s.idx < len(s.slice)` -/
def sliceMoveNext (s : SliceSt) : Bool × SliceSt :=
  let s' := { s with idx := s.idx + 1 }
  (decide (s'.idx < (s.len : Int)), s')

/-- `pair{Key: s.idx, Val: s.slice[s.idx]}`: bounds-checked against the header, read live -/
def sliceCurrent {M V : Type} (read : M → Nat → Option V) (s : SliceSt) (m : M) : Option (Nat × V) :=
  if 0 ≤ s.idx ∧ s.idx < (s.len : Int) then (read m s.idx.toNat).map (fun v => (s.idx.toNat, v)) else none

def newSliceIter (n : Nat) : SliceSt := ⟨n, -1⟩

/-- the lowered loop `for it.MoveNext() { k, v := it.Current(); body }` over a slice iterator -/
def drainSlice {M V : Type} (read : M → Nat → Option V) (body : Nat → M → M) :
    Nat → SliceSt → M → List (Option (Nat × V))
  | 0, _, _ => []
  | fuel+1, s, m =>
    match sliceMoveNext s with
    | (false, _) => []
    | (true, s') => sliceCurrent read s' m :: drainSlice read body fuel s' (body s'.idx.toNat m)

/-- Go: `for i, v := range sl` evaluates `sl` once (`n` = its length then), runs exactly `n` iterations and
    reads element `i` of that backing array at the start of iteration `i` -/
def rangeSliceFrom {M V : Type} (read : M → Nat → Option V) (body : Nat → M → M) :
    Nat → Nat → M → List (Option (Nat × V))
  | 0, _, _ => []
  | k+1, i, m => (read m i).map (fun v => (i, v)) :: rangeSliceFrom read body k (i+1) (body i m)

def rangeSlice {M V : Type} (read : M → Nat → Option V) (body : Nat → M → M) (n : Nat) (m : M) :=
  rangeSliceFrom read body n 0 m

theorem drainSlice_from {M V : Type} (read : M → Nat → Option V) (body : Nat → M → M) (n : Nat) :
    ∀ (k i : Nat) (m : M), i + k = n →
      drainSlice read body (k+1) ⟨n, (i : Int) - 1⟩ m = rangeSliceFrom read body k i m := by
  intro k
  induction k with
  | zero =>
    intro i m h
    have hi : ¬ ((i : Int) - 1 + 1 < (n : Int)) := by omega
    simp only [drainSlice, sliceMoveNext, rangeSliceFrom, hi, decide_false]
  | succ k ih =>
    intro i m h
    have hi : ((i : Int) - 1 + 1 < (n : Int)) := by omega
    have e1 : (i : Int) - 1 + 1 = (i : Int) := by omega
    have e2 : ((i : Int)).toNat = i := by omega
    have hc : (0 : Int) ≤ (i : Int) ∧ (i : Int) < (n : Int) := by omega
    have ih' := ih (i+1) (body i m) (by omega)
    have e3 : (((i + 1 : Nat) : Int) - 1) = (i : Int) := by omega
    rw [e3] at ih'
    rw [drainSlice]
    simp only [sliceMoveNext, decide_true, e1, rangeSliceFrom, sliceCurrent, hc, and_self, if_true, e2]
    rw [ih']

/-- the slice iterator under the lowered loop = Go's range over the slice, for every length, every memory
    and every loop body -/
theorem sliceIter_eq_range {M V : Type} (read : M → Nat → Option V) (body : Nat → M → M) (n : Nat) (m : M) :
    drainSlice read body (n+1) (newSliceIter n) m = rangeSlice read body n m := by
  have h := drainSlice_from read body n n 0 m (by omega)
  simpa [newSliceIter, rangeSlice] using h

/-- exactly `n` iterations, whatever the body does to the program's slice variable (append, truncate) -/
theorem rangeSliceFrom_length {M V : Type} (read : M → Nat → Option V) (body : Nat → M → M) :
    ∀ (k i : Nat) (m : M), (rangeSliceFrom read body k i m).length = k := by
  intro k; induction k with
  | zero => intro i m; rfl
  | succ k ih => intro i m; simp only [rangeSliceFrom, List.length_cons, ih]

/-- once exhausted, the slice iterator stays exhausted -/
theorem slice_exhaustion_permanent (s : SliceSt) (h : (s.len : Int) ≤ s.idx) :
    (sliceMoveNext s).1 = false ∧ ((sliceMoveNext s).2.len : Int) ≤ (sliceMoveNext s).2.idx := by
  simp only [sliceMoveNext, decide_eq_false_iff_not]; omega

/-- no out-of-range read as long as the backing array is at least as long as the header says and the
    body keeps `read` defined there (a Go array never shrinks) -/
theorem rangeSliceFrom_no_panic {M V : Type} (read : M → Nat → Option V) (body : Nat → M → M) (n : Nat)
    (Inv : M → Prop) (hread : ∀ m i, Inv m → i < n → (read m i).isSome) (hbody : ∀ j m, Inv m → Inv (body j m)) :
    ∀ (k i : Nat) (m : M), i + k = n → Inv m → ∀ x ∈ rangeSliceFrom read body k i m, x.isSome := by
  intro k; induction k with
  | zero => intro i m _ _ x hx; simp [rangeSliceFrom] at hx
  | succ k ih =>
    intro i m h hm x hx
    simp only [rangeSliceFrom, List.mem_cons] at hx
    rcases hx with rfl | hx
    · have := hread m i hm (by omega)
      cases hr : read m i with
      | none => simp [hr] at this
      | some v => simp
    · exact ih (i+1) (body i m) (by omega) (hbody i m hm) x hx

/-! #### the lowered loop with a body that sees the element, mutates memory and may `break` -/

/-- `it := NewSliceIter(sl); for it.MoveNext() { e := it.Current(); body }`: final memory and the number of
    MoveNext calls.  The body gets the iteration index, the pair read by `Current` and the memory; `true` = break. -/
def loopSlice {M V : Type} (read : M → Nat → Option V) (body : Nat → Option (Nat × V) → M → M × Bool) :
    Nat → SliceSt → M → Nat → M × Nat
  | 0, _, m, p => (m, p)
  | fuel+1, s, m, p =>
    match sliceMoveNext s with
    | (false, _) => (m, p + 1)
    | (true, s') =>
      match body s'.idx.toNat (sliceCurrent read s' m) m with
      | (m', true) => (m', p + 1)
      | (m', false) => loopSlice read body fuel s' m' (p + 1)

/-- Go's `for i, v := range sl { body }` with `k` elements left from index `i`: final memory and the number of
    iterations started, plus one when the loop ran to exhaustion (the advance that finds the end) -/
def goRangeSlice {M V : Type} (read : M → Nat → Option V) (body : Nat → Option (Nat × V) → M → M × Bool) :
    Nat → Nat → M → Nat → M × Nat
  | 0, _, m, p => (m, p + 1)
  | k+1, i, m, p =>
    match body i ((read m i).map (fun v => (i, v))) m with
    | (m', true) => (m', p + 1)
    | (m', false) => goRangeSlice read body k (i+1) m' (p + 1)

theorem loopSlice_from {M V : Type} (read : M → Nat → Option V) (body : Nat → Option (Nat × V) → M → M × Bool) (n : Nat) :
    ∀ (k i : Nat) (m : M) (p : Nat), i + k = n →
      loopSlice read body (k+1) ⟨n, (i : Int) - 1⟩ m p = goRangeSlice read body k i m p := by
  intro k
  induction k with
  | zero =>
    intro i m p h
    have hi : ¬ ((i : Int) - 1 + 1 < (n : Int)) := by omega
    simp only [loopSlice, sliceMoveNext, goRangeSlice, hi, decide_false]
  | succ k ih =>
    intro i m p h
    have hi : ((i : Int) - 1 + 1 < (n : Int)) := by omega
    have e1 : (i : Int) - 1 + 1 = (i : Int) := by omega
    have e2 : ((i : Int)).toNat = i := by omega
    have hc : (0 : Int) ≤ (i : Int) ∧ (i : Int) < (n : Int) := by omega
    have e3 : (((i + 1 : Nat) : Int) - 1) = (i : Int) := by omega
    rw [loopSlice]
    simp only [sliceMoveNext, decide_true, e1, goRangeSlice, sliceCurrent, hc, and_self, if_true, e2]
    cases hb : body i (Option.map (fun v => (i, v)) (read m i)) m with
    | mk m' b =>
      cases b with
      | true => rfl
      | false =>
        have ih' := ih (i+1) m' (p+1) (by omega)
        rw [e3] at ih'
        exact ih'

/-- the lowered loop over a slice = Go's range over the slice, for every length, memory and body - a body that
    sees each (index, element) pair, writes, appends, reslices, and may break; the same final memory, and
    MoveNext called exactly (iterations started) + (1 if the loop ran to exhaustion) times -/
theorem loopSlice_eq_goRange {M V : Type} (read : M → Nat → Option V) (body : Nat → Option (Nat × V) → M → M × Bool)
    (n : Nat) (m : M) :
    loopSlice read body (n+1) (newSliceIter n) m 0 = goRangeSlice read body n 0 m 0 := by
  have h := loopSlice_from read body n n 0 m 0 (by omega)
  simpa [newSliceIter] using h

/-- Go's `for i, v := range a` over an ARRAY value `a` (two iteration variables): the range expression is
    evaluated once and COPIED, so `v` is read from the array as it was when the loop started (`m0`), whatever
    the body writes meanwhile -/
def goRangeArray {M V : Type} (read : M → Nat → Option V) (body : Nat → Option (Nat × V) → M → M × Bool) (m0 : M) :
    Nat → Nat → M → Nat → M × Nat
  | 0, _, m, p => (m, p + 1)
  | k+1, i, m, p =>
    match body i ((read m0 i).map (fun v => (i, v))) m with
    | (m', true) => (m', p + 1)
    | (m', false) => goRangeArray read body m0 k (i+1) m' (p + 1)

/-- if the body never changes what `read` returns (no write to the array), copy and alias agree -/
theorem goRangeArray_eq_slice_of_readonly {M V : Type} (read : M → Nat → Option V)
    (body : Nat → Option (Nat × V) → M → M × Bool) (m0 : M)
    (hro : ∀ j e m, read (body j e m).1 = read m) :
    ∀ (k i : Nat) (m : M) (p : Nat), read m = read m0 →
      goRangeArray read body m0 k i m p = goRangeSlice read body k i m p := by
  intro k; induction k with
  | zero => intro i m p _; rfl
  | succ k ih =>
    intro i m p h
    simp only [goRangeArray, goRangeSlice, h]
    have h2 := hro i (Option.map (fun v => (i, v)) (read m0 i)) m
    cases hb : body i (Option.map (fun v => (i, v)) (read m0 i)) m with
    | mk m' b =>
      cases b with
      | true => rfl
      | false =>
        simp only
        apply ih
        rw [hb] at h2
        exact h2.trans h

/-! #### the mutation scripts of correspondence K3 as a memory: the iterator's backing array, the program's
    own slice variable (length, whether it still points to that array) -/

structure ScriptMem where
  arr : List Nat      -- the backing array the iterator's header points to (length = cap at creation)
  ulen : Nat          -- len of the program's slice variable
  shared : Bool       -- the program's variable still points to `arr`
deriving Repr

inductive ScriptOp
  | set (k v : Nat)
  | append (v : Nat)
  | truncate (k : Nat)
deriving Repr

def ScriptMem.apply (m : ScriptMem) : ScriptOp → ScriptMem
  | .set k v => if k < m.ulen ∧ m.shared then { m with arr := m.arr.set k v } else m
  | .append v =>
    if m.shared then
      if m.ulen < m.arr.length then { m with arr := m.arr.set m.ulen v, ulen := m.ulen + 1 }
      else { m with shared := false, ulen := m.ulen + 1 }    -- reallocation: the program moves to a copy
    else { m with ulen := m.ulen + 1 }
  | .truncate k => if k ≤ m.ulen then { m with ulen := k } else m

def scriptBody (ops : List (Nat × ScriptOp)) (j : Nat) (m : ScriptMem) : ScriptMem :=
  (ops.filter (fun o => o.1 == j)).foldl (fun m o => m.apply o.2) m

def scriptRead (m : ScriptMem) (i : Nat) : Option Nat := m.arr[i]?

def mkScriptMem (init : List Nat) (cap : Nat) : ScriptMem :=
  ⟨init ++ List.replicate (cap - init.length) 0, init.length, true⟩

theorem ScriptMem.apply_length (m : ScriptMem) (o : ScriptOp) : (m.apply o).arr.length = m.arr.length := by
  cases o with
  | set k v => simp only [ScriptMem.apply]; split <;> simp
  | append v =>
    simp only [ScriptMem.apply]
    split
    · split <;> simp
    · simp
  | truncate k => simp only [ScriptMem.apply]; split <;> simp

theorem scriptBody_length (ops : List (Nat × ScriptOp)) (j : Nat) (m : ScriptMem) :
    (scriptBody ops j m).arr.length = m.arr.length := by
  unfold scriptBody
  generalize ops.filter (fun o => o.1 == j) = l
  induction l generalizing m with
  | nil => rfl
  | cons o l ih => simp only [List.foldl_cons]; rw [ih, ScriptMem.apply_length]

/-- under every mutation script the iterator delivers what native range delivers, and nothing panics -/
theorem script_no_panic (ops : List (Nat × ScriptOp)) (init : List Nat) (cap : Nat) :
    ∀ x ∈ rangeSlice scriptRead (scriptBody ops) init.length (mkScriptMem init cap), x.isSome := by
  apply rangeSliceFrom_no_panic scriptRead (scriptBody ops) init.length (fun m => init.length ≤ m.arr.length)
  · intro m i hm hi
    have : i < m.arr.length := by omega
    simp [scriptRead, this]
  · intro j m hm; rw [scriptBody_length]; exact hm
  · omega
  · simp [mkScriptMem]

/-! ### maps and channels: the Go runtime's own iteration is a parameter -/

/-- an iterator that forwards an abstract runtime iteration `next` and converts what it delivers -/
def wrapIter {R A B : Type} (next : R → Option (A × R)) (conv : A → B) (dflt : A) : Iter (R × A) B where
  moveNext s := match next s.1 with
    | none => (false, s)
    | some (a, r') => (true, (r', a))
  current s := conv s.2

/-- what the runtime delivers, in its order -/
def runtimeSeq {R A : Type} (next : R → Option (A × R)) : Nat → R → List A
  | 0, _ => []
  | fuel+1, r => match next r with
    | none => []
    | some (a, r') => a :: runtimeSeq next fuel r'

/-- the wrapper delivers every runtime step exactly once, in order, converted -/
theorem wrapIter_eq_runtime {R A B : Type} (next : R → Option (A × R)) (conv : A → B) (dflt : A)
    (fuel : Nat) (r : R) (a0 : A) :
    drain (wrapIter next conv dflt) fuel (r, a0) = (runtimeSeq next fuel r).map conv := by
  induction fuel generalizing r a0 with
  | zero => rfl
  | succ fuel ih =>
    simp only [drain, wrapIter, runtimeSeq]
    cases next r with
    | none => rfl
    | some p => obtain ⟨a, r'⟩ := p; simp only [List.map_cons]; rw [← ih r' a]; rfl

end GoCo.Iters

namespace GoCo.Iters

/-- with fuel ≥ the number of bytes left, more fuel changes nothing -/
theorem rangeStrFrom_mono (bs : List Nat) :
    ∀ (fuel off extra : Nat), bs.length ≤ fuel → rangeStrFrom (fuel + extra) bs off = rangeStrFrom fuel bs off := by
  intro fuel
  induction fuel generalizing bs with
  | zero =>
    intro off extra h
    have : bs = [] := List.length_eq_zero_iff.mp (by omega)
    subst this
    simp [rangeStrFrom_nil]
  | succ fuel ih =>
    intro off extra h
    cases bs with
    | nil => simp [rangeStrFrom_nil]
    | cons b rest =>
      have e : fuel + 1 + extra = (fuel + extra) + 1 := by omega
      rw [e]
      simp only [rangeStrFrom]
      congr 1
      apply ih
      have := decodeRune_width_pos (b :: rest)
      simp only [List.length_drop, List.length_cons] at h ⊢
      omega

theorem rangeStrFrom_fuel (bs : List Nat) : rangeStrFrom (bs.length + 1) bs 0 = rangeStrFrom bs.length bs 0 :=
  rangeStrFrom_mono bs bs.length 0 1 (Nat.le_refl _)

theorem rangeStrFrom_length_le : ∀ (fuel : Nat) (bs : List Nat) (off : Nat), (rangeStrFrom fuel bs off).length ≤ fuel := by
  intro fuel
  induction fuel with
  | zero => intro bs off; simp [rangeStrFrom]
  | succ fuel ih =>
    intro bs off
    cases bs with
    | nil => simp [rangeStrFrom]
    | cons b rest => simp only [rangeStrFrom, List.length_cons]; have := ih ((b :: rest).drop (decodeRune (b :: rest)).2) (off + (decodeRune (b :: rest)).2); omega

theorem rangeStr_length_le (bs : List Nat) : (rangeStr bs).length ≤ bs.length := rangeStrFrom_length_le _ _ _

end GoCo.Iters
