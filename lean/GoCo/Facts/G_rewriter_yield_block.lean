-- one fact module per source file: the file's declarations are the ones the model was written against
import GoCo.Facts.Extracted
import GoCo.Facts.Expect

namespace GoCo.Facts

theorem facts_rewriter_yield_block :
    Extracted.h_rewriter_yield_block__type_stmtKind = Expect.h_rewriter_yield_block__type_stmtKind ∧
    Extracted.h_rewriter_yield_block__const_kindTrival = Expect.h_rewriter_yield_block__const_kindTrival ∧
    Extracted.h_rewriter_yield_block__type_block = Expect.h_rewriter_yield_block__type_block ∧
    Extracted.h_rewriter_yield_block__mkBlock = Expect.h_rewriter_yield_block__mkBlock ∧
    Extracted.h_rewriter_yield_block___block_len = Expect.h_rewriter_yield_block___block_len ∧
    Extracted.h_rewriter_yield_block___block_markCombined = Expect.h_rewriter_yield_block___block_markCombined ∧
    Extracted.h_rewriter_yield_block___block_push = Expect.h_rewriter_yield_block___block_push ∧
    Extracted.h_rewriter_yield_block___block_pushReturn = Expect.h_rewriter_yield_block___block_pushReturn ∧
    Extracted.h_rewriter_yield_block___block_pop = Expect.h_rewriter_yield_block___block_pop ∧
    Extracted.h_rewriter_yield_block___block_lastKind = Expect.h_rewriter_yield_block___block_lastKind ∧
    Extracted.h_rewriter_yield_block___block_lastStmt = Expect.h_rewriter_yield_block___block_lastStmt ∧
    Extracted.h_rewriter_yield_block___block_last = Expect.h_rewriter_yield_block___block_last ∧
    Extracted.h_rewriter_yield_block___block_mayContainsYield = Expect.h_rewriter_yield_block___block_mayContainsYield ∧
    Extracted.h_rewriter_yield_block___block_combineRequired = Expect.h_rewriter_yield_block___block_combineRequired ∧
    Extracted.h_rewriter_yield_block___block_mustNoYield = Expect.h_rewriter_yield_block___block_mustNoYield ∧
    Extracted.h_rewriter_yield_block___block_returnNormalRequired = Expect.h_rewriter_yield_block___block_returnNormalRequired ∧
    Extracted.n_rewriter_yield_block = Expect.n_rewriter_yield_block := by decide

end GoCo.Facts
