-- one fact module per source file: the file's declarations are the ones the model was written against
import GoCo.Facts.Extracted
import GoCo.Facts.Expect

namespace GoCo.Facts

theorem facts_rewriter_yieldfrom_rewrite :
    Extracted.h_rewriter_yieldfrom_rewrite__type_yieldFromRewriter = Expect.h_rewriter_yieldfrom_rewrite__type_yieldFromRewriter ∧
    Extracted.h_rewriter_yieldfrom_rewrite__mkYieldFromRewriter = Expect.h_rewriter_yieldfrom_rewrite__mkYieldFromRewriter ∧
    Extracted.h_rewriter_yieldfrom_rewrite___yieldFromRewriter_rewrite = Expect.h_rewriter_yieldfrom_rewrite___yieldFromRewriter_rewrite ∧
    Extracted.h_rewriter_yieldfrom_rewrite___yieldFromRewriter_rewriteYieldFrom = Expect.h_rewriter_yieldfrom_rewrite___yieldFromRewriter_rewriteYieldFrom ∧
    Extracted.h_rewriter_yieldfrom_rewrite___yieldFromRewriter_checkYieldCall = Expect.h_rewriter_yieldfrom_rewrite___yieldFromRewriter_checkYieldCall ∧
    Extracted.h_rewriter_yieldfrom_rewrite___yieldFromRewriter_rangeIter = Expect.h_rewriter_yieldfrom_rewrite___yieldFromRewriter_rangeIter ∧
    Extracted.h_rewriter_yieldfrom_rewrite___yieldFromRewriter_assert = Expect.h_rewriter_yieldfrom_rewrite___yieldFromRewriter_assert ∧
    Extracted.n_rewriter_yieldfrom_rewrite = Expect.n_rewriter_yieldfrom_rewrite := by decide

end GoCo.Facts
