-- one fact module per source file: the file's declarations are the ones the model was written against
import GoCo.Facts.Extracted
import GoCo.Facts.Expect

namespace GoCo.Facts

theorem facts_seq_seq :
    Extracted.h_seq_seq__type_contType = Expect.h_seq_seq__type_contType ∧
    Extracted.h_seq_seq__const_kNormal = Expect.h_seq_seq__const_kNormal ∧
    Extracted.h_seq_seq__type_step = Expect.h_seq_seq__type_step ∧
    Extracted.h_seq_seq__type_Seq = Expect.h_seq_seq__type_Seq ∧
    Extracted.h_seq_seq__zero = Expect.h_seq_seq__zero ∧
    Extracted.h_seq_seq__mkNextRecv = Expect.h_seq_seq__mkNextRecv ∧
    Extracted.h_seq_seq__mkNext = Expect.h_seq_seq__mkNext ∧
    Extracted.h_seq_seq__Start = Expect.h_seq_seq__Start ∧
    Extracted.h_seq_seq__Bind = Expect.h_seq_seq__Bind ∧
    Extracted.h_seq_seq__BindRecv = Expect.h_seq_seq__BindRecv ∧
    Extracted.h_seq_seq__For = Expect.h_seq_seq__For ∧
    Extracted.h_seq_seq__While = Expect.h_seq_seq__While ∧
    Extracted.h_seq_seq__Loop = Expect.h_seq_seq__Loop ∧
    Extracted.h_seq_seq__Delay = Expect.h_seq_seq__Delay ∧
    Extracted.h_seq_seq__Combine = Expect.h_seq_seq__Combine ∧
    Extracted.h_seq_seq__seqOfK = Expect.h_seq_seq__seqOfK ∧
    Extracted.h_seq_seq__Normal = Expect.h_seq_seq__Normal ∧
    Extracted.h_seq_seq__Break = Expect.h_seq_seq__Break ∧
    Extracted.h_seq_seq__Continue = Expect.h_seq_seq__Continue ∧
    Extracted.h_seq_seq__Return = Expect.h_seq_seq__Return ∧
    Extracted.h_seq_seq__ReturnValue = Expect.h_seq_seq__ReturnValue ∧
    Extracted.h_seq_seq__type_generator = Expect.h_seq_seq__type_generator ∧
    Extracted.h_seq_seq__newGenerator = Expect.h_seq_seq__newGenerator ∧
    Extracted.h_seq_seq___generator_V__Result = Expect.h_seq_seq___generator_V__Result ∧
    Extracted.h_seq_seq___generator_V__Current = Expect.h_seq_seq___generator_V__Current ∧
    Extracted.h_seq_seq___generator_V__MoveNext = Expect.h_seq_seq___generator_V__MoveNext ∧
    Extracted.h_seq_seq___generator_V__Send = Expect.h_seq_seq___generator_V__Send ∧
    Extracted.h_seq_seq___generator_V__moveNext = Expect.h_seq_seq___generator_V__moveNext ∧
    Extracted.n_seq_seq = Expect.n_seq_seq := by decide

end GoCo.Facts
