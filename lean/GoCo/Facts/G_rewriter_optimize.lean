-- one fact module per source file: the file's declarations are the ones the model was written against
import GoCo.Facts.Extracted
import GoCo.Facts.Expect

namespace GoCo.Facts

theorem facts_rewriter_optimize :
    Extracted.h_rewriter_optimize__type_optimizer = Expect.h_rewriter_optimize__type_optimizer ∧
    Extracted.h_rewriter_optimize__mkOptimizer = Expect.h_rewriter_optimize__mkOptimizer ∧
    Extracted.h_rewriter_optimize___optimizer_optimizeAllFiles = Expect.h_rewriter_optimize___optimizer_optimizeAllFiles ∧
    Extracted.h_rewriter_optimize___optimizer_optimizeImports = Expect.h_rewriter_optimize___optimizer_optimizeImports ∧
    Extracted.h_rewriter_optimize___optimizer_optimizeDelayCall = Expect.h_rewriter_optimize___optimizer_optimizeDelayCall ∧
    Extracted.h_rewriter_optimize___optimizer_optimizeBindCall = Expect.h_rewriter_optimize___optimizer_optimizeBindCall ∧
    Extracted.h_rewriter_optimize___optimizer_etaReduction = Expect.h_rewriter_optimize___optimizer_etaReduction ∧
    Extracted.n_rewriter_optimize = Expect.n_rewriter_optimize := by decide

end GoCo.Facts
