-- one fact module per source file: the file's declarations are the ones the model was written against
import GoCo.Facts.Extracted
import GoCo.Facts.Expect

namespace GoCo.Facts

theorem facts_rewriter_const :
    Extracted.h_rewriter_const__const_cstIterVar = Expect.h_rewriter_const__const_cstIterVar ∧
    Extracted.h_rewriter_const__const_cstAPIReturnType = Expect.h_rewriter_const__const_cstAPIReturnType ∧
    Extracted.h_rewriter_const__const_importSeqName = Expect.h_rewriter_const__const_importSeqName ∧
    Extracted.n_rewriter_const = Expect.n_rewriter_const := by decide

end GoCo.Facts
