-- one fact module per source file: the file's declarations are the ones the model was written against
import GoCo.Facts.Extracted
import GoCo.Facts.Expect

namespace GoCo.Facts

theorem facts_rewriter_rewrite :
    Extracted.h_rewriter_rewrite__type_rewriter = Expect.h_rewriter_rewrite__type_rewriter ∧
    Extracted.h_rewriter_rewrite__mkRewriter = Expect.h_rewriter_rewrite__mkRewriter ∧
    Extracted.h_rewriter_rewrite___rewriter_isYieldCall = Expect.h_rewriter_rewrite___rewriter_isYieldCall ∧
    Extracted.h_rewriter_rewrite___rewriter_isYieldFromCall = Expect.h_rewriter_rewrite___rewriter_isYieldFromCall ∧
    Extracted.h_rewriter_rewrite___rewriter_isCallStmtOf = Expect.h_rewriter_rewrite___rewriter_isCallStmtOf ∧
    Extracted.h_rewriter_rewrite___rewriter_isYieldFuncDecl = Expect.h_rewriter_rewrite___rewriter_isYieldFuncDecl ∧
    Extracted.h_rewriter_rewrite___rewriter_isYieldFuncLit = Expect.h_rewriter_rewrite___rewriter_isYieldFuncLit ∧
    Extracted.h_rewriter_rewrite___rewriter_yieldFuncRetParamTy = Expect.h_rewriter_rewrite___rewriter_yieldFuncRetParamTy ∧
    Extracted.h_rewriter_rewrite___rewriter_isIterator = Expect.h_rewriter_rewrite___rewriter_isIterator ∧
    Extracted.h_rewriter_rewrite___rewriter_containsYield = Expect.h_rewriter_rewrite___rewriter_containsYield ∧
    Extracted.h_rewriter_rewrite___rewriter_assert = Expect.h_rewriter_rewrite___rewriter_assert ∧
    Extracted.h_rewriter_rewrite___rewriter_rewriteAllFiles = Expect.h_rewriter_rewrite___rewriter_rewriteAllFiles ∧
    Extracted.h_rewriter_rewrite___rewriter_rewriteFile = Expect.h_rewriter_rewrite___rewriter_rewriteFile ∧
    Extracted.h_rewriter_rewrite___rewriter_mkRejectYieldValue = Expect.h_rewriter_rewrite___rewriter_mkRejectYieldValue ∧
    Extracted.h_rewriter_rewrite___rewriter_collectYieldFunc = Expect.h_rewriter_rewrite___rewriter_collectYieldFunc ∧
    Extracted.h_rewriter_rewrite___rewriter_attachComment = Expect.h_rewriter_rewrite___rewriter_attachComment ∧
    Extracted.h_rewriter_rewrite___rewriter_rewriteForRanges = Expect.h_rewriter_rewrite___rewriter_rewriteForRanges ∧
    Extracted.h_rewriter_rewrite___rewriter_rewriteForRange = Expect.h_rewriter_rewrite___rewriter_rewriteForRange ∧
    Extracted.h_rewriter_rewrite___rewriter_rewriteIter = Expect.h_rewriter_rewrite___rewriter_rewriteIter ∧
    Extracted.n_rewriter_rewrite = Expect.n_rewriter_rewrite := by decide

end GoCo.Facts
