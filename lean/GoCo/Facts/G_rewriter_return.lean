-- one fact module per source file: the file's declarations are the ones the model was written against
import GoCo.Facts.Extracted
import GoCo.Facts.Expect

namespace GoCo.Facts

theorem facts_rewriter_return :
    Extracted.h_rewriter_return__type_terminationChecker = Expect.h_rewriter_return__type_terminationChecker ∧
    Extracted.h_rewriter_return__mkTerminationChecker = Expect.h_rewriter_return__mkTerminationChecker ∧
    Extracted.h_rewriter_return___terminationChecker_isTerminating = Expect.h_rewriter_return___terminationChecker_isTerminating ∧
    Extracted.h_rewriter_return___terminationChecker_isTerminatingList = Expect.h_rewriter_return___terminationChecker_isTerminatingList ∧
    Extracted.h_rewriter_return___terminationChecker_isTerminatingSwitch = Expect.h_rewriter_return___terminationChecker_isTerminatingSwitch ∧
    Extracted.h_rewriter_return__hasBreak = Expect.h_rewriter_return__hasBreak ∧
    Extracted.h_rewriter_return__hasBreakList = Expect.h_rewriter_return__hasBreakList ∧
    Extracted.n_rewriter_return = Expect.n_rewriter_return := by decide

end GoCo.Facts
