-- one fact module per source file: the file's declarations are the ones the model was written against
import GoCo.Facts.Extracted
import GoCo.Facts.Expect

namespace GoCo.Facts

theorem facts_cmd_cogen_main :
    Extracted.h_cmd_cogen_main__main = Expect.h_cmd_cogen_main__main ∧
    Extracted.n_cmd_cogen_main = Expect.n_cmd_cogen_main := by decide

end GoCo.Facts
