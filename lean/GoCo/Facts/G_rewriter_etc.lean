-- one fact module per source file: the file's declarations are the ones the model was written against
import GoCo.Facts.Extracted
import GoCo.Facts.Expect

namespace GoCo.Facts

theorem facts_rewriter_etc :
    Extracted.h_rewriter_etc__var_runningWithGoTest = Expect.h_rewriter_etc__var_runningWithGoTest ∧
    Extracted.h_rewriter_etc__var_X = Expect.h_rewriter_etc__var_X ∧
    Extracted.h_rewriter_etc__type_factor = Expect.h_rewriter_etc__type_factor ∧
    Extracted.h_rewriter_etc__factor_Ident = Expect.h_rewriter_etc__factor_Ident ∧
    Extracted.h_rewriter_etc__factor_Index = Expect.h_rewriter_etc__factor_Index ∧
    Extracted.h_rewriter_etc__factor_Indices = Expect.h_rewriter_etc__factor_Indices ∧
    Extracted.h_rewriter_etc__factor_Select = Expect.h_rewriter_etc__factor_Select ∧
    Extracted.h_rewriter_etc__factor_PkgSelect = Expect.h_rewriter_etc__factor_PkgSelect ∧
    Extracted.h_rewriter_etc__factor_TypeField = Expect.h_rewriter_etc__factor_TypeField ∧
    Extracted.h_rewriter_etc__factor_Fields = Expect.h_rewriter_etc__factor_Fields ∧
    Extracted.h_rewriter_etc__factor_Call = Expect.h_rewriter_etc__factor_Call ∧
    Extracted.h_rewriter_etc__factor_Assign = Expect.h_rewriter_etc__factor_Assign ∧
    Extracted.h_rewriter_etc__factor_Assign2 = Expect.h_rewriter_etc__factor_Assign2 ∧
    Extracted.h_rewriter_etc__factor_Define = Expect.h_rewriter_etc__factor_Define ∧
    Extracted.h_rewriter_etc__factor_IgnoreExpr = Expect.h_rewriter_etc__factor_IgnoreExpr ∧
    Extracted.h_rewriter_etc__factor_Return = Expect.h_rewriter_etc__factor_Return ∧
    Extracted.h_rewriter_etc__factor_IfStmt = Expect.h_rewriter_etc__factor_IfStmt ∧
    Extracted.h_rewriter_etc__factor_Case = Expect.h_rewriter_etc__factor_Case ∧
    Extracted.h_rewriter_etc__factor_Switch = Expect.h_rewriter_etc__factor_Switch ∧
    Extracted.h_rewriter_etc__factor_SwitchStmt = Expect.h_rewriter_etc__factor_SwitchStmt ∧
    Extracted.h_rewriter_etc__factor_TypeSwitchStmt = Expect.h_rewriter_etc__factor_TypeSwitchStmt ∧
    Extracted.h_rewriter_etc__factor_ForStmt = Expect.h_rewriter_etc__factor_ForStmt ∧
    Extracted.h_rewriter_etc__factor_Block = Expect.h_rewriter_etc__factor_Block ∧
    Extracted.h_rewriter_etc__factor_Block1 = Expect.h_rewriter_etc__factor_Block1 ∧
    Extracted.h_rewriter_etc__factor_Stmt = Expect.h_rewriter_etc__factor_Stmt ∧
    Extracted.h_rewriter_etc__factor_Comment = Expect.h_rewriter_etc__factor_Comment ∧
    Extracted.h_rewriter_etc__factor_Comments = Expect.h_rewriter_etc__factor_Comments ∧
    Extracted.h_rewriter_etc__factor_AppendComment = Expect.h_rewriter_etc__factor_AppendComment ∧
    Extracted.h_rewriter_etc__isUnderline = Expect.h_rewriter_etc__isUnderline ∧
    Extracted.h_rewriter_etc__isDefineStmt = Expect.h_rewriter_etc__isDefineStmt ∧
    Extracted.h_rewriter_etc__identicalWithoutTypeParam = Expect.h_rewriter_etc__identicalWithoutTypeParam ∧
    Extracted.h_rewriter_etc__type_stack = Expect.h_rewriter_etc__type_stack ∧
    Extracted.h_rewriter_etc__mkStack = Expect.h_rewriter_etc__mkStack ∧
    Extracted.h_rewriter_etc___stack_T__push = Expect.h_rewriter_etc___stack_T__push ∧
    Extracted.h_rewriter_etc___stack_T__pop = Expect.h_rewriter_etc___stack_T__pop ∧
    Extracted.h_rewriter_etc___stack_T__top = Expect.h_rewriter_etc___stack_T__top ∧
    Extracted.h_rewriter_etc___stack_T__len = Expect.h_rewriter_etc___stack_T__len ∧
    Extracted.h_rewriter_etc__isNil = Expect.h_rewriter_etc__isNil ∧
    Extracted.h_rewriter_etc__instanceof = Expect.h_rewriter_etc__instanceof ∧
    Extracted.h_rewriter_etc__mustMkDir = Expect.h_rewriter_etc__mustMkDir ∧
    Extracted.h_rewriter_etc__panicIf = Expect.h_rewriter_etc__panicIf ∧
    Extracted.h_rewriter_etc__assert = Expect.h_rewriter_etc__assert ∧
    Extracted.n_rewriter_etc = Expect.n_rewriter_etc := by decide

end GoCo.Facts
