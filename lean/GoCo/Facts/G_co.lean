-- one fact module per source file: the file's declarations are the ones the model was written against
import GoCo.Facts.Extracted
import GoCo.Facts.Expect

namespace GoCo.Facts

theorem facts_co :
    Extracted.h_co__type_Iter = Expect.h_co__type_Iter ∧
    Extracted.h_co__Iter_V__MoveNext = Expect.h_co__Iter_V__MoveNext ∧
    Extracted.h_co__Iter_V__Current = Expect.h_co__Iter_V__Current ∧
    Extracted.h_co__Yield = Expect.h_co__Yield ∧
    Extracted.h_co__YieldFrom = Expect.h_co__YieldFrom ∧
    Extracted.n_co = Expect.n_co := by decide

end GoCo.Facts
