-- one fact module per source file: the file's declarations are the ones the model was written against
import GoCo.Facts.Extracted
import GoCo.Facts.Expect

namespace GoCo.Facts

theorem facts_rewriter_range :
    Extracted.h_rewriter_range___yieldRewriter_gensym = Expect.h_rewriter_range___yieldRewriter_gensym ∧
    Extracted.h_rewriter_range___yieldRewriter_ignoreKeyVal = Expect.h_rewriter_range___yieldRewriter_ignoreKeyVal ∧
    Extracted.h_rewriter_range___yieldRewriter_rewriteRanges = Expect.h_rewriter_range___yieldRewriter_rewriteRanges ∧
    Extracted.h_rewriter_range___yieldRewriter_rewriteRangeToForIter = Expect.h_rewriter_range___yieldRewriter_rewriteRangeToForIter ∧
    Extracted.n_rewriter_range = Expect.n_rewriter_range := by decide

end GoCo.Facts
