-- one fact module per source file: the file's declarations are the ones the model was written against
import GoCo.Facts.Extracted
import GoCo.Facts.Expect

namespace GoCo.Facts

theorem facts_rewriter_compile :
    Extracted.h_rewriter_compile__const_fileComment = Expect.h_rewriter_compile__const_fileComment ∧
    Extracted.h_rewriter_compile__type_FilePrinter = Expect.h_rewriter_compile__type_FilePrinter ∧
    Extracted.h_rewriter_compile__Compile = Expect.h_rewriter_compile__Compile ∧
    Extracted.h_rewriter_compile__type_Option = Expect.h_rewriter_compile__type_Option ∧
    Extracted.h_rewriter_compile__WithFileSuffix = Expect.h_rewriter_compile__WithFileSuffix ∧
    Extracted.h_rewriter_compile__WithBuildTag = Expect.h_rewriter_compile__WithBuildTag ∧
    Extracted.h_rewriter_compile__const_defaultFileSuffix = Expect.h_rewriter_compile__const_defaultFileSuffix ∧
    Extracted.h_rewriter_compile__GoGen = Expect.h_rewriter_compile__GoGen ∧
    Extracted.h_rewriter_compile__resetLog = Expect.h_rewriter_compile__resetLog ∧
    Extracted.n_rewriter_compile = Expect.n_rewriter_compile := by decide

end GoCo.Facts
