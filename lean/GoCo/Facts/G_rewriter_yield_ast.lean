-- one fact module per source file: the file's declarations are the ones the model was written against
import GoCo.Facts.Extracted
import GoCo.Facts.Expect

namespace GoCo.Facts

theorem facts_rewriter_yield_ast :
    Extracted.h_rewriter_yield_ast__type_yieldAst = Expect.h_rewriter_yield_ast__type_yieldAst ∧
    Extracted.h_rewriter_yield_ast__mkYieldAst = Expect.h_rewriter_yield_ast__mkYieldAst ∧
    Extracted.h_rewriter_yield_ast___yieldAst_SeqSelect = Expect.h_rewriter_yield_ast___yieldAst_SeqSelect ∧
    Extracted.h_rewriter_yield_ast___yieldAst_SeqIndex = Expect.h_rewriter_yield_ast___yieldAst_SeqIndex ∧
    Extracted.h_rewriter_yield_ast___yieldAst_SeqFun = Expect.h_rewriter_yield_ast___yieldAst_SeqFun ∧
    Extracted.h_rewriter_yield_ast___yieldAst_SeqType = Expect.h_rewriter_yield_ast___yieldAst_SeqType ∧
    Extracted.h_rewriter_yield_ast___yieldAst_SeqCall = Expect.h_rewriter_yield_ast___yieldAst_SeqCall ∧
    Extracted.h_rewriter_yield_ast___yieldAst_Thunk = Expect.h_rewriter_yield_ast___yieldAst_Thunk ∧
    Extracted.h_rewriter_yield_ast___yieldAst_CallStart = Expect.h_rewriter_yield_ast___yieldAst_CallStart ∧
    Extracted.h_rewriter_yield_ast___yieldAst_CallNormal = Expect.h_rewriter_yield_ast___yieldAst_CallNormal ∧
    Extracted.h_rewriter_yield_ast___yieldAst_CallReturn = Expect.h_rewriter_yield_ast___yieldAst_CallReturn ∧
    Extracted.h_rewriter_yield_ast___yieldAst_CallBreak = Expect.h_rewriter_yield_ast___yieldAst_CallBreak ∧
    Extracted.h_rewriter_yield_ast___yieldAst_CallContinue = Expect.h_rewriter_yield_ast___yieldAst_CallContinue ∧
    Extracted.h_rewriter_yield_ast___yieldAst_CallDelay = Expect.h_rewriter_yield_ast___yieldAst_CallDelay ∧
    Extracted.h_rewriter_yield_ast___yieldAst_CallBind = Expect.h_rewriter_yield_ast___yieldAst_CallBind ∧
    Extracted.h_rewriter_yield_ast___yieldAst_CallCombine = Expect.h_rewriter_yield_ast___yieldAst_CallCombine ∧
    Extracted.h_rewriter_yield_ast___yieldAst_CallFor = Expect.h_rewriter_yield_ast___yieldAst_CallFor ∧
    Extracted.h_rewriter_yield_ast___yieldAst_ForCondFun = Expect.h_rewriter_yield_ast___yieldAst_ForCondFun ∧
    Extracted.h_rewriter_yield_ast___yieldAst_ForPostFun = Expect.h_rewriter_yield_ast___yieldAst_ForPostFun ∧
    Extracted.n_rewriter_yield_ast = Expect.n_rewriter_yield_ast := by decide

end GoCo.Facts
