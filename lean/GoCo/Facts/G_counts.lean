-- one fact module per source file: the file's declarations are the ones the model was written against
import GoCo.Facts.Extracted
import GoCo.Facts.Expect

namespace GoCo.Facts

theorem facts_counts :
    Extracted.c_package_vars_seq = Expect.c_package_vars_seq ∧
    Extracted.c_go_stmts_seq = Expect.c_go_stmts_seq ∧
    Extracted.c_recover_calls_seq = Expect.c_recover_calls_seq ∧
    Extracted.c_sync_imports_seq = Expect.c_sync_imports_seq ∧
    Extracted.c_package_vars_rewriter = Expect.c_package_vars_rewriter ∧
    Extracted.c_go_stmts_rewriter = Expect.c_go_stmts_rewriter := by decide

end GoCo.Facts
