-- one fact module per source file: the file's declarations are the ones the model was written against
import GoCo.Facts.Extracted
import GoCo.Facts.Expect

namespace GoCo.Facts

theorem facts_seq_iter :
    Extracted.h_seq_iter__type_pair = Expect.h_seq_iter__type_pair ∧
    Extracted.h_seq_iter__type_integer = Expect.h_seq_iter__type_integer ∧
    Extracted.h_seq_iter__NewIntegerIter = Expect.h_seq_iter__NewIntegerIter ∧
    Extracted.h_seq_iter__NewStringIter = Expect.h_seq_iter__NewStringIter ∧
    Extracted.h_seq_iter__NewSliceIter = Expect.h_seq_iter__NewSliceIter ∧
    Extracted.h_seq_iter__NewMapIter = Expect.h_seq_iter__NewMapIter ∧
    Extracted.h_seq_iter__NewChanIter = Expect.h_seq_iter__NewChanIter ∧
    Extracted.h_seq_iter__type_integerIter = Expect.h_seq_iter__type_integerIter ∧
    Extracted.h_seq_iter___integerIter_N__MoveNext = Expect.h_seq_iter___integerIter_N__MoveNext ∧
    Extracted.h_seq_iter___integerIter_N__Current = Expect.h_seq_iter___integerIter_N__Current ∧
    Extracted.h_seq_iter__type_stringIter = Expect.h_seq_iter__type_stringIter ∧
    Extracted.h_seq_iter___stringIter_MoveNext = Expect.h_seq_iter___stringIter_MoveNext ∧
    Extracted.h_seq_iter___stringIter_Current = Expect.h_seq_iter___stringIter_Current ∧
    Extracted.h_seq_iter__type_sliceIter = Expect.h_seq_iter__type_sliceIter ∧
    Extracted.h_seq_iter___sliceIter_V__MoveNext = Expect.h_seq_iter___sliceIter_V__MoveNext ∧
    Extracted.h_seq_iter___sliceIter_V__Current = Expect.h_seq_iter___sliceIter_V__Current ∧
    Extracted.h_seq_iter__type_mapIter = Expect.h_seq_iter__type_mapIter ∧
    Extracted.h_seq_iter___mapIter_K__V__MoveNext = Expect.h_seq_iter___mapIter_K__V__MoveNext ∧
    Extracted.h_seq_iter___mapIter_K__V__Current = Expect.h_seq_iter___mapIter_K__V__Current ∧
    Extracted.h_seq_iter__type_chanIter = Expect.h_seq_iter__type_chanIter ∧
    Extracted.h_seq_iter___chanIter_V__MoveNext = Expect.h_seq_iter___chanIter_V__MoveNext ∧
    Extracted.h_seq_iter___chanIter_V__Current = Expect.h_seq_iter___chanIter_V__Current ∧
    Extracted.n_seq_iter = Expect.n_seq_iter := by decide

end GoCo.Facts
