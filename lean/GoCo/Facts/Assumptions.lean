-- what the runtime models assume about the seq package beyond the text of its declarations:
-- no package-level variable, no goroutine, no recover, no sync/atomic - i.e. no state shared between
-- iterators and no background activity (C02, C14, C18)
import GoCo.Facts.Extracted

namespace GoCo.Facts

theorem facts_seq_no_shared_state :
    Extracted.c_package_vars_seq = 0 ∧ Extracted.c_go_stmts_seq = 0 ∧
    Extracted.c_recover_calls_seq = 0 ∧ Extracted.c_sync_imports_seq = 0 := by decide

end GoCo.Facts
