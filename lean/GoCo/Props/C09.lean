/-
  C09 - Iterator protocol: Current is stable, exhaustion is permanent, Send/Result work.

  Full statement, proved without guard: for every term, every store and **every history** of
  MoveNext / Current / Send / Result calls, the generator object of seq.go (model `Gen` over the machine)
  answers exactly as the abstract iterator `AbsGen` over the reference resumption tree
  (`C09_histories`).  The clauses of the property are then facts about `AbsGen`:
  `current_pure`, `current_after_advance`, `current_zero_before_first`, `exhaustion_permanent`,
  `send_autostart`, `send_resumes_with_value`, `result_after_completion`.
-/
import GoCo.Runtime.Gen
import GoCo.Runtime.Concrete
set_option autoImplicit false

namespace GoCo.C09
open GoCo
variable {σ V P : Type} [Inhabited V]

theorem C09_histories (N : Nat) (t : Term σ V P) (ops : List (Op V)) (st : σ) :
    ∃ d', Rel N d' (absRun (AbsGen.start N t) st ops).1 ∧
      ∃ fuel, ∀ extra, genRun N (fuel + extra) (Gen.start t) st ops
        = some (d', (absRun (AbsGen.start N t) st ops).2) :=
  genRun_refines N ops _ _ (rel_start N t) st

/-- the same from any reachable state of the pair (generator object, abstract iterator) -/
theorem C09_histories_from (N : Nat) (d : Gen σ V P) (a : AbsGen σ V P) (h : Rel N d a)
    (ops : List (Op V)) (st : σ) :
    ∃ d', Rel N d' (absRun a st ops).1 ∧
      ∃ fuel, ∀ extra, genRun N (fuel + extra) d st ops = some (d', (absRun a st ops).2) :=
  genRun_refines N ops d a h st

/-! ### clauses, on the abstract iterator -/

/-- Current has no effect: neither on the iterator nor on the store -/
theorem current_pure (a : AbsGen σ V P) (st : σ) :
    absStep a .current st = (a, st, .val a.current) := rfl

/-- Result has no effect -/
theorem result_pure (a : AbsGen σ V P) (st : σ) :
    absStep a .result st = (a, st, .val a.result) := rfl

/-- before the first advance Current is the zero value -/
theorem current_zero_before_first (N : Nat) (t : Term σ V P) : (AbsGen.start N t).current = default := rfl

/-- a successful MoveNext makes Current the delivered value: the value of the `yield` node reached -/
theorem current_after_advance (a : AbsGen σ V P) (r : V → σ → Res σ V P) (st : σ)
    (hr : a.rest = some r) (v : V) (st' : σ) (r' : V → σ → Res σ V P)
    (hy : r default st = .yield v st' r') :
    absStep a .moveNext st =
      ({ started := true, rest := some r', current := v, result := a.result }, st', .bool true) := by
  simp [absStep, AbsGen.advance, hr, hy, moveObs]

/-- when the body completes, MoveNext reports false, Current becomes zero, Result the return value -/
theorem result_after_completion (a : AbsGen σ V P) (r : V → σ → Res σ V P) (st : σ)
    (hr : a.rest = some r) (s : Sig) (v : V) (st' : σ) (hd : r default st = .done s v st') :
    absStep a .moveNext st =
      ({ started := true, rest := none, current := default, result := v }, st', .bool false) := by
  simp [absStep, AbsGen.advance, hr, hd, moveObs]

def Exhausted (a : AbsGen σ V P) : Prop := a.rest = none

/-- an advance that reports false leaves the iterator exhausted -/
theorem false_means_exhausted (a : AbsGen σ V P) (st : σ) (a' : AbsGen σ V P) (st' : σ)
    (h : absStep a .moveNext st = (a', st', .bool false)) : Exhausted a' := by
  simp only [absStep, AbsGen.advance] at h
  cases hr : a.rest with
  | none => simp [hr, moveObs] at h; rw [← h.1]; simp [Exhausted, hr]
  | some r =>
    simp only [hr] at h
    cases hres : r default st <;> simp [hres, moveObs] at h
    rw [← h.1]; rfl

/-- exhaustion is permanent: every later operation leaves the store untouched (no generator code
    runs), every advance reports false, Current is stable -/
theorem exhaustion_permanent (a : AbsGen σ V P) (h : Exhausted a) (op : Op V) (st : σ) :
    Exhausted (absStep a op st).1 ∧ (absStep a op st).2.1 = st ∧
      (absStep a op st).1.current = a.current ∧ (absStep a op st).1.result = a.result ∧
      (op = .moveNext → (absStep a op st).2.2 = .bool false) ∧
      (∀ v, op = .send v → (absStep a op st).2.2 = .sent default false) := by
  unfold Exhausted at h
  cases op with
  | current => simp [absStep, Exhausted, h]
  | result => simp [absStep, Exhausted, h]
  | moveNext => simp [absStep, AbsGen.advance, Exhausted, h, moveObs]
  | send v =>
    by_cases hs : a.started = true
    · simp [absStep, AbsGen.advance, Exhausted, h, sendObs, hs]
    · simp [absStep, AbsGen.advance, Exhausted, h, hs]

theorem exhaustion_permanent_history (ops : List (Op V)) :
    ∀ (a : AbsGen σ V P), Exhausted a → ∀ st,
      Exhausted (absRun a st ops).1 ∧ (absRun a st ops).2.1 = st := by
  induction ops with
  | nil => intro a h st; exact ⟨h, rfl⟩
  | cons op ops ih =>
    intro a h st
    have e := exhaustion_permanent a h op st
    have := ih _ e.1 (absStep a op st).2.1
    simp only [absRun]
    exact ⟨this.1, by rw [this.2, e.2.1]⟩

/-- Send on a started iterator suspended at a yield resumes it with `v` as the value of the pending
    yield and returns the next yielded value -/
theorem send_resumes_with_value (a : AbsGen σ V P) (hs : a.started = true) (r : V → σ → Res σ V P)
    (hr : a.rest = some r) (v w : V) (st st' : σ) (r' : V → σ → Res σ V P)
    (hy : r v st = .yield w st' r') :
    absStep a (.send v) st = ({ a with rest := some r', current := w }, st', .sent w true) := by
  simp [absStep, AbsGen.advance, hs, hr, hy, sendObs]

/-- Send on an unstarted iterator first advances it to its first yield (as MoveNext would), then
    resumes it with `v` -/
theorem send_autostart (a : AbsGen σ V P) (hs : a.started = false) (v : V) (st : σ)
    (a1 : AbsGen σ V P) (st1 : σ)
    (h1 : absStep a .moveNext st = (a1, st1, .bool true)) :
    absStep a (.send v) st = absStep a1 (.send v) st1 := by
  simp only [absStep] at h1 ⊢
  simp only [hs, Bool.false_eq_true, if_false]
  cases hadv : AbsGen.advance { a with started := true } default st with
  | mk ra sta =>
    rw [hadv] at h1
    cases ra <;> simp [moveObs] at h1
    obtain ⟨rfl, rfl⟩ := h1
    rename_i a1
    have hst : a1.started = true := by
      simp only [AbsGen.advance] at hadv
      split at hadv
      · simp at hadv
      · split at hadv <;> simp at hadv
        rw [← hadv.1]
    simp [hst]

/-! ### non-vacuity: a generator echoing received values, driven by a mixed history -/

def echo : CTerm :=
  .bind (.const 1) ⟨1, [.recvTo 0], none⟩
    (.bind (.cell 0) ⟨2, [.recvTo 1], none⟩ (.retv (.cell 1)))

example : (absRun (AbsGen.start 10 (build echo {})) ({} : Store)
      [.current, .send 5, .current, .send 6, .moveNext, .current, .result]).2.2
    = [.val 0, .sent 5 true, .val 5, .sent 0 false, .bool false, .val 0, .val 6] := by decide

end GoCo.C09
