/-
  C01 - Compiled generators yield exactly the source's coroutine sequence.

  Full statement (`C01_full`): for every generator body `p` of the mini-Go grammar, every interpretation
  `ρ` of its atoms (= every argument steering the branches), every store and every loop budget `N`:
      compile p = ok [return Start(e)]  →  running the constructed `e` = the source body as a coroutine
  as resumption trees: same yields in the same order and number, same effects between them, same end,
  and for infinite generators agreement on every finite prefix (equality at every `N`).

  * `C01_partial` (= `compile_correct_partial`): PROVED for every body inside `InFragment` - simple
    statements, blocks, if / else-if chains, expression switches (tagged or tag-less, with or without an
    init statement, yields in any clause), three-clause / condition-only / infinite for loops with yields
    anywhere (initialiser, body, post), break, continue, return - all nestings, all `ρ`, `N`, stores.
    The guard excludes exactly: `fallthrough`, a yield in an if initialiser (both rejected by the compiler),
    `continue` targeting a loop whose post statement yields (finding D6) and `break` targeting a switch that
    contains a yield (finding D7).
  * `C01_full` is FALSE of the tree under verification: `C01_cex_continue_yielding_post` (finding D6) and
    `C01_cex_break_in_yielding_switch` (finding D7) are kernel-checked counterexamples, replayed on the
    real compiler by the check.
-/
import GoCo.Proofs.CompileCorrect
import GoCo.Compile.VM
set_option autoImplicit false

namespace GoCo.C01
open GoCo GoCo.MG
variable {σ P : Type}

/-- running a compiled body: construct the iterator (`evalS` of Start's argument), then run it -/
def runCompiled (ρ : Interp σ P) (N : Nat) (e : SExp) (st : σ) : MG.Res Sig σ P :=
  match evalS ρ N e st with
  | (.error x, st') => .panic x st'
  | (.ok run, st') => run st'

/-- the property at full strength -/
def C01_full : Prop :=
  ∀ (σ P : Type) (ρ : Interp σ P) (N : Nat) (p t : Stmts), compile currentQuirks p = .ok t →
    ∀ e, t = .cons (.rete (.start e)) .nil →
      ∀ st, runCompiled ρ N e st = closed (srcSem ρ N p st)

/-- **proved**: the full statement under the guard `InFragment` -/
theorem C01_partial (ρ : Interp σ P) (N : Nat) (q : Quirks) (p t : Stmts) (h : compile q p = .ok t)
    (hg : InFragment p = true) :
    ∀ e, t = .cons (.rete (.start e)) .nil → ∀ st, runCompiled ρ N e st = closed (srcSem ρ N p st) := by
  obtain ⟨th, rfl, hsem⟩ := compile_correct_partial ρ N q p t h hg
  intro e he st
  injection he with h1 _
  injection h1 with h1
  injection h1 with h1
  subst h1
  exact hsem st

theorem C01_pass0 (ρ : Interp σ P) (N : Nat) (susp : Bool) (ss : Stmts) (st : σ) :
    denL ρ N susp (p0Stmts ss) st = denL ρ N susp ss st := p0Stmts_sem ρ N susp ss st

/-! ### non-vacuity: a non-trivial body inside the guard, accepted by the compiler -/

/-- `for Yield(1); C(1); A(2) { if C(3) { Yield(V(4)); continue } else { A(5) }; Yield(6) }; return nil` -/
def demo : Stmts :=
  .cons (.for_ (some (.yield ⟨true, 1⟩)) (some ⟨1, []⟩) (some (.act 2))
    (.cons (.ifs none ⟨3, []⟩ (.cons (.simple (.yield ⟨false, 4⟩)) (.cons .cont .nil))
        (.els (.cons (.simple (.act 5)) .nil)))
     (.cons (.simple (.yield ⟨true, 6⟩)) .nil)))
  (.cons .ret .nil)

example : InFragment demo = true := by decide
example : (compile currentQuirks demo).toBool = true := by decide

/-- `switch A(1); T(2) { case 1: Yield(3); if C(4) { Yield(V(5)) }; case 2: for C(6) { Yield(7); break }; default: A(8) };
     switch { case 9: continue-free: A(10); break }; Yield(11); return nil`
    (the second switch has no yield, so its `break` is inside the guard) -/
def demoSwitch : Stmts :=
  .cons (.switch (some (.act 1)) (some ⟨2, []⟩)
    (.cons false [1] (.cons (.simple (.yield ⟨true, 3⟩))
        (.cons (.ifs none ⟨4, []⟩ (.cons (.simple (.yield ⟨false, 5⟩)) .nil) .none) .nil))
    (.cons false [2] (.cons (.for_ none (some ⟨6, []⟩) none
        (.cons (.simple (.yield ⟨true, 7⟩)) (.cons .brk .nil))) .nil)
    (.cons true [] (.cons (.simple (.act 8)) .nil) .nil))))
  (.cons (.switch none none (.cons false [9] (.cons (.simple (.act 10)) (.cons .brk .nil)) .nil))
  (.cons (.simple (.yield ⟨true, 11⟩)) (.cons .ret .nil)))

example : InFragment demoSwitch = true := by decide
example : (compile currentQuirks demoSwitch).toBool = true := by decide

/-! ### the full statement fails on the tree under verification (finding D6) -/

/-- an interpretation over a step counter: conditions are true while fewer than two were evaluated -/
def ρ0 : Interp Nat Unit where
  act _ st := (none, st)
  pact _ st := (some (), st)
  bpanic _ st := ((), st)
  def_ _ st := (none, st)
  val n st := (.ok n, st)
  cond _ st := (.ok (decide (st < 2)), st + 1)
  tag _ st := (.ok 0, st)

/-- the values delivered to a consumer that pulls at most `fuel` times -/
def takeYields {α : Type} : Nat → MG.Res α Nat Unit → List Nat
  | 0, _ => []
  | fuel+1, .yield v st k => v :: takeYields fuel (k st)
  | _, _ => []

/-- `for C(1); ; Yield(2) { Yield(1); continue }` - continue skips the yielding post statement -/
def cexD6 : Stmts :=
  .cons (.for_ none (some ⟨1, []⟩) (some (.yield ⟨true, 2⟩))
    (.cons (.simple (.yield ⟨true, 1⟩)) (.cons .cont .nil))) (.cons .ret .nil)

/-- what the compiler model produces for `cexD6`: Combine(body, post) inside the loop thunk, so
    `return seq.Continue()` in the body skips the second half -/
def cexD6Out : SExp :=
  .delay (.lam (.cons (.rete (.combine
    (.delay (.lam (.cons (.rete (.loop (some ⟨1, []⟩) none (.delay (.lam
      (.cons (.rete (.combine
        (.delay (.lam (.cons (.rete (.bind ⟨true, 1⟩ (.lam (.cons (.rete (.sig .cont)) .nil)))) .nil)))
        (.delay (.lam (.cons (.rete (.bind ⟨true, 2⟩ (.lam (.cons (.rete (.sig .normal)) .nil)))) .nil))))) .nil))))) .nil)))
    (.delay (.lam (.cons (.rete (.sig .ret)) .nil))))) .nil))

theorem cexD6_compiles : compile currentQuirks cexD6 = .ok (.cons (.rete (.start cexD6Out)) .nil) := rfl

theorem C01_cex_continue_yielding_post : ¬ C01_full := by
  intro h
  have := h Nat Unit ρ0 5 cexD6 _ cexD6_compiles cexD6Out rfl 0
  have h2 := congrArg (takeYields 6) this
  revert h2
  decide

/-! ### finding D7: `break` after a yield inside a yielding switch leaves the enclosing loop -/

/-- `for C(1) { switch T(1) { case 0: Yield(1); break }; Yield(9) }; return`
    with the tag always 0: the source delivers 1 9 1 9 …, the compiled code 1 and stops -/
def cexD7 : Stmts :=
  .cons (.for_ none (some ⟨1, []⟩) none
    (.cons (.switch none (some ⟨1, []⟩)
        (.cons false [0] (.cons (.simple (.yield ⟨true, 1⟩)) (.cons .brk .nil)) .nil))
      (.cons (.simple (.yield ⟨true, 9⟩)) .nil))) (.cons .ret .nil)

example : Supported cexD7 = false := by decide

/-- what the compiler model produces for `cexD7` (computed, not written out) -/
def outD7 : Stmts := match compile currentQuirks cexD7 with | .ok t => t | .error _ => .nil
def eD7 : SExp := match outD7 with | .cons (.rete (.start e)) .nil => e | _ => .sig .normal

theorem cexD7_compiles : compile currentQuirks cexD7 = .ok outD7 := rfl
theorem outD7_shape : outD7 = .cons (.rete (.start eD7)) .nil := rfl

theorem C01_cex_break_in_yielding_switch : ¬ C01_full := by
  intro h
  have := h Nat Unit ρ0 5 cexD7 outD7 cexD7_compiles eD7 outD7_shape 0
  have h2 := congrArg (takeYields 6) this
  revert h2
  decide

end GoCo.C01
