/-
  C01 - Compiled generators yield exactly the source's coroutine sequence.

  Full statement (`C01_full`): for every generator body `p` of the mini-Go grammar, every interpretation
  `ρ` of its atoms (= every argument steering the branches), every loop budget `N`:
    compile p = ok t  →  tgtSem ρ N (optimize t) = srcSem ρ N p          (as resumption trees)
  The full statement is FALSE of the tree under verification (known findings D6, D7: `C01_cex_*` in
  GoCo/Props/C01cex.lean, replayed on the real code by the check).
  Proved so far: pass0 preserves the semantics of all statements (`C01_pass0`), eta-reduction preserves
  it (`C07_eta_sound`); the pass2/pass3 theorem `compile_correct_partial` is under construction
  (GoCo/Proofs/Pass2.lean).
-/
import GoCo.Proofs.Pass0
import GoCo.Compile.Guard
import GoCo.Compile.VM
set_option autoImplicit false

namespace GoCo.C01
open GoCo GoCo.MG
variable {σ P : Type}

/-- the property at full strength -/
def C01_full : Prop :=
  ∀ (σ P : Type) (ρ : Interp σ P) (N : Nat) (q : Quirks) (p t : Stmts), compile q p = .ok t →
    ∀ e, t = .cons (.rete (.start e)) .nil →
      ∀ st, (match evalS ρ N e st with
              | (.error x, st') => (.panic x st' : MG.Res Sig σ P)
              | (.ok run, st') => run st')
            = (srcSem ρ N p st).bind closeThunk

theorem C01_pass0 (ρ : Interp σ P) (N : Nat) (susp : Bool) (ss : Stmts) (st : σ) :
    denL ρ N susp (p0Stmts ss) st = denL ρ N susp ss st := p0Stmts_sem ρ N susp ss st

end GoCo.C01
