/-
  C14 - Iterators are independent under any interleaving and across goroutines.

  * `C14_interleave_independent`: an iterator whose code only touches its own part of the store
    (`Term.inl`: the left component of a product store) gives, under ANY interleaving with arbitrary
    activity on the rest of the store - the operations of any number of other iterators, from the same or
    from other generator functions, are such activity - exactly the observations and the final own state
    it gives when consumed alone.  Proved for all terms, all operation sequences, all "noise".
  * `C14_ref_inl`: the reference semantics commutes with the embedding; with `genRun_refines` the same
    holds for the machine model of seq.go.
  * The generator object and the machine have no component shared between iterators: `genStep` takes and
    returns one `Gen`; that the real package has no package-level variable / sync / goroutine is the
    source fact `facts_seq_no_shared_state`, re-proved on every run.
  Partial: data races are a property of the Go memory model, not of a sequential model; the check runs
  the iterators on parallel goroutines under the race detector as supporting evidence (stage `race`).
-/
import GoCo.Runtime.Indep
set_option autoImplicit false

namespace GoCo.C14
open GoCo
variable {σ₁ σ₂ V P : Type} [Inhabited V]

/-- run operations on one iterator; after each one, anything may happen to the rest of the store -/
def runNoisy (g : AbsGen (σ₁ × σ₂) V P) (ab : σ₁ × σ₂) :
    List (Op V × (σ₂ → σ₂)) → AbsGen (σ₁ × σ₂) V P × (σ₁ × σ₂) × List (Obs V P)
  | [] => (g, ab, [])
  | (op, noise) :: rest =>
    let r := absStep g op ab
    let r' := runNoisy r.1 (r.2.1.1, noise r.2.1.2) rest
    (r'.1, r'.2.1, r.2.2 :: r'.2.2)

theorem C14_interleave_independent (sched : List (Op V × (σ₂ → σ₂))) :
    ∀ (g : AbsGen σ₁ V P) (a : σ₁) (b : σ₂),
      (runNoisy (g.inl : AbsGen (σ₁ × σ₂) V P) (a, b) sched).2.2 = (absRun g a (sched.map (·.1))).2.2 ∧
      (runNoisy (g.inl : AbsGen (σ₁ × σ₂) V P) (a, b) sched).2.1.1 = (absRun g a (sched.map (·.1))).2.1 ∧
      (runNoisy (g.inl : AbsGen (σ₁ × σ₂) V P) (a, b) sched).1 = (absRun g a (sched.map (·.1))).1.inl := by
  induction sched with
  | nil => intro g a b; exact ⟨rfl, rfl, rfl⟩
  | cons x rest ih =>
    intro g a b
    obtain ⟨op, noise⟩ := x
    simp only [runNoisy, List.map_cons, absRun, absStep_inl]
    have := ih (absStep g op a).1 (absStep g op a).2.1 (noise b)
    exact ⟨by rw [this.1], this.2.1, this.2.2⟩

theorem C14_ref_inl (N : Nat) (t : Term σ₁ V P) (a : σ₁) (b : σ₂) :
    ref N (t.inl : Term (σ₁ × σ₂) V P) (a, b) = (ref N t a).inl b := ref_inl N t a b

/-- a single operation leaves the rest of the store exactly as it was -/
theorem C14_frame (g : AbsGen σ₁ V P) (op : Op V) (a : σ₁) (b : σ₂) :
    (absStep (g.inl : AbsGen (σ₁ × σ₂) V P) op (a, b)).2.1.2 = b := by
  rw [absStep_inl]

end GoCo.C14
