/-
  C12 - Unsupported constructs are rejected or preserved, never silently mistranslated.

  The model's grammar has two constructs the compiler does not support inside a yielding context -
  `fallthrough` (out of a clause of a switch that yields) and a `Yield` in an if initialiser - besides the
  statement kinds it does not model at all (labels, goto, select, defer, range over func / pointer to array /
  type parameter, type switches: template programs).
  * `C12_reject_or_preserve`: PROVED - for every body of the grammar, on the repaired tree: either the compiler
    REJECTS it (and then it contains a `fallthrough` or a yield in an if initialiser), or it ACCEPTS it; and every
    accepted body inside the proved fragment behaves exactly like its source (through the optimiser).
    So acceptance with different behaviour is impossible inside the fragment, and rejection is never silent.
  * `C12_ifinit_rejected`, `C12_fallthrough_from_yielding_case_rejected`: kernel-checked witnesses that the two
    constructs are rejected with a diagnostic by the model (K4 compares the panic class with the real compiler).
  On the pinned tree the yield in an if initialiser was accepted and silently dropped (finding D12a, repaired by
  daf3130, which the model follows).
  Decided by translation validation for everything outside the model: templates GotoInGenerator, LabelledBreak,
  LabelInYieldFreeBlock, DeferInGenerator, DeferInYieldFreeLoop, SelectInGenerator, SelectBreakInBlock,
  FallthroughFromYieldingCase, IfInitYield, RangePointerToArray (each: rejected with a diagnostic, or equal to the
  reference) and the negative controls UnsupportedInsideClosure, ClosureControlFlow, GotoInsideClosure.
-/
import GoCo.Proofs.OptimizeCorrect
import GoCo.Compile.VM
set_option autoImplicit false

namespace GoCo.C12
open GoCo GoCo.MG
variable {σ P : Type}

/-- rejected bodies contain one of the two unsupported constructs; accepted bodies of the fragment are preserved -/
theorem C12_reject_or_preserve (ρ : Interp σ P) (N : Nat) (q : Quirks) (hq : QOk q) (body : Stmts) :
    (∃ e, compile q body = .error e ∧ InGrammar body = false) ∨
    (∃ t, compile q body = .ok t ∧
      (InFragment body = true → woL body = true →
        ∃ x, optimize t = .cons (.rete (.start x)) .nil ∧
          ∃ run, (∀ st, evalS ρ N x st = (.ok run, st)) ∧ ∀ st, run st = closed (denL ρ N true body st))) := by
  cases hc : compile q body with
  | error e =>
    refine .inl ⟨e, rfl, ?_⟩
    cases hg : InGrammar body with
    | false => rfl
    | true =>
      obtain ⟨t, ht⟩ := compile_total q hq body hg
      rw [hc] at ht; cases ht
  | ok t =>
    exact .inr ⟨t, rfl, fun hf hw => compile_optimize_correct_partial ρ N q body t hc hf hw⟩

/-- `if Yield(1); C(1) { Yield(2) }; return` -/
def ifInitYield : Stmts :=
  .cons (.ifs (some (.yield ⟨true, 1⟩)) ⟨1, []⟩ (.cons (.simple (.yield ⟨true, 2⟩)) .nil) .none) (.cons .ret .nil)

theorem C12_ifinit_rejected : compile currentQuirks ifInitYield = .error "yield not supported" := rfl

/-- `switch T(1) { case 0: Yield(1); fallthrough; case 1: A(2) }; return` -/
def ftFromYieldingCase : Stmts :=
  .cons (.switch none (some ⟨1, []⟩)
    (.cons false [0] (.cons (.simple (.yield ⟨true, 1⟩)) (.cons .fallthrough .nil))
    (.cons false [1] (.cons (.simple (.act 2)) .nil) .nil))) (.cons .ret .nil)

theorem C12_fallthrough_from_yielding_case_rejected :
    compile currentQuirks ftFromYieldingCase = .error "fallthrough not supported" := rfl

/-- fallthrough inside a switch without yields stays native: accepted, nothing to translate -/
def ftPlain : Stmts :=
  .cons (.switch none (some ⟨1, []⟩)
    (.cons false [0] (.cons (.simple (.act 1)) (.cons .fallthrough .nil))
    (.cons false [1] (.cons (.simple (.act 2)) .nil) .nil)))
  (.cons (.simple (.yield ⟨true, 1⟩)) (.cons .ret .nil))

example : (compile currentQuirks ftPlain).toBool = true := by decide

end GoCo.C12
