/-
  C18 - Panics surface from the advance that ran the panicking statement.

  Thunks, conditions, posts and atoms may panic; resumption trees have `panic p st` leaves.
  * runtime: `C18_panic_surfaces`: the consumer call whose segment reaches a `panic` leaf observes exactly
    that panic value, the store reached, and leaves the iterator as it was (so values delivered before are
    unaffected and a later call re-runs the segment); `C18_machine`: the machine model reaches the
    panicking configuration exactly when the reference tree has the panic leaf.
  * compiler: `C01_partial` is an equality of trees WITH panic leaves, so a panic at any statement
    position of the fragment (also in loops, conditions, initialisers) is at the same position of the
    compiled iterator's tree: `C18_compiled_panics_partial`.
  * other iterators are untouched: operations take and return one generator object (see C14).
-/
import GoCo.Proofs.CompileCorrect
import GoCo.Runtime.Gen
set_option autoImplicit false

namespace GoCo.C18
open GoCo

theorem C18_panic_surfaces {σ V P : Type} [Inhabited V] (a : AbsGen σ V P) (r : V → σ → Res σ V P)
    (hr : a.rest = some r) (st : σ) (p : P) (st' : σ) (hp : r default st = .panic p st') :
    absStep a .moveNext st = ({ a with started := true }, st', .panic p) := by
  simp [absStep, AbsGen.advance, hr, hp, moveObs]

theorem C18_send_panic_surfaces {σ V P : Type} [Inhabited V] (a : AbsGen σ V P) (hs : a.started = true)
    (r : V → σ → Res σ V P) (hr : a.rest = some r) (v : V) (st : σ) (p : P) (st' : σ)
    (hp : r v st = .panic p st') :
    absStep a (.send v) st = (a, st', .panic p) := by
  simp [absStep, AbsGen.advance, hs, hr, hp, sendObs]

/-- the machine model of seq.go reaches `panicked p st'` exactly where the reference has the leaf -/
theorem C18_machine {σ V P : Type} [Inhabited V] (N : Nat) (t : Term σ V P) (k : Cont σ V P) (st : σ)
    (p : P) (st' : σ) (h : ref N t st = .panic p st') : Reaches N (.eval t k st) (.panicked p st') := by
  have := machine_refines_ref N t k st
  rw [h] at this
  exact this

/-- a panic leaf of the source coroutine is a panic leaf of the compiled thunk, at the same place -/
theorem C18_compiled_panics_partial {σ P : Type} (ρ : MG.Interp σ P) (N : Nat) (q : MG.Quirks)
    (p t : MG.Stmts) (h : MG.compile q p = .ok t) (hg : MG.InFragment p = true) :
    ∃ th, t = .cons (.rete (.start (.delay th))) .nil ∧
      ∀ st x st', MG.denL ρ N true p st = .panic x st' → MG.denT ρ N th st = .panic x st' := by
  obtain ⟨th, ht, hsem⟩ := MG.compile_correct_partial ρ N q p t h hg
  refine ⟨th, ht, fun st x st' hp => ?_⟩
  rw [hsem, hp]; rfl

end GoCo.C18
