/-
  C15 - Generated output is deterministic and independent of unrelated inputs.
  C16 - go:generate mode writes exactly the derived files and is idempotent.

  C15, proved: `C15_helpers_unique` - the helper identifiers handed out while one file is rewritten
  (prefix ++ decimal counter) are pairwise distinct for every number of range loops, so sequential and
  nested range loops never clash; `C15_compile_is_function` - the model's per-function pipeline is a
  function of the function body alone (no hidden state), trivially.  That the real per-file pipeline is
  such a function (rewriter state re-created per file: source facts; go/packages order, go/format, map
  iteration) is observed by correspondence K8: the same file compiled alone, twice, over stale outputs,
  next to sibling files with range loops, and next to other packages must give byte-identical output.
  C16, proved over an abstract file system with the per-file transformation and the naming function as
  parameters: `goGen_writes_exactly` (no other path is created or modified), `goGen_writes_each` (every
  co file using the API gets its derived file), `goGen_idempotent` (a second run changes nothing, given
  that derived names are not co names and are injective).  K8 runs the real cogen on a materialised
  layout (plain sibling files, test files, a sub-package with the same base name, several co files, a
  file importing but not using the API): created set, untouched sources, no temp dir, header, go build /
  go test without the tag, go vet with it, byte-identical second run.
-/
import GoCo.DriverModel
import GoCo.Compile.Compile
set_option autoImplicit false

namespace GoCo.C15
open GoCo.Driver

theorem C15_helpers_unique (pre : String) (n : Nat) : (helperNames pre n).Nodup := gensym_injective pre n

theorem C15_decimal_injective {n m : Nat} (h : Nat.repr n = Nat.repr m) : n = m := repr_inj h

/-- the model's pipeline has no state beyond its arguments -/
theorem C15_compile_is_function (q : GoCo.MG.Quirks) (a b : GoCo.MG.Stmts) (h : a = b) :
    GoCo.MG.compile q a = GoCo.MG.compile q b := by rw [h]

theorem C16_writes_exactly (cfg : GenCfg) (coPaths : List Path) (fs : FS) (q : Path)
    (hq : ∀ p ∈ coPaths, cfg.outName p ≠ q) : goGen cfg coPaths fs q = fs q :=
  goGen_writes_exactly cfg coPaths fs q hq

theorem C16_writes_each (cfg : GenCfg) (coPaths : List Path) (fs : FS) (p : Path) (c : String)
    (hp : p ∈ coPaths) (hsrc : fs p = some c) (hu : cfg.uses c = true)
    (hinj : ∀ a ∈ coPaths, ∀ b ∈ coPaths, cfg.outName a = cfg.outName b → a = b) (hnd : coPaths.Nodup) :
    goGen cfg coPaths fs (cfg.outName p) = some (cfg.transform c) :=
  goGen_writes_each cfg coPaths fs p c hp hsrc hu hinj hnd

theorem C16_idempotent (cfg : GenCfg) (coPaths : List Path) (fs : FS)
    (hout : ∀ p ∈ coPaths, ∀ q ∈ coPaths, cfg.outName p ≠ q)
    (hinj : ∀ a ∈ coPaths, ∀ b ∈ coPaths, cfg.outName a = cfg.outName b → a = b) (hnd : coPaths.Nodup) :
    goGen cfg coPaths (goGen cfg coPaths fs) = goGen cfg coPaths fs :=
  goGen_idempotent cfg coPaths fs hout hinj hnd

/-! non-vacuity -/
example : helperNames "it" 3 = ["it1", "it2", "it3"] := by decide

end GoCo.C15
