/-
  C10 - Built-in range iterators equal Go's range for every input.

  Proved for every input, no bound:
  * `strIter_eq_range`: for every byte string the string iterator delivers exactly the (byte offset, rune)
    pairs of `for i, r := range s` - U+FFFD and a one-byte advance on every invalid sequence;
  * `intIter_eq_range`: for every integer n (also n ≤ 0) the integer iterator delivers 0 … n-1;
  * `wrapIter_eq_runtime`: the map and channel iterators deliver every step of the Go runtime's own
    iteration exactly once, in order (partial: map iteration order / deletion semantics and channel
    receive are the runtime's and enter as a parameter; nil interface keys and values: K3).
  * `sliceIter_eq_range`: for every length, every memory and every loop body (element writes, appends in
    place or reallocating, reslicing - any function on memory) the slice iterator under the lowered loop
    delivers what `for i, v := range sl` delivers: length snapshot at creation, element `i` read live at
    the start of iteration `i`, exactly `n` iterations; `C10_slice_script_no_panic`: no index panic under
    any mutation script.  K3 runs the same scripts on seq.NewSliceIter, on the native range statement
    and on this model (memory = the iterator's backing array + the program's own slice variable).
  The UTF-8 decoder `decodeRune` stands for unicode/utf8.DecodeRuneInString, which the repaired
  stringIter calls; K3 compares it with Go on every string up to length 3/4 over a hostile alphabet.
  Fixed on this tree (see known_findings.json): integer bounds (D1), string keys (D2), nil map entries (D3).
-/
import GoCo.Iters.Model
set_option autoImplicit false

namespace GoCo.C10
open GoCo.Iters

theorem C10_string (bs : List Nat) : drain strIter bs.length (newStrIter bs) = rangeStr bs :=
  strIter_eq_range bs

theorem C10_int (n : Int) : drain intIter (n.toNat + 1) (newIntIter n) = rangeInt n := intIter_eq_range n

theorem C10_wrapper {R A B : Type} (next : R → Option (A × R)) (conv : A → B) (dflt : A)
    (fuel : Nat) (r : R) (a0 : A) :
    drain (wrapIter next conv dflt) fuel (r, a0) = (runtimeSeq next fuel r).map conv :=
  wrapIter_eq_runtime next conv dflt fuel r a0

theorem C10_slice {M V : Type} (read : M → Nat → Option V) (body : Nat → M → M) (n : Nat) (m : M) :
    drainSlice read body (n+1) (newSliceIter n) m = rangeSlice read body n m :=
  sliceIter_eq_range read body n m

theorem C10_slice_iterations {M V : Type} (read : M → Nat → Option V) (body : Nat → M → M) (n : Nat) (m : M) :
    (drainSlice read body (n+1) (newSliceIter n) m).length = n := by
  rw [sliceIter_eq_range]; exact rangeSliceFrom_length read body n 0 m

theorem C10_slice_script_no_panic (ops : List (Nat × ScriptOp)) (init : List Nat) (cap : Nat) :
    ∀ x ∈ drainSlice scriptRead (scriptBody ops) (init.length + 1) (newSliceIter init.length) (mkScriptMem init cap),
      x.isSome := by
  rw [sliceIter_eq_range]; exact script_no_panic ops init cap

theorem C10_slice_exhaustion (s : SliceSt) (h : (s.len : Int) ≤ s.idx) :
    (sliceMoveNext s).1 = false ∧ ((sliceMoveNext s).2.len : Int) ≤ (sliceMoveNext s).2.idx :=
  slice_exhaustion_permanent s h

/-- every decoded rune advances at least one byte: the iteration terminates on every input -/
theorem C10_progress (bs : List Nat) : 1 ≤ (decodeRune bs).2 := decodeRune_width_pos bs

/-! non-vacuity: "a", U+00E9, a stray continuation byte, a truncated 3-byte sequence, "€" -/
example : rangeStr [97, 0xC3, 0xA9, 0x80, 0xE2, 0x82, 0xE2, 0x82, 0xAC]
    = [(0, 97), (1, 233), (3, 65533), (4, 65533), (5, 65533), (6, 8364)] := by decide
/-- [1 2 3], cap 3: `append` at iteration 0 reallocates, so the later `sl[2] = 7` is invisible; with cap 8 the
    append is in place and the write is seen; a write ahead of the cursor is seen; truncation changes nothing -/
example : rangeSlice scriptRead (scriptBody [(0, .append 9), (1, .set 2 7)]) 3 (mkScriptMem [1, 2, 3] 3)
    = [some (0, 1), some (1, 2), some (2, 3)] := by decide
example : rangeSlice scriptRead (scriptBody [(0, .append 9), (1, .set 2 7)]) 3 (mkScriptMem [1, 2, 3] 8)
    = [some (0, 1), some (1, 2), some (2, 7)] := by decide
example : rangeSlice scriptRead (scriptBody [(0, .truncate 1), (1, .append 50)]) 3 (mkScriptMem [1, 2, 3] 3)
    = [some (0, 1), some (1, 2), some (2, 3)] := by decide
example : rangeSlice scriptRead (scriptBody [(0, .truncate 1), (0, .append 50)]) 3 (mkScriptMem [1, 2, 3] 3)
    = [some (0, 1), some (1, 50), some (2, 3)] := by decide
example : rangeInt 3 = [0, 1, 2] ∧ rangeInt (-2) = [] := by decide

end GoCo.C10
