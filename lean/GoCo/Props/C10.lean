/-
  C10 - Built-in range iterators equal Go's range for every input.

  Proved for every input, no bound:
  * `strIter_eq_range`: for every byte string the string iterator delivers exactly the (byte offset, rune)
    pairs of `for i, r := range s` - U+FFFD and a one-byte advance on every invalid sequence;
  * `intIter_eq_range`: for every integer n (also n ≤ 0) the integer iterator delivers 0 … n-1;
  * `wrapIter_eq_runtime`: the map and channel iterators deliver every step of the Go runtime's own
    iteration exactly once, in order (partial: map iteration order / deletion semantics and channel
    receive are the runtime's and enter as a parameter; nil interface keys and values: K3).
  Slices (length snapshot, live element reads, append reallocation) are covered by correspondence K3
  against the native range statement under mutation scripts, not by a theorem (partial).
  The UTF-8 decoder `decodeRune` stands for unicode/utf8.DecodeRuneInString, which the repaired
  stringIter calls; K3 compares it with Go on every string up to length 3/4 over a hostile alphabet.
  Fixed on this tree (see known_findings.json): integer bounds (D1), string keys (D2), nil map entries (D3).
-/
import GoCo.Iters.Model
set_option autoImplicit false

namespace GoCo.C10
open GoCo.Iters

theorem C10_string (bs : List Nat) : drain strIter bs.length (newStrIter bs) = rangeStr bs :=
  strIter_eq_range bs

theorem C10_int (n : Int) : drain intIter (n.toNat + 1) (newIntIter n) = rangeInt n := intIter_eq_range n

theorem C10_wrapper {R A B : Type} (next : R → Option (A × R)) (conv : A → B) (dflt : A)
    (fuel : Nat) (r : R) (a0 : A) :
    drain (wrapIter next conv dflt) fuel (r, a0) = (runtimeSeq next fuel r).map conv :=
  wrapIter_eq_runtime next conv dflt fuel r a0

/-- every decoded rune advances at least one byte: the iteration terminates on every input -/
theorem C10_progress (bs : List Nat) : 1 ≤ (decodeRune bs).2 := decodeRune_width_pos bs

/-! non-vacuity: "a", U+00E9, a stray continuation byte, a truncated 3-byte sequence, "€" -/
example : rangeStr [97, 0xC3, 0xA9, 0x80, 0xE2, 0x82, 0xE2, 0x82, 0xAC]
    = [(0, 97), (1, 233), (3, 65533), (4, 65533), (5, 65533), (6, 8364)] := by decide
example : rangeInt 3 = [0, 1, 2] ∧ rangeInt (-2) = [] := by decide

end GoCo.C10
