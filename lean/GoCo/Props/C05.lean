/-
  C05 - YieldFrom splices the delegate lazily and in order.

  `YieldFrom(e)` is rewritten to `for v := range e { Yield(v) }` and lowered to
        it := e; For(func() bool { return it.MoveNext() }, nil, Delay(func() Seq { v := it.Current(); return Bind(v, Normal) }))
  Here the delegate is ANY object satisfying the iterator protocol (`AbsGen`, Runtime/Gen.lean - every compiled
  generator by `genRun_refines`), living in the store next to the state its own code works on; the consumer, or
  other code of the delegating generator, may touch it between two steps.
  * `C05_splice` (PROVED, every delegate, store, budget): running the lowered loop = `splice`: advance the
    delegate ONCE; if it is exhausted leave the loop (nothing else runs); otherwise yield its current value and,
    when resumed, repeat - one delegate step per consumer step, nothing ahead of demand, whatever state the
    delegate is in (fresh, partially consumed, exhausted, advanced by somebody else in between).
  * `C05_exhausted_delegate`: delegating to an exhausted delegate delivers nothing and runs nothing.
  * `C05_values_in_order`: when nobody else touches the delegate, the values delivered are exactly the values
    of the delegate's remaining resumption tree, in order (up to the budget).
  * a panic of the delegate surfaces from the advance that ran it (`splice` has the panic leaf in that place).
  The rewriting step itself (yieldfrom_rewrite.go, the evaluation of `e` exactly once, all statement positions)
  is decided by translation validation: templates YieldFromChain, YieldFromRecursive, YieldFromPositions,
  YieldFromExhausted and the combinatorial family (yieldFrom / yieldFromTwice in 13 statement contexts).
-/
import GoCo.Runtime.Gen
set_option autoImplicit false

namespace GoCo.C05
open GoCo
variable {σ V P : Type} [Inhabited V]

/-- the store of the delegating generator: the delegate object and the state the delegate's code works on -/
abbrev DStore (σ V P : Type) := AbsGen σ V P × σ

/-- `it.MoveNext()` as a loop condition (a delegate whose own loops run out of budget counts as a panic of the
    condition: the tree of the delegate has an `oob` leaf there; `stuck` is the payload used for it) -/
def moveNextCond (stuck : P) : DStore σ V P → CondR P × DStore σ V P := fun x =>
  match ({ x.1 with started := true } : AbsGen σ V P).advance default x.2 with
  | (.yes a', st') => (.t, (a', st'))
  | (.no a', st') => (.f, (a', st'))
  | (.panic p, st') => (.panic p, ({ x.1 with started := true }, st'))
  | (.oob, st') => (.panic stuck, ({ x.1 with started := true }, st'))

/-- the lowered `YieldFrom(it)` -/
def yieldFromTerm (stuck : P) : Term (DStore σ V P) V P :=
  .loop (some (moveNextCond stuck)) none
    (.delay (fun x => .bind x.1.current (fun _ _ => .sig .normal default) (fun _ x' => x')) (fun x => x))

/-- what it must do: one delegate step per consumer step -/
def splice (stuck : P) : Nat → DStore σ V P → Res (DStore σ V P) V P
  | 0, _ => .oob
  | n+1, x =>
    match ({ x.1 with started := true } : AbsGen σ V P).advance default x.2 with
    | (.yes a', st') => .yield a'.current (a', st') (fun _ x' => splice stuck n x')
    | (.no a', st') => .done .normal default (a', st')
    | (.panic p, st') => .panic p ({ x.1 with started := true }, st')
    | (.oob, st') => .panic stuck ({ x.1 with started := true }, st')

theorem loop_eq_splice (stuck : P) (N : Nat) :
    ∀ (n : Nat) (skip : Bool) (x : DStore σ V P),
      loopRef (some (moveNextCond stuck)) none
        (ref N (.delay (fun x => .bind x.1.current (fun _ _ => .sig .normal default) (fun _ x' => x')) (fun x => x)))
        n skip x = splice stuck n x := by
  intro n
  induction n with
  | zero => intro _ _; rfl
  | succ n ih =>
    intro skip x
    have hhead : ∀ sk, loopHead (some (moveNextCond (σ := σ) (V := V) stuck)) none sk x =
        (match ({ x.1 with started := true } : AbsGen σ V P).advance default x.2 with
          | (.yes a', st') => Head.go (a', st')
          | (.no a', st') => Head.stop (a', st')
          | (.panic p, st') => Head.panic p ({ x.1 with started := true }, st')
          | (.oob, st') => Head.panic stuck ({ x.1 with started := true }, st')) := by
      intro sk
      cases sk <;>
      · simp only [loopHead, moveNextCond]
        rcases ({ x.1 with started := true } : AbsGen σ V P).advance default x.2 with ⟨r, st'⟩
        cases r <;> rfl
    simp only [loopRef, splice, hhead]
    rcases ({ x.1 with started := true } : AbsGen σ V P).advance default x.2 with ⟨r, st'⟩
    cases r with
    | yes a' =>
      simp only [ref, Res.bind]
      congr; funext recv x'
      exact ih false x'
    | no a' => rfl
    | panic p => rfl
    | oob => rfl

/-- **C05**: the lowered YieldFrom loop is the lazy splice, for every delegate state, store and budget -/
theorem C05_splice (stuck : P) (N : Nat) (x : DStore σ V P) :
    ref N (yieldFromTerm stuck) x = splice stuck N x := by
  simp only [yieldFromTerm, ref]
  exact loop_eq_splice stuck N N true x

/-- an exhausted delegate: nothing is delivered, nothing of it runs, the store is as before -/
theorem C05_exhausted_delegate (stuck : P) (N : Nat) (a : AbsGen σ V P) (st : σ) (h : a.rest = none) :
    ref (N + 1) (yieldFromTerm stuck) (a, st) = .done .normal default ({ a with started := true }, st) := by
  rw [C05_splice]
  simp [splice, AbsGen.advance, h]

/-- the values a consumer receives when it pulls at most `fuel` times and touches nothing in between -/
def takeValues {σ' : Type} : Nat → Res σ' V P → List V
  | 0, _ => []
  | fuel+1, .yield v st r => v :: takeValues fuel (r default st)
  | _, _ => []

/-- the same for the delegate itself, from its remaining tree -/
def delegateValues : Nat → AbsGen σ V P → σ → List V
  | 0, _, _ => []
  | fuel+1, a, st =>
    match ({ a with started := true } : AbsGen σ V P).advance default st with
    | (.yes a', st') => a'.current :: delegateValues fuel a' st'
    | _ => []

/-- in order and complete: the delegating loop delivers exactly what pulling the delegate directly delivers -/
theorem C05_values_in_order (stuck : P) :
    ∀ (fuel N : Nat) (a : AbsGen σ V P) (st : σ), fuel ≤ N →
      takeValues fuel (splice stuck N (a, st)) = delegateValues fuel a st := by
  intro fuel
  induction fuel with
  | zero => intro N a st _; rfl
  | succ fuel ih =>
    intro N a st hN
    obtain ⟨n, rfl⟩ : ∃ n, N = n + 1 := ⟨N - 1, by omega⟩
    simp only [splice, delegateValues]
    rcases h : ({ a with started := true } : AbsGen σ V P).advance default st with ⟨r, st'⟩
    cases r with
    | yes a' =>
      simp only [takeValues]
      congr 1
      have := ih n a' st' (by omega)
      -- `started` is already set on a'
      exact this
    | no a' => rfl
    | panic p => rfl
    | oob => rfl

/-! non-vacuity: a delegate with two remaining elements, over a store counting the advances it ran -/
def twoLeft : AbsGen Nat Nat Unit :=
  { started := true, current := 0, result := 0,
    rest := some fun _ st => .yield 7 (st + 1) fun _ st => .yield 8 (st + 1) fun _ st => .done .normal 0 (st + 1) }

example : takeValues 5 (ref 5 (yieldFromTerm ()) (twoLeft, 0)) = [7, 8] := by decide

end GoCo.C05
