/-
  C03 - Local state and lexical scoping survive suspension.

  The static half of the property: after compilation every variable reference denotes the same declaration
  as in the source.  `obsL env ss` (GoCo/Compile/Scope.lean) lists every atom of a statement list with the
  flattened environment Go resolves it in; `resolved` maps every used name to its declaration.

  * `C03_scopes_preserved`: PROVED for every body satisfying `scopeOKL`, every quirk setting, every
    enclosing environment - the intermediate AND the optimised generated code observe exactly the source's
    list: same atoms, same order, same visible declarations (shadowed ones included).
  * `C03_resolution_preserved`: hence every identifier of every condition / switch tag resolves to the same
    declaration.
  * `scopeOKL` excludes two things, both forced by the proof:
      - a yielding post statement on a loop whose body declares at its top level: the rewriter merges the
        post into the body block, where it sees the body's declarations.  This is the open finding D8:
        `C03_cex_post_sees_body_scope` is the kernel-checked witness (the model's output really resolves
        the post in a different environment), harness template PostSeesBodyScope replays it on the real code.
      - statements after an unconditional break / continue / fallthrough in the same list: the rewriter
        drops such unreachable statements from rewritten blocks, so the observation *lists* differ although
        no reachable atom changes its environment (template DeadCodeAfterJump runs the real code there).
  * The dynamic half (a variable keeps its value across suspensions; closures see updates) is the meaning of
    Go closures over the same variables - trusted, and exercised by the tb templates of C03.  That the
    *instance* of a per-iteration loop variable (go >= 1.22) is not preserved is finding D17; instances are
    outside this static model.
  The scope rules themselves (Go spec) are validated against go/types by correspondence K9.
-/
import GoCo.Proofs.ScopePasses
set_option autoImplicit false

namespace GoCo.C03
open GoCo GoCo.MG

theorem C03_scopes_preserved (q : Quirks) (body out : Stmts) (hs : scopeOKL body = true)
    (h : compile q body = .ok out) (env : Env) :
    obsL env out = obsL env body ∧ obsL env (optimize out) = obsL env body :=
  ⟨compile_scope q body out hs h env, by rw [optimize_scope]; exact compile_scope q body out hs h env⟩

theorem C03_resolution_preserved (q : Quirks) (body out : Stmts) (hs : scopeOKL body = true)
    (h : compile q body = .ok out) (env : Env) :
    resolved (obsL env (optimize out)) = resolved (obsL env body) := by
  rw [(C03_scopes_preserved q body out hs h env).2]

/-- the optimiser alone never changes scopes (no guard) -/
theorem C03_optimize_scopes (ss : Stmts) (env : Env) : obsL env (optimize ss) = obsL env ss :=
  optimize_scope ss env

/-! ### non-vacuity: shadowing in a yielding loop, an if-init declaration, a switch with `:=` init -/

/-- d1 := V(1)
    for C(2, d1) { d1 := V(3); Yield(4); if d2 := V(5); C(6, d1, d2) { Yield(7) } else { A(8) } }
    switch d1 := V(9); T(10, d1) { case 0: Yield(11); C(12, d1)?.. }
    A(13) -/
def demo : Stmts :=
  .cons (.simple (.def_ 1))
  (.cons (.for_ none (some ⟨2, [1]⟩) none
      (.cons (.simple (.def_ 1))
      (.cons (.simple (.yield ⟨true, 4⟩))
      (.cons (.ifs (some (.def_ 2)) ⟨6, [1, 2]⟩ (.cons (.simple (.yield ⟨true, 7⟩)) .nil)
                (.els (.cons (.simple (.act 8)) .nil))) .nil))))
  (.cons (.switch (some (.def_ 1)) (some ⟨10, [1]⟩)
      (.cons false [0] (.cons (.simple (.yield ⟨true, 11⟩))
                       (.cons (.ifs none ⟨12, [1, 2]⟩ (.cons .brk .nil) .none) .nil)) .nil))
  (.cons (.simple (.act 13)) .nil)))

example : scopeOKL demo = true := by decide

def demoOut : Stmts := match compile currentQuirks demo with | .ok t => t | .error _ => .nil
theorem demo_compiles : compile currentQuirks demo = .ok demoOut := rfl

/-- the source resolves C(6, d1, d2) to the inner d1 (level 1) and d2 (level 2), C(2, d1) to the outer d1
    (level 0), T(10, d1) to the switch's own d1 (level 1), and C(12, d1, d2) finds no d2 -/
example : resolved (obsL [] demo) =
    [(.s (.def_ 1), []), (.c ⟨2, [1]⟩, [some 0]), (.s (.def_ 1), []), (.y ⟨true, 4⟩, []),
     (.s (.def_ 2), []), (.c ⟨6, [1, 2]⟩, [some 1, some 2]), (.y ⟨true, 7⟩, []), (.s (.act 8), []),
     (.s (.def_ 1), []), (.c ⟨10, [1]⟩, [some 1]), (.y ⟨true, 11⟩, []), (.c ⟨12, [1, 2]⟩, [some 1, none]),
     (.s (.act 13), [])] := by decide

/-- ... and so does the generated code (an instance of the theorem, evaluated) -/
example : resolved (obsL [] (optimize demoOut)) = resolved (obsL [] demo) := by decide

/-- the generated code is really different: everything after the first yield sits in nested closures -/
example : (match demoOut with | .cons (.rete (.start (.delay _))) .nil => true | _ => false) = true := by decide

/-! ### the guard is necessary: finding D8 -/

/-- `for C(1); ; Yield(2) { d1 := V(1) }` : the post statement is merged into the body block -/
def cexD8 : Stmts :=
  .cons (.for_ none (some ⟨1, []⟩) (some (.yield ⟨true, 2⟩)) (.cons (.simple (.def_ 1)) .nil)) .nil

def outD8 : Stmts := match compile currentQuirks cexD8 with | .ok t => t | .error _ => .nil
theorem cexD8_compiles : compile currentQuirks cexD8 = .ok outD8 := rfl

example : scopeOKL cexD8 = false := by decide

/-- in the source the post statement `Yield(2)` sees no declaration; in the generated code it sees the body's
    `d1` -/
theorem C03_cex_post_sees_body_scope :
    compile currentQuirks cexD8 = .ok outD8 ∧
    obsL [] cexD8 = [(.c ⟨1, []⟩, []), (.s (.def_ 1), []), (.y ⟨true, 2⟩, [])] ∧
    obsL [] outD8 = [(.c ⟨1, []⟩, []), (.s (.def_ 1), []), (.y ⟨true, 2⟩, [1])] :=
  ⟨rfl, by decide, by decide⟩

/-- with a non-trivial last statement in the body the rewriter isolates the post in its own Combine half, and
    the scopes are right even though the body declares (outside the guard, still correct) -/
def okD8 : Stmts :=
  .cons (.for_ none (some ⟨1, []⟩) (some (.yield ⟨true, 2⟩))
    (.cons (.simple (.def_ 1)) (.cons (.simple (.yield ⟨true, 3⟩)) (.cons (.simple (.act 4)) .nil)))) .nil
def okD8Out : Stmts := match compile currentQuirks okD8 with | .ok t => t | .error _ => .nil
example : scopeOKL okD8 = false ∧ obsL [] okD8Out = obsL [] okD8 := by decide

end GoCo.C03
