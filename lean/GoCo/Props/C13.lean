/-
  C13 - Code that is not a generator is behaviourally unchanged.

  In the model, code that is not generated is code without Seq expressions (`plain*`).
  * `C13_optimize_identity`: PROVED - the optimiser (Delay elision + eta-reduction of generated thunks)
    returns every plain statement list syntactically unchanged: bystander declarations in a file that also
    holds generators are not touched by the optimisation pass.
  * `C13_pass3_identity`: PROVED - pass3 leaves `break` / `continue` inside native loops and switches of plain
    code alone (it only converts branch statements that have no native target in their function literal).
  Not modelled, decided by translation validation (templates Bystanders, EtaShapes, EtaMethodValue,
  EtaFuncVariable, EtaBuiltin, ClosureControlFlow, UnsupportedInsideClosure; K8 part c13 for compiler
  directives): eta-reduction of closures WRITTEN BY THE USER (repaired defects D9, D14), pass0 / pass1 / pass3
  staying out of ordinary closures (repaired defect D13), import clean-up, comments (open finding D15).
-/
import GoCo.Compile.Compile
set_option autoImplicit false

namespace GoCo.C13
open GoCo GoCo.MG

/- no Seq expression anywhere: what user code looks like in the model -/
mutual
  def plainS : Stmt → Bool
    | .rete _ => false
    | .block ss => plainL ss
    | .ifs _ _ thn els => plainL thn && plainE els
    | .switch _ _ cases => plainC cases
    | .for_ _ _ _ body => plainL body
    | _ => true
  def plainL : Stmts → Bool
    | .nil => true
    | .cons s r => plainS s && plainL r
  def plainE : Else → Bool
    | .none => true
    | .els ss => plainL ss
    | .elif s => plainS s
  def plainC : Cases → Bool
    | .nil => true
    | .cons _ _ body r => plainL body && plainC r
end

mutual
  theorem odStmt_plain : ∀ s : Stmt, plainS s = true → odStmt s = s
    | .rete _, h => by simp [plainS] at h
    | .block ss, h => by simp only [plainS] at h; simp only [odStmt, odStmts_plain ss h]
    | .ifs _ _ thn els, h => by
        simp only [plainS, Bool.and_eq_true] at h
        simp only [odStmt, odStmts_plain thn h.1, odElse_plain els h.2]
    | .switch _ _ cases, h => by simp only [plainS] at h; simp only [odStmt, odCases_plain cases h]
    | .for_ _ _ _ body, h => by simp only [plainS] at h; simp only [odStmt, odStmts_plain body h]
    | .simple _, _ => rfl
    | .brk, _ => rfl
    | .cont, _ => rfl
    | .fallthrough, _ => rfl
    | .ret, _ => rfl
    | .unknown _, _ => rfl
  theorem odStmts_plain : ∀ ss : Stmts, plainL ss = true → odStmts ss = ss
    | .nil, _ => rfl
    | .cons s r, h => by
        simp only [plainL, Bool.and_eq_true] at h
        simp only [odStmts, odStmt_plain s h.1, odStmts_plain r h.2]
  theorem odElse_plain : ∀ e : Else, plainE e = true → odElse e = e
    | .none, _ => rfl
    | .els ss, h => by simp only [plainE] at h; simp only [odElse, odStmts_plain ss h]
    | .elif s, h => by simp only [plainE] at h; simp only [odElse, odStmt_plain s h]
  theorem odCases_plain : ∀ cs : Cases, plainC cs = true → odCases cs = cs
    | .nil, _ => rfl
    | .cons _ _ body r, h => by
        simp only [plainC, Bool.and_eq_true] at h
        simp only [odCases, odStmts_plain body h.1, odCases_plain r h.2]
end

mutual
  theorem etaStmt_plain : ∀ s : Stmt, plainS s = true → etaStmt s = s
    | .rete _, h => by simp [plainS] at h
    | .block ss, h => by simp only [plainS] at h; simp only [etaStmt, etaStmts_plain ss h]
    | .ifs _ _ thn els, h => by
        simp only [plainS, Bool.and_eq_true] at h
        simp only [etaStmt, etaStmts_plain thn h.1, etaElse_plain els h.2]
    | .switch _ _ cases, h => by simp only [plainS] at h; simp only [etaStmt, etaCases_plain cases h]
    | .for_ _ _ _ body, h => by simp only [plainS] at h; simp only [etaStmt, etaStmts_plain body h]
    | .simple _, _ => rfl
    | .brk, _ => rfl
    | .cont, _ => rfl
    | .fallthrough, _ => rfl
    | .ret, _ => rfl
    | .unknown _, _ => rfl
  theorem etaStmts_plain : ∀ ss : Stmts, plainL ss = true → etaStmts ss = ss
    | .nil, _ => rfl
    | .cons s r, h => by
        simp only [plainL, Bool.and_eq_true] at h
        simp only [etaStmts, etaStmt_plain s h.1, etaStmts_plain r h.2]
  theorem etaElse_plain : ∀ e : Else, plainE e = true → etaElse e = e
    | .none, _ => rfl
    | .els ss, h => by simp only [plainE] at h; simp only [etaElse, etaStmts_plain ss h]
    | .elif s, h => by simp only [plainE] at h; simp only [etaElse, etaStmt_plain s h]
  theorem etaCases_plain : ∀ cs : Cases, plainC cs = true → etaCases cs = cs
    | .nil, _ => rfl
    | .cons _ _ body r, h => by
        simp only [plainC, Bool.and_eq_true] at h
        simp only [etaCases, etaStmts_plain body h.1, etaCases_plain r h.2]
end

/-- the optimiser returns plain code unchanged -/
theorem C13_optimize_identity (ss : Stmts) (h : plainL ss = true) : optimize ss = ss := by
  unfold optimize
  rw [odStmts_plain ss h, etaStmts_plain ss h]

/-! pass3 inside native loops / switches of plain code -/
mutual
  theorem p3Stmt_plain (q : Quirks) : ∀ (s : Stmt), plainS s = true → p3Stmt q true true s = .ok (s, false)
    | .rete _, h => by simp [plainS] at h
    | .brk, _ => rfl
    | .cont, _ => rfl
    | .fallthrough, _ => rfl
    | .block ss, h => by
        simp only [plainS] at h
        simp only [p3Stmt, p3Stmts_plain q ss h]; rfl
    | .ifs _ _ thn els, h => by
        simp only [plainS, Bool.and_eq_true] at h
        simp only [p3Stmt, p3Stmts_plain q thn h.1, p3Else_plain q els h.2]; rfl
    | .switch _ _ cases, h => by
        simp only [plainS] at h
        simp only [p3Stmt, p3Cases_plain q cases h]; rfl
    | .for_ _ _ _ body, h => by
        simp only [plainS] at h
        simp only [p3Stmt, p3Stmts_plain q body h]; rfl
    | .simple _, _ => rfl
    | .ret, _ => rfl
    | .unknown _, _ => rfl
  theorem p3Stmts_plain (q : Quirks) : ∀ (ss : Stmts), plainL ss = true → p3Stmts q true true ss = .ok (ss, false)
    | .nil, _ => rfl
    | .cons s r, h => by
        simp only [plainL, Bool.and_eq_true] at h
        simp only [p3Stmts, p3Stmt_plain q s h.1, p3Stmts_plain q r h.2]; rfl
  theorem p3Else_plain (q : Quirks) : ∀ (e : Else), plainE e = true → p3Else q true true e = .ok (e, false)
    | .none, _ => rfl
    | .els ss, h => by simp only [plainE] at h; simp only [p3Else, p3Stmts_plain q ss h]; rfl
    | .elif s, h => by simp only [plainE] at h; simp only [p3Else, p3Stmt_plain q s h]; rfl
  theorem p3Cases_plain (q : Quirks) : ∀ (cs : Cases), plainC cs = true → p3Cases q true true cs = .ok (cs, false)
    | .nil, _ => rfl
    | .cons _ _ body r, h => by
        simp only [plainC, Bool.and_eq_true] at h
        simp only [p3Cases, p3Stmts_plain q body h.1, p3Cases_plain q r h.2]; rfl
end

/-- pass3 returns plain code unchanged wherever its branch statements have a native target -/
theorem C13_pass3_identity (q : Quirks) (ss : Stmts) (h : plainL ss = true) :
    p3Stmts q true true ss = .ok (ss, false) := p3Stmts_plain q ss h

/-- a loop of plain code, whatever it contains but `fallthrough` outside a switch, is returned unchanged
    by pass3 when it is itself the statement of a function body (checked on the representative shapes) -/
example : p3Stmt currentQuirks false false
    (.for_ none none none (.cons (.ifs none ⟨1, []⟩ (.cons .brk .nil) (.els (.cons .cont .nil)))
      (.cons (.switch none (some ⟨2, []⟩) (.cons false [1] (.cons .brk .nil) (.cons true [] (.cons .fallthrough .nil) .nil))) .nil)))
  = .ok (.for_ none none none (.cons (.ifs none ⟨1, []⟩ (.cons .brk .nil) (.els (.cons .cont .nil)))
      (.cons (.switch none (some ⟨2, []⟩) (.cons false [1] (.cons .brk .nil) (.cons true [] (.cons .fallthrough .nil) .nil))) .nil)), false) := rfl

/-! non-vacuity -/
example : plainL (.cons (.for_ (some (.def_ 1)) (some ⟨1, []⟩) (some (.act 2))
    (.cons (.ifs none ⟨3, []⟩ (.cons .brk .nil) .none) .nil)) (.cons .ret .nil)) = true := by decide

end GoCo.C13
