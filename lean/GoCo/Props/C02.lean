/-
  C02 - Execution is demand-driven and in lockstep with the consumer.

  * Nothing runs before the first MoveNext: `C02_start_runs_nothing_runtime` (Start only allocates) and
    `C02_construct_pure` (the compiled function body is `return Start(Delay(thunk))` for EVERY accepted
    program, so constructing the iterator evaluates no user expression and leaves the store untouched).
  * Each MoveNext runs exactly the source statements between two yields, in source order, including the
    evaluation of the yielded expression: the store is part of every node of the resumption tree, so
    this is the tree equality `C01_partial` (compiler, under the guard `InFragment`) composed with
    `C02_advance_lockstep` (runtime: an advance leaves exactly the store of the next node of the tree).
  * A consumer that stops calling causes nothing to run: the models have no transition without a
    consumer operation (`Facts`: no goroutine, no init, no finalizer in seq).
  * The same through the optimiser: `C02_optimized_construct_pure` (every accepted body, switches included:
    constructing the OPTIMISED iterator evaluates nothing) and `C02_optimized_lockstep_partial`.
-/
import GoCo.Proofs.OptimizeCorrect
import GoCo.Runtime.Gen
set_option autoImplicit false

namespace GoCo.C02
open GoCo

/-- Start allocates the generator object and runs nothing: no store is involved at all -/
theorem C02_start_runs_nothing_runtime {σ V P : Type} [Inhabited V] (t : Term σ V P) :
    (Gen.start t).started = false ∧ (Gen.start t).current = default ∧ (Gen.start t).result = default :=
  ⟨rfl, rfl, rfl⟩

/-- every accepted generator body compiles to `return seq.Start(seq.Delay(thunk))` … -/
theorem C02_compile_shape (q : MG.Quirks) (p t : MG.Stmts) (h : MG.compile q p = .ok t) :
    ∃ th, t = .cons (.rete (.start (.delay th))) .nil := by
  unfold MG.compile at h
  obtain ⟨b, _, h⟩ := MG.bind_ok h
  obtain ⟨th, _, h⟩ := MG.bind_ok h
  exact ⟨th, (MG.pure_ok h).symm⟩

/-- … whose construction evaluates nothing and leaves the store as it is -/
theorem C02_construct_pure {σ P : Type} (ρ : MG.Interp σ P) (N : Nat) (q : MG.Quirks) (p t : MG.Stmts)
    (h : MG.compile q p = .ok t) :
    ∃ th, t = .cons (.rete (.start (.delay th))) .nil ∧
      ∀ st, MG.evalS ρ N (.start (.delay th)) st = (.ok (fun st' => MG.denT ρ N th st'), st) := by
  obtain ⟨th, rfl⟩ := C02_compile_shape q p t h
  exact ⟨th, rfl, fun _ => rfl⟩

/-- runtime lockstep: a successful advance delivers the value of the next `yield` node and leaves
    exactly the store of that node; the rest of the tree is left for later advances -/
theorem C02_advance_lockstep {σ V P : Type} [Inhabited V] (a : AbsGen σ V P) (r : V → σ → Res σ V P)
    (hr : a.rest = some r) (sent : V) (st : σ) (v : V) (st' : σ) (r' : V → σ → Res σ V P)
    (hy : r sent st = .yield v st' r') :
    a.advance sent st = (.yes { a with rest := some r', current := v }, st') := by
  simp [AbsGen.advance, hr, hy]

/-- compiler lockstep, under the guard: the thunk of the compiled body is the source coroutine -/
theorem C02_lockstep_partial {σ P : Type} (ρ : MG.Interp σ P) (N : Nat) (q : MG.Quirks) (p t : MG.Stmts)
    (h : MG.compile q p = .ok t) (hg : MG.InFragment p = true) :
    ∃ th, t = .cons (.rete (.start (.delay th))) .nil ∧
      ∀ st, MG.denT ρ N th st = MG.closed (MG.denL ρ N true p st) :=
  MG.compile_correct_partial ρ N q p t h hg

/-- … and still nothing after the optimiser has elided Delays: for every accepted body -/
theorem C02_optimized_construct_pure {σ P : Type} (ρ : MG.Interp σ P) (N : Nat) (q : MG.Quirks) (p t : MG.Stmts)
    (h : MG.compile q p = .ok t) (hs : MG.woL p = true) :
    ∃ e, MG.optimize t = .cons (.rete (.start e)) .nil ∧ ∃ run, ∀ st, MG.evalS ρ N e st = (.ok run, st) :=
  MG.compile_optimize_construct_pure ρ N q p t h hs

/-- compiler lockstep through the optimiser, under the guard -/
theorem C02_optimized_lockstep_partial {σ P : Type} (ρ : MG.Interp σ P) (N : Nat) (q : MG.Quirks) (p t : MG.Stmts)
    (h : MG.compile q p = .ok t) (hg : MG.InFragment p = true) (hs : MG.woL p = true) :
    ∃ e, MG.optimize t = .cons (.rete (.start e)) .nil ∧
      ∃ run, (∀ st, MG.evalS ρ N e st = (.ok run, st)) ∧ ∀ st, run st = MG.closed (MG.denL ρ N true p st) :=
  MG.compile_optimize_correct_partial ρ N q p t h hg hs

end GoCo.C02
