/-
  C17 - Stack use does not grow with the number of iterations between yields.

  Model (Runtime/Depth.lean): every machine transition is one Go call that is not eliminated as a tail call,
  so it runs one frame deeper than its caller - except the trampoline of `For`: when a loop body completes
  while the frame of that loop activation is still on the stack, control RETURNS to that frame.  The depth
  state is ghost state (`C17_erasure`).  Correspondence K2 checks the model's depth at every thunk, condition
  and post callback against runtime.Callers - exact equality on every small term with a loop and on random
  larger ones, advances driven by MoveNext and by Send, no drift of the starting depth across 40 advances -
  and measures the growth per non-yielding iteration on six loop shapes (must be 0.00).

  * `C17_iteration_returns_to_frame` (= `iteration_returns_to_frame`, with `frame_kept`, `above_step`): PROVED for
    EVERY loop, body, continuation, store and depth state - if the body, however long it runs and whatever it
    is (nested loops, combines, thunks that build new terms), completes with Normal / Continue before the
    advance ends, then the machine is back at the head of the loop AT THE DEPTH OF THE LOOP FRAME with the frame
    still registered: the hypotheses of the next iteration hold again, so the depth at the head of a loop is
    the same for every iteration between two yields, for any number of iterations.  (Stack discipline: while
    a term is evaluated the continuation it was given stays underneath, `above_step`; evaluating it never
    touches frames registered below that continuation, `stepDS_below`.)
  * `C17_trampoline`: the single step that does it; `C17_erasure`: the depth state is ghost state.
  * `C17_depth_constant`: the unbounded witness family, for every n and m ≤ n, computed through the model.
  * `C17_pinned_depth_grows`: on the PINNED tree the property was false (finding D5, repaired by 5f77a8a):
    there every transition nests, and a loop of n non-yielding iterations makes 4·n + 2 transitions in one
    advance, for every n (measured on the real runtime then: 3 to 8 frames per iteration, now 0).
  Partial: byte sizes of frames and the 1 GB limit are not modelled (the statement is about the number of
  frames); that the Go code realises this depth discipline is observed by K2 (exact profiles), not proved.
-/
import GoCo.Runtime.Depth
set_option autoImplicit false

namespace GoCo.C17
open GoCo

def spinC (n : Nat) : Option (Nat → CondR Unit × Nat) := some fun st => (if st < n then .t else .f, st + 1)
def spinB : Term Nat Nat Unit := .delay (fun _ => .sig .normal 0) (fun st => st)
def spin (n : Nat) : Term Nat Nat Unit := .loop (spinC n) none spinB

/-- one iteration of the spinning loop: four transitions, three frames deeper, and back at the depth of the
    loop frame -/
theorem spin_iteration (n N b i : Nat) (skip : Bool) (ds : DS) (hi : i < n) (hD : ds.get 0 = some ds.d) :
    runD N 4 (.loop (b + 1) (spinC n) none spinB .done skip i, ds)
      = (.loop b (spinC n) none spinB .done false (i + 1), ds.backTo 0 ds.d) := by
  have hget : ({ ds with d := ds.d + 1 + 1 + 1 } : DS).get 0 = some ds.d := hD
  cases skip <;>
    simp [runD, stepD, step, stepDS, loopHead, spinC, spinB, hi, Cont.loops, hget, DS.backTo]

theorem backTo_d (ds : DS) (l D : Nat) : (ds.backTo l D).d = D := rfl

/-- the depth at the head of the loop is the same at every iteration -/
theorem spin_head_depth (n N : Nat) :
    ∀ (m i b : Nat) (skip : Bool) (ds : DS), i + m ≤ n → m ≤ b → ds.get 0 = some ds.d →
      ∃ sk ds', runD N (4 * m) (.loop b (spinC n) none spinB .done skip i, ds)
          = (.loop (b - m) (spinC n) none spinB .done sk (i + m), ds') ∧ ds'.d = ds.d ∧ ds'.get 0 = some ds.d := by
  intro m
  induction m with
  | zero => intro i b skip ds _ _ hD; exact ⟨skip, ds, rfl, rfl, hD⟩
  | succ m ih =>
    intro i b skip ds hi hb hD
    obtain ⟨b', rfl⟩ : ∃ b', b = b' + 1 := ⟨b - 1, by omega⟩
    have e : 4 * (m + 1) = 4 + 4 * m := by omega
    rw [e, runD_add, spin_iteration n N b' i skip ds (by omega) hD]
    have hD' : (ds.backTo 0 ds.d).get 0 = some (ds.backTo 0 ds.d).d := get_backTo hD
    obtain ⟨sk, ds', h1, h2, h3⟩ := ih (i + 1) b' false (ds.backTo 0 ds.d) (by omega) (by omega) hD'
    refine ⟨sk, ds', ?_, ?_, ?_⟩
    · rw [h1]; congr 2 <;> omega
    · rw [h2]; rfl
    · rw [h3]; rfl

/-- **C17 on the repaired runtime**: the m-th evaluation of the loop head of a loop that never yields runs at
    the depth of the first one - for every number of iterations `n` and every `m ≤ n` -/
theorem C17_depth_constant (n m : Nat) (h : m ≤ n) :
    (runD (n + 1) (1 + 4 * m) (.eval (spin n) .done 0, ({ d := 1 } : DS))).2.d = 2 := by
  rw [runD_add]
  have h1 : runD (n + 1) 1 (.eval (spin n) .done 0, ({ d := 1 } : DS))
      = (.loop (n + 1) (spinC n) none spinB .done true 0, ({ d := 1 } : DS).enter 0 2) := rfl
  rw [h1]
  obtain ⟨sk, ds', h2, h3, _⟩ := spin_head_depth n (n + 1) m 0 (n + 1) true (({ d := 1 } : DS).enter 0 2)
    (by omega) (by omega) (get_enter _ 0 2)
  rw [h2, h3]; rfl

/-- the property in general: one iteration of any loop, with any body that completes without ending the
    advance, returns to the loop head in the loop frame -/
theorem C17_iteration_returns_to_frame {σ V P : Type} [Inhabited V] (N : Nat) (n : Nat) (c : Option (σ → CondR P × σ))
    (p : Option (σ → Option P × σ)) (body : Term σ V P) (k : Cont σ V P) (st : σ) (ds : DS) (D : Nat)
    (hD : ds.get k.loops = some D) (m : Nat) (s : Sig) (v : V) (st' : σ)
    (hpath : ∀ j, j < m → (run N j (.eval body (.loopK n c p body k) st)).final = false ∧
      ∀ s v st1, run N j (.eval body (.loopK n c p body k) st) ≠ .apply (.loopK n c p body k) s v st1)
    (hret : run N m (.eval body (.loopK n c p body k) st) = .apply (.loopK n c p body k) s v st')
    (hs : s = .normal ∨ s = .cont) :
    (runD N (m + 1) (.eval body (.loopK n c p body k) st, ds)).1 = .loop n c p body k false st' ∧
    (runD N (m + 1) (.eval body (.loopK n c p body k) st, ds)).2.d = D ∧
    (runD N (m + 1) (.eval body (.loopK n c p body k) st, ds)).2.get k.loops = some D :=
  iteration_returns_to_frame N n c p body k st ds D hD m s v st' hpath hret hs

theorem C17_erasure {σ V P : Type} [Inhabited V] (N n : Nat) (x : Cfg σ V P × DS) : (runD N n x).1 = run N n x.1 :=
  runD_erasure N n x

theorem C17_trampoline {σ V P : Type} (n : Nat) (c : Option (σ → CondR P × σ)) (p : Option (σ → Option P × σ))
    (body : Term σ V P) (k : Cont σ V P) (s : Sig) (hs : s = .normal ∨ s = .cont) (v : V) (st : σ) (ds : DS) (D : Nat)
    (h : ds.get k.loops = some D) :
    (stepDS (.apply (.loopK n c p body k) s v st) ds).d = D := stepDS_trampoline n c p body k s hs v st ds D h

/-! ### the pinned runtime: every transition nested (frames = transitions), so depth grew with n -/

theorem loop_steps (n N : Nat) (k : Cont Nat Nat Unit) :
    ∀ (m i budget fuel : Nat), i + m = n → m < budget → 4 * m + 2 ≤ fuel → budget ≤ N + 1 → ∀ skip,
      ∃ r, run N (4 * m + 1)
          (.loop budget (spinC n) none spinB k skip i) = .apply k .normal default r := by
  intro m
  induction m with
  | zero =>
    intro i budget fuel hi hb _ _ skip
    obtain ⟨b, rfl⟩ : ∃ b, budget = b + 1 := ⟨budget - 1, by omega⟩
    have : ¬ i < n := by omega
    refine ⟨i + 1, ?_⟩
    cases skip <;> simp [run, step, loopHead, spinC, spinB, this]
  | succ m ih =>
    intro i budget fuel hi hb hf hN skip
    obtain ⟨b, rfl⟩ : ∃ b, budget = b + 1 := ⟨budget - 1, by omega⟩
    have hlt : i < n := by omega
    obtain ⟨r, hr⟩ := ih (i + 1) b (fuel - 4) (by omega) (by omega) (by omega) (by omega) false
    refine ⟨r, ?_⟩
    have e : 4 * (m + 1) + 1 = 4 + (4 * m + 1) := by omega
    rw [e, run_add]
    have : run N 4 (.loop (b + 1) (spinC n) none spinB k skip i)
        = .loop b (spinC n) none spinB k false (i + 1) := by
      cases skip <;> simp [run, step, loopHead, spinC, spinB, hlt]
    rw [this, hr]

/-- **finding D5**: a loop that runs `n` iterations without yielding pushes at least `4·n` Go frames in
    a single advance - the depth is not bounded independently of `n` -/
theorem C17_pinned_depth_grows (n : Nat) :
    ∃ r, run (n + 1) (4 * n + 2) (.eval (spin n) .done 0) = .apply .done .normal default r := by
  obtain ⟨r, hr⟩ := loop_steps n (n + 1) .done n 0 (n + 1) (4 * n + 2) (by omega) (by omega) (by omega)
    (by omega) true
  refine ⟨r, ?_⟩
  have e : 4 * n + 2 = 1 + (4 * n + 1) := by omega
  rw [e, run_add]
  simpa [run, step, spin] using hr

/-- it takes exactly that many transitions: none of the earlier configurations is final -/
theorem C17_frames_are_transitions {σ V P : Type} [Inhabited V] (N : Nat) (c : Cfg σ V P) (h : c.final = false) :
    stepsToFinal N 1 c = 1 := by
  simp [stepsToFinal, h]

example : (run 4 (4 * 3 + 2) (.eval (spin 3) .done 0)) = .apply .done .normal 0 4 := rfl


/-! non-vacuity: the instrumented run of three iterations; depth 2 at the head each time, 5 inside the body -/
example : (runD 4 (1 + 4 * 3) (.eval (spin 3) .done 0, ({ d := 1 } : DS))).2.d = 2 := by decide
example : (runD 4 (1 + 4 * 2 + 3) (.eval (spin 3) .done 0, ({ d := 1 } : DS))).2.d = 5 := by decide

end GoCo.C17
