/-
  C17 - Stack use does not grow with the number of iterations between yields.

  Model: in seq.go every call (Seq closure, continuation, `loop`) is a tail call that Go does not
  eliminate, and nothing returns before `Bind` stores the step or the final continuation runs.  So
  *the Go stack depth during an advance is the number of machine transitions made so far*
  (`stepsToFinal`); correspondence K2 checks exactly this against runtime.Callers at every thunk,
  condition and post callback of every small term with a loop (and random larger ones).

  On the tree under verification the property is FALSE (finding D5): `C17_cex_depth_grows` proves that a
  loop running n non-yielding iterations pushes at least 4·n frames, for every n.  The repair (a
  trampolined `For`) changes the frame discipline of the runtime and is recorded as an open finding;
  the check replays the witness on the real runtime (measured: 4 frames per iteration).
  What the check still decides: any change that makes the real runtime use MORE stack than the model
  (e.g. growth across yields, per delegated element, per re-execution of a loop value) breaks K2.
-/
import GoCo.Runtime.Machine
set_option autoImplicit false

namespace GoCo.C17
open GoCo

/-- `for c() { }` over a counter store: the condition holds while fewer than `n` evaluations were made;
    the body is `Delay(func() Seq { return Normal() })`, i.e. it never yields -/
def spin (n : Nat) : Term Nat Nat Unit :=
  .loop (some fun st => (if st < n then .t else .f, st + 1)) none
    (.delay (fun _ => .sig .normal 0) (fun st => st))

theorem loop_steps (n N : Nat) (k : Cont Nat Nat Unit) :
    ∀ (m i budget fuel : Nat), i + m = n → m < budget → 4 * m + 2 ≤ fuel → budget ≤ N + 1 → ∀ skip,
      ∃ r, run N (4 * m + 1)
          (.loop budget (some fun st => (if st < n then .t else .f, st + 1)) none
            (.delay (fun _ => .sig .normal 0) (fun st => st)) k skip i) = .apply k .normal default r := by
  intro m
  induction m with
  | zero =>
    intro i budget fuel hi hb _ _ skip
    obtain ⟨b, rfl⟩ : ∃ b, budget = b + 1 := ⟨budget - 1, by omega⟩
    have : ¬ i < n := by omega
    refine ⟨i + 1, ?_⟩
    cases skip <;> simp [run, step, loopHead, this]
  | succ m ih =>
    intro i budget fuel hi hb hf hN skip
    obtain ⟨b, rfl⟩ : ∃ b, budget = b + 1 := ⟨budget - 1, by omega⟩
    have hlt : i < n := by omega
    obtain ⟨r, hr⟩ := ih (i + 1) b (fuel - 4) (by omega) (by omega) (by omega) (by omega) false
    refine ⟨r, ?_⟩
    have e : 4 * (m + 1) + 1 = 4 + (4 * m + 1) := by omega
    rw [e, run_add]
    have : run N 4 (.loop (b + 1) (some fun st => (if st < n then CondR.t else CondR.f, st + 1)) none
        (.delay (fun _ => .sig .normal 0) (fun st => st)) k skip i)
        = .loop b (some fun st => (if st < n then CondR.t else CondR.f, st + 1)) none
          (.delay (fun _ => .sig .normal 0) (fun st => st)) k false (i + 1) := by
      cases skip <;> simp [run, step, loopHead, hlt]
    rw [this, hr]

/-- **finding D5**: a loop that runs `n` iterations without yielding pushes at least `4·n` Go frames in
    a single advance - the depth is not bounded independently of `n` -/
theorem C17_cex_depth_grows (n : Nat) :
    ∃ r, run (n + 1) (4 * n + 2) (.eval (spin n) .done 0) = .apply .done .normal default r := by
  obtain ⟨r, hr⟩ := loop_steps n (n + 1) .done n 0 (n + 1) (4 * n + 2) (by omega) (by omega) (by omega)
    (by omega) true
  refine ⟨r, ?_⟩
  have e : 4 * n + 2 = 1 + (4 * n + 1) := by omega
  rw [e, run_add]
  simpa [run, step, spin] using hr

/-- it takes exactly that many transitions: none of the earlier configurations is final -/
theorem C17_frames_are_transitions {σ V P : Type} [Inhabited V] (N : Nat) (c : Cfg σ V P) (h : c.final = false) :
    stepsToFinal N 1 c = 1 := by
  simp [stepsToFinal, h]

example : (run 4 (4 * 3 + 2) (.eval (spin 3) .done 0)) = .apply .done .normal 0 4 := rfl

end GoCo.C17
