/-
  C04 - Range loops inside generators behave like Go's range statement.
  C06 - Consumer-side range/pull code sees exactly what the generator yields.

  Every range statement inside a generator, and every consumer `for v := range g`, is lowered to
        it := <iterator>; for it.MoveNext() { k, v := it.Current()…; <body> }
  * `C04_lowered_loop`: that loop runs its body on exactly the elements the iterator delivers, in order,
    with `break` / `return` honoured, for every iterator, body and accumulator (`runLoop_eq_foldUntil`);
  * `C06_no_overpull`: and it calls MoveNext exactly (elements visited) + (1 if it ran to exhaustion)
    times: leaving the loop early pulls nothing further;
  * what the iterators deliver is Go's range for strings and integers (C10 theorems, all inputs).
  * `C04_slice_range`: a range over a slice visits Go's (index, element) pairs with the length snapshot and
    live element reads, for every length, memory and body - a body that sees each pair, writes elements,
    appends, reslices and may break - with the same final memory and no pull beyond the stop;
  Partial: maps, channels, the `:=` / `=` / blank variable forms, evaluation of the range
  expression once, and the lowering itself (rewriter/range.go, rewrite.go) are covered by the template
  programs of correspondence `tb` against the same source on the reference coroutine, not by theorems.
  Open finding D4: range over an array aliases instead of copying - kernel-checked below
  (`C04_cex_array_range_aliases`; `C04_array_range_readonly`: invisible unless the body writes to the array).
-/
import GoCo.Iters.Loop
set_option autoImplicit false

namespace GoCo.C04
open GoCo.Iters
variable {S A B : Type}

theorem C04_lowered_loop (it : Iter S A) (body : B → A → B × Bool) (fuel : Nat) (s : S) (acc : B)
    (h : (drain it fuel s).length < fuel) :
    (runLoop it body fuel s acc 0).1 = (foldUntil body (drain it fuel s) acc 0).1 := by
  rw [runLoop_eq_foldUntil it body fuel s acc 0 h]

theorem C06_no_overpull (it : Iter S A) (body : B → A → B × Bool) (fuel : Nat) (s : S) (acc : B)
    (h : (drain it fuel s).length < fuel) :
    (runLoop it body fuel s acc 0).2 =
      (foldUntil body (drain it fuel s) acc 0).2.1 + (if (foldUntil body (drain it fuel s) acc 0).2.2 then 1 else 0) := by
  rw [runLoop_eq_foldUntil it body fuel s acc 0 h]; simp

/-- a range over a string in a generator visits Go's (offset, rune) pairs: lowering ∘ iterator -/
theorem C04_string_range (bs : List Nat) (body : B → Nat × Nat → B × Bool) (acc : B) :
    (runLoop strIter body (bs.length + 1) (newStrIter bs) acc 0).1
      = (foldUntil body (rangeStr bs) acc 0).1 := by
  have hd : drain strIter (bs.length + 1) (newStrIter bs) = rangeStr bs := by
    have := drain_str_from bs (bs.length + 1) 0 0 0 (by omega)
    simp only [List.drop_zero] at this
    rw [newStrIter, this, rangeStr]
    -- one more unit of fuel changes nothing: the string is exhausted after `length` runes at most
    exact rangeStrFrom_fuel bs
  rw [runLoop_eq_foldUntil strIter body (bs.length + 1) (newStrIter bs) acc 0 (by rw [hd]; exact Nat.lt_succ_of_le (rangeStr_length_le bs)), hd]

/-- a range over a slice in a generator = Go's range statement over the slice: lowering ∘ iterator, for a
    body that mutates the memory the slice lives in and may break -/
theorem C04_slice_range {M V : Type} (read : M → Nat → Option V) (body : Nat → Option (Nat × V) → M → M × Bool)
    (n : Nat) (m : M) :
    loopSlice read body (n+1) (newSliceIter n) m 0 = goRangeSlice read body n 0 m 0 :=
  loopSlice_eq_goRange read body n m

/-! non-vacuity: sum the elements seen into cell 0 of a 4-cell array [0, 5, 6, 7] ranged over as a 4-element
    slice, writing 100 into the next cell each round and breaking at index 2: sees 0, 100, 100 -/
example : (goRangeSlice (M := List Nat) (fun m i => m[i]?)
      (fun i e m => ((m.set 0 (m[0]?.getD 0 + (e.map (·.2)).getD 0)).set (i+1) 100, i == 2)) 4 0 [0, 5, 6, 7] 0)
    = ([200, 100, 100, 100], 3) := by decide

/-! ### D4 (open finding), kernel-checked: a range over an array VALUE is lowered to `NewSliceIter(a[:])`, i.e. to
    the aliasing loop, while Go ranges over a copy.  Memory = (the array, what the body saw); the body writes 30
    into cell 2 in iteration 0: Go sees 1 2 3, the lowered loop 1 2 30.  The two agree whenever the body does not
    write to the array (`C04_array_range_readonly`), which is why it takes a writing body to see D4. -/
def d4Body : Nat → Option (Nat × Nat) → List Nat × List Nat → (List Nat × List Nat) × Bool :=
  fun i e m => ((if i = 0 then m.1.set 2 30 else m.1, m.2 ++ [(e.map (·.2)).getD 0]), false)

theorem C04_cex_array_range_aliases :
    (loopSlice (fun m i => m.1[i]?) d4Body 4 (newSliceIter 3) ([1, 2, 3], []) 0).1.2 = [1, 2, 30] ∧
    (goRangeArray (fun m i => m.1[i]?) d4Body ([1, 2, 3], []) 3 0 ([1, 2, 3], []) 0).1.2 = [1, 2, 3] := by
  decide

theorem C04_array_range_readonly {M V : Type} (read : M → Nat → Option V)
    (body : Nat → Option (Nat × V) → M → M × Bool) (hro : ∀ j e m, read (body j e m).1 = read m) (n : Nat) (m : M) :
    loopSlice read body (n+1) (newSliceIter n) m 0 = goRangeArray read body m n 0 m 0 := by
  rw [loopSlice_eq_goRange, goRangeArray_eq_slice_of_readonly read body m hro n 0 m 0 rfl]

end GoCo.C04
