/-
  C08 - Runtime combinators implement the documented resumption-monad semantics.

  Full statement: for every term over Start, Bind, BindRecv, Delay, Combine, For/While/Loop, Normal,
  Break, Continue, Return, ReturnValue (thunks, conditions and posts arbitrary stateful, possibly
  panicking functions over an arbitrary store), every store, every consumer history: the model of
  seq.go (`Machine`, `Gen`) produces the yields, the store effects (hence order and number of thunk /
  condition / post evaluations - take the store to be an event log) and the result of the reference
  interpreter `ref`.  Proved at full strength, no guard: `C08_machine_refines_ref`, `C08_histories`.
  The laws named in the property are proved of `ref` and transfer through the refinement.
-/
import GoCo.Runtime.Gen
import GoCo.Runtime.Concrete
set_option autoImplicit false

namespace GoCo.C08
open GoCo
variable {σ V P : Type} [Inhabited V]

/-- the machine refines the reference interpreter: all terms, continuations, stores, budgets -/
theorem C08_machine_refines_ref (N : Nat) (t : Term σ V P) (k : Cont σ V P) (st : σ) :
    Match N (ref N t st) k (.eval t k st) := machine_refines_ref N t k st

/-- all consumer histories on `Start t` -/
theorem C08_histories (N : Nat) (t : Term σ V P) (ops : List (Op V)) (st : σ) :
    ∃ d', Rel N d' (absRun (AbsGen.start N t) st ops).1 ∧
      ∃ fuel, ∀ extra, genRun N (fuel + extra) (Gen.start t) st ops
        = some (d', (absRun (AbsGen.start N t) st ops).2) :=
  genRun_refines N ops _ _ (rel_start N t) st

/-! ### the laws -/

/-- Combine is associative -/
theorem combine_assoc (N : Nat) (a b c : Term σ V P) (st : σ) :
    ref N (.combine (.combine a b) c) st = ref N (.combine a (.combine b c)) st := by
  simp only [ref, Res.bind_assoc]
  congr; funext s v st'
  by_cases h : s = .normal
  · simp [h]
  · simp [h, Res.bind]

/-- Normal is a left unit of Combine -/
theorem normal_left_unit (N : Nat) (v : V) (b : Term σ V P) (st : σ) :
    ref N (.combine (.sig .normal v) b) st = ref N b st := by
  simp [ref, Res.bind]

/-- Normal is a right unit of Combine (a Normal completion carries the zero value) -/
theorem normal_right_unit (N : Nat) (a : Term σ V P) (st : σ) :
    ref N (.combine a (.sig .normal default)) st =
      (ref N a st).bind (fun s v st' => .done s (if s = .normal then default else v) st') := by
  simp only [ref]
  congr; funext s v st'
  by_cases h : s = .normal <;> simp [h]

/-- Break / Continue / Return skip the rest of a Combine -/
theorem combine_skips (N : Nat) (s : Sig) (hs : s ≠ .normal) (v : V) (b : Term σ V P) (st : σ) :
    ref N (.combine (.sig s v) b) st = .done s v st := by
  simp [ref, Res.bind, hs]

/-- the rest of a Combine does not run when the first part completes abnormally, whatever it is -/
theorem combine_skips_general (N : Nat) (a b : Term σ V P) (st : σ) :
    ref N (.combine a b) st = (ref N a st).bind fun s v st' =>
      if s = .normal then ref N b st' else .done s v st' := rfl

/-- a loop does not evaluate its post statement before the first iteration -/
theorem loop_no_post_before_first (c : Option (σ → CondR P × σ)) (p : Option (σ → Option P × σ)) (st : σ) :
    loopHead c p true st = loopHead c none true st := by
  cases p <;> rfl

/-- the first thing a loop does is evaluate its condition in the incoming store -/
theorem loop_first_iteration (N : Nat) (c : Option (σ → CondR P × σ)) (p : Option (σ → Option P × σ))
    (body : Term σ V P) (st : σ) :
    ref (N + 1) (.loop c p body) st =
      match loopHead c none true st with
      | .stop st2 => .done .normal default st2
      | .panic e st2 => .panic e st2
      | .go st2 => (ref (N + 1) body st2).bind fun s v st3 =>
          match s with
          | .normal | .cont => loopRef c p (ref (N + 1) body) N false st3
          | .brk => .done .normal default st3
          | .ret => .done .ret v st3 := by
  simp only [ref, loopRef, loop_no_post_before_first]
  rfl

/-- after Normal and after Continue the loop evaluates post, then the condition; Break completes the
    loop with Normal; Return propagates with its value -/
theorem loop_post_after_normal_and_continue (c : Option (σ → CondR P × σ))
    (p : σ → Option P × σ) (body : σ → Res σ V P) (n : Nat) (st : σ) :
    loopRef c (some p) body (n + 1) false st =
      match p st with
      | (some e, st1) => .panic e st1
      | (none, st1) =>
          match loopHead c none true st1 with
          | .stop st2 => .done .normal default st2
          | .panic e st2 => .panic e st2
          | .go st2 => (body st2).bind fun s v st3 =>
              match s with
              | .normal | .cont => loopRef c (some p) body n false st3
              | .brk => .done .normal default st3
              | .ret => .done .ret v st3 := by
  simp only [loopRef, loopHead]
  cases hp : p st with
  | mk e st1 =>
    cases e with
    | some e => rfl
    | none => simp only; cases c <;> rfl

/-! ### non-vacuity: a concrete stateful term on which refinement, laws and histories are exercised -/

/-- `for c0 := 0; c0 < 3 (counted by the condition); c0++ { yield c0 }` followed by `return 9` -/
def demo : CTerm :=
  .combine
    (.loop (some ⟨⟨1, [.inc 2], none⟩, 2, 4⟩) (some ⟨2, [.inc 0], none⟩)
      (.delay ⟨3, [], none⟩ (.bind (.cell 0) ⟨4, [], none⟩ .normal)))
    (.retv (.const 9))

example : (absRun (AbsGen.start 100 (build demo {})) ({} : Store)
      [.moveNext, .current, .moveNext, .moveNext, .moveNext, .result]).2.2
    = [.bool true, .val 0, .bool true, .bool true, .bool false, .val 9] := by decide

end GoCo.C08
