/-
  C07 - The optimisation pass never changes observable behaviour.

  Full statement: for every program accepted by the rewriter, `tgtSem (optimize t) = tgtSem t` for the
  intermediate output `t`, and the same for user closures in the file.
  Proved so far (`_partial`): the eta-reduction half, for **all** target programs (no guard):
  `C07_eta_sound` - replacing `func() Seq { return seq.X() }` by `seq.X` preserves the meaning of every
  statement list, for source and target execution.  The Delay-elision half is stated (`C07_delay_full`)
  and currently carried by correspondences K5 (Lean `optimize` on the real intermediate AST = the real
  final AST) and K6d (real intermediate package vs real final package).
  Not modelled: eta-reduction of *user* closures (method values, function variables, builtins,
  conversions) - see DESIGN.md D9 and property C13.
-/
import GoCo.Proofs.Eta
set_option autoImplicit false

namespace GoCo.C07
open GoCo GoCo.MG
variable {σ P : Type}

theorem C07_eta_sound (ρ : Interp σ P) (N : Nat) (susp : Bool) (ss : Stmts) (st : σ) :
    denL ρ N susp (etaStmts ss) st = denL ρ N susp ss st := etaStmts_sem ρ N susp ss st

/-- the part still to be proved: Delay elision on generated shapes -/
def C07_delay_full : Prop :=
  ∀ (σ P : Type) (ρ : Interp σ P) (N : Nat) (q : Quirks) (src out : Stmts), compile q src = .ok out →
    ∀ st, denL ρ N false (odStmts out) st = denL ρ N false out st

/-- non-vacuity: the optimiser does change generated code -/
example : optimize (.cons (.rete (.start (.delay (.lam (.cons (.rete (.bind ⟨true, 1⟩
      (.lam (.cons (.rete (.sig .normal)) .nil)))) .nil))))) .nil)
    = .cons (.rete (.start (.bind ⟨true, 1⟩ (.fn .normal)))) .nil := rfl

end GoCo.C07
