/-
  C07 - The optimisation pass never changes observable behaviour.

  * `C07_optimize_sound` (= `optimize_sem`): PROVED - Delay elision followed by eta-reduction preserves
    the meaning of every statement list of well-formed generated code, for every interpretation of the
    atoms, store, loop budget and consumer: same resumption tree, i.e. no expression is evaluated earlier,
    later, more or less often.
  * `C07_compiled_is_wellformed` (= `compile_wo`): PROVED - whatever the compiler emits (for any body
    without `fallthrough`, including switches) is well-formed: every Combine / For argument is pure to
    construct.  This is the side condition of the whitelist entries Combine / For / Loop / While, which the
    optimiser does not check itself.
  * `C07_delay_full`: PROVED - the two composed: for every compiled body, optimising changes nothing.
  * `C07_eta_sound`: the eta half alone needs no well-formedness.
  * `C07_unsound_without_shape`: kernel-checked - on code that is NOT of the generated shape (a Combine
    whose argument is a Bind of a non-literal) the elision moves an evaluation: the side condition is
    necessary, not a proof artefact.
  Partial / not modelled: eta-reduction of *user* closures (sound only for stable callees; repaired in
  /repo by 9231456 and exercised by templates EtaShapes, EtaMethodValue, EtaFuncVariable, EtaBuiltin);
  import clean-up (observed: go build / go vet of every generated package).
-/
import GoCo.Proofs.OptimizeCorrect
import GoCo.Compile.VM
set_option autoImplicit false

namespace GoCo.C07
open GoCo GoCo.MG
variable {σ P : Type}

theorem C07_eta_sound (ρ : Interp σ P) (N : Nat) (susp : Bool) (ss : Stmts) (st : σ) :
    denL ρ N susp (etaStmts ss) st = denL ρ N susp ss st := etaStmts_sem ρ N susp ss st

theorem C07_optimize_sound (ρ : Interp σ P) (N : Nat) (susp : Bool) (ss : Stmts) (h : woL ss = true) (st : σ) :
    denL ρ N susp (optimize ss) st = denL ρ N susp ss st := optimize_sem ρ N susp ss h st

theorem C07_compiled_is_wellformed (q : Quirks) (body t : Stmts) (hs : woL body = true)
    (h : compile q body = .ok t) : woL t = true := compile_wo q body t hs h

/-- the property for compiled code: the optimised output behaves exactly like the intermediate output -/
def C07_delay_full : Prop :=
  ∀ (σ P : Type) (ρ : Interp σ P) (N : Nat) (q : Quirks) (src out : Stmts), woL src = true →
    compile q src = .ok out → ∀ susp st, denL ρ N susp (optimize out) st = denL ρ N susp out st

theorem C07_delay_full_holds : C07_delay_full :=
  fun _ _ ρ N q src out hs h susp st => optimize_sem ρ N susp out (compile_wo q src out hs h) st

/-! ### non-vacuity -/

/-- the optimiser does change generated code -/
example : optimize (.cons (.rete (.start (.delay (.lam (.cons (.rete (.bind ⟨true, 1⟩
      (.lam (.cons (.rete (.sig .normal)) .nil)))) .nil))))) .nil)
    = .cons (.rete (.start (.bind ⟨true, 1⟩ (.fn .normal)))) .nil := rfl

/-- a compiled body with nested elisions: `for C(1) { Yield(1) }; Yield(2); return` -/
def demo : Stmts :=
  .cons (.for_ none (some ⟨1, []⟩) none (.cons (.simple (.yield ⟨true, 1⟩)) .nil))
  (.cons (.simple (.yield ⟨true, 2⟩)) (.cons .ret .nil))

example : woL demo = true := by decide
def topIsDelay : Stmts → Bool
  | .cons (.rete (.start (.delay _))) .nil => true
  | _ => false
/-- the intermediate output starts `Start(Delay(..))`, the optimised one `Start(Combine(..))` -/
example : (match compile currentQuirks demo with
    | .ok t => topIsDelay t && !topIsDelay (optimize t) | .error _ => false) = true := by decide

/-! ### the shape condition is necessary -/

/-- `return Combine(Delay(func(){ return Bind(V(7), Normal) }), Normal())` is generated shape; with the inner
    Delay hand-removed, `Delay(func(){ return Combine(Bind(V(7), ..), ..) })` is not: eliding the outer Delay
    would evaluate V(7) when the combinator is constructed -/
def badShape : SExp :=
  .delay (.lam (.cons (.rete (.combine (.bind ⟨false, 7⟩ (.fn .normal)) (.sig .normal))) .nil))

example : woX badShape = false := by decide

/-- an interpretation that counts evaluations of V in the store -/
def ρc : Interp Nat Unit where
  act _ st := (none, st)
  pact _ st := (none, st)
  bpanic _ st := ((), st)
  def_ _ st := (none, st)
  val n st := (.ok n, st + 1)
  cond _ st := (.ok true, st)
  tag _ st := (.ok 0, st)

theorem C07_unsound_without_shape :
    (evalS ρc 3 (odSExp badShape) 0).2 ≠ (evalS ρc 3 badShape 0).2 := by decide

end GoCo.C07
