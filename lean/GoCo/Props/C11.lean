/-
  C11 - The compiler accepts the whole supported subset (and its output builds).

  * `C11_accepts` (= `compile_total`): PROVED for every generator body of the model's grammar - simple
    statements, blocks, if / else-if chains, expression switches (tagged or tag-less, with or without an
    init statement, yields in any case), all for-loop forms (init / cond / post present or absent, yields
    in init, body and post), break / continue / return at any position, arbitrary nesting - provided
    it has no `fallthrough` statement and no yield in an if initialiser (both rejected with a diagnostic):
    the per-function pipeline pass0 → pass2 → pass3 returns a result.
    No assertion of the rewriter's block bookkeeping fires (`Ready` / `Inv` invariants), the copy of
    go/types' termination checker never panics, pass3 finds a target for every branch statement.
    The theorem holds for every tree whose five defect flags are off (`QOk`), in particular for
    `currentQuirks`, the tree under verification after the fix commits.
  * `C11_pinned_*`: on the PINNED tree the statement was false - kernel-checked: the compiler model with
    the pinned flags rejects the four witness programs of findings D10a-d with the panic messages the
    real compiler gave.  (The fifth, D11a, was accepted but produced a thunk without a final return:
    `C11_pinned_D11a_unbuildable`.)
  * `C11_output_builds` (= `compile_total` + `compile_buildable`): PROVED - for every parsed body of the
    grammar the output exists AND is `Buildable`: every function literal the rewriter emits (the Start
    thunk, every Bind callback, both halves of every Combine, every For body, every hoisted block) ends in a
    statement that go/types accepts as terminating (no "missing return"), and after pass3 no break /
    continue / fallthrough is left outside a native loop / switch.  The two defects of this class found on
    the pinned tree (D11a: yielding switch as last statement; D16: Bind callback after a yield in a for /
    switch init) are exactly failures of this theorem: `C11_pinned_D11a_unbuildable` shows that the
    hypothesis `switchLastGetsNoNormal = false` is necessary.
  Partial: "the generated files type-check and build" beyond the structural `Buildable` (types, unused
  variables and imports, redeclarations - finding D11b) is go/types' judgement - observed on every generated
  package (K6build, templates), not proved; import styles and declaration kinds (function, method, generic,
  literal) are exercised by templates, not modelled.
-/
import GoCo.Proofs.Total
import GoCo.Compile.Guard
import GoCo.Proofs.Build
set_option autoImplicit false

namespace GoCo.C11
open GoCo GoCo.MG

theorem C11_accepts (body : Stmts) (hg : InGrammar body = true) : ∃ t, compile currentQuirks body = .ok t :=
  compile_total_current body hg

/-- for every repaired tree, not just the current flag setting -/
theorem C11_accepts_any (q : Quirks) (hq : QOk q) (body : Stmts) (hg : InGrammar body = true) :
    ∃ t, compile q body = .ok t := compile_total q hq body hg

/-- the output exists and builds (control-flow part of go/types' judgement) -/
theorem C11_output_builds (body : Stmts) (hg : InGrammar body = true) (hp : plainL body = true) :
    ∃ t, compile currentQuirks body = .ok t ∧ Buildable t = true := by
  obtain ⟨t, ht⟩ := compile_total_current body hg
  exact ⟨t, ht, compile_buildable currentQuirks qok_current rfl body t hp ht⟩

theorem C11_output_builds_any (q : Quirks) (hq : QOk q) (hsw : q.switchLastGetsNoNormal = false) (body : Stmts)
    (hg : InGrammar body = true) (hp : plainL body = true) :
    ∃ t, compile q body = .ok t ∧ Buildable t = true := by
  obtain ⟨t, ht⟩ := compile_total q hq body hg
  exact ⟨t, ht, compile_buildable q hq hsw body t hp ht⟩

/-! ### non-vacuity: a body using every construct of the grammar is inside the guard -/

/-- `for d1 := V(1); ; Yield(2) { switch { case 1: Yield(3); if C(4) { break }; default: A(5) } };
     switch A(6); T(7) { case 2: if C(8) { Yield(9) } else if C(10) { continue } }; for { A(11); break }; return` -/
def demo : Stmts :=
  .cons (.for_ (some (.def_ 1)) none (some (.yield ⟨false, 2⟩))
    (.cons (.switch none none
      (.cons false [1] (.cons (.simple (.yield ⟨false, 3⟩)) (.cons (.ifs none ⟨4, []⟩ (.cons .brk .nil) .none) .nil))
      (.cons true [] (.cons (.simple (.act 5)) .nil) .nil))) .nil))
  (.cons (.switch (some (.act 6)) (some ⟨7, []⟩)
    (.cons false [2] (.cons (.ifs none ⟨8, []⟩ (.cons (.simple (.yield ⟨true, 9⟩)) .nil)
      (.elif (.ifs none ⟨10, []⟩ (.cons .cont .nil) .none))) .nil) .nil))
  (.cons (.for_ none none none (.cons (.simple (.act 11)) (.cons .brk .nil)))
  (.cons .ret .nil)))

example : InGrammar demo = true ∧ plainL demo = true := by decide
example : (compile currentQuirks demo).toBool = true := by decide

/-! ### the pinned tree violated the property (findings D10a-d, D11a; repaired by fix commits) -/

/-- D10a `if C(1) { Yield(1); for { A(2); break } }; return` -/
def wD10a : Stmts :=
  .cons (.ifs none ⟨1, []⟩ (.cons (.simple (.yield ⟨true, 1⟩))
    (.cons (.for_ none none none (.cons (.simple (.act 2)) (.cons .brk .nil))) .nil)) .none) (.cons .ret .nil)
/-- D10b `switch { case 1: Yield(1) }; return` -/
def wD10b : Stmts :=
  .cons (.switch none none (.cons false [1] (.cons (.simple (.yield ⟨true, 1⟩)) .nil) .nil)) (.cons .ret .nil)
/-- D10c `switch T(1) { case 0: if C(2) {} }; Yield(1); return` -/
def wD10c : Stmts :=
  .cons (.switch none (some ⟨1, []⟩) (.cons false [0] (.cons (.ifs none ⟨2, []⟩ .nil .none) .nil) .nil))
    (.cons (.simple (.yield ⟨true, 1⟩)) (.cons .ret .nil))
/-- D10d `for ; ; A(2) { Yield(1) }; return` -/
def wD10d : Stmts :=
  .cons (.for_ none none (some (.act 2)) (.cons (.simple (.yield ⟨true, 1⟩)) .nil)) (.cons .ret .nil)
/-- D11a `for C(1) { switch T(2) { case 0: Yield(1) } }; return` -/
def wD11a : Stmts :=
  .cons (.for_ none (some ⟨1, []⟩) none
    (.cons (.switch none (some ⟨2, []⟩) (.cons false [0] (.cons (.simple (.yield ⟨true, 1⟩)) .nil) .nil)) .nil))
    (.cons .ret .nil)

example : InGrammar wD10a = true ∧ InGrammar wD10b = true ∧ InGrammar wD10c = true ∧ InGrammar wD10d = true ∧
    InGrammar wD11a = true := by decide

theorem C11_pinned_D10a : compile pinnedQuirks wD10a = .error "labelled break not supported" := rfl
theorem C11_pinned_D10b : compile pinnedQuirks wD10b = .error "invalid switch" := rfl
theorem C11_pinned_D10c : compile pinnedQuirks wD10c = .error "illegal state" := rfl
theorem C11_pinned_D10d : compile pinnedQuirks wD10d = .error "nil condition with post" := rfl

def outBuildable (r : Except String Stmts) : Bool :=
  match r with
  | .ok t => Buildable t
  | .error _ => false

theorem C11_pinned_D11a_unbuildable : outBuildable (compile pinnedQuirks wD11a) = false := by decide
theorem C11_fixed_D11a_buildable : outBuildable (compile currentQuirks wD11a) = true := by decide
theorem C11_fixed_witnesses_buildable :
    outBuildable (compile currentQuirks wD10a) = true ∧ outBuildable (compile currentQuirks wD10b) = true ∧
    outBuildable (compile currentQuirks wD10c) = true ∧ outBuildable (compile currentQuirks wD10d) = true := by decide

end GoCo.C11
