/-
  Compiler layer, part 1: the mini-Go AST - one AST for source and target, because the rewriter is Go → Go.

  Atoms (mode A): `A(n)` effect, `P(n)` panicking call, `panic(PV(n))` builtin panic, `d<n> := V(n)` define,
  `Yield(e)`, conditions `C(n, uses…)`, switch tags `T(n, uses…)`, yielded expressions `V(n)` / literal.
  Their meaning is a parameter of the semantics (GoCo/Compile/Sem.lean); the harness instantiates it with
  the VM of harness/scratch/vm.
-/
import GoCo.Runtime.Term
set_option autoImplicit false

namespace GoCo.MG
open GoCo

structure VExp where
  lit : Bool
  n : Nat
deriving Repr, DecidableEq, Inhabited

inductive Simple
  | act (n : Nat) | pact (n : Nat) | bpanic (n : Nat) | def_ (n : Nat) | yield (e : VExp) | empty
deriving Repr, DecidableEq, Inhabited

structure CondE where
  n : Nat
  uses : List Nat
deriving Repr, DecidableEq, Inhabited

mutual
  inductive Stmt : Type where
    | simple (s : Simple)
    | block (ss : Stmts)
    | ifs (init : Option Simple) (c : CondE) (thn : Stmts) (els : Else)
    | switch (init : Option Simple) (tag : Option CondE) (cases : Cases)
    | for_ (init : Option Simple) (cond : Option CondE) (post : Option Simple) (body : Stmts)
    | brk | cont | fallthrough
    | ret                                  -- source: `return nil`
    | rete (e : SExp)                      -- target: `return <seq expression>`
    | unknown (text : String)
  inductive Stmts : Type where
    | nil
    | cons (s : Stmt) (r : Stmts)
  inductive Else : Type where
    | none
    | els (ss : Stmts)
    | elif (s : Stmt)
  inductive Cases : Type where
    | nil
    | cons (dflt : Bool) (ks : List Nat) (body : Stmts) (r : Cases)
  inductive SExp : Type where
    | sig (s : Sig)
    | bind (e : VExp) (th : Thunk)
    | delay (th : Thunk)
    | combine (a b : SExp)
    | loop (c : Option CondE) (p : Option Simple) (body : SExp)
    | start (a : SExp)
    | unknown (text : String)
  inductive Thunk : Type where
    | lam (ss : Stmts)
    | fn (s : Sig)
end

instance : Inhabited Stmt := ⟨.simple .empty⟩
instance : Inhabited Stmts := ⟨.nil⟩
instance : Inhabited SExp := ⟨.sig .normal⟩

def Stmts.ofList : List Stmt → Stmts
  | [] => .nil
  | s :: r => .cons s (Stmts.ofList r)

def Stmts.toList : Stmts → List Stmt
  | .nil => []
  | .cons s r => s :: r.toList

def Stmts.isNil : Stmts → Bool
  | .nil => true
  | _ => false

def Stmts.snoc : Stmts → Stmt → Stmts
  | .nil, s => .cons s .nil
  | .cons x r, s => .cons x (r.snoc s)

def Stmts.append : Stmts → Stmts → Stmts
  | .nil, b => b
  | .cons x r, b => .cons x (r.append b)

def Simple.isYield : Simple → Bool
  | .yield _ => true
  | _ => false

def Simple.isDefine : Simple → Bool
  | .def_ _ => true
  | _ => false

def optIsYield : Option Simple → Bool
  | some s => s.isYield
  | none => false

def optIsDefine : Option Simple → Bool
  | some s => s.isDefine
  | none => false

end GoCo.MG
