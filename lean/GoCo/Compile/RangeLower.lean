/-
  The two range lowerings of the rewriter, as syntax transformations with a scoped-variable semantics:

   * `lowerGen`  = rewriter/range.go `rewriteRangeToForIter`: a range over a string / slice / array / map /
     channel / integer inside a generator becomes
        it := NewXxxIter(X); for it.MoveNext() { k, v tok= it.Current().Key, it.Current().Val; BODY }
     with BODY nested in its own block for `:=` and spliced into the loop block for `=`;
   * `lowerConsumer` = rewriter/rewrite.go `rewriteForRange`: a range over an iterator becomes
        for it := X; it.MoveNext(); { v tok= it.Current(); body statements... }
     always spliced.

  Variables live in frames (one per block); `:=` of a name that the innermost frame already declares is the
  compile error "no new variables on left side of :=", `=` of an undeclared name is an error too.  Bodies are
  syntax (`:=`, `=`, nested blocks, conditionals, break, continue), so a body may redeclare the loop variables.
  The generated iterator variable `it` is not a user-visible name (gensym, C15) and is kept outside the
  environment: the loops consume the list of pairs the iterator delivers (that the lowered loop pulls exactly
  those and nothing further is `C04_lowered_loop` / `C06_no_overpull`).
-/
set_option autoImplicit false

namespace GoCo.RL

abbrev Name := Nat

inductive Expr
  | lit (n : Int)
  | var (x : Name)
  | add (a b : Expr)
deriving Repr, DecidableEq

inductive Tok | define | assign
deriving Repr, DecidableEq

mutual
  inductive BStmt : Type where
    | set (tok : Tok) (x : Name) (e : Expr)       -- x := e  /  x = e
    | block (ss : BStmts)
    | ifpos (e : Expr) (thn : BStmts)            -- if e > 0 { thn }
    | brk
    | cont
  inductive BStmts : Type where
    | nil
    | cons (s : BStmt) (r : BStmts)
end

abbrev Frame := List (Name × Int)
abbrev Frames := List Frame

def lookupF (x : Name) : Frame → Option Int
  | [] => none
  | (y, v) :: r => if y = x then some v else lookupF x r

def lookup (x : Name) : Frames → Option Int
  | [] => none
  | f :: fs => match lookupF x f with
    | some v => some v
    | none => lookup x fs

def eval : Expr → Frames → Option Int
  | .lit n, _ => some n
  | .var x, fs => lookup x fs
  | .add a b, fs => do pure ((← eval a fs) + (← eval b fs))

def updF (x : Name) (v : Int) : Frame → Option Frame
  | [] => none
  | (y, w) :: r => if y = x then some ((y, v) :: r) else do pure ((y, w) :: (← updF x v r))

/-- `x = v`: the innermost declaration of x; an error when there is none -/
def assign (x : Name) (v : Int) : Frames → Option Frames
  | [] => none
  | f :: fs => match updF x v f with
    | some f' => some (f' :: fs)
    | none => do pure (f :: (← assign x v fs))

/-- `x := v` in the innermost frame; "no new variables" when that frame declares x already -/
def define (x : Name) (v : Int) : Frames → Option Frames
  | [] => none
  | f :: fs => if (lookupF x f).isSome then none else some (((x, v) :: f) :: fs)

def setVar (tok : Tok) (x : Name) (v : Int) (fs : Frames) : Option Frames :=
  match tok with
  | .define => define x v fs
  | .assign => assign x v fs

inductive Ctl | next | brk | cont
deriving Repr, DecidableEq

def pop : Frames → Option Frames
  | [] => none
  | _ :: fs => some fs

mutual
  def execS : BStmt → Frames → Option (Frames × Ctl)
    | .set tok x e, fs => do
        let v ← eval e fs
        pure (← setVar tok x v fs, .next)
    | .block ss, fs => do
        let (fs', c) ← execL ss ([] :: fs)
        pure (← pop fs', c)
    | .ifpos e thn, fs => do
        if (← eval e fs) > 0 then do
          let (fs', c) ← execL thn ([] :: fs)
          pure (← pop fs', c)
        else pure (fs, .next)
    | .brk, fs => pure (fs, .brk)
    | .cont, fs => pure (fs, .cont)
  def execL : BStmts → Frames → Option (Frames × Ctl)
    | .nil, fs => pure (fs, .next)
    | .cons s r, fs => do
        let (fs', c) ← execS s fs
        match c with
        | .next => execL r fs'
        | c => pure (fs', c)
end

/-! ### range statements and their meaning (Go spec, "For statements with range clause") -/

/-- `for key, val tok range X { body }`; `none` = omitted or blank -/
structure RangeStmt where
  tok : Tok
  key : Option Name
  val : Option Name
  body : BStmts

def setOpt (tok : Tok) (x : Option Name) (v : Int) (fs : Frames) : Option Frames :=
  match x with
  | none => some fs
  | some x => setVar tok x v fs

/-- one iteration of the range statement for the element (k, v): `:=` declares the iteration variables in a
    scope of their own that encloses the body block; `=` assigns to the variables in scope -/
def specIter (r : RangeStmt) (kv : Int × Int) (fs : Frames) : Option (Frames × Ctl) := do
  match r.tok with
  | .define =>
    if r.key.isNone && r.val.isNone then
      -- `for range X { }`: no iteration variables, no scope for them
      execS (.block r.body) fs
    else
      let fs1 ← setOpt .define r.key kv.1 ([] :: fs)
      let fs2 ← setOpt .define r.val kv.2 fs1
      let (fs3, c) ← execS (.block r.body) fs2
      pure (← pop fs3, c)
  | .assign =>
      let fs1 ← setOpt .assign r.key kv.1 fs
      let fs2 ← setOpt .assign r.val kv.2 fs1
      execS (.block r.body) fs2

def loopOver (iter : Int × Int → Frames → Option (Frames × Ctl)) : List (Int × Int) → Frames → Option Frames
  | [], fs => some fs
  | kv :: rest, fs => do
      let (fs', c) ← iter kv fs
      match c with
      | .brk => pure fs'
      | _ => loopOver iter rest fs'

def specLoop (r : RangeStmt) : List (Int × Int) → Frames → Option Frames := loopOver (specIter r)

/-! ### the lowered loops -/

/-- the body of the generated `for it.MoveNext() { ... }` -/
structure Lowered where
  sets : List (Tok × Name × Bool)      -- the statement `k, v tok= it.Current().Key, .Val`: (tok, name, isKey)
  nested : Bool                         -- the original body in a block of its own, or spliced in
  body : BStmts

/-- rewriteRangeToForIter -/
def lowerGen (r : RangeStmt) : Lowered :=
  match r.key, r.val with
  | none, none => ⟨[], false, r.body⟩
  | some k, none => ⟨[(r.tok, k, true)], r.tok = .define, r.body⟩
  | none, some v => ⟨[(r.tok, v, false)], r.tok = .define, r.body⟩
  | some k, some v => ⟨[(r.tok, k, true), (r.tok, v, false)], r.tok = .define, r.body⟩

/-- rewriteForRange (an iterator delivers single values: the pair's first component) -/
def lowerConsumer (r : RangeStmt) : Lowered :=
  match r.key with
  | none => ⟨[], false, r.body⟩
  | some k => ⟨[(r.tok, k, true)], false, r.body⟩

/-- a two-variable assignment evaluates both right-hand sides first; they are the iterator's current pair, so
    the order is immaterial here -/
def execSets (kv : Int × Int) : List (Tok × Name × Bool) → Frames → Option Frames
  | [], fs => some fs
  | (tok, x, isKey) :: r, fs => do
      execSets kv r (← setVar tok x (if isKey then kv.1 else kv.2) fs)

/-- one iteration of the generated loop: its body is a block -/
def lowIter (l : Lowered) (kv : Int × Int) (fs : Frames) : Option (Frames × Ctl) := do
  let fs1 ← execSets kv l.sets ([] :: fs)
  let (fs2, c) ← (if l.nested then execS (.block l.body) fs1 else execL l.body fs1)
  pure (← pop fs2, c)

def lowLoop (l : Lowered) : List (Int × Int) → Frames → Option Frames := loopOver (lowIter l)

end GoCo.RL
