/-
  The concrete atom machine of the correspondence runs (mirror of harness/scratchfs/files/vm/vm.go),
  and `drain`: what a consumer that pulls `max` values observes, as one event trace.
-/
import GoCo.Compile.Sem
import GoCo.Compile.Compile
set_option autoImplicit false

namespace GoCo.MG
open GoCo

structure VMState where
  cells : List Nat := [0, 0, 0, 0]
  condCnt : List Nat := List.replicate 64 0
  tagCnt : List Nat := List.replicate 64 0
  log : List String := []        -- newest first
  fuel : Int := 0

namespace VMState
def emit (s : VMState) (e : String) : VMState := { s with log := e :: s.log }
/-- `tick()`: `none` = ok -/
def tick (s : VMState) : Option String × VMState :=
  let s' := { s with fuel := s.fuel - 1 }
  if s'.fuel < 0 then (some "fuel", s') else (none, s')
end VMState

def bump (l : List Nat) (i : Nat) : List Nat := l.set i (l.getD i 0 + 1)

def vmInterp : Interp VMState String where
  act n s :=
    match s.tick with
    | (some p, s) => (some p, s)
    | (none, s) => (none, { s.emit s!"a{n}" with cells := bump s.cells (n % 4) })
  pact n s :=
    match s.tick with
    | (some p, s) => (some p, s)
    | (none, s) => (some s!"P{n}", s.emit s!"p{n}")
  bpanic n s :=
    match s.tick with
    | (some p, s) => (p, s)
    | (none, s) => (s!"PV{n}", s.emit s!"pv{n}")
  def_ n s :=
    match s.tick with
    | (some p, s) => (some p, s)
    | (none, s) => (none, s.emit s!"v{n}={n * 10 + s.cells.getD (n % 4) 0}")
  val n s :=
    match s.tick with
    | (some p, s) => (.error p, s)
    | (none, s) => let v := n * 10 + s.cells.getD (n % 4) 0; (.ok v, s.emit s!"v{n}={v}")
  cond n s :=
    match s.tick with
    | (some p, s) => (.error p, s)
    | (none, s) =>
      let c := s.condCnt.getD (n % 64) 0
      let k := 2 + n % 3
      let r := c % k != k - 1
      (.ok r, { s.emit s!"c{n}={r}" with condCnt := bump s.condCnt (n % 64) })
  tag n s :=
    match s.tick with
    | (some p, s) => (.error p, s)
    | (none, s) =>
      let c := s.tagCnt.getD (n % 64) 0
      let r := c % 3
      (.ok r, { s.emit s!"t{n}={r}" with tagCnt := bump s.tagCnt (n % 64) })

/-- vm.Drain: pull up to `max` values, logging consumer-side markers; two more advances after the end -/
def drainFrom {α : Type} (max : Nat) (pending : VMState → Res α VMState String) (st : VMState) : VMState :=
  match max with
  | 0 => st
  | max+1 =>
    match pending (st.emit "M") with
    | .yield v st' resume => drainFrom max resume (st'.emit s!"Y{v}")
    | .done _ st' => (((st'.emit "END").emit "cur=0").emit "M").emit "END2"
    | .panic p st' => st'.emit s!"PANIC({p})"
    | .oob => st.emit "OOB"

def loopBudgetC : Nat := 100000

/-- the source body as a coroutine (pass0's `return` included: `ret` exits) -/
def srcSem {σ P : Type} (ρ : Interp σ P) (N : Nat) (body : Stmts) : σ → Res Flow σ P := denL ρ N true body

def srcTrace (fuel : Nat) (max : Nat) (body : Stmts) : List String :=
  let st0 : VMState := { fuel := fuel }
  (drainFrom max (srcSem vmInterp loopBudgetC body) (st0.emit "START")).log.reverse

/-- a compiled function body `return seq.Start(e)`: constructing the iterator evaluates `e` -/
def tgtTrace (fuel : Nat) (max : Nat) (body : Stmts) : List String :=
  let st0 : VMState := { fuel := fuel }
  match body with
  | .cons (.rete (.start e)) .nil =>
    match evalS vmInterp loopBudgetC e st0 with
    | (.error p, st1) => (st1.emit s!"PANIC({p})").log.reverse
    | (.ok run, st1) => (drainFrom max run (st1.emit "START")).log.reverse
  | _ => ["NOT-A-COMPILED-BODY"]

end GoCo.MG
