/-
  Compiler layer, part 4: pass0, pass3 and the per-function pipeline `compile`
  (rewriter/yield_rewrite.go 82-140, 590-793), and the optimiser (rewriter/optimize.go).
-/
import GoCo.Compile.Pass2
set_option autoImplicit false

namespace GoCo.MG
open GoCo

/-! ### pass0: `return nil` ⇒ `return seq.Return()`, `:=` initialisers of for/switch hoisted -/

mutual
  def p0Stmt : Stmt → Stmt
    | .ret => .rete (.sig .ret)
    | .block ss => .block (p0Stmts ss)
    | .ifs init c thn els => .ifs init c (p0Stmts thn) (p0Else els)
    | .switch init tag cases =>
        match init with
        | some (.def_ n) => .block (.cons (.simple (.def_ n)) (.cons (.switch none tag (p0Cases cases)) .nil))
        | _ => .switch init tag (p0Cases cases)
    | .for_ init cond post body =>
        match init with
        | some (.def_ n) => .block (.cons (.simple (.def_ n)) (.cons (.for_ none cond post (p0Stmts body)) .nil))
        | _ => .for_ init cond post (p0Stmts body)
    | s => s
  def p0Stmts : Stmts → Stmts
    | .nil => .nil
    | .cons s r => .cons (p0Stmt s) (p0Stmts r)
  def p0Else : Else → Else
    | .none => .none
    | .els ss => .els (p0Stmts ss)
    | .elif s => .elif (p0Stmt s)
  def p0Cases : Cases → Cases
    | .nil => .nil
    | .cons d ks body r => .cons d ks (p0Stmts body) (p0Cases r)
end

/-! ### pass3: break / continue that are no longer inside a native loop / switch -/

def dropLast : Stmts → Stmts
  | .nil => .nil
  | .cons _ .nil => .nil
  | .cons s r => .cons s (dropLast r)

def lastStmt? : Stmts → Option Stmt
  | .nil => none
  | .cons s .nil => some s
  | .cons _ r => lastStmt? r

/-- rmRedundantReturn: drop a trailing `return Normal()` when the rest is already terminating -/
def rmRedundantReturn (q : Quirks) (ss : Stmts) : Except String Stmts :=
  match lastStmt? ss with
  | some (.rete (.sig .normal)) => do
      let rest := dropLast ss
      if ← isTerminatingList q rest then pure rest else pure ss
  | _ => pure ss

mutual
  /-- returns the rewritten statement and whether a branch statement was replaced in this literal -/
  def p3Stmt (q : Quirks) (inLoop inSwitch : Bool) : Stmt → Except String (Stmt × Bool)
    | .brk => pure (if inLoop || inSwitch then (.brk, false) else (.rete (.sig .brk), true))
    | .cont => pure (if inLoop then (.cont, false) else (.rete (.sig .cont), true))
    | .fallthrough => if inSwitch then pure (.fallthrough, false) else throw "fallthrough not supported"
    | .block ss => do let (ss', r) ← p3Stmts q inLoop inSwitch ss; pure (.block ss', r)
    | .ifs init c thn els => do
        let (t', r1) ← p3Stmts q inLoop inSwitch thn
        let (e', r2) ← p3Else q inLoop inSwitch els
        pure (.ifs init c t' e', r1 || r2)
    | .switch init tag cases => do
        let (cs', r) ← p3Cases q inLoop true cases
        pure (.switch init tag cs', r)
    | .for_ init cond post body => do
        let (b', r) ← p3Stmts q true inSwitch body
        pure (.for_ init cond post b', r)
    | .rete e => do pure (.rete (← p3SExp q e), false)
    | s => pure (s, false)
  def p3Stmts (q : Quirks) (inLoop inSwitch : Bool) : Stmts → Except String (Stmts × Bool)
    | .nil => pure (.nil, false)
    | .cons s r => do
        let (s', r1) ← p3Stmt q inLoop inSwitch s
        let (r', r2) ← p3Stmts q inLoop inSwitch r
        pure (.cons s' r', r1 || r2)
  def p3Else (q : Quirks) (inLoop inSwitch : Bool) : Else → Except String (Else × Bool)
    | .none => pure (.none, false)
    | .els ss => do let (ss', r) ← p3Stmts q inLoop inSwitch ss; pure (.els ss', r)
    | .elif s => do let (s', r) ← p3Stmt q inLoop inSwitch s; pure (.elif s', r)
  def p3Cases (q : Quirks) (inLoop inSwitch : Bool) : Cases → Except String (Cases × Bool)
    | .nil => pure (.nil, false)
    | .cons d ks body r => do
        let (b', r1) ← p3Stmts q inLoop inSwitch body
        let (r', r2) ← p3Cases q inLoop inSwitch r
        pure (.cons d ks b' r', r1 || r2)
  def p3SExp (q : Quirks) : SExp → Except String SExp
    | .bind e th => do pure (.bind e (← p3Thunk q th))
    | .delay th => do pure (.delay (← p3Thunk q th))
    | .combine a b => do pure (.combine (← p3SExp q a) (← p3SExp q b))
    | .loop c p body => do pure (.loop c p (← p3SExp q body))
    | .start a => do pure (.start (← p3SExp q a))
    | e => pure e
  def p3Thunk (q : Quirks) : Thunk → Except String Thunk
    | .lam ss => do
        let (ss', replaced) ← p3Stmts q false false ss
        if replaced then pure (.lam (← rmRedundantReturn q ss')) else pure (.lam ss')
    | .fn s => pure (.fn s)
end

/-- the quirks of the tree under verification (kept in step with /repo by Facts) -/
def currentQuirks : Quirks := {}

/-- the pinned tree, before the fix commits b8d5ed3 0322e2b 24a7611 ddc5c92 5930b2c -/
def pinnedQuirks : Quirks :=
  { hasBreakPanicsOnUnlabelled := true, taglessYieldSwitchPanics := true, switchKindRejectedByReturnNormal := true,
    switchLastGetsNoNormal := true, nilCondWithPostPanics := true }

/-- rewriteYieldFuncBody: the body of one generator function -/
def compile (q : Quirks) (body : Stmts) : Except String Stmts := do
  let b ← rwStmts q (p0Stmts body) (Blk.mk0 .delay)
  let th ← p3Thunk q (.lam b.toStmts)
  pure (.cons (.rete (.start (.delay th))) .nil)

/-! ### the optimiser (applied to the reloaded intermediate output) -/

/-- optimizeDelayCall's whitelist: what a `Delay(func() Seq { return X })` may be replaced by -/
def noEffectCall : SExp → Bool
  | .delay _ | .combine _ _ | .loop _ _ _ | .sig .ret => true
  | .bind e _ => e.lit
  | _ => false

mutual
  def odStmt : Stmt → Stmt
    | .block ss => .block (odStmts ss)
    | .ifs init c thn els => .ifs init c (odStmts thn) (odElse els)
    | .switch init tag cases => .switch init tag (odCases cases)
    | .for_ init cond post body => .for_ init cond post (odStmts body)
    | .rete e => .rete (odSExp e)
    | s => s
  def odStmts : Stmts → Stmts
    | .nil => .nil
    | .cons s r => .cons (odStmt s) (odStmts r)
  def odElse : Else → Else
    | .none => .none
    | .els ss => .els (odStmts ss)
    | .elif s => .elif (odStmt s)
  def odCases : Cases → Cases
    | .nil => .nil
    | .cons d ks body r => .cons d ks (odStmts body) (odCases r)
  def odSExp : SExp → SExp
    | .bind e th => .bind e (odThunk th)
    | .delay th =>
        -- post-order: the thunk first, then this node
        match odThunk th with
        | .lam (.cons (.rete x) .nil) => if noEffectCall x then x else .delay (.lam (.cons (.rete x) .nil))
        | th' => .delay th'
    | .combine a b => .combine (odSExp a) (odSExp b)
    | .loop c p body => .loop c p (odSExp body)
    | .start a => .start (odSExp a)
    | e => e
  def odThunk : Thunk → Thunk
    | .lam ss => .lam (odStmts ss)
    | .fn s => .fn s
end

mutual
  def etaStmt : Stmt → Stmt
    | .block ss => .block (etaStmts ss)
    | .ifs init c thn els => .ifs init c (etaStmts thn) (etaElse els)
    | .switch init tag cases => .switch init tag (etaCases cases)
    | .for_ init cond post body => .for_ init cond post (etaStmts body)
    | .rete e => .rete (etaSExp e)
    | s => s
  def etaStmts : Stmts → Stmts
    | .nil => .nil
    | .cons s r => .cons (etaStmt s) (etaStmts r)
  def etaElse : Else → Else
    | .none => .none
    | .els ss => .els (etaStmts ss)
    | .elif s => .elif (etaStmt s)
  def etaCases : Cases → Cases
    | .nil => .nil
    | .cons d ks body r => .cons d ks (etaStmts body) (etaCases r)
  def etaSExp : SExp → SExp
    | .bind e th => .bind e (etaThunk th)
    | .delay th => .delay (etaThunk th)
    | .combine a b => .combine (etaSExp a) (etaSExp b)
    | .loop c p body => .loop c p (etaSExp body)
    | .start a => .start (etaSExp a)
    | e => e
  /-- `func() Seq { return f() }` ⇒ `f` -/
  def etaThunk : Thunk → Thunk
    | .lam (.cons (.rete (.sig s)) .nil) => .fn s
    | .lam ss => .lam (etaStmts ss)
    | .fn s => .fn s
end

def optimize (ss : Stmts) : Stmts := etaStmts (odStmts ss)

end GoCo.MG
