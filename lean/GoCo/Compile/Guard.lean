/-
  Compiler layer, part 6: decidable predicates on programs.
  * `Supported`: the guard of the partial correctness theorem on the tree under verification -
    it excludes the two defect classes D6 / D7 of DESIGN.md (known findings), nothing else.
  * `Buildable`: the part of "the output type-checks and builds" a structural model can carry.
-/
import GoCo.Compile.Compile
set_option autoImplicit false

namespace GoCo.MG
open GoCo

mutual
  def stmtHasYield : Stmt → Bool
    | .simple s => s.isYield
    | .block ss => stmtsHaveYield ss
    | .ifs init _ thn els => optIsYield init || stmtsHaveYield thn || elseHasYield els
    | .switch init _ cases => optIsYield init || casesHaveYield cases
    | .for_ init _ post body => optIsYield init || optIsYield post || stmtsHaveYield body
    | _ => false
  def stmtsHaveYield : Stmts → Bool
    | .nil => false
    | .cons s r => stmtHasYield s || stmtsHaveYield r
  def elseHasYield : Else → Bool
    | .none => false
    | .els ss => stmtsHaveYield ss
    | .elif s => stmtHasYield s
  def casesHaveYield : Cases → Bool
    | .nil => false
    | .cons _ _ body r => stmtsHaveYield body || casesHaveYield r
end

/- `contBad`: `continue` here targets a loop whose post statement yields (D6).
   `brkBad`: `break` here targets a switch that contains a yield (D7). -/
mutual
  def supportedS (contBad brkBad : Bool) : Stmt → Bool
    | .cont => !contBad
    | .brk => !brkBad
    | .block ss => supportedL contBad brkBad ss
    | .ifs _ _ thn els => supportedL contBad brkBad thn && supportedE contBad brkBad els
    | .switch init _ cases =>
        supportedC contBad (optIsYield init || casesHaveYield cases) cases
    | .for_ _ _ post body => supportedL (optIsYield post) false body
    | _ => true
  def supportedL (contBad brkBad : Bool) : Stmts → Bool
    | .nil => true
    | .cons s r => supportedS contBad brkBad s && supportedL contBad brkBad r
  def supportedE (contBad brkBad : Bool) : Else → Bool
    | .none => true
    | .els ss => supportedL contBad brkBad ss
    | .elif s => supportedS contBad brkBad s
  def supportedC (contBad brkBad : Bool) : Cases → Bool
    | .nil => true
    | .cons _ _ body r => supportedL contBad brkBad body && supportedC contBad brkBad r
end

def Supported (body : Stmts) : Bool := supportedL false false body

/-- Go's own termination rule (return.go with the label test the right way round) -/
def goQuirks : Quirks := {}

def okB : Except String Bool → Bool
  | .ok b => b
  | .error _ => false

/- every function literal ends in a terminating statement ("missing return" otherwise), and no
   break / continue / fallthrough is left outside a native loop / switch -/
mutual
  def buildableS (inLoop inSwitch : Bool) : Stmt → Bool
    | .brk => inLoop || inSwitch
    | .cont => inLoop
    | .fallthrough => inSwitch
    | .ret => false
    | .unknown _ => false
    | .block ss => buildableL inLoop inSwitch ss
    | .ifs _ _ thn els => buildableL inLoop inSwitch thn && buildableEl inLoop inSwitch els
    | .switch _ _ cases => buildableC inLoop cases
    | .for_ _ _ _ body => buildableL true inSwitch body
    | .rete e => buildableE e
    | .simple _ => true
  def buildableL (inLoop inSwitch : Bool) : Stmts → Bool
    | .nil => true
    | .cons s r => buildableS inLoop inSwitch s && buildableL inLoop inSwitch r
  def buildableEl (inLoop inSwitch : Bool) : Else → Bool
    | .none => true
    | .els ss => buildableL inLoop inSwitch ss
    | .elif s => buildableS inLoop inSwitch s
  def buildableC (inLoop : Bool) : Cases → Bool
    | .nil => true
    | .cons _ _ body r => buildableL inLoop true body && buildableC inLoop r
  def buildableE : SExp → Bool
    | .bind _ th => buildableT th
    | .delay th => buildableT th
    | .combine a b => buildableE a && buildableE b
    | .loop _ _ body => buildableE body
    | .start a => buildableE a
    | .sig _ => true
    | .unknown _ => false
  def buildableT : Thunk → Bool
    | .lam ss => okB (isTerminatingList goQuirks ss) && buildableL false false ss
    | .fn _ => true
end

def Buildable (out : Stmts) : Bool := buildableL false false out

end GoCo.MG
