/-
  The side conditions of the optimiser's eta-reduction on arbitrary (user) closures
  (rewriter/optimize.go `etaReduction`: `matched`, `stable`, `sameType`), as a decision with its rationale.

  `func(params) R { return F(args) }  ⇒  F` moves the evaluation of the callee expression F from every call of
  the closure to the one moment the closure expression is evaluated, and passes the caller's arguments
  positionally.  That is invisible iff  (1) the arguments are exactly the parameters, in order;  (2) F denotes
  the same function whenever it is evaluated, without effects: a declared function (instantiated when generic),
  or a method of a generated iterator variable, which is assigned once;  (3) F has the closure's type;
  (4) the closure is not the function of a deferred call: `defer func(){ return F() }()` runs F one call below
  the deferred function, where `recover()` returns nil (Go spec, "Handling panics": recover must be called
  directly by the deferred function), whereas `defer F()` makes F the deferred function itself.  The flag
  `deferGuard` says whether the optimiser has condition (4) (the pinned tree had not: finding D23).
  A closure in value position may still reach a defer statement later, through a variable or a parameter
  (`h := func() int { return F() }; defer h()`); the optimiser cannot see that and reduces - the open finding
  D25, for which soundness is proved only under the hypothesis that the value is not deferred later.
-/
set_option autoImplicit false

namespace GoCo.EtaD

inductive Callee
  | declared (generic instantiated : Bool)     -- f, f[T]; instantiated = ALL type arguments are written (f[A] of
                                               -- f[A, B any] leaves B to inference from a call: no value in general)
  | pkgFunc (generic instantiated : Bool)      -- pkg.F, pkg.F[T]
  | localVar                                    -- a variable of function type
  | field                                       -- x.f, f of function type
  | methodOfIterVar                             -- ɪʇN.MoveNext: the receiver is a generated iterator variable
  | methodOfUserVar                             -- x.M: the receiver is bound when the method value is taken
  | methodOfExpr                                -- e().M
  | conversion                                  -- T(x)
  | builtin                                     -- len(x)
  | indexed                                     -- tbl[i](x)
  | callResult                                  -- g()(x)
deriving DecidableEq, Repr

inductive Args | same | permuted | duplicated | nonIdent | fewer
deriving DecidableEq, Repr

/-- where the function literal stands: anywhere a value can (assigned, passed, called in place), or as the
    function of a deferred call -/
inductive Pos
  | value (deferredLater : Bool)   -- a value; whether some defer statement later calls it is not visible here
  | deferred                       -- the function of a deferred call
deriving DecidableEq, Repr

def Pos.isDeferredCall : Pos → Bool
  | .deferred => true
  | .value _ => false

structure Closure where
  callee : Callee
  args : Args
  sameType : Bool
  pos : Pos := .value false
deriving DecidableEq, Repr

/-- the callee expression can stand alone as a function value -/
def isValue : Callee → Bool
  | .declared g i => !g || i
  | .pkgFunc g i => !g || i
  | .conversion => false
  | .builtin => false
  | _ => true

/-- optimize.go `stable` -/
def stable : Callee → Bool
  | .declared g i => !g || i
  | .pkgFunc g i => !g || i
  | .methodOfIterVar => true
  | _ => false

/-- the optimiser's decision (`deferGuard = false`: the decision of the pinned tree, finding D23) -/
def etaOKq (deferGuard : Bool) (c : Closure) : Bool :=
  decide (c.args = .same) && stable c.callee && c.sameType && (!deferGuard || !c.pos.isDeferredCall)

def etaOK (c : Closure) : Bool := etaOKq true c

/-! ### rationale: what a call of the closure / of the reduced value observes -/

/-- the part of the program state the callee expression may depend on: the function currently stored in the
    variable / field / receiver / table slot it names -/
structure World where
  stored : Nat

/-- evaluating the callee expression: which function it denotes and how many effects the evaluation has -/
def evalCallee : Callee → World → Option (Nat × Nat)
  | .declared g i, _ => if !g || i then some (0, 0) else none
  | .pkgFunc g i, _ => if !g || i then some (0, 0) else none
  | .methodOfIterVar, _ => some (0, 0)          -- the generated variable is assigned exactly once
  | .localVar, w => some (w.stored, 0)
  | .field, w => some (w.stored, 0)
  | .methodOfUserVar, w => some (w.stored, 0)
  | .indexed, w => some (w.stored, 0)
  | .methodOfExpr, w => some (w.stored, 1)
  | .callResult, w => some (w.stored, 1)
  | .conversion, _ => none
  | .builtin, _ => none

/-- (function called, how the caller's arguments reach it, effects when the value is created, effects per call,
    calls between the deferred function and F - `recover()` inside F stops a panic iff that is 0; 0 as well
    where the literal is not deferred and the language gives the depth no meaning) -/
abbrev Obs := Option (Nat × Args × Nat × Nat × Nat)

def belowDeferred : Pos → Nat
  | .value false => 0
  | .value true => 1
  | .deferred => 1

/-- the closure, created in world w1 and called in world w2: F is evaluated at the call -/
def obsClosure (c : Closure) (_w1 w2 : World) : Obs :=
  match evalCallee c.callee w2 with
  | some (f, e) => some (f, c.args, 0, e, belowDeferred c.pos)
  | none => some (0, c.args, 0, 0, belowDeferred c.pos)   -- conversion / builtin: a fixed operation, applied at the call

/-- the reduced value F: evaluated once at creation, arguments passed positionally, F itself is what is called
    (or deferred); `none` = does not compile -/
def obsReduced (c : Closure) (w1 _w2 : World) : Obs :=
  if !c.sameType then none else
  match evalCallee c.callee w1 with
  | some (f, e) => some (f, .same, e, 0, 0)
  | none => none

/-- **soundness of the side conditions** (partial: for closures that no defer statement calls later - D25):
    whenever the optimiser reduces, nothing can tell the difference - for every state at creation and every
    state at the call -/
theorem etaOK_sound_partial (c : Closure) (h : etaOK c = true) (hnd : c.pos ≠ .value true) (w1 w2 : World) :
    obsReduced c w1 w2 = obsClosure c w1 w2 := by
  obtain ⟨callee, args, sameType, pos⟩ := c
  simp only [etaOK, etaOKq, Bool.and_eq_true, decide_eq_true_eq, Bool.not_true, Bool.false_or] at h
  obtain ⟨⟨⟨ha, hs⟩, ht⟩, hp⟩ := h
  subst ha
  subst ht
  have hpos : belowDeferred pos = 0 := by
    cases pos with
    | deferred => simp [Pos.isDeferredCall] at hp
    | value d => cases d with
      | false => rfl
      | true => exact absurd rfl hnd
  cases callee with
  | declared g i => simp only [stable] at hs; simp [obsReduced, obsClosure, evalCallee, hpos, hs]
  | pkgFunc g i => simp only [stable] at hs; simp [obsReduced, obsClosure, evalCallee, hpos, hs]
  | methodOfIterVar => simp [obsReduced, obsClosure, evalCallee, hpos]
  | _ => cases hs

/-- **D25** (kernel-checked): the full statement is false - a closure in value position that a defer statement
    calls later is reduced, and the reduced value is observably different in every state -/
theorem D25_value_deferred_later :
    etaOK ⟨.declared false false, .same, true, .value true⟩ = true ∧
    ∀ w1 w2, obsReduced ⟨.declared false false, .same, true, .value true⟩ w1 w2
              ≠ obsClosure ⟨.declared false false, .same, true, .value true⟩ w1 w2 :=
  ⟨by decide, fun _ _ => by simp [obsReduced, obsClosure, evalCallee, belowDeferred]⟩

/-- **necessity**: for every callee the decision refuses there are states in which the reduced value is
    observably different from the closure (or does not compile) -/
theorem stable_necessary (callee : Callee) (h : stable callee = false) :
    ∃ w1 w2, obsReduced ⟨callee, .same, true, .value false⟩ w1 w2 ≠ obsClosure ⟨callee, .same, true, .value false⟩ w1 w2 := by
  refine ⟨⟨1⟩, ⟨2⟩, ?_⟩
  cases callee with
  | declared g i => simp only [stable] at h; simp [obsReduced, obsClosure, evalCallee, h]
  | pkgFunc g i => simp only [stable] at h; simp [obsReduced, obsClosure, evalCallee, h]
  | methodOfIterVar => cases h
  | _ => simp [obsReduced, obsClosure, evalCallee]

theorem args_necessary (a : Args) (h : a ≠ .same) (w : World) :
    obsReduced ⟨.declared false false, a, true, .value false⟩ w w ≠ obsClosure ⟨.declared false false, a, true, .value false⟩ w w := by
  cases a <;> simp_all [obsReduced, obsClosure, evalCallee]

theorem type_necessary (w : World) :
    obsReduced ⟨.declared false false, .same, false, .value false⟩ w w ≠ obsClosure ⟨.declared false false, .same, false, .value false⟩ w w := by
  simp [obsReduced, obsClosure, evalCallee]

/-- condition (4) is necessary: reducing the function of a deferred call moves F up to the deferred function
    itself, in every state -/
theorem position_necessary (callee : Callee) (w1 w2 : World) :
    obsReduced ⟨callee, .same, true, .deferred⟩ w1 w2 ≠ obsClosure ⟨callee, .same, true, .deferred⟩ w1 w2 := by
  cases callee <;> simp [obsReduced, obsClosure, evalCallee, belowDeferred] <;> split <;> simp

/-- **D23** (kernel-checked): the decision without condition (4) reduces `defer func() int { return f() }()`
    to `defer f()`, which is observably different -/
theorem D23_pinned_decision_unsound :
    etaOKq false ⟨.declared false false, .same, true, .deferred⟩ = true ∧
    ∀ w1 w2, obsReduced ⟨.declared false false, .same, true, .deferred⟩ w1 w2
              ≠ obsClosure ⟨.declared false false, .same, true, .deferred⟩ w1 w2 :=
  ⟨by decide, position_necessary _⟩

/-- outside deferred position the two decisions coincide -/
theorem etaOKq_value (g : Bool) (c : Closure) (h : c.pos.isDeferredCall = false) : etaOKq g c = etaOK c := by
  simp [etaOK, etaOKq, h]

end GoCo.EtaD
