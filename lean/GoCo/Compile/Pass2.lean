/-
  Compiler layer, part 3: pass0 (return / init hoisting), pass2 (the CPS rewriting proper) with the
  rewriter's block bookkeeping (rewriter/yield_block.go, yield_rewrite.go 142-588).

  The Go code fills mutable blocks through pointers; here every function returns the *finished*
  version of the block it was given.  Where the Go code switches to a fresh nested block (the Bind
  thunk after a yield, the second half of a Combine) the model records a `Frame`, and `plug` builds
  the enclosing statement once the nested block is finished.  Every Go `assert`/`panic` is an
  `Except.error` with the same message.
-/
import GoCo.Compile.Terminating
set_option autoImplicit false

namespace GoCo.MG
open GoCo

/-- yield_block.go: stmtKind -/
inductive Kind | trivial | delay | ifk | switchk | normal | yieldk | combine | fork
deriving DecidableEq, Repr

structure Blk where
  items : List (Stmt × Kind)     -- newest first
  kind : Kind
  frozen : Bool
  combineChecked : Bool

def Blk.mk0 (k : Kind) : Blk := ⟨[], k, false, true⟩

def Blk.toStmts (b : Blk) : Stmts := Stmts.ofList (b.items.reverse.map (·.1))

def Blk.markCombined (b : Blk) : Blk := { b with combineChecked := true }

/-- unchecked push (the checks are made where the Go code makes them) -/
def Blk.pushU (b : Blk) (s : Stmt) (k : Kind) : Blk :=
  { b with items := (s, k) :: b.items, combineChecked := false }

def Blk.checkPush (b : Blk) : Except String Unit :=
  if b.combineChecked && !b.frozen then pure () else throw "illegal state"

def Blk.push (b : Blk) (s : Stmt) (k : Kind) : Except String Blk := do
  b.checkPush
  pure (b.pushU s k)

def Blk.pushReturnU (b : Blk) (e : SExp) (k : Kind) : Blk :=
  { b.pushU (.rete e) k with frozen := true }

def Blk.pushReturn (b : Blk) (e : SExp) (k : Kind) : Except String Blk := do
  b.checkPush
  pure (b.pushReturnU e k)

def Blk.lastKind? (b : Blk) : Option Kind := b.items.head?.map (·.2)

def Blk.mayContainsYield (b : Blk) : Bool :=
  match b.items with
  | [] => false
  | (_, k) :: _ =>
    if k = .yieldk ∨ k = .fork ∨ k = .combine then true
    else b.items.any fun x => decide (x.2 = .ifk ∨ x.2 = .switchk)

def Blk.mustNoYield (b : Blk) : Bool := !b.mayContainsYield

def Blk.combineRequired (b : Blk) : Bool :=
  match b.items with
  | [] => false
  | (_, k) :: _ => k ≠ .trivial

def returnNormalRequired (q : Quirks) (b : Blk) : Except String Bool :=
  if ¬ (b.kind = .delay ∨ b.kind = .fork ∨ b.kind = .ifk ∨
        (b.kind = .switchk ∧ q.switchKindRejectedByReturnNormal = false)) then .error "illegal state"
  else
    match b.items with
    | [] => .ok true
    | (last, k) :: _ =>
      if k = .ifk ∨ k = .switchk ∨ k = .trivial then
        match isTerminating q last with
        | .ok t => .ok (!t)
        | .error e => .error e
      else .ok false

/-- generateLastNormalIfNecessary -/
def genLast (q : Quirks) (b : Blk) : Except String Blk := do
  if ← returnNormalRequired q b then b.markCombined.pushReturn (.sig .normal) .normal
  else pure b

/-- where the Go code continues in a fresh block nested in the statement it has just pushed -/
inductive Frame
  | bindF (cur : Blk) (e : VExp)          -- cur.pushReturn(Bind(e, func() Seq { <following> }))
  | combF (cur : Blk) (first : Blk)       -- cur.pushReturn(Combine(Delay{first}, Delay{<following>}))

def plug1 (fin : Blk) : Frame → Blk
  | .bindF cur e => cur.pushReturnU (.bind e (.lam fin.toStmts)) .yieldk
  | .combF cur first =>
      cur.pushReturnU (.combine (.delay (.lam first.toStmts)) (.delay (.lam fin.toStmts))) .combine

/-- innermost frame first -/
def plug (frames : List Frame) (fin : Blk) : Blk := frames.foldl plug1 fin

/-- combineIfNecessary: returns the block to continue in and the frame (if a Combine was opened) -/
def combineIfNecessary (q : Quirks) (b : Blk) : Except String (Blk × List Frame) := do
  let b := b.markCombined
  match b.items with
  | [] => pure (b, [])
  | (s, k) :: rest =>
    if k = .trivial then pure (b, [])
    else do
      let popped : Blk := { b with items := rest, frozen := false }
      let current ← (Blk.mk0 .delay).push s k
      let current ← genLast q current
      popped.checkPush
      pure (Blk.mk0 .delay, [.combF popped current])

/-- result of rewriteStmt -/
inductive SR
  | stop (children : Blk)                         -- `return nil`: no following
  | go (fol : Blk) (frames : List Frame)          -- continue in `fol`; children = plug frames (finished fol)

/-- the else block contains exactly one `if`: `else { if … }` is merged to `else if …` -/
def unwrapIf : Stmts → Else
  | .cons (.ifs i c t e) .nil => .elif (.ifs i c t e)
  | ss => .els ss

/-- CallFor (yield_ast.go 104-112) -/
def callFor (q : Quirks) (cond : Option CondE) (post : Option Simple) (body : SExp) : Except String SExp :=
  match cond, post with
  | none, some _ => if q.nilCondWithPostPanics then throw "nil condition with post" else pure (.loop cond post body)
  | _, _ => pure (.loop cond post body)

/-- rewriteStmt on a for/switch init statement (a simple statement, isLast = false) -/
def rwInit : Simple → Blk → Except String SR
  | .yield e, cur => do
      cur.checkPush
      pure (.go (Blk.mk0 .delay) [.bindF cur e])
  | .empty, cur => pure (.go cur [])
  | s, cur => do pure (.go (← cur.push (.simple s) .trivial) [])

/-- the pushing half of rewriteIfStmt, given the rewritten branches -/
def ifPush (init : Option Simple) (c : CondE) (thn : Stmts) (els : Else) (body : Blk) (e : Option Blk)
    (cur : Blk) : Except String Blk :=
  match e with
  | none =>
      if body.mustNoYield then cur.push (.ifs init c thn els) .trivial
      else cur.push (.ifs init c body.toStmts .none) .ifk
  | some e =>
      if body.mustNoYield && e.mustNoYield then cur.push (.ifs init c thn els) .trivial
      else cur.push (.ifs init c body.toStmts (unwrapIf e.toStmts)) .ifk

mutual
  def rwStmts (q : Quirks) : Stmts → Blk → Except String Blk
    | .nil, cur => if cur.kind = .delay then genLast q cur else pure cur
    | .cons s rest, cur => do
      let isLast := rest.isNil
      match ← rwStmt q s isLast cur with
      | .stop c => pure c
      | .go fol frames =>
        if isLast then do
          -- `following` is the block the statement went to - after a yield in a for / switch init that is
          -- the Bind callback's body, the one that has to end with a return (196afd9+1: was `children`)
          let fol' ← (if fol.kind = .delay then genLast q fol else pure fol : Except String Blk)
          pure (plug frames fol')
        else do
          let (fol2, frames2) ← combineIfNecessary q fol
          let fin ← rwStmts q rest fol2
          pure (plug frames (plug frames2 fin))

  def rwStmt (q : Quirks) : Stmt → Bool → Blk → Except String SR
    | .simple (.yield e), isLast, cur => do
        cur.checkPush
        if isLast then do
          let fol ← genLast q (Blk.mk0 .delay)
          pure (.stop (cur.pushReturnU (.bind e (.lam fol.toStmts)) .yieldk))
        else pure (.go (Blk.mk0 .delay) [.bindF cur e])
    | .simple .empty, _, cur => pure (.go cur [])
    | .simple s, _, cur => do pure (.go (← cur.push (.simple s) .trivial) [])
    | .brk, _, cur => do pure (.stop (← cur.push .brk .trivial))
    | .cont, _, cur => do pure (.stop (← cur.push .cont .trivial))
    | .fallthrough, _, cur => do pure (.stop (← cur.push .fallthrough .trivial))
    | .ret, _, cur => do pure (.go (← cur.push .ret .trivial) [])
    | .rete e, _, cur => do pure (.go (← cur.push (.rete e) .trivial) [])
    | .unknown t, _, cur => do pure (.go (← cur.push (.unknown t) .trivial) [])
    | .block ss, _, cur => do
        let fol ← rwStmts q ss (Blk.mk0 .delay)
        if fol.mustNoYield then pure (.go (← cur.push (.block ss) .trivial) [])
        else pure (.go (← cur.pushReturn (.delay (.lam fol.toStmts)) .yieldk) [])
    | .ifs init c thn els, isLast, cur => do
        -- the init statement is kept in place: a yield there would stay a no-op stub (rejected since daf3130)
        if optIsYield init then throw "yield not supported"
        let body ← rwStmts q thn (Blk.mk0 .ifk)
        let e ← rwElse q els
        let cur' ← ifPush init c thn els body e cur
        if isLast then pure (.stop (← genLast q cur')) else pure (.go cur' [])
    | .switch init tag cases, isLast, cur => do
        let (newCases, allTrivial) ← rwCases q cases
        let trivialInit := !optIsYield init
        if trivialInit && allTrivial then pure (.go (← cur.push (.switch init tag cases) .trivial) [])
        else do
          -- extract the init statement
          let (cur, frames) ← (match init with
            | none => pure (cur, [])
            | some i => do
              if i.isDefine then throw "illegal state"
              match ← rwInit i cur with
              | .stop _ => throw "illegal state"
              | .go fol fr => pure (fol, fr) : Except String (Blk × List Frame))
          if tag.isNone && q.taglessYieldSwitchPanics then throw "invalid switch"
          if allTrivial then
            pure (.go (← cur.push (.switch none tag cases) .trivial) frames)
          else do
            let (cur, fr2) ← combineIfNecessary q cur
            let cur' ← cur.push (.switch none tag newCases) .switchk
            -- endWithSwitch: a yielding switch ending a block gets the implicit return-normal, like if
            if isLast && !q.switchLastGetsNoNormal then
              pure (.stop (plug (fr2 ++ frames) (← genLast q cur')))
            else pure (.go cur' (fr2 ++ frames))
    | .for_ init cond post body, _, cur => do
        let b ← rwStmts q body (Blk.mk0 .fork)
        let trivialInit := !optIsYield init
        let trivialPost := !optIsYield post
        let trivialBody := b.mustNoYield
        if trivialBody && trivialInit && trivialPost then
          pure (.go (← cur.push (.for_ init cond post body) .trivial) [])
        else do
          let (cur, frames) ← (match init with
            | none => pure (cur, [])
            | some i => do
              if i.isDefine then throw "illegal state"
              match ← rwInit i cur with
              | .stop _ => throw "illegal state"
              | .go fol fr => pure (fol, fr) : Except String (Blk × List Frame))
          if trivialBody && trivialPost then do
            let (cur, fr2) ← combineIfNecessary q cur
            pure (.go (← cur.push (.for_ none cond post body) .trivial) (fr2 ++ frames))
          else if trivialPost then do
            let call ← callFor q cond post (.delay (.lam b.toStmts))
            let (cur, fr2) ← combineIfNecessary q cur
            pure (.go (← cur.pushReturn call .fork) (fr2 ++ frames))
          else do
            let pe ← (match post with
              | some (.yield e) => pure e
              | _ => throw "illegal state" : Except String VExp)
            let normalThunk ← genLast q (Blk.mk0 .delay)
            let b ← (if b.combineRequired then do
                -- Combine(Delay{body}, Delay{post}): isolates the scopes of body and post
                let postBlock := (Blk.mk0 .delay).pushReturnU (.bind pe (.lam normalThunk.toStmts)) .yieldk
                let b ← genLast q b
                (Blk.mk0 .fork).pushReturn
                  (.combine (.delay (.lam b.toStmts)) (.delay (.lam postBlock.toStmts))) .combine
              else do
                let b := b.markCombined
                b.pushReturn (.bind pe (.lam normalThunk.toStmts)) .yieldk : Except String Blk)
            let call ← callFor q cond none (.delay (.lam b.toStmts))
            let (cur, fr2) ← combineIfNecessary q cur
            pure (.go (← cur.pushReturn call .fork) (fr2 ++ frames))

  /-- the else part: `none`, the rewritten else block, or the block holding the rewritten else-if -/
  def rwElse (q : Quirks) : Else → Except String (Option Blk)
    | .none => pure none
    | .els ss => do pure (some (← rwStmts q ss (Blk.mk0 .ifk)))
    | .elif s => do pure (some (← rwIfS q s (Blk.mk0 .ifk)))

  /-- rewriteIfStmt: pushes exactly one statement (the original or the rewritten if) -/
  def rwIfS (q : Quirks) : Stmt → Blk → Except String Blk
    | .ifs init c thn els, cur => do
        if optIsYield init then throw "yield not supported"
        let body ← rwStmts q thn (Blk.mk0 .ifk)
        let e ← rwElse q els
        ifPush init c thn els body e cur
    | _, _ => throw "unreached"

  /-- the case bodies of a switch: rewritten cases and "all trivial" -/
  def rwCases (q : Quirks) : Cases → Except String (Cases × Bool)
    | .nil => pure (.nil, true)
    | .cons d ks body r => do
        let b ← rwStmts q body (Blk.mk0 .switchk)
        let (r', t) ← rwCases q r
        pure (.cons d ks b.toStmts r', b.mustNoYield && t)
end

end GoCo.MG
