/-
  Compiler layer, part 5: semantics of mini-Go.

  * `Res α σ P`: resumption trees with outcomes in `α`.
  * One native executor `denS/denL/…` for source and target.  With `susp = true`, `Yield(e)` suspends:
    that is the source's coroutine semantics (`srcSem`).  With `susp = false`, `Yield` is the no-op stub -
    what a surviving call does in generated code.
  * Native outcomes `Flow = fall | nbrk | ncont | nft | exit s`: break / continue / fallthrough bind to
    the enclosing native loop / switch; `return e` leaves the enclosing function literal with the
    signal of running the Seq value `e`.
  * Seq-typed expressions are evaluated in two phases, as Go does: `evalS` *constructs* the value
    (evaluating `Bind`'s first argument now, left to right; function literals are closures and run
    nothing), `runE` runs a constructed value.  Leaving a literal converts `Flow` to a signal
    (`closeThunk`); before pass3 an unresolved break / continue denotes the signal pass3 turns it into.
  * Loops get an iteration budget `N` (a proof device; every theorem is ∀ N).
-/
import GoCo.Compile.Syntax
set_option autoImplicit false

namespace GoCo.MG
open GoCo

inductive Flow | fall | nbrk | ncont | nft | exit (s : Sig)
deriving DecidableEq, Repr

inductive Res (α σ P : Type) : Type where
  | done (o : α) (st : σ)
  | yield (v : Nat) (st : σ) (resume : σ → Res α σ P)
  | panic (p : P) (st : σ)
  | oob

namespace Res
variable {α β γ σ P : Type}

def bind : Res α σ P → (α → σ → Res β σ P) → Res β σ P
  | .done o st, k => k o st
  | .yield v st r, k => .yield v st (fun st' => (r st').bind k)
  | .panic p st, _ => .panic p st
  | .oob, _ => .oob

theorem bind_assoc (r : Res α σ P) (f : α → σ → Res β σ P) (g : β → σ → Res γ σ P) :
    (r.bind f).bind g = r.bind (fun o st => (f o st).bind g) := by
  induction r with
  | done o st => rfl
  | yield v st r ih => simp only [bind]; congr; funext st'; exact ih st'
  | panic p st => rfl
  | oob => rfl

theorem bind_done (r : Res α σ P) : r.bind (fun o st => .done o st) = r := by
  induction r with
  | done o st => rfl
  | yield v st r ih => simp only [bind]; congr; funext st'; exact ih st'
  | panic p st => rfl
  | oob => rfl

end Res

/-- meaning of the atoms: each evaluation may panic and changes the store -/
structure Interp (σ P : Type) where
  act : Nat → σ → Option P × σ          -- A(n)
  pact : Nat → σ → Option P × σ         -- P(n)
  bpanic : Nat → σ → P × σ              -- panic(PV(n))
  def_ : Nat → σ → Option P × σ         -- d<n> := V(n)
  val : Nat → σ → Except P Nat × σ      -- V(n)
  cond : Nat → σ → Except P Bool × σ    -- C(n, …)
  tag : Nat → σ → Except P Nat × σ      -- T(n, …)

variable {σ P : Type}

def effect {α : Type} (r : Option P × σ) (o : α) : Res α σ P :=
  match r with
  | (none, st) => .done o st
  | (some p, st) => .panic p st

def evalV (ρ : Interp σ P) (e : VExp) (st : σ) : Except P Nat × σ :=
  if e.lit then (.ok e.n, st) else ρ.val e.n st

/-- a simple statement; `susp`: does `Yield` suspend? -/
def denSimple (ρ : Interp σ P) (susp : Bool) : Simple → σ → Res Flow σ P
  | .act n, st => effect (ρ.act n st) .fall
  | .pact n, st => effect (ρ.pact n st) .fall
  | .bpanic n, st => match ρ.bpanic n st with | (p, st') => .panic p st'
  | .def_ n, st => effect (ρ.def_ n st) .fall
  | .yield e, st =>
      match evalV ρ e st with
      | (.error p, st') => .panic p st'
      | (.ok v, st') => if susp then .yield v st' (fun st'' => .done .fall st'') else .done .fall st'
  | .empty, st => .done .fall st

def denInit (ρ : Interp σ P) (susp : Bool) : Option Simple → σ → Res Flow σ P
  | none, st => .done .fall st
  | some s, st => denSimple ρ susp s st

def evalCond (ρ : Interp σ P) : Option CondE → σ → Except P Bool × σ
  | none, st => (.ok true, st)
  | some c, st => ρ.cond c.n st

/-- native `for`: cond; body; post -/
def loopF (cond : σ → Except P Bool × σ) (post : σ → Res Flow σ P) (body : σ → Res Flow σ P) :
    Nat → σ → Res Flow σ P
  | 0, _ => .oob
  | n+1, st =>
    match cond st with
    | (.error p, st1) => .panic p st1
    | (.ok false, st1) => .done .fall st1
    | (.ok true, st1) =>
      (body st1).bind fun o st2 =>
        match o with
        | .fall | .ncont => (post st2).bind fun o' st3 =>
            if o' = .fall then loopF cond post body n st3 else .done o' st3
        | .nbrk => .done .fall st2
        | o => .done o st2

/-- seq.For over signals: post (unless skipped), cond, body.  The budget is tested after the post
    statement, which aligns budget exhaustion with `loopF` (immaterial: every theorem is ∀ N). -/
def loopC (cond : σ → Except P Bool × σ) (post : σ → Res Flow σ P) (body : σ → Res Sig σ P) :
    Nat → Bool → σ → Res Sig σ P
  | 0, skipPost, st => (if skipPost then .done .fall st else post st).bind fun _ _ => .oob
  | n+1, skipPost, st =>
    (if skipPost then .done .fall st else post st).bind fun _ st0 =>
      match cond st0 with
      | (.error p, st1) => .panic p st1
      | (.ok false, st1) => .done .normal st1
      | (.ok true, st1) =>
        (body st1).bind fun s st2 =>
          match s with
          | .normal | .cont => loopC cond post body n false st2
          | .brk => .done .normal st2
          | .ret => .done .ret st2

/-- leaving a `func() Seq` literal -/
def closeThunk : Flow → σ → Res Sig σ P
  | .fall, st => .done .normal st      -- "missing return": excluded by `Buildable`; the runtime would see Normal
  | .nbrk, st => .done .brk st
  | .ncont, st => .done .cont st
  | .nft, st => .done .normal st
  | .exit s, st => .done s st

/-- tagged switch: index of the first clause listing the tag value -/
def matchesTag (v : Nat) (ks : List Nat) : Bool := ks.contains v

/-- tagless switch: evaluate the clause's conditions left to right until one is true -/
def anyCond (ρ : Interp σ P) : List Nat → σ → Except P Bool × σ
  | [], st => (.ok false, st)
  | k :: ks, st =>
    match ρ.cond k st with
    | (.error p, st') => (.error p, st')
    | (.ok true, st') => (.ok true, st')
    | (.ok false, st') => anyCond ρ ks st'

/-- index of the clause a switch enters, scanning top to bottom and skipping `default`
    (tagless: the clause conditions are evaluated, with their effects, until one is true) -/
def selectCase (ρ : Interp σ P) : Cases → Option Nat → Nat → σ → Except P (Option Nat) × σ
  | .nil, _, _, st => (.ok none, st)
  | .cons true _ _ r, sel, i, st => selectCase ρ r sel (i + 1) st
  | .cons false ks _ r, some v, i, st =>
      if matchesTag v ks then (.ok (some i), st) else selectCase ρ r (some v) (i + 1) st
  | .cons false ks _ r, none, i, st =>
      match anyCond ρ ks st with
      | (.error p, st') => (.error p, st')
      | (.ok true, st') => (.ok (some i), st')
      | (.ok false, st') => selectCase ρ r none (i + 1) st'

def defaultIndex : Cases → Nat → Option Nat
  | .nil, _ => none
  | .cons true _ _ _, i => some i
  | .cons false _ _ r, i => defaultIndex r (i + 1)

mutual
  def denS (ρ : Interp σ P) (N : Nat) (susp : Bool) : Stmt → σ → Res Flow σ P
    | .simple s, st => denSimple ρ susp s st
    | .block ss, st => denL ρ N susp ss st
    | .ifs init c thn els, st =>
        (denInit ρ susp init st).bind fun _ st1 =>
          match ρ.cond c.n st1 with
          | (.error p, st2) => .panic p st2
          | (.ok true, st2) => denL ρ N susp thn st2
          | (.ok false, st2) => denElse ρ N susp els st2
    | .switch init tag cases, st =>
        (denInit ρ susp init st).bind fun _ st1 =>
          let sel : Except P (Option Nat) × σ :=
            match tag with
            | some t =>
              match ρ.tag t.n st1 with
              | (.error p, st2) => (.error p, st2)
              | (.ok v, st2) => (.ok (some v), st2)
            | none => (.ok none, st1)
          match sel with
          | (.error p, st2) => .panic p st2
          | (.ok tv, st2) =>
            match selectCase ρ cases tv 0 st2 with
            | (.error p, st3) => .panic p st3
            | (.ok idx, st3) =>
              match (match idx with | some i => some i | none => defaultIndex cases 0) with
              | none => .done .fall st3
              | some i => (denFrom ρ N susp cases i st3).bind fun o st4 =>
                  if o = .nbrk then .done .fall st4 else .done o st4
    | .for_ init cond post body, st =>
        (denInit ρ susp init st).bind fun _ st1 =>
          loopF (evalCond ρ cond) (denInit ρ susp post) (denL ρ N susp body) N st1
    | .brk, st => .done .nbrk st
    | .cont, st => .done .ncont st
    | .fallthrough, st => .done .nft st
    | .ret, st => .done (.exit .ret) st
    | .rete e, st =>
        match evalS ρ N e st with
        | (.error p, st') => .panic p st'
        | (.ok run, st') => (run st').bind fun s st'' => .done (.exit s) st''
    | .unknown _, _ => .oob
  def denL (ρ : Interp σ P) (N : Nat) (susp : Bool) : Stmts → σ → Res Flow σ P
    | .nil, st => .done .fall st
    | .cons s r, st => (denS ρ N susp s st).bind fun o st' =>
        if o = .fall then denL ρ N susp r st' else .done o st'
  def denElse (ρ : Interp σ P) (N : Nat) (susp : Bool) : Else → σ → Res Flow σ P
    | .none, st => .done .fall st
    | .els ss, st => denL ρ N susp ss st
    | .elif s, st => denS ρ N susp s st
  /-- run the clause bodies from clause `i` on, following `fallthrough` -/
  def denFrom (ρ : Interp σ P) (N : Nat) (susp : Bool) : Cases → Nat → σ → Res Flow σ P
    | .nil, _, st => .done .fall st
    | .cons _ _ body r, 0, st =>
        (denL ρ N susp body st).bind fun o st' =>
          if o = .nft then denFrom ρ N susp r 0 st' else .done o st'
    | .cons _ _ _ r, i+1, st => denFrom ρ N susp r i st
  /-- construct a Seq value (Go evaluates the arguments of the seq.* calls now: the value argument of
      `Bind`, left to right; function literals become closures) and return how it runs later -/
  def evalS (ρ : Interp σ P) (N : Nat) : SExp → σ → Except P (σ → Res Sig σ P) × σ
    | .sig s, st => (.ok (fun st' => .done s st'), st)
    | .bind e th, st =>
        match evalV ρ e st with
        | (.error p, st') => (.error p, st')
        | (.ok v, st') => (.ok (fun st1 => .yield v st1 (fun st2 => denT ρ N th st2)), st')
    | .delay th, st => (.ok (fun st' => denT ρ N th st'), st)
    | .combine a b, st =>
        match evalS ρ N a st with
        | (.error p, st') => (.error p, st')
        | (.ok ra, st') =>
          match evalS ρ N b st' with
          | (.error p, st'') => (.error p, st'')
          | (.ok rb, st'') =>
            (.ok (fun st1 => (ra st1).bind fun s st2 => if s = .normal then rb st2 else .done s st2), st'')
    | .loop c p body, st =>
        match evalS ρ N body st with
        | (.error e, st') => (.error e, st')
        | (.ok rb, st') => (.ok (fun st1 => loopC (evalCond ρ c) (denInit ρ false p) rb N true st1), st')
    | .start a, st => evalS ρ N a st
    | .unknown _, st => (.ok (fun _ => .oob), st)
  def denT (ρ : Interp σ P) (N : Nat) : Thunk → σ → Res Sig σ P
    | .lam ss, st => (denL ρ N false ss st).bind closeThunk
    | .fn s, st => .done s st
end

end GoCo.MG
