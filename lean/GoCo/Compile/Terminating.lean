/-
  Compiler layer, part 2: the rewriter's copy of go/types' termination checker (rewriter/return.go).
  `hasBreak` panics ("labelled break not supported") on an *un*labelled break - the label test of
  return.go:127 as it stands in the source; `Facts` ties the polarity of that test to the source.
-/
import GoCo.Compile.Syntax
set_option autoImplicit false

namespace GoCo.MG

/-- does return.go's `hasBreak` panic on an unlabelled `break`? (true on the pinned tree) -/
structure Quirks where
  -- each flag reproduces one defect of the PINNED tree; all five were repaired in /repo by "fix:" commits
  -- (DESIGN.md 8.2), so the tree under verification is `currentQuirks` = all false.  The theorems hold
  -- for every setting; the pinned behaviour stays expressible as `pinnedQuirks`.
  hasBreakPanicsOnUnlabelled : Bool := false   -- D10a: return.go hasBreak label test inverted
  taglessYieldSwitchPanics : Bool := false     -- D10b: X.Switch with a nil tag: "invalid switch"
  switchKindRejectedByReturnNormal : Bool := false  -- D10c: returnNormalRequired asserts kind ∈ {delay, for, if}
  switchLastGetsNoNormal : Bool := false       -- D11a: a yielding switch as last statement gets no implicit Normal
  nilCondWithPostPanics : Bool := false        -- D10d: CallFor passes a typed-nil *ast.FuncLit as condition
deriving Repr, DecidableEq

mutual
  def hasBreak (q : Quirks) : Stmt → Except String Bool
    | .brk => if q.hasBreakPanicsOnUnlabelled then throw "labelled break not supported" else pure true
    | .block ss => hasBreakList q ss
    | .ifs _ _ thn els => do
        if ← hasBreakList q thn then pure true else hasBreakElse q els
    | _ => pure false
  def hasBreakList (q : Quirks) : Stmts → Except String Bool
    | .nil => pure false
    | .cons s r => do
        if ← hasBreak q s then pure true else hasBreakList q r
  def hasBreakElse (q : Quirks) : Else → Except String Bool
    | .none => pure false
    | .els ss => hasBreakList q ss
    | .elif s => hasBreak q s
end

/-- last statement that is not an EmptyStmt -/
def lastNonEmpty : Stmts → Option Stmt
  | .nil => none
  | .cons s r =>
    match lastNonEmpty r with
    | some x => some x
    | none => match s with
      | .simple .empty => none
      | _ => some s

mutual
  def isTerminating (q : Quirks) : Stmt → Except String Bool
    | .simple (.bpanic _) => pure true
    | .simple _ => pure false
    | .ret => pure true
    | .rete _ => pure true
    | .fallthrough => pure true
    | .brk => pure false
    | .cont => pure false
    | .block ss => isTerminatingList q ss
    | .ifs _ _ thn els => do
        match els with
        | .none => pure false
        | .els ss => do
            if ← isTerminatingList q thn then isTerminatingList q ss else pure false
        | .elif s => do
            if ← isTerminatingList q thn then isTerminating q s else pure false
    | .switch _ _ cases => isTerminatingSwitch q cases false
    | .for_ _ cond _ body =>
        match cond with
        | some _ => pure false
        | none => do pure (!(← hasBreakList q body))
    | .unknown _ => pure false
  /-- `isTerminatingList`: the last non-empty statement decides -/
  def isTerminatingList (q : Quirks) : Stmts → Except String Bool
    | .nil => pure false
    | .cons s r => do
        -- trailing empty statements are skipped
        if allEmpty r then
          match s with
          | .simple .empty => pure false
          | _ => isTerminating q s
        else isTerminatingList q r
  def isTerminatingSwitch (q : Quirks) : Cases → Bool → Except String Bool
    | .nil, hasDefault => pure hasDefault
    | .cons dflt _ body r, hasDefault => do
        if !(← isTerminatingList q body) then pure false
        else if ← hasBreakList q body then pure false
        else isTerminatingSwitch q r (hasDefault || dflt)
  def allEmpty : Stmts → Bool
    | .nil => true
    | .cons (.simple .empty) r => allEmpty r
    | .cons _ _ => false
end

end GoCo.MG
