/-
  Compiler layer, part 7: shape of generated code.
  `wo*` ("well-formed output"): no `fallthrough` statement anywhere, and every combinator argument
  (both halves of a Combine, the body of a For) is *pure to construct* (`pureX`): a Delay, a signal, a Bind
  of a literal, or a Combine / For of such.  The rewriter only ever passes `Delay(...)` there, and the
  optimiser's Delay elision keeps the arguments pure - which is exactly why the elision is sound.
  Source programs (no Seq expressions) satisfy the second half trivially.
-/
import GoCo.Compile.Compile
set_option autoImplicit false

namespace GoCo.MG
open GoCo

/-- constructing this Seq value evaluates nothing and cannot panic -/
def pureX : SExp → Bool
  | .sig _ => true
  | .bind e _ => e.lit
  | .delay _ => true
  | .combine a b => pureX a && pureX b
  | .loop _ _ body => pureX body
  | _ => false

mutual
  def woS : Stmt → Bool
    | .fallthrough => false
    | .block ss => woL ss
    | .ifs _ _ thn els => woL thn && woE els
    | .switch _ _ cases => woC cases
    | .for_ _ _ _ body => woL body
    | .rete e => woX e
    | _ => true
  def woL : Stmts → Bool
    | .nil => true
    | .cons s r => woS s && woL r
  def woE : Else → Bool
    | .none => true
    | .els ss => woL ss
    | .elif s => woS s
  def woC : Cases → Bool
    | .nil => true
    | .cons _ _ body r => woL body && woC r
  def woX : SExp → Bool
    | .bind _ th => woT th
    | .delay th => woT th
    | .combine a b => pureX a && pureX b && woX a && woX b
    | .loop _ _ body => pureX body && woX body
    | .start a => woX a
    | _ => true
  def woT : Thunk → Bool
    | .lam ss => woL ss
    | .fn _ => true
end

end GoCo.MG
