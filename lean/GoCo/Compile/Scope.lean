/-
  Compiler layer, part 8: lexical scoping of the mini-Go AST (source and generated code alike).

  `d<n> := V(n)` declares the variable `d<n>`; conditions and switch tags `C(n, uses…)` refer to variables
  by name.  `obs* env` lists, for every atom occurrence of a statement (in the order init, condition, body,
  post), the atom together with the *flattened environment* in which Go resolves its identifiers: the names
  declared by the enclosing scopes, outermost first, shadowed ones included.  A name is resolved to the
  innermost (last) declaration in that list, so two programs with the same observation list resolve every
  identifier of every atom to the same declaration.

  Go's scope rules as used here (Go spec, "Declarations and scope" / "Blocks"):
   * a `:=` declaration is visible from the end of the declaring statement to the end of the innermost
     containing block; its own right-hand side is resolved before it;
   * `if`, `for` and `switch` are their own implicit blocks: the init statement's declaration covers the
     condition / tag, the post statement, the body and every else branch, and ends with the statement;
   * every case clause and every function literal body is an implicit block.
  These rules are checked against go/types on generated programs by correspondence K9.
-/
import GoCo.Compile.Compile
set_option autoImplicit false

namespace GoCo.MG
open GoCo

abbrev Env := List Nat

inductive Atom
  | s (x : Simple)        -- an effect / define statement
  | c (x : CondE)         -- a condition or switch tag (with the names it uses)
  | y (e : VExp)          -- a yielded expression (`Yield(e)` in the source, `Bind(e, …)` in the output)
deriving DecidableEq, Repr

abbrev Obs := Atom × Env

/-- an init / post / simple statement -/
def obsI (env : Env) : Option Simple → List Obs
  | none => []
  | some .empty => []
  | some (.yield e) => [(.y e, env)]
  | some s => [(.s s, env)]

def envI (env : Env) : Option Simple → Env
  | some (.def_ n) => env ++ [n]
  | _ => env

def obsO (env : Env) : Option CondE → List Obs
  | none => []
  | some c => [(.c c, env)]

/-- the environment after a statement of a statement list -/
def envS (env : Env) : Stmt → Env
  | .simple s => envI env (some s)
  | _ => env

mutual
  def obsS (env : Env) : Stmt → List Obs
    | .simple s => obsI env (some s)
    | .block ss => obsL env ss
    | .ifs init c thn els =>
        obsI env init ++ ((.c c, envI env init) :: (obsL (envI env init) thn ++ obsE (envI env init) els))
    | .switch init tag cases => obsI env init ++ (obsO (envI env init) tag ++ obsC (envI env init) cases)
    | .for_ init cond post body =>
        obsI env init ++ (obsO (envI env init) cond ++ (obsL (envI env init) body ++ obsI (envI env init) post))
    | .rete e => obsX env e
    | _ => []
  def obsL (env : Env) : Stmts → List Obs
    | .nil => []
    | .cons s r => obsS env s ++ obsL (envS env s) r
  def obsE (env : Env) : Else → List Obs
    | .none => []
    | .els ss => obsL env ss
    | .elif s => obsS env s
  def obsC (env : Env) : Cases → List Obs
    | .nil => []
    | .cons _ _ body r => obsL env body ++ obsC env r
  def obsX (env : Env) : SExp → List Obs
    | .bind e th => (.y e, env) :: obsT env th
    | .delay th => obsT env th
    | .combine a b => obsX env a ++ obsX env b
    | .loop c p body => obsO env c ++ (obsX env body ++ obsI env p)
    | .start a => obsX env a
    | _ => []
  def obsT (env : Env) : Thunk → List Obs
    | .lam ss => obsL env ss
    | .fn _ => []
end

def envL (env : Env) : Stmts → Env
  | .nil => env
  | .cons s r => envL (envS env s) r

/-! ### resolution -/

/-- the declaration a name denotes: the position (level) of its innermost declaration in the environment -/
def resolve (env : Env) (x : Nat) : Option Nat :=
  let i := env.reverse.idxOf x
  if i < env.length then some (env.length - 1 - i) else none

def Atom.uses : Atom → List Nat
  | .c x => x.uses
  | _ => []

/-- every atom with the declarations its identifiers denote -/
def resolved (l : List Obs) : List (Atom × List (Option Nat)) :=
  l.map fun o => (o.1, o.1.uses.map (resolve o.2))

/-! ### the guard: where the rewriter is known to change scopes (finding D8) -/

def isDefStmt : Stmt → Bool
  | .simple (.def_ _) => true
  | _ => false

def noTopDef : Stmts → Bool
  | .nil => true
  | .cons s r => !isDefStmt s && noTopDef r

/-- an unconditional jump: the rewriter drops the (unreachable) statements that follow it in a rewritten
    block -/
def isJump : Stmt → Bool
  | .brk | .cont | .fallthrough => true
  | _ => false

mutual
  /-- a yielding post statement is merged into the body block: the body must not declare at its top level;
      no unreachable statements after break / continue / fallthrough -/
  def scopeOKS : Stmt → Bool
    | .block ss => scopeOKL ss
    | .ifs _ _ thn els => scopeOKL thn && scopeOKE els
    | .switch _ _ cases => scopeOKC cases
    | .for_ _ _ post body => scopeOKL body && (!optIsYield post || noTopDef body)
    | _ => true
  def scopeOKL : Stmts → Bool
    | .nil => true
    | .cons s r => scopeOKS s && scopeOKL r && (!isJump s || r.isNil)
  def scopeOKE : Else → Bool
    | .none => true
    | .els ss => scopeOKL ss
    | .elif s => scopeOKS s
  def scopeOKC : Cases → Bool
    | .nil => true
    | .cons _ _ body r => scopeOKL body && scopeOKC r
end

end GoCo.MG
