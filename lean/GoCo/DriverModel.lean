/-
  Driver layer: gensym, output file names and the go:generate bookkeeping of rewriter/compile.go,
  over an abstract file system.
    gensym (range.go 12-18):  symCnt++; prefix + strconv.Itoa(symCnt)     - per yieldRewriter, i.e. per file
    GoGen (compile.go 77-134): for every *_co.go / *_co_test.go that uses the API write the file with the
                               marker removed (`ReplaceAll`), through a temporary sibling directory.
-/
set_option autoImplicit false

namespace GoCo.Driver

/-! ### decimal names are injective -/

theorem digitChar_inj {a b : Nat} (ha : a < 10) (hb : b < 10) (h : a.digitChar = b.digitChar) : a = b := by
  have h1 := Nat.toNat_digitChar_sub_48_of_lt_ten ha
  have h2 := Nat.toNat_digitChar_sub_48_of_lt_ten hb
  rw [← h1, ← h2, h]

theorem toDigits10_inj : ∀ (n m : Nat), Nat.toDigits 10 n = Nat.toDigits 10 m → n = m := by
  intro n
  induction n using Nat.strongRecOn with
  | _ n ih =>
    intro m h
    rw [Nat.toDigits_eq_if (by decide : 1 < 10), Nat.toDigits_eq_if (b := 10) (n := m) (by decide)] at h
    by_cases hn : n < 10
    · by_cases hm : m < 10
      · simp only [hn, hm, if_true] at h
        exact digitChar_inj hn hm (by simpa using h)
      · simp only [hn, hm, if_true, if_false] at h
        have := congrArg List.length h
        have hpos := Nat.length_toDigits_pos (b := 10) (n := m / 10)
        simp at this
    · by_cases hm : m < 10
      · simp only [hn, hm, if_true, if_false] at h
        have := congrArg List.length h
        have hpos := Nat.length_toDigits_pos (b := 10) (n := n / 10)
        simp at this
      · simp only [hn, hm, if_false] at h
        have h1 := List.append_inj' h (by simp)
        have hq : n / 10 = m / 10 := ih (n / 10) (by omega) (m / 10) h1.1
        have hr : n % 10 = m % 10 :=
          digitChar_inj (Nat.mod_lt _ (by decide)) (Nat.mod_lt _ (by decide)) (by simpa using h1.2)
        omega

theorem repr_inj {n m : Nat} (h : Nat.repr n = Nat.repr m) : n = m := by
  apply toDigits10_inj
  rw [← Nat.toList_repr, ← Nat.toList_repr, h]

/-! ### gensym -/

/-- the k-th helper identifier of a file -/
def helperName (pre : String) (k : Nat) : String := pre ++ Nat.repr k

/-- the names handed out while rewriting one file: the counter starts at 0 for every file -/
def helperNames (pre : String) (n : Nat) : List String := (List.range n).map fun i => helperName pre (i + 1)

theorem helperName_inj (pre : String) {a b : Nat} (h : helperName pre a = helperName pre b) : a = b := by
  unfold helperName at h
  have h2 := congrArg String.toList h
  simp only [String.toList_append] at h2
  have h3 := List.append_cancel_left h2
  apply repr_inj
  exact String.toList_inj.mp h3

/-- **generated helper identifiers are unique within a file**, however many range loops it has -/
theorem gensym_injective (pre : String) (n : Nat) : (helperNames pre n).Nodup := by
  unfold helperNames List.Nodup
  rw [List.pairwise_map]
  refine List.Pairwise.imp ?_ (List.nodup_range (n := n))
  intro a b hab h
  exact hab (by have := helperName_inj pre h; omega)

/-! ### go:generate bookkeeping over an abstract file system -/

abbrev Path := String
abbrev FS := Path → Option String

structure GenCfg where
  uses : String → Bool           -- the file uses the API (imports.Uses)
  outName : Path → Path          -- marker removed
  transform : String → String    -- the per-file pipeline: a function of the file's content

def write (fs : FS) (p : Path) (c : String) : FS := fun q => if q = p then some c else fs q

/-- one co file: read from the ORIGINAL tree (all sources are loaded before anything is written) -/
def genOne (cfg : GenCfg) (src : FS) (acc : FS) (p : Path) : FS :=
  match src p with
  | some c => if cfg.uses c then write acc (cfg.outName p) (cfg.transform c) else acc
  | none => acc

def goGen (cfg : GenCfg) (coPaths : List Path) (fs : FS) : FS := coPaths.foldl (genOne cfg fs) fs

theorem foldl_untouched (cfg : GenCfg) (src : FS) (ps : List Path) (acc : FS) (q : Path)
    (hq : ∀ p ∈ ps, cfg.outName p ≠ q) : (ps.foldl (genOne cfg src) acc) q = acc q := by
  induction ps generalizing acc with
  | nil => rfl
  | cons p rest ih =>
    simp only [List.foldl_cons]
    rw [ih _ (fun p' hp' => hq p' (by simp [hp']))]
    unfold genOne
    cases src p with
    | none => rfl
    | some c =>
      simp only
      by_cases hu : cfg.uses c = true
      · have : q ≠ cfg.outName p := fun h => hq p (by simp) h.symm
        simp [hu, write, this]
      · simp [hu]

/-- **nothing but the derived files is created or modified** -/
theorem goGen_writes_exactly (cfg : GenCfg) (coPaths : List Path) (fs : FS) (q : Path)
    (hq : ∀ p ∈ coPaths, cfg.outName p ≠ q) : goGen cfg coPaths fs q = fs q :=
  foldl_untouched cfg fs coPaths fs q hq

theorem foldl_written (cfg : GenCfg) (src : FS) (ps : List Path) (acc : FS) (p : Path) (c : String)
    (hp : p ∈ ps) (hsrc : src p = some c) (hu : cfg.uses c = true)
    (hinj : ∀ a ∈ ps, ∀ b ∈ ps, cfg.outName a = cfg.outName b → a = b) (hnd : ps.Nodup) :
    (ps.foldl (genOne cfg src) acc) (cfg.outName p) = some (cfg.transform c) := by
  induction ps generalizing acc with
  | nil => simp at hp
  | cons x rest ih =>
    simp only [List.foldl_cons]
    have hnd' := List.nodup_cons.mp hnd
    by_cases hx : p = x
    · subst hx
      rw [foldl_untouched cfg src rest _ (cfg.outName p) (fun p' hp' h => by
        have := hinj p' (by simp [hp']) p (by simp) h
        exact hnd'.1 (this ▸ hp'))]
      simp [genOne, hsrc, hu, write]
    · have hp' : p ∈ rest := by simpa [hx] using hp
      exact ih _ hp' (fun a ha b hb => hinj a (by simp [ha]) b (by simp [hb])) hnd'.2

/-- **every co file that uses the API gets exactly its derived file** -/
theorem goGen_writes_each (cfg : GenCfg) (coPaths : List Path) (fs : FS) (p : Path) (c : String)
    (hp : p ∈ coPaths) (hsrc : fs p = some c) (hu : cfg.uses c = true)
    (hinj : ∀ a ∈ coPaths, ∀ b ∈ coPaths, cfg.outName a = cfg.outName b → a = b) (hnd : coPaths.Nodup) :
    goGen cfg coPaths fs (cfg.outName p) = some (cfg.transform c) :=
  foldl_written cfg fs coPaths fs p c hp hsrc hu hinj hnd

theorem genOne_congr (cfg : GenCfg) (src src' : FS) (acc : FS) (p : Path) (h : src p = src' p) :
    genOne cfg src acc p = genOne cfg src' acc p := by
  unfold genOne; rw [h]

/-- re-writing what is already there changes nothing -/
theorem foldl_fixed (cfg : GenCfg) (src : FS) (ps : List Path) (acc : FS)
    (h : ∀ p ∈ ps, ∀ c, src p = some c → cfg.uses c = true → acc (cfg.outName p) = some (cfg.transform c)) :
    ps.foldl (genOne cfg src) acc = acc := by
  induction ps generalizing acc with
  | nil => rfl
  | cons x rest ih =>
    simp only [List.foldl_cons]
    have hx : genOne cfg src acc x = acc := by
      unfold genOne
      split
      · rename_i c hc
        split
        · rename_i hu
          funext q
          simp only [write]
          split
          · rename_i hq; rw [hq]; exact (h x (by simp) c hc hu).symm
          · rfl
        · rfl
      · rfl
    rw [hx]
    exact ih acc (fun p hp => h p (by simp [hp]))

/-- **running the tool again leaves every file as it is**, provided a derived file is never itself a co
    file (so the sources the second run reads are the ones the first run read) -/
theorem goGen_idempotent (cfg : GenCfg) (coPaths : List Path) (fs : FS)
    (hout : ∀ p ∈ coPaths, ∀ q ∈ coPaths, cfg.outName p ≠ q)
    (hinj : ∀ a ∈ coPaths, ∀ b ∈ coPaths, cfg.outName a = cfg.outName b → a = b) (hnd : coPaths.Nodup) :
    goGen cfg coPaths (goGen cfg coPaths fs) = goGen cfg coPaths fs := by
  have hsrc : ∀ q ∈ coPaths, goGen cfg coPaths fs q = fs q := fun q hq =>
    goGen_writes_exactly cfg coPaths fs q (fun p hp => hout p hp q hq)
  unfold goGen
  -- the second run reads the same sources …
  have e : ∀ (ps : List Path) (acc : FS), (∀ p ∈ ps, p ∈ coPaths) →
      ps.foldl (genOne cfg (coPaths.foldl (genOne cfg fs) fs)) acc = ps.foldl (genOne cfg fs) acc := by
    intro ps
    induction ps with
    | nil => intro acc _; rfl
    | cons x rest ih =>
      intro acc hps
      simp only [List.foldl_cons]
      rw [genOne_congr cfg (coPaths.foldl (genOne cfg fs) fs) fs acc x (hsrc x (hps x (by simp)))]
      exact ih _ (fun p hp => hps p (by simp [hp]))
  rw [e coPaths _ (fun p hp => hp)]
  -- … and writes what is already there
  exact foldl_fixed cfg fs coPaths _ (fun p hp c hc hu => foldl_written cfg fs coPaths fs p c hp hc hu hinj hnd)

end GoCo.Driver
