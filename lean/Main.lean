import GoCo.Driver.RuntimeDrv
import GoCo.Driver.CompileDrv
import GoCo.Driver.ItersDrv
open GoCo

def handle (line : String) : String :=
  match Sexp.parse line with
  | none => "bad-sexp"
  | some sx =>
    match runtimeRequest sx with
    | some r => r
    | none =>
      match MG.compileRequest sx with
      | some r => r
      | none =>
        match Iters.itersRequest sx with
        | some r => r
        | none => "bad-request"

partial def loop (h : IO.FS.Stream) (out : IO.FS.Stream) : IO Unit := do
  let line ← h.getLine
  if line.isEmpty then return ()
  let l := line.trimAscii.toString
  if l.isEmpty then loop h out else
  out.putStrLn (handle l)
  loop h out

def main : IO Unit := do
  let out ← IO.getStdout
  loop (← IO.getStdin) out
  out.flush
