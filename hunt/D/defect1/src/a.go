package main

import (
	"fmt"

	. "github.com/goghcrow/go-co"
)

func Nums(n int) Iter[int] {
	for i := 0; i < n; i++ {
		Yield(i)
	}
	return nil
}

// YieldFrom as the init statement of a switch whose cases do not yield.
// (With Yield(7) in the same position the compiler is fine: "7 two 9".)
func G(n int) Iter[int] {
	switch YieldFrom(Nums(n)); n {
	case 2:
		fmt.Print("two ")
	}
	Yield(9)
	return nil
}

// the same with a type switch
func H(x any) Iter[int] {
	switch YieldFrom(Nums(2)); v := x.(type) {
	case int:
		fmt.Print("int", v, " ")
	}
	return nil
}

func main() {
	for v := range G(2) {
		fmt.Print(v, " ")
	}
	for v := range H(5) {
		fmt.Print(v, " ")
	}
	fmt.Println()
}
