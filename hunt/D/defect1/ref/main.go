package main

import "fmt"

func Nums(n int, yield func(int)) {
	for i := 0; i < n; i++ {
		yield(i)
	}
}

func G(n int, yield func(int)) {
	switch Nums(n, yield); n {
	case 2:
		fmt.Print("two ")
	}
	yield(9)
}

func H(x any, yield func(int)) {
	switch Nums(2, yield); v := x.(type) {
	case int:
		fmt.Print("int", v, " ")
	}
}

func main() {
	G(2, func(v int) { fmt.Print(v, " ") })
	H(5, func(v int) { fmt.Print(v, " ") })
	fmt.Println()
}
