package main

import "fmt"

type node struct {
	left, right *node
	val         int
}

func walk(node *node, yield func(*node)) {
	if node == nil {
		return
	}
	walk(node.left, yield)
	yield(node)
	walk(node.right, yield)
}

type item struct{ id int }

func items(n int, yield func(item)) {
	for i := 0; i < n; i++ {
		yield(item{i})
	}
}

func odd(g func(func(item)), yield func(item)) {
	g(func(item item) {
		if item.id%2 == 1 {
			yield(item)
		}
	})
}

func main() {
	t := &node{&node{nil, &node{nil, nil, 2}, 1}, &node{nil, nil, 4}, 3}
	walk(t, func(n *node) { fmt.Print(n.val, " ") })
	odd(func(y func(item)) { items(6, y) }, func(it item) { fmt.Print(it.id, " ") })
	fmt.Println()
}
