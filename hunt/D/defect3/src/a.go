package main

import (
	"fmt"

	. "github.com/goghcrow/go-co"
)

type node struct {
	left, right *node
	val         int
}

// recursive tree walk with YieldFrom; the parameter is named like its type,
// so inside the body "node" is the variable, in the result type it is the type.
func walk(node *node) Iter[*node] {
	if node == nil {
		return nil
	}
	YieldFrom(walk(node.left))
	Yield(node)
	YieldFrom(walk(node.right))
	return nil
}

type item struct{ id int }

func items(n int) Iter[item] {
	for i := 0; i < n; i++ {
		Yield(item{i})
	}
	return nil
}

// consumer loop inside a generator; the loop variable is named like the element type
func odd(g Iter[item]) Iter[item] {
	for item := range g {
		if item.id%2 == 1 {
			Yield(item)
		}
	}
	return nil
}

func main() {
	t := &node{&node{nil, &node{nil, nil, 2}, 1}, &node{nil, nil, 4}, 3}
	for n := range walk(t) {
		fmt.Print(n.val, " ")
	}
	for it := range odd(items(6)) {
		fmt.Print(it.id, " ")
	}
	fmt.Println()
}
