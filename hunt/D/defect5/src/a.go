package main

import (
	"fmt"

	. "github.com/goghcrow/go-co"
)

// an alias of the iterator type: parameters, variables and YieldFrom arguments
// of type Ints are handled; a GENERATOR whose result is spelled Ints is not.
type Ints = Iter[int]

func Nums(n int) Ints {
	for i := 0; i < n; i++ {
		Yield(i)
	}
	return nil
}

func Sum(g Ints) (s int) {
	for v := range g {
		s += v
	}
	return
}

func main() {
	for v := range Nums(3) {
		fmt.Print(v, " ")
	}
	fmt.Println(Sum(Nums(4)))
}
