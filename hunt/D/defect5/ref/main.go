package main

import "fmt"

func Nums(n int, yield func(int)) {
	for i := 0; i < n; i++ {
		yield(i)
	}
}

func Sum(g func(func(int))) (s int) {
	g(func(v int) { s += v })
	return
}

func main() {
	Nums(3, func(v int) { fmt.Print(v, " ") })
	fmt.Println(Sum(func(y func(int)) { Nums(4, y) }))
}
