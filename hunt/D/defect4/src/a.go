package main

import (
	"fmt"

	. "github.com/goghcrow/go-co"
)

func Nums(n int) Iter[int] {
	for i := 0; i < n; i++ {
		Yield(i)
	}
	return nil
}

// The module says "go 1.19" (as go-co's own go.mod and examples do): before Go 1.22
// the variable of "for v := range x" is ONE variable, re-used in each iteration.
func main() {
	var fs []func() int
	var ps []*int
	for v := range Nums(3) {
		fs = append(fs, func() int { return v })
		ps = append(ps, &v)
	}
	for _, f := range fs {
		fmt.Print(f(), " ")
	}
	fmt.Println(ps[0] == ps[1], ps[1] == ps[2])
}
