#!/bin/bash
# exit 0 = property holds on the input (generated program builds and prints what the source means)
# exit non-zero = violated (compiler panic, generated package does not build, or different output)
# The reference output comes from ref/main.go: the same bodies in native Go
# (Yield(x) => yield(x) callback, YieldFrom(g) => for each element of g: yield).
set -u
export GOFLAGS=-mod=mod GOPROXY=off GOSUMDB=off GOTOOLCHAIN=local
GOVER=1.19
HERE=$(cd "$(dirname "$0")" && pwd)
ROOT=$(cd "$HERE/../.." && pwd) # the go-co working tree
W=$(mktemp -d "$HERE/scratch.XXXXXX")
trap 'rm -rf "$W"' EXIT

mkdir -p "$W/drv" "$W/m/src" "$W/m/ref"
cat >"$W/drv/go.mod" <<EOT
module drv
go 1.19
require github.com/goghcrow/go-co v0.0.0
replace github.com/goghcrow/go-co => $ROOT
EOT
cat >"$W/drv/main.go" <<'EOT'
package main

import (
	"os"

	"github.com/goghcrow/go-co/rewriter"
)

func main() { rewriter.Compile(os.Args[1], os.Args[2]) }
EOT
cat >"$W/m/go.mod" <<EOT
module m
go $GOVER
require github.com/goghcrow/go-co v0.0.0
replace github.com/goghcrow/go-co => $ROOT
EOT
cp "$ROOT/go.sum" "$W/drv/"
cp "$ROOT/go.sum" "$W/m/"
cp "$HERE"/src/*.go "$W/m/src/"
cp "$HERE"/ref/main.go "$W/m/ref/"

(cd "$W/drv" && go build -o drv .) || { echo "SETUP: driver does not build"; exit 99; }

# the source must be valid Go (under the stub API)
(cd "$W/m" && go vet ./src) || { echo "SETUP: source package does not type-check"; exit 98; }

expected=$(cd "$W/m" && go run ./ref) || { echo "SETUP: reference program failed"; exit 97; }
echo "expected (native Go meaning of the source): $expected"

if ! (cd "$W/m" && "$W/drv/drv" "$W/m/src" "$W/m/out" >"$W/compile.log" 2>&1); then
	echo "VIOLATED: the go-co compiler failed on a valid source package:"
	grep -v '^\[' "$W/compile.log" | grep -m3 -i 'panic'
	grep -m6 'go-co/rewriter\.' "$W/compile.log"
	exit 1
fi
if ! (cd "$W/m" && go build -o "$W/out.bin" ./out 2>"$W/build.log"); then
	echo "VIOLATED: the generated package does not build:"
	head -8 "$W/build.log"
	exit 1
fi
actual=$("$W/out.bin")
echo "actual   (generated program):                $actual"
if [ "$actual" != "$expected" ]; then
	echo "VIOLATED: output differs"
	exit 1
fi
echo "OK"
exit 0
