package main

import "fmt"

// the same consumer loop over a real channel, compiled under the same "go 1.19" module
func Nums(n int) <-chan int {
	ch := make(chan int, n)
	for i := 0; i < n; i++ {
		ch <- i
	}
	close(ch)
	return ch
}

func main() {
	var fs []func() int
	var ps []*int
	for v := range Nums(3) {
		fs = append(fs, func() int { return v })
		ps = append(ps, &v)
	}
	for _, f := range fs {
		fmt.Print(f(), " ")
	}
	fmt.Println(ps[0] == ps[1], ps[1] == ps[2])
}
