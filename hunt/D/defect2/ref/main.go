package main

import "fmt"

// native pull-style iterator over lo..hi-1, used through a pointer like in the source
type Iter struct{ cur, next, hi int }

func (it *Iter) MoveNext() bool {
	if it == nil || it.next >= it.hi {
		return false
	}
	it.cur = it.next
	it.next++
	return true
}
func (it *Iter) Current() int { return it.cur }

func Nums(lo, hi int) *Iter { return &Iter{next: lo, hi: hi} }

func skip(it **Iter, n int, next *Iter) {
	for ; n > 0; n-- {
		if !(*it).MoveNext() {
			*it = next
			return
		}
	}
}

func main() {
	g := Nums(0, 5)
	skip(&g, 2, Nums(100, 102))
	for g.MoveNext() {
		fmt.Print(g.Current(), " ")
	}
	skip(&g, 1, Nums(100, 102))
	for g.MoveNext() {
		fmt.Print(g.Current(), " ")
	}
	fmt.Println()
}
