package main

import (
	"fmt"

	. "github.com/goghcrow/go-co"
)

func Nums(lo, hi int) Iter[int] {
	for i := lo; i < hi; i++ {
		Yield(i)
	}
	return nil
}

// skip advances the caller's iterator by n elements (pull style, through a pointer);
// when it runs dry the caller's iterator is replaced by next.
// it.MoveNext() on a *Iter[int] is valid Go: Iter[V] is a defined (channel) type with
// value-receiver methods, so they are in the method set of *Iter[V] as well.
func skip(it *Iter[int], n int, next Iter[int]) {
	for ; n > 0; n-- {
		if !it.MoveNext() {
			*it = next
			return
		}
	}
}

func main() {
	g := Nums(0, 5)
	skip(&g, 2, Nums(100, 102))
	for v := range g { // 2 3 4
		fmt.Print(v, " ")
	}
	skip(&g, 1, Nums(100, 102))
	for v := range g { // 100 101
		fmt.Print(v, " ")
	}
	fmt.Println()
}
