package co

type Iter[V any] <-chan V

var Log []any

func Yield[V any](v V) { Log = append(Log, v) }
