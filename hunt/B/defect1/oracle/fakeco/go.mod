module github.com/goghcrow/go-co

go 1.19
