package main

// Oracle: the SAME gen.go, built by the plain Go compiler against a stand-in
// co package in which Iter[V] is a channel and Yield appends to co.Log.

import (
	"fmt"

	co "github.com/goghcrow/go-co"
)

func nums() co.Iter[int] {
	ch := make(chan int)
	go func() {
		ch <- 1
		ch <- 2
		ch <- 3
		close(ch)
	}()
	return ch
}

func logOf(f func()) (out []int) {
	co.Log = nil
	f()
	for _, v := range co.Log {
		out = append(out, v.(int))
	}
	return
}

func main() {
	fmt.Println("Gen:    ", logOf(func() { Gen([]int{1, 2, 3}) }))
	fmt.Println("Quiet:  ", logOf(func() { Quiet([]int{1, 2, 3}) }))
	fmt.Println("Consume:", Consume(nums()))
}
