package main

import (
	. "github.com/goghcrow/go-co"
)

// Gen is a generator. The module says `go 1.21`: a range clause with `:=`
// declares ONE variable v for the whole loop, every closure captures that one.
func Gen(xs []int) Iter[int] {
	var fns []func() int
	var ptrs []*int
	for _, v := range xs {
		fns = append(fns, func() int { return v })
		ptrs = append(ptrs, &v)
		Yield(v)
	}
	for i := 0; i < len(fns); i++ {
		Yield(fns[i]())
	}
	same := 0
	if ptrs[0] == ptrs[1] && ptrs[1] == ptrs[2] {
		same = 1
	}
	Yield(same)
	return nil
}

// Quiet is a generator whose range loop does not yield at all.
func Quiet(xs []int) Iter[int] {
	var fns []func() int
	for _, v := range xs {
		fns = append(fns, func() int { return v })
	}
	for i := 0; i < len(fns); i++ {
		Yield(fns[i]())
	}
	return nil
}

// Consume is an ordinary function that ranges over an iterator.
func Consume(it Iter[int]) []int {
	var fns []func() int
	for v := range it {
		fns = append(fns, func() int { return v })
	}
	var out []int
	for i := 0; i < len(fns); i++ {
		out = append(out, fns[i]())
	}
	return out
}
