package main

import (
	"fmt"

	. "github.com/goghcrow/go-co"
)

func nums() Iter[int] {
	Yield(1)
	Yield(2)
	Yield(3)
}

func collect(it Iter[int]) (out []int) {
	for v := range it {
		out = append(out, v)
	}
	return
}

func main() {
	fmt.Println("Gen:    ", collect(Gen([]int{1, 2, 3})))
	fmt.Println("Quiet:  ", collect(Quiet([]int{1, 2, 3})))
	fmt.Println("Consume:", Consume(nums()))
}
