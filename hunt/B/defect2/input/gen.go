package main

import (
	. "github.com/goghcrow/go-co"
)

// Closures is a generator; its three-clause loop does NOT yield.
// The module says `go 1.22`: every iteration has its own i.
func Closures(n int) Iter[int] {
	var fns []func() int
	for i := 0; i < n; i++ {
		fns = append(fns, func() int { return i })
	}
	for _, f := range fns {
		Yield(f())
	}
	return nil
}

// Pointers: the same with addresses.
func Pointers(n int) Iter[int] {
	var ps []*int
	for i := 0; i < n; i++ {
		ps = append(ps, &i)
	}
	for _, p := range ps {
		Yield(*p)
	}
	return nil
}

// Nested: the same loop inside an ordinary closure of the generator (left alone by the compiler).
func Nested(n int) Iter[int] {
	var fns []func() int
	func() {
		for i := 0; i < n; i++ {
			fns = append(fns, func() int { return i })
		}
	}()
	for _, f := range fns {
		Yield(f())
	}
	return nil
}

// Plain is an ordinary function with the loop of Closures.
func Plain(n int) (out []int) {
	var fns []func() int
	for i := 0; i < n; i++ {
		fns = append(fns, func() int { return i })
	}
	for _, f := range fns {
		out = append(out, f())
	}
	return
}
