package main

import (
	"fmt"

	. "github.com/goghcrow/go-co"
)

func collect(it Iter[int]) (out []int) {
	for v := range it {
		out = append(out, v)
	}
	return
}

func main() {
	fmt.Println("Closures:", collect(Closures(3)))
	fmt.Println("Pointers:", collect(Pointers(3)))
	fmt.Println("Nested:  ", collect(Nested(3)))
	fmt.Println("Plain:   ", Plain(3))
}
