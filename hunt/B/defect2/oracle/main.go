package main

// Oracle: the SAME gen.go, built by the plain Go compiler against a stand-in
// co package in which Iter[V] is a channel and Yield appends to co.Log.

import (
	"fmt"

	co "github.com/goghcrow/go-co"
)

func logOf(f func()) (out []int) {
	co.Log = nil
	f()
	for _, v := range co.Log {
		out = append(out, v.(int))
	}
	return
}

func main() {
	fmt.Println("Closures:", logOf(func() { Closures(3) }))
	fmt.Println("Pointers:", logOf(func() { Pointers(3) }))
	fmt.Println("Nested:  ", logOf(func() { Nested(3) }))
	fmt.Println("Plain:   ", Plain(3))
}
