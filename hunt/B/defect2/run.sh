#!/bin/bash
# exit 0: the generated package behaves like the source; 1: it does not (C03 violated); 2: set-up failure
export GOFLAGS=-mod=mod GOPROXY=off GOSUMDB=off GOTOOLCHAIN=local
HERE=$(cd "$(dirname "$0")" && pwd)
ROOT=$(cd "$HERE/../.." && pwd) # the go-co working tree
GOVER=${GOVER:-1.22}                      # language version of the user's module
W=$(mktemp -d "$ROOT/_hunt/scratch.XXXXXX") || exit 2
trap 'rm -rf "$W"' EXIT

# module m: the generator package (src), compiled by rewriter.Compile into m/out
mkdir -p "$W/m/src" "$W/m/tool" "$W/n"
cp "$HERE"/input/*.go "$W/m/src/"
cp "$HERE/tool/main.go" "$W/m/tool/"
cp "$ROOT/go.sum" "$W/m/go.sum"
cat > "$W/m/go.mod" <<EOM
module m

go $GOVER

require github.com/goghcrow/go-co v0.0.0

replace github.com/goghcrow/go-co => $ROOT
EOM
(cd "$W/m" && go build -o "$W/cotool" ./tool) || { echo "cannot build the compile tool"; exit 2; }
(cd "$W/m" && "$W/cotool" "$W/m/src" "$W/m/out" 2>"$W/compile.log") || { tail -20 "$W/compile.log"; echo "rewriter.Compile failed"; exit 2; }
(cd "$W/m" && go run ./out >"$W/generated.txt" 2>&1) || { cat "$W/generated.txt"; echo "generated package failed"; exit 2; }

# module n: the oracle, the same gen.go under plain Go with a stand-in co package
cp "$HERE/input/gen.go" "$HERE/oracle/main.go" "$W/n/"
cp -r "$HERE/oracle/fakeco" "$W/fakeco"
cat > "$W/n/go.mod" <<EOM
module m

go $GOVER

require github.com/goghcrow/go-co v0.0.0

replace github.com/goghcrow/go-co => $W/fakeco
EOM
(cd "$W/n" && go run . >"$W/source.txt" 2>&1) || { cat "$W/source.txt"; echo "oracle failed"; exit 2; }

echo "--- source semantics (go $GOVER)"; cat "$W/source.txt"
echo "--- generated package";           cat "$W/generated.txt"
if cmp -s "$W/source.txt" "$W/generated.txt"; then echo "SAME: property holds"; exit 0; fi
echo "DIFFERENT: C03 violated"; exit 1
