package main

import (
	"fmt"
	"os"

	. "github.com/goghcrow/go-co"
)

// Module language version go 1.19 - the version go-co's own go.mod declares (its examples are
// compiled under it). Before Go 1.22 the variables of `for i, v := range x` are declared ONCE per
// loop and re-used in each iteration (spec go1.19: "their scope is the block of the for statement;
// they are re-used in each iteration"): every closure / pointer taken in the body refers to the
// same variable and sees the values of the last iteration.

func G() (_ Iter[string]) {
	var fs []func() int
	var ps []*int
	for i, v := range []int{10, 20, 30} {
		fs = append(fs, func() int { return i + v })
		ps = append(ps, &v)
		Yield(fmt.Sprint("it", i))
	}
	for _, f := range fs {
		Yield(fmt.Sprint(f()))
	}
	Yield(fmt.Sprint(*ps[0], *ps[1], *ps[2], ps[0] == ps[2]))

	// the same in a loop that does not yield, inside an ordinary closure of the generator
	h := func() (r []int) {
		var gs []func() int
		for _, c := range "abc" {
			gs = append(gs, func() int { return int(c) })
		}
		for _, g := range gs {
			r = append(r, g())
		}
		return
	}
	Yield(fmt.Sprint(h()))
	return
}

// the same body, Yield(x) replaced by appending x
func N() (r []string) {
	var fs []func() int
	var ps []*int
	for i, v := range []int{10, 20, 30} {
		fs = append(fs, func() int { return i + v })
		ps = append(ps, &v)
		r = append(r, fmt.Sprint("it", i))
	}
	for _, f := range fs {
		r = append(r, fmt.Sprint(f()))
	}
	r = append(r, fmt.Sprint(*ps[0], *ps[1], *ps[2], ps[0] == ps[2]))

	h := func() (r []int) {
		var gs []func() int
		for _, c := range "abc" {
			gs = append(gs, func() int { return int(c) })
		}
		for _, g := range gs {
			r = append(r, g())
		}
		return
	}
	r = append(r, fmt.Sprint(h()))
	return
}

func main() {
	want := fmt.Sprint(N())
	fmt.Println("native   :", want)
	if len(os.Args) > 1 && os.Args[1] == "native" {
		return // G is only meaningful after compilation (Yield is a no-op stub in the source)
	}
	var got []string
	for v := range G() {
		got = append(got, v)
	}
	fmt.Println("generator:", fmt.Sprint(got))
	if fmt.Sprint(got) != want {
		os.Exit(1)
	}
}
