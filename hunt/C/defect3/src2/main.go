package main

import (
	"fmt"
	"os"

	. "github.com/goghcrow/go-co"
)

// An ordinary closure inside a generator: a forward goto that skips a range loop.
// Legal Go: the loop variables live in the scope of the for statement, so the goto
// does not jump over any declaration of the enclosing block.

func G() (_ Iter[string]) {
	sum := func(xs []int) int {
		n := 0
		if len(xs) == 0 {
			goto done
		}
		for _, x := range xs {
			n += x
		}
	done:
		return n
	}
	Yield(fmt.Sprint(sum([]int{1, 2, 3})))
	Yield(fmt.Sprint(sum(nil)))
	return
}

// the same body, Yield(x) replaced by appending x
func N() (r []string) {
	sum := func(xs []int) int {
		n := 0
		if len(xs) == 0 {
			goto done
		}
		for _, x := range xs {
			n += x
		}
	done:
		return n
	}
	r = append(r, fmt.Sprint(sum([]int{1, 2, 3})))
	r = append(r, fmt.Sprint(sum(nil)))
	return
}

func main() {
	want := fmt.Sprint(N())
	fmt.Println("native   :", want)
	if len(os.Args) > 1 && os.Args[1] == "native" {
		return // G is only meaningful after compilation (Yield is a no-op stub in the source)
	}
	var got []string
	for v := range G() {
		got = append(got, v)
	}
	fmt.Println("generator:", fmt.Sprint(got))
	if fmt.Sprint(got) != want {
		os.Exit(1)
	}
}
