#!/bin/bash
# exit 0 = the property holds on both inputs (src: labelled range loop in a closure,
# src2: goto over a range loop in a closure), non-zero = violated on at least one
export GOFLAGS=-mod=mod GOPROXY=off GOSUMDB=off GOTOOLCHAIN=local
GOVER=1.22
HERE=$(cd "$(dirname "$0")" && pwd)
ROOT=$(cd "$HERE/../.." && pwd)
W=$(mktemp -d "$ROOT/_hunt/scratch.XXXXXX") || exit 99
trap 'rm -rf "$W"' EXIT

(cd "$ROOT" && go build -o "$W/cotool" "./_hunt/$(basename "$HERE")/tool") || { echo "INFRA: cannot build the compiler driver"; exit 98; }

check() { # $1 = input directory name
	local M="$W/m_$1"
	mkdir -p "$M/src"
	cat > "$M/go.mod" <<EOT
module m

go $GOVER

require github.com/goghcrow/go-co v0.0.0

replace github.com/goghcrow/go-co => $ROOT
EOT
	cp "$ROOT/go.sum" "$M/go.sum"
	cp "$HERE/$1"/*.go "$M/src/"

	echo "== [$1] 1. the source is legal Go; its native twin N() gives the expected sequence"
	(cd "$M" && go build -o "$W/src.bin" ./src && "$W/src.bin" native) || { echo "INFRA: the source does not build"; exit 97; }

	echo "== [$1] 2. rewriter.Compile(src, out)"
	if ! (cd "$M" && "$W/cotool" src out) > "$W/log" 2>&1; then
		echo "VIOLATED: the compiler failed:"
		grep -m1 -E "^panic" "$W/log"
		return 1
	fi

	echo "== [$1] 3. build the generated package"
	if ! (cd "$M" && go build -o "$W/gen.bin" ./out); then
		echo "VIOLATED: the generated package does not build"
		return 1
	fi

	echo "== [$1] 4. run it: generator vs native twin"
	"$W/gen.bin" || { echo "VIOLATED: the generator differs from the native loop"; return 1; }
	echo "[$1] property holds on this input"
}

rc=0
check src || rc=1
check src2 || rc=1
exit $rc
