package main

import (
	"fmt"
	"os"

	. "github.com/goghcrow/go-co"
)

// An ordinary closure inside a generator: its labelled range loop with `continue outer`
// is plain Go, nothing in it yields.

func G() (_ Iter[string]) {
	sum := func(xss [][]int) (n int) {
	outer:
		for _, xs := range xss {
			for _, x := range xs {
				if x < 0 {
					continue outer
				}
				n += x
			}
		}
		return
	}
	Yield(fmt.Sprint(sum([][]int{{1, -1, 5}, {2}})))
	return
}

// the same body, Yield(x) replaced by appending x
func N() (r []string) {
	sum := func(xss [][]int) (n int) {
	outer:
		for _, xs := range xss {
			for _, x := range xs {
				if x < 0 {
					continue outer
				}
				n += x
			}
		}
		return
	}
	r = append(r, fmt.Sprint(sum([][]int{{1, -1, 5}, {2}})))
	return
}

func main() {
	want := fmt.Sprint(N())
	fmt.Println("native   :", want)
	if len(os.Args) > 1 && os.Args[1] == "native" {
		return // G is only meaningful after compilation (Yield is a no-op stub in the source)
	}
	var got []string
	for v := range G() {
		got = append(got, v)
	}
	fmt.Println("generator:", fmt.Sprint(got))
	if fmt.Sprint(got) != want {
		os.Exit(1)
	}
}
