package main

import (
	"fmt"
	"os"

	. "github.com/goghcrow/go-co"
)

// A range over an UNTYPED integer constant with the "=" form: the iteration values take the
// type of the pre-existing iteration variable (Go spec, "For statements with range clause":
// "if the iteration variable is preexisting, the type of the iteration values is the type of
// the iteration variable, which must be of integer type").

func G() (_ Iter[string]) {
	var i uint8
	for i = range 3 {
		Yield(fmt.Sprintf("%T %v", i, i))
	}
	var j int64
	for j = range 1 << 40 {
		if j == 2 {
			break
		}
	}
	Yield(fmt.Sprintf("%T %v", j, j))
	return
}

// the same body, Yield(x) replaced by appending x
func N() (r []string) {
	var i uint8
	for i = range 3 {
		r = append(r, fmt.Sprintf("%T %v", i, i))
	}
	var j int64
	for j = range 1 << 40 {
		if j == 2 {
			break
		}
	}
	r = append(r, fmt.Sprintf("%T %v", j, j))
	return
}

func main() {
	want := fmt.Sprint(N())
	fmt.Println("native   :", want)
	if len(os.Args) > 1 && os.Args[1] == "native" {
		return // G is only meaningful after compilation (Yield is a no-op stub in the source)
	}
	var got []string
	for v := range G() {
		got = append(got, v)
	}
	fmt.Println("generator:", fmt.Sprint(got))
	if fmt.Sprint(got) != want {
		os.Exit(1)
	}
}
