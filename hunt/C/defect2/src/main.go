package main

import (
	"fmt"
	"os"

	. "github.com/goghcrow/go-co"
)

// Go spec, "For statements with range clause":
//   "The range expression x is evaluated once before beginning the loop, with one exception:
//    if at most one iteration variable is present and len(x) is constant, the range expression
//    is not evaluated."
// len(x) is constant when x is an array (or pointer to array) expression without function calls
// and channel receives. So these loops run len(x) times and never touch x:
//   *p with p == nil, rows[j] with j out of range, h.a with h == nil.

type holder struct{ a [2]int }

func G1() (_ Iter[string]) {
	var p *[3]int
	for i := range *p {
		Yield(fmt.Sprint("p", i))
	}
	return
}

func G2() (_ Iter[string]) {
	var rows [][2]int
	j := 5
	for i := range rows[j] {
		Yield(fmt.Sprint("rows", i))
	}
	return
}

func G3() (_ Iter[string]) {
	var h *holder
	n := 0
	for range h.a { // no yield in the body: stays a plain for loop in the generated code
		n++
	}
	Yield(fmt.Sprint("h", n))
	return
}

// the same bodies, Yield(x) replaced by appending x

func N1() (r []string) {
	var p *[3]int
	for i := range *p {
		r = append(r, fmt.Sprint("p", i))
	}
	return
}

func N2() (r []string) {
	var rows [][2]int
	j := 5
	for i := range rows[j] {
		r = append(r, fmt.Sprint("rows", i))
	}
	return
}

func N3() (r []string) {
	var h *holder
	n := 0
	for range h.a {
		n++
	}
	r = append(r, fmt.Sprint("h", n))
	return
}

func collect(g func() Iter[string]) (got []string) {
	defer func() {
		if e := recover(); e != nil {
			got = append(got, fmt.Sprint("PANIC: ", e))
		}
	}()
	for v := range g() {
		got = append(got, v)
	}
	return
}

func main() {
	native := len(os.Args) > 1 && os.Args[1] == "native"
	bad := 0
	gs := []func() Iter[string]{G1, G2, G3}
	for k, n := range []func() []string{N1, N2, N3} {
		want := fmt.Sprint(n())
		fmt.Printf("%d native   : %s\n", k+1, want)
		if native {
			continue // G is only meaningful after compilation (Yield is a no-op stub in the source)
		}
		got := fmt.Sprint(collect(gs[k]))
		fmt.Printf("%d generator: %s\n", k+1, got)
		if got != want {
			bad++
		}
	}
	if bad > 0 {
		os.Exit(1)
	}
}
