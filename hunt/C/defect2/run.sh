#!/bin/bash
# exit 0 = the property holds on the input, non-zero = violated
export GOFLAGS=-mod=mod GOPROXY=off GOSUMDB=off GOTOOLCHAIN=local
GOVER=1.22
HERE=$(cd "$(dirname "$0")" && pwd)
ROOT=$(cd "$HERE/../.." && pwd)
W=$(mktemp -d "$ROOT/_hunt/scratch.XXXXXX") || exit 99
trap 'rm -rf "$W"' EXIT

mkdir -p "$W/m/src"
cat > "$W/m/go.mod" <<EOT
module m

go $GOVER

require github.com/goghcrow/go-co v0.0.0

replace github.com/goghcrow/go-co => $ROOT
EOT
cp "$ROOT/go.sum" "$W/m/go.sum"
cp "$HERE"/src/*.go "$W/m/src/"

(cd "$ROOT" && go build -o "$W/cotool" "./_hunt/$(basename "$HERE")/tool") || { echo "INFRA: cannot build the compiler driver"; exit 98; }

echo "== 1. the source is legal Go; its native twin N() gives the expected sequence"
(cd "$W/m" && go build -o "$W/src.bin" ./src && "$W/src.bin" native) || { echo "INFRA: the source does not build"; exit 97; }

echo "== 2. rewriter.Compile(src, out)"
if ! (cd "$W/m" && "$W/cotool" src out) > "$W/log" 2>&1; then
	echo "VIOLATED: the compiler failed:"
	grep -m3 -E "^panic|^\s+panic" "$W/log"
	exit 1
fi

echo "== 3. build the generated package"
if ! (cd "$W/m" && go build -o "$W/gen.bin" ./out); then
	echo "VIOLATED: the generated package does not build"
	[ -n "$SHOW" ] && cat "$W/m/out/"*.go
	exit 1
fi

echo "== 4. run it: generator vs native twin"
"$W/gen.bin" || { echo "VIOLATED: the generator differs from the native loop"; exit 1; }
echo "property holds on this input"
