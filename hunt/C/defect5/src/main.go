package main

import (
	"fmt"
	"os"

	. "github.com/goghcrow/go-co"
)

// `for _, token := range ts`: the ":=" form declares a variable `token` whose scope is the loop
// body; there it shadows the TYPE token. Perfectly legal (and common: `for _, node := range
// nodes`), the body only uses the variable.

type token struct{ s string }

func G(ts []token) (_ Iter[token]) {
	for i, token := range ts {
		if i == 1 {
			continue
		}
		Yield(token)
	}
	return
}

// the same body, Yield(x) replaced by appending x
func N(ts []token) (r []token) {
	for i, token := range ts {
		if i == 1 {
			continue
		}
		r = append(r, token)
	}
	return
}

func main() {
	in := []token{{"a"}, {"b"}, {"c"}}
	want := fmt.Sprint(N(in))
	fmt.Println("native   :", want)
	if len(os.Args) > 1 && os.Args[1] == "native" {
		return // G is only meaningful after compilation (Yield is a no-op stub in the source)
	}
	var got []token
	for v := range G(in) {
		got = append(got, v)
	}
	fmt.Println("generator:", fmt.Sprint(got))
	if fmt.Sprint(got) != want {
		os.Exit(1)
	}
}
