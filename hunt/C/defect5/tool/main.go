package main

import (
	"os"

	"github.com/goghcrow/go-co/rewriter"
)

func main() {
	rewriter.Compile(os.Args[1], os.Args[2])
}
