package gen

import (
	"fmt"

	. "github.com/goghcrow/go-co"
)

func Vals() Iter[any] {
	Yield[float64](1)
	Yield[int64](2)
	Yield[*int](nil)
	return nil
}

func Demo() string {
	out := ""
	for v := range Vals() {
		out += fmt.Sprintf("%T ", v)
	}
	return out
}
