package gen

import (
	"fmt"
	"time"

	. "github.com/goghcrow/go-co"
)

type Color int

func (c Color) String() string { return [...]string{"red", "green", "blue"}[c] }

// Yield with an explicit type argument: the untyped constants are a Color and a Duration
func Names() Iter[fmt.Stringer] {
	Yield[Color](1)
	Yield[time.Duration](1500)
	return nil
}

func Demo() string {
	out := ""
	for v := range Names() {
		out += fmt.Sprintf("%T=%v ", v, v)
	}
	return out
}
