#!/bin/bash
# exit 0: property C11 holds on the inputs (compiles, builds, same values); non-zero: violated
export GOFLAGS=-mod=mod GOPROXY=off GOSUMDB=off GOTOOLCHAIN=local
ROOT=/tmp/hunt/wtE
HERE=$ROOT/_hunt/defect5
W=$(mktemp -d $HERE/scratch.XXXXXX) || exit 99
trap 'rm -rf "$W"' EXIT
(cd $ROOT && go build -o $W/cc ./_hunt/defect5/cc) || { echo "SETUP: driver does not build"; exit 98; }
rc=0
while IFS='|' read -r name want; do
	M=$W/$name
	mkdir -p $M/cmd && cp -r $HERE/input/$name/gen $M/gen && cp $HERE/input/cmd/main.go $M/cmd/
	cat > $M/go.mod <<EOM
module example.com/m

go 1.22

require github.com/goghcrow/go-co v0.0.0

replace github.com/goghcrow/go-co => $ROOT
EOM
	cp $ROOT/go.sum $M/go.sum
	(cd $M && go vet ./gen) || { echo "SETUP[$name]: source package is not type-correct"; exit 97; }
	if ! (cd $M && $W/cc $M/gen $M/out >$M/compile.log 2>&1); then
		echo "VIOLATED[$name]: compiler panics: $(grep -m1 '^panic' $M/compile.log)"; rc=1; continue
	fi
	if ! (cd $M && go build ./out) 2>$M/build.log; then
		echo "VIOLATED[$name]: generated package does not build: $(grep -v '^#' $M/build.log | head -2)"; rc=1; continue
	fi
	got=$(cd $M && go run ./cmd 2>&1)
	if [ "$got" != "$want" ]; then echo "VIOLATED[$name]: want '$want' got '$got'"; rc=1; continue; fi
	echo "OK[$name]: $got"
done <<EOT
build|gen.Color=green time.Duration=1.5µs 
value|float64 int64 *int 
EOT
exit $rc
