package gen

import . "github.com/goghcrow/go-co"

// `defer` is outside the supported subset (README: "[ ] DeferStmt"); the compiler
// rejects it at every statement position (`*ast.DeferStmt implement me`) - except
// inside a range statement that it leaves native (pointer to array, type parameter).
func G(p *[3]int, log *[]string) Iter[int] {
	for _, x := range p {
		if x == 0 {
			defer func() { *log = append(*log, "deferred") }()
		}
	}
	Yield(1)
	*log = append(*log, "after1")
	Yield(2)
	*log = append(*log, "after2")
	return nil
}

// the same function with Yield replaced by appending to the log: what the source means
func Ref(p *[3]int, log *[]string) {
	for _, x := range p {
		if x == 0 {
			defer func() { *log = append(*log, "deferred") }()
		}
	}
	*log = append(*log, "got1")
	*log = append(*log, "after1")
	*log = append(*log, "got2")
	*log = append(*log, "after2")
}

func DemoGen() []string {
	var log []string
	for v := range G(&[3]int{1, 0, 2}, &log) {
		log = append(log, "got"+string(rune('0'+v)))
	}
	return log
}

func DemoRef() []string {
	var log []string
	Ref(&[3]int{1, 0, 2}, &log)
	return log
}
