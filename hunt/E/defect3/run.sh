#!/bin/bash
# exit 0: property C12 holds on the input (rejected with a diagnostic, or same behaviour); non-zero: violated
export GOFLAGS=-mod=mod GOPROXY=off GOSUMDB=off GOTOOLCHAIN=local
ROOT=/tmp/hunt/wtE
HERE=$ROOT/_hunt/defect3
W=$(mktemp -d $HERE/scratch.XXXXXX) || exit 99
trap 'rm -rf "$W"' EXIT
mkdir -p $W/mod && cp -r $HERE/input/. $W/mod/
cat > $W/mod/go.mod <<EOM
module example.com/m

go 1.22

require github.com/goghcrow/go-co v0.0.0

replace github.com/goghcrow/go-co => $ROOT
EOM
cp $ROOT/go.sum $W/mod/go.sum
(cd $ROOT && go build -o $W/cc ./_hunt/defect3/cc) || { echo "SETUP: driver does not build"; exit 98; }
(cd $W/mod && go vet ./gen) || { echo "SETUP: source package is not type-correct"; exit 97; }
if ! (cd $W/mod && $W/cc $W/mod/gen $W/mod/out >$W/compile.log 2>&1); then
	echo "OK: rejected with a diagnostic: $(grep -m1 '^panic' $W/compile.log)"; exit 0
fi
if ! (cd $W/mod && go build ./out) 2>$W/build.log; then
	echo "VIOLATED: accepted, but the generated package does not build"; head -5 $W/build.log; exit 1
fi
res=$(cd $W/mod && go run ./cmd 2>&1)
got=$(echo "$res" | sed -n 1p)
ref=$(echo "$res" | sed -n 2p)
want="[got1 after1 got2 after2 deferred]"
[ "$ref" = "$want" ] || { echo "SETUP: reference prints $ref"; exit 96; }
if [ "$got" != "$want" ]; then
	echo "VIOLATED: compiled without a diagnostic, builds, and behaves differently"
	echo "  want $want"
	echo "  got  $got"
	exit 1
fi
echo "OK: $got"
