package gen

import . "github.com/goghcrow/go-co"

func each(f func(int) bool) {
	for i := 1; i <= 3; i++ {
		if !f(i) {
			return
		}
	}
}

// range over func (go 1.23) inside an ordinary closure: nothing for the compiler to do
func Sum() Iter[int] {
	sum := func() int {
		s := 0
		for v := range each {
			s += v
		}
		return s
	}
	Yield(sum())
	return nil
}

func Demo() string {
	out := ""
	for v := range Sum() {
		out += string(rune('0' + v))
	}
	return out
}
