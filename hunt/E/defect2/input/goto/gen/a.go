package gen

import . "github.com/goghcrow/go-co"

// goto inside an ordinary closure; it does not jump over any declaration:
// the range variables are scoped to the for statement.
func First(xs []int, want int) Iter[int] {
	find := func() int {
		if len(xs) == 0 {
			goto none
		}
		for i, x := range xs {
			if x == want {
				return i
			}
		}
	none:
		return -1
	}
	Yield(find())
	return nil
}

func Demo() string {
	out := ""
	for v := range First([]int{5, 6, 7}, 7) {
		out += string(rune('0' + v))
	}
	return out
}
