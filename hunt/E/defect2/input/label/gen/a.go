package gen

import . "github.com/goghcrow/go-co"

// The labelled loop lives in an ordinary (non-generator) closure:
// labels, goto, ... there belong to the closure and must be accepted.
func Maxima(xs []int) Iter[int] {
	count := func() int {
		n := 0
	outer:
		for _, x := range xs {
			for _, y := range xs {
				if y > x {
					continue outer
				}
			}
			n++
		}
		return n
	}
	Yield(count())
	return nil
}

func Demo() string {
	out := ""
	for v := range Maxima([]int{3, 1, 3, 2}) {
		out += string(rune('0' + v))
	}
	return out
}
