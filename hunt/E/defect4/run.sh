#!/bin/bash
# exit 0: property C11 holds (cogen produces a generated file that builds, in both file layouts); non-zero: violated
# NOTE: the defect needs a module whose ROOT directory holds the co file, and no other go.mod above it.
# Every directory below /tmp/hunt/wtE is inside the go-co module, so the scratch directory is made with
# plain `mktemp -d` (system temp dir); it is removed on exit.
export GOFLAGS=-mod=mod GOPROXY=off GOSUMDB=off GOTOOLCHAIN=local
ROOT=/tmp/hunt/wtE
HERE=$ROOT/_hunt/defect4
W=$(mktemp -d) || exit 99
trap 'cd /; rm -rf "$W"' EXIT
d=$W; while [ "$d" != "/" ]; do [ -f "$d/go.mod" ] && { echo "SETUP: $d/go.mod above the scratch dir"; exit 95; }; d=$(dirname "$d"); done
(cd $ROOT && go build -o $W/cogen ./cmd/cogen) || { echo "SETUP: cogen does not build"; exit 98; }
mkmod() { # $1 = module root
	mkdir -p $1
	cat > $1/go.mod <<EOM
module example.com/m

go 1.22

require github.com/goghcrow/go-co v0.0.0

replace github.com/goghcrow/go-co => $ROOT
EOM
	cp $ROOT/go.sum $1/go.sum
}
rc=0
# control: the package in a sub directory of its module
mkmod $W/ctl; mkdir -p $W/ctl/app; cp $HERE/input/main_co.go $W/ctl/app/
(cd $W/ctl/app && go vet -tags co . ) || { echo "SETUP: source is not type-correct"; exit 97; }
(cd $W/ctl/app && GOFILE=main_co.go $W/cogen >$W/ctl.log 2>&1); st=$?
got=$(cd $W/ctl && go run ./app 2>&1)
if [ $st -ne 0 ] || [ "$got" != "1597" ]; then echo "VIOLATED[subdir]: cogen exit $st, go run: $got"; rc=1; else echo "OK[subdir]: cogen exit 0, app/main.go written, go run prints $got"; fi
# the package in the root directory of its module
mkmod $W/mod; cp $HERE/input/main_co.go $W/mod/
(cd $W/mod && GOFILE=main_co.go $W/cogen >$W/mod.log 2>&1); st=$?
got=$(cd $W/mod && go run . 2>&1)
if [ $st -ne 0 ] || [ ! -f $W/mod/main.go ] || [ "$got" != "1597" ]; then
	echo "VIOLATED[module root]: cogen exit $st; main.go $([ -f $W/mod/main.go ] && echo written || echo 'NOT written'); go run: $got"
	grep -v "^\[rewrite\]" $W/mod.log | head -6
	rc=1
else
	echo "OK[module root]: $got"
fi
exit $rc
