//go:build co

//go:generate cogen

package main

import (
	. "github.com/goghcrow/go-co"
)

// the quick-start program of README.md, in the root directory of its module
func Fibonacci() Iter[int] {
	a, b := 1, 1
	for {
		Yield(b)
		a, b = b, a+b
	}
}

func main() {
	for n := range Fibonacci() {
		if n > 1000 {
			println(n)
			break
		}
	}
}
