package main

import (
	"fmt"

	"example.com/m/out"
)

func main() { fmt.Println(gen.Demo()) }
