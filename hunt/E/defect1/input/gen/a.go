package gen

import . "github.com/goghcrow/go-co"

// A local variable named like the element type: ordinary Go, the type name
// is only shadowed from the declaration of the variable to the end of the block.
type token struct{ s string }

func Lex(ss []string) Iter[token] {
	for _, s := range ss {
		token := token{s}
		Yield(token)
	}
	return nil
}

// A parameter named like the element type: the result type `Iter[*tree]` is resolved
// in the enclosing (package) scope, parameters are scoped to the function body.
type tree struct {
	l, r *tree
	v    int
}

func Walk(tree *tree) Iter[*tree] {
	if tree == nil {
		return nil
	}
	YieldFrom(Walk(tree.l))
	Yield(tree)
	YieldFrom(Walk(tree.r))
	return nil
}

func Demo() string {
	out := ""
	for t := range Lex([]string{"a", "b"}) {
		out += t.s
	}
	root := &tree{&tree{nil, nil, 1}, &tree{nil, nil, 3}, 2}
	for n := range Walk(root) {
		out += string(rune('0' + n.v))
	}
	return out
}
