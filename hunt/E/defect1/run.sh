#!/bin/bash
# exit 0: property C11 holds on the input; non-zero: violated
export GOFLAGS=-mod=mod GOPROXY=off GOSUMDB=off GOTOOLCHAIN=local
ROOT=/tmp/hunt/wtE
HERE=$ROOT/_hunt/defect1
W=$(mktemp -d $HERE/scratch.XXXXXX) || exit 99
trap 'rm -rf "$W"' EXIT
mkdir -p $W/mod && cp -r $HERE/input/. $W/mod/
cat > $W/mod/go.mod <<EOM
module example.com/m

go 1.22

require github.com/goghcrow/go-co v0.0.0

replace github.com/goghcrow/go-co => $ROOT
EOM
cp $ROOT/go.sum $W/mod/go.sum
(cd $ROOT && go build -o $W/cc ./_hunt/defect1/cc) || { echo "SETUP: driver does not build"; exit 98; }
# the source package is type-correct Go (with the no-op stubs)
(cd $W/mod && go vet ./gen) || { echo "SETUP: source package is not type-correct"; exit 97; }
(cd $W/mod && $W/cc $W/mod/gen $W/mod/out >$W/compile.log 2>&1) || { echo "VIOLATED: compiler failed"; grep -m3 panic $W/compile.log; exit 1; }
if ! (cd $W/mod && go build ./out) 2>$W/build.log; then
	echo "VIOLATED: generated package does not build"; head -8 $W/build.log; exit 1
fi
got=$(cd $W/mod && go run ./cmd 2>&1)
want="ab123"
if [ "$got" != "$want" ]; then echo "VIOLATED: want $want got $got"; exit 1; fi
echo "OK: $got"
