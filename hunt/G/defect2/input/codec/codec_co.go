//go:build co

//go:generate cogen

package codec

import (
	"bytes"
	"image"
	_ "image/png" // registers the PNG decoder with package image

	. "github.com/goghcrow/go-co"
)

// Formats yields the image format name of every blob, "?" when it is not recognised.
func Formats(blobs Iter[[]byte]) (_ Iter[string]) {
	for b := range blobs {
		_, name, err := image.DecodeConfig(bytes.NewReader(b))
		if err != nil {
			name = "?"
		}
		Yield(name)
	}
	return
}
