//go:build co

package codec

import (
	"encoding/base64"
	"testing"

	. "github.com/goghcrow/go-co"
)

// a 1x1 PNG
const onePixel = "iVBORw0KGgoAAAANSUhEUgAAAAEAAAABCAYAAAAfFcSJAAAADUlEQVR42mNkYPhfDwAChwGA60e6kgAAAABJRU5ErkJggg=="

func blobs() (_ Iter[[]byte]) {
	b, err := base64.StdEncoding.DecodeString(onePixel)
	if err != nil {
		panic(err)
	}
	Yield(b)
	return
}

func TestFormats(t *testing.T) {
	var got []string
	for f := range Formats(blobs()) {
		got = append(got, f)
	}
	if len(got) != 1 || got[0] != "png" {
		t.Fatalf("formats = %q, want [\"png\"]", got)
	}
}
