#!/bin/bash
# C16 (and C15): a non-test co file with a blank (side-effect) import, in a package that
# also has a co test file.
# exit 0 = property holds, 1 = violated, 2 = could not run the experiment
set -u
export GOFLAGS=-mod=mod GOPROXY=off GOSUMDB=off GOTOOLCHAIN=local
HERE=$(cd "$(dirname "$0")" && pwd)
ROOT=${GOCO_ROOT:-$(cd "$HERE/../.." && pwd)}
S=$(mktemp -d "${TMPDIR:-/tmp}/goco_d2.XXXXXX") || exit 2
trap 'rm -rf "$S"' EXIT

(cd "$ROOT" && go build -o "$S/bin/cogen" ./cmd/cogen) || { echo "cannot build cogen"; exit 2; }

mkmod() { # $1 = module directory
	mkdir -p "$1"
	cp "$ROOT/go.sum" "$1/"
	cat > "$1/go.mod" <<MOD
module example.com/img

go 1.22

require github.com/goghcrow/go-co v0.0.0

replace github.com/goghcrow/go-co => $ROOT
MOD
}

# A: the package as delivered (codec_co.go + codec_co_test.go)
A=$S/a; mkmod "$A"; cp -r "$HERE/input/codec" "$A/codec"
# B: the same codec_co.go alone (no test file in the package)
B=$S/b; mkmod "$B"; mkdir "$B/codec"; cp "$HERE/input/codec/codec_co.go" "$B/codec/"

(cd "$A/codec" && go vet -tags co .) || { echo "source does not type-check with the co tag"; exit 2; }

(cd "$A/codec" && GOFILE=codec_co.go "$S/bin/cogen" >"$S/a.log" 2>&1) || { echo "cogen failed (A)"; tail -5 "$S/a.log"; exit 2; }
(cd "$B/codec" && GOFILE=codec_co.go "$S/bin/cogen" >"$S/b.log" 2>&1) || { echo "cogen failed (B)"; tail -5 "$S/b.log"; exit 2; }

echo "--- imports of codec.go generated WITH codec_co_test.go in the package:"
sed -n '/^import (/,/^)/p' "$A/codec/codec.go"
echo "--- imports of codec.go generated from codec_co.go alone:"
sed -n '/^import (/,/^)/p' "$B/codec/codec.go"

bad=0
if ! cmp -s "$A/codec/codec.go" "$B/codec/codec.go"; then
	echo "VIOLATION (C15): bytes of codec.go depend on the presence of another file (the test file)"
	bad=1
fi
if ! grep -q '_ "image/png"' "$A/codec/codec.go"; then
	echo "VIOLATION: the blank import of image/png is missing from the generated codec.go"
	bad=1
fi
echo "--- go test (no co tag) in the generated package:"
if ! (cd "$A/codec" && go test . 2>&1); then
	echo "VIOLATION (C16): the tests of the generated package do not pass without the co tag"
	bad=1
fi
# control: the same generated test against the codec.go that kept the blank import
cp "$A/codec/codec_test.go" "$B/codec/"
echo "--- control: go test with the codec.go generated without the test file around:"
(cd "$B/codec" && go test . 2>&1)
exit $bad
