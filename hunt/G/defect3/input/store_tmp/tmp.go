// Package store_tmp is a hand-written package of the user (a throw-away in-memory store)
// that happens to live next to package store.
package store_tmp

type Mem map[int]string

func New() Mem { return Mem{} }
