//go:build co

//go:generate cogen

package store

import (
	. "github.com/goghcrow/go-co"
)

// Keys yields the keys 0..n-1.
func Keys(n int) (_ Iter[int]) {
	for i := 0; i < n; i++ {
		Yield(i)
	}
	return
}
