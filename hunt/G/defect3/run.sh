#!/bin/bash
# C16: cogen must create/modify/delete nothing but the derived sibling files.
# Layout: package store (one co file) and, next to it, an unrelated hand-written package
# directory that is called store_tmp.
# exit 0 = property holds, 1 = violated, 2 = could not run the experiment
set -u
export GOFLAGS=-mod=mod GOPROXY=off GOSUMDB=off GOTOOLCHAIN=local
HERE=$(cd "$(dirname "$0")" && pwd)
ROOT=${GOCO_ROOT:-$(cd "$HERE/../.." && pwd)}
S=$(mktemp -d "${TMPDIR:-/tmp}/goco_d3.XXXXXX") || exit 2
trap 'rm -rf "$S"' EXIT

(cd "$ROOT" && go build -o "$S/bin/cogen" ./cmd/cogen) || { echo "cannot build cogen"; exit 2; }

M=$S/mod
mkdir -p "$M"
cp -r "$HERE/input/store" "$HERE/input/store_tmp" "$M/"
cp "$ROOT/go.sum" "$M/"
cat > "$M/go.mod" <<MOD
module example.com/kv

go 1.22

require github.com/goghcrow/go-co v0.0.0

replace github.com/goghcrow/go-co => $ROOT
MOD

snap() { (cd "$M" && find . -type f | LC_ALL=C sort | xargs sha1sum); }

(cd "$M" && go vet -tags co ./... && go build ./...) || { echo "sources do not build"; exit 2; }
snap > "$S/before.txt"

(cd "$M/store" && GOFILE=store_co.go "$S/bin/cogen" >"$S/cogen.log" 2>&1)
echo "cogen exit status: $?"
snap > "$S/after.txt"

echo "--- snapshot diff (before -> after):"
diff "$S/before.txt" "$S/after.txt"

# allowed difference: exactly one new file ./store/store.go
changed=$(diff "$S/before.txt" "$S/after.txt" | grep '^[<>]' | grep -v '^> [0-9a-f]*  \./store/store\.go$')
bad=0
if [ -n "$changed" ]; then
	echo "VIOLATION: files other than store/store.go were created, modified or deleted:"
	echo "$changed"
	bad=1
fi
[ -d "$M/store_tmp" ] || { echo "VIOLATION: the user's directory store_tmp is gone"; bad=1; }
[ -f "$M/store/store.go" ] || { echo "store/store.go was not written"; bad=1; }
exit $bad
