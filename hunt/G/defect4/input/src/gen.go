package src

import (
	. "github.com/goghcrow/go-co"
)

// Sums adds up xs and ys with two ordinary (non-yielding) range loops, one after the
// other in the same block, then yields both totals.
func Sums(xs, ys []int) (_ Iter[int]) {
	a, b := 0, 0
	for _, x := range xs {
		a += x
	}
	for _, y := range ys {
		b += y
	}
	Yield(a)
	Yield(b)
	return
}
