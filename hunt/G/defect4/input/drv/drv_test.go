package main

import (
	"os"
	"testing"

	"github.com/goghcrow/go-co/rewriter"
)

// The same call as in main, made from a test (e.g. a golden-file test of a code generator).
func TestCompile(t *testing.T) {
	rewriter.Compile(os.Getenv("GOCO_SRC"), os.Getenv("GOCO_DST"))
}
