#!/bin/bash
# C16: cogen in a package directory that is the ROOT of its module (the layout of the
# README quick start: go.mod + main_co.go side by side).
# exit 0 = property holds, 1 = violated, 2 = could not run the experiment
set -u
export GOFLAGS=-mod=mod GOPROXY=off GOSUMDB=off GOTOOLCHAIN=local
HERE=$(cd "$(dirname "$0")" && pwd)
ROOT=${GOCO_ROOT:-$(cd "$HERE/../.." && pwd)}
S=$(mktemp -d "${TMPDIR:-/tmp}/goco_d1.XXXXXX") || exit 2
trap 'rm -rf "$S"' EXIT

# the scratch directory must not sit below some other go.mod (that would hide the defect:
# the sibling temporary directory would then belong to that outer module)
d=$S
while [ "$d" != "/" ]; do
	if [ -e "$d/go.mod" ]; then echo "scratch dir $S is inside a module ($d/go.mod)"; exit 2; fi
	d=$(dirname "$d")
done

(cd "$ROOT" && go build -o "$S/bin/cogen" ./cmd/cogen) || { echo "cannot build cogen"; exit 2; }

M=$S/work/hello            # module root == package directory
mkdir -p "$M"
cp "$HERE/input/main_co.go" "$M/"
cp "$ROOT/go.sum" "$M/"
cat > "$M/go.mod" <<MOD
module example.com/hello

go 1.22

require github.com/goghcrow/go-co v0.0.0

replace github.com/goghcrow/go-co => $ROOT
MOD

(cd "$M" && go vet -tags co . ) || { echo "source does not type-check with the co tag"; exit 2; }

(cd "$M" && GOFILE=main_co.go "$S/bin/cogen" >"$S/cogen.log" 2>&1)
rc=$?
echo "cogen exit status: $rc"
grep -E 'skip optimize|panic' "$S/cogen.log"
echo "package directory after cogen:"; ls "$M"
echo "module parent after cogen:";     ls "$S/work"

bad=0
if [ ! -f "$M/main.go" ]; then
	echo "VIOLATION: main_co.go uses the API but no sibling main.go was written (cogen exit $rc)"
	bad=1
fi
if out=$(cd "$M" && go run . 2>&1); then
	echo "go run . (no co tag): $out"
	[ "$out" = "0 1 2 " ] || { echo "VIOLATION: wrong output"; bad=1; }
else
	echo "VIOLATION: package does not build without the co tag: $out"
	bad=1
fi

# control: the very same file one directory below the module root is generated fine
C=$S/ctl
mkdir -p "$C/hello"
cp "$HERE/input/main_co.go" "$C/hello/"
cp "$M/go.mod" "$M/go.sum" "$C/"
(cd "$C/hello" && GOFILE=main_co.go "$S/bin/cogen" >/dev/null 2>&1)
if [ -f "$C/hello/main.go" ]; then
	echo "control (package in a sub-directory of the module): main.go written, go run: $(cd "$C/hello" && go run . 2>&1)"
else
	echo "control failed too"
fi
exit $bad
