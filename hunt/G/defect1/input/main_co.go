//go:build co

//go:generate cogen

package main

import (
	"fmt"

	. "github.com/goghcrow/go-co"
)

func Nums(n int) (_ Iter[int]) {
	for i := 0; i < n; i++ {
		Yield(i)
	}
	return
}

func main() {
	for v := range Nums(3) {
		fmt.Print(v, " ")
	}
	fmt.Println()
}
