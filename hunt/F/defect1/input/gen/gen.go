package gen

import (
	. "github.com/goghcrow/go-co"
)

// Log records what the ORDINARY code of the generators computes; it does not depend on Yield,
// so it is observable both in the source package (Yield is a no-op stub) and in the generated one.
var Log []int

// Helper: the range loop lives in an ordinary closure that does not yield.
// The module says `go 1.19`: ONE variable v is shared by all iterations,
// every closure made in the loop sees the last element.
func Helper(xs []int) Iter[int] {
	thunks := func() []func() int {
		var fs []func() int
		for _, v := range xs {
			fs = append(fs, func() int { return v })
		}
		return fs
	}
	for _, f := range thunks() {
		Log = append(Log, f())
		Yield(f())
	}
	return nil
}

// InLoop: ordinary closures made in a yielding range loop capture the loop variable by reference.
func InLoop(xs []int) Iter[int] {
	var fs []func() int
	for _, v := range xs {
		fs = append(fs, func() int { return v })
		Yield(v)
	}
	for _, f := range fs {
		Log = append(Log, f())
	}
	return nil
}

// Plain is the control: the same loop in a function that is no generator.
func Plain(xs []int) []int {
	var fs []func() int
	for _, v := range xs {
		fs = append(fs, func() int { return v })
	}
	var out []int
	for _, f := range fs {
		out = append(out, f())
	}
	return out
}
