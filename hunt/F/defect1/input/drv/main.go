package main

import (
	"fmt"

	gen "exp/PKG"
)

func main() {
	xs := []int{1, 2, 3}

	gen.Log = nil
	for it := gen.Helper(xs); it.MoveNext(); {
	}
	fmt.Println("Helper", gen.Log)

	gen.Log = nil
	for it := gen.InLoop(xs); it.MoveNext(); {
	}
	fmt.Println("InLoop", gen.Log)

	fmt.Println("Plain ", gen.Plain(xs))
}
