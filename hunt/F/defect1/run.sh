#!/bin/bash
# exit 0: the generated package behaves like the source; non-zero: property C13 violated
set -u
HERE="$(cd "$(dirname "$0")" && pwd)"
REPO="$(cd "$HERE/../.." && pwd)"          # the go-co working tree
export GOFLAGS=-mod=mod GOPROXY=off GOSUMDB=off GOTOOLCHAIN=local
GOVER="${GOVER:-1.19}"                      # language version of the user module (go-co itself says 1.19)

W="$(mktemp -d)"
trap 'rm -rf "$W"' EXIT

cat > "$W/go.mod" <<MOD
module exp

go $GOVER

require github.com/goghcrow/go-co v0.0.0

replace github.com/goghcrow/go-co => $REPO
MOD
cp "$REPO/go.sum" "$W/go.sum"
mkdir -p "$W/tool" "$W/gen" "$W/drvsrc" "$W/drvout"
cp "$HERE/input/tool.go" "$W/tool/main.go"
cp "$HERE/input/gen/"*.go "$W/gen/"
sed 's#exp/PKG#exp/gen#' "$HERE/input/drv/main.go" > "$W/drvsrc/main.go"
sed 's#exp/PKG#exp/out#' "$HERE/input/drv/main.go" > "$W/drvout/main.go"

cd "$W" || exit 2
go run ./tool "$W/gen" "$W/out" > "$W/compile.log" 2>&1 || { cat "$W/compile.log"; echo "compiler failed"; exit 2; }

# what the source means: plain Go (Yield / Iter are the no-op stubs of package co)
SRC="$(go run ./drvsrc 2>&1)" || { echo "$SRC"; echo "source package does not run"; exit 2; }
# what the generated package does
OUT="$(go run ./drvout 2>&1)" || { echo "$OUT"; echo "generated package does not run"; exit 1; }

echo "--- source (go $GOVER)"; echo "$SRC"
echo "--- generated";          echo "$OUT"
if [ "$SRC" = "$OUT" ]; then echo "SAME"; exit 0; fi
echo "DIFFERENT: ordinary code inside a generator changed its meaning"
exit 1
