#!/bin/bash
# exit 0: variable initialisers and init functions of the co files run in the generated package
# in the order in which they run in the source package; non-zero: property C13 violated
set -u
HERE="$(cd "$(dirname "$0")" && pwd)"
REPO="$(cd "$HERE/../.." && pwd)"          # the go-co working tree
export GOFLAGS=-mod=mod GOPROXY=off GOSUMDB=off GOTOOLCHAIN=local

W="$(mktemp -d)"
trap 'rm -rf "$W"' EXIT
(cd "$REPO" && go build -o "$W/bin/cogen" ./cmd/cogen) || { echo "cannot build cogen"; exit 2; }

mkdir -p "$W/m"
cat > "$W/m/go.mod" <<MOD
module exp

go 1.19

require github.com/goghcrow/go-co v0.0.0

replace github.com/goghcrow/go-co => $REPO
MOD
cp "$REPO/go.sum" "$W/m/go.sum"
cp -r "$HERE/input/pkg" "$W/m/"
cd "$W/m" || exit 2

echo "--- files of the source package, in the order the go command hands them to the compiler"
go list -tags co -f '{{.GoFiles}}' ./pkg
SRC="$(go test -count=1 -v -tags co ./pkg 2>&1 | grep -E 'Order =|FAIL')"

(cd pkg && GOFILE=gen_co.go "$W/bin/cogen" > "$W/gen.log" 2>&1) || { cat "$W/gen.log"; echo "cogen failed"; exit 2; }

echo "--- files of the generated package"
go list -f '{{.GoFiles}}' ./pkg
OUT="$(go test -count=1 -v ./pkg 2>&1 | grep -E 'Order =|FAIL')"

echo "source    (go test -tags co):$SRC"
echo "generated (go test)         :$OUT"
[ "$SRC" = "$OUT" ] && exit 0
echo "DIFFERENT"
exit 1
