package pkg

// hand-written part of the package (no generators, no build tag)

// Order is the order in which the files of the package registered themselves.
var Order []string

func reg(name string) bool { Order = append(Order, name); return true }
