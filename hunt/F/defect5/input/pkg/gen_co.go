//go:build co

//go:generate cogen

package pkg

import . "github.com/goghcrow/go-co"

// plain code: a variable initialiser and an init function with an effect
var _ = reg("gen: var")

func init() { reg("gen: init") }

func A() Iter[int] { Yield(1); return nil }
