package pkg

import "testing"

func TestOrder(t *testing.T) { t.Log("Order =", Order) }
