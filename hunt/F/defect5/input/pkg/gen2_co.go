//go:build co

package pkg

import . "github.com/goghcrow/go-co"

// plain code: a variable initialiser and an init function with an effect
var _ = reg("gen2: var")

func init() { reg("gen2: init") }

func B() Iter[int] { Yield(2); return nil }
