#!/bin/bash
# exit 0: the file written by the optimise stage still has the imports it needs and the package builds;
# non-zero: property C07 violated (import clean-up removed an import the file still needs)
set -u
HERE="$(cd "$(dirname "$0")" && pwd)"
REPO="$(cd "$HERE/../.." && pwd)"          # the go-co working tree
export GOFLAGS=-mod=mod GOPROXY=off GOSUMDB=off GOTOOLCHAIN=local

W="$(mktemp -d)"
trap 'rm -rf "$W"' EXIT

# cogen with the verif hook, which keeps a copy of the UNOPTIMISED stage output (<dir>_tmp)
(cd "$REPO" && go build -tags verif -o "$W/bin/cogen" ./cmd/cogen) || { echo "cannot build cogen"; exit 2; }

mkdir -p "$W/m/pkg" "$W/m/drv"
cat > "$W/m/go.mod" <<MOD
module exp

go 1.19

require github.com/goghcrow/go-co v0.0.0

replace github.com/goghcrow/go-co => $REPO
MOD
cp "$REPO/go.sum" "$W/m/go.sum"
cp "$HERE/input/pkg/"*.go "$W/m/pkg/"
cp "$HERE/input/drv/main.go" "$W/m/drv/main.go"

cd "$W/m" || exit 2
go vet -tags co ./pkg || { echo "the source package is not valid Go"; exit 2; }

# go generate -tags co ./...   (the directive runs `cogen`; run it directly, the way go generate does)
(cd pkg && GOFILE=gen_co.go GOPACKAGE=pkg VERIF_KEEP_TMP="$W/kept" "$W/bin/cogen" > "$W/gen.log" 2>&1) \
	|| { cat "$W/gen.log"; echo "cogen failed"; exit 2; }

echo "--- imports of the unoptimised stage output (pkg_tmp/gen.go)"
sed -n '/^import (/,/^)/p' "$W/kept/gen.go"
echo "--- imports of the optimised output (pkg/gen.go)"
sed -n '/^import (/,/^)/p' pkg/gen.go

echo "--- go run ./drv (generated package, no build tag)"
if OUT="$(go run ./drv 2>&1)"; then
	echo "$OUT"
	[ "$OUT" = "$(printf 'eof true\neof\nshort')" ] && exit 0
	echo "unexpected output"; exit 1
fi
echo "$OUT"
echo "the generated package does not build"
exit 1
