package main

import (
	"fmt"
	"io"
	"time"

	"exp/pkg"
)

func main() {
	fmt.Println(pkg.Names[io.EOF], pkg.Slow.Has(time.Second))
	for it := pkg.Sorted(); it.MoveNext(); {
		fmt.Println(it.Current())
	}
}
