package pkg

// Hand-written part of the package: no generators, no build tag.
// `go generate` does not touch this file.

// Set is a generic set.
type Set[T comparable] map[T]struct{}

func (s Set[T]) Has(v T) bool { _, ok := s[v]; return ok }

// ErrNames gives errors a short name.
type ErrNames map[error]string
