//go:build co

//go:generate cogen

package pkg

import (
	"io"
	"time"

	. "github.com/goghcrow/go-co"
)

// "io" is mentioned only in the keys of a literal whose type lives in types.go
var Names = ErrNames{io.EOF: "eof", io.ErrUnexpectedEOF: "short"}

// "time" is mentioned only in a type argument of a generic type that lives in types.go
var Slow = Set[time.Duration]{time.Second: {}}

func Sorted() Iter[string] {
	Yield("eof")
	Yield("short")
	return nil
}
