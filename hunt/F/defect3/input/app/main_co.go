//go:build co

//go:debug panicnil=1
//go:generate cogen

package main

import (
	"fmt"

	. "github.com/goghcrow/go-co"
)

// Rescue is plain code: what does recover() see after panic(nil)?
// The //go:debug line above asks for the pre-1.21 behaviour: nil.
func Rescue() (r string) {
	defer func() { r = fmt.Sprintf("recovered: %v", recover()) }()
	panic(nil)
}

func Nums() Iter[int] {
	Yield(1)
	Yield(2)
	return nil
}

func main() {
	for it := Nums(); it.MoveNext(); {
	}
	fmt.Println(Rescue())
}
