package lib

import "testing"

func TestMode(t *testing.T) { t.Log("Mode() =", Mode()) }
