//go:build co && !alt

//go:generate cogen

package lib

import (
	. "github.com/goghcrow/go-co"
)

// Mode is plain code; this file is the default implementation, alt.go the alternative one.
func Mode() string { return "default" }

func Nums() Iter[int] {
	Yield(1)
	return nil
}
