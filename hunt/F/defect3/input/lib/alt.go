//go:build alt

package lib

// hand-written alternative implementation, selected with -tags alt

func Mode() string { return "alt" }
