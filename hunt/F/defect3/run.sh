#!/bin/bash
# exit 0: plain code of the processed files behaves in the generated files as in the source;
# non-zero: property C13 violated (directives in the file header are lost)
set -u
HERE="$(cd "$(dirname "$0")" && pwd)"
REPO="$(cd "$HERE/../.." && pwd)"          # the go-co working tree
export GOFLAGS=-mod=mod GOPROXY=off GOSUMDB=off GOTOOLCHAIN=local

W="$(mktemp -d)"
trap 'rm -rf "$W"' EXIT
(cd "$REPO" && go build -o "$W/bin/cogen" ./cmd/cogen) || { echo "cannot build cogen"; exit 2; }

mkdir -p "$W/m"
cat > "$W/m/go.mod" <<MOD
module exp

go 1.22

require github.com/goghcrow/go-co v0.0.0

replace github.com/goghcrow/go-co => $REPO
MOD
cp "$REPO/go.sum" "$W/m/go.sum"
cp -r "$HERE/input/app" "$HERE/input/lib" "$W/m/"
cd "$W/m" || exit 2

gen() { (cd "$1" && GOFILE="$2" "$W/bin/cogen" > "$W/gen.log" 2>&1) || { cat "$W/gen.log"; echo "cogen failed"; exit 2; }; }
bad=0

echo "=== 1. //go:debug panicnil=1 in the header of a main package"
SRC="$(go run -tags co ./app 2>&1)" || { echo "$SRC"; echo "source does not run"; exit 2; }
gen app main_co.go
echo "--- header of the generated app/main.go"; sed -n '1,/^package/p' app/main.go
OUT="$(go run ./app 2>&1)"
echo "source    (go run -tags co ./app): $SRC"
echo "generated (go run ./app)         : $OUT"
[ "$SRC" = "$OUT" ] || { echo "DIFFERENT"; bad=1; }

echo "=== 2. //go:build co && !alt"
S1="$(go test -count=1 -v -tags co ./lib 2>&1 | grep 'Mode() =')"
S2="$(go test -count=1 -v -tags co,alt ./lib 2>&1 | grep 'Mode() =')"
gen lib impl_co.go
echo "--- header of the generated lib/impl.go"; sed -n '1,/^package/p' lib/impl.go
G1="$(go test -count=1 -v ./lib 2>&1 | grep -E 'Mode\(\) =|redeclared|FAIL')"
G2="$(go test -count=1 -v -tags alt ./lib 2>&1 | grep -E 'Mode\(\) =|redeclared|FAIL')"
echo "source    -tags co     : $S1"
echo "generated (no tag)     : $G1"
echo "source    -tags co,alt : $S2"
echo "generated -tags alt    : $G2"
[ "$S1" = "$G1" ] && [ "$S2" = "$G2" ] || { echo "DIFFERENT"; bad=1; }

exit $bad
