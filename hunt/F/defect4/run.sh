#!/bin/bash
# exit 0: the plain closures of the co files mean in the generated files what they mean in the source;
# non-zero: property C13 (and C07) violated
set -u
HERE="$(cd "$(dirname "$0")" && pwd)"
REPO="$(cd "$HERE/../.." && pwd)"          # the go-co working tree
export GOFLAGS=-mod=mod GOPROXY=off GOSUMDB=off GOTOOLCHAIN=local

W="$(mktemp -d)"
trap 'rm -rf "$W"' EXIT
(cd "$REPO" && go build -tags verif -o "$W/bin/cogen" ./cmd/cogen) || { echo "cannot build cogen"; exit 2; }

mkdir -p "$W/m"
cat > "$W/m/go.mod" <<MOD
module exp

go 1.19

require github.com/goghcrow/go-co v0.0.0

replace github.com/goghcrow/go-co => $REPO
MOD
cp "$REPO/go.sum" "$W/m/go.sum"
cp -r "$HERE/input/quiet" "$HERE/input/loud" "$W/m/"
cd "$W/m" || exit 2

gen() { (cd "$1" && GOFILE="$2" VERIF_KEEP_TMP="$W/kept_$1" "$W/bin/cogen" > "$W/gen.log" 2>&1) || { cat "$W/gen.log"; echo "cogen failed"; exit 2; }; }
bad=0

echo "=== 1. quiet: the package builds, the closure changed its meaning"
SRC="$(go test -count=1 -v -tags co ./quiet 2>&1 | grep -E 'Check =|FAIL')"
gen quiet check_co.go
echo "--- unoptimised (quiet_tmp/check.go):"; grep -n 'validate :=' "$W/kept_quiet/check.go"
echo "--- optimised   (quiet/check.go)    :"; grep -n 'validate :=' quiet/check.go
OUT="$(go test -count=1 -v ./quiet 2>&1 | grep -E 'Check =|FAIL')"
echo "source    (go test -tags co):$SRC"
echo "generated (go test)         :$OUT"
[ "$SRC" = "$OUT" ] || { echo "DIFFERENT"; bad=1; }

echo "=== 2. loud: the generated package does not build"
SRC="$(go test -count=1 -v -tags co ./loud 2>&1 | grep -E 'Area =|FAIL')"
gen loud shapes_co.go
echo "--- unoptimised (loud_tmp/shapes.go):"; grep -n '"square":' "$W/kept_loud/shapes.go"
echo "--- optimised   (loud/shapes.go)    :"; grep -n '"square":' loud/shapes.go
OUT="$(go test -count=1 -v ./loud 2>&1 | grep -E 'Area =|FAIL|cannot use')"
echo "source    (go test -tags co):$SRC"
echo "generated (go test)         :$OUT"
[ "$SRC" = "$OUT" ] || { echo "DIFFERENT"; bad=1; }

exit $bad
