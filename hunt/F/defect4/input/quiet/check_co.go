//go:build co

//go:generate cogen

package quiet

import (
	. "github.com/goghcrow/go-co"
)

func missing(want []string) Missing {
	var m Missing
	for _, k := range want {
		if k != "id" {
			m = append(m, k)
		}
	}
	return m
}

// Check is plain code. The closure CONVERTS the Missing result of missing to the interface Problem:
// its result is a non-nil interface even when the slice inside is nil (the well-known typed-nil trap),
// so Check reports a problem for every input. Right or wrong, that is what the source does.
func Check(want []string) string {
	validate := func(want []string) Problem { return missing(want) }
	if p := validate(want); p != nil {
		return "problem: " + p.Problem()
	}
	return "fine"
}

func Keys() Iter[string] {
	Yield("id")
	return nil
}
