package quiet

// Hand-written part of the package (no generators, no build tag): the types.

// Problem is what a validation reports.
type Problem interface{ Problem() string }

// Missing lists the keys that are missing.
type Missing []string

func (m Missing) Problem() string { return "missing keys" }
