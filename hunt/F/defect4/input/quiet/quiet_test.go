package quiet

import "testing"

func TestCheck(t *testing.T) { t.Log("Check =", Check([]string{"id"})) }
