package loud

// Hand-written part of the package (no generators, no build tag): the types.

type Shape interface{ Area() int }

type Square struct{ A int }

func (s Square) Area() int { return s.A * s.A }
