//go:build co

//go:generate cogen

package loud

import (
	. "github.com/goghcrow/go-co"
)

func newSquare(a int) Square { return Square{a} }

// Shapes is plain code: a table of constructors
var Shapes = map[string]func(int) Shape{
	"square": func(a int) Shape { return newSquare(a) },
}

func Areas(n int) Iter[int] {
	for i := 1; i <= n; i++ {
		Yield(Shapes["square"](i).Area())
	}
	return nil
}
