package loud

import "testing"

func TestShapes(t *testing.T) { t.Log("Area =", Shapes["square"](3).Area()) }
