package main

import (
	"fmt"
	"os"

	"m/g"
)

func each(xs []int, f func(int)) {
	for _, x := range xs {
		f(x)
	}
}

// the same bodies, Yield replaced by appending to a slice:
// every value the source body passes to Yield, in order
func refDirect() (out []int) {
	Yield := func(v int) { out = append(out, v) }
	Yield(1)
	emit := Yield
	emit(2)
	Yield(3)
	return
}

func refCallback() (out []int) {
	Yield := func(v int) { out = append(out, v) }
	Yield(1)
	each([]int{2, 3}, Yield)
	Yield(4)
	return
}

type iter interface {
	MoveNext() bool
	Current() int
}

func drain(it iter) (out []int) {
	for it.MoveNext() {
		out = append(out, it.Current())
	}
	return
}

func main() {
	bad := false
	check := func(name string, exp, act []int) {
		fmt.Printf("%-8s expected %v  actual %v\n", name, exp, act)
		if fmt.Sprint(exp) != fmt.Sprint(act) {
			bad = true
		}
	}
	check("Direct", refDirect(), drain(g.Direct()))
	check("Callback", refCallback(), drain(g.Callback()))
	if bad {
		fmt.Println("VIOLATED: values passed to Yield through a function value are dropped silently")
		os.Exit(1)
	}
	fmt.Println("ok")
}
