package g

import . "github.com/goghcrow/go-co"

func each(xs []int, f func(int)) {
	for _, x := range xs {
		f(x)
	}
}

// Yield stored in a variable and called through it
func Direct() Iter[int] {
	Yield(1)
	emit := Yield[int]
	emit(2)
	Yield(3)
	return nil
}

// Yield handed to a helper as a callback
func Callback() Iter[int] {
	Yield(1)
	each([]int{2, 3}, Yield[int])
	Yield(4)
	return nil
}
