package main

import (
	"fmt"
	"os"

	"m/g"
)

func main() {
	var act []int
	for it := g.Gen(); it.MoveNext(); {
		act = append(act, it.Current())
	}
	exp := g.Plain() // Yield replaced by append: [0 1 2] under go 1.22
	fmt.Printf("expected %v  actual %v\n", exp, act)
	if fmt.Sprint(exp) != "[0 1 2]" {
		fmt.Println("unexpected reference, go version too old?")
		os.Exit(2)
	}
	if fmt.Sprint(exp) != fmt.Sprint(act) {
		fmt.Println("VIOLATED: a loop without any yield loses its per-iteration variable inside a generator")
		os.Exit(1)
	}
	fmt.Println("ok")
}
