package g

import . "github.com/goghcrow/go-co"

// The three-clause loop does NOT yield: it only collects closures.
// go.mod says `go 1.22`: every iteration has its own i.
func Gen() Iter[int] {
	var fs []func() int
	for i := 0; i < 3; i++ {
		fs = append(fs, func() int { return i })
	}
	Yield(fs[0]())
	Yield(fs[1]())
	Yield(fs[2]())
	return nil
}

// the same statements in an ordinary function of the same file
func Plain() []int {
	var out []int
	var fs []func() int
	for i := 0; i < 3; i++ {
		fs = append(fs, func() int { return i })
	}
	out = append(out, fs[0]())
	out = append(out, fs[1]())
	out = append(out, fs[2]())
	return out
}
