#!/bin/bash
# exit 0: property C01 holds on the input; non-zero: violated
export GOFLAGS=-mod=mod GOPROXY=off GOSUMDB=off GOTOOLCHAIN=local
HERE=$(cd "$(dirname "$0")" && pwd)
ROOT=$(cd "$HERE/../.." && pwd)          # the go-co working tree
W=$(mktemp -d "$HERE/scratch.XXXXXX")
trap 'rm -rf "$W"' EXIT

mkdir -p "$W/src/g" "$W/out/g" "$W/tool"
for d in src out; do
cat > "$W/$d/go.mod" <<EOM
module m

go 1.21

require github.com/goghcrow/go-co v0.0.0

replace github.com/goghcrow/go-co => $ROOT
EOM
cp "$ROOT/go.sum" "$W/$d/"
done
cp "$HERE/src/g/g.go" "$W/src/g/"
cp "$HERE/src/main.go" "$W/out/"

# the source itself is valid Go
(cd "$W/src" && go vet ./g) || { echo "source package does not build"; exit 2; }

# compiler driver: rewriter.Compile(srcDir, dstDir), built from the working tree
cat > "$W/tool/main.go" <<'EOM'
package main

import (
	"os"

	"github.com/goghcrow/go-co/rewriter"
)

func main() { rewriter.Compile(os.Args[1], os.Args[2]) }
EOM
cat > "$W/tool/go.mod" <<EOM
module tool

go 1.21

require github.com/goghcrow/go-co v0.0.0

replace github.com/goghcrow/go-co => $ROOT
EOM
cp "$ROOT/go.sum" "$W/tool/"
(cd "$W/tool" && go run . "$W/src/g" "$W/out/g") > "$W/compile.log" 2>&1 || { cat "$W/compile.log"; echo "compiler failed"; exit 3; }

(cd "$W/out" && go build ./g) > "$W/build.log" 2>&1 || { head -12 "$W/build.log"; echo "VIOLATED: the generated package does not build, there is no compiled generator to iterate"; exit 5; }
(cd "$W/out" && go run .)
