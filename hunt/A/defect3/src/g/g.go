package g

import (
	"time"

	. "github.com/goghcrow/go-co"
)

type node struct {
	val      int
	children []*node
}

// Walk: pre-order walk. The loop variable is named like the element type (common Go style).
func Walk(root *node) Iter[*node] {
	Yield(root)
	for i := 0; i < len(root.children); i++ {
		node := root.children[i]
		YieldFrom(Walk(node))
	}
	return nil
}

// Every: the parameter is named like the package of the element type
// (legal: the result type of a signature is resolved outside the function body).
func Every(time int) Iter[time.Duration] {
	for i := 1; i <= time; i++ {
		Yield(tick(i))
	}
	return nil
}

func tick(i int) time.Duration { return time.Duration(i) * time.Second }

func Tree() *node {
	return &node{1, []*node{{2, nil}, {3, []*node{{4, nil}}}, {5, nil}}}
}

func Val(n *node) int { return n.val }
