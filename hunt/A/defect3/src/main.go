package main

import (
	"fmt"
	"os"

	"m/g"
)

func main() {
	var act []string
	for it := g.Walk(g.Tree()); it.MoveNext(); {
		act = append(act, fmt.Sprint(g.Val(it.Current())))
	}
	for it := g.Every(3); it.MoveNext(); {
		act = append(act, it.Current().String())
	}
	exp := []string{"1", "2", "3", "4", "5", "1s", "2s", "3s"}
	fmt.Printf("expected %v  actual %v\n", exp, act)
	if fmt.Sprint(exp) != fmt.Sprint(act) {
		os.Exit(1)
	}
	fmt.Println("ok")
}
