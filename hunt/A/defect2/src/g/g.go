package g

import . "github.com/goghcrow/go-co"

// Pairs yields, for every x of xs, the number of ys that are <= x,
// as long as they come before the first y that is greater.
// The generator itself uses only a three-clause for loop and Yield;
// the labelled loop lives in an ordinary nested function literal.
func Pairs(xs, ys []int) Iter[int] {
	count := func(x int) int {
		c := 0
	scan:
		for _, y := range ys {
			switch {
			case y > x:
				break scan
			}
			c++
		}
		return c
	}
	for i := 0; i < len(xs); i++ {
		Yield(count(xs[i]))
	}
	return nil
}
