package main

import (
	"fmt"
	"os"

	"m/g"
)

// the same body, Yield replaced by appending to a slice
func ref(xs, ys []int) (out []int) {
	count := func(x int) int {
		c := 0
	scan:
		for _, y := range ys {
			switch {
			case y > x:
				break scan
			}
			c++
		}
		return c
	}
	for i := 0; i < len(xs); i++ {
		out = append(out, count(xs[i]))
	}
	return
}

func main() {
	xs, ys := []int{0, 2, 5}, []int{1, 2, 3, 9, 1}
	var act []int
	for it := g.Pairs(xs, ys); it.MoveNext(); {
		act = append(act, it.Current())
	}
	exp := ref(xs, ys)
	fmt.Printf("expected %v  actual %v\n", exp, act)
	if fmt.Sprint(exp) != fmt.Sprint(act) {
		os.Exit(1)
	}
	fmt.Println("ok")
}
