#!/bin/bash
# exit 0 = property C09 holds on the input, non-zero = violated
export GOFLAGS=-mod=mod GOPROXY=off GOSUMDB=off GOTOOLCHAIN=local
HERE=$(cd "$(dirname "$0")" && pwd)
W=$(cd "$HERE/../.." && pwd)          # the working tree under test
S=$(mktemp -d "$W/_hunt/scratch.XXXXXX") || exit 2
trap 'rm -rf "$S"' EXIT
cat > "$S/go.mod" <<EOM
module hunt
go 1.19
require github.com/goghcrow/go-co v0.0.0
replace github.com/goghcrow/go-co => $W
EOM
cp "$W/go.sum" "$S/"
cp "$HERE/main.go" "$S/"
cd "$S" && go run .
