package main

// Iterator protocol (C09) checked on the iterators handed out by the seq package itself:
// the generator returned by seq.Start, and the range helpers NewMapIter / NewSliceIter /
// NewIntegerIter / NewStringIter (all of them are seq.Iterator values, the compiler lowers
// every yielding `for range` loop to them).
//
// history: advance until false is reported, then advance twice more and read Current.
// expected for every iterator: the later advances report false (no panic),
// Current is the zero value before the first advance and after exhaustion.

import (
	"fmt"
	"os"
	"reflect"

	"github.com/goghcrow/go-co/seq"
)

var failed bool

func check[V any](name string, mk func() seq.Iterator[V]) {
	step := "start"
	defer func() {
		if r := recover(); r != nil {
			failed = true
			fmt.Printf("VIOLATION %-8s %s: panic: %v\n", name, step, r)
		}
	}()
	var zero V

	it := mk()
	step = "Current before the first advance"
	func() {
		defer func() {
			if r := recover(); r != nil {
				failed = true
				fmt.Printf("VIOLATION %-8s %s: panic: %v\n", name, step, r)
			}
		}()
		if c := it.Current(); !reflect.DeepEqual(c, zero) {
			failed = true
			fmt.Printf("VIOLATION %-8s %s: %v, want zero value\n", name, step, c)
		}
	}()

	it = mk()
	n := 0
	for it.MoveNext() {
		n++
	}
	for i := 1; i <= 2; i++ {
		step = fmt.Sprintf("advance #%d after exhaustion", i)
		if it.MoveNext() {
			failed = true
			fmt.Printf("VIOLATION %-8s %s: reported true\n", name, step)
		}
	}
	step = "Current after exhaustion"
	if c := it.Current(); !reflect.DeepEqual(c, zero) {
		failed = true
		fmt.Printf("VIOLATION %-8s %s: %v, want zero value\n", name, step, c)
	}
	fmt.Printf("ok        %-8s %d elements\n", name, n)
}

func main() {
	// reference point: a generator obeys the protocol
	check("start", func() seq.Iterator[int] {
		return seq.Start(seq.Bind(7, func() seq.Seq[int] {
			return seq.Bind(8, seq.Normal[int])
		}))
	})
	check("map", func() seq.Iterator[any] { return erase(seq.NewMapIter(map[string]int{"a": 1, "b": 2})) })
	check("emptymap", func() seq.Iterator[any] { return erase(seq.NewMapIter(map[string]int(nil))) })
	check("slice", func() seq.Iterator[any] { return erase(seq.NewSliceIter([]int{5, 6})) })
	check("integer", func() seq.Iterator[any] { return erase(seq.NewIntegerIter(2)) })
	check("string", func() seq.Iterator[any] { return erase(seq.NewStringIter("ab")) })
	if failed {
		os.Exit(1)
	}
}

// erase keeps the helper's own MoveNext / Current, only boxes the pair
// (its type is not exported); the zero pair is mapped to nil.
type erased[V any] struct{ it seq.Iterator[V] }

func erase[V any](it seq.Iterator[V]) seq.Iterator[any] { return erased[V]{it} }
func (e erased[V]) MoveNext() bool                      { return e.it.MoveNext() }
func (e erased[V]) Current() any {
	c := e.it.Current()
	var zero V
	if reflect.DeepEqual(c, zero) {
		return nil
	}
	return c
}
