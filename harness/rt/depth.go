package rt

import (
	"fmt"
	"runtime"
	"strings"

	"github.com/goghcrow/go-co/seq"
)

// goDepth: number of logical frames (inlined calls expanded) on the current goroutine's stack
func goDepth() int {
	pcs := make([]uintptr, 1<<16)
	n := runtime.Callers(0, pcs)
	frames := runtime.CallersFrames(pcs[:n])
	d := 0
	for {
		_, more := frames.Next()
		d++
		if !more {
			break
		}
	}
	return d
}

// RunDepth: a plain drain of maxOps MoveNext calls; every callback event is tagged with the stack depth
// at which it runs, normalised to the smallest depth within the same advance (K2).
func RunDepth(t *CTerm, maxOps int) string { return RunDepthBy(t, maxOps, false) }

// RunDepthBy: the same driven by MoveNext or by Send(0) (equivalent for the consumer; a different entry
// point of the runtime).  Besides the per-advance profile, the absolute depth at which an advance starts
// must not drift from one advance to the next: a drift is appended as DRIFT(+k) and makes the line differ
// from the model's (whose advances all start from the consumer's frame).
func RunDepthBy(t *CTerm, maxOps int, bySend bool) string {
	st := &Store{}
	type ev struct {
		name string
		d    int
	}
	var evs []ev
	st.Probe = func(tag string, id int) {
		evs = append(evs, ev{fmt.Sprintf("%s%d", tag, id), goDepth()})
	}
	gen := seq.Start[int](Build(t, st)).(seq.Generator[int])
	var out []string
	base, haveBase, drift := 0, false, 0
	for i := 0; i < maxOps; i++ {
		evs = evs[:0]
		res := func() (r string) {
			done := false
			defer func() {
				if p := recover(); !done {
					if p == nil {
						r = "PANIC(nil)"
					} else {
						r = fmt.Sprintf("PANIC(%v)", p)
					}
				}
			}()
			if bySend && i > 0 { // the first advance by MoveNext: Send on a fresh generator starts it AND sends
				_, ok := gen.Send(0)
				r = fmt.Sprint(ok)
			} else {
				r = fmt.Sprint(gen.MoveNext())
			}
			done = true
			return
		}()
		m := 0
		for j, e := range evs {
			if j == 0 || e.d < m {
				m = e.d
			}
		}
		if len(evs) > 0 {
			// the first callback of an advance runs a fixed number of frames below the consumer
			if !haveBase {
				base, haveBase = evs[0].d, true
			} else if d := evs[0].d - base; d > drift {
				drift = d
			}
		}
		var parts []string
		for _, e := range evs {
			parts = append(parts, fmt.Sprintf("%s@%d", e.name, e.d-m))
		}
		out = append(out, fmt.Sprintf("M=%s[%s]", res, strings.Join(parts, ",")))
		if res != "true" {
			break
		}
	}
	if drift > 8 {
		// the first callbacks of two advances may sit at slightly different depths (different combinators
		// are entered first); a drift beyond any term-size constant means frames pile up across advances
		out = append(out, fmt.Sprintf("DRIFT(+%d)@%d", drift, 1000+drift))
	}
	return strings.Join(out, " ")
}

// CondDepths: absolute depth at the first and at the last evaluation of condition callbacks during
// the first advance
func CondDepths(t *CTerm) (first, last int) {
	st := &Store{}
	n := 0
	st.Probe = func(tag string, id int) {
		if tag != "c" {
			return
		}
		d := goDepth()
		if n == 0 {
			first = d
		}
		last = d
		n++
	}
	gen := seq.Start[int](Build(t, st))
	gen.MoveNext()
	return
}

// CondDepthsN: absolute depth at the first and at the last evaluation of the condition callback with the
// given id, over `advances` MoveNext calls
func CondDepthsN(t *CTerm, id int, advances int) (first, last int) {
	st := &Store{}
	n := 0
	st.Probe = func(tag string, pid int) {
		if tag != "c" || pid != id {
			return
		}
		d := goDepth()
		if n == 0 {
			first = d
		}
		last = d
		n++
	}
	gen := seq.Start[int](Build(t, st))
	for i := 0; i < advances; i++ {
		func() {
			defer func() { recover() }()
			gen.MoveNext()
		}()
	}
	return
}
