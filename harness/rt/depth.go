package rt

import (
	"fmt"
	"runtime"
	"strings"

	"github.com/goghcrow/go-co/seq"
)

// goDepth: number of logical frames (inlined calls expanded) on the current goroutine's stack
func goDepth() int {
	pcs := make([]uintptr, 1<<16)
	n := runtime.Callers(0, pcs)
	frames := runtime.CallersFrames(pcs[:n])
	d := 0
	for {
		_, more := frames.Next()
		d++
		if !more {
			break
		}
	}
	return d
}

// RunDepth: a plain drain of maxOps MoveNext calls; every callback event is tagged with the stack depth
// at which it runs, normalised to the smallest depth within the same advance (K2).
func RunDepth(t *CTerm, maxOps int) string {
	st := &Store{}
	type ev struct {
		name string
		d    int
	}
	var evs []ev
	st.Probe = func(tag string, id int) {
		evs = append(evs, ev{fmt.Sprintf("%s%d", tag, id), goDepth()})
	}
	gen := seq.Start[int](Build(t, st))
	var out []string
	for i := 0; i < maxOps; i++ {
		evs = evs[:0]
		res := func() (r string) {
			defer func() {
				if p := recover(); p != nil {
					r = fmt.Sprintf("PANIC(%v)", p)
				}
			}()
			return fmt.Sprint(gen.MoveNext())
		}()
		m := 0
		for j, e := range evs {
			if j == 0 || e.d < m {
				m = e.d
			}
		}
		var parts []string
		for _, e := range evs {
			parts = append(parts, fmt.Sprintf("%s@%d", e.name, e.d-m))
		}
		out = append(out, fmt.Sprintf("M=%s[%s]", res, strings.Join(parts, ",")))
		if res != "true" {
			break
		}
	}
	return strings.Join(out, " ")
}

// CondDepths: absolute depth at the first and at the last evaluation of condition callbacks during
// the first advance
func CondDepths(t *CTerm) (first, last int) {
	st := &Store{}
	n := 0
	st.Probe = func(tag string, id int) {
		if tag != "c" {
			return
		}
		d := goDepth()
		if n == 0 {
			first = d
		}
		last = d
		n++
	}
	gen := seq.Start[int](Build(t, st))
	gen.MoveNext()
	return
}
