package rt

import (
	"fmt"
	"strings"

	"github.com/goghcrow/go-co/seq"
)

// Store mirrors GoCo.Store
type Store struct {
	Cells [4]int
	Log   []string
	// optional probe called by every scripted callback (K2: stack depth)
	Probe func(tag string, id int)
}

func (s *Store) get(j int) int    { return s.Cells[j%4] }
func (s *Store) set(j int, v int) { s.Cells[j%4] = v }

func (v VE) eval(st *Store) int {
	switch v.K {
	case VConst:
		return v.N
	case VCell:
		return st.get(v.J)
	default:
		return st.get(v.J) + v.N
	}
}

func (sc Script) run(tag string, recv int, st *Store) {
	st.Log = append(st.Log, fmt.Sprintf("%s%d", tag, sc.ID))
	if st.Probe != nil {
		st.Probe(tag, sc.ID)
	}
	for _, a := range sc.Acts {
		switch a.K {
		case AInc:
			st.set(a.J, st.get(a.J)+1)
		case ASet:
			st.set(a.J, a.N)
		case ARecvTo:
			st.set(a.J, recv)
		}
	}
	if sc.Pn == "nil" {
		// a panic with a nil value (panic(err) with a nil error): with the semantics of go < 1.21 modules -
		// go-co's own go.mod says 1.19 - recover() returns nil for it (vh sets //go:debug panicnil=1)
		panic(nil)
	}
	if sc.Pn != "" {
		panic(sc.Pn)
	}
}

// Build: the Go expression for the term, evaluated now (eagerly) in store st, using the real seq API.
func Build(t *CTerm, st *Store) seq.Seq[int] {
	switch t.K {
	case KNormal:
		return seq.Normal[int]()
	case KBrk:
		return seq.Break[int]()
	case KCont:
		return seq.Continue[int]()
	case KRet:
		return seq.Return[int]()
	case KRetV:
		return seq.ReturnValue[int](t.V.eval(st))
	case KBind:
		usesRecv := false
		for _, a := range t.Th.Acts {
			if a.K == ARecvTo {
				usesRecv = true
			}
		}
		if usesRecv {
			return seq.BindRecv[int](t.V.eval(st), func(recv int) seq.Seq[int] {
				t.Th.run("t", recv, st)
				return Build(t.A, st)
			})
		}
		return seq.Bind[int](t.V.eval(st), func() seq.Seq[int] {
			t.Th.run("t", 0, st)
			return Build(t.A, st)
		})
	case KDelay:
		return seq.Delay[int](func() seq.Seq[int] {
			t.Th.run("t", 0, st)
			return Build(t.A, st)
		})
	case KCombine:
		a := Build(t.A, st)
		b := Build(t.B, st)
		return seq.Combine[int](a, b)
	case KLoop:
		var cond func() bool
		var post func()
		if t.C != nil {
			c := t.C
			cond = func() bool {
				c.Sc.run("c", 0, st)
				return st.get(c.J) < c.N
			}
		}
		if t.P != nil {
			p := t.P
			post = func() { p.run("p", 0, st) }
		}
		body := Build(t.A, st)
		switch {
		case cond == nil && post == nil:
			return seq.Loop[int](body)
		case post == nil:
			return seq.While[int](cond, body)
		default:
			return seq.For[int](cond, post, body)
		}
	case KTwice:
		v := Build(t.A, st)
		return seq.Combine[int](v, v)
	case KIte:
		c := t.C
		return seq.Delay[int](func() seq.Seq[int] {
			c.Sc.run("c", 0, st)
			if st.get(c.J) < c.N {
				return Build(t.A, st)
			}
			return Build(t.B, st)
		})
	}
	panic("bad kind")
}

type OpKind int

const (
	OpM OpKind = iota
	OpC
	OpS
	OpR
)

type Op struct {
	K OpKind
	V int
}

func (o Op) String() string {
	switch o.K {
	case OpM:
		return "M"
	case OpC:
		return "C"
	case OpR:
		return "R"
	}
	return fmt.Sprintf("S%d", o.V)
}

func (o Op) Sexp() string {
	if o.K == OpS {
		return fmt.Sprintf("(S %d)", o.V)
	}
	return o.String()
}

func OpsSexp(ops []Op) string {
	xs := make([]string, len(ops))
	for i, o := range ops {
		xs[i] = o.Sexp()
	}
	return "(" + strings.Join(xs, " ") + ")"
}

// RunOps runs a history against the real runtime and renders it exactly like GoCo.runModel.
func RunOps(t *CTerm, ops []Op) string {
	st := &Store{}
	gen := seq.Start[int](Build(t, st)).(seq.Generator[int])
	var out []string
	for _, op := range ops {
		before := len(st.Log)
		obs := func() (obs string) {
			done := false
			defer func() {
				// a panic is recognised by the call not having returned - its value may be nil
				if r := recover(); !done {
					if r == nil {
						obs = "PANIC(nil)"
					} else {
						obs = fmt.Sprintf("PANIC(%v)", r)
					}
				}
			}()
			switch op.K {
			case OpM:
				obs = fmt.Sprint(gen.MoveNext())
			case OpC:
				obs = fmt.Sprint(gen.Current())
			case OpR:
				obs = fmt.Sprint(gen.Result())
			default:
				v, ok := gen.Send(op.V)
				obs = fmt.Sprintf("%d,%v", v, ok)
			}
			done = true
			return
		}()
		out = append(out, fmt.Sprintf("%s=%s[%s]", op, obs, strings.Join(st.Log[before:], ",")))
	}
	return strings.Join(out, " ") + fmt.Sprintf(" cells=[%d, %d, %d, %d]", st.Cells[0], st.Cells[1], st.Cells[2], st.Cells[3])
}
