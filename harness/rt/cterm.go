// Package rt: correspondence K1/K2 between the Lean model of seq.go and the real runtime.
// CTerm mirrors GoCo/Runtime/Concrete.lean.
package rt

import (
	"fmt"

	"verif/harness/sexp"
)

type VEKind int

const (
	VConst VEKind = iota
	VCell
	VCellPlus
)

type VE struct {
	K VEKind
	J int
	N int
}

type ActKind int

const (
	AInc ActKind = iota
	ASet
	ARecvTo
)

type Act struct {
	K ActKind
	J int
	N int
}

type Script struct {
	ID   int
	Acts []Act
	Pn   string // "" = no panic
}

type Cond struct {
	Sc Script
	J  int
	N  int
}

type Kind int

const (
	KNormal Kind = iota
	KBrk
	KCont
	KRet
	KRetV
	KBind
	KDelay
	KCombine
	KLoop
	KIte   // Delay(func() Seq { if C() { return A }; return B })
	KTwice // v := A; Combine(v, v): ONE Seq value run twice, with different continuations
)

type CTerm struct {
	K    Kind
	V    VE
	Th   Script
	A, B *CTerm // A: body / first; B: second of combine
	C    *Cond
	P    *Script
}

func (v VE) Sexp() *sexp.Node {
	switch v.K {
	case VConst:
		return sexp.L(sexp.A("const"), sexp.I(v.N))
	case VCell:
		return sexp.L(sexp.A("cell"), sexp.I(v.J))
	default:
		return sexp.L(sexp.A("cellplus"), sexp.I(v.J), sexp.I(v.N))
	}
}

func (a Act) Sexp() *sexp.Node {
	switch a.K {
	case AInc:
		return sexp.L(sexp.A("inc"), sexp.I(a.J))
	case ASet:
		return sexp.L(sexp.A("set"), sexp.I(a.J), sexp.I(a.N))
	default:
		return sexp.L(sexp.A("recvto"), sexp.I(a.J))
	}
}

func (s Script) Sexp() *sexp.Node {
	acts := sexp.L()
	for _, a := range s.Acts {
		acts.List = append(acts.List, a.Sexp())
	}
	pn := "-"
	if s.Pn != "" {
		pn = s.Pn
	}
	return sexp.L(sexp.A("s"), sexp.I(s.ID), acts, sexp.A(pn))
}

func (t *CTerm) Sexp() *sexp.Node {
	switch t.K {
	case KNormal:
		return sexp.A("normal")
	case KBrk:
		return sexp.A("brk")
	case KCont:
		return sexp.A("cont")
	case KRet:
		return sexp.A("ret")
	case KRetV:
		return sexp.L(sexp.A("retv"), t.V.Sexp())
	case KBind:
		return sexp.L(sexp.A("bind"), t.V.Sexp(), t.Th.Sexp(), t.A.Sexp())
	case KDelay:
		return sexp.L(sexp.A("delay"), t.Th.Sexp(), t.A.Sexp())
	case KCombine:
		return sexp.L(sexp.A("combine"), t.A.Sexp(), t.B.Sexp())
	case KLoop:
		c, p := sexp.A("-"), sexp.A("-")
		if t.C != nil {
			c = sexp.L(sexp.A("c"), t.C.Sc.Sexp(), sexp.I(t.C.J), sexp.I(t.C.N))
		}
		if t.P != nil {
			p = t.P.Sexp()
		}
		return sexp.L(sexp.A("loop"), c, p, t.A.Sexp())
	case KTwice:
		return sexp.L(sexp.A("twice"), t.A.Sexp())
	case KIte:
		return sexp.L(sexp.A("ite"), sexp.L(sexp.A("c"), t.C.Sc.Sexp(), sexp.I(t.C.J), sexp.I(t.C.N)), t.A.Sexp(), t.B.Sexp())
	}
	panic("bad kind")
}

func (t *CTerm) Size() int {
	switch t.K {
	case KBind, KDelay, KLoop, KTwice:
		return 1 + t.A.Size()
	case KCombine, KIte:
		return 1 + t.A.Size() + t.B.Size()
	}
	return 1
}

func (t *CTerm) String() string { return fmt.Sprint(t.Sexp()) }

// ---- static predicates used by the generators to keep runs finite ----

// alwaysNormal: completes with Normal without yielding, exiting or panicking
func alwaysNormal(t *CTerm) bool {
	switch t.K {
	case KNormal:
		return true
	case KDelay:
		return t.Th.Pn == "" && alwaysNormal(t.A)
	case KCombine:
		return alwaysNormal(t.A) && alwaysNormal(t.B)
	case KIte:
		return t.C.Sc.Pn == "" && alwaysNormal(t.A) && alwaysNormal(t.B)
	case KTwice:
		return alwaysNormal(t.A)
	}
	return false
}

// mustYield: every run yields (or panics) before it completes
func mustYield(t *CTerm) bool {
	switch t.K {
	case KBind:
		return true
	case KDelay:
		return t.Th.Pn != "" || mustYield(t.A)
	case KCombine:
		return mustYield(t.A) || (alwaysNormal(t.A) && mustYield(t.B))
	case KLoop:
		return t.C == nil && (t.P == nil || t.P.Pn == "") && mustYield(t.A)
	case KIte:
		return t.C.Sc.Pn != "" || (mustYield(t.A) && mustYield(t.B))
	case KTwice:
		return mustYield(t.A)
	}
	return false
}

// yieldsOrExits: every run yields, panics, or completes with Break/Return (never Normal/Continue silently)
func yieldsOrExits(t *CTerm) bool {
	switch t.K {
	case KBrk, KRet, KRetV, KBind:
		return true
	case KDelay:
		return t.Th.Pn != "" || yieldsOrExits(t.A)
	case KCombine:
		return yieldsOrExits(t.A) || (alwaysNormal(t.A) && yieldsOrExits(t.B))
	case KLoop:
		return mustYield(t)
	case KIte:
		return t.C.Sc.Pn != "" || (yieldsOrExits(t.A) && yieldsOrExits(t.B))
	case KTwice:
		return yieldsOrExits(t.A)
	}
	return false
}

// Finite: every advance of the term terminates (conditions count their own evaluations, so a loop
// with a condition always stops; a loop without one must yield or exit in every iteration)
func Finite(t *CTerm) bool {
	switch t.K {
	case KBind, KDelay, KTwice:
		return Finite(t.A)
	case KCombine, KIte:
		return Finite(t.A) && Finite(t.B)
	case KLoop:
		if !Finite(t.A) {
			return false
		}
		if t.C != nil {
			return true
		}
		return yieldsOrExits(t.A)
	}
	return true
}
