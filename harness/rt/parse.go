package rt

import (
	"fmt"
	"strconv"

	"verif/harness/sexp"
)

func atoi(n *sexp.Node) (int, error) {
	if n.IsL {
		return 0, fmt.Errorf("expected int")
	}
	return strconv.Atoi(n.Atom)
}

func parseVE(n *sexp.Node) (VE, error) {
	switch n.Head() {
	case "const":
		v, err := atoi(n.Arg(0))
		return VE{K: VConst, N: v}, err
	case "cell":
		v, err := atoi(n.Arg(0))
		return VE{K: VCell, J: v}, err
	case "cellplus":
		j, err := atoi(n.Arg(0))
		if err != nil {
			return VE{}, err
		}
		v, err := atoi(n.Arg(1))
		return VE{K: VCellPlus, J: j, N: v}, err
	}
	return VE{}, fmt.Errorf("bad VE %s", n)
}

func parseScript(n *sexp.Node) (Script, error) {
	if n.Head() != "s" || n.NArgs() != 3 {
		return Script{}, fmt.Errorf("bad script %s", n)
	}
	id, err := atoi(n.Arg(0))
	if err != nil {
		return Script{}, err
	}
	s := Script{ID: id}
	for _, a := range n.Arg(1).List {
		j, err := atoi(a.Arg(0))
		if err != nil {
			return s, err
		}
		switch a.Head() {
		case "inc":
			s.Acts = append(s.Acts, Act{K: AInc, J: j})
		case "set":
			v, err := atoi(a.Arg(1))
			if err != nil {
				return s, err
			}
			s.Acts = append(s.Acts, Act{K: ASet, J: j, N: v})
		case "recvto":
			s.Acts = append(s.Acts, Act{K: ARecvTo, J: j})
		default:
			return s, fmt.Errorf("bad act %s", a)
		}
	}
	if n.Arg(2).Atom != "-" {
		s.Pn = n.Arg(2).Atom
	}
	return s, nil
}

func ParseCTerm(n *sexp.Node) (*CTerm, error) {
	if !n.IsL {
		switch n.Atom {
		case "normal":
			return &CTerm{K: KNormal}, nil
		case "brk":
			return &CTerm{K: KBrk}, nil
		case "cont":
			return &CTerm{K: KCont}, nil
		case "ret":
			return &CTerm{K: KRet}, nil
		}
		return nil, fmt.Errorf("bad term atom %s", n.Atom)
	}
	switch n.Head() {
	case "retv":
		v, err := parseVE(n.Arg(0))
		return &CTerm{K: KRetV, V: v}, err
	case "bind":
		v, err := parseVE(n.Arg(0))
		if err != nil {
			return nil, err
		}
		th, err := parseScript(n.Arg(1))
		if err != nil {
			return nil, err
		}
		a, err := ParseCTerm(n.Arg(2))
		return &CTerm{K: KBind, V: v, Th: th, A: a}, err
	case "delay":
		th, err := parseScript(n.Arg(0))
		if err != nil {
			return nil, err
		}
		a, err := ParseCTerm(n.Arg(1))
		return &CTerm{K: KDelay, Th: th, A: a}, err
	case "combine":
		a, err := ParseCTerm(n.Arg(0))
		if err != nil {
			return nil, err
		}
		b, err := ParseCTerm(n.Arg(1))
		return &CTerm{K: KCombine, A: a, B: b}, err
	case "loop":
		t := &CTerm{K: KLoop}
		if c := n.Arg(0); c.IsL {
			sc, err := parseScript(c.Arg(0))
			if err != nil {
				return nil, err
			}
			j, _ := atoi(c.Arg(1))
			v, _ := atoi(c.Arg(2))
			t.C = &Cond{Sc: sc, J: j, N: v}
		}
		if p := n.Arg(1); p.IsL {
			sc, err := parseScript(p)
			if err != nil {
				return nil, err
			}
			t.P = &sc
		}
		a, err := ParseCTerm(n.Arg(2))
		t.A = a
		return t, err
	case "twice":
		a, err := ParseCTerm(n.Arg(0))
		return &CTerm{K: KTwice, A: a}, err
	case "ite":
		c := n.Arg(0)
		sc, err := parseScript(c.Arg(0))
		if err != nil {
			return nil, err
		}
		j, _ := atoi(c.Arg(1))
		v, _ := atoi(c.Arg(2))
		a, err := ParseCTerm(n.Arg(1))
		if err != nil {
			return nil, err
		}
		b, err := ParseCTerm(n.Arg(2))
		return &CTerm{K: KIte, C: &Cond{Sc: sc, J: j, N: v}, A: a, B: b}, err
	}
	return nil, fmt.Errorf("bad term %s", n)
}

func ParseOps(n *sexp.Node) ([]Op, error) {
	var out []Op
	for _, o := range n.List {
		if o.IsL {
			v, err := atoi(o.Arg(0))
			if err != nil {
				return nil, err
			}
			out = append(out, Op{K: OpS, V: v})
			continue
		}
		switch o.Atom {
		case "M":
			out = append(out, Op{K: OpM})
		case "C":
			out = append(out, Op{K: OpC})
		case "R":
			out = append(out, Op{K: OpR})
		default:
			return nil, fmt.Errorf("bad op %s", o.Atom)
		}
	}
	return out, nil
}
