package rt

import (
	"math/rand"
)

// ---- decoration: scripts, values and conditions drawn from one PRNG ----

type deco struct {
	r      *rand.Rand
	nextID int
	panics bool // allow panicking scripts
}

func (d *deco) id() int { d.nextID++; return d.nextID }

func (d *deco) acts(allowRecv bool) []Act {
	var out []Act
	n := d.r.Intn(3)
	for i := 0; i < n; i++ {
		switch k := d.r.Intn(6); {
		case k < 3:
			out = append(out, Act{K: AInc, J: d.r.Intn(2)})
		case k < 5 || !allowRecv:
			out = append(out, Act{K: ASet, J: d.r.Intn(2), N: d.r.Intn(5)})
		default:
			out = append(out, Act{K: ARecvTo, J: d.r.Intn(2)})
		}
	}
	return out
}

func (d *deco) script(allowRecv bool) Script {
	s := Script{ID: d.id(), Acts: d.acts(allowRecv)}
	if d.panics && d.r.Intn(12) == 0 {
		s.Pn = []string{"boom", "bang", "pow", "nil"}[d.r.Intn(4)]
	}
	return s
}

func (d *deco) ve() VE {
	switch d.r.Intn(3) {
	case 0:
		return VE{K: VConst, N: d.r.Intn(9) + 1}
	case 1:
		return VE{K: VCell, J: d.r.Intn(4)}
	default:
		return VE{K: VCellPlus, J: d.r.Intn(4), N: (d.r.Intn(3) + 1) * 10}
	}
}

// cond: the script counts its own evaluations in cell j (so every conditional loop terminates)
func (d *deco) cond() *Cond {
	j := 2 + d.r.Intn(2)
	sc := d.script(false)
	sc.Acts = append(sc.Acts, Act{K: AInc, J: j})
	return &Cond{Sc: sc, J: j, N: d.r.Intn(4) + 1}
}

// ---- shapes ----

type shapeKind int

const (
	sNormal shapeKind = iota
	sBrk
	sCont
	sRet
	sRetV
	sBind
	sDelay
	sFor      // cond + post
	sWhile    // cond
	sLoop     // neither
	sPostOnly // For(nil, post, body)
	sCombine
	sIte   // state-dependent branch
	sTwice // one Seq value used twice
)

var leafKinds = []shapeKind{sNormal, sBrk, sCont, sRet, sRetV}
var unaryKinds = []shapeKind{sBind, sDelay, sFor, sWhile, sLoop, sPostOnly, sTwice}

type shape struct {
	k    shapeKind
	a, b *shape
}

// allShapes(n): every shape with exactly n nodes
func allShapes(n int, memo map[int][]*shape) []*shape {
	if v, ok := memo[n]; ok {
		return v
	}
	var out []*shape
	if n == 1 {
		for _, k := range leafKinds {
			out = append(out, &shape{k: k})
		}
	} else {
		for _, a := range allShapes(n-1, memo) {
			for _, k := range unaryKinds {
				out = append(out, &shape{k: k, a: a})
			}
		}
		for i := 1; i <= n-2; i++ {
			for _, a := range allShapes(i, memo) {
				for _, b := range allShapes(n-1-i, memo) {
					out = append(out, &shape{k: sCombine, a: a, b: b})
					out = append(out, &shape{k: sIte, a: a, b: b})
				}
			}
		}
	}
	memo[n] = out
	return out
}

func (d *deco) decorate(s *shape) *CTerm {
	switch s.k {
	case sNormal:
		return &CTerm{K: KNormal}
	case sBrk:
		return &CTerm{K: KBrk}
	case sCont:
		return &CTerm{K: KCont}
	case sRet:
		return &CTerm{K: KRet}
	case sRetV:
		return &CTerm{K: KRetV, V: d.ve()}
	case sBind:
		v := d.ve()
		th := d.script(true)
		return &CTerm{K: KBind, V: v, Th: th, A: d.decorate(s.a)}
	case sDelay:
		th := d.script(false)
		return &CTerm{K: KDelay, Th: th, A: d.decorate(s.a)}
	case sCombine:
		a := d.decorate(s.a)
		return &CTerm{K: KCombine, A: a, B: d.decorate(s.b)}
	case sTwice:
		return &CTerm{K: KTwice, A: d.decorate(s.a)}
	case sIte:
		c := d.cond()
		a := d.decorate(s.a)
		return &CTerm{K: KIte, C: c, A: a, B: d.decorate(s.b)}
	case sFor:
		c := d.cond()
		p := d.script(false)
		return &CTerm{K: KLoop, C: c, P: &p, A: d.decorate(s.a)}
	case sWhile:
		c := d.cond()
		return &CTerm{K: KLoop, C: c, A: d.decorate(s.a)}
	case sLoop:
		return &CTerm{K: KLoop, A: d.decorate(s.a)}
	case sPostOnly:
		p := d.script(false)
		return &CTerm{K: KLoop, P: &p, A: d.decorate(s.a)}
	}
	panic("bad shape")
}

// Exhaustive: every shape with at most maxSize nodes, each decorated `variants` times from the seed;
// only Finite terms are kept.
func Exhaustive(maxSize, variants int, seed int64, panics bool) []*CTerm {
	memo := map[int][]*shape{}
	var out []*CTerm
	idx := int64(0)
	for n := 1; n <= maxSize; n++ {
		for _, s := range allShapes(n, memo) {
			for v := 0; v < variants; v++ {
				idx++
				d := &deco{r: rand.New(rand.NewSource(seed*1000003 + idx)), panics: panics}
				t := d.decorate(s)
				if Finite(t) {
					out = append(out, t)
				}
			}
		}
	}
	return out
}

func randomShape(r *rand.Rand, size int) *shape {
	if size <= 1 {
		return &shape{k: leafKinds[r.Intn(len(leafKinds))]}
	}
	if size >= 3 && r.Intn(3) == 0 {
		i := 1 + r.Intn(size-2)
		k := sCombine
		if r.Intn(2) == 0 {
			k = sIte
		}
		return &shape{k: k, a: randomShape(r, i), b: randomShape(r, size-1-i)}
	}
	k := unaryKinds[r.Intn(len(unaryKinds))]
	if r.Intn(3) == 0 {
		k = sBind
	}
	return &shape{k: k, a: randomShape(r, size-1)}
}

// latePanic: a loop whose first iterations yield and whose later iteration panics (the condition of the branch
// counts its evaluations), so that a consumer that recovers and advances again re-enters a loop activation a
// panic has unwound through
func (d *deco) latePanic() *CTerm {
	r := d.r
	yielding := &CTerm{K: KBind, V: d.ve(), Th: d.script(true), A: d.decorate(randomShape(r, 1+r.Intn(2)))}
	boom := d.script(false)
	boom.Pn = []string{"boom", "bang", "pow", "nil"}[r.Intn(4)]
	bad := &CTerm{K: KDelay, Th: boom, A: d.decorate(randomShape(r, 1))}
	ic := d.cond()
	body := &CTerm{K: KIte, C: ic, A: yielding, B: bad}
	if r.Intn(3) == 0 {
		body = &CTerm{K: KCombine, A: &CTerm{K: KBind, V: d.ve(), Th: d.script(false), A: &CTerm{K: KNormal}}, B: body}
	}
	lc := d.cond()
	lc.N = ic.N + 2 + r.Intn(2)
	t := &CTerm{K: KLoop, C: lc, A: body}
	if r.Intn(2) == 0 {
		p := d.script(false)
		t.P = &p
	}
	switch r.Intn(4) {
	case 0:
		t = &CTerm{K: KCombine, A: t, B: &CTerm{K: KBind, V: d.ve(), Th: d.script(false), A: &CTerm{K: KNormal}}}
	case 1:
		oc := d.cond()
		t = &CTerm{K: KLoop, C: oc, A: t}
	}
	return t
}

// Random: n finite terms with sizes in [lo, hi]
func Random(n, lo, hi int, seed int64, panics bool) []*CTerm {
	r := rand.New(rand.NewSource(seed))
	var out []*CTerm
	for tries := 0; len(out) < n && tries < 50*n; tries++ {
		s := randomShape(r, lo+r.Intn(hi-lo+1))
		d := &deco{r: r, panics: panics}
		if panics && r.Intn(8) == 0 {
			if t := d.latePanic(); Finite(t) {
				out = append(out, t)
			}
			continue
		}
		t := d.decorate(s)
		if Finite(t) {
			out = append(out, t)
		}
	}
	return out
}

var opAlphabet = []Op{{K: OpM}, {K: OpC}, {K: OpS, V: 5}, {K: OpR}}

// AllHistories: every op sequence of length 1..maxLen over {M, C, S5, R}
func AllHistories(maxLen int) [][]Op {
	var out [][]Op
	var cur []Op
	var rec func()
	rec = func() {
		if len(cur) > 0 {
			out = append(out, append([]Op(nil), cur...))
		}
		if len(cur) == maxLen {
			return
		}
		for _, o := range opAlphabet {
			cur = append(cur, o)
			rec()
			cur = cur[:len(cur)-1]
		}
	}
	rec()
	return out
}

// Drain: M C repeated, then R, with a Send in the middle
func Drain(n int) []Op {
	var out []Op
	for i := 0; i < n; i++ {
		if i == n/2 {
			out = append(out, Op{K: OpS, V: 7})
		} else {
			out = append(out, Op{K: OpM})
		}
		out = append(out, Op{K: OpC})
	}
	return append(out, Op{K: OpR}, Op{K: OpM}, Op{K: OpC})
}

func RandomHistory(r *rand.Rand, n int) []Op {
	out := make([]Op, n)
	for i := range out {
		switch k := r.Intn(10); {
		case k < 5:
			out[i] = Op{K: OpM}
		case k < 7:
			out[i] = Op{K: OpC}
		case k < 9:
			out[i] = Op{K: OpS, V: r.Intn(20) + 1}
		default:
			out[i] = Op{K: OpR}
		}
	}
	return out
}
