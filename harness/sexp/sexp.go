// Package sexp: the wire format shared with the Lean driver.
package sexp

import (
	"fmt"
	"strings"
)

type Node struct {
	Atom string
	List []*Node
	IsL  bool
}

func A(s string) *Node    { return &Node{Atom: s} }
func I(i int) *Node       { return &Node{Atom: fmt.Sprint(i)} }
func L(xs ...*Node) *Node { return &Node{List: xs, IsL: true} }
func (n *Node) Head() string {
	if n.IsL && len(n.List) > 0 && !n.List[0].IsL {
		return n.List[0].Atom
	}
	return ""
}
func (n *Node) Arg(i int) *Node { return n.List[i+1] }
func (n *Node) NArgs() int      { return len(n.List) - 1 }

func (n *Node) String() string {
	var b strings.Builder
	n.write(&b)
	return b.String()
}

func (n *Node) write(b *strings.Builder) {
	if !n.IsL {
		b.WriteString(n.Atom)
		return
	}
	b.WriteByte('(')
	for i, x := range n.List {
		if i > 0 {
			b.WriteByte(' ')
		}
		x.write(b)
	}
	b.WriteByte(')')
}

func Parse(s string) (*Node, error) {
	var stack [][]*Node
	var top []*Node
	cur := ""
	flush := func() {
		if cur != "" {
			top = append(top, A(cur))
			cur = ""
		}
	}
	for _, c := range s {
		switch c {
		case '(':
			flush()
			stack = append(stack, top)
			top = nil
		case ')':
			flush()
			if len(stack) == 0 {
				return nil, fmt.Errorf("unbalanced )")
			}
			l := &Node{List: top, IsL: true}
			top = append(stack[len(stack)-1], l)
			stack = stack[:len(stack)-1]
		case ' ', '\t', '\n':
			flush()
		default:
			cur += string(c)
		}
	}
	flush()
	if len(stack) != 0 || len(top) != 1 {
		return nil, fmt.Errorf("bad sexp: %q", s)
	}
	return top[0], nil
}
