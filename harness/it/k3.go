// Package it: correspondence K3 - the built-in range iterators of seq/iter.go against Go's own
// range statement executed in the same process, and against the Lean model (GoCo/Iters).
package it

import (
	"fmt"
	"math"
	"math/rand"
	"sort"
	"strings"
	"time"

	"github.com/goghcrow/go-co/seq"
)

// Alphabet: ASCII, lead bytes of 2/3/4-byte sequences, continuation bytes, overlong / surrogate /
// out-of-range material.
var Alphabet = []byte{0x00, 'a', 0x7f, 0x80, 0xbf, 0xc0, 0xc2, 0xc3, 0xa9, 0xe0, 0xa0, 0xe2, 0x82, 0xac, 0xed, 0x9f, 0xf0, 0x90, 0xf4, 0x8f, 0xf5, 0xff}

func safe(f func() string) (out string) {
	defer func() {
		if r := recover(); r != nil {
			out = fmt.Sprintf("PANIC(%v)", r)
		}
	}()
	return f()
}

// ---- strings ----

func StrImpl(s string) string {
	return safe(func() string {
		var b []string
		it := seq.NewStringIter(s)
		for it.MoveNext() {
			b = append(b, fmt.Sprintf("%d:%d", it.Current().Key, it.Current().Val))
		}
		return strings.Join(b, " ")
	})
}

func StrNative(s string) string {
	var b []string
	for i, r := range s {
		b = append(b, fmt.Sprintf("%d:%d", i, r))
	}
	return strings.Join(b, " ")
}

func AllStrings(maxLen int, alpha []byte) []string {
	out := []string{""}
	prev := []string{""}
	for l := 1; l <= maxLen; l++ {
		var cur []string
		for _, p := range prev {
			for _, c := range alpha {
				cur = append(cur, p+string([]byte{c}))
			}
		}
		out = append(out, cur...)
		prev = cur
	}
	return out
}

func RandomStrings(r *rand.Rand, n, maxLen int) []string {
	samples := []string{"héllo", "日本語", "a\xffb", "\xed\xa0\x80", "\xf4\x90\x80\x80", "😀x", "\xc0\x80", "é"}
	var out []string
	out = append(out, samples...)
	for i := 0; i < n; i++ {
		l := r.Intn(maxLen + 1)
		var b []byte
		for j := 0; j < l; j++ {
			switch r.Intn(4) {
			case 0:
				b = append(b, Alphabet[r.Intn(len(Alphabet))])
			case 1:
				b = append(b, []byte(string(rune(r.Intn(0x10ffff))))...)
			default:
				b = append(b, byte(r.Intn(256)))
			}
		}
		out = append(out, string(b))
	}
	return out
}

// ---- integers ----

func IntImpl(n int) string {
	return safe(func() string {
		var b []string
		it := seq.NewIntegerIter(n)
		for it.MoveNext() {
			b = append(b, fmt.Sprint(it.Current().Key))
			if len(b) > 100 {
				break
			}
		}
		return strings.Join(b, " ")
	})
}

// integer ranges at other integer types (the loop variable has the type of n); values at the type's limits
type Level uint8

func IntTypedCases() [][3]string {
	var out [][3]string
	add := func(name, impl, native string) { out = append(out, [3]string{name, impl, native}) }
	drain := func(next func() bool, cur func() string) string {
		return safe(func() string {
			var b []string
			for next() {
				b = append(b, cur())
				if len(b) > 300 {
					break
				}
			}
			return strings.Join(b, " ")
		})
	}
	for _, n := range []int8{-128, -1, 0, 1, 5, 127} {
		it := seq.NewIntegerIter(n)
		var b []string
		for i := range n {
			var j int8 = i
			b = append(b, fmt.Sprint(j))
		}
		add(fmt.Sprintf("int8 %d", n), drain(it.MoveNext, func() string { var k int8 = it.Current().Key; return fmt.Sprint(k) }), strings.Join(b, " "))
	}
	for _, n := range []uint8{0, 1, 7, 255} {
		it := seq.NewIntegerIter(n)
		var b []string
		for i := range n {
			var j uint8 = i
			b = append(b, fmt.Sprint(j))
		}
		add(fmt.Sprintf("uint8 %d", n), drain(it.MoveNext, func() string { var k uint8 = it.Current().Key; return fmt.Sprint(k) }), strings.Join(b, " "))
	}
	for _, n := range []uint64{0, 3} {
		it := seq.NewIntegerIter(n)
		var b []string
		for i := range n {
			var j uint64 = i
			b = append(b, fmt.Sprint(j))
		}
		add(fmt.Sprintf("uint64 %d", n), drain(it.MoveNext, func() string { var k uint64 = it.Current().Key; return fmt.Sprint(k) }), strings.Join(b, " "))
	}
	// bounds beyond the range of int: only the first values are taken
	for _, n := range []uint64{1 << 63, ^uint64(0)} {
		it := seq.NewIntegerIter(n)
		var b, c []string
		for i := range n {
			b = append(b, fmt.Sprint(i))
			if len(b) == 3 {
				break
			}
		}
		for it.MoveNext() {
			var k uint64 = it.Current().Key
			c = append(c, fmt.Sprint(k))
			if len(c) == 3 {
				break
			}
		}
		add(fmt.Sprintf("uint64 %d (first 3)", n), strings.Join(c, " "), strings.Join(b, " "))
	}
	{
		n := ^uintptr(0)
		it := seq.NewIntegerIter(n)
		var b, c []string
		for i := range n {
			b = append(b, fmt.Sprint(i))
			if len(b) == 3 {
				break
			}
		}
		for it.MoveNext() {
			c = append(c, fmt.Sprint(it.Current().Key))
			if len(c) == 3 {
				break
			}
		}
		add("uintptr max (first 3)", strings.Join(c, " "), strings.Join(b, " "))
	}
	for _, n := range []Level{0, 4} {
		it := seq.NewIntegerIter(n)
		var b []string
		for i := range n {
			var j Level = i
			b = append(b, fmt.Sprint(j))
		}
		add(fmt.Sprintf("Level %d", n), drain(it.MoveNext, func() string { var k Level = it.Current().Key; return fmt.Sprint(k) }), strings.Join(b, " "))
	}
	return out
}

func IntNative(n int) string {
	var b []string
	for i := range n {
		b = append(b, fmt.Sprint(i))
	}
	return strings.Join(b, " ")
}

// ---- slices with mutation scripts ----
// a script step is applied in the loop body at iteration j: set k v | append v | truncate n | reslice

type SliceOp struct {
	At   int // iteration index at which it is applied (before reading nothing else)
	Kind string
	K, V int
}

type SliceCase struct {
	Init []int
	Cap  int
	Ops  []SliceOp
}

func (c SliceCase) String() string {
	s := fmt.Sprintf("init=%v cap=%d", c.Init, c.Cap)
	for _, o := range c.Ops {
		s += fmt.Sprintf(" @%d:%s(%d,%d)", o.At, o.Kind, o.K, o.V)
	}
	return s
}

func applySliceOps(sl *[]int, ops []SliceOp, at int) {
	for _, o := range ops {
		if o.At != at {
			continue
		}
		switch o.Kind {
		case "set":
			if o.K < len(*sl) {
				(*sl)[o.K] = o.V
			}
		case "append":
			*sl = append(*sl, o.V)
		case "truncate":
			if o.K <= len(*sl) {
				*sl = (*sl)[:o.K]
			}
		}
	}
}

func mkSlice(c SliceCase) []int {
	s := make([]int, len(c.Init), c.Cap)
	copy(s, c.Init)
	return s
}

func SliceImpl(c SliceCase) string {
	return safe(func() string {
		sl := mkSlice(c)
		var b []string
		it := seq.NewSliceIter(sl)
		j := 0
		for it.MoveNext() {
			k, v := it.Current().Key, it.Current().Val
			b = append(b, fmt.Sprintf("%d:%d", k, v))
			applySliceOps(&sl, c.Ops, j)
			j++
		}
		return strings.Join(b, " ")
	})
}

func SliceNative(c SliceCase) string {
	return safe(func() string {
		sl := mkSlice(c)
		var b []string
		j := 0
		for k, v := range sl {
			b = append(b, fmt.Sprintf("%d:%d", k, v))
			applySliceOps(&sl, c.Ops, j)
			j++
		}
		return strings.Join(b, " ")
	})
}

func SliceCases(r *rand.Rand, n int) []SliceCase {
	var out []SliceCase
	out = append(out, SliceCase{}, SliceCase{Init: []int{1}, Cap: 1}, SliceCase{Init: []int{1, 2, 3}, Cap: 3, Ops: []SliceOp{{0, "set", 2, 30}}},
		SliceCase{Init: []int{1, 2, 3}, Cap: 3, Ops: []SliceOp{{0, "append", 0, 9}, {1, "set", 2, 7}}},
		SliceCase{Init: []int{1, 2, 3}, Cap: 8, Ops: []SliceOp{{0, "append", 0, 9}, {1, "set", 2, 7}}},
		SliceCase{Init: []int{1, 2, 3}, Cap: 3, Ops: []SliceOp{{0, "truncate", 1, 0}}})
	kinds := []string{"set", "append", "truncate"}
	for i := 0; i < n; i++ {
		l := r.Intn(5)
		c := SliceCase{Cap: l + r.Intn(3)}
		for j := 0; j < l; j++ {
			c.Init = append(c.Init, r.Intn(9)+1)
		}
		for j := r.Intn(4); j > 0; j-- {
			c.Ops = append(c.Ops, SliceOp{At: r.Intn(l + 1), Kind: kinds[r.Intn(3)], K: r.Intn(l + 1), V: 10 + r.Intn(90)})
		}
		out = append(out, c)
	}
	return out
}

// ---- maps (key/value of interface type, nil included); compared as sorted multisets ----

type MapCase struct {
	Keys   []any // nil allowed
	Vals   []any
	Delete []int // at iteration j delete key index Delete[j] (if present; -1 = none)
}

func (c MapCase) String() string {
	return fmt.Sprintf("keys=%v vals=%v delete=%v", c.Keys, c.Vals, c.Delete)
}

func mkMap(c MapCase) map[any]any {
	m := map[any]any{}
	for i, k := range c.Keys {
		m[k] = c.Vals[i]
	}
	return m
}

func canon(pairs []string) string {
	sort.Strings(pairs)
	return strings.Join(pairs, " ")
}

func MapImpl(c MapCase) string {
	return safe(func() string {
		m := mkMap(c)
		var b []string
		it := seq.NewMapIter(m)
		j := 0
		for it.MoveNext() {
			k, v := it.Current().Key, it.Current().Val
			b = append(b, fmt.Sprintf("%v:%v", k, v))
			if j < len(c.Delete) && c.Delete[j] >= 0 {
				// delete every entry except the current one's key when Delete[j] == 0: deterministic outcome
				for kk := range m {
					if kk != k {
						delete(m, kk)
					}
				}
			}
			j++
		}
		return canonMap(c, b)
	})
}

// canonMap: with deletions during the loop the visited subset depends on the runtime's random start
// position; what is determined is: every visited entry is an entry of the map, none twice, and - when
// everything else is deleted in the first iteration - exactly one entry is visited.
func canonMap(c MapCase, b []string) string {
	if len(c.Delete) == 0 {
		return canon(b)
	}
	seen := map[string]bool{}
	m := mkMap(c)
	for _, p := range b {
		if seen[p] {
			return "DUPLICATE " + p
		}
		seen[p] = true
		ok := false
		for k, v := range m {
			if fmt.Sprintf("%v:%v", k, v) == p {
				ok = true
			}
		}
		if !ok {
			return "ALIEN " + p
		}
	}
	return fmt.Sprintf("visited=%d", len(b))
}

func MapNative(c MapCase) string {
	return safe(func() string {
		m := mkMap(c)
		var b []string
		j := 0
		for k, v := range m {
			b = append(b, fmt.Sprintf("%v:%v", k, v))
			if j < len(c.Delete) && c.Delete[j] >= 0 {
				for kk := range m {
					if kk != k {
						delete(m, kk)
					}
				}
			}
			j++
		}
		return canonMap(c, b)
	})
}

func MapCases(r *rand.Rand, n int) []MapCase {
	vals := []any{nil, 1, "x", 2.5, true}
	var out []MapCase
	out = append(out, MapCase{}, MapCase{Keys: []any{nil}, Vals: []any{1}}, MapCase{Keys: []any{1}, Vals: []any{nil}},
		MapCase{Keys: []any{1, 2, 3}, Vals: []any{"a", "b", "c"}, Delete: []int{0}})
	for i := 0; i < n; i++ {
		l := r.Intn(5)
		var c MapCase
		perm := r.Perm(len(vals))
		for j := 0; j < l; j++ {
			c.Keys = append(c.Keys, vals[perm[j]])
			c.Vals = append(c.Vals, vals[r.Intn(len(vals))])
		}
		if r.Intn(3) == 0 {
			c.Delete = []int{0}
		}
		out = append(out, c)
	}
	return out
}

// typed maps without interface values
func MapTypedImpl(n int) string {
	return safe(func() string {
		m := map[int]string{}
		for i := 0; i < n; i++ {
			m[i] = fmt.Sprint("v", i)
		}
		var b []string
		it := seq.NewMapIter(m)
		for it.MoveNext() {
			b = append(b, fmt.Sprintf("%v:%v", it.Current().Key, it.Current().Val))
		}
		return canon(b)
	})
}

func MapTypedNative(n int) string {
	m := map[int]string{}
	for i := 0; i < n; i++ {
		m[i] = fmt.Sprint("v", i)
	}
	var b []string
	for k, v := range m {
		b = append(b, fmt.Sprintf("%v:%v", k, v))
	}
	return canon(b)
}

// keys that are not equal to themselves (NaN): every entry is visited, although no lookup can find it;
// float, complex, interface and struct keys
func MapNaNCases() [][3]string {
	nan := math.NaN()
	var out [][3]string
	{
		m := map[float64]string{1.5: "a", 2.5: "b"}
		m[nan] = "x"
		m[nan] = "y"
		var b, c []string
		for k, v := range m {
			b = append(b, fmt.Sprintf("%v:%v", k, v))
		}
		it := seq.NewMapIter(m)
		for it.MoveNext() {
			c = append(c, fmt.Sprintf("%v:%v", it.Current().Key, it.Current().Val))
		}
		out = append(out, [3]string{"float64 keys with NaN", canon(c), canon(b)})
	}
	{
		m := map[any]int{"s": 1, nan: 2, [2]float64{nan, 1}: 3, complex(nan, 0): 4}
		m[nan] = 5
		var b, c []string
		for k, v := range m {
			b = append(b, fmt.Sprintf("%v:%v", k, v))
		}
		it := seq.NewMapIter(m)
		for it.MoveNext() {
			c = append(c, fmt.Sprintf("%v:%v", it.Current().Key, it.Current().Val))
		}
		out = append(out, [3]string{"interface keys with NaN", canon(c), canon(b)})
	}
	return out
}

// MapInsertCases: entries inserted during the iteration may or may not be visited (Go spec), but every entry
// that was there from the start and is never deleted is visited exactly once, and nothing twice. The outcome
// depends on the runtime's random start, so each shape is repeated; [name, iterator, native].
func MapInsertCases() [][3]string {
	var out [][3]string
	verdict := func(n int, visited []int) string {
		seen := map[int]int{}
		for _, k := range visited {
			seen[k]++
		}
		for k, c := range seen {
			if c > 1 {
				return fmt.Sprintf("DUPLICATE %d", k)
			}
		}
		for k := 0; k < n; k++ {
			if seen[k] != 1 {
				return fmt.Sprintf("LOST original key %d (visited %v)", k, visited)
			}
		}
		return "all originals once"
	}
	for _, sh := range [][2]int{{1, 1}, {4, 1}, {4, 3}, {6, 4}, {8, 40}, {3, 8}} {
		n, ins := sh[0], sh[1]
		impl, native := "all originals once", "all originals once"
		for rep := 0; rep < 60; rep++ {
			mk := func() map[int]string {
				m := map[int]string{}
				for i := 0; i < n; i++ {
					m[i] = "v"
				}
				return m
			}
			{
				m := mk()
				var vis []int
				it := seq.NewMapIter(m)
				first := true
				for it.MoveNext() {
					vis = append(vis, it.Current().Key)
					if first {
						first = false
						for j := 0; j < ins; j++ {
							m[100+j] = "new"
						}
					}
				}
				if v := verdict(n, vis); v != "all originals once" {
					impl = v
				}
			}
			{
				m := mk()
				var vis []int
				first := true
				for k := range m {
					vis = append(vis, k)
					if first {
						first = false
						for j := 0; j < ins; j++ {
							m[100+j] = "new"
						}
					}
				}
				if v := verdict(n, vis); v != "all originals once" {
					native = v
				}
			}
		}
		out = append(out, [3]string{fmt.Sprintf("insert %d keys into a map of %d in the first iteration (60 runs)", ins, n), impl, native})
	}
	return out
}

// ChanNilCases: a range over a nil channel blocks forever (it is not an empty range); [name, iterator, native]
func ChanNilCases() [][3]string {
	blocked := func(f func()) string {
		done := make(chan struct{})
		go func() { f(); close(done) }()
		select {
		case <-done:
			return "returned"
		case <-time.After(150 * time.Millisecond):
			return "blocked"
		}
	}
	var ch chan int
	impl := blocked(func() {
		it := seq.NewChanIter[int](ch)
		for it.MoveNext() {
		}
	})
	native := blocked(func() {
		for range ch {
		}
	})
	return [][3]string{{"nil channel", impl, native}}
}

// nil map
func MapNilImpl() string {
	return safe(func() string {
		var m map[string]int
		n := 0
		it := seq.NewMapIter(m)
		for it.MoveNext() {
			n++
		}
		return fmt.Sprint(n)
	})
}

// ---- channels ----

func ChanImpl(vals []int, buffered bool) string {
	return safe(func() string {
		ch := mkChan(vals, buffered)
		var b []string
		it := seq.NewChanIter[int](ch)
		for it.MoveNext() {
			b = append(b, fmt.Sprint(it.Current().Key))
		}
		return strings.Join(b, " ")
	})
}

func ChanNative(vals []int, buffered bool) string {
	ch := mkChan(vals, buffered)
	var b []string
	for v := range ch {
		b = append(b, fmt.Sprint(v))
	}
	return strings.Join(b, " ")
}

// ChanLazyCases: how many values are still queued after k iterations - a range over a channel receives one
// value per iteration, never ahead
func ChanLazyCases() [][3]string {
	var out [][3]string
	for _, n := range []int{1, 3, 5} {
		for k := 1; k <= n; k++ {
			mk := func() chan int {
				ch := make(chan int, n)
				for i := 0; i < n; i++ {
					ch <- i
				}
				close(ch)
				return ch
			}
			ch1 := mk()
			it := seq.NewChanIter[int](ch1)
			impl := safe(func() string {
				for i := 0; i < k; i++ {
					it.MoveNext()
				}
				return fmt.Sprint(len(ch1))
			})
			ch2 := mk()
			i := 0
			for range ch2 {
				i++
				if i == k {
					break
				}
			}
			out = append(out, [3]string{fmt.Sprintf("queued after %d of %d", k, n), impl, fmt.Sprint(len(ch2))})
		}
	}
	return out
}

func mkChan(vals []int, buffered bool) <-chan int {
	n := 0
	if buffered {
		n = len(vals)
	}
	ch := make(chan int, n)
	if buffered {
		for _, v := range vals {
			ch <- v
		}
		close(ch)
	} else {
		go func() {
			for _, v := range vals {
				ch <- v
			}
			close(ch)
		}()
	}
	return ch
}
