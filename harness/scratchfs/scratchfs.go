// Package scratchfs holds the files copied into every scratch module the harness builds.
package scratchfs

import (
	"embed"
	"io/fs"
	"os"
	"path/filepath"
)

//go:embed files
var files embed.FS

// Materialise writes the embedded tree (vm package) plus a go.mod into dir.
func Materialise(dir, repo string) error {
	err := fs.WalkDir(files, "files", func(p string, d fs.DirEntry, err error) error {
		if err != nil {
			return err
		}
		rel, _ := filepath.Rel("files", p)
		dst := filepath.Join(dir, rel)
		if d.IsDir() {
			return os.MkdirAll(dst, 0o755)
		}
		b, err := files.ReadFile(p)
		if err != nil {
			return err
		}
		return os.WriteFile(dst, b, 0o644)
	})
	if err != nil {
		return err
	}
	mod := "module scratch\n\ngo 1.19\n\nrequire github.com/goghcrow/go-co v0.0.0\n\nreplace github.com/goghcrow/go-co => " + repo + "\n"
	if err := os.WriteFile(filepath.Join(dir, "go.mod"), []byte(mod), 0o644); err != nil {
		return err
	}
	sum, err := os.ReadFile(filepath.Join(repo, "go.sum"))
	if err == nil {
		err = os.WriteFile(filepath.Join(dir, "go.sum"), sum, 0o644)
	}
	return err
}
