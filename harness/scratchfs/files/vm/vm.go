// Package vm: the atom virtual machine shared by compiled generators and the reference coroutine.
// Mirrored in Lean by GoCo/Compile/VM.lean.
package vm

import (
	"fmt"
	"runtime"
)

var (
	Cells   [4]int
	CondCnt [64]int
	TagCnt  [64]int
	Log     []string
	Fuel    int
)

func Reset(fuel int) {
	Cells = [4]int{}
	CondCnt = [64]int{}
	TagCnt = [64]int{}
	Log = Log[:0]
	Fuel = fuel
}

func tick() {
	Fuel--
	if Fuel < 0 {
		panic("fuel")
	}
}

func Emit(s string) { Log = append(Log, s) }

// A: effect
func A(n int) {
	tick()
	Emit(fmt.Sprintf("a%d", n))
	Cells[n%4]++
}

// P: an ordinary call that panics
func P(n int) {
	tick()
	Emit(fmt.Sprintf("p%d", n))
	panic(fmt.Sprintf("P%d", n))
}

// PV: argument of a builtin panic
func PV(n int) string {
	tick()
	Emit(fmt.Sprintf("pv%d", n))
	return fmt.Sprintf("PV%d", n)
}

// V: a value that depends on when it is evaluated
func V(n int) int {
	tick()
	v := n*10 + Cells[n%4]
	Emit(fmt.Sprintf("v%d=%d", n, v))
	return v
}

// C: condition n is true k-1 times, then false, cyclically (k = 2 + n%3)
func C(n int, _ ...int) bool {
	tick()
	c := CondCnt[n%64]
	CondCnt[n%64]++
	k := 2 + n%3
	r := c%k != k-1
	Emit(fmt.Sprintf("c%d=%v", n, r))
	return r
}

// T: switch tag, cycles 0,1,2
func T(n int, _ ...int) int {
	tick()
	c := TagCnt[n%64]
	TagCnt[n%64]++
	r := c % 3
	Emit(fmt.Sprintf("t%d=%d", n, r))
	return r
}

// TV: the switch tag as a DYNAMIC TYPE (T0{} .. T9{}), so that a tagged switch can be written as a type switch
type (
	T0 struct{}
	T1 struct{}
	T2 struct{}
	T3 struct{}
	T4 struct{}
	T5 struct{}
	T6 struct{}
	T7 struct{}
	T8 struct{}
	T9 struct{}
)

var tagTypes = [...]any{T0{}, T1{}, T2{}, T3{}, T4{}, T5{}, T6{}, T7{}, T8{}, T9{}}

func TV(n int, uses ...int) any { return tagTypes[T(n, uses...)] }

// ---- reference coroutine: the source body on its own goroutine, Yield really suspends ----

type msg[T any] struct {
	kind int // 0 yield, 1 end, 2 panic
	v    T
	p    any
}

type YT[T any] struct {
	resume chan bool // true = continue, false = abandon
	out    chan msg[T]
}

func (y *YT[T]) Yield(v T) {
	y.out <- msg[T]{kind: 0, v: v}
	if !<-y.resume {
		runtime.Goexit()
	}
}

type PullerOf[T any] interface {
	MoveNext() bool
	Current() T
}

type RefIterT[T any] struct {
	y       *YT[T]
	f       func(*YT[T])
	started bool
	done    bool
	cur     T
}

func StartRefT[T any](f func(*YT[T])) *RefIterT[T] {
	return &RefIterT[T]{y: &YT[T]{resume: make(chan bool), out: make(chan msg[T])}, f: f}
}

func (it *RefIterT[T]) MoveNext() bool {
	if it.done {
		return false
	}
	if !it.started {
		it.started = true
		go func() {
			defer func() {
				if r := recover(); r != nil {
					it.y.out <- msg[T]{kind: 2, p: r}
				}
			}()
			it.f(it.y)
			it.y.out <- msg[T]{kind: 1}
		}()
	} else {
		it.y.resume <- true
	}
	m := <-it.y.out
	var zero T
	switch m.kind {
	case 0:
		it.cur = m.v
		return true
	case 1:
		it.done = true
		it.cur = zero
		return false
	default:
		it.done = true
		panic(m.p)
	}
}

func (it *RefIterT[T]) Current() T { return it.cur }

// Stop abandons a suspended reference coroutine
func (it *RefIterT[T]) Stop() {
	if it.started && !it.done {
		it.done = true
		it.y.resume <- false
	}
}

// YieldFromRef: delegation in the reference world - pull the delegate, re-yield every element
func YieldFromRef[T any](y *YT[T], it PullerOf[T]) {
	for it.MoveNext() {
		y.Yield(it.Current())
	}
}

// the int instance used by mode-A programs
type Y = YT[int]
type RefIter = RefIterT[int]
type Puller = PullerOf[int]

func StartRef(f func(*Y)) *RefIter { return StartRefT[int](f) }

type stopper interface{ Stop() }

// DrainT: pull up to max values, logging consumer-side markers, then two more advances after the end.
func DrainT[T any](mk func() PullerOf[T], max int, fuel int) (trace []string) {
	Reset(fuel)
	defer func() {
		if r := recover(); r != nil {
			Emit(fmt.Sprintf("PANIC(%v)", r))
		}
		trace = append([]string(nil), Log...)
	}()
	it := mk()
	Emit("START")
	for i := 0; i < max; i++ {
		Emit("M")
		if !it.MoveNext() {
			Emit("END")
			Emit(fmt.Sprintf("cur=%v", it.Current()))
			Emit("M")
			if it.MoveNext() {
				Emit("RESURRECTED")
			}
			Emit("END2")
			break
		}
		Emit(fmt.Sprintf("Y%v", it.Current()))
	}
	if r, ok := any(it).(stopper); ok {
		r.Stop()
	}
	return nil
}

func Drain(mk func() Puller, max int, fuel int) []string { return DrainT[int](mk, max, fuel) }

// CallT: run a plain function, logging its result or panic
func CallT[R any](f func() R, fuel int) (trace []string) {
	Reset(fuel)
	defer func() {
		if r := recover(); r != nil {
			Emit(fmt.Sprintf("PANIC(%v)", r))
		}
		trace = append([]string(nil), Log...)
	}()
	Emit(fmt.Sprintf("RESULT %v", f()))
	return nil
}

// E: log an event from template code
func E(args ...any) { Emit(fmt.Sprint(args...)) }

// TypeName: the dynamic type of a value, for templates that observe which type a yielded constant got
func TypeName(v any) string { return fmt.Sprintf("%T", v) }
