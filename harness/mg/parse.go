package mg

import (
	"fmt"
	"strconv"

	"verif/harness/sexp"
)

// ParseBody: s-expression -> statement list (the inverse of Sexp, for source programs and corpus entries)
func ParseBody(s string) ([]*Stmt, error) {
	n, err := sexp.Parse(s)
	if err != nil {
		return nil, err
	}
	return parseStmts(n)
}

func atoiN(n *sexp.Node) (int, error) {
	if n.IsL {
		return 0, fmt.Errorf("expected int, got %s", n)
	}
	return strconv.Atoi(n.Atom)
}

func parseInts(n *sexp.Node) ([]int, error) {
	var out []int
	for _, x := range n.List {
		v, err := atoiN(x)
		if err != nil {
			return nil, err
		}
		out = append(out, v)
	}
	return out, nil
}

func parseStmts(n *sexp.Node) ([]*Stmt, error) {
	if !n.IsL {
		return nil, fmt.Errorf("expected statement list, got %s", n)
	}
	out := []*Stmt{}
	for _, x := range n.List {
		s, err := parseStmt(x)
		if err != nil {
			return nil, err
		}
		out = append(out, s)
	}
	return out, nil
}

func parseOpt(n *sexp.Node) (*Stmt, error) {
	if !n.IsL && n.Atom == "-" {
		return nil, nil
	}
	return parseStmt(n)
}

func parseE(n *sexp.Node) (E, error) {
	v, err := atoiN(n.Arg(0))
	return E{Lit: n.Head() == "lit", N: v}, err
}

func parseCond(n *sexp.Node) (int, []int, error) {
	if !n.IsL {
		return -1, nil, nil
	}
	c, err := atoiN(n.Arg(0))
	if err != nil {
		return 0, nil, err
	}
	uses, err := parseInts(n.Arg(1))
	return c, uses, err
}

func parseStmt(n *sexp.Node) (*Stmt, error) {
	if !n.IsL {
		switch n.Atom {
		case "empty":
			return &Stmt{K: Empty}, nil
		case "break":
			return &Stmt{K: Break}, nil
		case "continue":
			return &Stmt{K: Continue}, nil
		case "fallthrough":
			return &Stmt{K: Fallthrough}, nil
		case "ret":
			return &Stmt{K: Ret}, nil
		}
		return nil, fmt.Errorf("bad statement %s", n)
	}
	switch h := n.Head(); h {
	case "act", "pact", "bpanic", "def":
		v, err := atoiN(n.Arg(0))
		return &Stmt{K: Kind(h), N: v}, err
	case "yield":
		e, err := parseE(n.Arg(0))
		return &Stmt{K: Yield, E: e}, err
	case "block":
		b, err := parseStmts(n.Arg(0))
		return &Stmt{K: Block, Body: b}, err
	case "if":
		init, err := parseOpt(n.Arg(0))
		if err != nil {
			return nil, err
		}
		c, uses, err := parseCond(n.Arg(1))
		if err != nil {
			return nil, err
		}
		body, err := parseStmts(n.Arg(2))
		if err != nil {
			return nil, err
		}
		s := &Stmt{K: If, Init: init, Cond: c, Uses: uses, Body: body}
		if e := n.Arg(3); e.IsL {
			switch e.Head() {
			case "else":
				b, err := parseStmts(e.Arg(0))
				if err != nil {
					return nil, err
				}
				s.Else = &Else{Body: b}
			case "elif":
				i, err := parseStmt(e.Arg(0))
				if err != nil {
					return nil, err
				}
				s.Else = &Else{If: i}
			}
		}
		return s, nil
	case "switch":
		init, err := parseOpt(n.Arg(0))
		if err != nil {
			return nil, err
		}
		t, uses, err := parseCond(n.Arg(1))
		if err != nil {
			return nil, err
		}
		s := &Stmt{K: Switch, Init: init, Tag: t, Uses: uses}
		for _, c := range n.Arg(2).List {
			cs := &Case{}
			if c.Head() == "default" {
				cs.Default = true
				cs.Body, err = parseStmts(c.Arg(0))
			} else {
				cs.Ks, err = parseInts(c.Arg(0))
				if err != nil {
					return nil, err
				}
				cs.Body, err = parseStmts(c.Arg(1))
			}
			if err != nil {
				return nil, err
			}
			s.Cases = append(s.Cases, cs)
		}
		return s, nil
	case "for":
		init, err := parseOpt(n.Arg(0))
		if err != nil {
			return nil, err
		}
		c, uses, err := parseCond(n.Arg(1))
		if err != nil {
			return nil, err
		}
		post, err := parseOpt(n.Arg(2))
		if err != nil {
			return nil, err
		}
		body, err := parseStmts(n.Arg(3))
		return &Stmt{K: For, Init: init, Cond: c, Uses: uses, Post: post, Body: body}, err
	}
	return nil, fmt.Errorf("bad statement %s", n)
}
