package mg

import (
	"bytes"
	"fmt"
	"go/ast"
	"go/parser"
	"go/printer"
	"go/token"
	"strconv"
	"strings"
)

// FromGo: translate the generator functions of a Go file (source or compiler output) back to the
// mini-Go AST. Anything unrecognised becomes an `unknown` node carrying its text, so that a
// comparison with the model fails visibly instead of silently.

type fromGo struct {
	fset *token.FileSet
}

func show(fset *token.FileSet, n ast.Node) string {
	var b bytes.Buffer
	printer.Fprint(&b, fset, n)
	return b.String()
}

// ParseFile returns function name -> body for every top-level function whose name starts with prefix
func ParseFile(src string, prefix string) (map[string][]*Stmt, error) {
	fset := token.NewFileSet()
	f, err := parser.ParseFile(fset, "x.go", src, parser.SkipObjectResolution)
	if err != nil {
		return nil, err
	}
	g := &fromGo{fset: fset}
	out := map[string][]*Stmt{}
	for _, d := range f.Decls {
		fd, ok := d.(*ast.FuncDecl)
		if !ok || !strings.HasPrefix(fd.Name.Name, prefix) || fd.Body == nil {
			continue
		}
		out[fd.Name.Name] = g.stmts(fd.Body.List)
	}
	return out, nil
}

// callName: "A", "seq.Bind" -> (name, isSeqLike)
func calleeName(fun ast.Expr) string {
	switch f := fun.(type) {
	case *ast.Ident:
		return f.Name
	case *ast.SelectorExpr:
		return f.Sel.Name
	case *ast.IndexExpr: // Yield[int], seq.Bind[int]
		return calleeName(f.X)
	case *ast.ParenExpr:
		return calleeName(f.X)
	}
	return ""
}

func intLit(e ast.Expr) (int, bool) {
	bl, ok := e.(*ast.BasicLit)
	if !ok || bl.Kind != token.INT {
		return 0, false
	}
	n, err := strconv.Atoi(bl.Value)
	return n, err == nil
}

// atomCall: F(n, d1, d2...) -> n, uses
func atomCall(e ast.Expr, name string) (int, []int, bool) {
	c, ok := e.(*ast.CallExpr)
	if !ok || calleeName(c.Fun) != name || len(c.Args) < 1 {
		return 0, nil, false
	}
	if _, isIdent := c.Fun.(*ast.Ident); !isIdent {
		return 0, nil, false
	}
	n, ok := intLit(c.Args[0])
	if !ok {
		return 0, nil, false
	}
	var uses []int
	for _, a := range c.Args[1:] {
		id, ok := a.(*ast.Ident)
		if !ok || !strings.HasPrefix(id.Name, "d") {
			return 0, nil, false
		}
		u, err := strconv.Atoi(id.Name[1:])
		if err != nil {
			return 0, nil, false
		}
		uses = append(uses, u)
	}
	return n, uses, true
}

func atomCallExpr(x ast.Node, name string) (int, []int, bool) {
	e, ok := x.(ast.Expr)
	if !ok {
		return 0, nil, false
	}
	return atomCall(e, name)
}

// squeeze removes layout: white space and statement separators
func squeeze(s string) string {
	var b strings.Builder
	for _, r := range s {
		switch r {
		case ' ', '\t', '\n', ';':
		default:
			b.WriteRune(r)
		}
	}
	return b.String()
}

func (g *fromGo) unknownStmt(s ast.Node) *Stmt { return &Stmt{K: Unknown, Text: show(g.fset, s)} }
func (g *fromGo) unknownSE(s ast.Node) *SE     { return &SE{K: SUnknown, Text: show(g.fset, s)} }

func (g *fromGo) expr(e ast.Expr) (E, bool) {
	if n, ok := intLit(e); ok {
		return E{Lit: true, N: n}, true
	}
	if n, uses, ok := atomCall(e, "V"); ok && len(uses) == 0 {
		return E{N: n}, true
	}
	return E{}, false
}

func (g *fromGo) stmts(ss []ast.Stmt) []*Stmt {
	out := []*Stmt{}
	for _, s := range ss {
		out = append(out, g.stmt(s))
	}
	return out
}

func (g *fromGo) optSimple(s ast.Stmt) *Stmt {
	if s == nil {
		return nil
	}
	return g.stmt(s)
}

func (g *fromGo) cond(e ast.Expr) (int, []int, bool) {
	if e == nil {
		return -1, nil, true
	}
	return atomCall(e, "C")
}

func (g *fromGo) stmt(s ast.Stmt) *Stmt {
	switch s := s.(type) {
	case *ast.EmptyStmt:
		return &Stmt{K: Empty}
	case *ast.ExprStmt:
		if n, uses, ok := atomCall(s.X, "A"); ok && len(uses) == 0 {
			return &Stmt{K: Act, N: n}
		}
		if n, uses, ok := atomCall(s.X, "P"); ok && len(uses) == 0 {
			return &Stmt{K: PAct, N: n}
		}
		if c, ok := s.X.(*ast.CallExpr); ok {
			if lit, isLit := c.Fun.(*ast.FuncLit); isLit && len(c.Args) == 0 {
				// an effect atom inside an ordinary closure (ClosureActText): recognised only if untouched
				n := -1
				ast.Inspect(lit.Body, func(x ast.Node) bool {
					if k, uses, ok := atomCallExpr(x, "A"); ok && len(uses) == 0 {
						n = k
					}
					return true
				})
				if n >= 0 && squeeze(show(g.fset, s.X)) == squeeze(ClosureActText(n)) {
					return &Stmt{K: Act, N: n}
				}
				return g.unknownStmt(s)
			}
			name := calleeName(c.Fun)
			if name == "panic" && len(c.Args) == 1 {
				if n, uses, ok := atomCall(c.Args[0], "PV"); ok && len(uses) == 0 {
					return &Stmt{K: BPanic, N: n}
				}
			}
			if name == "Yield" && len(c.Args) == 1 {
				if e, ok := g.expr(c.Args[0]); ok {
					return &Stmt{K: Yield, E: e}
				}
			}
		}
	case *ast.AssignStmt:
		if s.Tok == token.DEFINE && len(s.Lhs) == 1 && len(s.Rhs) == 1 {
			if id, ok := s.Lhs[0].(*ast.Ident); ok && strings.HasPrefix(id.Name, "d") {
				if n, uses, ok := atomCall(s.Rhs[0], "V"); ok && len(uses) == 0 && id.Name == fmt.Sprintf("d%d", n) {
					return &Stmt{K: Def, N: n}
				}
			}
		}
	case *ast.BlockStmt:
		return &Stmt{K: Block, Body: g.stmts(s.List)}
	case *ast.BranchStmt:
		if s.Label == nil {
			switch s.Tok {
			case token.BREAK:
				return &Stmt{K: Break}
			case token.CONTINUE:
				return &Stmt{K: Continue}
			case token.FALLTHROUGH:
				return &Stmt{K: Fallthrough}
			}
		}
	case *ast.IfStmt:
		c, uses, ok := atomCall(s.Cond, "C")
		if !ok {
			break
		}
		st := &Stmt{K: If, Init: g.optSimple(s.Init), Cond: c, Uses: uses, Body: g.stmts(s.Body.List)}
		switch e := s.Else.(type) {
		case nil:
		case *ast.BlockStmt:
			st.Else = &Else{Body: g.stmts(e.List)}
		case *ast.IfStmt:
			st.Else = &Else{If: g.stmt(e)}
		default:
			return g.unknownStmt(s)
		}
		return st
	case *ast.SwitchStmt:
		st := &Stmt{K: Switch, Init: g.optSimple(s.Init), Tag: -1}
		if s.Tag != nil {
			t, uses, ok := atomCall(s.Tag, "T")
			if !ok {
				return g.unknownStmt(s)
			}
			st.Tag, st.Uses = t, uses
		}
		for _, cs := range s.Body.List {
			cc := cs.(*ast.CaseClause)
			c := &Case{Default: cc.List == nil, Body: g.stmts(cc.Body)}
			for _, k := range cc.List {
				if s.Tag != nil {
					n, ok := intLit(k)
					if !ok {
						return g.unknownStmt(s)
					}
					c.Ks = append(c.Ks, n)
				} else {
					n, uses, ok := atomCall(k, "C")
					if !ok || len(uses) != 0 {
						return g.unknownStmt(s)
					}
					c.Ks = append(c.Ks, n)
				}
			}
			st.Cases = append(st.Cases, c)
		}
		return st
	case *ast.TypeSwitchStmt:
		// `switch [init;] TV(tag, uses...).(type) { case T0, T1: ... }`: a tagged switch written as a type switch
		es, ok := s.Assign.(*ast.ExprStmt)
		if !ok {
			return g.unknownStmt(s)
		}
		ta, ok := es.X.(*ast.TypeAssertExpr)
		if !ok || ta.Type != nil {
			return g.unknownStmt(s)
		}
		t, uses, ok := atomCall(ta.X, "TV")
		if !ok {
			return g.unknownStmt(s)
		}
		st := &Stmt{K: Switch, Init: g.optSimple(s.Init), Tag: t, Uses: uses}
		for _, cs := range s.Body.List {
			cc := cs.(*ast.CaseClause)
			c := &Case{Default: cc.List == nil, Body: g.stmts(cc.Body)}
			for _, k := range cc.List {
				id, ok := k.(*ast.Ident)
				if !ok || len(id.Name) != 2 || id.Name[0] != 'T' || id.Name[1] < '0' || id.Name[1] > '9' {
					return g.unknownStmt(s)
				}
				c.Ks = append(c.Ks, int(id.Name[1]-'0'))
			}
			st.Cases = append(st.Cases, c)
		}
		return st
	case *ast.ForStmt:
		c, uses, ok := g.cond(s.Cond)
		if !ok {
			break
		}
		return &Stmt{K: For, Init: g.optSimple(s.Init), Cond: c, Uses: uses, Post: g.optSimple(s.Post), Body: g.stmts(s.Body.List)}
	case *ast.ReturnStmt:
		if len(s.Results) == 1 {
			if id, ok := s.Results[0].(*ast.Ident); ok && id.Name == "nil" {
				return &Stmt{K: Ret}
			}
			return &Stmt{K: RetE, X: g.se(s.Results[0])}
		}
	}
	return g.unknownStmt(s)
}

var sigNames = map[string]string{"Normal": "normal", "Break": "brk", "Continue": "cont", "Return": "ret"}

func (g *fromGo) thunk(e ast.Expr) (*Thunk, bool) {
	switch f := e.(type) {
	case *ast.FuncLit:
		if f.Type.Params != nil && len(f.Type.Params.List) != 0 {
			return nil, false
		}
		return &Thunk{Body: g.stmts(f.Body.List)}, true
	case *ast.IndexExpr, *ast.SelectorExpr, *ast.Ident:
		// eta-reduced: seq.Normal[int]
		if sg, ok := sigNames[calleeName(f)]; ok {
			return &Thunk{Fn: sg}, true
		}
	}
	return nil, false
}

func (g *fromGo) se(e ast.Expr) *SE {
	c, ok := e.(*ast.CallExpr)
	if !ok {
		return g.unknownSE(e)
	}
	name := calleeName(c.Fun)
	switch name {
	case "Normal", "Break", "Continue", "Return":
		if len(c.Args) == 0 {
			return &SE{K: SSig, Sig: sigNames[name]}
		}
	case "Bind":
		if len(c.Args) == 2 {
			v, ok1 := g.expr(c.Args[0])
			th, ok2 := g.thunk(c.Args[1])
			if ok1 && ok2 {
				return &SE{K: SBind, E: v, Th: th}
			}
		}
	case "Delay":
		if len(c.Args) == 1 {
			if th, ok := g.thunk(c.Args[0]); ok {
				return &SE{K: SDelay, Th: th}
			}
		}
	case "Combine":
		if len(c.Args) == 2 {
			return &SE{K: SCombine, A: g.se(c.Args[0]), B: g.se(c.Args[1])}
		}
	case "Start":
		if len(c.Args) == 1 {
			return &SE{K: SStart, A: g.se(c.Args[0])}
		}
	case "Loop":
		if len(c.Args) == 1 {
			return &SE{K: SLoop, Cond: -1, A: g.se(c.Args[0])}
		}
	case "While", "For":
		want := 2
		if name == "For" {
			want = 3
		}
		if len(c.Args) != want {
			break
		}
		x := &SE{K: SLoop, Cond: -1, A: g.se(c.Args[want-1])}
		// condition: func() bool { return C(n) } or nil
		switch cf := c.Args[0].(type) {
		case *ast.FuncLit:
			if len(cf.Body.List) == 1 {
				if r, ok := cf.Body.List[0].(*ast.ReturnStmt); ok && len(r.Results) == 1 {
					if n, uses, ok := atomCall(r.Results[0], "C"); ok {
						x.Cond, x.CUses = n, uses
						break
					}
				}
			}
			return g.unknownSE(e)
		case *ast.Ident:
			if cf.Name != "nil" {
				return g.unknownSE(e)
			}
			if name == "While" {
				return g.unknownSE(e)
			}
		default:
			return g.unknownSE(e)
		}
		if name == "For" {
			switch pf := c.Args[1].(type) {
			case *ast.FuncLit:
				if len(pf.Body.List) != 1 {
					return g.unknownSE(e)
				}
				x.Post = g.stmt(pf.Body.List[0])
			case *ast.Ident:
				if pf.Name != "nil" {
					return g.unknownSE(e)
				}
				x.Text = "nilpost"
			default:
				return g.unknownSE(e)
			}
		}
		return x
	}
	return g.unknownSE(e)
}
