package mg

import (
	"fmt"
	"strings"
)

// Style: how the source file imports the API and declares generators (C11)
type Style struct {
	CoImport string // "co" (default name), "." (dot), or a renamed identifier
	SeqAlso  bool   // the file already imports seq (as "seq")
	SeqName  string // ... or under this name: an identifier, "." (dot import) or "_" (blank import)
	// TypeSwitch: tagged switches are written as TYPE switches over the dynamic type of TV(tag) (same clauses,
	// same meaning; where Go allows it: no fallthrough, case values 0..9); the mini-Go AST stays a switch
	TypeSwitch bool
}

type renderer struct {
	b      strings.Builder
	ind    int
	ref    bool   // reference rendering: Yield -> y.Yield
	yield  string // text of the yield function
	retNil string
	tsw    bool // Style.TypeSwitch
}

func hasFallthrough(ss []*Stmt) bool {
	for _, s := range ss {
		if s == nil {
			continue
		}
		if s.K == Fallthrough {
			return true
		}
		if hasFallthrough(s.Body) {
			return true
		}
		if s.Else != nil && (hasFallthrough(s.Else.Body) || (s.Else.If != nil && hasFallthrough([]*Stmt{s.Else.If}))) {
			return true
		}
		for _, c := range s.Cases {
			if hasFallthrough(c.Body) {
				return true
			}
		}
	}
	return false
}

// asTypeSwitch: may this tagged switch be written as a type switch?
func (r *renderer) asTypeSwitch(s *Stmt) bool {
	if !r.tsw || s.Tag < 0 {
		return false
	}
	for _, c := range s.Cases {
		for _, k := range c.Ks {
			if k < 0 || k > 9 {
				return false
			}
		}
		if hasFallthrough(c.Body) {
			return false
		}
	}
	return true
}

func (r *renderer) line(format string, a ...any) {
	r.b.WriteString(strings.Repeat("\t", r.ind))
	fmt.Fprintf(&r.b, format, a...)
	r.b.WriteByte('\n')
}

// ClosureAct: every fourth effect atom is rendered inside an ordinary, immediately called closure with control
// flow of its own - a loop, a switch, continue inside the switch, break inside an if, return: none of it is
// the generator's business (C13), the rewriter must leave it alone; the atom runs exactly once (i == 1)
func ClosureAct(n int) bool { return n > 0 && n%4 == 0 }

func ClosureActText(n int) string {
	return fmt.Sprintf("func() { for i := 0; i < 3; i++ { switch { case i == 0: continue }; if i == 2 { break }; A(%d) }; return }()", n)
}

func usesArgs(uses []int) string {
	s := ""
	for _, u := range uses {
		s += fmt.Sprintf(", d%d", u)
	}
	return s
}

func (r *renderer) e(e E) string {
	if e.Lit {
		return fmt.Sprint(e.N)
	}
	return fmt.Sprintf("V(%d)", e.N)
}

// simple statement as text (for init / post positions and plain statements)
func (r *renderer) simple(s *Stmt) string {
	if s == nil {
		return ""
	}
	switch s.K {
	case Act:
		if ClosureAct(s.N) {
			return ClosureActText(s.N)
		}
		return fmt.Sprintf("A(%d)", s.N)
	case PAct:
		return fmt.Sprintf("P(%d)", s.N)
	case BPanic:
		return fmt.Sprintf("panic(PV(%d))", s.N)
	case Def:
		return fmt.Sprintf("d%d := V(%d)", s.N, s.N)
	case Yield:
		return fmt.Sprintf("%s(%s)", r.yield, r.e(s.E))
	case Empty:
		return ""
	}
	panic("not a simple statement: " + string(s.K))
}

func (r *renderer) stmts(ss []*Stmt) {
	for _, s := range ss {
		r.stmt(s)
	}
}

func (r *renderer) ifHead(s *Stmt) string {
	h := "if "
	if s.Init != nil {
		h += r.simple(s.Init) + "; "
	}
	return h + fmt.Sprintf("C(%d%s)", s.Cond, usesArgs(s.Uses))
}

// ifChain renders an if statement whose first line continues the current line ("} else ")
func (r *renderer) ifChain(s *Stmt) {
	fmt.Fprintf(&r.b, "%s {\n", r.ifHead(s))
	r.ind++
	r.stmts(s.Body)
	r.ind--
	switch {
	case s.Else == nil:
		r.line("}")
	case s.Else.If != nil:
		r.b.WriteString(strings.Repeat("\t", r.ind))
		r.b.WriteString("} else ")
		r.ifChain(s.Else.If)
	default:
		r.line("} else {")
		r.ind++
		r.stmts(s.Else.Body)
		r.ind--
		r.line("}")
	}
}

func (r *renderer) stmt(s *Stmt) {
	switch s.K {
	case Act, PAct, BPanic, Def, Yield:
		r.line("%s", r.simple(s))
	case Empty:
		r.line(";")
	case Block:
		r.line("{")
		r.ind++
		r.stmts(s.Body)
		r.ind--
		r.line("}")
	case If:
		r.b.WriteString(strings.Repeat("\t", r.ind))
		r.ifChain(s)
	case Switch:
		h := "switch "
		if s.Init != nil {
			h += r.simple(s.Init) + "; "
		}
		asType := r.asTypeSwitch(s)
		if asType {
			h += fmt.Sprintf("TV(%d%s).(type) ", s.Tag, usesArgs(s.Uses))
		} else if s.Tag >= 0 {
			h += fmt.Sprintf("T(%d%s) ", s.Tag, usesArgs(s.Uses))
		}
		r.line("%s{", h)
		for _, c := range s.Cases {
			if c.Default {
				r.line("default:")
			} else {
				var ks []string
				for _, k := range c.Ks {
					if asType {
						ks = append(ks, fmt.Sprintf("T%d", k))
					} else if s.Tag >= 0 {
						ks = append(ks, fmt.Sprint(k))
					} else {
						ks = append(ks, fmt.Sprintf("C(%d)", k))
					}
				}
				r.line("case %s:", strings.Join(ks, ", "))
			}
			r.ind++
			r.stmts(c.Body)
			r.ind--
		}
		r.line("}")
	case For:
		init, post, cond := r.simple(s.Init), r.simple(s.Post), ""
		if s.Cond >= 0 {
			cond = fmt.Sprintf("C(%d%s)", s.Cond, usesArgs(s.Uses))
		}
		switch {
		case init == "" && post == "" && cond == "":
			r.line("for {")
		case init == "" && post == "":
			r.line("for %s {", cond)
		default:
			r.line("for %s; %s; %s {", init, cond, post)
		}
		r.ind++
		r.stmts(s.Body)
		r.ind--
		r.line("}")
	case Break:
		r.line("break")
	case Continue:
		r.line("continue")
	case Fallthrough:
		r.line("fallthrough")
	case Ret:
		r.line("%s", r.retNil)
	default:
		panic("cannot render " + string(s.K))
	}
}

// RenderCo: the source file handed to the compiler
func RenderCo(pkg, vmPath string, st Style, progs []*Prog) string {
	r := &renderer{retNil: "return nil", tsw: st.TypeSwitch}
	iter := "co.Iter[int]"
	switch st.CoImport {
	case ".":
		r.yield, iter = "Yield", "Iter[int]"
	case "", "co":
		r.yield = "co.Yield"
	default:
		r.yield, iter = st.CoImport+".Yield", st.CoImport+".Iter[int]"
	}
	r.line("package %s", pkg)
	r.line("")
	r.line("import (")
	r.line("\t. %q", vmPath)
	switch st.CoImport {
	case ".":
		r.line("\t. \"github.com/goghcrow/go-co\"")
	case "", "co":
		r.line("\t\"github.com/goghcrow/go-co\"")
	default:
		r.line("\t%s \"github.com/goghcrow/go-co\"", st.CoImport)
	}
	if st.SeqAlso {
		r.line("\t\"github.com/goghcrow/go-co/seq\"")
	} else if st.SeqName != "" {
		r.line("\t%s \"github.com/goghcrow/go-co/seq\"", st.SeqName)
	}
	r.line(")")
	r.line("")
	switch {
	case st.SeqAlso:
		r.line("var _ = seq.Normal[int]")
		r.line("")
	case st.SeqName == ".":
		r.line("var _ = Normal[int]")
		r.line("")
	case st.SeqName != "" && st.SeqName != "_":
		r.line("var _ = %s.Normal[int]", st.SeqName)
		r.line("")
	}
	for _, p := range progs {
		r.line("func %s() %s {", p.Name, iter)
		r.ind++
		r.stmts(p.Body)
		r.ind--
		r.line("}")
		r.line("")
	}
	return r.b.String()
}

// RenderRef: the same bodies on the goroutine-based reference coroutine (oracle)
func RenderRef(pkg, vmPath string, progs []*Prog) string {
	r := &renderer{ref: true, yield: "y.Yield", retNil: "return"}
	r.line("package %s", pkg)
	r.line("")
	r.line("import . %q", vmPath)
	r.line("")
	for _, p := range progs {
		r.line("func %s(y *Y) {", p.Name)
		r.ind++
		r.stmts(p.Body)
		r.ind--
		r.line("}")
		r.line("")
	}
	r.line("var All = map[string]func(*Y){")
	for _, p := range progs {
		r.line("\t%q: %s,", p.Name, p.Name)
	}
	r.line("}")
	return r.b.String()
}
