package mg

// K9: the names Go itself resolves at every numbered atom of a generator function (go/types scopes).
// Independent of the rewriter and of the Lean model; type errors (unresolved imports, unused variables) are
// ignored - only the scope tree and the local variable objects are used.

import (
	"fmt"
	"go/ast"
	"go/parser"
	"go/token"
	"go/types"
	"regexp"
	"sort"
	"strconv"
	"strings"
)

type noImporter struct{}

func (noImporter) Import(path string) (*types.Package, error) {
	return nil, fmt.Errorf("imports are not resolved")
}

var dName = regexp.MustCompile(`^d([0-9]+)$`)

// visible d<n> variables at pos, outermost scope first, in declaration order within a scope
func envAt(pkg *types.Package, pos token.Pos) []int {
	var chain []*types.Scope
	for sc := pkg.Scope().Innermost(pos); sc != nil && sc != types.Universe; sc = sc.Parent() {
		chain = append(chain, sc)
	}
	var env []int
	for i := len(chain) - 1; i >= 0; i-- {
		sc := chain[i]
		type decl struct {
			n   int
			pos token.Pos
		}
		var ds []decl
		for _, name := range sc.Names() {
			m := dName.FindStringSubmatch(name)
			if m == nil {
				continue
			}
			if s2, obj := sc.LookupParent(name, pos); obj != nil && s2 == sc {
				n, _ := strconv.Atoi(m[1])
				ds = append(ds, decl{n, obj.Pos()})
			}
		}
		sort.Slice(ds, func(a, b int) bool { return ds[a].pos < ds[b].pos })
		for _, d := range ds {
			env = append(env, d.n)
		}
	}
	return env
}

var atomNames = map[string]string{"A": "A", "P": "P", "PV": "PV", "V": "V", "C": "C", "T": "C", "TV": "C"}

// ScopeReport returns, per top-level function whose name starts with prefix, the sorted tokens
// "<atom><n>:<visible names>" of every numbered atom call in its body.
func ScopeReport(src string, prefix string) (map[string]string, error) {
	fset := token.NewFileSet()
	f, err := parser.ParseFile(fset, "x.go", src, 0)
	if err != nil {
		return nil, err
	}
	conf := types.Config{Importer: noImporter{}, Error: func(error) {}}
	pkg, _ := conf.Check("p", fset, []*ast.File{f}, nil)
	if pkg == nil {
		return nil, fmt.Errorf("no package")
	}
	out := map[string]string{}
	for _, d := range f.Decls {
		fd, ok := d.(*ast.FuncDecl)
		if !ok || !strings.HasPrefix(fd.Name.Name, prefix) || fd.Body == nil {
			continue
		}
		var toks []string
		skip := map[ast.Node]bool{} // case expressions of tagless switches: C(k) without identifiers
		ast.Inspect(fd.Body, func(n ast.Node) bool {
			if cc, ok := n.(*ast.CaseClause); ok {
				for _, e := range cc.List {
					skip[e] = true
				}
				return true
			}
			c, ok := n.(*ast.CallExpr)
			if !ok || skip[n] {
				return true
			}
			id, ok := c.Fun.(*ast.Ident)
			if !ok || atomNames[id.Name] == "" || len(c.Args) < 1 {
				return true
			}
			k, ok := intLit(c.Args[0])
			if !ok {
				return true
			}
			env := envAt(pkg, c.Lparen)
			var es []string
			for _, e := range env {
				es = append(es, strconv.Itoa(e))
			}
			toks = append(toks, fmt.Sprintf("%s%d:%s", atomNames[id.Name], k, strings.Join(es, ",")))
			return true
		})
		sort.Strings(toks)
		out[fd.Name.Name] = strings.Join(toks, " ")
	}
	return out, nil
}
