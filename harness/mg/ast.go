// Package mg: the mini-Go AST shared (as S-expressions) with the Lean model of the rewriter.
// One AST for source and target, because the rewriter is Go -> Go (GoCo/Compile/Syntax.lean).
package mg

import (
	"fmt"

	"verif/harness/sexp"
)

type Kind string

const (
	// simple statements
	Act    Kind = "act"    // A(n)
	PAct   Kind = "pact"   // P(n): an ordinary call that panics
	BPanic Kind = "bpanic" // panic(PV(n)): builtin panic (terminating statement)
	Def    Kind = "def"    // d<n> := V(n)
	Yield  Kind = "yield"  // Yield(E)
	Empty  Kind = "empty"
	// compound
	Block  Kind = "block"
	If     Kind = "if"
	Switch Kind = "switch"
	For    Kind = "for"
	// branches
	Break       Kind = "break"
	Continue    Kind = "continue"
	Fallthrough Kind = "fallthrough"
	Ret         Kind = "ret" // source: return nil
	// target only
	RetE Kind = "rete" // return <seq expression>
	// anything the translation back from Go does not recognise
	Unknown Kind = "unknown"
)

// E: yielded expression
type E struct {
	Lit bool // literal n, else V(n)
	N   int
}

type Stmt struct {
	K     Kind
	N     int   // atom id
	E     E     // yield
	Init  *Stmt // if/switch/for: simple statement or nil
	Cond  int   // if/for condition atom C(n); -1 = absent (for)
	Uses  []int // extra variable uses d<k> in the condition / tag
	Tag   int   // switch tag atom T(n); -1 = tagless
	Post  *Stmt // for
	Body  []*Stmt
	Else  *Else
	Cases []*Case
	X     *SE    // rete
	Text  string // unknown
}

type Else struct {
	If   *Stmt   // else if ...
	Body []*Stmt // else { ... }   (If == nil)
}

type Case struct {
	Default bool
	Ks      []int // case constants (tagged switch) or condition atoms (tagless)
	Body    []*Stmt
}

type SEKind string

const (
	SSig     SEKind = "sig"
	SBind    SEKind = "bind"
	SDelay   SEKind = "delay"
	SCombine SEKind = "combine"
	SLoop    SEKind = "loop"
	SStart   SEKind = "start"
	SUnknown SEKind = "unknown"
)

type Thunk struct {
	Fn   string  // eta-reduced: normal|brk|cont|ret ; "" = literal
	Body []*Stmt // literal body
}

type SE struct {
	K     SEKind
	Sig   string // normal|brk|cont|ret
	E     E
	Th    *Thunk
	A, B  *SE
	Cond  int // loop: C(n) or -1
	CUses []int
	Post  *Stmt // loop: simple statement or nil
	Text  string
}

// ---------- S-expressions ----------

func eSexp(e E) *sexp.Node {
	if e.Lit {
		return sexp.L(sexp.A("lit"), sexp.I(e.N))
	}
	return sexp.L(sexp.A("v"), sexp.I(e.N))
}

func optStmt(s *Stmt) *sexp.Node {
	if s == nil {
		return sexp.A("-")
	}
	return s.Sexp()
}

func ints(xs []int) *sexp.Node {
	l := sexp.L()
	for _, x := range xs {
		l.List = append(l.List, sexp.I(x))
	}
	return l
}

func condSexp(c int, uses []int) *sexp.Node {
	if c < 0 {
		return sexp.A("-")
	}
	return sexp.L(sexp.A("c"), sexp.I(c), ints(uses))
}

func stmtsSexp(ss []*Stmt) *sexp.Node {
	l := sexp.L()
	for _, s := range ss {
		l.List = append(l.List, s.Sexp())
	}
	return l
}

func (s *Stmt) Sexp() *sexp.Node {
	switch s.K {
	case Act, PAct, BPanic, Def:
		return sexp.L(sexp.A(string(s.K)), sexp.I(s.N))
	case Yield:
		return sexp.L(sexp.A("yield"), eSexp(s.E))
	case Empty, Break, Continue, Fallthrough, Ret:
		return sexp.A(string(s.K))
	case Block:
		return sexp.L(sexp.A("block"), stmtsSexp(s.Body))
	case If:
		var els *sexp.Node
		switch {
		case s.Else == nil:
			els = sexp.A("-")
		case s.Else.If != nil:
			els = sexp.L(sexp.A("elif"), s.Else.If.Sexp())
		default:
			els = sexp.L(sexp.A("else"), stmtsSexp(s.Else.Body))
		}
		return sexp.L(sexp.A("if"), optStmt(s.Init), condSexp(s.Cond, s.Uses), stmtsSexp(s.Body), els)
	case Switch:
		tag := sexp.A("-")
		if s.Tag >= 0 {
			tag = sexp.L(sexp.A("t"), sexp.I(s.Tag), ints(s.Uses))
		}
		cs := sexp.L()
		for _, c := range s.Cases {
			if c.Default {
				cs.List = append(cs.List, sexp.L(sexp.A("default"), stmtsSexp(c.Body)))
			} else {
				cs.List = append(cs.List, sexp.L(sexp.A("case"), ints(c.Ks), stmtsSexp(c.Body)))
			}
		}
		return sexp.L(sexp.A("switch"), optStmt(s.Init), tag, cs)
	case For:
		return sexp.L(sexp.A("for"), optStmt(s.Init), condSexp(s.Cond, s.Uses), optStmt(s.Post), stmtsSexp(s.Body))
	case RetE:
		return sexp.L(sexp.A("rete"), s.X.Sexp())
	}
	return sexp.L(sexp.A("unknown"), sexp.A(sanitize(s.Text)))
}

func sanitize(s string) string {
	out := make([]rune, 0, len(s))
	for _, c := range s {
		switch c {
		case '(', ')', ' ', '\t', '\n':
			out = append(out, '_')
		default:
			out = append(out, c)
		}
	}
	if len(out) == 0 {
		return "_"
	}
	return string(out)
}

func (t *Thunk) Sexp() *sexp.Node {
	if t.Fn != "" {
		return sexp.L(sexp.A("fn"), sexp.A(t.Fn))
	}
	return sexp.L(sexp.A("lam"), stmtsSexp(t.Body))
}

func (x *SE) Sexp() *sexp.Node {
	switch x.K {
	case SSig:
		return sexp.L(sexp.A("sig"), sexp.A(x.Sig))
	case SBind:
		return sexp.L(sexp.A("bind"), eSexp(x.E), x.Th.Sexp())
	case SDelay:
		return sexp.L(sexp.A("delay"), x.Th.Sexp())
	case SCombine:
		return sexp.L(sexp.A("combine"), x.A.Sexp(), x.B.Sexp())
	case SLoop:
		return sexp.L(sexp.A("loop"), condSexp(x.Cond, x.CUses), optStmt(x.Post), x.A.Sexp())
	case SStart:
		return sexp.L(sexp.A("start"), x.A.Sexp())
	}
	return sexp.L(sexp.A("unknown"), sexp.A(sanitize(x.Text)))
}

func (s *Stmt) String() string { return fmt.Sprint(s.Sexp()) }

// Prog: one generator function body
type Prog struct {
	Name string
	Body []*Stmt
}

func (p *Prog) Sexp() *sexp.Node { return stmtsSexp(p.Body) }
