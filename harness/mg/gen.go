package mg

import (
	"math/rand"
)

// Random generation of generator bodies (mode A). Atom ids are unique within a function.

type GenOpts struct {
	MaxDepth int
	MaxLen   int
	Switch   bool // generate switch statements
	Panics   bool // generate P(n) / panic(PV(n))
}

type pgen struct {
	r    *rand.Rand
	o    GenOpts
	next int
}

func (g *pgen) id() int { g.next++; return g.next }

type gctx struct {
	inLoop, inSwitch bool
	depth            int
}

func (g *pgen) e() E {
	if g.r.Intn(5) == 0 {
		return E{Lit: true, N: g.r.Intn(9) + 1}
	}
	return E{N: g.id()}
}

func (g *pgen) simpleInit(allowDef bool) *Stmt {
	switch k := g.r.Intn(100); {
	case k < 50:
		return nil
	case k < 70:
		return &Stmt{K: Act, N: g.id()}
	case k < 85 && allowDef:
		return &Stmt{K: Def, N: g.id()}
	default:
		return &Stmt{K: Yield, E: g.e()}
	}
}

func (g *pgen) stmts(c gctx, minLen int) []*Stmt {
	n := minLen + g.r.Intn(g.o.MaxLen-minLen+1)
	var out []*Stmt
	for i := 0; i < n; i++ {
		out = append(out, g.stmt(c))
	}
	return out
}

func usesOf(init *Stmt) []int {
	if init != nil && init.K == Def {
		return []int{init.N}
	}
	return nil
}

func (g *pgen) stmt(c gctx) *Stmt {
	deep := c.depth < g.o.MaxDepth
	for {
		k := g.r.Intn(100)
		switch {
		case k < 24:
			return &Stmt{K: Act, N: g.id()}
		case k < 46:
			return &Stmt{K: Yield, E: g.e()}
		case k < 60 && deep:
			return g.ifStmt(c)
		case k < 72 && deep:
			return g.forStmt(c)
		case k < 79 && deep && g.o.Switch:
			return g.switchStmt(c)
		case k < 83 && deep:
			return &Stmt{K: Block, Body: g.stmts(gctx{c.inLoop, c.inSwitch, c.depth + 1}, 0)}
		case k < 88 && (c.inLoop || c.inSwitch):
			return &Stmt{K: Break}
		case k < 93 && c.inLoop:
			return &Stmt{K: Continue}
		case k < 96:
			return &Stmt{K: Ret}
		case k < 97:
			return &Stmt{K: Empty}
		case k < 98 && g.o.Panics:
			return &Stmt{K: PAct, N: g.id()}
		case k < 99 && g.o.Panics:
			return &Stmt{K: BPanic, N: g.id()}
		}
	}
}

func (g *pgen) ifStmt(c gctx) *Stmt {
	in := gctx{c.inLoop, c.inSwitch, c.depth + 1}
	var init *Stmt
	switch k := g.r.Intn(100); {
	case k < 80:
	case k < 90:
		init = &Stmt{K: Act, N: g.id()}
	default:
		init = &Stmt{K: Def, N: g.id()}
	}
	s := &Stmt{K: If, Init: init, Cond: g.id() % 64, Uses: usesOf(init), Body: g.stmts(in, 0)}
	switch k := g.r.Intn(100); {
	case k < 45:
	case k < 80:
		s.Else = &Else{Body: g.stmts(in, 0)}
	default:
		s.Else = &Else{If: g.ifStmt(c)}
	}
	return s
}

func (g *pgen) forStmt(c gctx) *Stmt {
	in := gctx{true, false, c.depth + 1}
	s := &Stmt{K: For, Cond: -1}
	hasCond := g.r.Intn(4) != 0
	s.Init = g.simpleInit(hasCond)
	if hasCond {
		s.Cond = g.id() % 64
		s.Uses = usesOf(s.Init)
	}
	switch k := g.r.Intn(100); {
	case k < 50:
	case k < 80:
		s.Post = &Stmt{K: Act, N: g.id()}
	default:
		s.Post = &Stmt{K: Yield, E: g.e()}
	}
	s.Body = g.stmts(in, 0)
	if !hasCond {
		// every iteration must evaluate an atom (fuel) - start the body with one
		if len(s.Body) == 0 || (s.Body[0].K != Act && s.Body[0].K != Yield) {
			s.Body = append([]*Stmt{{K: Act, N: g.id()}}, s.Body...)
		}
	}
	return s
}

func (g *pgen) switchStmt(c gctx) *Stmt {
	in := gctx{c.inLoop, true, c.depth + 1}
	s := &Stmt{K: Switch, Tag: -1}
	tagged := g.r.Intn(5) != 0
	s.Init = g.simpleInit(tagged)
	if tagged {
		s.Tag = g.id() % 64
		s.Uses = usesOf(s.Init)
	}
	ks := g.r.Perm(3)
	ncase := 1 + g.r.Intn(3)
	defAt := -1
	if g.r.Intn(2) == 0 {
		defAt = g.r.Intn(ncase)
	}
	for i := 0; i < ncase; i++ {
		cs := &Case{Body: g.stmts(in, 0)}
		if i == defAt {
			cs.Default = true
		} else if tagged {
			cs.Ks = []int{ks[i]}
		} else {
			cs.Ks = []int{g.id() % 64}
		}
		if i < ncase-1 && g.r.Intn(8) == 0 {
			cs.Body = append(cs.Body, &Stmt{K: Fallthrough})
		}
		s.Cases = append(s.Cases, cs)
	}
	return s
}

func containsYield(ss []*Stmt) bool {
	for _, s := range ss {
		if s.K == Yield {
			return true
		}
		if s.Init != nil && s.Init.K == Yield || s.Post != nil && s.Post.K == Yield {
			return true
		}
		if containsYield(s.Body) {
			return true
		}
		if s.Else != nil {
			if s.Else.If != nil && containsYield([]*Stmt{s.Else.If}) || containsYield(s.Else.Body) {
				return true
			}
		}
		for _, c := range s.Cases {
			if containsYield(c.Body) {
				return true
			}
		}
	}
	return false
}

// RandomProg: a generator body containing at least one yield, ending in `return nil`
func RandomProg(r *rand.Rand, o GenOpts) []*Stmt {
	for {
		g := &pgen{r: r, o: o}
		body := g.stmts(gctx{}, 1)
		if !containsYield(body) {
			continue
		}
		if len(body) == 0 || body[len(body)-1].K != Ret {
			body = append(body, &Stmt{K: Ret})
		}
		return body
	}
}

// ---------- exhaustive enumeration of small bodies ----------

// Small: every body of at most `width` statements at nesting depth <= depth over a reduced alphabet
// (act, yield, break, continue, return; if, for-cond, for-with-yielding-post, one-case switch), kept
// only if it contains a yield and break/continue are legal Go.
func Small(depth, width int) [][]*Stmt {
	type ctx struct{ inLoop, inSwitch bool }
	var lists func(d int, c ctx) [][]*Stmt
	var stmtsAt func(d int, c ctx) []*Stmt
	stmtsAt = func(d int, c ctx) []*Stmt {
		out := []*Stmt{{K: Act}, {K: Yield}, {K: Ret}}
		if c.inLoop || c.inSwitch {
			out = append(out, &Stmt{K: Break})
		}
		if c.inLoop {
			out = append(out, &Stmt{K: Continue})
		}
		if d > 0 {
			for _, b := range lists(d-1, c) {
				out = append(out, &Stmt{K: If, Cond: 0, Body: b})
			}
			for _, b := range lists(d-1, ctx{true, false}) {
				out = append(out, &Stmt{K: For, Cond: 0, Body: b})
				out = append(out, &Stmt{K: For, Cond: 0, Post: &Stmt{K: Yield}, Body: b})
			}
			for _, b := range lists(d-1, ctx{c.inLoop, true}) {
				out = append(out, &Stmt{K: Switch, Tag: 0, Cases: []*Case{{Ks: []int{0}, Body: b}}})
			}
		}
		return out
	}
	lists = func(d int, c ctx) [][]*Stmt {
		atoms := stmtsAt(d, c)
		out := [][]*Stmt{{}}
		var rec func(cur []*Stmt)
		rec = func(cur []*Stmt) {
			if len(cur) > 0 {
				out = append(out, append([]*Stmt(nil), cur...))
			}
			if len(cur) == width {
				return
			}
			for _, a := range atoms {
				rec(append(cur, a))
			}
		}
		rec(nil)
		return out
	}
	var res [][]*Stmt
	for _, l := range lists(depth, ctx{}) {
		if !containsYield(l) {
			continue
		}
		body := renumber(l)
		if body[len(body)-1].K != Ret {
			body = append(body, &Stmt{K: Ret})
		}
		res = append(res, body)
	}
	return res
}

// SmallRandom: a random member of the same reduced grammar at a larger nesting depth (the exhaustive
// set explodes beyond depth 1)
func SmallRandom(r *rand.Rand, depth, width int) []*Stmt {
	type ctx struct{ inLoop, inSwitch bool }
	var list func(d int, c ctx) []*Stmt
	var stmt func(d int, c ctx) *Stmt
	stmt = func(d int, c ctx) *Stmt {
		for {
			switch k := r.Intn(12); {
			case k == 0:
				return &Stmt{K: Act}
			case k <= 2:
				return &Stmt{K: Yield}
			case k == 3:
				return &Stmt{K: Ret}
			case k == 4 && (c.inLoop || c.inSwitch):
				return &Stmt{K: Break}
			case k == 5 && c.inLoop:
				return &Stmt{K: Continue}
			case k == 6 && d > 0:
				return &Stmt{K: If, Cond: 0, Body: list(d-1, c)}
			case k == 7 && d > 0:
				return &Stmt{K: For, Cond: 0, Body: list(d-1, ctx{true, false})}
			case k == 8 && d > 0:
				return &Stmt{K: For, Cond: 0, Post: &Stmt{K: Yield}, Body: list(d-1, ctx{true, false})}
			case k >= 9 && d > 0:
				return &Stmt{K: Switch, Tag: 0, Cases: []*Case{{Ks: []int{0}, Body: list(d-1, ctx{c.inLoop, true})}}}
			}
		}
	}
	list = func(d int, c ctx) []*Stmt {
		n := r.Intn(width + 1)
		var out []*Stmt
		for i := 0; i < n; i++ {
			out = append(out, stmt(d, c))
		}
		return out
	}
	for {
		l := list(depth, ctx{})
		if len(l) == 0 || !containsYield(l) {
			continue
		}
		body := renumber(l)
		if body[len(body)-1].K != Ret {
			body = append(body, &Stmt{K: Ret})
		}
		return body
	}
}

// renumber: deep copy giving every atom a fresh id
func renumber(ss []*Stmt) []*Stmt {
	n := 0
	id := func() int { n++; return n }
	var cp func(s *Stmt) *Stmt
	var cps func(ss []*Stmt) []*Stmt
	cps = func(ss []*Stmt) []*Stmt {
		out := make([]*Stmt, 0, len(ss))
		for _, s := range ss {
			out = append(out, cp(s))
		}
		return out
	}
	cp = func(s *Stmt) *Stmt {
		if s == nil {
			return nil
		}
		t := *s
		switch s.K {
		case Act, PAct, BPanic, Def:
			t.N = id()
		case Yield:
			t.E = E{N: id()}
		case If:
			t.Init = cp(s.Init)
			t.Cond = id() % 64
			t.Body = cps(s.Body)
			if s.Else != nil {
				t.Else = &Else{If: cp(s.Else.If), Body: cps(s.Else.Body)}
			}
		case For:
			t.Init = cp(s.Init)
			if s.Cond >= 0 {
				t.Cond = id() % 64
			}
			t.Post = cp(s.Post)
			t.Body = cps(s.Body)
		case Switch:
			t.Init = cp(s.Init)
			if s.Tag >= 0 {
				t.Tag = id() % 64
			}
			t.Cases = nil
			for _, c := range s.Cases {
				t.Cases = append(t.Cases, &Case{Default: c.Default, Ks: c.Ks, Body: cps(c.Body)})
			}
		case Block:
			t.Body = cps(s.Body)
		}
		return &t
	}
	return cps(ss)
}

// TermRandom: bodies whose interest lies in what ENDS a block - the decisions of the termination checker and
// of the implicit return-normal: infinite native loops left by break (in if / else / else-if bodies), if-else
// chains and switches (with default) whose branches all terminate or not, as LAST statement of a function
// body, of a loop body, of an if branch, of a case clause or of the code after a yield; no trailing return.
func TermRandom(r *rand.Rand, depth int) []*Stmt {
	type ctx struct{ inLoop, inSwitch bool }
	var list func(d int, c ctx, needYield bool) []*Stmt
	var last func(d int, c ctx) *Stmt
	var inner func(d int, c ctx) *Stmt
	term := func(c ctx) *Stmt { // a terminating simple statement
		switch k := r.Intn(5); {
		case k == 0:
			return &Stmt{K: Ret}
		case k == 1 && (c.inLoop || c.inSwitch):
			return &Stmt{K: Break}
		case k == 2 && c.inLoop:
			return &Stmt{K: Continue}
		case k == 3:
			return &Stmt{K: BPanic}
		}
		return &Stmt{K: Ret}
	}
	// a native (yield-free) infinite loop left by break somewhere in an if / else / else-if body
	nativeLoop := func() *Stmt {
		brk := []*Stmt{{K: Break}}
		act := []*Stmt{{K: Act}}
		var body []*Stmt
		switch r.Intn(5) {
		case 0:
			body = []*Stmt{{K: Act}, {K: If, Cond: 0, Body: brk}}
		case 1:
			body = []*Stmt{{K: If, Cond: 0, Body: act, Else: &Else{Body: brk}}}
		case 2:
			body = []*Stmt{{K: If, Cond: 0, Body: act, Else: &Else{If: &Stmt{K: If, Cond: 0, Body: brk}}}}
		case 3:
			body = []*Stmt{{K: If, Cond: 0, Body: act, Else: &Else{If: &Stmt{K: If, Cond: 0, Body: act, Else: &Else{Body: brk}}}}}
		default:
			body = []*Stmt{{K: Act}} // never left: fuel exhaustion on both sides
		}
		return &Stmt{K: For, Cond: -1, Body: body}
	}
	inner = func(d int, c ctx) *Stmt {
		switch r.Intn(4) {
		case 0:
			return &Stmt{K: Act}
		default:
			return &Stmt{K: Yield}
		}
	}
	last = func(d int, c ctx) *Stmt {
		if d == 0 {
			if r.Intn(3) == 0 {
				return term(c)
			}
			return &Stmt{K: Yield}
		}
		switch r.Intn(8) {
		case 0:
			return nativeLoop()
		case 1: // if without else
			return &Stmt{K: If, Cond: 0, Body: list(d-1, c, false)}
		case 2: // if / else
			return &Stmt{K: If, Cond: 0, Body: list(d-1, c, false), Else: &Else{Body: list(d-1, c, false)}}
		case 3: // if / else if / else
			return &Stmt{K: If, Cond: 0, Body: list(d-1, c, false),
				Else: &Else{If: &Stmt{K: If, Cond: 0, Body: list(d-1, c, false), Else: &Else{Body: list(d-1, c, false)}}}}
		case 4: // switch with default
			return &Stmt{K: Switch, Tag: 0, Cases: []*Case{{Ks: []int{0}, Body: list(d-1, ctx{c.inLoop, true}, false)},
				{Default: true, Body: list(d-1, ctx{c.inLoop, true}, false)}}}
		case 5: // switch without default
			return &Stmt{K: Switch, Tag: 0, Cases: []*Case{{Ks: []int{0}, Body: list(d-1, ctx{c.inLoop, true}, false)}}}
		case 6: // loop with a condition, optionally a yielding post
			f := &Stmt{K: For, Cond: 0, Body: list(d-1, ctx{true, false}, false)}
			if r.Intn(2) == 0 {
				f.Post = &Stmt{K: Yield}
			}
			return f
		default:
			return &Stmt{K: Block, Body: list(d-1, c, false)}
		}
	}
	list = func(d int, c ctx, needYield bool) []*Stmt {
		var out []*Stmt
		for i, n := 0, r.Intn(3); i < n; i++ {
			out = append(out, inner(d, c))
		}
		return append(out, last(d, c))
	}
	for {
		l := list(depth, ctx{}, true)
		if !containsYield(l) {
			continue
		}
		return renumber(l)
	}
}

// ScopeRandom: bodies whose interest lies in lexical scoping - `d<k> := V(k)` declarations at arbitrary
// statement positions with names from a pool of three (so nested scopes shadow), if / for / switch
// initialisers that declare, and conditions / tags that use any visible name.  Every declaration is used (a
// declaration statement is followed by `if C(n, d<k>) {...}`, an initialiser is used by its condition or tag),
// no name is declared twice in one Go block, so source and generated code build.  Shapes of the known
// findings are avoided: a yielding post only on a body without top-level declarations and without continue
// (D8, D6), no break inside switch clauses (D7).
func ScopeRandom(r *rand.Rand, depth int) []*Stmt {
	next := 10
	id := func() int { next++; return next }
	uses := func(vis []int) []int {
		seen := map[int]bool{}
		var out []int
		for i, n := 0, r.Intn(3); i < n && len(vis) > 0; i++ {
			u := vis[r.Intn(len(vis))]
			if !seen[u] {
				seen[u] = true
				out = append(out, u)
			}
		}
		return out
	}
	yield := func() *Stmt {
		if r.Intn(4) == 0 {
			return &Stmt{K: Yield, E: E{Lit: true, N: 1 + r.Intn(9)}}
		}
		return &Stmt{K: Yield, E: E{N: id()}}
	}
	freshName := func(frame map[int]bool) int {
		for _, k := range r.Perm(3) {
			if !frame[k+1] {
				return k + 1
			}
		}
		return 0
	}
	var list func(d int, vis []int, inLoop, allowDef, allowCont bool) []*Stmt
	list = func(d int, vis []int, inLoop, allowDef, allowCont bool) []*Stmt {
		frame := map[int]bool{}
		vis = append([]int{}, vis...)
		var out []*Stmt
		n := 1 + r.Intn(4)
		for i := 0; i < n; i++ {
			switch k := r.Intn(100); {
			case k < 12:
				out = append(out, &Stmt{K: Act, N: id()})
			case k < 32:
				out = append(out, yield())
			case k < 52 && allowDef:
				name := freshName(frame)
				if name == 0 {
					continue
				}
				frame[name] = true
				out = append(out, &Stmt{K: Def, N: name})
				vis = append(vis, name)
				use := &Stmt{K: If, Cond: id(), Uses: append([]int{name}, uses(vis)...)}
				if d > 0 && r.Intn(2) == 0 {
					use.Body = list(d-1, vis, inLoop, true, allowCont)
				}
				use.Uses = dedupe(use.Uses)
				out = append(out, use)
			case k < 64 && d > 0: // if, optionally with a declaring initialiser
				s := &Stmt{K: If, Cond: id()}
				v2 := vis
				if r.Intn(2) == 0 {
					name := 1 + r.Intn(3)
					s.Init = &Stmt{K: Def, N: name}
					v2 = append(append([]int{}, vis...), name)
					s.Uses = dedupe(append([]int{name}, uses(v2)...))
				} else {
					s.Uses = uses(vis)
				}
				s.Body = list(d-1, v2, inLoop, true, allowCont)
				switch r.Intn(3) {
				case 0:
					s.Else = &Else{Body: list(d-1, v2, inLoop, true, allowCont)}
				case 1:
					s.Else = &Else{If: &Stmt{K: If, Cond: id(), Uses: uses(v2), Body: list(d-1, v2, inLoop, true, allowCont)}}
				}
				out = append(out, s)
			case k < 78 && d > 0: // for
				s := &Stmt{K: For, Cond: id()}
				v2 := vis
				switch r.Intn(4) {
				case 0:
					name := 1 + r.Intn(3)
					s.Init = &Stmt{K: Def, N: name}
					v2 = append(append([]int{}, vis...), name)
					s.Uses = dedupe(append([]int{name}, uses(v2)...))
				case 1:
					s.Init = yield()
					s.Uses = uses(vis)
				default:
					s.Uses = uses(vis)
				}
				switch r.Intn(4) {
				case 0:
					s.Post = &Stmt{K: Act, N: id()}
					s.Body = list(d-1, v2, true, true, true)
				case 1:
					s.Post = yield()
					s.Body = list(d-1, v2, true, false, false)
				default:
					s.Body = list(d-1, v2, true, true, true)
				}
				out = append(out, s)
			case k < 88 && d > 0: // switch
				s := &Stmt{K: Switch, Tag: id()}
				v2 := vis
				if r.Intn(2) == 0 {
					name := 1 + r.Intn(3)
					s.Init = &Stmt{K: Def, N: name}
					v2 = append(append([]int{}, vis...), name)
					s.Uses = dedupe(append([]int{name}, uses(v2)...))
				} else {
					s.Uses = uses(vis)
				}
				for c, nc := 0, 1+r.Intn(2); c < nc; c++ {
					s.Cases = append(s.Cases, &Case{Ks: []int{c}, Body: list(d-1, v2, false, true, false)})
				}
				if r.Intn(2) == 0 {
					s.Cases = append(s.Cases, &Case{Default: true, Body: list(d-1, v2, false, true, false)})
				}
				out = append(out, s)
			case k < 93 && d > 0:
				out = append(out, &Stmt{K: Block, Body: list(d-1, vis, inLoop, true, allowCont)})
			case k < 97 && inLoop && i == n-1:
				if allowCont && r.Intn(2) == 0 {
					out = append(out, &Stmt{K: Continue})
				} else {
					out = append(out, &Stmt{K: If, Cond: id(), Uses: uses(vis), Body: []*Stmt{{K: Break}}})
				}
			}
		}
		return out
	}
	body := list(depth, nil, false, true, false)
	return append(body, yield())
}

func dedupe(xs []int) []int {
	seen := map[int]bool{}
	var out []int
	for _, x := range xs {
		if !seen[x] {
			seen[x] = true
			out = append(out, x)
		}
	}
	return out
}
