package main

import (
	"bufio"
	"encoding/json"
	"flag"
	"fmt"
	"math/rand"
	"os"
	"path/filepath"

	"verif/harness/it"
)

func init() { commands["k3"] = k3 }

// k3: iterators vs native range (same process) and request lines for the Lean model.
// Writes cases.jsonl: {kind, input, impl, native, req}
func k3(args []string) {
	fs := flag.NewFlagSet("k3", flag.ExitOnError)
	out := fs.String("out", "", "")
	tier := fs.String("tier", "quick", "")
	seed := fs.Int64("seed", 1, "")
	fs.Parse(args)
	strLen, nRand, nSl, nMap := 3, 2000, 2000, 500
	alpha := it.Alphabet
	if *tier == "thorough" {
		strLen, nRand, nSl, nMap = 4, 50000, 30000, 5000
	}
	r := rand.New(rand.NewSource(*seed))
	f, _ := os.Create(filepath.Join(*out, "cases.jsonl"))
	w := bufio.NewWriter(f)
	defer func() { w.Flush(); f.Close() }()
	n := 0
	emit := func(kind, input, impl, native, req string) {
		b, _ := json.Marshal(map[string]string{"kind": kind, "input": input, "impl": impl, "native": native, "req": req})
		w.Write(b)
		w.WriteByte('\n')
		n++
	}
	bytesReq := func(s string) string {
		q := "(k3s ("
		for i := 0; i < len(s); i++ {
			if i > 0 {
				q += " "
			}
			q += fmt.Sprint(s[i])
		}
		return q + "))"
	}
	strs := it.AllStrings(strLen, alpha)
	nExh := len(strs)
	strs = append(strs, it.RandomStrings(r, nRand, 12)...)
	for _, s := range strs {
		emit("string", fmt.Sprintf("%q", s), it.StrImpl(s), it.StrNative(s), bytesReq(s))
	}
	for i := -3; i <= 12; i++ {
		emit("int", fmt.Sprint(i), it.IntImpl(i), it.IntNative(i), fmt.Sprintf("(k3i %d)", i+100))
	}
	for _, c := range it.IntTypedCases() {
		emit("int", c[0], c[1], c[2], "")
	}
	for _, c := range it.SliceCases(r, nSl) {
		emit("slice", c.String(), it.SliceImpl(c), it.SliceNative(c), sliceReq(c))
	}
	for _, c := range it.MapCases(r, nMap) {
		emit("map", c.String(), it.MapImpl(c), it.MapNative(c), "")
	}
	for i := 0; i < 6; i++ {
		emit("map", fmt.Sprintf("typed n=%d", i), it.MapTypedImpl(i), it.MapTypedNative(i), "")
	}
	for _, c := range it.ChanLazyCases() {
		emit("chan", c[0], c[1], c[2], "")
	}
	for _, c := range it.MapNaNCases() {
		emit("map", c[0], c[1], c[2], "")
	}
	emit("map", "nil map", it.MapNilImpl(), "0", "")
	for _, c := range it.MapInsertCases() {
		emit("map", c[0], c[1], c[2], "")
	}
	for _, c := range it.ChanNilCases() {
		emit("chan", c[0], c[1], c[2], "")
	}
	for i := 0; i < 6; i++ {
		var vals []int
		for j := 0; j < i; j++ {
			vals = append(vals, r.Intn(100))
		}
		emit("chan", fmt.Sprintf("buffered %v", vals), it.ChanImpl(vals, true), it.ChanNative(vals, true), "")
		emit("chan", fmt.Sprintf("unbuffered %v", vals), it.ChanImpl(vals, false), it.ChanNative(vals, false), "")
	}
	st, _ := json.Marshal(map[string]any{"cases": n, "strings_exhaustive": nExh, "string_max_len": strLen, "alphabet": len(alpha)})
	os.WriteFile(filepath.Join(*out, "stats.json"), st, 0o644)
}

func sliceReq(c it.SliceCase) string {
	q := "(k3sl ("
	for i, v := range c.Init {
		if i > 0 {
			q += " "
		}
		q += fmt.Sprint(v)
	}
	q += fmt.Sprintf(") %d (", c.Cap)
	for i, o := range c.Ops {
		if i > 0 {
			q += " "
		}
		q += fmt.Sprintf("(%s %d %d %d)", o.Kind, o.At, o.K, o.V)
	}
	return q + "))"
}
