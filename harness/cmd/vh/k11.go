package main

// K11: the optimiser's decision on eta-reducible-looking user closures, read back from the real compiler's
// output for one closure per shape (kind of callee x argument pattern x type relation), compared with the
// Lean decision `etaOK` (GoCo/Compile/EtaDecision.lean) whose soundness and necessity are theorems.

import (
	"encoding/json"
	"flag"
	"fmt"
	"go/ast"
	"go/parser"
	"go/token"
	"os"
	"os/exec"
	"path/filepath"
	"strings"

	"verif/harness/scratchfs"
)

func init() { commands["k11"] = k11 }

type k11Shape struct {
	Name string `json:"name"` // variable the closure is assigned to
	Req  string `json:"req"`
	Code string `json:"code"`
	Impl string `json:"impl"` // reduced | kept | missing
}

const k11Src = `package k11

import (
	"slices"
	"strconv"
	"strings"

	"github.com/goghcrow/go-co"
)

type box struct{ f func(int) int }
type num struct{ k int }

func (n num) Get(x int) int { return n.k + x }
func mk() num                { return num{1} }

type tally struct{ n int }

func (t *tally) Bump() int     { t.n++; return t.n }
func (t tally) Val() int       { return t.n }
func (t *tally) Add(k int) int { t.n += k; return t.n }

func id[T any](x T) T        { return x }
func conv[A, B any](b B) A   { var a A; _ = b; return a }
func dbl(x int) int          { return 2 * x }
func sub(a, b int) int       { return a - b }
func neg(a int) int          { return -a }
func zero() int              { return 0 }
func cnt(xs ...any) int      { return len(xs) }
func sum(xs ...int) int      { return len(xs) }
func pick() func(int) int    { return dbl }
func open() co.Iter[int]     { return Gen([]int{1}) }

var tbl = []func(int) int{dbl}

func Shapes(n int) int {
	g := dbl
	fs := box{f: dbl}
	u := num{2}
	it := open()
	hold := struct{ it co.Iter[int] }{open()}
%s
	xs := []int{n}
	return %s
}

// closures that are the function of a deferred call: recover() works only in the deferred function itself
var Swallowed int

func rescue() int {
	if r := recover(); r != nil {
		Swallowed++
	}
	return 0
}

func rescueArg(k int) int { return k + rescue() }

func runDeferred(n int) {
	defer func() int { return rescue() }()
	if n < 0 {
		panic("negative")
	}
}

func runDeferredArg(n int) {
	defer func(k int) int { return rescueArg(k) }(n)
	if n < 0 {
		panic("negative")
	}
}

func quiet() {
	if r := recover(); r != nil {
		Swallowed++
	}
}

// the statement form is no eta redex at all: nothing is returned
func runDeferredStmt(n int) {
	defer func() { quiet() }()
	if n < 0 {
		panic("negative")
	}
}

func runDeferredParen(n int) {
	defer (func() int { return rescue() })()
	if n < 0 {
		panic("negative")
	}
}

// the closure reaches the defer statement through a variable: the optimiser reduces it (open finding D25)
func viaVariable(n int) {
	h := func() int { return rescue() }
	defer h()
	if n < 0 {
		panic("negative")
	}
}

func later(f func() int, n int) {
	defer f()
	if n < 0 {
		panic("negative")
	}
}

func viaParameter(n int) { later(func() int { return rescue() }, n) }

func ProbeFindings() string {
	Swallowed = 0
	return try(viaVariable, 1) + " " + try(viaVariable, -1) + " " + try(viaParameter, 1) + " " + try(viaParameter, -1) + " swallowed=" + strconv.Itoa(Swallowed)
}

func try(run func(int), n int) (res string) {
	defer func() {
		if r := recover(); r != nil {
			res = "panic"
		}
	}()
	run(n)
	return "ok"
}

func Probe() string {
	return try(runDeferred, 1) + " " + try(runDeferred, -1) + " " + try(runDeferredArg, 1) + " " + try(runDeferredArg, -1) + " " + try(runDeferredStmt, 1) + " " + try(runDeferredStmt, -1) + " " + try(runDeferredParen, 1) + " " + try(runDeferredParen, -1) + " swallowed=" + strconv.Itoa(Swallowed)
}

// a generator: the file is processed, and its lowered range loop tests the generated iterator variable
func Gen(xs []int) co.Iter[int] {
	for _, x := range xs {
		co.Yield(x)
	}
	return nil
}
`

func k11(args []string) {
	fs := flag.NewFlagSet("k11", flag.ExitOnError)
	dir := fs.String("dir", "", "")
	repo := fs.String("repo", "/repo", "")
	fs.Parse(args)
	mod := filepath.Join(*dir, "mod")
	os.RemoveAll(mod)
	os.MkdirAll(mod, 0o755)
	scratchfs.Materialise(mod, *repo)
	gm, _ := os.ReadFile(filepath.Join(mod, "go.mod"))
	os.WriteFile(filepath.Join(mod, "go.mod"), []byte(strings.Replace(string(gm), "go 1.19", "go 1.22", 1)), 0o644)

	shapes := []k11Shape{
		{Req: "(k11 declared same sametype)", Code: "func(x int) int { return dbl(x) }"},
		{Req: "(k11 declared-generic same sametype)", Code: "func(x int) int { return id(x) }"},
		{Req: "(k11 declared-generic-inst same sametype)", Code: "func(x int) int { return id[int](x) }"},
		{Req: "(k11 pkgfunc same sametype)", Code: "func(s string) string { return strings.ToUpper(s) }"},
		{Req: "(k11 pkgfunc-generic same sametype)", Code: "func(ys []int) int { return slices.Max(ys) }"},
		{Req: "(k11 pkgfunc-generic-partial same sametype)", Code: "func(ys []int) int { return slices.Max[[]int](ys) }"},
		{Req: "(k11 pkgfunc-generic-inst same sametype)", Code: "func(ys []int) int { return slices.Max[[]int, int](ys) }"},
		{Req: "(k11 declared-generic-partial same sametype)", Code: "func(x int) string { return conv[string](x) }"},
		{Req: "(k11 declared-generic-inst same sametype)", Code: "func(x int) string { return conv[string, int](x) }"},
		{Req: "(k11 localvar same sametype)", Code: "func(x int) int { return g(x) }"},
		{Req: "(k11 field same sametype)", Code: "func(x int) int { return fs.f(x) }"},
		{Req: "(k11 method-uservar same sametype)", Code: "func(x int) int { return u.Get(x) }"},
		{Req: "(k11 method-expr same sametype)", Code: "func(x int) int { return mk().Get(x) }"},
		{Req: "(k11 conversion same sametype)", Code: "func(x int) int64 { return int64(x) }"},
		{Req: "(k11 builtin same sametype)", Code: "func(ys []int) int { return len(ys) }"},
		{Req: "(k11 indexed same sametype)", Code: "func(x int) int { return tbl[0](x) }"},
		{Req: "(k11 callresult same sametype)", Code: "func(x int) int { return pick()(x) }"},
		{Req: "(k11 declared permuted sametype)", Code: "func(a, b int) int { return sub(b, a) }"},
		{Req: "(k11 declared duplicated sametype)", Code: "func(a, b int) int { return sub(a, a) }"},
		{Req: "(k11 declared nonident sametype)", Code: "func(a, b int) int { return sub(a, 1) }"},
		{Req: "(k11 declared fewer sametype)", Code: "func(a, b int) int { return neg(a) }"},
		{Req: "(k11 declared same othertype)", Code: "func(x int) any { return dbl(x) }"},
		{Req: "(k11 declared same sametype)", Code: "func(a, b int) int { return sub(a, b) }"},
		// no parameters, yet not the callee's type: the result type, variadicity
		{Req: "(k11 declared same othertype)", Code: "func() any { return zero() }"},
		{Req: "(k11 declared same othertype)", Code: "func() int { return sum() }"},
		{Req: "(k11 declared same sametype)", Code: "func() int { return zero() }"},
		// a variadic closure: spread call or the slice as one argument (the types agree in both)
		{Req: "(k11 declared same sametype)", Code: "func(xs ...any) int { return cnt(xs...) }"},
		{Req: "(k11 declared nonident sametype)", Code: "func(xs ...any) int { return cnt(xs) }"},
		// the closure's first parameter is the receiver: no eta redex (T.M / (*T).M would be another function)
		{Req: "(k11 method-uservar fewer sametype)", Code: "func(x tally) int { return x.Bump() }"},
		{Req: "(k11 method-uservar fewer sametype)", Code: "func(x tally) int { return x.Val() }"},
		{Req: "(k11 method-uservar fewer sametype)", Code: "func(p *tally) int { return p.Bump() }"},
		{Req: "(k11 method-uservar fewer sametype)", Code: "func(p *tally, k int) int { return p.Add(k) }"},
		// receivers of the iterator type that are not generated variables
		{Req: "(k11 method-expr same sametype)", Code: "func() bool { return open().MoveNext() }"},
		{Req: "(k11 method-uservar same sametype)", Code: "func() bool { return it.MoveNext() }"},
		{Req: "(k11 method-uservar same sametype)", Code: "func() int { return hold.it.Current() }"},
	}
	var decl, use []string
	for i := range shapes {
		shapes[i].Name = fmt.Sprintf("c%d", i)
		decl = append(decl, fmt.Sprintf("\t%s := %s", shapes[i].Name, shapes[i].Code))
		use = append(use, "len(fmt("+shapes[i].Name+"))")
	}
	src := fmt.Sprintf(k11Src, strings.Join(decl, "\n"), strings.Join(use, " + ")+" + len(xs)")
	src = strings.Replace(src, "func pick()", "func fmt(v any) string { return \"x\" }\nfunc pick()", 1)

	srcDir := filepath.Join(mod, "src", "k11")
	dstDir := filepath.Join(mod, "out", "k11")
	os.MkdirAll(srcDir, 0o755)
	os.WriteFile(filepath.Join(srcDir, "gen.go"), []byte(src), 0o644)
	self, _ := os.Executable()
	cmd := exec.Command(self, "compile-one", "-src", srcDir, "-dst", dstDir)
	cmd.Dir = mod
	out, err := cmd.CombinedOutput()
	res := map[string]any{}
	if err != nil {
		res["error"] = "compile failed: " + tail(string(out), 600)
	} else {
		gen, _ := os.ReadFile(filepath.Join(dstDir, "gen.go"))
		fset := token.NewFileSet()
		f, perr := parser.ParseFile(fset, "gen.go", gen, 0)
		if perr != nil {
			res["error"] = perr.Error()
		} else {
			got := map[string]string{}
			ast.Inspect(f, func(n ast.Node) bool {
				as, ok := n.(*ast.AssignStmt)
				if !ok || len(as.Lhs) != 1 || len(as.Rhs) != 1 {
					return true
				}
				id, ok := as.Lhs[0].(*ast.Ident)
				if !ok {
					return true
				}
				if _, isLit := as.Rhs[0].(*ast.FuncLit); isLit {
					got[id.Name] = "kept"
				} else {
					got[id.Name] = "reduced"
				}
				return true
			})
			for i := range shapes {
				shapes[i].Impl = got[shapes[i].Name]
				if shapes[i].Impl == "" {
					shapes[i].Impl = "missing"
				}
			}
			// the condition of the lowered range loop in Gen: a method of a generated iterator variable
			iterShape := k11Shape{Name: "Gen:cond", Req: "(k11 method-itervar same sametype)", Code: "func() bool { return ɪʇ1.MoveNext() }", Impl: "kept"}
			if strings.Contains(string(gen), ".MoveNext,") || strings.Contains(string(gen), ".MoveNext)") {
				iterShape.Impl = "reduced"
			}
			shapes = append(shapes, iterShape)
			// the function literals of the deferred calls in runDeferred / runDeferredArg
			for _, d := range f.Decls {
				fd, ok := d.(*ast.FuncDecl)
				if !ok || !strings.HasPrefix(fd.Name.Name, "runDeferred") {
					continue
				}
				sh := k11Shape{Name: "defer:" + fd.Name.Name, Req: "(k11 declared same sametype deferred)", Impl: "missing"}
				ast.Inspect(fd, func(n ast.Node) bool {
					if ds, ok := n.(*ast.DeferStmt); ok {
						sh.Impl = "reduced"
						fun := ds.Call.Fun
						for {
							p, ok := fun.(*ast.ParenExpr)
							if !ok {
								break
							}
							fun = p.X
						}
						if _, isLit := fun.(*ast.FuncLit); isLit {
							sh.Impl = "kept"
						}
					}
					return true
				})
				sh.Code = map[string]string{"runDeferred": "defer func() int { return rescue() }()", "runDeferredArg": "defer func(k int) int { return rescueArg(k) }(n)", "runDeferredStmt": "defer func() { quiet() }()", "runDeferredParen": "defer (func() int { return rescue() })()"}[fd.Name.Name]
				shapes = append(shapes, sh)
			}
		}
		b := exec.Command("go", "build", "./out/k11")
		b.Dir = mod
		if bo, berr := b.CombinedOutput(); berr != nil {
			res["build"] = tail(string(bo), 600)
		} else {
			// run the plain functions of the file from the source package and from the generated package; inlining
			// is switched off for the module's packages: with it the toolchain merges a result-returning deferred
			// closure into the wrapper it generates for the defer statement, which hides the frame recover() looks at
			run := map[string]string{}
			for _, v := range [][2]string{{"src", "scratch/src/k11"}, {"gen", "scratch/out/k11"}} {
				d := filepath.Join(mod, "run_"+v[0])
				os.MkdirAll(d, 0o755)
				os.WriteFile(filepath.Join(d, "main.go"), []byte("package main\n\nimport (\n\tp \""+v[1]+"\"\n)\n\nfunc main() { println(p.Probe()); println(\"findings: \" + p.ProbeFindings()) }\n"), 0o644)
				for _, fl := range [][2]string{{"noinline", "-gcflags=scratch/...=-l"}, {"default", "-gcflags=scratch/...="}} {
					r := exec.Command("go", "run", fl[1], "./run_"+v[0])
					r.Dir = mod
					ro, _ := r.CombinedOutput()
					var main, findings []string
					for _, ln := range strings.Split(strings.TrimSpace(string(ro)), "\n") {
						if strings.HasPrefix(ln, "findings: ") {
							findings = append(findings, strings.TrimPrefix(ln, "findings: "))
						} else {
							main = append(main, ln)
						}
					}
					run[v[0]+":"+fl[0]] = tail(strings.Join(main, " | "), 300)
					run[v[0]+":"+fl[0]+":findings"] = tail(strings.Join(findings, " | "), 300)
				}
			}
			res["run"] = run
		}
	}
	res["shapes"] = shapes
	j, _ := json.MarshalIndent(res, "", " ")
	os.WriteFile(filepath.Join(*dir, "k11.json"), j, 0o644)
	os.RemoveAll(mod)
}
