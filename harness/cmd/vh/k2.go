package main

import (
	"bufio"
	"flag"
	"fmt"
	"os"
	"path/filepath"
	"strings"

	"verif/harness/rt"
	"verif/harness/sexp"
)

func init() {
	commands["k2"] = k2
	commands["k2-replay"] = k2Replay
}

func hasLoop(t *rt.CTerm) bool {
	if t == nil {
		return false
	}
	return t.K == rt.KLoop || hasLoop(t.A) || hasLoop(t.B)
}

// k2: stack-depth profile of the real runtime at every callback, for terms containing loops
func k2(args []string) {
	fs := flag.NewFlagSet("k2", flag.ExitOnError)
	out := fs.String("out", "", "")
	tier := fs.String("tier", "quick", "")
	seed := fs.Int64("seed", 1, "")
	fs.Parse(args)
	maxSize, nRandom, ops := 4, 1500, 8
	if *tier == "thorough" {
		maxSize, nRandom, ops = 5, 15000, 12
	}
	req, _ := os.Create(filepath.Join(*out, "req.txt"))
	gof, _ := os.Create(filepath.Join(*out, "go.txt"))
	rw, gw := bufio.NewWriter(req), bufio.NewWriter(gof)
	defer func() { rw.Flush(); gw.Flush(); req.Close(); gof.Close() }()
	n := 0
	emit := func(t *rt.CTerm) {
		if !hasLoop(t) {
			return
		}
		fmt.Fprintf(rw, "(k2d %s %d)\n", t.Sexp(), ops)
		fmt.Fprintln(gw, rt.RunDepth(t, ops))
		n++
		if n%4 == 0 {
			// the same profile when the consumer advances with Send(0)
			// (five times as many advances: frames piling up from advance to advance show as DRIFT)
			fmt.Fprintf(rw, "(k2d %s %d)\n", t.Sexp(), 5*ops)
			fmt.Fprintln(gw, rt.RunDepthBy(t, 5*ops, true))
		}
	}
	for _, t := range rt.Exhaustive(maxSize, 2, *seed, false) {
		emit(t)
	}
	for _, t := range rt.Random(nRandom, 4, 16, *seed+3, false) {
		emit(t)
	}
	os.WriteFile(filepath.Join(*out, "stats.json"), []byte(fmt.Sprintf(`{"terms": %d, "advances_per_term": %d}`, n, ops)), 0o644)
}

func k2Replay(args []string) {
	line := strings.Join(args, " ")
	n, err := sexp.Parse(line)
	if err != nil || n.Head() != "k2d" {
		fmt.Fprintln(os.Stderr, "not a k2d request")
		os.Exit(2)
	}
	t, err := rt.ParseCTerm(n.Arg(0))
	if err != nil {
		fmt.Fprintln(os.Stderr, err)
		os.Exit(2)
	}
	ops := 8
	fmt.Sscan(n.Arg(1).Atom, &ops)
	fmt.Println(rt.RunDepth(t, ops))
}

func init() { commands["k2-growth"] = k2Growth }

// k2-growth: depth of the condition callback at iteration 1 and at iteration n of loops that never yield
// (finding D5 witness), for several loop shapes. Prints "first=<d1> last=<dn> per_iteration=<x>" for the
// shape that grows most, and the per-shape figures after it.
func k2Growth(args []string) {
	n := 1000
	if len(args) > 0 {
		fmt.Sscan(args[0], &n)
	}
	cond := func(id int) *rt.Cond {
		return &rt.Cond{Sc: rt.Script{ID: id, Acts: []rt.Act{{K: rt.AInc, J: 2}}}, J: 2, N: n}
	}
	normal := &rt.CTerm{K: rt.KNormal}
	delayN := &rt.CTerm{K: rt.KDelay, Th: rt.Script{ID: 2}, A: normal}
	shapes := []struct {
		name string
		t    *rt.CTerm
	}{
		{"while-delay", &rt.CTerm{K: rt.KLoop, C: cond(1), A: delayN}},
		{"while-continue", &rt.CTerm{K: rt.KLoop, C: cond(1), A: &rt.CTerm{K: rt.KCont}}},
		{"for-post", &rt.CTerm{K: rt.KLoop, C: cond(1), P: &rt.Script{ID: 3}, A: delayN}},
		{"combine-body", &rt.CTerm{K: rt.KLoop, C: cond(1), A: &rt.CTerm{K: rt.KCombine, A: delayN, B: delayN}}},
		{"nested-inner-spins", &rt.CTerm{K: rt.KLoop, C: &rt.Cond{Sc: rt.Script{ID: 4, Acts: []rt.Act{{K: rt.AInc, J: 3}}}, J: 3, N: 3},
			A: &rt.CTerm{K: rt.KLoop, C: cond(1), A: delayN}}},
		// an endless loop (no condition, no post) that yields in its first iteration and then spins: the
		// iteration test is the condition of an ite, the exit a break
		{"endless-after-yield-inside", &rt.CTerm{K: rt.KLoop, A: &rt.CTerm{K: rt.KIte, C: cond(1),
			A: &rt.CTerm{K: rt.KIte, C: &rt.Cond{Sc: rt.Script{ID: 6}, J: 3, N: 1},
				A: &rt.CTerm{K: rt.KBind, V: rt.VE{K: rt.VConst, N: 1}, Th: rt.Script{ID: 7, Acts: []rt.Act{{K: rt.ASet, J: 3, N: 1}}}, A: normal},
				B: &rt.CTerm{K: rt.KCont}},
			B: &rt.CTerm{K: rt.KBrk}}}},
		{"after-yield", &rt.CTerm{K: rt.KBind, V: rt.VE{K: rt.VConst, N: 1}, Th: rt.Script{ID: 5}, A: &rt.CTerm{K: rt.KLoop, C: cond(1), A: delayN}}},
	}
	worst, wf, wl := -1.0, 0, 0
	var per []string
	for _, sh := range shapes {
		first, last := rt.CondDepthsN(sh.t, 1, 2)
		g := float64(last-first) / float64(n-1)
		per = append(per, fmt.Sprintf("%s=%.2f", sh.name, g))
		if g > worst {
			worst, wf, wl = g, first, last
		}
	}
	fmt.Printf("first=%d last=%d per_iteration=%.2f [%s]\n", wf, wl, worst, strings.Join(per, " "))
}
