package main

import (
	"bufio"
	"encoding/json"
	"flag"
	"fmt"
	"os"
	"os/exec"
	"path/filepath"
	"strings"
	"sync"

	"verif/harness/scratchfs"
	"verif/harness/tb"
)

func init() { commands["tbrun"] = tbrun }

type tbResult struct {
	Name    string    `json:"name"`
	Props   []string  `json:"props"`
	Finding string    `json:"finding,omitempty"`
	Reject  bool      `json:"may_reject,omitempty"`
	Status  string    `json:"status"` // ok | panic | build | run | render
	Msg     string    `json:"msg,omitempty"`
	Drives  []tbDrive `json:"drives,omitempty"`
}

type tbDrive struct {
	Call string `json:"call"`
	C    string `json:"c"` // compiled (final)
	T    string `json:"t"` // intermediate
	R    string `json:"r"` // reference
}

type tbInst struct {
	t      tb.Template
	prefix string
}

// render one package from instances; returns co source, ref source, main source
func tbRender(pkg string, insts []tbInst, fuel, pulls int) (co, ref, main string, errs []string) {
	co, ref, main, _, errs = tbRenderAll(pkg, insts, fuel, pulls)
	return
}

// tbRenderAll: as tbRender, plus the sibling files (name -> content) of templates that have one
func tbRenderAll(pkg string, insts []tbInst, fuel, pulls int) (co, ref, main string, sibs map[string]string, errs []string) {
	var cb, rb, mb strings.Builder
	sibs = map[string]string{}
	// extra imports of the templates of this package (Template.Imports: `"a"; "b"`), each once, with a blank use
	extra, seenImp := "", map[string]bool{}
	for _, in := range insts {
		for _, imp := range strings.Split(in.t.Imports, ";") {
			imp = strings.TrimSpace(imp)
			if imp != "" && !seenImp[imp] {
				seenImp[imp] = true
				extra += "\t" + imp + "\n"
			}
		}
	}
	fmt.Fprintf(&cb, "package %s\n\nimport (\n\t\"scratch/vm\"\n\t\"github.com/goghcrow/go-co\"\n%s)\n\nvar _ = vm.E\n", pkg, extra)
	fmt.Fprintf(&rb, "package %sref\n\nimport (\n\t\"scratch/vm\"\n%s)\n\nvar _ = vm.E\n", pkg, extra)
	fmt.Fprintf(&mb, "package main\n\nimport (\n\t\"fmt\"\n\t\"strings\"\n\t\"scratch/vm\"\n\tout \"scratch/out/%s\"\n\ttmp \"scratch/tmp/%s\"\n\tref \"scratch/ref/%s\"\n)\n\nvar _ = strings.Join\n\nfunc main() {\n", pkg, pkg, pkg)
	for _, in := range insts {
		c, e1 := tb.Render(in.t.Src, in.prefix, false, "co")
		r, e2 := tb.Render(in.t.Src, in.prefix, true, "co")
		errs = append(errs, e1...)
		errs = append(errs, e2...)
		cb.WriteString(c)
		cb.WriteString("\n")
		rb.WriteString(r)
		rb.WriteString("\n")
		if in.t.Sibling != "" {
			sc, e3 := tb.Render(in.t.Sibling, in.prefix, false, "co")
			sr, e4 := tb.Render(in.t.Sibling, in.prefix, true, "co")
			errs = append(errs, e3...)
			errs = append(errs, e4...)
			sibs["sib_"+in.prefix+".go"] = "package " + pkg + "\n\nimport \"scratch/vm\"\n\nvar _ = vm.E\n" + sc
			rb.WriteString(sr)
			rb.WriteString("\n")
		}
		for di, d := range in.t.Drives {
			call := strings.ReplaceAll(d.Call, "@", in.prefix)
			for _, w := range []struct{ tag, pkg string }{{"C", "out"}, {"T", "tmp"}} {
				args := strings.ReplaceAll(strings.ReplaceAll(d.Args, "PKG.", w.pkg+"."), "@", w.pkg+"."+in.prefix)
				if d.Kind == "gen" {
					fmt.Fprintf(&mb, "\tfmt.Println(\"%s %s %d\", strings.Join(vm.DrainT[%s](func() vm.PullerOf[%s] { return %s.%s(%s) }, %d, %d), \" \"))\n",
						w.tag, in.t.Name, di, d.T, d.T, w.pkg, call, args, pulls, fuel)
				} else {
					fmt.Fprintf(&mb, "\tfmt.Println(\"%s %s %d\", strings.Join(vm.CallT[%s](func() %s { return %s.%s(%s) }, %d), \" \"))\n",
						w.tag, in.t.Name, di, d.T, d.T, w.pkg, call, args, fuel)
				}
			}
			args := strings.ReplaceAll(strings.ReplaceAll(d.Args, "PKG.", "ref."), "@", "ref."+in.prefix)
			if d.Kind == "gen" {
				a := "y"
				if args != "" {
					a += ", " + args
				}
				fmt.Fprintf(&mb, "\tfmt.Println(\"R %s %d\", strings.Join(vm.DrainT[%s](func() vm.PullerOf[%s] { return vm.StartRefT[%s](func(y *vm.YT[%s]) { ref.%s(%s) }) }, %d, %d), \" \"))\n",
					in.t.Name, di, d.T, d.T, d.T, d.T, call, a, pulls, fuel)
			} else {
				fmt.Fprintf(&mb, "\tfmt.Println(\"R %s %d\", strings.Join(vm.CallT[%s](func() %s { return ref.%s(%s) }, %d), \" \"))\n",
					in.t.Name, di, d.T, d.T, call, args, fuel)
			}
		}
	}
	mb.WriteString("}\n")
	return cb.String(), rb.String(), mb.String(), sibs, errs
}

// tbrun: compile, build and run the template programs; writes tb.jsonl
func tbrun(args []string) {
	fs := flag.NewFlagSet("tbrun", flag.ExitOnError)
	dir := fs.String("dir", "", "")
	repo := fs.String("repo", "/repo", "")
	fs.Parse(args)
	mod := filepath.Join(*dir, "mod")
	os.RemoveAll(mod)
	os.MkdirAll(filepath.Join(mod, "tmp"), 0o755)
	if err := scratchfs.Materialise(mod, *repo); err != nil {
		fmt.Fprintln(os.Stderr, err)
		os.Exit(2)
	}
	// go 1.22: range over int
	gm, _ := os.ReadFile(filepath.Join(mod, "go.mod"))
	os.WriteFile(filepath.Join(mod, "go.mod"), []byte(strings.Replace(string(gm), "go 1.19", "go 1.22", 1)), 0o644)

	self, _ := os.Executable()
	var mu sync.Mutex
	var results []tbResult
	const fuel, pulls = 3000, 40

	var runPkg func(pkg string, insts []tbInst)
	runPkg = func(pkg string, insts []tbInst) {
		co, ref, main, sibs, errs := tbRenderAll(pkg, insts, fuel, pulls)
		fail := func(status, msg string) {
			if len(insts) > 1 {
				// bisect: halve the package until the failing templates stand alone
				h := len(insts) / 2
				runPkg(pkg+"a", insts[:h])
				runPkg(pkg+"b", insts[h:])
				return
			}
			mu.Lock()
			results = append(results, tbResult{Name: insts[0].t.Name, Props: insts[0].t.Props, Finding: insts[0].t.Finding,
				Reject: insts[0].t.MayReject, Status: status, Msg: msg})
			mu.Unlock()
		}
		if len(errs) > 0 {
			fail("render", strings.Join(errs, "; "))
			return
		}
		src := filepath.Join(mod, "src", pkg)
		dst := filepath.Join(mod, "out", pkg)
		keep := filepath.Join(mod, "tmp", pkg)
		os.MkdirAll(src, 0o755)
		os.WriteFile(filepath.Join(src, "gen.go"), []byte(co), 0o644)
		for name, content := range sibs {
			os.WriteFile(filepath.Join(src, name), []byte(content), 0o644)
		}
		cmd := exec.Command(self, "compile-one", "-src", src, "-dst", dst)
		cmd.Dir = mod
		cmd.Env = append(os.Environ(), "VERIF_KEEP_TMP="+keep)
		outb, err := cmd.CombinedOutput()
		if err != nil {
			msg := lastLineWith(string(outb), "PANIC ")
			if msg == "" {
				msg = "CRASH " + tail(string(outb), 400)
			}
			fail("panic", msg)
			return
		}
		// keep the co import of the intermediate output used
		if tsrc, err := os.ReadFile(filepath.Join(keep, "gen.go")); err == nil {
			os.WriteFile(filepath.Join(keep, "gen.go"), append(tsrc, []byte("\nvar _ co.Iter[int]\n")...), 0o644)
		}
		os.MkdirAll(filepath.Join(mod, "ref", pkg), 0o755)
		os.WriteFile(filepath.Join(mod, "ref", pkg, "ref.go"), []byte(ref), 0o644)
		os.MkdirAll(filepath.Join(mod, "cmd", pkg), 0o755)
		os.WriteFile(filepath.Join(mod, "cmd", pkg, "main.go"), []byte(main), 0o644)
		bin := filepath.Join(mod, "bin", pkg)
		os.MkdirAll(filepath.Dir(bin), 0o755)
		b := exec.Command("go", "build", "-o", bin, "./cmd/"+pkg)
		b.Dir = mod
		if outb, err := b.CombinedOutput(); err != nil {
			fail("build", tail(string(outb), 1200))
			return
		}
		r := exec.Command("timeout", "120", bin)
		r.Dir = mod
		outb, err = r.CombinedOutput()
		if err != nil {
			fail("run", tail(string(outb), 800))
			return
		}
		traces := map[string]string{}
		for _, l := range strings.Split(string(outb), "\n") {
			p := strings.SplitN(l, " ", 4)
			if len(p) >= 3 {
				v := ""
				if len(p) == 4 {
					v = p[3]
				}
				traces[p[0]+" "+p[1]+" "+p[2]] = v
			}
		}
		mu.Lock()
		for _, in := range insts {
			res := tbResult{Name: in.t.Name, Props: in.t.Props, Finding: in.t.Finding, Reject: in.t.MayReject, Status: "ok"}
			for di, d := range in.t.Drives {
				k := fmt.Sprintf("%s %d", in.t.Name, di)
				res.Drives = append(res.Drives, tbDrive{Call: d.Call + "(" + d.Args + ")", C: traces["C "+k], T: traces["T "+k], R: traces["R "+k]})
			}
			results = append(results, res)
		}
		mu.Unlock()
		os.Remove(bin)
	}

	var normal []tbInst
	var isolated []tbInst
	n := 0
	for _, t := range append(append([]tb.Template(nil), tb.Templates...), tb.CrossTemplates()...) {
		n++
		in := tbInst{t, fmt.Sprintf("T%d_", n)}
		if t.MayReject {
			isolated = append(isolated, in)
		} else {
			normal = append(normal, in)
		}
	}
	for _, t := range tb.Findings {
		n++
		isolated = append(isolated, tbInst{t, fmt.Sprintf("T%d_", n)})
	}
	var wg sync.WaitGroup
	sem := make(chan struct{}, 10)
	wg.Add(1)
	go func() { defer wg.Done(); sem <- struct{}{}; runPkg("tbn", normal); <-sem }()
	for i, in := range isolated {
		wg.Add(1)
		go func(i int, in tbInst) {
			defer wg.Done()
			sem <- struct{}{}
			runPkg(fmt.Sprintf("tbi%d", i), []tbInst{in})
			<-sem
		}(i, in)
	}
	wg.Wait()
	f, _ := os.Create(filepath.Join(*dir, "tb.jsonl"))
	w := bufio.NewWriter(f)
	for _, r := range results {
		b, _ := json.Marshal(r)
		w.Write(b)
		w.WriteByte('\n')
	}
	w.Flush()
	f.Close()
}
