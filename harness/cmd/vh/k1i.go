package main

import (
	"encoding/json"
	"flag"
	"fmt"
	"math/rand"
	"os"
	"path/filepath"
	"strings"

	"github.com/goghcrow/go-co/seq"

	"verif/harness/rt"
)

func init() { commands["k1i"] = k1i }

type live struct {
	st  *rt.Store
	gen seq.Generator[int]
	obs []string
}

func startLive(t *rt.CTerm) *live {
	st := &rt.Store{}
	return &live{st: st, gen: seq.Start[int](rt.Build(t, st)).(seq.Generator[int])}
}

func (l *live) step() {
	before := len(l.st.Log)
	r := func() (s string) {
		defer func() {
			if p := recover(); p != nil {
				s = fmt.Sprintf("PANIC(%v)", p)
			}
		}()
		ok := l.gen.MoveNext()
		return fmt.Sprintf("%v:%d", ok, l.gen.Current())
	}()
	l.obs = append(l.obs, fmt.Sprintf("%s[%s]", r, strings.Join(l.st.Log[before:], ",")))
}

// all interleavings of k sequences of m steps each
func schedules(k, m int) [][]int {
	var out [][]int
	left := make([]int, k)
	for i := range left {
		left[i] = m
	}
	var cur []int
	var rec func()
	rec = func() {
		done := true
		for i := 0; i < k; i++ {
			if left[i] > 0 {
				done = false
				left[i]--
				cur = append(cur, i)
				rec()
				cur = cur[:len(cur)-1]
				left[i]++
			}
		}
		if done {
			out = append(out, append([]int(nil), cur...))
		}
	}
	rec()
	return out
}

// k1i: iterators from the same and from different terms, advanced under every interleaving of k
// iterators with m steps each, each compared with the same iterator consumed alone.
func k1i(args []string) {
	fs := flag.NewFlagSet("k1i", flag.ExitOnError)
	out := fs.String("out", "", "")
	tier := fs.String("tier", "quick", "")
	seed := fs.Int64("seed", 1, "")
	fs.Parse(args)
	nTuples := 60
	if *tier == "thorough" {
		nTuples = 600
	}
	r := rand.New(rand.NewSource(*seed))
	pool := rt.Random(80, 3, 12, *seed+11, true)
	type dis struct {
		Terms    []string `json:"terms"`
		Schedule []int    `json:"schedule"`
		Which    int      `json:"which"`
		Alone    string   `json:"alone"`
		Mixed    string   `json:"mixed"`
	}
	var bad []dis
	runs := 0
	var samples []string
	for tup := 0; tup < nTuples; tup++ {
		k, m := 2, 3
		if tup%3 == 0 {
			k, m = 3, 2
		}
		ts := make([]*rt.CTerm, k)
		for i := range ts {
			ts[i] = pool[r.Intn(len(pool))]
		}
		if tup%4 == 0 {
			ts[1] = ts[0] // two iterators of the same term
		}
		alone := make([]string, k)
		for i, t := range ts {
			l := startLive(t)
			for j := 0; j < m; j++ {
				l.step()
			}
			alone[i] = strings.Join(l.obs, " ")
		}
		for _, sch := range schedules(k, m) {
			ls := make([]*live, k)
			for i, t := range ts {
				ls[i] = startLive(t)
			}
			for _, i := range sch {
				ls[i].step()
			}
			runs++
			for i := range ls {
				if got := strings.Join(ls[i].obs, " "); got != alone[i] {
					var names []string
					for _, t := range ts {
						names = append(names, t.String())
					}
					bad = append(bad, dis{names, sch, i, alone[i], got})
				}
			}
		}
		if len(samples) < 3 {
			samples = append(samples, fmt.Sprintf("%s alone: %s", ts[0], alone[0]))
		}
	}
	if len(bad) > 10 {
		bad = bad[:10]
	}
	b, _ := json.MarshalIndent(map[string]any{"tuples": nTuples, "interleaved_runs": runs, "disagreements": bad, "samples": samples}, "", " ")
	os.WriteFile(filepath.Join(*out, "k1i.json"), b, 0o644)
}
