package main

import (
	"encoding/json"
	"flag"
	"fmt"
	"math/rand"
	"os"
	"path/filepath"
	"strings"

	"github.com/goghcrow/go-co/seq"

	"verif/harness/rt"
)

func init() { commands["k1i"] = k1i }

type live struct {
	st  *rt.Store
	gen seq.Generator[int]
	obs []string
	// iterators started from ONE shared Seq value: the scripted callbacks close over `act`; the
	// iterator's own store is copied in before and out after each of its steps
	act *rt.Store
}

// startShared: k iterators from the same Seq VALUE (seq.Start called k times on one value)
func startShared(t *rt.CTerm, k int) []*live {
	act := &rt.Store{}
	val := rt.Build(t, act)
	ls := make([]*live, k)
	for i := range ls {
		ls[i] = &live{st: &rt.Store{}, act: act, gen: seq.Start[int](val).(seq.Generator[int])}
	}
	return ls
}

func startLive(t *rt.CTerm) *live {
	st := &rt.Store{}
	return &live{st: st, gen: seq.Start[int](rt.Build(t, st)).(seq.Generator[int])}
}

func (l *live) step() {
	if l.act != nil {
		*l.act = *l.st
		defer func() { *l.st = *l.act }()
	}
	st := l.st
	if l.act != nil {
		st = l.act
	}
	before := len(st.Log)
	defer func(l *live) {
		if l.act != nil {
			// the observation string is built below from l.act; nothing more to do
		}
	}(l)
	r := func() (s string) {
		done := false
		defer func() {
			if p := recover(); !done {
				if p == nil {
					s = "PANIC(nil)"
				} else {
					s = fmt.Sprintf("PANIC(%v)", p)
				}
			}
		}()
		ok := l.gen.MoveNext()
		s = fmt.Sprintf("%v:%d", ok, l.gen.Current())
		done = true
		return
	}()
	l.obs = append(l.obs, fmt.Sprintf("%s[%s]", r, strings.Join(st.Log[before:], ",")))
}

// all interleavings of k sequences of m steps each
func schedules(k, m int) [][]int {
	var out [][]int
	left := make([]int, k)
	for i := range left {
		left[i] = m
	}
	var cur []int
	var rec func()
	rec = func() {
		done := true
		for i := 0; i < k; i++ {
			if left[i] > 0 {
				done = false
				left[i]--
				cur = append(cur, i)
				rec()
				cur = cur[:len(cur)-1]
				left[i]++
			}
		}
		if done {
			out = append(out, append([]int(nil), cur...))
		}
	}
	rec()
	return out
}

// k1i: iterators from the same and from different terms, advanced under every interleaving of k
// iterators with m steps each, each compared with the same iterator consumed alone.
func k1i(args []string) {
	fs := flag.NewFlagSet("k1i", flag.ExitOnError)
	out := fs.String("out", "", "")
	tier := fs.String("tier", "quick", "")
	seed := fs.Int64("seed", 1, "")
	fs.Parse(args)
	nTuples := 60
	if *tier == "thorough" {
		nTuples = 600
	}
	r := rand.New(rand.NewSource(*seed))
	pool := rt.Random(80, 3, 12, *seed+11, true)
	type dis struct {
		Terms    []string `json:"terms"`
		Schedule []int    `json:"schedule"`
		Which    int      `json:"which"`
		Alone    string   `json:"alone"`
		Mixed    string   `json:"mixed"`
	}
	var bad []dis
	runs := 0
	var samples []string
	for tup := 0; tup < nTuples; tup++ {
		k, m := 2, 3
		if tup%3 == 0 {
			k, m = 3, 2
		}
		ts := make([]*rt.CTerm, k)
		for i := range ts {
			ts[i] = pool[r.Intn(len(pool))]
		}
		if tup%4 == 0 {
			ts[1] = ts[0] // two iterators of the same term
		}
		alone := make([]string, k)
		for i, t := range ts {
			l := startLive(t)
			for j := 0; j < m; j++ {
				l.step()
			}
			alone[i] = strings.Join(l.obs, " ")
		}
		for _, sch := range schedules(k, m) {
			ls := make([]*live, k)
			for i, t := range ts {
				ls[i] = startLive(t)
			}
			for _, i := range sch {
				ls[i].step()
			}
			runs++
			for i := range ls {
				if got := strings.Join(ls[i].obs, " "); got != alone[i] {
					var names []string
					for _, t := range ts {
						names = append(names, t.String())
					}
					bad = append(bad, dis{names, sch, i, alone[i], got})
				}
			}
		}
		// the same with all k iterators started from ONE Seq value (a generator function may build the
		// combinator once and hand it to Start for every call): each must still behave as when alone
		{
			t := ts[0]
			for _, sch := range schedules(k, m) {
				ls := startShared(t, k)
				for _, i := range sch {
					ls[i].step()
				}
				runs++
				for i := range ls {
					if got := strings.Join(ls[i].obs, " "); got != alone[0] {
						bad = append(bad, dis{[]string{t.String(), "(same Seq value started " + fmt.Sprint(k) + " times)"}, sch, i, alone[0], got})
					}
				}
			}
		}
		if len(samples) < 3 {
			samples = append(samples, fmt.Sprintf("%s alone: %s", ts[0], alone[0]))
		}
	}
	if len(bad) > 10 {
		bad = bad[:10]
	}
	b, _ := json.MarshalIndent(map[string]any{"tuples": nTuples, "interleaved_runs": runs, "disagreements": bad, "samples": samples}, "", " ")
	os.WriteFile(filepath.Join(*out, "k1i.json"), b, 0o644)
}
