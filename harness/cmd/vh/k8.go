package main

import (
	"encoding/json"
	"flag"
	"fmt"
	"os"
	"os/exec"
	"path/filepath"
	"sort"
	"strings"
	"time"

	"verif/harness/scratchfs"
	"verif/harness/tb"
)

func init() { commands["k8"] = k8 }

type k8Result struct {
	C13 []k8Case `json:"c13"`
	C15 []k8Case `json:"c15"`
	C16 []k8Case `json:"c16"`
}

type k8Case struct {
	Name   string `json:"name"`
	OK     bool   `json:"ok"`
	Detail string `json:"detail,omitempty"`
}

// coFile renders template instances as a plain co source file (package p)
func coFile(pkg string, tag string, names []string, prefix string) string {
	var b strings.Builder
	if tag != "" {
		fmt.Fprintf(&b, "//go:build %s\n\n", tag)
	}
	fmt.Fprintf(&b, "package %s\n\nimport (\n\t\"scratch/vm\"\n\t\"github.com/goghcrow/go-co\"\n)\n\nvar _ = vm.E\n", pkg)
	for i, n := range names {
		for _, t := range tb.Templates {
			if t.Name == n {
				src, _ := tb.Render(t.Src, fmt.Sprintf("%s%d_", prefix, i), false, "co")
				b.WriteString(src)
				b.WriteString("\n")
			}
		}
	}
	return b.String()
}

func mustWrite(path, content string) {
	os.MkdirAll(filepath.Dir(path), 0o755)
	os.WriteFile(path, []byte(content), 0o644)
}

func snapshot(root string) map[string]string {
	m := map[string]string{}
	filepath.Walk(root, func(p string, info os.FileInfo, err error) error {
		if err != nil || info.IsDir() {
			return nil
		}
		b, _ := os.ReadFile(p)
		rel, _ := filepath.Rel(root, p)
		m[rel] = string(b)
		return nil
	})
	return m
}

// k8: the driver (rewriter.Compile / cogen) on materialised file layouts.
//
//	C15: byte-identical output for a file regardless of runs, sibling files, other packages, stale outputs
//	C16: go:generate mode writes exactly the derived files, leaves nothing else, is idempotent; packages build
func k8(args []string) {
	fs := flag.NewFlagSet("k8", flag.ExitOnError)
	dir := fs.String("dir", "", "")
	repo := fs.String("repo", "/repo", "")
	fs.Parse(args)
	mod := filepath.Join(*dir, "mod")
	os.RemoveAll(mod)
	os.MkdirAll(mod, 0o755)
	scratchfs.Materialise(mod, *repo)
	gm, _ := os.ReadFile(filepath.Join(mod, "go.mod"))
	os.WriteFile(filepath.Join(mod, "go.mod"), []byte(strings.Replace(string(gm), "go 1.19", "go 1.22", 1)), 0o644)
	self, _ := os.Executable()
	var res k8Result

	compile := func(src, dst string) (string, error) {
		cmd := exec.Command(self, "compile-one", "-src", src, "-dst", dst)
		cmd.Dir = mod
		out, err := cmd.CombinedOutput()
		return string(out), err
	}

	// ---------------- C15 ----------------
	// the observed file b.go: nested and sequential ranges (generated iterator names), a yielding switch, YieldFrom
	obs := coFile("p", "", []string{"RangeExprOnce", "RangeSliceForms", "YieldFromChain", "RangeInClosure"}, "B")
	sibA := coFile("p", "", []string{"RangeSliceKV", "RangeStringBytes", "RangeBreakContinue"}, "A")
	sibC := coFile("p", "", []string{"ConsumerRange", "RangeMap"}, "C")
	other := coFile("q", "", []string{"RangeChan", "RangeInt"}, "Q")
	type layout struct {
		name  string
		files map[string]string // relative to src root
	}
	layouts := []layout{
		{"alone", map[string]string{"p/b.go": obs}},
		{"with-earlier-sibling", map[string]string{"p/a.go": sibA, "p/b.go": obs}},
		// an earlier file holding generator FUNCTION LITERALS (their source comments are collected per file)
		{"after-literal-sibling", map[string]string{"p/a_lit.go": litFile("p"), "p/b.go": obs}},
		{"after-literal-package", map[string]string{"a0/lit.go": litFile("a0"), "p/b.go": obs}},
		{"with-both-siblings", map[string]string{"p/a.go": sibA, "p/b.go": obs, "p/c.go": sibC}},
		{"with-other-package", map[string]string{"p/b.go": obs, "q/q.go": other}},
		{"with-everything", map[string]string{"p/a.go": sibA, "p/b.go": obs, "p/c.go": sibC, "q/q.go": other, "a0/z.go": strings.Replace(other, "package q", "package a0", 1)}},
	}
	var ref string
	for i, l := range layouts {
		src := filepath.Join(mod, "c15", l.name, "src")
		dst := filepath.Join(mod, "c15", l.name, "out")
		for rel, content := range l.files {
			mustWrite(filepath.Join(src, rel), content)
		}
		out, err := compile(src, dst)
		if err != nil {
			res.C15 = append(res.C15, k8Case{l.name, false, "compile failed: " + tail(out, 400)})
			continue
		}
		got, _ := os.ReadFile(filepath.Join(dst, "p", "b.go"))
		if i == 0 {
			ref = string(got)
			// twice into a fresh directory, and once more over the stale outputs of the first run
			dst2 := filepath.Join(mod, "c15", l.name, "out2")
			compile(src, dst2)
			again, _ := os.ReadFile(filepath.Join(dst2, "p", "b.go"))
			res.C15 = append(res.C15, k8Case{"repeated-run", string(again) == ref && ref != "", diffHint(ref, string(again))})
			compile(src, dst)
			stale, _ := os.ReadFile(filepath.Join(dst, "p", "b.go"))
			res.C15 = append(res.C15, k8Case{"over-stale-outputs", string(stale) == ref, diffHint(ref, string(stale))})
			// the destination already holds a NEWER file of that name with other content (the output of an older
			// version of the sources, an edited file): what is on disk must not influence what is written
			dst3 := filepath.Join(mod, "c15", l.name, "out3")
			mustWrite(filepath.Join(dst3, "p", "b.go"), strings.Replace(ref, "package p", "package p\n\n// left over from an earlier run\nvar leftOver = 1", 1))
			future := time.Now().Add(time.Hour)
			os.Chtimes(filepath.Join(dst3, "p", "b.go"), future, future)
			compile(src, dst3)
			over, _ := os.ReadFile(filepath.Join(dst3, "p", "b.go"))
			res.C15 = append(res.C15, k8Case{"over-newer-foreign-output", string(over) == ref, diffHint(ref, string(over))})
			// helper identifiers unique within the file
			res.C15 = append(res.C15, uniqueHelpers(ref))
			continue
		}
		res.C15 = append(res.C15, k8Case{l.name, string(got) == ref, diffHint(ref, string(got))})
	}

	// an earlier run into the same destination that FAILED (a defer in a generator is rejected after another
	// file of the package had already been processed): the next run, on other sources, must give what a
	// fresh compile gives
	{
		v1a := "package h\n\nimport \"github.com/goghcrow/go-co\"\n\nfunc more() bool { return false }\n\nfunc Ones() co.Iter[int] {\n\tfor more() {\n\t\tco.Yield(1)\n\t}\n\treturn nil\n}\n"
		v1z := "package h\n\nimport \"github.com/goghcrow/go-co\"\n\nfunc Bad() co.Iter[int] {\n\tdefer func() {}()\n\tco.Yield(1)\n\treturn nil\n}\n"
		v2b := "package h\n\nimport \"github.com/goghcrow/go-co\"\n\nfunc Ones() co.Iter[int] {\n\tfor more() {\n\t\tco.Yield(1)\n\t}\n\treturn nil\n}\n\nfunc Pairs(n int) co.Iter[int] {\n\tfor i := 0; i < n; i++ {\n\t\tco.Yield(i)\n\t\tco.Yield(i)\n\t}\n\treturn nil\n}\n"
		v2u := "package h\n\nvar calls int\n\nfunc more() bool { calls++; return calls < 3 }\n"
		src := filepath.Join(mod, "c15", "hist", "src")
		dst := filepath.Join(mod, "c15", "hist", "out")
		mustWrite(filepath.Join(src, "h", "a.go"), v1a)
		mustWrite(filepath.Join(src, "h", "z.go"), v1z)
		_, err1 := compile(src, dst)
		os.RemoveAll(filepath.Join(src, "h"))
		mustWrite(filepath.Join(src, "h", "b.go"), v2b)
		mustWrite(filepath.Join(src, "h", "util.go"), v2u)
		out2, err2 := compile(src, dst)
		fresh := filepath.Join(mod, "c15", "hist", "fresh")
		compile(src, fresh)
		got, _ := os.ReadFile(filepath.Join(dst, "h", "b.go"))
		want, _ := os.ReadFile(filepath.Join(fresh, "h", "b.go"))
		var extra []string
		if ents, err := os.ReadDir(filepath.Join(dst, "h")); err == nil {
			for _, e := range ents {
				if e.Name() != "b.go" {
					extra = append(extra, e.Name())
				}
			}
		}
		ok := err1 != nil && err2 == nil && len(want) > 0 && string(got) == string(want) && len(extra) == 0
		res.C15 = append(res.C15, k8Case{"after-failed-run", ok, fmt.Sprintf("first run failed=%v second run ok=%v extra files=%v %s %s",
			err1 != nil, err2 == nil, extra, diffHint(string(want), string(got)), tail(out2, 200))})
	}

	// several generator FUNCTION LITERALS in one file (their source comments are collected per file): the
	// same source compiled five times in separate processes must give the same bytes
	{
		var lb strings.Builder
		lb.WriteString("package lits\n\nimport (\n\t\"github.com/goghcrow/go-co\"\n)\n\n")
		for i := 0; i < 7; i++ {
			fmt.Fprintf(&lb, "// L%d yields %d values\nvar L%d = func(n int) co.Iter[int] {\n\tfor i := 0; i < n+%d; i++ {\n\t\tco.Yield(i * %d)\n\t}\n\treturn nil\n}\n\n", i, i, i, i, i+1)
		}
		lb.WriteString("func Decl(n int) co.Iter[int] {\n\tco.Yield(n)\n\tf := func() co.Iter[int] {\n\t\tco.Yield(-n)\n\t\treturn nil\n\t}\n\tco.YieldFrom(f())\n\treturn nil\n}\n")
		src := filepath.Join(mod, "c15", "lits", "src")
		mustWrite(filepath.Join(src, "lits", "lits.go"), lb.String())
		var first string
		same, detail := true, ""
		for run := 0; run < 5; run++ {
			dst := filepath.Join(mod, "c15", "lits", fmt.Sprintf("out%d", run))
			if out, err := compile(src, dst); err != nil {
				same, detail = false, "compile failed: "+tail(out, 300)
				break
			}
			got, _ := os.ReadFile(filepath.Join(dst, "lits", "lits.go"))
			if run == 0 {
				first = string(got)
			} else if string(got) != first {
				same, detail = false, fmt.Sprintf("run %d differs from run 0: %s", run, diffHint(first, string(got)))
				break
			}
		}
		res.C15 = append(res.C15, k8Case{"generator-literals-repeated-runs", same && first != "", detail})
	}

	// ---------------- C16 ----------------
	cogen := filepath.Join(mod, "cogen.bin")
	b := exec.Command("go", "build", "-o", cogen, "github.com/goghcrow/go-co/cmd/cogen")
	b.Dir = mod
	if out, err := b.CombinedOutput(); err != nil {
		res.C16 = append(res.C16, k8Case{"build-cogen", false, tail(string(out), 400)})
	} else {
		root := filepath.Join(mod, "g")
		pkg := filepath.Join(root, "pkg")
		types := "package pkg\n\ntype Pair struct{ A, B int }\n"
		gen := strings.Replace(coFile("pkg", "co", []string{"RangeSliceKV", "YieldFromChain"}, "G"), "var _ = vm.E\n", "var _ = vm.E\n\n//go:generate true\n", 1)
		genTest := "//go:build co\n\npackage pkg\n\nimport (\n\t\"testing\"\n\t\"github.com/goghcrow/go-co\"\n)\n\nfunc nat(n int) co.Iter[int] {\n\tfor i := 0; i < n; i++ {\n\t\tco.Yield(i)\n\t}\n\treturn nil\n}\n\nfunc TestNat(t *testing.T) {\n\ts := 0\n\tfor v := range nat(4) {\n\t\ts += v\n\t}\n\tif s != 6 {\n\t\tt.Fatal(s)\n\t}\n\t_ = Pair{}\n}\n"
		noapi := "//go:build co\n\npackage pkg\n\nimport _ \"github.com/goghcrow/go-co\"\n\nfunc Plain() int { return 1 }\n"
		subGen := coFile("sub", "co", []string{"RangeChan"}, "S")
		otherGen := coFile("pkg", "co", []string{"RangeInt"}, "O")
		files := map[string]string{
			"pkg/types.go": types, "pkg/gen_co.go": gen, "pkg/gen_co_test.go": genTest, "pkg/noapi_co.go": noapi,
			"pkg/other_co.go": otherGen, "pkg/sub/gen_co.go": subGen, "pkg/sub/doc.go": "package sub\n",
			// the marker "_co" inside a base name and inside a directory name: only the final suffix is stripped
			"pkg/tcp_conn_co.go":         coFile("pkg", "co", []string{"RangeBreakContinue"}, "T"),
			"pkg/wire_codec/frame_co.go": coFile("wire_codec", "co", []string{"RangeStringBytes"}, "W"),
			"pkg/wire_codec/doc.go":      "package wire_codec\n",
			// two levels down, below a directory that holds no files itself
			"pkg/internal/deep/deep_co.go": coFile("deep", "co", []string{"RangeInt"}, "D"),
			// a co source that ANOTHER generator wrote (it carries the standard generated-code header) is a
			// source like any other
			"pkg/table_co.go": "// Code generated by tablegen -type=Item DO NOT EDIT.\n\n" + coFile("pkg", "co", []string{"RangeInt"}, "B"),
		}
		for rel, c := range files {
			mustWrite(filepath.Join(root, rel), c)
		}
		// the scratch module root is `mod`, so the package path is scratch/g/pkg
		before := snapshot(root)
		run := func() (string, error) {
			c := exec.Command(cogen)
			c.Dir = pkg
			c.Env = append(os.Environ(), "GOFILE=gen_co.go")
			o, err := c.CombinedOutput()
			return string(o), err
		}
		out, err := run()
		if err != nil {
			res.C16 = append(res.C16, k8Case{"cogen-run", false, tail(out, 600)})
		} else {
			after := snapshot(root)
			want := map[string]bool{"pkg/gen.go": true, "pkg/gen_test.go": true, "pkg/other.go": true, "pkg/sub/gen.go": true,
				"pkg/tcp_conn.go": true, "pkg/wire_codec/frame.go": true, "pkg/internal/deep/deep.go": true, "pkg/table.go": true}
			var created, changed []string
			for p, c := range after {
				if old, ok := before[p]; !ok {
					created = append(created, p)
				} else if old != c {
					changed = append(changed, p)
				}
			}
			for p := range before {
				if _, ok := after[p]; !ok {
					changed = append(changed, "deleted:"+p)
				}
			}
			sort.Strings(created)
			var wantL []string
			for p := range want {
				wantL = append(wantL, p)
			}
			sort.Strings(wantL)
			res.C16 = append(res.C16, k8Case{"writes-exactly-the-derived-files", strings.Join(created, ",") == strings.Join(wantL, ","),
				fmt.Sprintf("created=%v want=%v", created, wantL)})
			res.C16 = append(res.C16, k8Case{"sources-untouched", len(changed) == 0, fmt.Sprint(changed)})
			_, errTmp := os.Stat(root + "/pkg_tmp")
			_, errTmp2 := os.Stat(filepath.Join(mod, "g", "pkg_tmp"))
			res.C16 = append(res.C16, k8Case{"no-temp-dir-left", os.IsNotExist(errTmp) && os.IsNotExist(errTmp2), ""})
			hdrOK := true
			for p := range want {
				c := after[p]
				if !strings.HasPrefix(c, "//go:build !co\n") || !strings.Contains(c, "Code generated by github.com/goghcrow/go-co DO NOT EDIT.") {
					hdrOK = false
				}
			}
			res.C16 = append(res.C16, k8Case{"header-and-build-constraint", hdrOK, ""})
			goCmd := func(args ...string) (string, error) {
				c := exec.Command("go", args...)
				c.Dir = pkg
				o, err := c.CombinedOutput()
				return string(o), err
			}
			o, err := goCmd("build", "./...")
			res.C16 = append(res.C16, k8Case{"builds-without-tag", err == nil, tail(o, 400)})
			o, err = goCmd("test", "-count=1", "./...")
			res.C16 = append(res.C16, k8Case{"tests-pass-without-tag", err == nil && strings.Contains(o, "ok"), tail(o, 400)})
			o, err = goCmd("vet", "-tags", "co", "./...")
			res.C16 = append(res.C16, k8Case{"type-checks-with-tag", err == nil, tail(o, 400)})
			out2, err2 := run()
			again := snapshot(root)
			same := err2 == nil && len(again) == len(after)
			for p, c := range after {
				if again[p] != c {
					same = false
				}
			}
			res.C16 = append(res.C16, k8Case{"second-run-byte-identical", same, tail(out2, 200)})
			// a derived file edited by hand after the run (so it is newer than its source) is regenerated
			var edited string
			for p := range after {
				if _, was := before[p]; !was && strings.HasSuffix(p, ".go") {
					if edited == "" || p < edited {
						edited = p
					}
				}
			}
			if edited != "" {
				full := filepath.Join(root, edited)
				os.WriteFile(full, []byte(after[edited]+"\n// edited\nvar editedByHand = 1\n"), 0o644)
				future := time.Now().Add(time.Hour)
				os.Chtimes(full, future, future)
				out3, err3 := run()
				third := snapshot(root)
				res.C16 = append(res.C16, k8Case{"edited-derived-file-regenerated", err3 == nil && third[edited] == after[edited], edited + ": " + diffHint(after[edited], third[edited]) + tail(out3, 200)})
			}
		}
	}
	// a second tree: the top directory has NO co test file, a sub-package has one
	if _, err := os.Stat(cogen); err == nil {
		root := filepath.Join(mod, "g2")
		pkg := filepath.Join(root, "pkg")
		subTest := "//go:build co\n\npackage sub\n\nimport (\n\t\"testing\"\n\t\"github.com/goghcrow/go-co\"\n)\n\nfunc twice(n int) co.Iter[int] {\n\tfor i := 0; i < n; i++ {\n\t\tco.Yield(2 * i)\n\t}\n\treturn nil\n}\n\nfunc TestTwice(t *testing.T) {\n\ts := 0\n\tfor v := range twice(4) {\n\t\ts += v\n\t}\n\tif s != 12 {\n\t\tt.Fatal(s)\n\t}\n}\n"
		files := map[string]string{
			"pkg/types.go":            "package pkg\n\ntype Pair struct{ A, B int }\n",
			"pkg/gen_co.go":           strings.Replace(coFile("pkg", "co", []string{"RangeSliceKV"}, "G"), "var _ = vm.E\n", "var _ = vm.E\n\n//go:generate true\n", 1),
			"pkg/sub/walk_co.go":      coFile("sub", "co", []string{"RangeInt"}, "S"),
			"pkg/sub/walk_co_test.go": subTest,
		}
		for rel, c := range files {
			mustWrite(filepath.Join(root, rel), c)
		}
		before := snapshot(root)
		c := exec.Command(cogen)
		c.Dir = pkg
		c.Env = append(os.Environ(), "GOFILE=gen_co.go")
		if o, err := c.CombinedOutput(); err != nil {
			res.C16 = append(res.C16, k8Case{"subpackage-test-file-only: cogen-run", false, tail(string(o), 600)})
		} else {
			after := snapshot(root)
			var created []string
			for p := range after {
				if _, ok := before[p]; !ok {
					created = append(created, p)
				}
			}
			sort.Strings(created)
			want := "pkg/gen.go,pkg/sub/walk.go,pkg/sub/walk_test.go"
			res.C16 = append(res.C16, k8Case{"subpackage-test-file-only: writes-exactly-the-derived-files", strings.Join(created, ",") == want,
				fmt.Sprintf("created=%v want=[%s]", created, want)})
			t := exec.Command("go", "test", "-count=1", "./...")
			t.Dir = pkg
			o, err := t.CombinedOutput()
			res.C16 = append(res.C16, k8Case{"subpackage-test-file-only: tests-pass-without-tag", err == nil && strings.Contains(string(o), "ok"), tail(string(o), 400)})
		}
	}
	// C15 in go:generate mode: the derived file of a co file must not depend on an UNRELATED plain test file
	// sitting in the same package (with tests loaded, a non-test file belongs to two package variants)
	if _, err := os.Stat(cogen); err == nil {
		src := "//go:build co\n\npackage q\n\nimport . \"github.com/goghcrow/go-co\"\n\n//go:generate true\n\n// Evens yields the even elements\nfunc Evens(xs []int) Iter[int] {\n\t// pick is a generator literal\n\tpick := func(ys []int) Iter[int] {\n\t\tfor _, y := range ys {\n\t\t\tif y%2 == 0 {\n\t\t\t\tYield(y)\n\t\t\t}\n\t\t}\n\t\treturn nil\n\t}\n\tYieldFrom(pick(xs))\n\treturn nil\n}\n"
		outs := map[string]string{}
		for _, variant := range []string{"alone", "with-unrelated-test-file"} {
			root := filepath.Join(mod, "g4", variant)
			mustWrite(filepath.Join(root, "q", "gen_co.go"), strings.Replace(src, "package q", "package q", 1))
			if variant != "alone" {
				mustWrite(filepath.Join(root, "q", "other_test.go"), "package q\n\nimport \"testing\"\n\nfunc TestNothing(t *testing.T) {}\n")
			}
			c := exec.Command(cogen)
			c.Dir = filepath.Join(root, "q")
			c.Env = append(os.Environ(), "GOFILE=gen_co.go")
			if o, err := c.CombinedOutput(); err != nil {
				outs[variant] = "cogen failed: " + tail(string(o), 300)
				continue
			}
			b, _ := os.ReadFile(filepath.Join(root, "q", "gen.go"))
			outs[variant] = string(b)
		}
		res.C15 = append(res.C15, k8Case{"gogen-unrelated-test-file", outs["alone"] != "" && outs["alone"] == outs["with-unrelated-test-file"] && !strings.HasPrefix(outs["alone"], "cogen failed"),
			diffHint(outs["alone"], outs["with-unrelated-test-file"])})
	}
	// further trees, one per observation of the defect hunt (each is a listed finding or a repaired defect)
	if _, err := os.Stat(cogen); err == nil {
		runIn := func(dir string) (string, error) {
			c := exec.Command(cogen)
			c.Dir = dir
			c.Env = append(os.Environ(), "GOFILE=gen_co.go")
			o, err := c.CombinedOutput()
			return string(o), err
		}
		gen := func(pkg, extraImport, extraDecl string) string {
			return "//go:build co\n\npackage " + pkg + "\n\nimport (\n" + extraImport + "\t. \"github.com/goghcrow/go-co\"\n)\n\n//go:generate true\n\n" + extraDecl +
				"func Nums(n int) Iter[int] {\n\tfor i := 0; i < n; i++ {\n\t\tYield(i)\n\t}\n\treturn nil\n}\n"
		}
		// (a) a blank import of a non-test co file survives when the package also has a co test file
		{
			root := filepath.Join(mod, "g5")
			mustWrite(filepath.Join(root, "codec", "gen_co.go"), gen("codec", "\t_ \"image/png\"\n", ""))
			mustWrite(filepath.Join(root, "codec", "gen_co_test.go"), "//go:build co\n\npackage codec\n\nimport (\n\t\"testing\"\n\n\t. \"github.com/goghcrow/go-co\"\n)\n\nfunc twice(n int) Iter[int] {\n\tfor v := range Nums(n) {\n\t\tYield(2 * v)\n\t}\n\treturn nil\n}\n\nfunc TestNums(t *testing.T) {\n\tn := 0\n\tfor v := range twice(3) {\n\t\tn += v\n\t}\n\tif n != 6 {\n\t\tt.Fatal(n)\n\t}\n}\n")
			o, err := runIn(filepath.Join(root, "codec"))
			b, _ := os.ReadFile(filepath.Join(root, "codec", "gen.go"))
			res.C16 = append(res.C16, k8Case{"blank-import-kept-with-test-file", err == nil && strings.Contains(string(b), "_ \"image/png\""), "gen.go imports: " + importLines(string(b)) + " " + lastLineWith(o, "panic")})
		}
		// (b) the package is the ROOT of its module (the quick-start layout): a module of its own
		{
			// (outside the scratch module: next to it, where no other module encloses the directory)
			root := filepath.Join(*dir, "quickroot", "quick")
			os.RemoveAll(filepath.Join(*dir, "quickroot"))
			gm, _ := os.ReadFile(filepath.Join(mod, "go.mod"))
			mustWrite(filepath.Join(root, "go.mod"), strings.Replace(string(gm), "module scratch", "module quick", 1))
			gs, _ := os.ReadFile(filepath.Join(mod, "go.sum"))
			mustWrite(filepath.Join(root, "go.sum"), string(gs))
			mustWrite(filepath.Join(root, "gen_co.go"), gen("quick", "", ""))
			o, err := runIn(root)
			_, serr := os.Stat(filepath.Join(root, "gen.go"))
			res.C16 = append(res.C16, k8Case{"package-at-module-root", err == nil && serr == nil, fmt.Sprintf("cogen ok=%v gen.go written=%v %s", err == nil, serr == nil, lastLineWith(o, "skip optimize"))})
		}
		// (c) a directory of the user named <pkg>_tmp next to the package is left alone
		{
			root := filepath.Join(mod, "g7")
			mustWrite(filepath.Join(root, "store", "gen_co.go"), gen("store", "", ""))
			mustWrite(filepath.Join(root, "store_tmp", "NOTES.txt"), "mine\n")
			o, err := runIn(filepath.Join(root, "store"))
			_, serr := os.Stat(filepath.Join(root, "store_tmp", "NOTES.txt"))
			res.C16 = append(res.C16, k8Case{"user-directory-named-like-the-temporary-one", serr == nil, fmt.Sprintf("cogen ok=%v store_tmp/NOTES.txt still there=%v %s", err == nil, serr == nil, lastLineWith(o, "panic"))})
		}
		// (d) the package has a hand-written file that declares types the co file uses: imports needed only
		// together with those types must stay, and an eta-shaped closure that converts between them must stay
		{
			root := filepath.Join(mod, "g8")
			mustWrite(filepath.Join(root, "pkg", "types.go"), "package pkg\n\ntype Set[T comparable] map[T]struct{}\n\ntype Problem interface{ Problem() string }\n\ntype Missing []string\n\nfunc (m Missing) Problem() string { return \"missing\" }\n")
			mustWrite(filepath.Join(root, "pkg", "gen_co.go"), gen("pkg", "\t\"time\"\n\n",
				"var Slow = Set[time.Duration]{time.Second: {}}\n\nfunc missing(want []string) Missing { return nil }\n\nfunc Check(want []string) string {\n\tvalidate := func(want []string) Problem { return missing(want) }\n\tif p := validate(want); p != nil {\n\t\treturn \"problem\"\n\t}\n\treturn \"fine\"\n}\n\n"))
			o, err := runIn(filepath.Join(root, "pkg"))
			b, _ := os.ReadFile(filepath.Join(root, "pkg", "gen.go"))
			okImp := strings.Contains(string(b), "\"time\"")
			okEta := strings.Contains(string(b), "func(want []string) Problem")
			res.C16 = append(res.C16, k8Case{"hand-written-sibling-declares-the-types", err == nil && okImp && okEta, fmt.Sprintf("cogen ok=%v import of time kept=%v converting closure kept=%v %s", err == nil, okImp, okEta, lastLineWith(o, "panic"))})
		}
		// (e) build constraints of the source beyond the co tag carry over to the derived file
		{
			root := filepath.Join(mod, "g9")
			mustWrite(filepath.Join(root, "impl", "gen_co.go"), strings.Replace(gen("impl", "", ""), "//go:build co\n", "//go:build co && !alt\n", 1))
			o, err := runIn(filepath.Join(root, "impl"))
			b, _ := os.ReadFile(filepath.Join(root, "impl", "gen.go"))
			first := strings.SplitN(string(b), "\n", 2)[0]
			res.C13 = append(res.C13, k8Case{"build-constraint-beyond-co-kept", err == nil && strings.Contains(first, "alt"), fmt.Sprintf("source: //go:build co && !alt; derived file starts with %q %s", first, lastLineWith(o, "panic"))})
		}
	}
	// go:generate mode with a file suffix and a build tag other than the default ones
	{
		self, _ := os.Executable()
		root := filepath.Join(mod, "g10")
		src := "//go:build gen\n\npackage pkg\n\nimport . \"github.com/goghcrow/go-co\"\n\nfunc Nums(n int) Iter[int] {\n\tfor i := 0; i < n; i++ {\n\t\tYield(i)\n\t}\n\treturn nil\n}\n"
		mustWrite(filepath.Join(root, "pkg", "nums_gen.go"), src)
		mustWrite(filepath.Join(root, "pkg", "use.go"), "package pkg\n\nfunc Sum(n int) int {\n\tt := 0\n\tit := Nums(n)\n\tfor it.MoveNext() {\n\t\tt += it.Current()\n\t}\n\treturn t\n}\n")
		c := exec.Command(self, "gogen-one", "-dir", filepath.Join(root, "pkg"), "-suffix", "gen", "-tag", "gen")
		c.Dir = mod
		o, err := c.CombinedOutput()
		b, _ := os.ReadFile(filepath.Join(root, "pkg", "nums.go"))
		first := strings.SplitN(string(b), "\n", 2)[0]
		bo, berr := []byte(nil), error(nil)
		if err == nil {
			bc := exec.Command("go", "build", "./g10/pkg")
			bc.Dir = mod
			bo, berr = bc.CombinedOutput()
		}
		ok := err == nil && first == "//go:build !gen" && strings.Count(string(b), "//go:build") == 1 && berr == nil
		res.C16 = append(res.C16, k8Case{"custom-suffix-and-build-tag", ok, fmt.Sprintf("gogen ok=%v; nums.go starts with %q, %d build constraints; build: %s %s", err == nil, first, strings.Count(string(b), "//go:build"), tail(string(bo), 200), lastLineWith(string(o), "PANIC"))})
	}
	// a third tree: a co file of a sub-package IMPORTS the package above it, whose generators are generated in
	// the same run (finding D26 on this tree: the optimise stage type-checks the temporary copy of the
	// sub-package against the real upper package, which has no generated file yet)
	if _, err := os.Stat(cogen); err == nil {
		root := filepath.Join(mod, "g3")
		pkg := filepath.Join(root, "pkg")
		files := map[string]string{
			"pkg/gen_co.go":   "//go:build co\n\npackage pkg\n\nimport \"github.com/goghcrow/go-co\"\n\n//go:generate true\n\nfunc Nums(n int) co.Iter[int] {\n\tfor i := 0; i < n; i++ {\n\t\tco.Yield(i)\n\t}\n\treturn nil\n}\n",
			"pkg/sub/u_co.go": "//go:build co\n\npackage sub\n\nimport (\n\t\"github.com/goghcrow/go-co\"\n\t\"scratch/g3/pkg\"\n)\n\nfunc Twice(n int) co.Iter[int] {\n\tfor v := range pkg.Nums(n) {\n\t\tco.Yield(2 * v)\n\t}\n\treturn nil\n}\n",
		}
		for rel, c := range files {
			mustWrite(filepath.Join(root, rel), c)
		}
		run := func() (string, error) {
			c := exec.Command(cogen)
			c.Dir = pkg
			c.Env = append(os.Environ(), "GOFILE=gen_co.go")
			o, err := c.CombinedOutput()
			return string(o), err
		}
		o1, err1 := run()
		first := snapshot(root)
		o2, err2 := run()
		second := snapshot(root)
		same := len(first) == len(second)
		for p, c := range first {
			if second[p] != c {
				same = false
			}
		}
		_, hasSub := first["pkg/sub/u.go"]
		ok := err1 == nil && err2 == nil && hasSub && same
		detail := fmt.Sprintf("first run: ok=%v sub/u.go written=%v %s; second run: ok=%v identical=%v %s", err1 == nil, hasSub, lastLineWith(o1, "panic"), err2 == nil, same, lastLineWith(o2, "panic"))
		res.C16 = append(res.C16, k8Case{"import-between-generated-packages", ok, detail})
	}
	// ---------------- C13: compiler directives of bystander declarations ----------------
	// a //go:embed variable and a //go:noinline function next to generators: the generated package must
	// still embed the file.  Variant "lit" also holds a generator FUNCTION LITERAL (finding D15 on the
	// pinned tree: all doc comments, directives included, are dropped from such a file).
	for _, variant := range []string{"decl", "lit"} {
		name := "directives-kept-" + variant
		src := filepath.Join(mod, "c13", variant, "src", "e")
		dst := filepath.Join(mod, "c13", variant, "out", "e")
		code := "package e\n\nimport (\n\t_ \"embed\"\n\n\t. \"github.com/goghcrow/go-co\"\n)\n\n" +
			"func G1() Iter[int] {\n\tYield(1)\n}\n\n"
		if variant == "lit" {
			code += "// Lit is a generator literal\nvar Lit = func() Iter[int] {\n\tYield(2)\n}\n\n"
		}
		code += "// Data is filled in by the compiler\n//\n//go:embed data.txt\nvar Data string\n\n//go:noinline\nfunc Plain() int { return len(Data) }\n"
		mustWrite(filepath.Join(src, "e.go"), code)
		mustWrite(filepath.Join(src, "data.txt"), "hello")
		out, err := compile(src, dst)
		if err != nil {
			res.C13 = append(res.C13, k8Case{name, false, "compile failed: " + tail(out, 400)})
			continue
		}
		mustWrite(filepath.Join(dst, "data.txt"), "hello") // Compile copies go files only
		mainDir := filepath.Join(mod, "c13", variant, "cmd")
		mustWrite(filepath.Join(mainDir, "main.go"), "package main\n\nimport (\n\t\"fmt\"\n\te \"scratch/c13/"+variant+"/out/e\"\n)\n\nfunc main() { fmt.Println(\"len\", e.Plain()) }\n")
		c := exec.Command("go", "run", "./c13/"+variant+"/cmd")
		c.Dir = mod
		o, err := c.CombinedOutput()
		got := strings.TrimSpace(string(o))
		gen, _ := os.ReadFile(filepath.Join(dst, "e.go"))
		ok := err == nil && got == "len 5" && strings.Contains(string(gen), "//go:embed data.txt") && strings.Contains(string(gen), "//go:noinline")
		res.C13 = append(res.C13, k8Case{name, ok, "source: len 5 with //go:embed and //go:noinline; generated: " + tail(got, 200) +
			fmt.Sprintf(" (embed directive kept: %v, noinline kept: %v)", strings.Contains(string(gen), "//go:embed data.txt"), strings.Contains(string(gen), "//go:noinline"))})
	}

	// the same bystander in a file visited AFTER a file that holds a generator literal: per-file state of the
	// rewriter must not leak into it
	{
		name := "directives-kept-after-lit-file"
		src := filepath.Join(mod, "c13", "afterlit", "src", "e")
		dst := filepath.Join(mod, "c13", "afterlit", "out", "e")
		mustWrite(filepath.Join(src, "a_lit.go"), "package e\n\nimport . \"github.com/goghcrow/go-co\"\n\n// Lit is a generator literal\nvar Lit = func() Iter[int] {\n\tYield(2)\n}\n")
		mustWrite(filepath.Join(src, "b_decl.go"), "package e\n\nimport (\n\t_ \"embed\"\n\n\t. \"github.com/goghcrow/go-co\"\n)\n\nfunc G1() Iter[int] {\n\tYield(1)\n}\n\n"+
			"// Data is filled in by the compiler\n//\n//go:embed data.txt\nvar Data string\n\n//go:noinline\nfunc Plain() int { return len(Data) }\n")
		mustWrite(filepath.Join(src, "data.txt"), "hello")
		if out, err := compile(src, dst); err != nil {
			res.C13 = append(res.C13, k8Case{name, false, "compile failed: " + tail(out, 400)})
		} else {
			mustWrite(filepath.Join(dst, "data.txt"), "hello")
			mainDir := filepath.Join(mod, "c13", "afterlit", "cmd")
			mustWrite(filepath.Join(mainDir, "main.go"), "package main\n\nimport (\n\t\"fmt\"\n\te \"scratch/c13/afterlit/out/e\"\n)\n\nfunc main() { fmt.Println(\"len\", e.Plain()) }\n")
			c := exec.Command("go", "run", "./c13/afterlit/cmd")
			c.Dir = mod
			o, err := c.CombinedOutput()
			got := strings.TrimSpace(string(o))
			gen, _ := os.ReadFile(filepath.Join(dst, "b_decl.go"))
			ok := err == nil && got == "len 5" && strings.Contains(string(gen), "//go:embed data.txt") && strings.Contains(string(gen), "//go:noinline")
			res.C13 = append(res.C13, k8Case{name, ok, "source: len 5 with //go:embed and //go:noinline; generated: " + tail(got, 200) +
				fmt.Sprintf(" (embed directive kept: %v, noinline kept: %v)", strings.Contains(string(gen), "//go:embed data.txt"), strings.Contains(string(gen), "//go:noinline"))})
		}
	}

	bts, _ := json.MarshalIndent(res, "", " ")
	os.WriteFile(filepath.Join(*dir, "k8.json"), bts, 0o644)
	os.RemoveAll(mod)
}

// litFile: a source file with two generator function literals and a declared generator
func litFile(pkg string) string {
	return "package " + pkg + "\n\nimport \"github.com/goghcrow/go-co\"\n\n" +
		"// Squares is a generator literal\nvar Squares = func(n int) co.Iter[int] {\n\tfor i := 1; i <= n; i++ {\n\t\tco.Yield(i * i)\n\t}\n\treturn nil\n}\n\n" +
		"func Both(n int) co.Iter[int] {\n\tinner := func() co.Iter[int] {\n\t\tco.Yield(-n)\n\t\treturn nil\n\t}\n\tco.YieldFrom(inner())\n\tco.YieldFrom(Squares(n))\n\treturn nil\n}\n"
}

func diffHint(a, b string) string {
	if a == b {
		return ""
	}
	la, lb := strings.Split(a, "\n"), strings.Split(b, "\n")
	for i := 0; i < len(la) && i < len(lb); i++ {
		if la[i] != lb[i] {
			return fmt.Sprintf("first difference at line %d: %q vs %q", i+1, la[i], lb[i])
		}
	}
	return fmt.Sprintf("lengths differ: %d vs %d lines", len(la), len(lb))
}

// uniqueHelpers: every generated iterator variable ɪʇN is defined exactly once in the file
func uniqueHelpers(src string) k8Case {
	counts := map[string]int{}
	for _, line := range strings.Split(src, "\n") {
		t := strings.TrimSpace(line)
		// numbered helpers (gensym); the unnumbered ɪʇ of consumer loops is scoped to its own for statement
		if i := strings.Index(t, " := "); i > len("ɪʇ") && strings.HasPrefix(t, "ɪʇ") {
			counts[t[:i]]++
		}
	}
	var dup []string
	for n, c := range counts {
		if c > 1 {
			dup = append(dup, n)
		}
	}
	return k8Case{"helper-identifiers-unique", len(dup) == 0 && len(counts) >= 4, fmt.Sprintf("%d helpers, duplicates=%v", len(counts), dup)}
}

// importLines: the import specs of a Go source, on one line
func importLines(src string) string {
	var out []string
	in := false
	for _, l := range strings.Split(src, "\n") {
		t := strings.TrimSpace(l)
		switch {
		case strings.HasPrefix(t, "import ("):
			in = true
		case in && t == ")":
			in = false
		case in && t != "":
			out = append(out, t)
		case strings.HasPrefix(t, "import "):
			out = append(out, strings.TrimPrefix(t, "import "))
		}
	}
	return strings.Join(out, "; ")
}
