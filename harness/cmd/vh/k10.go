package main

// K10: the SHAPE of the two range lowerings, read back from the real compiler's output, for every valid
// form of the range clause (`:=` / `=` x key {name, blank, omitted} x value {name, blank, omitted}).
// Compared with the Lean model's lowerGen / lowerConsumer (GoCo/Compile/RangeLower.lean), whose
// correctness is a theorem.

import (
	"encoding/json"
	"flag"
	"fmt"
	"go/ast"
	"go/parser"
	"go/token"
	"os"
	"os/exec"
	"path/filepath"
	"strings"

	"verif/harness/scratchfs"
)

func init() { commands["k10"] = k10 }

type k10Form struct {
	Which string `json:"which"` // gen | consumer
	Tok   string `json:"tok"`   // define | assign
	Key   string `json:"key"`   // name | blank | none
	Val   string `json:"val"`
	Fn    string `json:"fn"`
	Impl  string `json:"impl"`
	Req   string `json:"req"`
}

func k10(args []string) {
	fs := flag.NewFlagSet("k10", flag.ExitOnError)
	dir := fs.String("dir", "", "")
	repo := fs.String("repo", "/repo", "")
	fs.Parse(args)
	mod := filepath.Join(*dir, "mod")
	os.RemoveAll(mod)
	os.MkdirAll(mod, 0o755)
	scratchfs.Materialise(mod, *repo)
	gm, _ := os.ReadFile(filepath.Join(mod, "go.mod"))
	os.WriteFile(filepath.Join(mod, "go.mod"), []byte(strings.Replace(string(gm), "go 1.19", "go 1.22", 1)), 0o644)

	txt := func(a, name string) string {
		switch a {
		case "name":
			return name
		case "blank":
			return "_"
		}
		return ""
	}
	var forms []k10Form
	var src strings.Builder
	src.WriteString("package k10\n\nimport \"github.com/goghcrow/go-co\"\n\n")
	add := func(which, tok, key, val string) {
		f := k10Form{Which: which, Tok: tok, Key: key, Val: val}
		f.Fn = fmt.Sprintf("F_%s_%s_%s_%s", which, tok, key, val)
		f.Req = fmt.Sprintf("(k10 %s %s %s %s)", which, tok, key, val)
		op := map[string]string{"define": ":=", "assign": "="}[tok]
		clause := ""
		switch {
		case key == "none" && val == "none":
			clause = "range"
		case val == "none":
			clause = txt(key, "k") + " " + op + " range"
		default:
			clause = txt(key, "k") + ", " + txt(val, "v") + " " + op + " range"
		}
		body := "s++"
		if key == "name" {
			body += "\n\t\ts += k"
		}
		if val == "name" {
			body += "\n\t\ts += v"
		}
		decl := ""
		if tok == "assign" {
			decl = "\tvar k, v int\n\t_, _ = k, v\n"
		}
		if which == "gen" {
			// the body does not yield: the lowered loop stays a native for statement
			fmt.Fprintf(&src, "func %s(xs []int) co.Iter[int] {\n\ts := 0\n%s\tfor %s xs {\n\t\t%s\n\t}\n\tco.Yield(s)\n\treturn nil\n}\n\n", f.Fn, decl, clause, body)
		} else {
			fmt.Fprintf(&src, "func %s(g co.Iter[int]) int {\n\ts := 0\n%s\tfor %s g {\n\t\t%s\n\t}\n\treturn s\n}\n\n", f.Fn, decl, clause, body)
		}
		forms = append(forms, f)
	}
	for _, kv := range [][2]string{{"name", "none"}, {"name", "blank"}, {"name", "name"}, {"blank", "name"}} {
		add("gen", "define", kv[0], kv[1])
	}
	for _, kv := range [][2]string{{"name", "none"}, {"name", "blank"}, {"name", "name"}, {"blank", "name"}, {"blank", "none"}, {"blank", "blank"}} {
		add("gen", "assign", kv[0], kv[1])
	}
	add("gen", "assign", "none", "none") // `for range xs` (no token)
	add("consumer", "define", "name", "none")
	add("consumer", "assign", "name", "none")
	add("consumer", "assign", "blank", "none")
	add("consumer", "assign", "none", "none")
	// a generator in the file, so that the consumer functions are processed too
	src.WriteString("func gen() co.Iter[int] { co.Yield(1); return nil }\n")

	srcDir := filepath.Join(mod, "src", "k10")
	dstDir := filepath.Join(mod, "out", "k10")
	os.MkdirAll(srcDir, 0o755)
	os.WriteFile(filepath.Join(srcDir, "gen.go"), []byte(src.String()), 0o644)
	self, _ := os.Executable()
	cmd := exec.Command(self, "compile-one", "-src", srcDir, "-dst", dstDir)
	cmd.Dir = mod
	out, err := cmd.CombinedOutput()
	res := map[string]any{}
	if err != nil {
		res["error"] = "compile failed: " + tail(string(out), 600)
	} else {
		gen, _ := os.ReadFile(filepath.Join(dstDir, "gen.go"))
		fset := token.NewFileSet()
		f, perr := parser.ParseFile(fset, "gen.go", gen, 0)
		if perr != nil {
			res["error"] = perr.Error()
		} else {
			shapes := map[string]string{}
			for _, d := range f.Decls {
				fd, ok := d.(*ast.FuncDecl)
				if !ok || fd.Body == nil {
					continue
				}
				ast.Inspect(fd.Body, func(n ast.Node) bool {
					fs, ok := n.(*ast.ForStmt)
					if !ok {
						return true
					}
					shapes[fd.Name.Name] = loopShape(fs)
					return false
				})
			}
			for i := range forms {
				forms[i].Impl = shapes[forms[i].Fn]
			}
		}
		// the generated package must build
		b := exec.Command("go", "build", "./out/k10")
		b.Dir = mod
		if bo, berr := b.CombinedOutput(); berr != nil {
			res["build"] = tail(string(bo), 600)
		}
	}
	res["forms"] = forms
	j, _ := json.MarshalIndent(res, "", " ")
	os.WriteFile(filepath.Join(*dir, "k10.json"), j, 0o644)
	os.RemoveAll(mod)
}

// loopShape: "sets=[:= k Key; := v Val] nested=true" of a lowered `for it.MoveNext() { ... }`
func loopShape(fs *ast.ForStmt) string {
	var sets []string
	nested := false
	list := fs.Body.List
	if len(list) > 0 {
		if as, ok := list[0].(*ast.AssignStmt); ok && len(as.Rhs) > 0 && isCurrent(as.Rhs[0]) {
			for i, l := range as.Lhs {
				name := "?"
				if id, ok := l.(*ast.Ident); ok {
					name = id.Name
				}
				if name == "_" {
					continue // `_ = it.Current()`: Current has no effect (current_pure)
				}
				sel := "Key" // a consumer loop assigns Current() itself: the single value
				if s, ok := as.Rhs[i].(*ast.SelectorExpr); ok {
					sel = s.Sel.Name
				}
				sets = append(sets, fmt.Sprintf("%s %s %s", as.Tok.String(), name, sel))
			}
			list = list[1:]
		}
	}
	if len(list) == 1 {
		_, nested = list[0].(*ast.BlockStmt)
	}
	return fmt.Sprintf("sets=[%s] nested=%v", strings.Join(sets, "; "), nested)
}

// it.Current() or it.Current().Key / .Val
func isCurrent(e ast.Expr) bool {
	if s, ok := e.(*ast.SelectorExpr); ok {
		if c, ok := s.X.(*ast.CallExpr); ok {
			e = c
		}
	}
	c, ok := e.(*ast.CallExpr)
	if !ok {
		return false
	}
	s, ok := c.Fun.(*ast.SelectorExpr)
	return ok && s.Sel.Name == "Current"
}
