// vh: the Go side of every correspondence. Sub-commands write request lines for the Lean driver
// and the implementation's answers, one per line, to files in -out.
//
// panic(nil) keeps the meaning it has in modules that declare go < 1.21 (go-co's go.mod says 1.19): recover()
// returns nil for it, so code that tests `recover() != nil` can lose such a panic.
//
//go:debug panicnil=1
package main

import (
	"fmt"
	"os"
)

var commands = map[string]func(args []string){}

func main() {
	if len(os.Args) < 2 {
		fmt.Fprintln(os.Stderr, "usage: vh <command> [flags]")
		os.Exit(2)
	}
	cmd, ok := commands[os.Args[1]]
	if !ok {
		fmt.Fprintf(os.Stderr, "unknown command %q\n", os.Args[1])
		os.Exit(2)
	}
	cmd(os.Args[2:])
}
