package main

import (
	"bufio"
	"encoding/json"
	"flag"
	"fmt"
	"math/rand"
	"os"
	"path/filepath"
	"strings"
	"time"

	"verif/harness/rt"
	"verif/harness/sexp"
)

func init() {
	commands["k1"] = k1
	commands["k1-replay"] = k1Replay
}

// k1: runtime correspondence. For each term, several op histories. Writes
//
//	req.txt  : (k1m <cterm> <ops> <ops> ...)      one line per term
//	go.txt   : the real runtime's rendering, histories joined by " || "
//	stats.json
func k1(args []string) {
	fs := flag.NewFlagSet("k1", flag.ExitOnError)
	out := fs.String("out", "", "output directory")
	tier := fs.String("tier", "quick", "quick|thorough")
	seed := fs.Int64("seed", 1, "seed")
	panics := fs.Bool("panics", true, "allow panicking scripts")
	corpus := fs.String("corpus", "", "corpus file of (k1m ...) lines to run first")
	fs.Parse(args)

	maxSize, variants, histLen, nRandom, rLo, rHi := 4, 2, 3, 1500, 5, 14
	if *tier == "thorough" {
		maxSize, variants, histLen, nRandom, rLo, rHi = 5, 3, 4, 20000, 5, 30
	}
	hists := rt.AllHistories(histLen)
	hists = append(hists, rt.Drain(6))

	req, _ := os.Create(filepath.Join(*out, "req.txt"))
	gof, _ := os.Create(filepath.Join(*out, "go.txt"))
	rw, gw := bufio.NewWriter(req), bufio.NewWriter(gof)
	defer func() { rw.Flush(); gw.Flush(); req.Close(); gof.Close() }()

	stats := map[string]any{}
	kinds := map[string]int{}
	nTerms, nHist, nPanicOps, nYields := 0, 0, 0, 0
	var samples []string

	// watchdog: an operation of the implementation that does not answer (e.g. a Result() that drains an
	// endless generator) is reported as the answer TIMEOUT for that history - a concrete disagreement with the
	// model - and the run stops there instead of hanging until the stage's time limit
	stopped := false
	runOps := func(t *rt.CTerm, h []rt.Op) string {
		ch := make(chan string, 1)
		go func() { ch <- rt.RunOps(t, h) }()
		select {
		case g := <-ch:
			return g
		case <-time.After(20 * time.Second):
			stopped = true
			return "TIMEOUT(no answer within 20s: the operation does not terminate)"
		}
	}
	emit := func(t *rt.CTerm, hs [][]rt.Op) {
		if stopped {
			return
		}
		var rs, gs []string
		for _, h := range hs {
			rs = append(rs, rt.OpsSexp(h))
			g := "SKIPPED(after a timeout)"
			if !stopped {
				g = runOps(t, h)
			}
			gs = append(gs, g)
			nPanicOps += strings.Count(g, "PANIC(")
			nYields += strings.Count(g, "=true")
		}
		fmt.Fprintf(rw, "(k1m %s %s)\n", t.Sexp(), strings.Join(rs, " "))
		fmt.Fprintln(gw, strings.Join(gs, " || "))
		nTerms++
		nHist += len(hs)
		countKinds(t, kinds)
		if len(samples) < 5 && t.Size() >= 3 && nTerms%97 == 0 {
			samples = append(samples, fmt.Sprintf("%s %s => %s", t.Sexp(), rt.OpsSexp(hs[len(hs)-1]), gs[len(gs)-1]))
		}
	}

	if *corpus != "" {
		if data, err := os.ReadFile(*corpus); err == nil {
			for _, line := range strings.Split(string(data), "\n") {
				line = strings.TrimSpace(line)
				if line == "" || strings.HasPrefix(line, "#") {
					continue
				}
				t, hs, err := parseK1m(line)
				if err != nil {
					fmt.Fprintln(os.Stderr, "corpus:", err)
					os.Exit(2)
				}
				emit(t, hs)
			}
		}
	}
	stats["corpus_terms"] = nTerms

	ex := rt.Exhaustive(maxSize, variants, *seed, *panics)
	for _, t := range ex {
		emit(t, hists)
	}
	stats["exhaustive_terms"] = len(ex)
	stats["exhaustive_max_size"] = maxSize
	stats["history_max_len"] = histLen
	stats["histories_per_term"] = len(hists)

	r := rand.New(rand.NewSource(*seed + 77))
	for _, t := range rt.Random(nRandom, rLo, rHi, *seed+1, *panics) {
		hs := [][]rt.Op{rt.Drain(8 + r.Intn(10))}
		for i := 0; i < 3; i++ {
			hs = append(hs, rt.RandomHistory(r, 4+r.Intn(16)))
		}
		emit(t, hs)
	}
	stats["random_terms"] = nRandom
	stats["terms"] = nTerms
	stats["stopped_by_timeout"] = stopped
	stats["histories"] = nHist
	stats["node_kinds"] = kinds
	stats["panicking_ops"] = nPanicOps
	stats["successful_advances"] = nYields
	stats["samples"] = samples
	b, _ := json.MarshalIndent(stats, "", " ")
	os.WriteFile(filepath.Join(*out, "stats.json"), b, 0o644)
}

func countKinds(t *rt.CTerm, m map[string]int) {
	names := []string{"normal", "brk", "cont", "ret", "retv", "bind", "delay", "combine", "loop", "ite", "twice"}
	m[names[t.K]]++
	if t.K == rt.KLoop {
		switch {
		case t.C != nil && t.P != nil:
			m["loop.for"]++
		case t.C != nil:
			m["loop.while"]++
		case t.P != nil:
			m["loop.postonly"]++
		default:
			m["loop.loop"]++
		}
	}
	if t.A != nil {
		countKinds(t.A, m)
	}
	if t.B != nil {
		countKinds(t.B, m)
	}
}

// k1-replay: run one (k1m ...) request against the real runtime and print the answer
func k1Replay(args []string) {
	line := strings.Join(args, " ")
	if len(args) == 1 {
		if data, err := os.ReadFile(args[0]); err == nil {
			line = strings.TrimSpace(string(data))
		}
	}
	t, hs, err := parseK1m(line)
	if err != nil {
		fmt.Fprintln(os.Stderr, err)
		os.Exit(2)
	}
	var gs []string
	for _, h := range hs {
		gs = append(gs, rt.RunOps(t, h))
	}
	fmt.Println(strings.Join(gs, " || "))
}

func parseK1m(line string) (*rt.CTerm, [][]rt.Op, error) {
	n, err := sexp.Parse(line)
	if err != nil {
		return nil, nil, err
	}
	if n.Head() != "k1m" || n.NArgs() < 2 {
		return nil, nil, fmt.Errorf("not a k1m request: %s", line)
	}
	t, err := rt.ParseCTerm(n.Arg(0))
	if err != nil {
		return nil, nil, err
	}
	var hs [][]rt.Op
	for i := 1; i < n.NArgs(); i++ {
		h, err := rt.ParseOps(n.Arg(i))
		if err != nil {
			return nil, nil, err
		}
		hs = append(hs, h)
	}
	return t, hs, nil
}
